/-
C02, execution half — F2: user functions. The relation.

What changes against `RelC` (Proofs/SimCallEnv.lean):

* values correspond modulo the numbering of closures (`trf m`, Proofs/SimTr.lean): variables, heap,
  results;
* the linear scope stack is no longer the static chain of the current environment: inside a
  callee it is `[callee's scopes … its function scope] ++ caller's stack`. `ChainF` follows the
  static chain down to the function scope (the boundary of stage 1 of `LexicalLookupSymbol`) and
  lets anything lie below; the rest of the static chain is what stage 2 searches: the closing
  stack of the running closure object (`FnChainF`). In this file the closures are those of
  top-level `defn`s: they close over the global scope only;
* closure objects correspond to reference closures (`GoodFn`): same parameters, code compiled from
  the closure's body.
-/
import ZygoVerif.Proofs.SimFc
import ZygoVerif.Proofs.SimTr
import ZygoVerif.Proofs.Scope
set_option linter.unusedSimpArgs false
set_option linter.unusedVariables false
namespace ZygoVerif.Sim
open ZygoVerif.Core ZygoVerif.VM

/-- the translation that renames function ids only -/
abbrev trf (m : Nat → Nat) : Val → Val := tr m id id

/-- the translation on what a lookup returns -/
def trp2 (m : Nat → Nat) (p : Nat × Val) : Nat × Val := (p.1, trf m p.2)

/-! ## The live stack against the static chain -/

/-- `ChainF isFn frames b env lin`: from its top, `lin` lists the frames of the static chain of
`env`, scope ids = frame ids, none of them a function scope — down to the global scope
(`b = false`: top level) or down to a function scope, whose frame's parent is the global frame,
with the caller's stack below it (`b = true`: inside a callee). -/
inductive ChainF (isFn : Nat → Bool) (frames : List Ref.Frame) : Bool → Nat → List (Option Nat) → Prop
  | root (fr : Ref.Frame) : frames[0]? = some fr → fr.parent = none → isFn 0 = false →
      ChainF isFn frames false 0 [some 0]
  | cons (b : Bool) (env p : Nat) (fr : Ref.Frame) (rest : List (Option Nat)) :
      frames[env]? = some fr → fr.parent = some p → p < env → isFn env = false →
      ChainF isFn frames b p rest → ChainF isFn frames b env (some env :: rest)
  | fn (env : Nat) (fr : Ref.Frame) (below : List (Option Nat)) :
      frames[env]? = some fr → fr.parent = some 0 → 0 < env → isFn env = true → below ≠ [] →
      ChainF isFn frames true env (some env :: below)

theorem ChainF.head {isFn frames b env lin} (h : ChainF isFn frames b env lin) : ∃ rest, lin = some env :: rest := by
  cases h with
  | root => exact ⟨[], rfl⟩
  | cons _ _ _ _ rest => exact ⟨rest, rfl⟩
  | fn _ _ below => exact ⟨below, rfl⟩

theorem ChainF.lt {isFn frames b env lin} (h : ChainF isFn frames b env lin) : env < frames.length := by
  cases h with
  | root fr h0 _ _ => exact lt_of_getElem?_some h0
  | cons _ _ _ fr _ h0 _ _ _ _ => exact lt_of_getElem?_some h0
  | fn _ fr _ h0 _ _ _ _ => exact lt_of_getElem?_some h0

/-- the variables of related scopes and frames -/
def VarsRel (m : Nat → Nat) (s : St) (rs : Ref.St) : Prop :=
  ∀ i x, (rs.frames.getD i {}).vars.lookup x = ((scopeOf s i).vars.lookup x).map (trf m)

/-- the global frame and scope -/
def Root0 (s : St) (rs : Ref.St) : Prop :=
  ∃ fr, rs.frames[0]? = some fr ∧ fr.parent = none ∧ isFnScope s 0 = false

/-- stage 1 of the lookup along the live stack, against the reference lookup -/
theorem stage1F {m : Nat → Nat} {s : St} {rs : Ref.St} (hv : VarsRel m s rs) (h0 : Root0 s rs) (x : String) :
    ∀ {b env lin}, ChainF (isFnScope s) rs.frames b env lin → ∀ fuel, env + 2 ≤ fuel →
      Ref.lookupIn rs.frames fuel env x =
        match lookupUntilFn s x false lin with
        | some r => some (trp2 m r)
        | none => if b then ((scopeOf s 0).vars.lookup x).map (fun v => (0, trf m v)) else none := by
  intro b env lin hc
  induction hc with
  | root fr hf hp hfl =>
    intro fuel hfu
    obtain ⟨f, rfl⟩ : ∃ f, fuel = f + 1 := ⟨fuel - 1, by omega⟩
    have hvx := hv 0 x
    rw [List.getD_eq_getElem?_getD, hf, Option.getD_some] at hvx
    have hfl' : (scopeOf s 0).isFunction = false := hfl
    simp only [Ref.lookupIn, hf, hvx, lookupUntilFn, hfl']
    cases (scopeOf s 0).vars.lookup x with
    | some v => rfl
    | none => simp [hp]
  | cons b env p fr rest hf hp hlt hfl _ ih =>
    intro fuel hfu
    obtain ⟨f, rfl⟩ : ∃ f, fuel = f + 1 := ⟨fuel - 1, by omega⟩
    have hvx := hv env x
    rw [List.getD_eq_getElem?_getD, hf, Option.getD_some] at hvx
    have hfl' : (scopeOf s env).isFunction = false := hfl
    simp only [Ref.lookupIn, hf, hvx, lookupUntilFn, hfl']
    cases (scopeOf s env).vars.lookup x with
    | some v => rfl
    | none => simp only [Option.map_none, hp, Bool.false_eq_true, if_false]; exact ih f (by omega)
  | fn env fr below hf hp hpos hfl _ =>
    intro fuel hfu
    obtain ⟨f, rfl⟩ : ∃ f, fuel = (f + 1) + 1 := ⟨fuel - 2, by omega⟩
    have hvx := hv env x
    rw [List.getD_eq_getElem?_getD, hf, Option.getD_some] at hvx
    have hfl' : (scopeOf s env).isFunction = true := hfl
    obtain ⟨fr0, hf0, hp0, _⟩ := h0
    have hv0 := hv 0 x
    rw [List.getD_eq_getElem?_getD, hf0, Option.getD_some] at hv0
    simp only [Ref.lookupIn, hf, hvx, lookupUntilFn, hfl']
    cases (scopeOf s env).vars.lookup x with
    | some v => rfl
    | none =>
      simp only [Option.map_none, hp, if_true, Bool.false_eq_true, if_false, hf0, hv0]
      cases (scopeOf s 0).vars.lookup x with
      | some v => rfl
      | none => simp [hp0]

/-! ## The function chain: what stage 2 searches -/

/-- the live stack from its top down to and including the first function scope -/
def topSeg (s : St) : List (Option Nat) := Scope.takeToBoundary (isFnScope s) s.linear

theorem lookupUntilFn_takeToBoundary (s : St) (x : String) : ∀ (l : List (Option Nat)),
    lookupUntilFn s x false (Scope.takeToBoundary (isFnScope s) l) = lookupUntilFn s x false l
  | [] => rfl
  | none :: rest => by
    simp only [Scope.takeToBoundary, Scope.isFnElem, Bool.false_eq_true, if_false, lookupUntilFn]
    exact lookupUntilFn_takeToBoundary s x rest
  | some id :: rest => by
    simp only [Scope.takeToBoundary]
    by_cases hf : Scope.isFnElem (isFnScope s) (some id) = true
    · have hf' : (scopeOf s id).isFunction = true := hf
      rw [if_pos hf]
      simp only [lookupUntilFn, hf', Bool.false_eq_true, if_false, if_true]
    · have hf' : (scopeOf s id).isFunction = false := by simpa [Scope.isFnElem, isFnScope] using hf
      rw [if_neg hf]
      simp only [Bool.false_eq_true, if_false, lookupUntilFn, hf']
      rw [lookupUntilFn_takeToBoundary s x rest]

/-- a suffix of the top segment holds nothing the top segment does not hold -/
theorem lookupUntilFn_seg_suffix (s : St) (x : String) : ∀ (t l c : List (Option Nat)),
    Scope.takeToBoundary (isFnScope s) l = t ++ c →
    lookupUntilFn s x false (Scope.takeToBoundary (isFnScope s) l) = none → lookupUntilFn s x false c = none
  | [], l, c, h, hn => by rw [h] at hn; exact hn
  | a :: t, [], c, h, _ => by simp [Scope.takeToBoundary] at h
  | a :: t, y :: rest, c, h, hn => by
    simp only [Scope.takeToBoundary] at h hn
    by_cases hy : Scope.isFnElem (isFnScope s) y = true
    · rw [if_pos hy] at h
      have : t ++ c = [] := by
        have := congrArg List.tail h
        simpa using this.symm
      have hc : c = [] := (List.append_eq_nil_iff.mp this).2
      subst hc; rfl
    · rw [if_neg hy] at h hn
      have hay : y = a := (List.cons.inj h).1
      have hrest : Scope.takeToBoundary (isFnScope s) rest = t ++ c := (List.cons.inj h).2
      refine lookupUntilFn_seg_suffix s x t rest c hrest ?_
      cases y with
      | none => simpa only [lookupUntilFn] using hn
      | some id =>
        have hf' : (scopeOf s id).isFunction = false := by simpa [Scope.isFnElem, isFnScope] using hy
        simp only [lookupUntilFn, hf'] at hn
        cases hl : (scopeOf s id).vars.lookup x with
        | some v => rw [hl] at hn; cases hn
        | none => rw [hl] at hn; simpa using hn

/-- `FnChainF s b f`: the parent chain of function `f` — helper functions of operand evaluation,
whose closing stacks are suffixes of the top segment of the live stack; then, inside a callee
(`b = true`), the running closure object, closing over the global scope, made by a parentless
function; at top level (`b = false`) a parentless function whose closing stack is such a suffix. -/
inductive FnChainF (s : St) : Bool → Nat → Prop
  | root (f : Nat) : f < s.fns.length → (fnOf s f).parent = none →
      (∃ t, topSeg s = t ++ (fnOf s f).closing) → FnChainF s false f
  | step (b : Bool) (f p : Nat) : f < s.fns.length → (fnOf s f).parent = some p → p < f →
      (∃ t, topSeg s = t ++ (fnOf s f).closing) → FnChainF s b p → FnChainF s b f
  | clos (f p : Nat) : f < s.fns.length → (fnOf s f).parent = some p → p < f →
      (fnOf s f).closing = [some 0] → (fnOf s p).parent = none → FnChainF s true f

theorem FnChainF.lt {s b f} (h : FnChainF s b f) : f < s.fns.length := by cases h <;> assumption

theorem lookupChain_parentless (s : St) (x : String) (p : Nat) (hp : (fnOf s p).parent = none) :
    ∀ fuel, lookupChain s x fuel p = none
  | 0 => rfl
  | fuel + 1 => by simp only [lookupChain, hp]

/-- the walk along the parent chain when stage 1 found nothing -/
theorem lookupChainF {s : St} (x : String) (h1 : lookupUntilFn s x false s.linear = none)
    (h0 : isFnScope s 0 = false) : ∀ {b f}, FnChainF s b f → ∀ fuel, f + 1 ≤ fuel →
      lookupChain s x fuel f = if b then ((scopeOf s 0).vars.lookup x).map (fun v => (0, v)) else none := by
  have hseg : lookupUntilFn s x false (topSeg s) = none := by
    unfold topSeg; rw [lookupUntilFn_takeToBoundary]; exact h1
  intro b f hc
  induction hc with
  | root f hlt hp hs => intro fuel _; rw [lookupChain_parentless s x f hp]; rfl
  | step b f p hlt hp hpf hs _ ih =>
    intro fuel hfu
    obtain ⟨k, rfl⟩ : ∃ k, fuel = k + 1 := ⟨fuel - 1, by omega⟩
    obtain ⟨t, ht⟩ := hs
    have hclo := lookupUntilFn_seg_suffix s x t s.linear _ ht hseg
    simp only [lookupChain, hp, hclo]
    exact ih k (by omega)
  | clos f p hlt hp hpf hclo hpp =>
    intro fuel hfu
    obtain ⟨k, rfl⟩ : ∃ k, fuel = k + 1 := ⟨fuel - 1, by omega⟩
    have h0' : (scopeOf s 0).isFunction = false := h0
    simp only [lookupChain, hp, hclo, lookupUntilFn, h0', if_true]
    cases (scopeOf s 0).vars.lookup x with
    | some v => rfl
    | none => simp only [Bool.false_eq_true, if_false, lookupChain_parentless s x p hpp]; rfl

/-- every function scope belongs to a template that closes over the global scope only -/
def FScopes (s : St) : Prop :=
  ∀ i, isFnScope s i = true → ∃ t, (scopeOf s i).myFunction = some t ∧ (fnOf s t).closing = [some 0]

/-- stage 3 finds nothing either -/
theorem stage3F {s : St} {frames : List Ref.Frame} (x : String) (hfs : FScopes s) (h0 : isFnScope s 0 = false) :
    ∀ {b env lin}, ChainF (isFnScope s) frames b env lin → lookupUntilFn s x false lin = none →
      (b = true → (scopeOf s 0).vars.lookup x = none) → lookupUntilFn s x true lin = none := by
  intro b env lin hc
  induction hc with
  | root fr hf hp hfl =>
    intro h1 _
    have hfl' : (scopeOf s 0).isFunction = false := hfl
    simp only [lookupUntilFn, hfl'] at h1 ⊢
    exact h1
  | cons b env p fr rest hf hp hlt hfl _ ih =>
    intro h1 hb
    have hfl' : (scopeOf s env).isFunction = false := hfl
    simp only [lookupUntilFn, hfl'] at h1 ⊢
    cases hl : (scopeOf s env).vars.lookup x with
    | some v => rw [hl] at h1; cases h1
    | none => rw [hl] at h1; simp only [Bool.false_eq_true, if_false] at h1 ⊢; exact ih h1 hb
  | fn env fr below hf hp hpos hfl _ =>
    intro h1 hb
    have hfl' : (scopeOf s env).isFunction = true := hfl
    obtain ⟨t, hmy, hclo⟩ := hfs env hfl
    have h0' : (scopeOf s 0).isFunction = false := h0
    simp only [lookupUntilFn, hfl'] at h1 ⊢
    cases hl : (scopeOf s env).vars.lookup x with
    | some v => rw [hl] at h1; cases h1
    | none => simp only [if_true, hmy, hclo, lookupWhole, hb rfl]

/-! ## The fragment F2a -/

/-- the global names that are not first-order builtins; the fragment does not mention them -/
def hoNames : List String := ["map", "apply", "force", "substitute"]

def okSym (x : String) : Bool := !hoNames.contains x

/-- a name the fragment may bind: no builtin of either kind -/
def okName (x : String) : Bool := okBinder x && okSym x

/-- a parameter: such a name, not lazy -/
def okParam (p : String) : Bool := okName p && !p.startsWith "#"

mutual
/-- F2a expressions. `self`: the name of the function whose body this is (a call of it in a
directly compiled position could be compiled as a self tail call — that is F2c). Operands of calls
are compiled at run time, outside any function: `self = ""` there. -/
def Ff (self : String) : Expr → Bool
  | .int _ | .bool _ | .str _ | .nilLit => true
  | .sym x => okSym x
  | .begin_ es => FfList self es
  | .def_ x e => okName x && Ff self e
  | .set_ x e => okName x && Ff self e
  | .cond arms d => FfArms self arms && Ff self d
  | .call (.sym h) args => (h != self) && (h != "") && okSym h && FaList args
  | _ => false
def FfList (self : String) : List Expr → Bool
  | [] => true
  | e :: es => Ff self e && FfList self es
def FfArms (self : String) : List (Expr × Expr) → Bool
  | [] => true
  | (p, b) :: r => Ff self p && Ff self b && FfArms self r
def FaList : List Expr → Bool
  | [] => true
  | e :: es => Ff "" e && FaList es
end

/-! ## Closure objects against reference closures -/

/-- the code `buildSexpFun` gives a function: prologue (function scope, parameters bound from the
stack, last first), body, epilogue -/
def fnCode (t : Nat) (ps : List String) (b : List Instr) : List Instr :=
  [.addFuncScope t] ++ (ps.map Instr.popStackPutEnv).reverse ++ b ++ [.removeScope, .ret]

/-- VM function `vid` is a closure object for the reference closure `m vid`: made by a top-level
`defn` — closes over the global scope, parameters as declared, code compiled from the body -/
structure GoodFn (m : Nat → Nat) (s : St) (rs : Ref.St) (vid : Nat) : Prop where
  lt : vid < s.fns.length
  nm : mainFn < vid
  clo : ∃ c, rs.clos[m vid]? = some c ∧ c.env = 0 ∧ c.rest = none ∧ c.ps.Nodup ∧ (∀ p ∈ c.ps, okParam p = true)
    ∧ c.body ≠ [] ∧ (fnOf s vid).params = c.ps ∧ (fnOf s vid).nargs = c.ps.length ∧ (fnOf s vid).varargs = false
    ∧ (fnOf s vid).user = false ∧ (fnOf s vid).closing = [some 0]
    ∧ (∃ p, (fnOf s vid).parent = some p ∧ p < vid ∧ (fnOf s p).parent = none)
    ∧ ∃ t b tl isFn cb gs0 gs1 self, (fnOf s vid).code = fnCode t c.ps b ∧ t < s.fns.length
        ∧ (fnOf s t).closing = [some 0] ∧ (compileBegin isFn cb c.body).run gs0 = .ok ((b, tl), gs1) ∧ cb.scopes = 0
        ∧ (cb.funcname = self ∨ cb.funcname = "") ∧ FfList self c.body = true

/-- the reference closure table only grows -/
def ClosExt (rs rs' : Ref.St) : Prop := ∀ (i : Nat) (c : Ref.Clos), rs.clos[i]? = some c → rs'.clos[i]? = some c

theorem ClosExt.refl (rs : Ref.St) : ClosExt rs rs := fun _ _ h => h
theorem ClosExt.trans {a b c : Ref.St} (h₁ : ClosExt a b) (h₂ : ClosExt b c) : ClosExt a c :=
  fun i x h => h₂ i x (h₁ i x h)

theorem GoodFn.mono {m m' : Nat → Nat} {s s' : St} {rs rs' : Ref.St} {vid : Nat} (h : GoodFn m s rs vid)
    (hlen : s.fns.length ≤ s'.fns.length) (hfns : ∀ id, id < s.fns.length → fnOf s' id = fnOf s id)
    (hclos : ClosExt rs rs') (hm : m' vid = m vid) : GoodFn m' s' rs' vid := by
  obtain ⟨hlt, hnm, c, h1, h2, h3, h4, h5, h6, h7, h8, h9, h10, h11, ⟨p, hp1, hp2, hp3⟩,
    t, b, tl, isFn, cb, gs0, gs1, self, hc1, hc2, hc3, hc4, hc5, hc6, hc7⟩ := h
  have e := hfns vid hlt
  refine ⟨Nat.lt_of_lt_of_le hlt hlen, hnm, c, by rw [hm]; exact hclos _ _ h1, h2, h3, h4, h5, h6, by rw [e]; exact h7,
    by rw [e]; exact h8, by rw [e]; exact h9, by rw [e]; exact h10, by rw [e]; exact h11,
    ⟨p, by rw [e]; exact hp1, hp2, by rw [hfns p (by omega)]; exact hp3⟩,
    t, b, tl, isFn, cb, gs0, gs1, self, by rw [e]; exact hc1, Nat.lt_of_lt_of_le hc2 hlen,
    by rw [hfns t hc2]; exact hc3, hc4, hc5, hc6, hc7⟩

/-- a value of the VM state is in order: its functions are closure objects with their reference
closures, its builtins first-order, no stack mark in it -/
def VOk (m : Nat → Nat) (s : St) (rs : Ref.St) (v : Val) : Prop :=
  ValIn (GoodFn m s rs) (· ∈ foBuiltins) (fun _ => False) v

/-- a value bound to the name `x`: in order if `x` is a name the fragment may mention; the global
bindings of the other builtins (`map`, `apply`, …) are only required to mention good functions -/
def VOkN (m : Nat → Nat) (s : St) (rs : Ref.St) (x : String) (v : Val) : Prop :=
  ValIn (GoodFn m s rs) (fun n => okSym x = true → n ∈ foBuiltins) (fun _ => okSym x = false) v

theorem VOkN.ok {m s rs x v} (h : VOkN m s rs x v) (hx : okSym x = true) : VOk m s rs v :=
  ValIn.imp h (fun _ hg => hg) (fun _ hn => hn hx) (fun _ hl => by rw [hx] at hl; cases hl)

theorem VOk.named {m s rs v} (h : VOk m s rs v) (x : String) : VOkN m s rs x v :=
  ValIn.imp h (fun _ hg => hg) (fun _ hn _ => hn) (fun _ hl => hl.elim)

def HOk (m : Nat → Nat) (s : St) (rs : Ref.St) (h : DataHeap) : Prop :=
  HeapIn (GoodFn m s rs) (· ∈ foBuiltins) (fun _ => False) h

/-! ## The relation -/

structure RelF (m : Nat → Nat) (s : St) (rs : Ref.St) (env : Nat) : Prop where
  len : s.scopes.length = rs.frames.length
  vars : VarsRel m s rs
  root0 : Root0 s rs
  ctx : ∃ b, ChainF (isFnScope s) rs.frames b env s.linear ∧ FnChainF s b s.curfunc
  fscopes : FScopes s
  heap : rs.heap = trHeap m id id s.heap
  trace : s.trace = rs.trace
  globals : Globals rs
  vok : ∀ i x v, (scopeOf s i).vars.lookup x = some v → VOkN m s rs x v
  hok : HOk m s rs s.heap

/-- **Lookup**: under `RelF`, the three stages of `LexicalLookupSymbol` find what the reference
lookup finds — same scope/frame index, corresponding values. -/
theorem RelF.lexLookup {m s rs env} (h : RelF m s rs env) (x : String) :
    (lexLookup s x).map (trp2 m) = Ref.lookup rs env x := by
  obtain ⟨b, hc, hfc⟩ := h.ctx
  have hroot := h.root0
  obtain ⟨fr0, hf0, hp0, hfl0⟩ := hroot
  have st1 := stage1F h.vars h.root0 x hc (rs.frames.length + 1) (by have := hc.lt; omega)
  unfold Ref.lookup
  rw [st1]
  unfold VM.lexLookup
  cases h1 : lookupUntilFn s x false s.linear with
  | some r => rfl
  | none =>
    have hseg : lookupUntilFn s x false (topSeg s) = none := by
      unfold topSeg; rw [lookupUntilFn_takeToBoundary]; exact h1
    have hcl := hfc.lt
    have hlc := fun (hcf : FnChainF s b s.curfunc) => lookupChainF x h1 hfl0 hcf (s.fns.length + 1) (by omega)
    simp only
    cases hfc with
    | root f hlt hp hs =>
      obtain ⟨t, ht⟩ := hs
      have hclo := lookupUntilFn_seg_suffix s x t s.linear _ ht hseg
      have h3 := stage3F x h.fscopes hfl0 hc h1 (fun hh => by cases hh)
      simp only [hp, Option.isSome_none, Bool.false_eq_true, if_false, hclo, h3, Option.map_none]
    | step b f p hlt hp hpf hs hrest =>
      have hl := hlc (FnChainF.step b _ p hlt hp hpf hs hrest)
      simp only [hp, Option.isSome_some, if_true, hl]
      cases b with
      | false =>
        have h3 := stage3F x h.fscopes hfl0 hc h1 (fun hh => by cases hh)
        simp only [Bool.false_eq_true, if_false, h3, Option.map_none]
      | true =>
        simp only [if_true]
        cases hl0 : (scopeOf s 0).vars.lookup x with
        | some v => rfl
        | none =>
          have h3 := stage3F x h.fscopes hfl0 hc h1 (fun _ => hl0)
          simp only [Option.map_none, h3]
    | clos f p hlt hp hpf hclo hpp =>
      have hl := hlc (FnChainF.clos _ p hlt hp hpf hclo hpp)
      simp only [hp, Option.isSome_some, if_true, hl]
      cases hl0 : (scopeOf s 0).vars.lookup x with
      | some v => rfl
      | none =>
        have h3 := stage3F x h.fscopes hfl0 hc h1 (fun _ => hl0)
        simp only [Option.map_none, h3]

/-! ## What a piece of code may leave changed -/

/-- `Frame`, and the scope table only grew, old scopes keeping their function flags -/
structure FrameF (s s' : St) : Prop extends Frame s s' where
  scLen : s.scopes.length ≤ s'.scopes.length
  flags : ∀ i, i < s.scopes.length → isFnScope s' i = isFnScope s i

theorem FrameF.refl (s : St) : FrameF s s := ⟨Frame.refl s, Nat.le_refl _, fun _ _ => rfl⟩

theorem FrameF.trans {a b c : St} (h₁ : FrameF a b) (h₂ : FrameF b c) : FrameF a c :=
  ⟨h₁.toFrame.trans h₂.toFrame, Nat.le_trans h₁.scLen h₂.scLen,
   fun i hi => (h₂.flags i (Nat.lt_of_lt_of_le hi h₁.scLen)).trans (h₁.flags i hi)⟩

theorem FrameF.jmp (s : St) (p : Int) (d : List (Option Val)) : FrameF s (s.jmp p d) :=
  ⟨Frame.jmp s p d, Nat.le_refl _, fun _ _ => rfl⟩

theorem isFnScope_bind (s : St) (id : Nat) (x : String) (v : Val) (i : Nat) :
    isFnScope (s.bind id x v) i = isFnScope s i := by
  unfold isFnScope
  rw [scopeOf_bind]
  split
  · rename_i h; rw [h.1]
  · rfl

theorem FrameF.bind (s : St) (id : Nat) (x : String) (v : Val) : FrameF s (s.bind id x v) :=
  ⟨Frame.bind s id x v, by show s.scopes.length ≤ (s.scopes.set id _).length; simp,
   fun i _ => isFnScope_bind s id x v i⟩

/-- the reference state only grew: frames (parents kept) and closures -/
def RExt (rs rs' : Ref.St) : Prop := FramesExt rs rs' ∧ ClosExt rs rs'

theorem RExt.refl (rs : Ref.St) : RExt rs rs := ⟨FramesExt.refl rs, ClosExt.refl rs⟩
theorem RExt.trans {a b c : Ref.St} (h₁ : RExt a b) (h₂ : RExt b c) : RExt a c :=
  ⟨h₁.1.trans h₂.1, h₁.2.trans h₂.2⟩

/-- the id map was only extended: old function ids keep their closure ids -/
def MExt (s : St) (m m' : Nat → Nat) : Prop := ∀ id, id < s.fns.length → m' id = m id

theorem MExt.refl (s : St) (m : Nat → Nat) : MExt s m m := fun _ _ => rfl
theorem MExt.trans {s s' : St} {m m' m'' : Nat → Nat} (h₁ : MExt s m m') (h₂ : MExt s' m' m'')
    (hlen : s.fns.length ≤ s'.fns.length) : MExt s m m'' :=
  fun id hid => (h₂ id (Nat.lt_of_lt_of_le hid hlen)).trans (h₁ id hid)

/-- good functions stay good -/
theorem GoodFn.ext {m m' : Nat → Nat} {s s' : St} {rs rs' : Ref.St} {vid : Nat} (h : GoodFn m s rs vid)
    (hf : Frame s s') (hr : RExt rs rs') (hm : MExt s m m') : GoodFn m' s' rs' vid :=
  h.mono hf.fnsLen hf.fns hr.2 (hm vid h.lt)

theorem VOk.ext {m m' : Nat → Nat} {s s' : St} {rs rs' : Ref.St} {v : Val} (h : VOk m s rs v)
    (hf : Frame s s') (hr : RExt rs rs') (hm : MExt s m m') : VOk m' s' rs' v :=
  ValIn.mono h (fun _ hg => hg.ext hf hr hm)

theorem HOk.ext {m m' : Nat → Nat} {s s' : St} {rs rs' : Ref.St} {h : DataHeap} (hh : HOk m s rs h)
    (hf : Frame s s') (hr : RExt rs rs') (hm : MExt s m m') : HOk m' s' rs' h :=
  HeapIn.mono hh (fun _ hg => hg.ext hf hr hm)

/-- the translation of an orderly value does not depend on how the map was extended -/
theorem VOk.tr_ext {m m' : Nat → Nat} {s : St} {rs : Ref.St} {v : Val} (h : VOk m s rs v) (hm : MExt s m m') :
    trf m' v = trf m v :=
  h m' m id id id id ⟨fun id hg => hm id hg.lt, fun _ _ => rfl, fun _ _ => rfl⟩

theorem HOk.tr_ext {m m' : Nat → Nat} {s : St} {rs : Ref.St} {h : DataHeap} (hh : HOk m s rs h) (hm : MExt s m m') :
    trHeap m' id id h = trHeap m id id h :=
  hh m' m id id id id ⟨fun id hg => hm id hg.lt, fun _ _ => rfl, fun _ _ => rfl⟩

/-! ## Congruence: the relation reads scopes, functions, the live stack and `curfunc` only -/

theorem ChainF.congr {isFn isFn' : Nat → Bool} {frames frames' : List Ref.Frame}
    (hfl : ∀ i, i < frames.length → isFn' i = isFn i)
    (hext : ∀ (i : Nat) (fr : Ref.Frame), frames[i]? = some fr →
      ∃ fr' : Ref.Frame, frames'[i]? = some fr' ∧ fr'.parent = fr.parent) :
    ∀ {b env lin}, ChainF isFn frames b env lin → ChainF isFn' frames' b env lin := by
  intro b env lin h
  induction h with
  | root fr hf hp hfl0 =>
    obtain ⟨fr', hf', hp'⟩ := hext 0 fr hf
    exact ChainF.root fr' hf' (hp'.trans hp) (by rw [hfl 0 (lt_of_getElem?_some hf)]; exact hfl0)
  | cons b env p fr rest hf hp hlt hfl0 _ ih =>
    obtain ⟨fr', hf', hp'⟩ := hext env fr hf
    exact ChainF.cons b env p fr' rest hf' (hp'.trans hp) hlt (by rw [hfl env (lt_of_getElem?_some hf)]; exact hfl0) ih
  | fn env fr below hf hp hpos hfl0 hne =>
    obtain ⟨fr', hf', hp'⟩ := hext env fr hf
    exact ChainF.fn env fr' below hf' (hp'.trans hp) hpos (by rw [hfl env (lt_of_getElem?_some hf)]; exact hfl0) hne

/-- the top segment of a chained stack reads the flags of the chain's frames only -/
theorem takeToBoundary_chain {isFn isFn' : Nat → Bool} {frames : List Ref.Frame}
    (hfl : ∀ i, i < frames.length → isFn' i = isFn i) :
    ∀ {b env lin}, ChainF isFn frames b env lin →
      Scope.takeToBoundary isFn' lin = Scope.takeToBoundary isFn lin := by
  intro b env lin h
  induction h with
  | root fr hf hp hfl0 =>
    have e : Scope.isFnElem isFn' (some 0) = Scope.isFnElem isFn (some 0) := hfl 0 (lt_of_getElem?_some hf)
    simp only [Scope.takeToBoundary, e]
  | cons b env p fr rest hf hp hlt hfl0 _ ih =>
    have e : Scope.isFnElem isFn' (some env) = Scope.isFnElem isFn (some env) := hfl env (lt_of_getElem?_some hf)
    simp only [Scope.takeToBoundary, e, ih]
  | fn env fr below hf hp hpos hfl0 hne =>
    have e : Scope.isFnElem isFn' (some env) = Scope.isFnElem isFn (some env) := hfl env (lt_of_getElem?_some hf)
    have e2 : Scope.isFnElem isFn (some env) = true := hfl0
    simp only [Scope.takeToBoundary, e, e2, if_true]

theorem FnChainF.transfer {s s' : St} (hseg : topSeg s' = topSeg s) (hlen : s.fns.length ≤ s'.fns.length)
    (hfns : ∀ id, id < s.fns.length → fnOf s' id = fnOf s id) : ∀ {b f}, FnChainF s b f → FnChainF s' b f := by
  intro b f h
  induction h with
  | root f hlt hp hs =>
    exact FnChainF.root f (Nat.lt_of_lt_of_le hlt hlen) (by rw [hfns f hlt]; exact hp) (by rw [hseg, hfns f hlt]; exact hs)
  | step b f p hlt hp hpf hs _ ih =>
    exact FnChainF.step b f p (Nat.lt_of_lt_of_le hlt hlen) (by rw [hfns f hlt]; exact hp) hpf
      (by rw [hseg, hfns f hlt]; exact hs) ih
  | clos f p hlt hp hpf hclo hpp =>
    exact FnChainF.clos f p (Nat.lt_of_lt_of_le hlt hlen) (by rw [hfns f hlt]; exact hp) hpf
      (by rw [hfns f hlt]; exact hclo) (by rw [hfns p (by omega)]; exact hpp)

/-- a state with the same scopes, functions, live stack and current function, against a reference
state with the same frames and closures -/
theorem RelF.of_same {m : Nat → Nat} {s s' : St} {rs rs' : Ref.St} {env : Nat} (h : RelF m s rs env)
    (hsc : s'.scopes = s.scopes) (hlin : s'.linear = s.linear) (hfns : s'.fns = s.fns) (hcur : s'.curfunc = s.curfunc)
    (hfr : rs'.frames = rs.frames) (hcl : rs'.clos = rs.clos) (hheap : rs'.heap = trHeap m id id s'.heap)
    (htr : s'.trace = rs'.trace) (hok : HOk m s rs s'.heap) : RelF m s' rs' env := by
  have hso : ∀ i, scopeOf s' i = scopeOf s i := fun i => by unfold scopeOf; rw [hsc]
  have hfo : ∀ i, fnOf s' i = fnOf s i := fun i => by unfold fnOf; rw [hfns]
  have hfl : isFnScope s' = isFnScope s := by funext i; unfold isFnScope; rw [hso]
  have hgood : ∀ id, GoodFn m s rs id → GoodFn m s' rs' id := fun id hg =>
    hg.mono (by rw [hfns]; exact Nat.le_refl _) (fun i _ => hfo i) (fun i c hc => by rw [hcl]; exact hc) rfl
  obtain ⟨b, hc, hfc⟩ := h.ctx
  obtain ⟨fr0, hf0, hp0, hfl0⟩ := h.root0
  refine ⟨by rw [hsc, hfr]; exact h.len, fun i x => by rw [hfr, hso]; exact h.vars i x,
    ⟨fr0, by rw [hfr]; exact hf0, hp0, by rw [hfl]; exact hfl0⟩, ⟨b, by rw [hfl, hfr, hlin]; exact hc, ?_⟩,
    fun i hi => by rw [hfl] at hi; obtain ⟨t, h1, h2⟩ := h.fscopes i hi; exact ⟨t, by rw [hso]; exact h1, by rw [hfo]; exact h2⟩,
    hheap, htr, fun hh hm => by rw [hfr]; exact h.globals hh hm,
    fun i x v hv => ValIn.mono (h.vok i x v (by rw [← hso]; exact hv)) hgood, HeapIn.mono hok hgood⟩
  rw [hcur]
  exact hfc.transfer (by unfold topSeg; rw [hfl, hlin]) (by rw [hfns]; exact Nat.le_refl _) (fun i _ => hfo i)

theorem RelF.jmp {m s rs env} (h : RelF m s rs env) (p : Int) (d : List (Option Val)) : RelF m (s.jmp p d) rs env :=
  h.of_same rfl rfl rfl rfl rfl rfl h.heap h.trace h.hok

/-! ## Assignments -/

theorem okName_binder {x : String} (h : okName x = true) : okBinder x = true := by
  unfold okName at h; simp only [Bool.and_eq_true] at h; exact h.1

theorem okName_sym {x : String} (h : okName x = true) : okSym x = true := by
  unfold okName at h; simp only [Bool.and_eq_true] at h; exact h.2

theorem setVar_clos (rs : Ref.St) (id : Nat) (x : String) (v : Val) : (Ref.setVar rs id x v).clos = rs.clos := by
  unfold Ref.setVar; split <;> rfl

theorem setVar_heap (rs : Ref.St) (id : Nat) (x : String) (v : Val) : (Ref.setVar rs id x v).heap = rs.heap := by
  unfold Ref.setVar; split <;> rfl

theorem setVar_trace (rs : Ref.St) (id : Nat) (x : String) (v : Val) : (Ref.setVar rs id x v).trace = rs.trace := by
  unfold Ref.setVar; split <;> rfl

/-- Binding `x := v` in scope `id` / `x := tr v` in frame `id` keeps the relation. -/
theorem RelF.bind {m s rs env} (h : RelF m s rs env) (id : Nat) (hid : id < rs.frames.length) {x : String}
    (hx : okName x = true) {v : Val} (hv : VOk m s rs v) :
    RelF m (s.bind id x v) (Ref.setVar rs id x (trf m v)) env := by
  obtain ⟨fr, hfr⟩ : ∃ fr, rs.frames[id]? = some fr := ⟨rs.frames[id], by simp [hid]⟩
  have hset : Ref.setVar rs id x (trf m v)
      = { rs with frames := rs.frames.set id { fr with vars := VM.assocSet fr.vars x (trf m v) } } := by
    unfold Ref.setVar; rw [hfr]; rfl
  have hlen : id < s.scopes.length := by rw [h.len]; exact hid
  have hfl : isFnScope (s.bind id x v) = isFnScope s := funext (isFnScope_bind s id x v)
  have hext := FramesExt.setVar rs id x (trf m v)
  have hgood : ∀ k, GoodFn m s rs k → GoodFn m (s.bind id x v) (Ref.setVar rs id x (trf m v)) k := fun k hg =>
    hg.mono (Nat.le_refl _) (fun _ _ => rfl) (fun i c hc => by rw [setVar_clos]; exact hc) rfl
  obtain ⟨b, hc, hfc⟩ := h.ctx
  obtain ⟨fr0, hf0, hp0, hfl0⟩ := h.root0
  refine ⟨?_, ?_, ?_, ⟨b, ?_, ?_⟩, ?_, by rw [setVar_heap]; exact h.heap, by rw [setVar_trace]; exact h.trace,
    h.globals.setVar id (okName_binder hx) _, ?_, HeapIn.mono h.hok hgood⟩
  · rw [hset]; show (s.scopes.set id _).length = (rs.frames.set id _).length
    simp [h.len]
  · intro i y
    rw [scopeOf_bind, hset]
    show ((rs.frames.set id _).getD i {}).vars.lookup y = _
    by_cases hi : i = id
    · subst hi
      have hvx := h.vars i y
      rw [List.getD_eq_getElem?_getD, hfr, Option.getD_some] at hvx
      simp only [hlen, and_self, if_true, List.getD_eq_getElem?_getD, List.getElem?_set_self hid, Option.getD_some,
        lookup_assocSet, hvx]
      split <;> rfl
    · have hi' : ¬ id = i := fun e => hi e.symm
      simp only [hi, false_and, if_false, List.getD_eq_getElem?_getD, List.getElem?_set_ne hi']
      have hvx := h.vars i y
      rw [List.getD_eq_getElem?_getD] at hvx
      exact hvx
  · obtain ⟨fr0', hf0', hp0'⟩ := hext 0 fr0 hf0
    exact ⟨fr0', hf0', hp0'.trans hp0, by rw [hfl]; exact hfl0⟩
  · rw [hfl]; exact hc.congr (fun _ _ => rfl) hext
  · have hts : topSeg (s.bind id x v) = topSeg s := by
      show Scope.takeToBoundary (isFnScope (s.bind id x v)) s.linear = Scope.takeToBoundary (isFnScope s) s.linear
      rw [hfl]
    exact hfc.transfer (s' := s.bind id x v) hts (Nat.le_refl _) (fun _ _ => rfl)
  · intro i hi
    rw [hfl] at hi
    obtain ⟨t, h1, h2⟩ := h.fscopes i hi
    refine ⟨t, ?_, h2⟩
    rw [scopeOf_bind]
    split
    · rename_i hh; rw [← hh.1]; exact h1
    · exact h1
  · intro i y w hw
    rw [scopeOf_bind] at hw
    split at hw
    · rename_i hh
      simp only [lookup_assocSet] at hw
      split at hw
      · injection hw with hw; subst hw; exact ValIn.mono (hv.named y) hgood
      · exact ValIn.mono (h.vok id y w hw) hgood
    · exact ValIn.mono (h.vok i y w hw) hgood

/-! ## Helper functions of operand evaluation; coming back to a caller -/

theorem chain_trims {isFn : Nat → Bool} {frames : List Ref.Frame} :
    ∀ {b env lin}, ChainF isFn frames b env lin → Scope.trims isFn lin = b := by
  intro b env lin h
  induction h with
  | root fr hf hp hfl0 =>
    have e : Scope.isFnElem isFn (some 0) = false := hfl0
    simp only [Scope.trims, e, Bool.false_eq_true, if_false]
  | cons b env p fr rest hf hp hlt hfl0 _ ih =>
    have e : Scope.isFnElem isFn (some env) = false := hfl0
    simp only [Scope.trims, e, Bool.false_eq_true, if_false, ih]
  | fn env fr below hf hp hpos hfl0 hne =>
    have e : Scope.isFnElem isFn (some env) = true := hfl0
    simp only [Scope.trims, e, if_true]
    cases below with
    | nil => exact absurd rfl hne
    | cons _ _ => rfl

theorem chain_ttb_top {isFn : Nat → Bool} {frames : List Ref.Frame} :
    ∀ {b env lin}, ChainF isFn frames b env lin → b = false → Scope.takeToBoundary isFn lin = lin := by
  intro b env lin h
  induction h with
  | root fr hf hp hfl0 =>
    intro _
    have e : Scope.isFnElem isFn (some 0) = false := hfl0
    simp only [Scope.takeToBoundary, e, Bool.false_eq_true, if_false]
  | cons b env p fr rest hf hp hlt hfl0 _ ih =>
    intro hb
    have e : Scope.isFnElem isFn (some env) = false := hfl0
    simp only [Scope.takeToBoundary, e, Bool.false_eq_true, if_false, ih hb]
  | fn env fr below hf hp hpos hfl0 hne => intro hb; cases hb

/-- what a new closure or helper function captures is the top segment of the live stack -/
theorem closingNow_topSeg {s : St} {frames : List Ref.Frame} {b env}
    (h : ChainF (isFnScope s) frames b env s.linear) : closingNow s = topSeg s := by
  unfold closingNow topSeg
  rw [Scope.newClosing_eq, chain_trims h]
  cases b with
  | true => rfl
  | false => simp only [Bool.false_eq_true, if_false]; exact (chain_ttb_top h rfl).symm

/-- inside the helper function of an operand the scopes are the same -/
theorem relF_inHelper {m : Nat → Nat} {s : St} {rs : Ref.St} {env : Nat} (h : RelF m s rs env) (code : List Instr) :
    RelF m (inHelper s code) rs env := by
  obtain ⟨b, hc, hfc⟩ := h.ctx
  have hgood : ∀ k, GoodFn m s rs k → GoodFn m (inHelper s code) rs k := fun k hg =>
    hg.mono (by show s.fns.length ≤ (s.fns ++ [_]).length; simp) (fun id hid => fnOf_inHelper_old s code id hid)
      (ClosExt.refl rs) rfl
  have hold : FnChainF (inHelper s code) b s.curfunc :=
    hfc.transfer (s := s) (s' := inHelper s code) (show topSeg (inHelper s code) = topSeg s from rfl)
      (by show s.fns.length ≤ (s.fns ++ [_]).length; simp)
      (fun id hid => fnOf_inHelper_old s code id hid)
  refine ⟨h.len, h.vars, h.root0, ⟨b, hc, ?_⟩, ?_, h.heap, h.trace, h.globals,
    fun i x v hv => ValIn.mono (h.vok i x v hv) hgood, HeapIn.mono h.hok hgood⟩
  · refine FnChainF.step b _ s.curfunc (by show s.fns.length < (s.fns ++ [_]).length; simp) ?_ hfc.lt ?_ hold
    · rw [fnOf_inHelper_self]; rfl
    · rw [fnOf_inHelper_self]
      exact ⟨[], by show topSeg s = [] ++ closingNow s; rw [closingNow_topSeg hc]; rfl⟩
  · intro i hi
    obtain ⟨t, h1, h2⟩ := h.fscopes i hi
    have ht : t < s.fns.length := by
      rcases Nat.lt_or_ge t s.fns.length with ht | ht
      · exact ht
      · have : fnOf s t = {} := by simp [fnOf, List.getD_eq_getElem?_getD, List.getElem?_eq_none ht]
        rw [this] at h2; cases h2
    exact ⟨t, h1, by rw [fnOf_inHelper_old s code t ht]; exact h2⟩

/-- **Back in the caller.** `s` is related (before a nested run or a call); `s₄` is related after it,
in whatever environment and function it ended; `s₅` is `s₄` with the caller's live stack and current
function again. Old scopes kept their flags, old functions are unchanged, old frames their parents:
then `s₅` is related in the caller's environment. -/
theorem RelF.back {m m₄ : Nat → Nat} {s s₄ s₅ : St} {rs rs₄ : Ref.St} {env env₄ : Nat}
    (hrel : RelF m s rs env) (rel4 : RelF m₄ s₄ rs₄ env₄)
    (hsc : s₅.scopes = s₄.scopes) (hfns : s₅.fns = s₄.fns) (hheap : s₅.heap = s₄.heap) (htr : s₅.trace = s₄.trace)
    (hlin : s₅.linear = s.linear) (hcur : s₅.curfunc = s.curfunc)
    (hflags : ∀ i, i < s.scopes.length → isFnScope s₄ i = isFnScope s i)
    (hfl : s.fns.length ≤ s₄.fns.length) (hfo : ∀ id, id < s.fns.length → fnOf s₄ id = fnOf s id)
    (hext : FramesExt rs rs₄) : RelF m₄ s₅ rs₄ env := by
  have hso : ∀ i, scopeOf s₅ i = scopeOf s₄ i := fun i => by unfold scopeOf; rw [hsc]
  have hfo5 : ∀ i, fnOf s₅ i = fnOf s₄ i := fun i => by unfold fnOf; rw [hfns]
  have hfl5 : isFnScope s₅ = isFnScope s₄ := by funext i; unfold isFnScope; rw [hso]
  have hgood : ∀ id, GoodFn m₄ s₄ rs₄ id → GoodFn m₄ s₅ rs₄ id := fun id hg =>
    hg.mono (by rw [hfns]; exact Nat.le_refl _) (fun i _ => hfo5 i) (ClosExt.refl _) rfl
  obtain ⟨b, hc, hfc⟩ := hrel.ctx
  obtain ⟨fr0, hf0, hp0, hfl0⟩ := rel4.root0
  have hflr : ∀ i, i < rs.frames.length → isFnScope s₅ i = isFnScope s i := fun i hi => by
    rw [hfl5]; exact hflags i (by rw [hrel.len]; exact hi)
  have hc5 : ChainF (isFnScope s₅) rs₄.frames b env s.linear := hc.congr hflr hext
  have hts : topSeg s₅ = topSeg s := by
    show Scope.takeToBoundary (isFnScope s₅) s₅.linear = Scope.takeToBoundary (isFnScope s) s.linear
    rw [hlin]; exact takeToBoundary_chain hflr hc
  refine ⟨by rw [hsc]; exact rel4.len, fun i x => by rw [hso]; exact rel4.vars i x,
    ⟨fr0, hf0, hp0, by rw [hfl5]; exact hfl0⟩, ⟨b, by rw [hlin]; exact hc5, ?_⟩,
    fun i hi => by rw [hfl5] at hi; obtain ⟨t, h1, h2⟩ := rel4.fscopes i hi; exact ⟨t, by rw [hso]; exact h1, by rw [hfo5]; exact h2⟩,
    by rw [hheap]; exact rel4.heap, by rw [htr]; exact rel4.trace, rel4.globals,
    fun i x v hv => ValIn.mono (rel4.vok i x v (by rw [← hso]; exact hv)) hgood,
    by rw [hheap]; exact HeapIn.mono rel4.hok hgood⟩
  rw [hcur]
  exact hfc.transfer hts (by rw [hfns]; exact hfl) (fun id hid => by rw [hfo5]; exact hfo id hid)

/-! ## Entering a function: the machine -/

/-- the state `CallFunction` leaves: return address pushed, control in the callee -/
def entered (s : St) (vid : Nat) : St :=
  { s with addr := some (s.curfunc, s.pc + 1) :: s.addr, curfunc := vid, pc := 0 }

/-- `CallFunction` of a fixed-arity function, the arguments on the data stack -/
theorem run_callFunction_fixed (vid : Nat) (vs : List Val) (D : List (Option Val)) (s : St)
    (hd : s.data = vs.reverse.map some ++ D) (hv : (fnOf s vid).varargs = false) :
    (callFunction vid vs.length).run s =
      if vs.length = (fnOf s vid).nargs then (.ok (), entered s vid) else (.error .err, s) := by
  unfold callFunction
  have hnlt : ¬ s.data.length < vs.length := by rw [hd]; simp
  have hnone : ((s.data.take vs.length).any Option.isNone) = false := by
    have hlen : (vs.reverse.map some).length = vs.length := by simp
    rw [hd, ← hlen, List.take_left]
    simp
  simp only [run_bind, run_get, run_ite, if_neg hnlt, hnone, Bool.false_eq_true, if_false, run_pure, hv]
  by_cases hn : vs.length = (fnOf s vid).nargs
  · simp only [hn, ne_eq, not_true_eq_false, if_false, run_pure, run_bind, run_modify, if_true]
    rfl
  · simp only [ne_eq, hn, not_false_eq_true, if_true, run_err, run_bind, if_false]

/-- the state after `AddFuncScopeInstr` -/
def _root_.ZygoVerif.VM.St.pushFnScope (s : St) (t : Nat) : St :=
  { s with scopes := s.scopes ++ [({ isFunction := true, myFunction := some t } : Scope)],
           linear := some s.scopes.length :: s.linear, pc := s.pc + 1 }

theorem exec_addFuncScope (f t : Nat) (s : St) : (exec (f + 1) (.addFuncScope t)).run s = (.ok (), s.pushFnScope t) := by
  rw [exec]; rfl

/-- binding a list of pairs, one after the other, in scope `id` -/
def bindsVars (l : List (String × Val)) (pairs : List (String × Val)) : List (String × Val) :=
  pairs.foldl (fun l p => VM.assocSet l p.1 p.2) l

theorem lookup_bindsVars (y : String) : ∀ (pairs l : List (String × Val)),
    (bindsVars l pairs).lookup y = match pairs.reverse.lookup y with | some v => some v | none => l.lookup y
  | [], l => rfl
  | (x, v) :: pairs, l => by
    show (bindsVars (VM.assocSet l x v) pairs).lookup y = _
    rw [lookup_bindsVars y pairs, List.reverse_cons, List.lookup_append, lookup_assocSet]
    cases pairs.reverse.lookup y with
    | some w => rfl
    | none =>
      simp only [List.lookup_cons, List.lookup_nil, Option.none_or]
      by_cases hy : (y == x) = true
      · simp [hy]
      · simp [hy]

/-- the state after the parameter prologue -/
def afterParams (s : St) (F : Nat) (pairs : List (String × Val)) (D : List (Option Val)) : St :=
  { s with scopes := s.scopes.set F { scopeOf s F with vars := bindsVars (scopeOf s F).vars pairs },
           pc := s.pc + pairs.length, data := D }

/-- **The prologue**: `popStackPutEnv` for each parameter (in the order of `pairs`), the values on
the data stack, the names not yet bound in the top scope and distinct -/
theorem reach_params : ∀ (pairs : List (String × Val)) (s : St) (P Q : List Instr) (D : List (Option Val))
    (F : Nat) (rest : List (Option Nat)),
    (fnOf s s.curfunc).user = false → (fnOf s s.curfunc).code = P ++ pairs.map (fun p => Instr.popStackPutEnv p.1) ++ Q →
    s.pc = (P.length : Int) → s.data = pairs.map (fun p => some p.2) ++ D → s.linear = some F :: rest →
    F < s.scopes.length → (∀ x ∈ pairs.map (·.1), (scopeOf s F).vars.lookup x = none) → (pairs.map (·.1)).Nodup →
    ReachX s (afterParams s F pairs D)
  | [], s, P, Q, D, F, rest, hu, hc, hp, hd, hl, hF, hfree, hnd => by
    have : afterParams s F [] D = s := by
      unfold afterParams bindsVars
      simp only [List.foldl_nil, List.length_nil, Int.natCast_zero, Int.add_zero]
      have h1 : s.scopes.set F (scopeOf s F) = s.scopes := by
        unfold scopeOf; rw [List.getD_eq_getElem?_getD, List.getElem?_eq_getElem hF, Option.getD_some]
        exact List.set_getElem_self hF
      have h2 : D = s.data := by simpa using hd.symm
      rw [h2]
      show { s with scopes := s.scopes.set F { scopeOf s F with vars := (scopeOf s F).vars } } = s
      rw [show ({ scopeOf s F with vars := (scopeOf s F).vars } : Scope) = scopeOf s F from rfl, h1]
    rw [this]; exact ReachX.refl s
  | (x, v) :: pairs, s, P, Q, D, F, rest, hu, hc, hp, hd, hl, hF, hfree, hnd => by
    have a : At s P (.popStackPutEnv x) (pairs.map (fun p => Instr.popStackPutEnv p.1) ++ Q) :=
      ⟨hu, by rw [hc]; simp, hp⟩
    have hd' : s.data = some v :: (pairs.map (fun p => some p.2) ++ D) := by rw [hd]; rfl
    have hfx : (scopeOf s F).vars.lookup x = none := hfree x (by simp)
    have hstep : ∀ f, (exec (f + 1) (.popStackPutEnv x)).run s
        = (.ok (), (s.jmp (s.pc + 1) (pairs.map (fun p => some p.2) ++ D)).bind F x v) := fun f => by
      rw [exec_popStackPutEnv f x s v _ hd', run_bindTop]
      rw [show (s.jmp (s.pc + 1) (pairs.map (fun p => some p.2) ++ D)).linear = some F :: rest from hl]
      simp only
      rw [show scopeOf (s.jmp (s.pc + 1) (pairs.map (fun p => some p.2) ++ D)) F = scopeOf s F from rfl, hfx]
    have r1 : ReachX s ((s.jmp (s.pc + 1) (pairs.map (fun p => some p.2) ++ D)).bind F x v) :=
      (Reach.step a hstep).toX
    generalize hs1 : (s.jmp (s.pc + 1) (pairs.map (fun p => some p.2) ++ D)).bind F x v = s1 at r1
    have hsc1 : scopeOf s1 F = { scopeOf s F with vars := VM.assocSet (scopeOf s F).vars x v } := by
      subst hs1; rw [scopeOf_bind]
      have hF' : F < (s.jmp (s.pc + 1) (pairs.map (fun p => some p.2) ++ D)).scopes.length := hF
      rw [if_pos ⟨rfl, hF'⟩]; rfl
    have hnd' : (pairs.map (·.1)).Nodup := (List.nodup_cons.mp hnd).2
    have hnotin : x ∉ pairs.map (·.1) := (List.nodup_cons.mp hnd).1
    have ih := reach_params pairs s1 (P ++ [.popStackPutEnv x]) Q D F rest (by subst hs1; exact hu)
      (by subst hs1; show (fnOf s s.curfunc).code = _; rw [hc]; simp)
      (by subst hs1; show s.pc + 1 = _; rw [hp]; simp) (by subst hs1; rfl) (by subst hs1; exact hl)
      (by subst hs1; show F < (s.scopes.set F _).length; simpa using hF)
      (fun y hy => by
        rw [hsc1]; simp only [lookup_assocSet]
        have hne : (y == x) = false := by
          have : y ≠ x := fun e => hnotin (e ▸ hy)
          simpa using this
        rw [hne]; exact hfree y (by simp [hy])) hnd'
    have hfin : afterParams s1 F pairs D = afterParams s F ((x, v) :: pairs) D := by
      subst hs1
      unfold afterParams
      rw [hsc1]
      show ({ s with scopes := (s.scopes.set F _).set F _, pc := s.pc + 1 + pairs.length, data := D } : St) = _
      simp only [List.set_set, List.length_cons]
      congr 1
      push_cast; omega
    rw [hfin] at ih
    exact r1.trans ih

/-! ## Entering a function: the relation -/

/-- the relation at the start of a callee's body: a function scope with the parameters on top of
the caller's live stack, against a fresh frame under the global frame with the parameters -/
theorem RelF.enter {m : Nat → Nat} {s₁ : St} {rs₁ : Ref.St} {env vid : Nat} (h : RelF m s₁ rs₁ env)
    (hg : GoodFn m s₁ rs₁ vid) (sB : St) (rsB : Ref.St) (t : Nat) (Lvm Lref : List (String × Val))
    (hsc : sB.scopes = s₁.scopes ++ [({ vars := Lvm, isFunction := true, myFunction := some t } : Scope)])
    (hlin : sB.linear = some s₁.scopes.length :: s₁.linear) (hfns : sB.fns = s₁.fns) (hcur : sB.curfunc = vid)
    (hheap : sB.heap = s₁.heap) (htr : sB.trace = s₁.trace)
    (hfr : rsB.frames = rs₁.frames ++ [({ vars := Lref, parent := some 0 } : Ref.Frame)])
    (hclos : rsB.clos = rs₁.clos) (hrheap : rsB.heap = rs₁.heap) (hrtr : rsB.trace = rs₁.trace)
    (ht : (fnOf s₁ t).closing = [some 0])
    (hL : ∀ y, Lref.lookup y = (Lvm.lookup y).map (trf m))
    (hLok : ∀ y v, Lvm.lookup y = some v → VOk m s₁ rs₁ v)
    (hLfo : ∀ h ∈ foBuiltins, Lref.lookup h = none) : RelF m sB rsB rs₁.frames.length := by
  have hlen := h.len
  obtain ⟨b, hc, hfc⟩ := h.ctx
  obtain ⟨fr0, hf0, hp0, hfl0⟩ := h.root0
  have hpos : 0 < rs₁.frames.length := lt_of_getElem?_some hf0
  have hfo : ∀ i, fnOf sB i = fnOf s₁ i := fun i => by unfold fnOf; rw [hfns]
  have hso_old : ∀ i, i < s₁.scopes.length → scopeOf sB i = scopeOf s₁ i := fun i hi => by
    unfold scopeOf; rw [hsc]; simp only [List.getD_eq_getElem?_getD, List.getElem?_append_left hi]
  have hso_new : scopeOf sB s₁.scopes.length = { vars := Lvm, isFunction := true, myFunction := some t } := by
    unfold scopeOf; rw [hsc]; simp [List.getD_eq_getElem?_getD]
  have hso_big : ∀ i, s₁.scopes.length < i → scopeOf sB i = {} := fun i hi => by
    unfold scopeOf; rw [hsc]; rw [List.getD_eq_getElem?_getD, List.getElem?_eq_none (by simp; omega)]; rfl
  have hso1_big : ∀ i, s₁.scopes.length ≤ i → scopeOf s₁ i = {} := fun i hi => by
    unfold scopeOf; rw [List.getD_eq_getElem?_getD, List.getElem?_eq_none hi]; rfl
  have hfl_old : ∀ i, i < rs₁.frames.length → isFnScope sB i = isFnScope s₁ i := fun i hi => by
    unfold isFnScope; rw [hso_old i (by rw [hlen]; exact hi)]
  have hgood : ∀ k, GoodFn m s₁ rs₁ k → GoodFn m sB rsB k := fun k hk =>
    hk.mono (by rw [hfns]; exact Nat.le_refl _) (fun i _ => hfo i) (fun i c hc' => by rw [hclos]; exact hc') rfl
  have hfrget_old : ∀ i, i < rs₁.frames.length → rsB.frames.getD i {} = rs₁.frames.getD i {} := fun i hi => by
    rw [hfr]; simp only [List.getD_eq_getElem?_getD, List.getElem?_append_left hi]
  have hfrget_new : rsB.frames.getD rs₁.frames.length {} = { vars := Lref, parent := some 0 } := by
    rw [hfr]; simp [List.getD_eq_getElem?_getD]
  have hfrget_big : ∀ i, rs₁.frames.length < i → rsB.frames.getD i {} = {} := fun i hi => by
    rw [hfr, List.getD_eq_getElem?_getD, List.getElem?_eq_none (by simp; omega)]; rfl
  have hext : ∀ (i : Nat) (fr : Ref.Frame), rs₁.frames[i]? = some fr →
      ∃ fr' : Ref.Frame, rsB.frames[i]? = some fr' ∧ fr'.parent = fr.parent := fun i fr hf =>
    ⟨fr, by rw [hfr, List.getElem?_append_left (lt_of_getElem?_some hf)]; exact hf, rfl⟩
  obtain ⟨lrest, hlrest⟩ := hc.head
  obtain ⟨c, _, _, _, _, _, _, _, _, _, _, hclo, ⟨p, hp1, hp2, hp3⟩, _⟩ := hg.clo
  refine ⟨by rw [hsc, hfr]; simp [hlen], ?_, ⟨fr0, by rw [hfr, List.getElem?_append_left hpos]; exact hf0, hp0,
      by rw [hfl_old 0 hpos]; exact hfl0⟩, ⟨true, ?_, ?_⟩, ?_, by rw [hrheap, hheap]; exact h.heap,
    by rw [htr, hrtr]; exact h.trace, ?_, ?_, by rw [hheap]; exact HeapIn.mono h.hok hgood⟩
  · -- vars
    intro i x
    rcases Nat.lt_trichotomy i rs₁.frames.length with hi | hi | hi
    · rw [hfrget_old i hi, hso_old i (by rw [hlen]; exact hi)]; exact h.vars i x
    · subst hi; rw [hfrget_new, ← hlen, hso_new]; exact hL x
    · rw [hfrget_big i hi, hso_big i (by rw [hlen]; exact hi)]; rfl
  · -- the chain: the function scope on top of the caller's stack
    rw [hlin, hlen]
    refine ChainF.fn _ { vars := Lref, parent := some 0 } s₁.linear (by rw [hfr]; simp) rfl hpos ?_
      (by rw [hlrest]; simp)
    show (scopeOf sB rs₁.frames.length).isFunction = true
    rw [← hlen, hso_new]
  · rw [hcur]
    exact FnChainF.clos vid p (by rw [hfns]; exact hg.lt) (by rw [hfo]; exact hp1) hp2 (by rw [hfo]; exact hclo)
      (by rw [hfo]; exact hp3)
  · -- function scopes
    intro i hi
    rcases Nat.lt_trichotomy i s₁.scopes.length with hlt | heq | hgt
    · have hi' : isFnScope s₁ i = true := by rw [← hfl_old i (by rw [← hlen]; exact hlt)]; exact hi
      obtain ⟨t', h1, h2⟩ := h.fscopes i hi'
      exact ⟨t', by rw [hso_old i hlt]; exact h1, by rw [hfo]; exact h2⟩
    · subst heq; exact ⟨t, by rw [hso_new], by rw [hfo]; exact ht⟩
    · unfold isFnScope at hi; rw [hso_big i hgt] at hi; cases hi
  · -- builtins stay global
    intro name hn
    refine ⟨by rw [hfrget_old 0 hpos]; exact (h.globals name hn).1, fun i hi => ?_⟩
    rcases Nat.lt_trichotomy i rs₁.frames.length with hlt | heq | hgt
    · rw [hfrget_old i hlt]; exact (h.globals name hn).2 i hi
    · subst heq; rw [hfrget_new]; exact hLfo name hn
    · rw [hfrget_big i hgt]; rfl
  · -- values in order
    intro i x v hv
    rcases Nat.lt_trichotomy i s₁.scopes.length with hlt | heq | hgt
    · rw [hso_old i hlt] at hv; exact ValIn.mono (h.vok i x v hv) hgood
    · subst heq; rw [hso_new] at hv; exact ValIn.mono ((hLok x v hv).named x) hgood
    · rw [hso_big i hgt] at hv; cases hv

/-! ## `CallExprInstr` with a symbol callee, `CallResolved` -/

theorem exec_callExpr_sym (F : Nat) (h : String) (args : List Expr) (s : St) (i : Nat) (fv : Val)
    (hl : lexLookup s h = some (i, fv)) :
    (exec (F + 3) (.callExpr (.sym h) args)).run s = (callResolved (F + 2) fv args).run s := by
  rw [exec]
  have he : (evalCallExpr (F + 2) (.sym h)).run s = (.ok fv, s) := by
    rw [evalCallExpr]
    simp only [run_bind, run_get, hl, run_pure]
  simp only [run_bind, he]

theorem exec_callExpr_sym_none (F : Nat) (h : String) (args : List Expr) (s : St) (hl : lexLookup s h = none) :
    (exec (F + 2) (.callExpr (.sym h) args)).run s = (.error .err, s) := by
  rw [exec]
  have he : (evalCallExpr (F + 1) (.sym h)).run s = (.error .err, s) := by
    rw [evalCallExpr]
    simp only [run_bind, run_get, hl, run_err]
  simp only [run_bind, he]

/-- what the `guarded` wrapper of `CallResolved` makes of the outcome of its body -/
def guardedRun (start : Nat) (r : Except Fault Unit × St) : Except Fault Unit × St :=
  match r with
  | (.ok _, s') => (.ok (), s')
  | (.error .err, s') => (.error .err, { s' with data := truncate s'.data start })
  | (.error flt, s') => (.error flt, s')

theorem run_callResolved_fn (F vid : Nat) (args : List Expr) (s : St) :
    (callResolved (F + 1) (.fn vid) args).run s =
      guardedRun s.data.length
        ((prepareArgs F (some (fnOf s vid)) 0 args >>= fun _ => callFunction vid args.length : M Unit).run s) := by
  rw [callResolved]
  unfold guardedRun
  rcases hp : (prepareArgs F (some (fnOf s vid)) 0 args).run s with ⟨rp, s1⟩
  cases rp with
  | error flt =>
    cases flt <;> simp only [run_bind, hp, run_get, run_set, run_throw, run_modify, run_pure]
  | ok u =>
    rcases hcu : (callFunction vid args.length).run s1 with ⟨rc, s2⟩
    cases rc with
    | ok u2 => simp only [run_bind, hp, hcu, run_get, run_set, run_throw, run_modify, run_pure]
    | error flt =>
      cases flt <;> simp only [run_bind, hp, hcu, run_get, run_set, run_throw, run_modify, run_pure]

theorem run_callResolved_builtin (F : Nat) (name : String) (args : List Expr) (s : St) :
    (callResolved (F + 1) (.builtin name) args).run s =
      guardedRun s.data.length
        ((prepareArgs F none 0 args >>= fun _ => callUser F name args.length : M Unit).run s) := by
  rw [callResolved]
  unfold guardedRun
  rcases hp : (prepareArgs F none 0 args).run s with ⟨rp, s1⟩
  cases rp with
  | error flt =>
    cases flt <;> simp only [run_bind, hp, run_get, run_set, run_throw, run_modify, run_pure]
  | ok u =>
    rcases hcu : (callUser F name args.length).run s1 with ⟨rc, s2⟩
    cases rc with
    | ok u2 => simp only [run_bind, hp, hcu, run_get, run_set, run_throw, run_modify, run_pure]
    | error flt =>
      cases flt <;> simp only [run_bind, hp, hcu, run_get, run_set, run_throw, run_modify, run_pure]

theorem run_callResolved_arr (F r : Nat) (args : List Expr) (s : St) :
    (callResolved (F + 1) (.arr r) args).run s =
      guardedRun s.data.length ((prepareArgs F none 0 args >>= fun _ => (err : M Unit) : M Unit).run s) := by
  rw [callResolved]
  unfold guardedRun
  rcases hp : (prepareArgs F none 0 args).run s with ⟨rp, s1⟩
  cases rp with
  | error flt =>
    cases flt <;> simp only [run_bind, hp, run_get, run_set, run_throw, run_modify, run_pure]
  | ok u => simp only [run_bind, hp, run_get, run_set, run_throw, run_modify, run_pure, run_err]

theorem run_callResolved_other (F : Nat) (fv : Val) (args : List Expr) (s : St) (h1 : ∀ id, fv ≠ .fn id)
    (h2 : ∀ n, fv ≠ .builtin n) (h3 : ∀ r, fv ≠ .arr r) :
    (callResolved (F + 1) fv args).run s =
      if args.isEmpty then (.ok (), s.jmp (s.pc + 1) (some fv :: s.data)) else (.error .err, s) := by
  rw [callResolved]
  cases fv with
  | fn id => exact absurd rfl (h1 id)
  | builtin n => exact absurd rfl (h2 n)
  | arr r => exact absurd rfl (h3 r)
  | _ =>
    simp only [run_bind, run_get]
    split
    · simp only [run_bind, run_pushData, run_incPc]; rfl
    · simp only [run_err]

/-! ## The tables grow: a new function object, a new closure, a longer id map -/

theorem RelF.grow {m m' : Nat → Nat} {s s' : St} {rs rs' : Ref.St} {env : Nat} (h : RelF m s rs env)
    (hsc : s'.scopes = s.scopes) (hlin : s'.linear = s.linear) (hcur : s'.curfunc = s.curfunc)
    (hheap : s'.heap = s.heap) (htr : s'.trace = s.trace)
    (hfl : s.fns.length ≤ s'.fns.length) (hfo : ∀ id, id < s.fns.length → fnOf s' id = fnOf s id)
    (hfr : rs'.frames = rs.frames) (hrh : rs'.heap = rs.heap) (hrt : rs'.trace = rs.trace) (hcl : ClosExt rs rs')
    (hm : MExt s m m') : RelF m' s' rs' env := by
  have hso : ∀ i, scopeOf s' i = scopeOf s i := fun i => by unfold scopeOf; rw [hsc]
  have hfl' : isFnScope s' = isFnScope s := by funext i; unfold isFnScope; rw [hso]
  have hgood : ∀ id, GoodFn m s rs id → GoodFn m' s' rs' id := fun id hg => hg.mono hfl hfo hcl (hm id hg.lt)
  obtain ⟨b, hc, hfc⟩ := h.ctx
  obtain ⟨fr0, hf0, hp0, hfl0⟩ := h.root0
  have htrv : ∀ i x v, (scopeOf s i).vars.lookup x = some v → trf m' v = trf m v := fun i x v hv =>
    (h.vok i x v hv) m' m id id id id ⟨fun id hg => hm id hg.lt, fun _ _ => rfl, fun _ _ => rfl⟩
  refine ⟨by rw [hsc, hfr]; exact h.len, ?_, ⟨fr0, by rw [hfr]; exact hf0, hp0, by rw [hfl']; exact hfl0⟩,
    ⟨b, by rw [hfl', hfr, hlin]; exact hc, ?_⟩, ?_, ?_, by rw [htr, hrt]; exact h.trace,
    fun hh hmem => by rw [hfr]; exact h.globals hh hmem,
    fun i x v hv => ValIn.mono (h.vok i x v (by rw [← hso]; exact hv)) hgood, by rw [hheap]; exact HeapIn.mono h.hok hgood⟩
  · intro i x
    rw [hfr, hso, h.vars i x]
    cases hl : (scopeOf s i).vars.lookup x with
    | none => rfl
    | some v => simp only [Option.map_some, htrv i x v hl]
  · rw [hcur]
    exact hfc.transfer (by unfold topSeg; rw [hfl', hlin]) hfl hfo
  · intro i hi
    rw [hfl'] at hi
    obtain ⟨t, h1, h2⟩ := h.fscopes i hi
    have ht : t < s.fns.length := by
      rcases Nat.lt_or_ge t s.fns.length with ht | ht
      · exact ht
      · have : fnOf s t = {} := by simp [fnOf, List.getD_eq_getElem?_getD, List.getElem?_eq_none ht]
        rw [this] at h2; cases h2
    exact ⟨t, by rw [hso]; exact h1, by rw [hfo t ht]; exact h2⟩
  · rw [hrh, hheap, h.heap]
    exact (HOk.tr_ext h.hok hm).symm

/-- `CreateClosureInstr`: a copy of the template with the current closing stack and parent -/
def closureObj (s : St) (t : Nat) : FnObj := { fnOf s t with closing := closingNow s, parent := some s.curfunc }

def afterClosure (s : St) (t : Nat) : St :=
  { s with pc := s.pc + 1, fns := s.fns ++ [closureObj s t], data := some (.fn s.fns.length) :: s.data }

theorem exec_createClosure (f t : Nat) (s : St) :
    (exec (f + 1) (.createClosure t)).run s = (.ok (), afterClosure s t) := by
  rw [exec]
  simp only [run_bind, run_incPc, run_get, run_set, run_pushData]
  rfl

/-! ## Loading a text: templates appended, the code of `__main` extended -/

/-- the function table grew; old functions are unchanged, except that `__main` may have new code -/
structure FnsKeep (s s' : St) : Prop where
  len : s.fns.length ≤ s'.fns.length
  same : ∀ id, id < s.fns.length → id ≠ mainFn → fnOf s' id = fnOf s id
  par : (fnOf s' mainFn).parent = (fnOf s mainFn).parent
  clo : (fnOf s' mainFn).closing = (fnOf s mainFn).closing

theorem FnsKeep.parent {s s' : St} (h : FnsKeep s s') (id : Nat) (hid : id < s.fns.length) :
    (fnOf s' id).parent = (fnOf s id).parent := by
  by_cases hm : id = mainFn
  · subst hm; exact h.par
  · rw [h.same id hid hm]

theorem FnsKeep.closing {s s' : St} (h : FnsKeep s s') (id : Nat) (hid : id < s.fns.length) :
    (fnOf s' id).closing = (fnOf s id).closing := by
  by_cases hm : id = mainFn
  · subst hm; exact h.clo
  · rw [h.same id hid hm]

theorem GoodFn.mono' {m : Nat → Nat} {s s' : St} {rs rs' : Ref.St} {vid : Nat} (h : GoodFn m s rs vid)
    (hk : FnsKeep s s') (hclos : ClosExt rs rs') : GoodFn m s' rs' vid := by
  obtain ⟨hlt, hnm, c, h1, h2, h3, h4, h5, h6, h7, h8, h9, h10, h11, ⟨p, hp1, hp2, hp3⟩,
    t, b, tl, isFn, cb, gs0, gs1, self, hc1, hc2, hc3, hc4, hc5, hc6, hc7⟩ := h
  have e := hk.same vid hlt (by omega)
  refine ⟨Nat.lt_of_lt_of_le hlt hk.len, hnm, c, hclos _ _ h1, h2, h3, h4, h5, h6, by rw [e]; exact h7,
    by rw [e]; exact h8, by rw [e]; exact h9, by rw [e]; exact h10, by rw [e]; exact h11,
    ⟨p, by rw [e]; exact hp1, hp2, by rw [hk.parent p (by omega)]; exact hp3⟩,
    t, b, tl, isFn, cb, gs0, gs1, self, by rw [e]; exact hc1, Nat.lt_of_lt_of_le hc2 hk.len,
    by rw [hk.closing t hc2]; exact hc3, hc4, hc5, hc6, hc7⟩

theorem FnChainF.transfer' {s s' : St} (hseg : topSeg s' = topSeg s) (hk : FnsKeep s s') :
    ∀ {b f}, FnChainF s b f → FnChainF s' b f := by
  intro b f h
  induction h with
  | root f hlt hp hs =>
    exact FnChainF.root f (Nat.lt_of_lt_of_le hlt hk.len) (by rw [hk.parent f hlt]; exact hp)
      (by rw [hseg, hk.closing f hlt]; exact hs)
  | step b f p hlt hp hpf hs _ ih =>
    exact FnChainF.step b f p (Nat.lt_of_lt_of_le hlt hk.len) (by rw [hk.parent f hlt]; exact hp) hpf
      (by rw [hseg, hk.closing f hlt]; exact hs) ih
  | clos f p hlt hp hpf hclo hpp =>
    exact FnChainF.clos f p (Nat.lt_of_lt_of_le hlt hk.len) (by rw [hk.parent f hlt]; exact hp) hpf
      (by rw [hk.closing f hlt]; exact hclo) (by rw [hk.parent p (by omega)]; exact hpp)

/-- the relation after `LoadExpressions`: more functions, new code in `__main`, the trace cleared -/
theorem RelF.load {m : Nat → Nat} {s s' : St} {rs : Ref.St} {env : Nat} (h : RelF m s rs env)
    (hsc : s'.scopes = s.scopes) (hlin : s'.linear = s.linear) (hcur : s'.curfunc = s.curfunc)
    (hheap : s'.heap = s.heap) (htr : s'.trace = []) (hk : FnsKeep s s') :
    RelF m s' { rs with trace := [] } env := by
  have hso : ∀ i, scopeOf s' i = scopeOf s i := fun i => by unfold scopeOf; rw [hsc]
  have hfl' : isFnScope s' = isFnScope s := by funext i; unfold isFnScope; rw [hso]
  have hgood : ∀ id, GoodFn m s rs id → GoodFn m s' { rs with trace := [] } id := fun id hg =>
    hg.mono' hk (fun _ _ hc => hc)
  obtain ⟨b, hc, hfc⟩ := h.ctx
  obtain ⟨fr0, hf0, hp0, hfl0⟩ := h.root0
  refine ⟨by rw [hsc]; exact h.len, fun i x => by rw [hso]; exact h.vars i x, ⟨fr0, hf0, hp0, by rw [hfl']; exact hfl0⟩,
    ⟨b, by rw [hfl', hlin]; exact hc, ?_⟩, ?_, by rw [hheap]; exact h.heap, htr, h.globals,
    fun i x v hv => ValIn.mono (h.vok i x v (by rw [← hso]; exact hv)) hgood, by rw [hheap]; exact HeapIn.mono h.hok hgood⟩
  · rw [hcur]
    exact hfc.transfer' (by unfold topSeg; rw [hfl', hlin]) hk
  · intro i hi
    rw [hfl'] at hi
    obtain ⟨t, h1, h2⟩ := h.fscopes i hi
    have ht : t < s.fns.length := by
      rcases Nat.lt_or_ge t s.fns.length with ht | ht
      · exact ht
      · have : fnOf s t = {} := by simp [fnOf, List.getD_eq_getElem?_getD, List.getElem?_eq_none ht]
        rw [this] at h2; cases h2
    exact ⟨t, by rw [hso]; exact h1, by rw [hk.closing t ht]; exact h2⟩

end ZygoVerif.Sim
