/-
C02, execution half — F2: user functions. The relation.

What changes against `RelC` (Proofs/SimCallEnv.lean):

* values correspond modulo the numbering of closures (`trf m`, Proofs/SimTr.lean): variables, heap,
  results;
* the linear scope stack is no longer the static chain of the current environment: inside a
  callee it is `[callee's scopes … its function scope] ++ caller's stack`. `ChainF` follows the
  static chain down to the function scope (the boundary of stage 1 of `LexicalLookupSymbol`) and
  lets anything lie below; the rest of the static chain is what stage 2 searches: the closing
  stack of the running closure object, then of the function that made it, and so on (`FnChainF`):
  each such closing stack is again a piece of the static chain, from the closure's environment
  down to the next function scope;
* closure objects correspond to reference closures (`GoodFn`): same parameters, code compiled from
  the closure's body.
-/
import ZygoVerif.Proofs.SimFc
import ZygoVerif.Proofs.SimFbGen
import ZygoVerif.Proofs.SimTr
import ZygoVerif.Proofs.Scope
set_option linter.unusedSimpArgs false
set_option linter.unusedVariables false
namespace ZygoVerif.Sim
open ZygoVerif.Core ZygoVerif.VM

/-- the translation that renames function ids only -/
abbrev trf (m : Nat → Nat) : Val → Val := tr m id id

/-- the translation on what a lookup returns -/
def trp2 (m : Nat → Nat) (p : Nat × Val) : Nat × Val := (p.1, trf m p.2)

/-! ## The fragment F2a -/

/-- the global names that are not first-order builtins; the fragment does not mention them -/
def hoNames : List String := ["substitute"]

def okSym (x : String) : Bool := !hoNames.contains x

/-- a name the fragment may bind: no builtin of either kind -/
def okName (x : String) : Bool := okBinder x && okSym x

/-- a parameter: such a name (`#p`: a lazy parameter) -/
def okParam (p : String) : Bool := okName p

/-- the rest parameter of a variadic function, if there is one -/
def okRest : Option String → Bool
  | none => true
  | some r => okParam r

/-- a call head that cannot be the name the generator gives an anonymous function -/
def okHead (h : String) : Bool := okSym h && !h.startsWith "__anon"

mutual
/-- F2 expressions. `fnOk`: the position is compiled when the text is loaded (`fn`/`defn` may
stand there) — operands of calls are compiled at run time, `fnOk = false` in them. `self`: the name
of the function whose body this is (a call of it in a directly compiled position could be compiled
as a self tail call — that is F2c); `""` at top level, in operands and in anonymous functions. -/
def Ff (fnOk : Bool) (self : String) : Expr → Bool
  | .int _ | .bool _ | .str _ | .nilLit => true
  | .sym x => okSym x
  | .begin_ es => FfList fnOk self es
  | .def_ x e => okName x && Ff fnOk self e
  | .set_ x e => okName x && Ff fnOk self e
  | .cond arms d => FfArms fnOk self arms && Ff fnOk self d
  | .and_ es => FfList fnOk self es
  | .or_ es => FfList fnOk self es
  | .newScope es => !es.isEmpty && FfList fnOk self es
  | .let_ seq bs body =>
    (seq || decide ((bs.map (·.1)).Nodup)) && !body.isEmpty && FfBinds fnOk self bs && FfList fnOk self body
  | .arr es => FfList fnOk self es
  | .for_ _ init test incr body => Ff fnOk self init && Ff fnOk self test && Ff fnOk self incr && FfList fnOk self body
  | .call (.sym h) args => (h != self) && (h != "") && okHead h && FaList args
  | .call f args => Ff false "" f && FaList args          -- a computed callee: evaluated like an operand
  | .fn ps rest body =>
    fnOk && okRest rest && decide (ps ++ rest.toList).Nodup && ps.all okParam && !body.isEmpty && FfList true "" body
  | .defn name ps rest body =>
    fnOk && okRest rest && okName name && (name != "") && decide (ps ++ rest.toList).Nodup && ps.all okParam && !body.isEmpty
      && FfList true name body
  | _ => false
def FfList (fnOk : Bool) (self : String) : List Expr → Bool
  | [] => true
  | e :: es => Ff fnOk self e && FfList fnOk self es
def FfArms (fnOk : Bool) (self : String) : List (Expr × Expr) → Bool
  | [] => true
  | (p, b) :: r => Ff fnOk self p && Ff fnOk self b && FfArms fnOk self r
def FfBinds (fnOk : Bool) (self : String) : List (String × Expr) → Bool
  | [] => true
  | (x, e) :: r => okName x && Ff fnOk self e && FfBinds fnOk self r
def FaList : List Expr → Bool
  | [] => true
  | e :: es => Ff false "" e && FaList es
end

mutual
/-- Fx ls: top-level statements that may `break`/`continue` one of the enclosing loops (`ls`: their
labels, innermost first): `begin`, `cond` (tests in Ff), `let`/`letseq` (initialisers in Ff), `newScope`,
`for` (initialiser, test, increment in Ff; the body in Fx with the loop's label added) — and everything
of Ff. -/
def Fx (ls : List (Option String)) (self : String) : Expr → Bool
  | .break_ l => lblOk ls l
  | .continue_ l => lblOk ls l
  | .begin_ es => FxList ls self es
  | .cond arms d => FxArms ls self arms && Fx ls self d
  | .let_ seq bs body =>
    (seq || decide ((bs.map (·.1)).Nodup)) && !body.isEmpty && FfBinds true self bs && FxList ls self body
  | .newScope es => !es.isEmpty && FxList ls self es
  | .for_ label init test incr body => Ff true self init && Ff true self test && Ff true self incr && FxList (label :: ls) self body
  | .int v => Ff true self (.int v)
  | .bool v => Ff true self (.bool v)
  | .str v => Ff true self (.str v)
  | .nilLit => Ff true self .nilLit
  | .sym x => Ff true self (.sym x)
  | .arr es => Ff true self (.arr es)
  | .call f args => Ff true self (.call f args)
  | .def_ x e => Ff true self (.def_ x e)
  | .set_ x e => Ff true self (.set_ x e)
  | .and_ es => Ff true self (.and_ es)
  | .or_ es => Ff true self (.or_ es)
  | .fn ps rest body => Ff true self (.fn ps rest body)
  | .defn name ps rest body => Ff true self (.defn name ps rest body)
  | .assign _ _ => false
  | .bad _ => false
def FxList (ls : List (Option String)) (self : String) : List Expr → Bool
  | [] => true
  | e :: es => Fx ls self e && FxList ls self es
def FxArms (ls : List (Option String)) (self : String) : List (Expr × Expr) → Bool
  | [] => true
  | (p, b) :: r => Ff true self p && Fx ls self b && FxArms ls self r
end


mutual
/-- Fz ex self: the forms in TAIL POSITION of the body of the function `self` — where a call of `self` is
compiled as a self tail call (guard, operands inline, `prepareCall`, scopes removed, `goto 0`; F2c):
calls of `self` (its operands free of direct calls of `self`), and `begin`/`cond`/`let`/`letseq`/`newScope`
whose last form resp. arms are in tail position; everything else as in `Ff true self`. `ex = true`: the
statements before the last one and `for` loops may `break`/`continue` their own loops (`Fx [] self`). -/
def Fz (ex : Bool) (self : String) : Expr → Bool
  | .call (.sym h) args => (h != "") && okHead h && FaList args && ((h != self) || FfList false self args)
  | .call f args => Ff true self (.call f args)
  | .begin_ es => FzList ex self es
  | .cond arms d => FzArms ex self arms && Fz ex self d
  | .newScope es => !es.isEmpty && FzList ex self es
  | .let_ seq bs body =>
    (seq || decide ((bs.map (·.1)).Nodup)) && !body.isEmpty && FfBinds true self bs && FzList ex self body
  | .int v => Ff true self (.int v)
  | .bool v => Ff true self (.bool v)
  | .str v => Ff true self (.str v)
  | .nilLit => Ff true self .nilLit
  | .sym x => Ff true self (.sym x)
  | .arr es => Ff true self (.arr es)
  | .def_ x e => Ff true self (.def_ x e)
  | .set_ x e => Ff true self (.set_ x e)
  | .and_ es => Ff true self (.and_ es)
  | .or_ es => Ff true self (.or_ es)
  | .for_ l i t s b => if ex then Fx [] self (.for_ l i t s b) else Ff true self (.for_ l i t s b)
  | .fn ps rest body => Ff true self (.fn ps rest body) ||
      (okRest rest && decide (ps ++ rest.toList).Nodup && ps.all okParam && !body.isEmpty && FzList ex "" body)
  | .defn name ps rest body => Ff true self (.defn name ps rest body) ||
      (okRest rest && okName name && (name != "") && decide (ps ++ rest.toList).Nodup && ps.all okParam && !body.isEmpty
        && FzList ex name body)
  | _ => false
/-- a statement before the last one of a body: a form of F2 (`ex`: whose loops may `break`/`continue`), or a nested
`defn` whose body is again in `FzList` (self tail calls, loops with exits — in nested functions) -/
def Fs (ex : Bool) (self : String) : Expr → Bool
  | .defn name ps rest body => (if ex then Fx [] self (.defn name ps rest body) else Ff true self (.defn name ps rest body)) ||
      (okRest rest && okName name && (name != "") && decide (ps ++ rest.toList).Nodup && ps.all okParam && !body.isEmpty
        && FzList ex name body)
  | .call f args => if ex then Fx [] self (.call f args) else Ff true self (.call f args)
  | .begin_ es => if ex then Fx [] self (.begin_ es) else Ff true self (.begin_ es)
  | .cond arms d => if ex then Fx [] self (.cond arms d) else Ff true self (.cond arms d)
  | .newScope es => if ex then Fx [] self (.newScope es) else Ff true self (.newScope es)
  | .let_ seq bs body => if ex then Fx [] self (.let_ seq bs body) else Ff true self (.let_ seq bs body)
  | .int v => if ex then Fx [] self (.int v) else Ff true self (.int v)
  | .bool v => if ex then Fx [] self (.bool v) else Ff true self (.bool v)
  | .str v => if ex then Fx [] self (.str v) else Ff true self (.str v)
  | .nilLit => if ex then Fx [] self .nilLit else Ff true self .nilLit
  | .sym x => if ex then Fx [] self (.sym x) else Ff true self (.sym x)
  | .arr es => if ex then Fx [] self (.arr es) else Ff true self (.arr es)
  | .def_ x e => if ex then Fx [] self (.def_ x e) else Ff true self (.def_ x e)
  | .set_ x e => if ex then Fx [] self (.set_ x e) else Ff true self (.set_ x e)
  | .and_ es => if ex then Fx [] self (.and_ es) else Ff true self (.and_ es)
  | .or_ es => if ex then Fx [] self (.or_ es) else Ff true self (.or_ es)
  | .for_ l i t s b => if ex then Fx [] self (.for_ l i t s b) else Ff true self (.for_ l i t s b)
  | .fn ps rest body => (if ex then Fx [] self (.fn ps rest body) else Ff true self (.fn ps rest body)) ||
      (okRest rest && decide (ps ++ rest.toList).Nodup && ps.all okParam && !body.isEmpty && FzList ex "" body)
  | .assign a b => if ex then Fx [] self (.assign a b) else Ff true self (.assign a b)
  | .bad a => if ex then Fx [] self (.bad a) else Ff true self (.bad a)
  | .break_ l => if ex then Fx [] self (.break_ l) else Ff true self (.break_ l)
  | .continue_ l => if ex then Fx [] self (.continue_ l) else Ff true self (.continue_ l)
def FzList (ex : Bool) (self : String) : List Expr → Bool
  | [] => true
  | [e] => Fz ex self e
  | e :: e' :: es => Fs ex self e && FzList ex self (e' :: es)
def FzArms (ex : Bool) (self : String) : List (Expr × Expr) → Bool
  | [] => true
  | (p, b) :: r => Ff true self p && Fz ex self b && FzArms ex self r
end

/-- a call with a computed callee is in the fragment when callee and operands are operands of the fragment -/
theorem ff_call_nonsym {fnOk : Bool} {self : String} {f : Expr} {args : List Expr} (hns : ∀ x, f ≠ .sym x) :
    Ff fnOk self (.call f args) = (Ff false "" f && FaList args) := by
  generalize hR : (Ff false "" f && FaList args) = R
  cases f with
  | sym x => exact absurd rfl (hns x)
  | _ => rw [Ff] <;> first | exact hR | (intro _ hh; cases hh)

theorem fz_call_nonsym {ex : Bool} {self : String} {f : Expr} {args : List Expr} (hns : ∀ x, f ≠ .sym x) :
    Fz ex self (.call f args) = Ff true self (.call f args) := by
  generalize hR : Ff true self (.call f args) = R
  cases f with
  | sym x => exact absurd rfl (hns x)
  | _ => rw [Fz] <;> first | exact hR | (intro _ hh; cases hh)

/-- the statements of F2 (resp. Fx) are statements of a body -/
theorem fs_of_stmt {ex : Bool} {self : String} {e : Expr} (h : (if ex then Fx [] self e else Ff true self e) = true) :
    Fs ex self e = true := by
  cases e <;> first | (rw [Fs]; exact h) | (rw [Fs, h]; rfl)

/-- a statement of a body: as before, or a nested `defn` with a body of `FzList` -/
theorem fs_cases {ex : Bool} {self : String} {e : Expr} (h : Fs ex self e = true) :
    (if ex then Fx [] self e else Ff true self e) = true ∨
      (∃ name ps rest body, e = .defn name ps rest body ∧ okRest rest = true ∧ okName name = true ∧ name ≠ ""
        ∧ (ps ++ rest.toList).Nodup ∧ (∀ p ∈ ps, okParam p = true) ∧ body ≠ [] ∧ FzList ex name body = true) ∨
      (∃ ps rest body, e = .fn ps rest body ∧ okRest rest = true
        ∧ (ps ++ rest.toList).Nodup ∧ (∀ p ∈ ps, okParam p = true) ∧ body ≠ [] ∧ FzList ex "" body = true) := by
  cases e with
  | fn ps rest body =>
    rw [Fs] at h
    simp only [Bool.or_eq_true] at h
    rcases h with h | h
    · exact Or.inl h
    · simp only [Bool.and_eq_true, decide_eq_true_eq, Bool.not_eq_true', List.isEmpty_eq_false_iff,
        List.all_eq_true] at h
      exact Or.inr (Or.inr ⟨ps, rest, body, rfl, h.1.1.1.1, h.1.1.1.2, h.1.1.2, h.1.2, h.2⟩)
  | defn name ps rest body =>
    rw [Fs] at h
    simp only [Bool.or_eq_true] at h
    rcases h with h | h
    · exact Or.inl h
    · simp only [Bool.and_eq_true, bne_iff_ne, ne_eq, decide_eq_true_eq, Bool.not_eq_true', List.isEmpty_eq_false_iff,
        List.all_eq_true] at h
      exact Or.inr (Or.inl ⟨name, ps, rest, body, rfl, h.1.1.1.1.1.1, h.1.1.1.1.1.2, h.1.1.1.1.2, h.1.1.1.2, h.1.1.2, h.1.2, h.2⟩)
  | _ => rw [Fs] at h; exact Or.inl h

mutual
theorem fz_of_ff : ∀ (self : String) (e : Expr), Ff true self e = true → Fz false self e = true
  | self, .call f args, h => by
    cases f with
    | sym x =>
      rw [Ff] at h; simp only [Bool.and_eq_true] at h
      rw [Fz]; simp only [Bool.and_eq_true, Bool.or_eq_true]
      exact ⟨⟨⟨h.1.1.2, h.1.2⟩, h.2⟩, Or.inl h.1.1.1⟩
    | _ => rw [Fz] <;> first | exact h | (intro _ hh; cases hh)
  | self, .begin_ es, h => by rw [Ff] at h; rw [Fz]; exact fzList_of_ff self es h
  | self, .cond arms d, h => by
    rw [Ff] at h; simp only [Bool.and_eq_true] at h
    rw [Fz]; simp only [Bool.and_eq_true]
    exact ⟨fzArms_of_ff self arms h.1, fz_of_ff self d h.2⟩
  | self, .newScope es, h => by
    rw [Ff] at h; simp only [Bool.and_eq_true] at h
    rw [Fz]; simp only [Bool.and_eq_true]
    exact ⟨h.1, fzList_of_ff self es h.2⟩
  | self, .let_ seq bs body, h => by
    rw [Ff] at h; simp only [Bool.and_eq_true] at h
    rw [Fz]; simp only [Bool.and_eq_true]
    exact ⟨⟨⟨h.1.1.1, h.1.1.2⟩, h.1.2⟩, fzList_of_ff self body h.2⟩
  | self, .int v, h => by rw [Fz]; exact h
  | self, .bool v, h => by rw [Fz]; exact h
  | self, .str v, h => by rw [Fz]; exact h
  | self, .nilLit, h => by rw [Fz]; exact h
  | self, .sym x, h => by rw [Fz]; exact h
  | self, .arr es, h => by rw [Fz]; exact h
  | self, .def_ x e, h => by rw [Fz]; exact h
  | self, .set_ x e, h => by rw [Fz]; exact h
  | self, .and_ es, h => by rw [Fz]; exact h
  | self, .or_ es, h => by rw [Fz]; exact h
  | self, .for_ l i t s b, h => by rw [Fz]; simpa using h
  | self, .fn ps rest body, h => by rw [Fz, h]; rfl
  | self, .defn name ps rest body, h => by rw [Fz, h]; rfl
  | self, .assign _ _, h => by simp [Ff] at h
  | self, .bad _, h => by simp [Ff] at h
  | self, .break_ _, h => by simp [Ff] at h
  | self, .continue_ _, h => by simp [Ff] at h
theorem fzList_of_ff : ∀ (self : String) (es : List Expr), FfList true self es = true → FzList false self es = true
  | _, [], _ => by rw [FzList]
  | self, [e], h => by
    rw [FfList] at h; simp only [Bool.and_eq_true] at h
    rw [FzList]; exact fz_of_ff self e h.1
  | self, e :: e' :: es, h => by
    rw [FfList] at h; simp only [Bool.and_eq_true] at h
    rw [FzList]; simp only [Bool.and_eq_true]
    exact ⟨fs_of_stmt (by simpa using h.1), fzList_of_ff self (e' :: es) h.2⟩
theorem fzArms_of_ff : ∀ (self : String) (arms : List (Expr × Expr)), FfArms true self arms = true → FzArms false self arms = true
  | _, [], _ => by rw [FzArms]
  | self, (p, b) :: r, h => by
    rw [FfArms] at h; simp only [Bool.and_eq_true] at h
    rw [FzArms]; simp only [Bool.and_eq_true]
    exact ⟨⟨h.1.1, fz_of_ff self b h.1.2⟩, fzArms_of_ff self r h.2⟩
end

/-- the generator's name for the function being compiled: the one the fragment was checked
against, none, or the name of an anonymous function -/
def FnameOk (self : String) (c : Ctx) : Prop :=
  c.funcname = self ∨ c.funcname = "" ∨ ∃ t : Nat, c.funcname = s!"__anon{t}"

theorem anon_prefix (t : Nat) : (s!"__anon{t}").startsWith "__anon" = true := by
  simp
  have h : (toString "__anon").toList = ['_', '_', 'a', 'n', 'o', 'n'] := by decide
  rw [h]; exact List.prefix_append _ _

theorem ne_anon (t : Nat) (h : String) (hh : h.startsWith "__anon" = false) : (h == s!"__anon{t}") = false := by
  by_cases e : h = s!"__anon{t}"
  · rw [e, anon_prefix] at hh; cases hh
  · simpa using e

/-! ## The generator's tables -/

/-- what compiling does to the generator state: templates appended, nothing else -/
structure KeepFns (g₁ g₂ : GS) : Prop where
  len : g₁.fns.length ≤ g₂.fns.length
  fns : ∀ t, t < g₁.fns.length → g₂.fns.getD t {} = g₁.fns.getD t {}
  live : g₂.live = g₁.live
  loopsLen : g₁.loops.length ≤ g₂.loops.length
  loopsGet : ∀ id, id < g₁.loops.length → g₂.loops.getD id {} = g₁.loops.getD id {}
  loopstack : g₂.loopstack = g₁.loopstack

theorem KeepFns.refl (g : GS) : KeepFns g g := ⟨Nat.le_refl _, fun _ _ => rfl, rfl, Nat.le_refl _, fun _ _ => rfl, rfl⟩

theorem KeepFns.trans {a b c : GS} (h₁ : KeepFns a b) (h₂ : KeepFns b c) : KeepFns a c :=
  ⟨Nat.le_trans h₁.len h₂.len, fun t ht => (h₂.fns t (Nat.lt_of_lt_of_le ht h₁.len)).trans (h₁.fns t ht),
   h₂.live.trans h₁.live, Nat.le_trans h₁.loopsLen h₂.loopsLen,
   fun id hid => (h₂.loopsGet id (Nat.lt_of_lt_of_le hid h₁.loopsLen)).trans (h₁.loopsGet id hid),
   h₂.loopstack.trans h₁.loopstack⟩

/-- the loop records the generator completed are in the running state's loop table (`GenerateForLoop`
stores a loop's offsets after compiling its body: ids still on the compile-time loop stack are exempt) -/
def LoopsFinal (gs' : GS) (s : St) : Prop :=
  gs'.loops.length ≤ s.loops.length ∧
    ∀ id, id < gs'.loops.length → id ∉ gs'.loopstack → s.loops.getD id {} = gs'.loops.getD id {}

theorem LoopsFinal.first {g₁ g₂ : GS} {s : St} (h : LoopsFinal g₂ s) (hk : KeepFns g₁ g₂) : LoopsFinal g₁ s :=
  ⟨Nat.le_trans hk.loopsLen h.1, fun id h1 h2 => by
    rw [h.2 id (Nat.lt_of_lt_of_le h1 hk.loopsLen) (by rw [hk.loopstack]; exact h2)]; exact hk.loopsGet id h1⟩

/-- the loop table only grew -/
def LoopsExt (s s' : St) : Prop :=
  s.loops.length ≤ s'.loops.length ∧ ∀ id, id < s.loops.length → s'.loops.getD id {} = s.loops.getD id {}

theorem LoopsExt.refl (s : St) : LoopsExt s s := ⟨Nat.le_refl _, fun _ _ => rfl⟩

theorem LoopsExt.of_eq {s s' : St} (h : s'.loops = s.loops) : LoopsExt s s' := by
  unfold LoopsExt; rw [h]; exact ⟨Nat.le_refl _, fun _ _ => rfl⟩

theorem LoopsFinal.ext {gs' : GS} {s s' : St} (h : LoopsFinal gs' s) (hl : LoopsExt s s') : LoopsFinal gs' s' :=
  ⟨Nat.le_trans h.1 hl.1, fun id h1 h2 => by
    rw [hl.2 id (Nat.lt_of_lt_of_le h1 h.1)]; exact h.2 id h1 h2⟩

/-- the code was compiled when its text was loaded (generator state `gs` before, `gs'` after, the
live stack then being the global scope alone), and the templates made on the way are in the
function table of the running state; so are the loop records -/
structure GenOk (gs gs' : GS) (s : St) : Prop where
  live : gs.live = [some 0]
  main : mainFn < gs.fns.length
  len : gs'.fns.length ≤ s.fns.length
  tmpl : ∀ t, gs.fns.length ≤ t → t < gs'.fns.length → fnOf s t = gs'.fns.getD t {}
  loops : LoopsFinal gs' s

/-- the part of `GenOk` for the first of two consecutive compiles -/
theorem GenOk.first {gs g₁ g₂ : GS} {s : St} (h : GenOk gs g₂ s) (hk : KeepFns g₁ g₂) : GenOk gs g₁ s :=
  ⟨h.live, h.main, Nat.le_trans hk.len h.len,
   fun t h1 h2 => by rw [h.tmpl t h1 (Nat.lt_of_lt_of_le h2 hk.len)]; exact hk.fns t h2, h.loops.first hk⟩

/-- the part of `GenOk` for the second of two consecutive compiles -/
theorem GenOk.rest {gs g₁ g₂ : GS} {s : St} (h : GenOk gs g₂ s) (hk : KeepFns gs g₁) : GenOk g₁ g₂ s :=
  ⟨hk.live.trans h.live, Nat.lt_of_lt_of_le h.main hk.len, h.len,
   fun t h1 h2 => h.tmpl t (Nat.le_trans hk.len h1) h2, h.loops⟩

theorem GenOk.frame {gs gs' : GS} {s s' : St} (h : GenOk gs gs' s) (hf : Frame s s') : GenOk gs gs' s' :=
  ⟨h.live, h.main, Nat.le_trans h.len hf.fnsLen,
   fun t h1 h2 => by rw [hf.fns t (Nat.lt_of_lt_of_le h2 h.len)]; exact h.tmpl t h1 h2, h.loops.ext ⟨hf.loopsLen, hf.loops⟩⟩

/-! ## The live stack against the static chain -/

/-- `ChainF isFn frames k env lin`: from its top, `lin` lists the frames of the static chain of
`env`, scope ids = frame ids, none of them a function scope — down to the global scope (`k = none`)
or down to a function scope, whose frame's parent is `p` (`k = some p`: the static chain goes on at
`p`; the list goes on with whatever lies below — on the live stack, the caller's scopes). -/
inductive ChainF (isFn : Nat → Bool) (frames : List Ref.Frame) : Option Nat → Nat → List (Option Nat) → Prop
  | root (fr : Ref.Frame) : frames[0]? = some fr → fr.parent = none → isFn 0 = false →
      ChainF isFn frames none 0 [some 0]
  | cons (k : Option Nat) (env p : Nat) (fr : Ref.Frame) (rest : List (Option Nat)) :
      frames[env]? = some fr → fr.parent = some p → p < env → isFn env = false →
      ChainF isFn frames k p rest → ChainF isFn frames k env (some env :: rest)
  | fn (env p : Nat) (fr : Ref.Frame) (below : List (Option Nat)) :
      frames[env]? = some fr → fr.parent = some p → p < env → isFn env = true →
      ChainF isFn frames (some p) env (some env :: below)

theorem ChainF.head {isFn frames k env lin} (h : ChainF isFn frames k env lin) : ∃ rest, lin = some env :: rest := by
  cases h with
  | root => exact ⟨[], rfl⟩
  | cons _ _ _ _ rest => exact ⟨rest, rfl⟩
  | fn _ _ _ below => exact ⟨below, rfl⟩

theorem ChainF.lt {isFn frames k env lin} (h : ChainF isFn frames k env lin) : env < frames.length := by
  cases h with
  | root fr h0 _ _ => exact lt_of_getElem?_some h0
  | cons _ _ _ fr _ h0 _ _ _ _ => exact lt_of_getElem?_some h0
  | fn _ _ fr _ h0 _ _ _ => exact lt_of_getElem?_some h0

/-- where the static chain goes on is below where it started -/
theorem ChainF.k_lt {isFn frames k env lin} (h : ChainF isFn frames k env lin) : ∀ p, k = some p → p < env := by
  induction h with
  | root => intro p hp; cases hp
  | cons k env p fr rest _ _ hlt _ _ ih => intro q hq; exact Nat.lt_trans (ih q hq) hlt
  | fn env p fr below _ _ hlt _ => intro q hq; injection hq with hq; subst hq; exact hlt

/-- the variables of related scopes and frames -/
def VarsRel (m : Nat → Nat) (s : St) (rs : Ref.St) : Prop :=
  ∀ i x, (rs.frames.getD i {}).vars.lookup x = ((scopeOf s i).vars.lookup x).map (trf m)

/-- the global frame and scope -/
def Root0 (s : St) (rs : Ref.St) : Prop :=
  ∃ fr, rs.frames[0]? = some fr ∧ fr.parent = none ∧ isFnScope s 0 = false

/-- parents are older frames -/
def ParOk (frames : List Ref.Frame) : Prop :=
  ∀ (i : Nat) (fr : Ref.Frame), frames[i]? = some fr → ∀ p, fr.parent = some p → p < i

/-- the reference lookup does not depend on the fuel once there is enough of it -/
theorem lookupIn_fuel {frames : List Ref.Frame} (hp : ParOk frames) (x : String) : ∀ (env fuel : Nat), env + 1 ≤ fuel →
    Ref.lookupIn frames fuel env x = Ref.lookupIn frames (env + 1) env x := by
  intro env
  induction env using Nat.strongRecOn with
  | _ env ih =>
    intro fuel hf
    obtain ⟨f, rfl⟩ : ∃ f, fuel = f + 1 := ⟨fuel - 1, by omega⟩
    simp only [Ref.lookupIn]
    cases hfr : frames[env]? with
    | none => rfl
    | some fr =>
      simp only
      cases fr.vars.lookup x with
      | some v => rfl
      | none =>
        simp only
        cases hpar : fr.parent with
        | none => rfl
        | some p =>
          have hlt := hp env fr hfr p hpar
          simp only
          rw [ih p hlt f (by omega), ih p hlt env (by omega)]

/-- stage 1 of the lookup along a chained list, against the reference lookup -/
theorem stage1G {m : Nat → Nat} {s : St} {rs : Ref.St} (hv : VarsRel m s rs) (hp : ParOk rs.frames) (x : String) :
    ∀ {k env lin}, ChainF (isFnScope s) rs.frames k env lin →
      Ref.lookupIn rs.frames (env + 1) env x =
        match lookupUntilFn s x false lin with
        | some r => some (trp2 m r)
        | none => match k with
          | none => none
          | some p => Ref.lookupIn rs.frames (p + 1) p x := by
  intro k env lin hc
  induction hc with
  | root fr hf hpar hfl =>
    have hvx := hv 0 x
    rw [List.getD_eq_getElem?_getD, hf, Option.getD_some] at hvx
    have hfl' : (scopeOf s 0).isFunction = false := hfl
    simp only [Ref.lookupIn, hf, hvx, lookupUntilFn, hfl']
    cases (scopeOf s 0).vars.lookup x with
    | some v => rfl
    | none => simp [hpar]
  | cons k env p fr rest hf hpar hlt hfl _ ih =>
    have hvx := hv env x
    rw [List.getD_eq_getElem?_getD, hf, Option.getD_some] at hvx
    have hfl' : (scopeOf s env).isFunction = false := hfl
    simp only [Ref.lookupIn, hf, hvx, lookupUntilFn, hfl']
    cases (scopeOf s env).vars.lookup x with
    | some v => rfl
    | none =>
      simp only [Option.map_none, hpar, Bool.false_eq_true, if_false]
      rw [lookupIn_fuel hp x p env (by omega)]; exact ih
  | fn env p fr below hf hpar hlt hfl =>
    have hvx := hv env x
    rw [List.getD_eq_getElem?_getD, hf, Option.getD_some] at hvx
    have hfl' : (scopeOf s env).isFunction = true := hfl
    simp only [Ref.lookupIn, hf, hvx, lookupUntilFn, hfl']
    cases (scopeOf s env).vars.lookup x with
    | some v => rfl
    | none =>
      simp only [Option.map_none, hpar, if_true, Bool.false_eq_true, if_false]
      exact lookupIn_fuel hp x p env (by omega)

/-- a list chained down to the global scope that holds nothing holds nothing in the global scope -/
theorem chain_none_root {s : St} {frames : List Ref.Frame} (x : String) :
    ∀ {k env lin}, ChainF (isFnScope s) frames k env lin → lookupUntilFn s x false lin = none → k = none →
      (scopeOf s 0).vars.lookup x = none := by
  intro k env lin hc
  induction hc with
  | root fr hf hpar hfl =>
    intro h1 _
    have hfl' : (scopeOf s 0).isFunction = false := hfl
    simp only [lookupUntilFn, hfl'] at h1
    cases hl : (scopeOf s 0).vars.lookup x with
    | some v => rw [hl] at h1; cases h1
    | none => rfl
  | cons k env p fr rest hf hpar hlt hfl _ ih =>
    intro h1 hk
    have hfl' : (scopeOf s env).isFunction = false := hfl
    simp only [lookupUntilFn, hfl'] at h1
    cases hl : (scopeOf s env).vars.lookup x with
    | some v => rw [hl] at h1; cases h1
    | none => rw [hl] at h1; simp only [Bool.false_eq_true, if_false] at h1; exact ih h1 hk
  | fn env p fr below hf hpar hlt hfl => intro _ hk; cases hk

/-! ## The function chain: what stage 2 searches -/

/-- the live stack from its top down to and including the first function scope -/
def topSeg (s : St) : List (Option Nat) := Scope.takeToBoundary (isFnScope s) s.linear

theorem lookupUntilFn_takeToBoundary (s : St) (x : String) : ∀ (l : List (Option Nat)),
    lookupUntilFn s x false (Scope.takeToBoundary (isFnScope s) l) = lookupUntilFn s x false l
  | [] => rfl
  | none :: rest => by
    simp only [Scope.takeToBoundary, Scope.isFnElem, Bool.false_eq_true, if_false, lookupUntilFn]
    exact lookupUntilFn_takeToBoundary s x rest
  | some id :: rest => by
    simp only [Scope.takeToBoundary]
    by_cases hf : Scope.isFnElem (isFnScope s) (some id) = true
    · have hf' : (scopeOf s id).isFunction = true := hf
      rw [if_pos hf]
      simp only [lookupUntilFn, hf', Bool.false_eq_true, if_false, if_true]
    · have hf' : (scopeOf s id).isFunction = false := by simpa [Scope.isFnElem, isFnScope] using hf
      rw [if_neg hf]
      simp only [Bool.false_eq_true, if_false, lookupUntilFn, hf']
      rw [lookupUntilFn_takeToBoundary s x rest]

/-- a suffix of the top segment holds nothing the top segment does not hold -/
theorem lookupUntilFn_seg_suffix (s : St) (x : String) : ∀ (t l c : List (Option Nat)),
    Scope.takeToBoundary (isFnScope s) l = t ++ c →
    lookupUntilFn s x false (Scope.takeToBoundary (isFnScope s) l) = none → lookupUntilFn s x false c = none
  | [], l, c, h, hn => by rw [h] at hn; exact hn
  | a :: t, [], c, h, _ => by simp [Scope.takeToBoundary] at h
  | a :: t, y :: rest, c, h, hn => by
    simp only [Scope.takeToBoundary] at h hn
    by_cases hy : Scope.isFnElem (isFnScope s) y = true
    · rw [if_pos hy] at h
      have : t ++ c = [] := by
        have := congrArg List.tail h
        simpa using this.symm
      have hc : c = [] := (List.append_eq_nil_iff.mp this).2
      subst hc; rfl
    · rw [if_neg hy] at h hn
      have hay : y = a := (List.cons.inj h).1
      have hrest : Scope.takeToBoundary (isFnScope s) rest = t ++ c := (List.cons.inj h).2
      refine lookupUntilFn_seg_suffix s x t rest c hrest ?_
      cases y with
      | none => simpa only [lookupUntilFn] using hn
      | some id =>
        have hf' : (scopeOf s id).isFunction = false := by simpa [Scope.isFnElem, isFnScope] using hy
        simp only [lookupUntilFn, hf'] at hn
        cases hl : (scopeOf s id).vars.lookup x with
        | some v => rw [hl] at hn; cases hn
        | none => rw [hl] at hn; simpa using hn

theorem takeToBoundary_idem (isFn : Nat → Bool) : ∀ (l : List (Option Nat)),
    Scope.takeToBoundary isFn (Scope.takeToBoundary isFn l) = Scope.takeToBoundary isFn l
  | [] => rfl
  | x :: rest => by
    simp only [Scope.takeToBoundary]
    by_cases hx : Scope.isFnElem isFn x = true
    · rw [if_pos hx]; simp only [Scope.takeToBoundary, if_pos hx]
    · rw [if_neg hx]; simp only [Scope.takeToBoundary, if_neg hx, takeToBoundary_idem isFn rest]

/-- `FnChainF s frames seg k f`: what the walk along the parent chain of function `f` searches, after the
segment `seg` was searched and the static chain goes on at `k`: helper functions of operand
evaluation (closing stack = a suffix of the segment just searched: nothing new; `sfx`: the helper of
`force`, whose closing stack is the whole captured stack — its top segment is such a suffix); a closure object
made for the environment `e = k` (its closing stack is chained from `e`; the walk goes on with the
function that made it); a parentless function when the static chain is exhausted. -/
inductive FnChainF (s : St) (frames : List Ref.Frame) : List (Option Nat) → Option Nat → Nat → Prop
  | root (seg : List (Option Nat)) (f : Nat) : f < s.fns.length → (fnOf s f).parent = none →
      (∃ t, Scope.takeToBoundary (isFnScope s) seg = t ++ (fnOf s f).closing) → FnChainF s frames seg none f
  | step (seg : List (Option Nat)) (k : Option Nat) (f p : Nat) : f < s.fns.length → (fnOf s f).parent = some p → p < f →
      (∃ t, Scope.takeToBoundary (isFnScope s) seg = t ++ (fnOf s f).closing) → FnChainF s frames seg k p →
      FnChainF s frames seg k f
  | clos (seg : List (Option Nat)) (e f p : Nat) (k' : Option Nat) : f < s.fns.length → (fnOf s f).parent = some p → p < f →
      ChainF (isFnScope s) frames k' e (fnOf s f).closing → FnChainF s frames (fnOf s f).closing k' p →
      FnChainF s frames seg (some e) f
  | sfx (seg : List (Option Nat)) (k : Option Nat) (f p : Nat) : f < s.fns.length → (fnOf s f).parent = some p → p < f →
      (∀ i, some i ∈ Scope.takeToBoundary (isFnScope s) (fnOf s f).closing → i < s.scopes.length) →
      (∃ t, Scope.takeToBoundary (isFnScope s) seg = t ++ Scope.takeToBoundary (isFnScope s) (fnOf s f).closing) →
      FnChainF s frames seg k p → FnChainF s frames seg k f

theorem FnChainF.lt {s frames seg k f} (h : FnChainF s frames seg k f) : f < s.fns.length := by
  cases h <;> assumption

theorem lookupChain_parentless (s : St) (x : String) (p : Nat) (hp : (fnOf s p).parent = none) :
    ∀ fuel, lookupChain s x fuel p = none
  | 0 => rfl
  | fuel + 1 => by simp only [lookupChain, hp]

/-- the walk along the parent chain when the segment before found nothing -/
theorem lookupChainG {m : Nat → Nat} {s : St} {rs : Ref.St} (hv : VarsRel m s rs) (hp : ParOk rs.frames) (x : String) :
    ∀ {seg k f}, FnChainF s rs.frames seg k f →
      lookupUntilFn s x false (Scope.takeToBoundary (isFnScope s) seg) = none → ∀ fuel, f + 1 ≤ fuel →
      (lookupChain s x fuel f).map (trp2 m) = match k with
        | none => none
        | some e => Ref.lookupIn rs.frames (e + 1) e x := by
  intro seg k f hc
  induction hc with
  | root seg f hlt hpar hs => intro _ fuel _; rw [lookupChain_parentless s x f hpar]; rfl
  | step seg k f p hlt hpar hpf hs _ ih =>
    intro hseg fuel hfu
    obtain ⟨j, rfl⟩ : ∃ j, fuel = j + 1 := ⟨fuel - 1, by omega⟩
    obtain ⟨t, ht⟩ := hs
    have hclo := lookupUntilFn_seg_suffix s x t seg _ ht hseg
    simp only [lookupChain, hpar, hclo]
    exact ih hseg j (by omega)
  | sfx seg k f p hlt hpar hpf _ hs _ ih =>
    intro hseg fuel hfu
    obtain ⟨j, rfl⟩ : ∃ j, fuel = j + 1 := ⟨fuel - 1, by omega⟩
    obtain ⟨t, ht⟩ := hs
    have hclo := lookupUntilFn_seg_suffix s x t seg _ ht hseg
    rw [lookupUntilFn_takeToBoundary] at hclo
    simp only [lookupChain, hpar, hclo]
    exact ih hseg j (by omega)
  | clos seg e f p k' hlt hpar hpf hch _ ih =>
    intro _ fuel hfu
    obtain ⟨j, rfl⟩ : ∃ j, fuel = j + 1 := ⟨fuel - 1, by omega⟩
    have st := stage1G hv hp x hch
    simp only [lookupChain, hpar]
    rw [st]
    cases hl : lookupUntilFn s x false (fnOf s f).closing with
    | some r => rfl
    | none =>
      simp only
      exact ih (by rw [lookupUntilFn_takeToBoundary]; exact hl) j (by omega)

/-- … and if the whole walk finds nothing, the global scope does not bind the name -/
theorem lookupChain_none_root {s : St} {frames : List Ref.Frame} (x : String) :
    ∀ {seg k f}, FnChainF s frames seg k f → (k = none → (scopeOf s 0).vars.lookup x = none) →
      lookupUntilFn s x false (Scope.takeToBoundary (isFnScope s) seg) = none →
      ∀ fuel, f + 1 ≤ fuel → lookupChain s x fuel f = none → (scopeOf s 0).vars.lookup x = none := by
  intro seg k f hc
  induction hc with
  | root seg f hlt hpar hs => intro hk _ _ _ _; exact hk rfl
  | step seg k f p hlt hpar hpf hs _ ih =>
    intro hk hseg fuel hfu hn
    obtain ⟨j, rfl⟩ : ∃ j, fuel = j + 1 := ⟨fuel - 1, by omega⟩
    obtain ⟨t, ht⟩ := hs
    have hclo := lookupUntilFn_seg_suffix s x t seg _ ht hseg
    simp only [lookupChain, hpar, hclo] at hn
    exact ih hk hseg j (by omega) hn
  | sfx seg k f p hlt hpar hpf _ hs _ ih =>
    intro hk hseg fuel hfu hn
    obtain ⟨j, rfl⟩ : ∃ j, fuel = j + 1 := ⟨fuel - 1, by omega⟩
    obtain ⟨t, ht⟩ := hs
    have hclo := lookupUntilFn_seg_suffix s x t seg _ ht hseg
    rw [lookupUntilFn_takeToBoundary] at hclo
    simp only [lookupChain, hpar, hclo] at hn
    exact ih hk hseg j (by omega) hn
  | clos seg e f p k' hlt hpar hpf hch _ ih =>
    intro _ _ fuel hfu hn
    obtain ⟨j, rfl⟩ : ∃ j, fuel = j + 1 := ⟨fuel - 1, by omega⟩
    simp only [lookupChain, hpar] at hn
    cases hl : lookupUntilFn s x false (fnOf s f).closing with
    | some r => rw [hl] at hn; cases hn
    | none =>
      rw [hl] at hn
      exact ih (fun hk' => chain_none_root x hch hl hk') (by rw [lookupUntilFn_takeToBoundary]; exact hl) j (by omega) hn

/-- every function scope belongs to a template that closes over the global scope only (templates
are made when a text is loaded) -/
def FScopes (s : St) : Prop :=
  ∀ i, isFnScope s i = true → ∃ t, (scopeOf s i).myFunction = some t ∧ (fnOf s t).closing = [some 0]

/-- stage 3 finds nothing either -/
theorem stage3G {s : St} {frames : List Ref.Frame} (x : String) (hfs : FScopes s) (h0 : isFnScope s 0 = false)
    (hg : (scopeOf s 0).vars.lookup x = none) :
    ∀ {k env lin}, ChainF (isFnScope s) frames k env lin → lookupUntilFn s x false lin = none →
      lookupUntilFn s x true lin = none := by
  intro k env lin hc
  induction hc with
  | root fr hf hp hfl =>
    intro h1
    have hfl' : (scopeOf s 0).isFunction = false := hfl
    simp only [lookupUntilFn, hfl'] at h1 ⊢
    exact h1
  | cons k env p fr rest hf hp hlt hfl _ ih =>
    intro h1
    have hfl' : (scopeOf s env).isFunction = false := hfl
    simp only [lookupUntilFn, hfl'] at h1 ⊢
    cases hl : (scopeOf s env).vars.lookup x with
    | some v => rw [hl] at h1; cases h1
    | none => rw [hl] at h1; simp only [Bool.false_eq_true, if_false] at h1 ⊢; exact ih h1
  | fn env p fr below hf hp hlt hfl =>
    intro h1
    have hfl' : (scopeOf s env).isFunction = true := hfl
    obtain ⟨t, hmy, hclo⟩ := hfs env hfl
    have h0' : (scopeOf s 0).isFunction = false := h0
    simp only [lookupUntilFn, hfl'] at h1 ⊢
    cases hl : (scopeOf s env).vars.lookup x with
    | some v => rw [hl] at h1; cases h1
    | none => simp only [if_true, hmy, hclo, lookupWhole, hg]

/-! ## Growth: what stays true when tables grow -/

/-- the function table grew; old functions are unchanged, except that `__main` may have new code -/
structure FnsKeep (s s' : St) : Prop where
  len : s.fns.length ≤ s'.fns.length
  same : ∀ id, id < s.fns.length → id ≠ mainFn → fnOf s' id = fnOf s id
  par : (fnOf s' mainFn).parent = (fnOf s mainFn).parent
  clo : (fnOf s' mainFn).closing = (fnOf s mainFn).closing
  lext : LoopsExt s s'

theorem FnsKeep.parent {s s' : St} (h : FnsKeep s s') (id : Nat) (hid : id < s.fns.length) :
    (fnOf s' id).parent = (fnOf s id).parent := by
  by_cases hm : id = mainFn
  · subst hm; exact h.par
  · rw [h.same id hid hm]

theorem FnsKeep.closing {s s' : St} (h : FnsKeep s s') (id : Nat) (hid : id < s.fns.length) :
    (fnOf s' id).closing = (fnOf s id).closing := by
  by_cases hm : id = mainFn
  · subst hm; exact h.clo
  · rw [h.same id hid hm]

theorem FnsKeep.of_eq {s s' : St} (hlen : s.fns.length ≤ s'.fns.length)
    (hfns : ∀ id, id < s.fns.length → fnOf s' id = fnOf s id) (hm : mainFn < s.fns.length)
    (hl : LoopsExt s s' := by exact ⟨Nat.le_refl _, fun _ _ => rfl⟩) : FnsKeep s s' :=
  ⟨hlen, fun id hid _ => hfns id hid, by rw [hfns _ hm], by rw [hfns _ hm], hl⟩

theorem GenOk.mono {gs gs' : GS} {s s' : St} (h : GenOk gs gs' s) (hk : FnsKeep s s') : GenOk gs gs' s' :=
  ⟨h.live, h.main, Nat.le_trans h.len hk.len, fun t h1 h2 => by
    rw [hk.same t (Nat.lt_of_lt_of_le h2 h.len) (by have := h.main; omega)]; exact h.tmpl t h1 h2, h.loops.ext hk.lext⟩

theorem ChainF.congr {isFn isFn' : Nat → Bool} {frames frames' : List Ref.Frame}
    (hext : ∀ (i : Nat) (fr : Ref.Frame), frames[i]? = some fr →
      ∃ fr' : Ref.Frame, frames'[i]? = some fr' ∧ fr'.parent = fr.parent) :
    ∀ {k env lin}, ChainF isFn frames k env lin → (∀ i, i ≤ env → isFn' i = isFn i) →
      ChainF isFn' frames' k env lin := by
  intro k env lin h
  induction h with
  | root fr hf hp hfl0 =>
    intro hfl
    obtain ⟨fr', hf', hp'⟩ := hext 0 fr hf
    exact ChainF.root fr' hf' (hp'.trans hp) (by rw [hfl 0 (Nat.le_refl _)]; exact hfl0)
  | cons k env p fr rest hf hp hlt hfl0 _ ih =>
    intro hfl
    obtain ⟨fr', hf', hp'⟩ := hext env fr hf
    exact ChainF.cons k env p fr' rest hf' (hp'.trans hp) hlt (by rw [hfl env (Nat.le_refl _)]; exact hfl0)
      (ih (fun i hi => hfl i (by omega)))
  | fn env p fr below hf hp hlt hfl0 =>
    intro hfl
    obtain ⟨fr', hf', hp'⟩ := hext env fr hf
    exact ChainF.fn env p fr' below hf' (hp'.trans hp) hlt (by rw [hfl env (Nat.le_refl _)]; exact hfl0)

/-- the top segment of a chained list reads the flags of the chain's frames only -/
theorem takeToBoundary_chain {isFn isFn' : Nat → Bool} {frames : List Ref.Frame} :
    ∀ {k env lin}, ChainF isFn frames k env lin → (∀ i, i ≤ env → isFn' i = isFn i) →
      Scope.takeToBoundary isFn' lin = Scope.takeToBoundary isFn lin := by
  intro k env lin h
  induction h with
  | root fr hf hp hfl0 =>
    intro hfl
    have e : Scope.isFnElem isFn' (some 0) = Scope.isFnElem isFn (some 0) := hfl 0 (Nat.le_refl _)
    simp only [Scope.takeToBoundary, e]
  | cons k env p fr rest hf hp hlt hfl0 _ ih =>
    intro hfl
    have e : Scope.isFnElem isFn' (some env) = Scope.isFnElem isFn (some env) := hfl env (Nat.le_refl _)
    simp only [Scope.takeToBoundary, e, ih (fun i hi => hfl i (by omega))]
  | fn env p fr below hf hp hlt hfl0 =>
    intro hfl
    have e : Scope.isFnElem isFn' (some env) = Scope.isFnElem isFn (some env) := hfl env (Nat.le_refl _)
    have e2 : Scope.isFnElem isFn (some env) = true := hfl0
    simp only [Scope.takeToBoundary, e, e2, if_true]

theorem ttb_congr {isFn isFn' : Nat → Bool} : ∀ (l : List (Option Nat)),
    (∀ i, some i ∈ Scope.takeToBoundary isFn l → isFn' i = isFn i) →
    Scope.takeToBoundary isFn' l = Scope.takeToBoundary isFn l
  | [], _ => rfl
  | none :: rest, h => by
    simp only [Scope.takeToBoundary, Scope.isFnElem, Bool.false_eq_true, if_false] at h ⊢
    rw [ttb_congr rest (fun i hi => h i (List.mem_cons_of_mem _ hi))]
  | some j :: rest, h => by
    have e : Scope.isFnElem isFn' (some j) = Scope.isFnElem isFn (some j) :=
      h j (by simp only [Scope.takeToBoundary]; split <;> simp)
    by_cases hj : Scope.isFnElem isFn (some j) = true
    · simp only [Scope.takeToBoundary, e, hj, if_true]
    · have hj' : Scope.isFnElem isFn (some j) = false := by simpa using hj
      simp only [Scope.takeToBoundary, e, hj', Bool.false_eq_true, if_false] at h ⊢
      rw [ttb_congr rest (fun i hi => h i (List.mem_cons_of_mem _ hi))]

theorem FnChainF.transfer {s s' : St} {frames frames' : List Ref.Frame} (B : Nat)
    (hfl : ∀ i, i < B → isFnScope s' i = isFnScope s i)
    (hext : ∀ (i : Nat) (fr : Ref.Frame), frames[i]? = some fr →
      ∃ fr' : Ref.Frame, frames'[i]? = some fr' ∧ fr'.parent = fr.parent)
    (hk : FnsKeep s s') (hB : s.scopes.length ≤ B) (hsl : s.scopes.length ≤ s'.scopes.length) :
    ∀ {seg k f}, FnChainF s frames seg k f → (∀ e, k = some e → e < B) →
      Scope.takeToBoundary (isFnScope s') seg = Scope.takeToBoundary (isFnScope s) seg →
      FnChainF s' frames' seg k f := by
  intro seg k f h
  induction h with
  | root seg f hlt hp hs =>
    intro _ hseg
    exact FnChainF.root seg f (Nat.lt_of_lt_of_le hlt hk.len) (by rw [hk.parent f hlt]; exact hp)
      (by rw [hseg, hk.closing f hlt]; exact hs)
  | step seg k f p hlt hp hpf hs _ ih =>
    intro hb hseg
    exact FnChainF.step seg k f p (Nat.lt_of_lt_of_le hlt hk.len) (by rw [hk.parent f hlt]; exact hp) hpf
      (by rw [hseg, hk.closing f hlt]; exact hs) (ih hb hseg)
  | sfx seg k f p hlt hp hpf hbd hs _ ih =>
    intro hb hseg
    have hcl : Scope.takeToBoundary (isFnScope s') (fnOf s f).closing = Scope.takeToBoundary (isFnScope s) (fnOf s f).closing :=
      ttb_congr _ (fun i hi => hfl i (Nat.lt_of_lt_of_le (hbd i hi) hB))
    exact FnChainF.sfx seg k f p (Nat.lt_of_lt_of_le hlt hk.len) (by rw [hk.parent f hlt]; exact hp) hpf
      (by rw [hk.closing f hlt, hcl]; exact fun i hi => Nat.lt_of_lt_of_le (hbd i hi) hsl)
      (by rw [hseg, hk.closing f hlt, hcl]; exact hs) (ih hb hseg)
  | clos seg e f p k' hlt hp hpf hch _ ih =>
    intro hb _
    have he : e < B := hb e rfl
    have hfle : ∀ i, i ≤ e → isFnScope s' i = isFnScope s i := fun i hi => hfl i (by omega)
    have hch' : ChainF (isFnScope s') frames' k' e (fnOf s' f).closing := by
      rw [hk.closing f hlt]; exact hch.congr hext hfle
    refine FnChainF.clos seg e f p k' (Nat.lt_of_lt_of_le hlt hk.len) (by rw [hk.parent f hlt]; exact hp) hpf hch' ?_
    rw [hk.closing f hlt]
    exact ih (fun q hq => Nat.lt_trans (hch.k_lt q hq) he) (takeToBoundary_chain hch hfle)

/-! ## Closure objects against reference closures -/

/-- the code `buildSexpFun` gives a function: prologue (function scope, parameters bound from the
stack, last first), body, epilogue -/
def fnCode (t : Nat) (ps : List String) (b : List Instr) : List Instr :=
  [.addFuncScope t] ++ (ps.map Instr.popStackPutEnv).reverse ++ b ++ [.removeScope, .ret]

/-- what the generator knows about the function whose body it compiles (for the arity check of a self
tail call, `knownFunctions`): under its own name it finds the template with these formals -/
def KnownOk (cb : Ctx) (gs0 : GS) (ps : List String) (rest : Option String) : Prop :=
  cb.funcname ≠ "" → (∃ t' : Nat, cb.funcname = s!"__anon{t'}") ∨
    ∃ t, cb.known.lookup cb.funcname = some t ∧ t < gs0.fns.length ∧ (gs0.fns.getD t {}).varargs = rest.isSome
      ∧ (gs0.fns.getD t {}).nargs = ps.length ∧ (gs0.fns.getD t {}).params = ps ++ rest.toList

/-- VM function `vid` is a closure object for the reference closure `m vid`: parameters as declared,
code compiled from the body, and its closing stack — with those of the functions that made it — is
the static chain of the closure's environment -/
structure GoodFn (m : Nat → Nat) (s : St) (rs : Ref.St) (vid : Nat) : Prop where
  lt : vid < s.fns.length
  nm : mainFn < vid
  clo : ∃ c, rs.clos[m vid]? = some c ∧ okRest c.rest = true ∧ (c.ps ++ c.rest.toList).Nodup ∧ (∀ p ∈ c.ps, okParam p = true)
    ∧ c.body ≠ [] ∧ (fnOf s vid).params = c.ps ++ c.rest.toList ∧ (fnOf s vid).nargs = c.ps.length
    ∧ (fnOf s vid).varargs = c.rest.isSome
    ∧ (fnOf s vid).user = false ∧ c.env < s.scopes.length
    ∧ (∃ k' p, (fnOf s vid).parent = some p ∧ p < vid ∧ ChainF (isFnScope s) rs.frames k' c.env (fnOf s vid).closing
        ∧ FnChainF s rs.frames (fnOf s vid).closing k' p)
    ∧ ∃ t b tl isFn cb gs0 gs1 self, (fnOf s vid).code = fnCode t (c.ps ++ c.rest.toList) b ∧ t < s.fns.length
        ∧ (fnOf s t).closing = [some 0] ∧ (compileBegin isFn cb c.body).run gs0 = .ok ((b, tl), gs1) ∧ cb.scopes = 0
        ∧ FnameOk self cb ∧ (∃ ex, FzList ex self c.body = true ∧ (ex = true → gs0.loopstack = [])) ∧ GenOk gs0 gs1 s
        ∧ KnownOk cb gs0 c.ps c.rest

/-- the reference closure table only grows -/
def ClosExt (rs rs' : Ref.St) : Prop := ∀ (i : Nat) (c : Ref.Clos), rs.clos[i]? = some c → rs'.clos[i]? = some c

theorem ClosExt.refl (rs : Ref.St) : ClosExt rs rs := fun _ _ h => h
theorem ClosExt.trans {a b c : Ref.St} (h₁ : ClosExt a b) (h₂ : ClosExt b c) : ClosExt a c :=
  fun i x h => h₂ i x (h₁ i x h)

/-- the reference state only grew: frames (parents kept) and closures -/
def RExt (rs rs' : Ref.St) : Prop := FramesExt rs rs' ∧ ClosExt rs rs'

theorem RExt.refl (rs : Ref.St) : RExt rs rs := ⟨FramesExt.refl rs, ClosExt.refl rs⟩
theorem RExt.trans {a b c : Ref.St} (h₁ : RExt a b) (h₂ : RExt b c) : RExt a c :=
  ⟨h₁.1.trans h₂.1, h₁.2.trans h₂.2⟩

theorem GoodFn.mono {m m' : Nat → Nat} {s s' : St} {rs rs' : Ref.St} {vid : Nat} (h : GoodFn m s rs vid)
    (hk : FnsKeep s s') (hsl : s.scopes.length ≤ s'.scopes.length)
    (hfl : ∀ i, i < s.scopes.length → isFnScope s' i = isFnScope s i) (hr : RExt rs rs') (hm : m' vid = m vid) :
    GoodFn m' s' rs' vid := by
  obtain ⟨hlt, hnm, c, h1, h3, h4, h5, h6, h7, h8, h9, h10, hel, ⟨k', p, hp1, hp2, hch, hfc⟩,
    t, b, tl, isFn, cb, gs0, gs1, self, hc1, hc2, hc3, hc4, hc5, hc6, hc7, hc8, hc9⟩ := h
  have e := hk.same vid hlt (by omega)
  have hfle : ∀ i, i ≤ c.env → isFnScope s' i = isFnScope s i := fun i hi => hfl i (by omega)
  refine ⟨Nat.lt_of_lt_of_le hlt hk.len, hnm, c, by rw [hm]; exact hr.2 _ _ h1, h3, h4, h5, h6, by rw [e]; exact h7,
    by rw [e]; exact h8, by rw [e]; exact h9, by rw [e]; exact h10, Nat.lt_of_lt_of_le hel hsl,
    ⟨k', p, by rw [e]; exact hp1, hp2, by rw [e]; exact hch.congr hr.1 hfle, ?_⟩,
    t, b, tl, isFn, cb, gs0, gs1, self, by rw [e]; exact hc1, Nat.lt_of_lt_of_le hc2 hk.len,
    by rw [hk.closing t hc2]; exact hc3, hc4, hc5, hc6, hc7, hc8.mono hk, hc9⟩
  rw [e]
  exact hfc.transfer s.scopes.length hfl hr.1 hk (Nat.le_refl _) hsl (fun q hq => Nat.lt_trans (hch.k_lt q hq) hel)
    (takeToBoundary_chain hch hfle)

/-- the Go builtins that call back into the machine -/
def hoB (n : String) : Prop := n = "force" ∨ n = "apply" ∨ n = "map"

/-- the builtins a value of the fragment may hold: the first-order ones and `force`, `apply`, `map` -/
def okB (n : String) : Prop := n ∈ foBuiltins ∨ hoB n

/-- a value of the VM state is in order: its functions are closure objects with their reference
closures, its builtins first-order or `force`, no stack mark in it -/
def VOk (m : Nat → Nat) (s : St) (rs : Ref.St) (v : Val) : Prop :=
  ValIn (GoodFn m s rs) okB (fun _ => False) v

/-- a value bound to the name `x`: in order if `x` is a name the fragment may mention; the global
bindings of the other builtins (`map`, `apply`, …) are only required to mention good functions -/
def VOkN (m : Nat → Nat) (s : St) (rs : Ref.St) (x : String) (v : Val) : Prop :=
  ValIn (GoodFn m s rs) (fun n => okSym x = true → okB n) (fun _ => okSym x = false) v

theorem VOkN.ok {m s rs x v} (h : VOkN m s rs x v) (hx : okSym x = true) : VOk m s rs v :=
  ValIn.imp h (fun _ hg => hg) (fun _ hn => hn hx) (fun _ hl => by rw [hx] at hl; cases hl)

theorem VOk.named {m s rs v} (h : VOk m s rs v) (x : String) : VOkN m s rs x v :=
  ValIn.imp h (fun _ hg => hg) (fun _ hn _ => hn) (fun _ hl => hl.elim)

def HOk (m : Nat → Nat) (s : St) (rs : Ref.St) (h : DataHeap) : Prop :=
  HeapIn (GoodFn m s rs) okB (fun _ => False) h

/-- a lazy argument object against the reference thunk: the same expression (an operand of the fragment),
the memo related, and the captured stack is the static chain of the
thunk's creation frame, continued along the closing stacks of the function that made the call -/
structure LzOk (m : Nat → Nat) (s : St) (rs : Ref.St) (lz : LazyObj) (th : Ref.Thunk) : Prop where
  val : th.value = lz.value.map (trf m)
  vok : ∀ v, lz.value = some v → VOk m s rs v
  /-- as long as there is no memo (an object made by `apply`/`map` from a value has one from the start) -/
  todo : lz.value = none → th.e = lz.e ∧ Ff false "" lz.e = true ∧ th.env < s.scopes.length ∧ lz.stack.getLast? = some (some 0)
    ∧ ∃ k, ChainF (isFnScope s) rs.frames k th.env lz.stack ∧ FnChainF s rs.frames lz.stack k lz.curfunc

/-- the table of lazy argument objects against the table of thunks: same length, entry by entry -/
def LazyRel (m : Nat → Nat) (s : St) (rs : Ref.St) : Prop :=
  s.lazies.length = rs.thunks.length ∧
    ∀ (id : Nat) (lz : LazyObj), s.lazies[id]? = some lz → ∃ th : Ref.Thunk, rs.thunks[id]? = some th ∧ LzOk m s rs lz th

/-! ## The relation -/

structure RelF (m : Nat → Nat) (s : St) (rs : Ref.St) (env : Nat) : Prop where
  len : s.scopes.length = rs.frames.length
  vars : VarsRel m s rs
  root0 : Root0 s rs
  par : ParOk rs.frames
  bottom : s.linear.getLast? = some (some 0)
  ctx : ∃ k, ChainF (isFnScope s) rs.frames k env s.linear ∧ FnChainF s rs.frames s.linear k s.curfunc
  fscopes : FScopes s
  heap : rs.heap = trHeap m id id s.heap
  trace : s.trace = rs.trace
  globals : Globals rs
  vok : ∀ i x v, (scopeOf s i).vars.lookup x = some v → VOkN m s rs x v
  hok : HOk m s rs s.heap
  lz : LazyRel m s rs

/-- **Lookup**: under `RelF`, the three stages of `LexicalLookupSymbol` find what the reference
lookup finds — same scope/frame index, corresponding values. -/
theorem RelF.lexLookup {m s rs env} (h : RelF m s rs env) (x : String) :
    (lexLookup s x).map (trp2 m) = Ref.lookup rs env x := by
  obtain ⟨k, hc, hfc⟩ := h.ctx
  obtain ⟨fr0, hf0, hp0, hfl0⟩ := h.root0
  have st1 := stage1G h.vars h.par x hc
  unfold Ref.lookup
  rw [lookupIn_fuel h.par x env _ (by have := hc.lt; omega), st1]
  unfold VM.lexLookup
  cases h1 : lookupUntilFn s x false s.linear with
  | some r => rfl
  | none =>
    have hseg : lookupUntilFn s x false (Scope.takeToBoundary (isFnScope s) s.linear) = none := by
      rw [lookupUntilFn_takeToBoundary]; exact h1
    have hcl := hfc.lt
    have hlc := lookupChainG h.vars h.par x hfc hseg (s.fns.length + 1) (by omega)
    have hroot := lookupChain_none_root x hfc (fun hk => chain_none_root x hc h1 hk) hseg (s.fns.length + 1) (by omega)
    simp only
    cases hfc with
    | root seg f hlt hp hs =>
      obtain ⟨t, ht⟩ := hs
      have hclo := lookupUntilFn_seg_suffix s x t s.linear _ ht hseg
      have hg := chain_none_root x hc h1 rfl
      have h3 := stage3G x h.fscopes hfl0 hg hc h1
      simp only [hp, Option.isSome_none, Bool.false_eq_true, if_false, hclo, h3, Option.map_none]
    | step seg k f p hlt hp hpf hs hrest =>
      simp only [hp, Option.isSome_some, if_true]
      cases hl : lookupChain s x (s.fns.length + 1) s.curfunc with
      | some r => rw [hl] at hlc; simp only [Option.map_some] at hlc ⊢; exact hlc
      | none =>
        rw [hl] at hlc
        have h3 := stage3G x h.fscopes hfl0 (hroot hl) hc h1
        simp only [h3]; exact hlc
    | clos seg e f p k' hlt hp hpf hch hrest =>
      simp only [hp, Option.isSome_some, if_true]
      cases hl : lookupChain s x (s.fns.length + 1) s.curfunc with
      | some r => rw [hl] at hlc; simp only [Option.map_some] at hlc ⊢; exact hlc
      | none =>
        rw [hl] at hlc
        have h3 := stage3G x h.fscopes hfl0 (hroot hl) hc h1
        simp only [h3]; exact hlc
    | sfx seg k f p hlt hp hpf hbd hs hrest =>
      simp only [hp, Option.isSome_some, if_true]
      cases hl : lookupChain s x (s.fns.length + 1) s.curfunc with
      | some r => rw [hl] at hlc; simp only [Option.map_some] at hlc ⊢; exact hlc
      | none =>
        rw [hl] at hlc
        have h3 := stage3G x h.fscopes hfl0 (hroot hl) hc h1
        simp only [h3]; exact hlc

/-! ## What a piece of code may leave changed -/

/-- `Frame`, and the scope table only grew, old scopes keeping their function flags -/
structure FrameF (s s' : St) : Prop extends Frame s s' where
  scLen : s.scopes.length ≤ s'.scopes.length
  flags : ∀ i, i < s.scopes.length → isFnScope s' i = isFnScope s i

theorem FrameF.refl (s : St) : FrameF s s := ⟨Frame.refl s, Nat.le_refl _, fun _ _ => rfl⟩

theorem FrameF.trans {a b c : St} (h₁ : FrameF a b) (h₂ : FrameF b c) : FrameF a c :=
  ⟨h₁.toFrame.trans h₂.toFrame, Nat.le_trans h₁.scLen h₂.scLen,
   fun i hi => (h₂.flags i (Nat.lt_of_lt_of_le hi h₁.scLen)).trans (h₁.flags i hi)⟩

theorem FrameF.jmp (s : St) (p : Int) (d : List (Option Val)) : FrameF s (s.jmp p d) :=
  ⟨Frame.jmp s p d, Nat.le_refl _, fun _ _ => rfl⟩

theorem isFnScope_bind (s : St) (id : Nat) (x : String) (v : Val) (i : Nat) :
    isFnScope (s.bind id x v) i = isFnScope s i := by
  unfold isFnScope
  rw [scopeOf_bind]
  split
  · rename_i h; rw [h.1]
  · rfl

theorem FrameF.bind (s : St) (id : Nat) (x : String) (v : Val) : FrameF s (s.bind id x v) :=
  ⟨Frame.bind s id x v, by show s.scopes.length ≤ (s.scopes.set id _).length; simp,
   fun i _ => isFnScope_bind s id x v i⟩

/-- the id map was only extended: old function ids keep their closure ids -/
def MExt (s : St) (m m' : Nat → Nat) : Prop := ∀ id, id < s.fns.length → m' id = m id

theorem MExt.refl (s : St) (m : Nat → Nat) : MExt s m m := fun _ _ => rfl
theorem MExt.trans {s s' : St} {m m' m'' : Nat → Nat} (h₁ : MExt s m m') (h₂ : MExt s' m' m'')
    (hlen : s.fns.length ≤ s'.fns.length) : MExt s m m'' :=
  fun id hid => (h₂ id (Nat.lt_of_lt_of_le hid hlen)).trans (h₁ id hid)

theorem FnsKeep.of_frame {s s' : St} (hf : Frame s s') (hne : s.fns ≠ []) : FnsKeep s s' :=
  FnsKeep.of_eq hf.fnsLen hf.fns (by cases hs : s.fns with | nil => exact absurd hs hne | cons _ _ => simp [mainFn])
    ⟨hf.loopsLen, hf.loops⟩

/-- good functions stay good -/
theorem GoodFn.ext {m m' : Nat → Nat} {s s' : St} {rs rs' : Ref.St} {vid : Nat} (h : GoodFn m s rs vid)
    (hf : FrameF s s') (hr : RExt rs rs') (hm : MExt s m m') : GoodFn m' s' rs' vid :=
  h.mono (FnsKeep.of_frame hf.toFrame (fun e => by have := h.lt; rw [e] at this; cases this)) hf.scLen hf.flags hr (hm vid h.lt)

theorem VOk.ext {m m' : Nat → Nat} {s s' : St} {rs rs' : Ref.St} {v : Val} (h : VOk m s rs v)
    (hf : FrameF s s') (hr : RExt rs rs') (hm : MExt s m m') : VOk m' s' rs' v :=
  ValIn.mono h (fun _ hg => hg.ext hf hr hm)

theorem HOk.ext {m m' : Nat → Nat} {s s' : St} {rs rs' : Ref.St} {h : DataHeap} (hh : HOk m s rs h)
    (hf : FrameF s s') (hr : RExt rs rs') (hm : MExt s m m') : HOk m' s' rs' h :=
  HeapIn.mono hh (fun _ hg => hg.ext hf hr hm)

/-- the translation of an orderly value does not depend on how the map was extended -/
theorem VOk.tr_ext {m m' : Nat → Nat} {s : St} {rs : Ref.St} {v : Val} (h : VOk m s rs v) (hm : MExt s m m') :
    trf m' v = trf m v :=
  h m' m id id id id ⟨fun id hg => hm id hg.lt, fun _ _ => rfl, fun _ _ => rfl⟩

theorem HOk.tr_ext {m m' : Nat → Nat} {s : St} {rs : Ref.St} {h : DataHeap} (hh : HOk m s rs h) (hm : MExt s m m') :
    trHeap m' id id h = trHeap m id id h :=
  hh m' m id id id id ⟨fun id hg => hm id hg.lt, fun _ _ => rfl, fun _ _ => rfl⟩

/-! ## The tables grow; congruence -/

/-- the relation reads scopes, the live stack, `curfunc`, heap and trace; it survives new function
objects (old ones unchanged but for the code of `__main`), new closures and a longer id map -/
theorem LzOk.mono {m m' : Nat → Nat} {s s' : St} {rs rs' : Ref.St} {lz : LazyObj} {th : Ref.Thunk} (h : LzOk m s rs lz th)
    (hk : FnsKeep s s') (hsl : s.scopes.length ≤ s'.scopes.length)
    (hfl : ∀ i, i < s.scopes.length → isFnScope s' i = isFnScope s i) (hr : RExt rs rs') (hm : MExt s m m') :
    LzOk m' s' rs' lz th := by
  have hgood : ∀ id, GoodFn m s rs id → GoodFn m' s' rs' id := fun id hg => hg.mono hk hsl hfl hr (hm id hg.lt)
  refine ⟨?_, fun v hv => ValIn.mono (h.vok v hv) hgood, fun hn => ?_⟩
  · rw [h.val]
    cases hl : lz.value with
    | none => rfl
    | some v =>
      simp only [Option.map_some]
      exact congrArg some ((h.vok v hl) m m' id id id id ⟨fun id hg => (hm id hg.lt).symm, fun _ _ => rfl, fun _ _ => rfl⟩)
  · obtain ⟨he, hex, hel, hb, k, hch, hfc⟩ := h.todo hn
    have hfle : ∀ i, i ≤ th.env → isFnScope s' i = isFnScope s i := fun i hi => hfl i (by omega)
    exact ⟨he, hex, Nat.lt_of_lt_of_le hel hsl, hb, k, hch.congr hr.1 hfle,
      hfc.transfer s.scopes.length hfl hr.1 hk (Nat.le_refl _) hsl (fun q hq => Nat.lt_trans (hch.k_lt q hq) hel) (takeToBoundary_chain hch hfle)⟩

theorem LazyRel.mono {m m' : Nat → Nat} {s s' : St} {rs rs' : Ref.St} (h : LazyRel m s rs)
    (hk : FnsKeep s s') (hsl : s.scopes.length ≤ s'.scopes.length)
    (hfl : ∀ i, i < s.scopes.length → isFnScope s' i = isFnScope s i) (hr : RExt rs rs') (hm : MExt s m m')
    (hlz : s'.lazies = s.lazies := by rfl) (hth : rs'.thunks = rs.thunks := by rfl) : LazyRel m' s' rs' := by
  refine ⟨by rw [hlz, hth]; exact h.1, fun id lz hl => ?_⟩
  rw [hlz] at hl
  obtain ⟨th, h1, h2⟩ := h.2 id lz hl
  exact ⟨th, by rw [hth]; exact h1, h2.mono hk hsl hfl hr hm⟩

theorem RelF.grow {m m' : Nat → Nat} {s s' : St} {rs rs' : Ref.St} {env : Nat} (h : RelF m s rs env)
    (hsc : s'.scopes = s.scopes) (hlin : s'.linear = s.linear) (hcur : s'.curfunc = s.curfunc)
    (hheap : s'.heap = s.heap) (htr : s'.trace = rs'.trace) (hk : FnsKeep s s')
    (hfr : rs'.frames = rs.frames) (hrh : rs'.heap = rs.heap) (hcl : ClosExt rs rs')
    (hm : MExt s m m') (hlz : s'.lazies = s.lazies := by rfl) (hth : rs'.thunks = rs.thunks := by rfl) : RelF m' s' rs' env := by
  have hso : ∀ i, scopeOf s' i = scopeOf s i := fun i => by unfold scopeOf; rw [hsc]
  have hfl' : isFnScope s' = isFnScope s := by funext i; unfold isFnScope; rw [hso]
  have hrext : RExt rs rs' := ⟨fun i fr hf => ⟨fr, by rw [hfr]; exact hf, rfl⟩, hcl⟩
  have hgood : ∀ id, GoodFn m s rs id → GoodFn m' s' rs' id := fun id hg =>
    hg.mono hk (by rw [hsc]; exact Nat.le_refl _) (fun i _ => by rw [hfl']) hrext (hm id hg.lt)
  obtain ⟨k, hc, hfc⟩ := h.ctx
  obtain ⟨fr0, hf0, hp0, hfl0⟩ := h.root0
  have htrv : ∀ i x v, (scopeOf s i).vars.lookup x = some v → trf m' v = trf m v := fun i x v hv =>
    (h.vok i x v hv) m' m id id id id ⟨fun id hg => hm id hg.lt, fun _ _ => rfl, fun _ _ => rfl⟩
  refine ⟨by rw [hsc, hfr]; exact h.len, ?_, ⟨fr0, by rw [hfr]; exact hf0, hp0, by rw [hfl']; exact hfl0⟩,
    by rw [hfr]; exact h.par, by rw [hlin]; exact h.bottom,
    ⟨k, by rw [hfl', hfr, hlin]; exact hc, ?_⟩, ?_, ?_, htr,
    fun hh hmem => by rw [hfr]; exact h.globals hh hmem,
    fun i x v hv => ValIn.mono (h.vok i x v (by rw [← hso]; exact hv)) hgood, by rw [hheap]; exact HeapIn.mono h.hok hgood,
    h.lz.mono hk (by rw [hsc]; exact Nat.le_refl _) (fun i _ => by rw [hfl']) hrext hm hlz hth⟩
  · intro i x
    rw [hfr, hso, h.vars i x]
    cases hl : (scopeOf s i).vars.lookup x with
    | none => rfl
    | some v => simp only [Option.map_some, htrv i x v hl]
  · rw [hcur, hlin, hfr]
    exact hfc.transfer rs.frames.length (fun i _ => by rw [hfl']) (fun i fr hf => ⟨fr, hf, rfl⟩) hk (Nat.le_of_eq h.len) (by rw [hsc]; exact Nat.le_refl _)
      (fun e he => Nat.lt_trans (hc.k_lt e he) hc.lt) (by rw [hfl'])
  · intro i hi
    rw [hfl'] at hi
    obtain ⟨t, h1, h2⟩ := h.fscopes i hi
    have ht : t < s.fns.length := by
      rcases Nat.lt_or_ge t s.fns.length with ht | ht
      · exact ht
      · have : fnOf s t = {} := by simp [fnOf, List.getD_eq_getElem?_getD, List.getElem?_eq_none ht]
        rw [this] at h2; cases h2
    exact ⟨t, by rw [hso]; exact h1, by rw [hk.closing t ht]; exact h2⟩
  · rw [hrh, hheap, h.heap]
    exact (HOk.tr_ext h.hok hm).symm

theorem FnsKeep.of_fns_eq {s s' : St} (h : s'.fns = s.fns)
    (hl : LoopsExt s s' := by exact ⟨Nat.le_refl _, fun _ _ => rfl⟩) : FnsKeep s s' :=
  ⟨by rw [h]; exact Nat.le_refl _, fun id _ _ => by unfold fnOf; rw [h], by unfold fnOf; rw [h], by unfold fnOf; rw [h], hl⟩

/-- a state with the same scopes, functions, live stack and current function, against a reference
state with the same frames and closures -/
theorem RelF.of_same {m : Nat → Nat} {s s' : St} {rs rs' : Ref.St} {env : Nat} (h : RelF m s rs env)
    (hsc : s'.scopes = s.scopes) (hlin : s'.linear = s.linear) (hfns : s'.fns = s.fns) (hcur : s'.curfunc = s.curfunc)
    (hfr : rs'.frames = rs.frames) (hcl : rs'.clos = rs.clos) (hheap : rs'.heap = trHeap m id id s'.heap)
    (htr : s'.trace = rs'.trace) (hok : HOk m s rs s'.heap)
    (hloops : LoopsExt s s' := by exact ⟨Nat.le_refl _, fun _ _ => rfl⟩)
    (hlz : s'.lazies = s.lazies := by rfl) (hth : rs'.thunks = rs.thunks := by rfl) : RelF m s' rs' env := by
  have hso : ∀ i, scopeOf s' i = scopeOf s i := fun i => by unfold scopeOf; rw [hsc]
  have hfl : isFnScope s' = isFnScope s := by funext i; unfold isFnScope; rw [hso]
  have hk : FnsKeep s s' := FnsKeep.of_fns_eq hfns hloops
  have hrext : RExt rs rs' := ⟨fun i fr hf => ⟨fr, by rw [hfr]; exact hf, rfl⟩, fun i c hc => by rw [hcl]; exact hc⟩
  have hgood : ∀ id, GoodFn m s rs id → GoodFn m s' rs' id := fun id hg =>
    hg.mono hk (by rw [hsc]; exact Nat.le_refl _) (fun i _ => by rw [hfl]) hrext rfl
  obtain ⟨k, hc, hfc⟩ := h.ctx
  obtain ⟨fr0, hf0, hp0, hfl0⟩ := h.root0
  refine ⟨by rw [hsc, hfr]; exact h.len, fun i x => by rw [hfr, hso]; exact h.vars i x,
    ⟨fr0, by rw [hfr]; exact hf0, hp0, by rw [hfl]; exact hfl0⟩, by rw [hfr]; exact h.par, by rw [hlin]; exact h.bottom,
    ⟨k, by rw [hfl, hfr, hlin]; exact hc, ?_⟩,
    fun i hi => by
      rw [hfl] at hi; obtain ⟨t, h1, h2⟩ := h.fscopes i hi
      exact ⟨t, by rw [hso]; exact h1, by unfold fnOf; rw [hfns]; exact h2⟩,
    hheap, htr, fun hh hm => by rw [hfr]; exact h.globals hh hm,
    fun i x v hv => ValIn.mono (h.vok i x v (by rw [← hso]; exact hv)) hgood, HeapIn.mono hok hgood,
    h.lz.mono hk (by rw [hsc]; exact Nat.le_refl _) (fun i _ => by rw [hfl]) hrext (fun _ _ => rfl) hlz hth⟩
  rw [hcur, hlin, hfr]
  exact hfc.transfer rs.frames.length (fun i _ => by rw [hfl]) (fun i fr hf => ⟨fr, hf, rfl⟩) hk (Nat.le_of_eq h.len) (by rw [hsc]; exact Nat.le_refl _)
    (fun e he => Nat.lt_trans (hc.k_lt e he) hc.lt) (by rw [hfl])

/-- the state seen as running function `f` (inside a Go builtin the relation is stated for the function that called it) -/
def _root_.ZygoVerif.VM.St.withCur (s : St) (f : Nat) : St := { s with curfunc := f }

theorem withCur_self {s : St} {f : Nat} (h : s.curfunc = f) : s.withCur f = s := by
  subst h; rfl

theorem RelF.jmp {m s rs env} (h : RelF m s rs env) (p : Int) (d : List (Option Val)) : RelF m (s.jmp p d) rs env :=
  h.of_same rfl rfl rfl rfl rfl rfl h.heap h.trace h.hok

/-- the state after a lazy argument object was made for `e` and pushed -/
def _root_.ZygoVerif.VM.St.allocLazy (s : St) (e : Expr) : St :=
  { s with lazies := s.lazies ++ [({ e, stack := s.linear, curfunc := s.curfunc, value := none } : LazyObj)],
           data := some (.lazy s.lazies.length) :: s.data }

/-- the reference state after a thunk was made for `e` in frame `env` -/
def allocThunkR (rs : Ref.St) (e : Expr) (env : Nat) : Ref.St :=
  { rs with thunks := rs.thunks ++ [{ e, env, value := none }] }

/-- **A lazy argument**: both evaluators record the expression and where it was written -/
theorem RelF.allocLazy {m s rs env} (h : RelF m s rs env) (e : Expr) (he : Ff false "" e = true) :
    RelF m (s.allocLazy e) (allocThunkR rs e env) env := by
  obtain ⟨k, hc, hfc⟩ := h.ctx
  have hk : FnsKeep s (s.allocLazy e) := FnsKeep.of_fns_eq rfl
  have hgood : ∀ id, GoodFn m s rs id → GoodFn m (s.allocLazy e) (allocThunkR rs e env) id := fun id hg =>
    hg.mono hk (Nat.le_refl _) (fun _ _ => rfl) ⟨fun i fr hf => ⟨fr, hf, rfl⟩, fun _ _ hc' => hc'⟩ rfl
  refine ⟨h.len, h.vars, h.root0, h.par, h.bottom, ⟨k, hc, ?_⟩, h.fscopes, h.heap, h.trace, h.globals,
    fun i x v hv => ValIn.mono (h.vok i x v hv) hgood, HeapIn.mono h.hok hgood, ?_, ?_⟩
  · exact hfc.transfer (s := s) (s' := s.allocLazy e) (frames' := rs.frames) rs.frames.length (fun _ _ => rfl)
      (fun i fr hf => ⟨fr, hf, rfl⟩) hk (Nat.le_of_eq h.len) (Nat.le_refl _) (fun q hq => Nat.lt_trans (hc.k_lt q hq) hc.lt) rfl
  · show (s.lazies ++ [_]).length = (rs.thunks ++ [_]).length
    simp [h.lz.1]
  · intro id lz hl
    have hl' : (s.lazies ++ [({ e, stack := s.linear, curfunc := s.curfunc, value := none } : LazyObj)])[id]? = some lz := hl
    by_cases hid : id < s.lazies.length
    · rw [List.getElem?_append_left hid] at hl'
      obtain ⟨th, h1, h2⟩ := h.lz.2 id lz hl'
      refine ⟨th, ?_, h2.mono hk (Nat.le_refl _) (fun _ _ => rfl) ⟨fun i fr hf => ⟨fr, hf, rfl⟩, fun _ _ hc' => hc'⟩ (fun _ _ => rfl)⟩
      show (rs.thunks ++ [_])[id]? = some th
      rw [List.getElem?_append_left (by rw [← h.lz.1]; exact hid)]; exact h1
    · have hge : s.lazies.length ≤ id := Nat.le_of_not_lt hid
      rw [List.getElem?_append_right hge] at hl'
      have hid0 : id - s.lazies.length = 0 := by
        rcases Nat.eq_zero_or_pos (id - s.lazies.length) with h0 | h0
        · exact h0
        · rw [List.getElem?_eq_none (by simp; omega)] at hl'; cases hl'
      rw [hid0] at hl'
      simp only [List.getElem?_cons_zero, Option.some.injEq] at hl'
      subst hl'
      refine ⟨{ e, env, value := none }, ?_, ⟨rfl, (fun v hv => by cases hv), fun _ => ⟨rfl, he, ?_⟩⟩⟩
      · show (rs.thunks ++ [_])[id]? = _
        rw [List.getElem?_append_right (by rw [← h.lz.1]; exact hge), ← h.lz.1, hid0]; rfl
      · refine ⟨by show env < s.scopes.length; rw [h.len]; exact hc.lt, h.bottom, k, hc, ?_⟩
        exact hfc.transfer (s := s) (s' := s.allocLazy e) (frames' := rs.frames) rs.frames.length (fun _ _ => rfl)
          (fun i fr hf => ⟨fr, hf, rfl⟩) hk (Nat.le_of_eq h.len) (Nat.le_refl _) (fun q hq => Nat.lt_trans (hc.k_lt q hq) hc.lt) rfl

/-- the relation after `LoadExpressions`: more functions, new code in `__main`, the trace cleared -/
theorem RelF.load {m : Nat → Nat} {s s' : St} {rs : Ref.St} {env : Nat} (h : RelF m s rs env)
    (hsc : s'.scopes = s.scopes) (hlin : s'.linear = s.linear) (hcur : s'.curfunc = s.curfunc)
    (hheap : s'.heap = s.heap) (htr : s'.trace = []) (hk : FnsKeep s s') (hlz : s'.lazies = s.lazies := by rfl) :
    RelF m s' { rs with trace := [] } env :=
  h.grow hsc hlin hcur hheap htr hk rfl rfl (ClosExt.refl rs) (MExt.refl s m) hlz rfl

/-! ## Assignments -/

theorem okName_binder {x : String} (h : okName x = true) : okBinder x = true := by
  unfold okName at h; simp only [Bool.and_eq_true] at h; exact h.1

theorem okName_sym {x : String} (h : okName x = true) : okSym x = true := by
  unfold okName at h; simp only [Bool.and_eq_true] at h; exact h.2

theorem setVar_clos (rs : Ref.St) (id : Nat) (x : String) (v : Val) : (Ref.setVar rs id x v).clos = rs.clos := by
  unfold Ref.setVar; split <;> rfl

theorem setVar_heap (rs : Ref.St) (id : Nat) (x : String) (v : Val) : (Ref.setVar rs id x v).heap = rs.heap := by
  unfold Ref.setVar; split <;> rfl

theorem setVar_trace (rs : Ref.St) (id : Nat) (x : String) (v : Val) : (Ref.setVar rs id x v).trace = rs.trace := by
  unfold Ref.setVar; split <;> rfl

theorem ParOk.set {frames : List Ref.Frame} (h : ParOk frames) (id : Nat) (fr0 : Ref.Frame)
    (h0 : frames[id]? = some fr0) (vars : List (String × Val)) : ParOk (frames.set id { fr0 with vars := vars }) := by
  intro i fr hf p hp
  by_cases hi : id = i
  · subst hi
    rw [List.getElem?_set_self (lt_of_getElem?_some h0)] at hf
    injection hf with hf; subst hf
    exact h id fr0 h0 p hp
  · rw [List.getElem?_set_ne hi] at hf
    exact h i fr hf p hp

/-- Binding `x := v` in scope `id` / `x := tr v` in frame `id` keeps the relation. -/
theorem RelF.bind {m s rs env} (h : RelF m s rs env) (id : Nat) (hid : id < rs.frames.length) {x : String}
    (hx : okName x = true) {v : Val} (hv : VOk m s rs v) :
    RelF m (s.bind id x v) (Ref.setVar rs id x (trf m v)) env := by
  obtain ⟨fr, hfr⟩ : ∃ fr, rs.frames[id]? = some fr := ⟨rs.frames[id], by simp [hid]⟩
  have hset : Ref.setVar rs id x (trf m v)
      = { rs with frames := rs.frames.set id { fr with vars := VM.assocSet fr.vars x (trf m v) } } := by
    unfold Ref.setVar; rw [hfr]; rfl
  have hlen : id < s.scopes.length := by rw [h.len]; exact hid
  have hfl : isFnScope (s.bind id x v) = isFnScope s := funext (isFnScope_bind s id x v)
  have hext := FramesExt.setVar rs id x (trf m v)
  have hk : FnsKeep s (s.bind id x v) := FnsKeep.of_fns_eq rfl
  have hrext : RExt rs (Ref.setVar rs id x (trf m v)) := ⟨hext, fun i c hc => by rw [setVar_clos]; exact hc⟩
  have hgood : ∀ j, GoodFn m s rs j → GoodFn m (s.bind id x v) (Ref.setVar rs id x (trf m v)) j := fun j hg =>
    hg.mono hk (by show s.scopes.length ≤ (s.scopes.set id _).length; simp) (fun i _ => by rw [hfl]) hrext rfl
  obtain ⟨k, hc, hfc⟩ := h.ctx
  obtain ⟨fr0, hf0, hp0, hfl0⟩ := h.root0
  refine ⟨?_, ?_, ?_, by rw [hset]; exact h.par.set id fr hfr _, h.bottom, ⟨k, ?_, ?_⟩, ?_,
    by rw [setVar_heap]; exact h.heap, by rw [setVar_trace]; exact h.trace,
    h.globals.setVar id (okName_binder hx) _, ?_, HeapIn.mono h.hok hgood,
    h.lz.mono hk (by show s.scopes.length ≤ (s.scopes.set id _).length; simp) (fun i _ => by rw [hfl]) hrext (fun _ _ => rfl) rfl
      (by unfold Ref.setVar; split <;> rfl)⟩
  · rw [hset]; show (s.scopes.set id _).length = (rs.frames.set id _).length
    simp [h.len]
  · intro i y
    rw [scopeOf_bind, hset]
    show ((rs.frames.set id _).getD i {}).vars.lookup y = _
    by_cases hi : i = id
    · subst hi
      have hvx := h.vars i y
      rw [List.getD_eq_getElem?_getD, hfr, Option.getD_some] at hvx
      simp only [hlen, and_self, if_true, List.getD_eq_getElem?_getD, List.getElem?_set_self hid, Option.getD_some,
        lookup_assocSet, hvx]
      split <;> rfl
    · have hi' : ¬ id = i := fun e => hi e.symm
      simp only [hi, false_and, if_false, List.getD_eq_getElem?_getD, List.getElem?_set_ne hi']
      have hvx := h.vars i y
      rw [List.getD_eq_getElem?_getD] at hvx
      exact hvx
  · obtain ⟨fr0', hf0', hp0'⟩ := hext 0 fr0 hf0
    exact ⟨fr0', hf0', hp0'.trans hp0, by rw [hfl]; exact hfl0⟩
  · exact hc.congr hext (fun i _ => by rw [hfl])
  · exact hfc.transfer (s' := s.bind id x v) rs.frames.length (fun i _ => by rw [hfl]) hext hk (Nat.le_of_eq h.len) (by show s.scopes.length ≤ (s.scopes.set id _).length; simp)
      (fun e he => Nat.lt_trans (hc.k_lt e he) hc.lt) (by rw [hfl])
  · intro i hi
    rw [hfl] at hi
    obtain ⟨t, h1, h2⟩ := h.fscopes i hi
    refine ⟨t, ?_, h2⟩
    rw [scopeOf_bind]
    split
    · rename_i hh; rw [← hh.1]; exact h1
    · exact h1
  · intro i y w hw
    rw [scopeOf_bind] at hw
    split at hw
    · rename_i hh
      simp only [lookup_assocSet] at hw
      split at hw
      · injection hw with hw; subst hw; exact ValIn.mono (hv.named y) hgood
      · exact ValIn.mono (h.vok id y w hw) hgood
    · exact ValIn.mono (h.vok i y w hw) hgood

/-! ## Helper functions of operand evaluation; coming back to a caller -/

theorem getLast?_cons_ne {α} (a : α) {l : List α} (h : l ≠ []) : (a :: l).getLast? = l.getLast? := by
  cases l with
  | nil => exact absurd rfl h
  | cons b t => simp [List.getLast?_cons_cons]

theorem chain_trims {isFn : Nat → Bool} {frames : List Ref.Frame} :
    ∀ {k env lin}, ChainF isFn frames k env lin → lin.getLast? = some (some 0) → Scope.trims isFn lin = k.isSome := by
  intro k env lin h
  induction h with
  | root fr hf hp hfl0 =>
    intro _
    have e : Scope.isFnElem isFn (some 0) = false := hfl0
    simp only [Scope.trims, e, Bool.false_eq_true, if_false, Option.isSome_none]
  | cons k env p fr rest hf hp hlt hfl0 hrest ih =>
    intro hl
    have e : Scope.isFnElem isFn (some env) = false := hfl0
    obtain ⟨r', hr'⟩ := hrest.head
    have hne : rest ≠ [] := by rw [hr']; simp
    simp only [Scope.trims, e, Bool.false_eq_true, if_false]
    exact ih (by rw [getLast?_cons_ne _ hne] at hl; exact hl)
  | fn env p fr below hf hp hlt hfl0 =>
    intro hl
    have e : Scope.isFnElem isFn (some env) = true := hfl0
    simp only [Scope.trims, e, if_true, Option.isSome_some]
    cases below with
    | nil =>
      simp only [List.getLast?_singleton, Option.some.injEq] at hl
      omega
    | cons _ _ => rfl

theorem chain_ttb_top {isFn : Nat → Bool} {frames : List Ref.Frame} :
    ∀ {k env lin}, ChainF isFn frames k env lin → k = none → Scope.takeToBoundary isFn lin = lin := by
  intro k env lin h
  induction h with
  | root fr hf hp hfl0 =>
    intro _
    have e : Scope.isFnElem isFn (some 0) = false := hfl0
    simp only [Scope.takeToBoundary, e, Bool.false_eq_true, if_false]
  | cons k env p fr rest hf hp hlt hfl0 _ ih =>
    intro hb
    have e : Scope.isFnElem isFn (some env) = false := hfl0
    simp only [Scope.takeToBoundary, e, Bool.false_eq_true, if_false, ih hb]
  | fn env p fr below hf hp hlt hfl0 => intro hb; cases hb

/-- what a new closure or helper function captures is the top segment of the live stack -/
theorem closingNow_topSeg {s : St} {frames : List Ref.Frame} {k env}
    (h : ChainF (isFnScope s) frames k env s.linear) (hb : s.linear.getLast? = some (some 0)) :
    closingNow s = topSeg s := by
  unfold closingNow topSeg
  rw [Scope.newClosing_eq, chain_trims h hb]
  cases k with
  | some p => rfl
  | none => simp only [Option.isSome_none, Bool.false_eq_true, if_false]; exact (chain_ttb_top h rfl).symm

theorem fns_ne_nil_of_lt {s : St} {f : Nat} (h : f < s.fns.length) : s.fns ≠ [] :=
  fun e => by rw [e] at h; cases h

/-- inside the helper function of an operand the scopes are the same -/
theorem relF_inHelper {m : Nat → Nat} {s : St} {rs : Ref.St} {env : Nat} (h : RelF m s rs env) (code : List Instr) :
    RelF m (inHelper s code) rs env := by
  obtain ⟨k, hc, hfc⟩ := h.ctx
  have hk : FnsKeep s (inHelper s code) :=
    FnsKeep.of_eq (by show s.fns.length ≤ (s.fns ++ [_]).length; simp) (fun id hid => fnOf_inHelper_old s code id hid)
      (by have := fns_ne_nil_of_lt hfc.lt; cases hs : s.fns with | nil => exact absurd hs this | cons _ _ => simp [mainFn])
  have hgood : ∀ j, GoodFn m s rs j → GoodFn m (inHelper s code) rs j := fun j hg =>
    hg.mono hk (Nat.le_refl _) (fun _ _ => rfl) (RExt.refl rs) rfl
  have hold : FnChainF (inHelper s code) rs.frames s.linear k s.curfunc :=
    hfc.transfer (s := s) (s' := inHelper s code) (frames' := rs.frames) rs.frames.length (fun _ _ => rfl) (fun i fr hf => ⟨fr, hf, rfl⟩) hk (Nat.le_of_eq h.len) (Nat.le_refl _)
      (fun e he => Nat.lt_trans (hc.k_lt e he) hc.lt) rfl
  refine ⟨h.len, h.vars, h.root0, h.par, h.bottom, ⟨k, hc, ?_⟩, ?_, h.heap, h.trace, h.globals,
    fun i x v hv => ValIn.mono (h.vok i x v hv) hgood, HeapIn.mono h.hok hgood,
    h.lz.mono hk (Nat.le_refl _) (fun _ _ => rfl) (RExt.refl rs) (fun _ _ => rfl)⟩
  · refine FnChainF.step s.linear k _ s.curfunc (by show s.fns.length < (s.fns ++ [_]).length; simp) ?_ hfc.lt ?_ hold
    · rw [fnOf_inHelper_self]; rfl
    · rw [fnOf_inHelper_self]
      exact ⟨[], by show topSeg s = [] ++ closingNow s; rw [closingNow_topSeg hc h.bottom]; rfl⟩
  · intro i hi
    obtain ⟨t, h1, h2⟩ := h.fscopes i hi
    have ht : t < s.fns.length := by
      rcases Nat.lt_or_ge t s.fns.length with ht | ht
      · exact ht
      · have : fnOf s t = {} := by simp [fnOf, List.getD_eq_getElem?_getD, List.getElem?_eq_none ht]
        rw [this] at h2; cases h2
    exact ⟨t, h1, by rw [fnOf_inHelper_old s code t ht]; exact h2⟩

/-- **Back in the caller.** `s` is related (before a nested run or a call); `s₄` is related after it,
in whatever environment and function it ended; `s₅` is `s₄` with the caller's live stack and current
function again. Old scopes kept their flags, old functions are unchanged, old frames their parents:
then `s₅` is related in the caller's environment. -/
theorem RelF.back {m m₄ : Nat → Nat} {s s₄ s₅ : St} {rs rs₄ : Ref.St} {env env₄ : Nat}
    (hrel : RelF m s rs env) (rel4 : RelF m₄ s₄ rs₄ env₄)
    (hsc : s₅.scopes = s₄.scopes) (hfns : s₅.fns = s₄.fns) (hheap : s₅.heap = s₄.heap) (htr : s₅.trace = s₄.trace)
    (hlin : s₅.linear = s.linear) (hcur : s₅.curfunc = s.curfunc)
    (hflags : ∀ i, i < s.scopes.length → isFnScope s₄ i = isFnScope s i)
    (hfl : s.fns.length ≤ s₄.fns.length) (hfo : ∀ id, id < s.fns.length → fnOf s₄ id = fnOf s id)
    (hext : FramesExt rs rs₄) (hle : LoopsExt s s₄) (hloops : s₅.loops = s₄.loops := by rfl)
    (hlz : s₅.lazies = s₄.lazies := by rfl) : RelF m₄ s₅ rs₄ env := by
  have hso : ∀ i, scopeOf s₅ i = scopeOf s₄ i := fun i => by unfold scopeOf; rw [hsc]
  have hfo5 : ∀ i, fnOf s₅ i = fnOf s₄ i := fun i => by unfold fnOf; rw [hfns]
  have hfl5 : isFnScope s₅ = isFnScope s₄ := by funext i; unfold isFnScope; rw [hso]
  have hgood : ∀ id, GoodFn m₄ s₄ rs₄ id → GoodFn m₄ s₅ rs₄ id := fun id hg =>
    hg.mono (FnsKeep.of_fns_eq hfns (LoopsExt.of_eq hloops)) (by rw [hsc]; exact Nat.le_refl _) (fun i _ => by rw [hfl5]) (RExt.refl _) rfl
  obtain ⟨k, hc, hfc⟩ := hrel.ctx
  obtain ⟨fr0, hf0, hp0, hfl0⟩ := rel4.root0
  have hflr : ∀ i, i < s.scopes.length → isFnScope s₅ i = isFnScope s i := fun i hi => by
    rw [hfl5]; exact hflags i hi
  have henv : env < s.scopes.length := by rw [hrel.len]; exact hc.lt
  have hc5 : ChainF (isFnScope s₅) rs₄.frames k env s.linear := hc.congr hext (fun i hi => hflr i (by omega))
  have hk5 : FnsKeep s s₅ :=
    FnsKeep.of_eq (by rw [hfns]; exact hfl) (fun id hid => by rw [hfo5]; exact hfo id hid)
      (by have := fns_ne_nil_of_lt hfc.lt; cases hs : s.fns with | nil => exact absurd hs this | cons _ _ => simp [mainFn])
      (by unfold LoopsExt; rw [hloops]; exact hle)
  refine ⟨by rw [hsc]; exact rel4.len, fun i x => by rw [hso]; exact rel4.vars i x,
    ⟨fr0, hf0, hp0, by rw [hfl5]; exact hfl0⟩, rel4.par, by rw [hlin]; exact hrel.bottom, ⟨k, by rw [hlin]; exact hc5, ?_⟩,
    fun i hi => by rw [hfl5] at hi; obtain ⟨t, h1, h2⟩ := rel4.fscopes i hi; exact ⟨t, by rw [hso]; exact h1, by rw [hfo5]; exact h2⟩,
    by rw [hheap]; exact rel4.heap, by rw [htr]; exact rel4.trace, rel4.globals,
    fun i x v hv => ValIn.mono (rel4.vok i x v (by rw [← hso]; exact hv)) hgood,
    by rw [hheap]; exact HeapIn.mono rel4.hok hgood,
    rel4.lz.mono (FnsKeep.of_fns_eq hfns (LoopsExt.of_eq hloops)) (by rw [hsc]; exact Nat.le_refl _) (fun i _ => by rw [hfl5])
      (RExt.refl _) (fun _ _ => rfl) hlz rfl⟩
  have hsl5 : s.scopes.length ≤ s₅.scopes.length := by
    rw [hsc, rel4.len, hrel.len]
    refine Nat.le_of_not_lt (fun hlt => ?_)
    obtain ⟨fr', hf', _⟩ := hext rs₄.frames.length (rs.frames[rs₄.frames.length]) (by simp [hlt])
    have := lt_of_getElem?_some hf'
    omega
  rw [hcur, hlin]
  exact hfc.transfer s.scopes.length hflr hext hk5 (Nat.le_refl _) hsl5 (fun e he => Nat.lt_trans (hc.k_lt e he) henv)
    (takeToBoundary_chain hc (fun i hi => hflr i (by omega)))

/-! ## Entering a function: the machine -/

/-- the state `CallFunction` leaves: return address pushed, control in the callee -/
def entered (s : St) (vid : Nat) : St :=
  { s with addr := some (s.curfunc, s.pc + 1) :: s.addr, curfunc := vid, pc := 0 }

/-- `CallFunction` of a fixed-arity function, the arguments on the data stack -/
theorem run_callFunction_fixed (vid : Nat) (vs : List Val) (D : List (Option Val)) (s : St)
    (hd : s.data = vs.reverse.map some ++ D) (hv : (fnOf s vid).varargs = false) :
    (callFunction vid vs.length).run s =
      if vs.length = (fnOf s vid).nargs then (.ok (), entered s vid) else (.error .err, s) := by
  unfold callFunction
  have hnlt : ¬ s.data.length < vs.length := by rw [hd]; simp
  have hnone : ((s.data.take vs.length).any Option.isNone) = false := by
    have hlen : (vs.reverse.map some).length = vs.length := by simp
    rw [hd, ← hlen, List.take_left]
    simp
  simp only [run_bind, run_get, run_ite, if_neg hnlt, hnone, Bool.false_eq_true, if_false, run_pure, hv]
  by_cases hn : vs.length = (fnOf s vid).nargs
  · simp only [hn, ne_eq, not_true_eq_false, if_false, run_pure, run_bind, run_modify, if_true]
    rfl
  · simp only [ne_eq, hn, not_false_eq_true, if_true, run_err, run_bind, if_false]

/-- `CallFunction` of a variadic function: the arguments beyond the fixed ones are packed into a list -/
theorem run_callFunction_var (vid : Nat) (vs : List Val) (D : List (Option Val)) (s : St)
    (hd : s.data = vs.reverse.map some ++ D) (hv : (fnOf s vid).varargs = true) (hn : (fnOf s vid).nargs ≤ vs.length) :
    (callFunction vid vs.length).run s = (.ok (), entered
      { s with data := some (mkList (vs.drop (fnOf s vid).nargs)) :: (vs.take (fnOf s vid).nargs).reverse.map some ++ D } vid) := by
  unfold callFunction
  have hnlt : ¬ s.data.length < vs.length := by rw [hd]; simp
  have hnone : ((s.data.take vs.length).any Option.isNone) = false := by
    have hlen : (vs.reverse.map some).length = vs.length := by simp
    rw [hd, ← hlen, List.take_left]
    simp
  simp only [run_bind, run_get, run_ite, if_neg hnlt, hnone, Bool.false_eq_true, if_false, run_pure, hv, if_true]
  unfold wrangleOptargs
  have hnlt2 : ¬ vs.length < (fnOf s vid).nargs := by omega
  simp only [run_ite, if_neg hnlt2]
  by_cases hgt : vs.length > (fnOf s vid).nargs
  · simp only [if_pos hgt, run_bind]
    have hsplit : s.data = (vs.drop (fnOf s vid).nargs).reverse.map some ++ ((vs.take (fnOf s vid).nargs).reverse.map some ++ D) := by
      rw [hd, ← List.append_assoc, ← List.map_append, ← List.reverse_append, List.take_append_drop]
    have hlen' : vs.length - (fnOf s vid).nargs = (vs.drop (fnOf s vid).nargs).length := by simp
    rw [hlen', run_popN _ _ s hsplit]
    simp only [run_pushData, run_modify]
    rfl
  · have heq : vs.length = (fnOf s vid).nargs := by omega
    simp only [if_neg hgt, run_pushData, run_bind, run_modify]
    have h1 : vs.drop (fnOf s vid).nargs = [] := by rw [← heq]; simp
    have h2 : vs.take (fnOf s vid).nargs = vs := by rw [← heq]; simp
    rw [h1, h2]
    show _ = (Except.ok (), entered { s with data := some (mkList []) :: (vs.reverse.map some ++ D) } vid)
    rw [← hd]
    rfl

/-- the state after `AddFuncScopeInstr` -/
def _root_.ZygoVerif.VM.St.pushFnScope (s : St) (t : Nat) : St :=
  { s with scopes := s.scopes ++ [({ isFunction := true, myFunction := some t } : Scope)],
           linear := some s.scopes.length :: s.linear, pc := s.pc + 1 }

theorem exec_addFuncScope (f t : Nat) (s : St) : (exec (f + 1) (.addFuncScope t)).run s = (.ok (), s.pushFnScope t) := by
  rw [exec]; rfl

/-- binding a list of pairs, one after the other, in scope `id` -/
def bindsVars (l : List (String × Val)) (pairs : List (String × Val)) : List (String × Val) :=
  pairs.foldl (fun l p => VM.assocSet l p.1 p.2) l

theorem lookup_bindsVars (y : String) : ∀ (pairs l : List (String × Val)),
    (bindsVars l pairs).lookup y = match pairs.reverse.lookup y with | some v => some v | none => l.lookup y
  | [], l => rfl
  | (x, v) :: pairs, l => by
    show (bindsVars (VM.assocSet l x v) pairs).lookup y = _
    rw [lookup_bindsVars y pairs, List.reverse_cons, List.lookup_append, lookup_assocSet]
    cases pairs.reverse.lookup y with
    | some w => rfl
    | none =>
      simp only [List.lookup_cons, List.lookup_nil, Option.none_or]
      by_cases hy : (y == x) = true
      · simp [hy]
      · simp [hy]

/-- the state after the parameter prologue -/
def afterParams (s : St) (F : Nat) (pairs : List (String × Val)) (D : List (Option Val)) : St :=
  { s with scopes := s.scopes.set F { scopeOf s F with vars := bindsVars (scopeOf s F).vars pairs },
           pc := s.pc + pairs.length, data := D }

/-- **The prologue**: `popStackPutEnv` for each parameter (in the order of `pairs`), the values on
the data stack, the names not yet bound in the top scope and distinct -/
theorem reach_params : ∀ (pairs : List (String × Val)) (s : St) (P Q : List Instr) (D : List (Option Val))
    (F : Nat) (rest : List (Option Nat)),
    (fnOf s s.curfunc).user = false → (fnOf s s.curfunc).code = P ++ pairs.map (fun p => Instr.popStackPutEnv p.1) ++ Q →
    s.pc = (P.length : Int) → s.data = pairs.map (fun p => some p.2) ++ D → s.linear = some F :: rest →
    F < s.scopes.length → (∀ x ∈ pairs.map (·.1), (scopeOf s F).vars.lookup x = none) → (pairs.map (·.1)).Nodup →
    ReachX s (afterParams s F pairs D)
  | [], s, P, Q, D, F, rest, hu, hc, hp, hd, hl, hF, hfree, hnd => by
    have : afterParams s F [] D = s := by
      unfold afterParams bindsVars
      simp only [List.foldl_nil, List.length_nil, Int.natCast_zero, Int.add_zero]
      have h1 : s.scopes.set F (scopeOf s F) = s.scopes := by
        unfold scopeOf; rw [List.getD_eq_getElem?_getD, List.getElem?_eq_getElem hF, Option.getD_some]
        exact List.set_getElem_self hF
      have h2 : D = s.data := by simpa using hd.symm
      rw [h2]
      show { s with scopes := s.scopes.set F { scopeOf s F with vars := (scopeOf s F).vars } } = s
      rw [show ({ scopeOf s F with vars := (scopeOf s F).vars } : Scope) = scopeOf s F from rfl, h1]
    rw [this]; exact ReachX.refl s
  | (x, v) :: pairs, s, P, Q, D, F, rest, hu, hc, hp, hd, hl, hF, hfree, hnd => by
    have a : At s P (.popStackPutEnv x) (pairs.map (fun p => Instr.popStackPutEnv p.1) ++ Q) :=
      ⟨hu, by rw [hc]; simp, hp⟩
    have hd' : s.data = some v :: (pairs.map (fun p => some p.2) ++ D) := by rw [hd]; rfl
    have hfx : (scopeOf s F).vars.lookup x = none := hfree x (by simp)
    have hstep : ∀ f, (exec (f + 1) (.popStackPutEnv x)).run s
        = (.ok (), (s.jmp (s.pc + 1) (pairs.map (fun p => some p.2) ++ D)).bind F x v) := fun f => by
      rw [exec_popStackPutEnv f x s v _ hd', run_bindTop]
      rw [show (s.jmp (s.pc + 1) (pairs.map (fun p => some p.2) ++ D)).linear = some F :: rest from hl]
      simp only
      rw [show scopeOf (s.jmp (s.pc + 1) (pairs.map (fun p => some p.2) ++ D)) F = scopeOf s F from rfl, hfx]
    have r1 : ReachX s ((s.jmp (s.pc + 1) (pairs.map (fun p => some p.2) ++ D)).bind F x v) :=
      (Reach.step a hstep).toX
    generalize hs1 : (s.jmp (s.pc + 1) (pairs.map (fun p => some p.2) ++ D)).bind F x v = s1 at r1
    have hsc1 : scopeOf s1 F = { scopeOf s F with vars := VM.assocSet (scopeOf s F).vars x v } := by
      subst hs1; rw [scopeOf_bind]
      have hF' : F < (s.jmp (s.pc + 1) (pairs.map (fun p => some p.2) ++ D)).scopes.length := hF
      rw [if_pos ⟨rfl, hF'⟩]; rfl
    have hnd' : (pairs.map (·.1)).Nodup := (List.nodup_cons.mp hnd).2
    have hnotin : x ∉ pairs.map (·.1) := (List.nodup_cons.mp hnd).1
    have ih := reach_params pairs s1 (P ++ [.popStackPutEnv x]) Q D F rest (by subst hs1; exact hu)
      (by subst hs1; show (fnOf s s.curfunc).code = _; rw [hc]; simp)
      (by subst hs1; show s.pc + 1 = _; rw [hp]; simp) (by subst hs1; rfl) (by subst hs1; exact hl)
      (by subst hs1; show F < (s.scopes.set F _).length; simpa using hF)
      (fun y hy => by
        rw [hsc1]; simp only [lookup_assocSet]
        have hne : (y == x) = false := by
          have : y ≠ x := fun e => hnotin (e ▸ hy)
          simpa using this
        rw [hne]; exact hfree y (by simp [hy])) hnd'
    have hfin : afterParams s1 F pairs D = afterParams s F ((x, v) :: pairs) D := by
      subst hs1
      unfold afterParams
      rw [hsc1]
      show ({ s with scopes := (s.scopes.set F _).set F _, pc := s.pc + 1 + pairs.length, data := D } : St) = _
      simp only [List.set_set, List.length_cons]
      congr 1
      push_cast; omega
    rw [hfin] at ih
    exact r1.trans ih

/-! ## Entering a function: the relation -/

theorem ParOk.push {frames : List Ref.Frame} (h : ParOk frames) (vars : List (String × Val)) (e : Nat)
    (he : e < frames.length) : ParOk (frames ++ [({ vars := vars, parent := some e } : Ref.Frame)]) := by
  intro i fr hf p hp
  rcases Nat.lt_trichotomy i frames.length with hi | hi | hi
  · rw [List.getElem?_append_left hi] at hf; exact h i fr hf p hp
  · subst hi
    simp only [List.getElem?_append_right (Nat.le_refl _), Nat.sub_self, List.getElem?_cons_zero, Option.some.injEq] at hf
    subst hf
    simp only [Option.some.injEq] at hp
    omega
  · rw [List.getElem?_eq_none (by simp; omega)] at hf; cases hf

/-- the relation at the start of a callee's body: a function scope with the parameters on top of
the caller's live stack, against a fresh frame under the closure's environment with the parameters -/
theorem RelF.enter {m : Nat → Nat} {s₁ : St} {rs₁ : Ref.St} {env vid e : Nat} (h : RelF m s₁ rs₁ env)
    (hg : GoodFn m s₁ rs₁ vid) (hce : ∀ c, rs₁.clos[m vid]? = some c → c.env = e) (sB : St) (rsB : Ref.St) (t : Nat)
    (Lvm Lref : List (String × Val))
    (hsc : sB.scopes = s₁.scopes ++ [({ vars := Lvm, isFunction := true, myFunction := some t } : Scope)])
    (hlin : sB.linear = some s₁.scopes.length :: s₁.linear) (hfns : sB.fns = s₁.fns) (hcur : sB.curfunc = vid)
    (hheap : sB.heap = s₁.heap) (htr : sB.trace = s₁.trace)
    (hfr : rsB.frames = rs₁.frames ++ [({ vars := Lref, parent := some e } : Ref.Frame)])
    (hclos : rsB.clos = rs₁.clos) (hrheap : rsB.heap = rs₁.heap) (hrtr : rsB.trace = rs₁.trace)
    (ht : (fnOf s₁ t).closing = [some 0])
    (hL : ∀ y, Lref.lookup y = (Lvm.lookup y).map (trf m))
    (hLok : ∀ y v, Lvm.lookup y = some v → VOk m s₁ rs₁ v)
    (hLfo : ∀ h ∈ foBuiltins, Lref.lookup h = none) (hloops : sB.loops = s₁.loops := by rfl)
    (hlz : sB.lazies = s₁.lazies := by rfl) (hth : rsB.thunks = rs₁.thunks := by rfl) :
    RelF m sB rsB rs₁.frames.length := by
  have hlen := h.len
  obtain ⟨k, hc, hfc⟩ := h.ctx
  obtain ⟨fr0, hf0, hp0, hfl0⟩ := h.root0
  have hpos : 0 < rs₁.frames.length := lt_of_getElem?_some hf0
  have hfo : ∀ i, fnOf sB i = fnOf s₁ i := fun i => by unfold fnOf; rw [hfns]
  have hso_old : ∀ i, i < s₁.scopes.length → scopeOf sB i = scopeOf s₁ i := fun i hi => by
    unfold scopeOf; rw [hsc]; simp only [List.getD_eq_getElem?_getD, List.getElem?_append_left hi]
  have hso_new : scopeOf sB s₁.scopes.length = { vars := Lvm, isFunction := true, myFunction := some t } := by
    unfold scopeOf; rw [hsc]; simp [List.getD_eq_getElem?_getD]
  have hso_big : ∀ i, s₁.scopes.length < i → scopeOf sB i = {} := fun i hi => by
    unfold scopeOf; rw [hsc]; rw [List.getD_eq_getElem?_getD, List.getElem?_eq_none (by simp; omega)]; rfl
  have hfl_old : ∀ i, i < s₁.scopes.length → isFnScope sB i = isFnScope s₁ i := fun i hi => by
    unfold isFnScope; rw [hso_old i hi]
  have hext : ∀ (i : Nat) (fr : Ref.Frame), rs₁.frames[i]? = some fr →
      ∃ fr' : Ref.Frame, rsB.frames[i]? = some fr' ∧ fr'.parent = fr.parent := fun i fr hf =>
    ⟨fr, by rw [hfr, List.getElem?_append_left (lt_of_getElem?_some hf)]; exact hf, rfl⟩
  have hrext : RExt rs₁ rsB := ⟨hext, fun i c hc' => by rw [hclos]; exact hc'⟩
  have hk : FnsKeep s₁ sB := FnsKeep.of_fns_eq hfns (LoopsExt.of_eq hloops)
  have hgood : ∀ j, GoodFn m s₁ rs₁ j → GoodFn m sB rsB j := fun j hj =>
    hj.mono hk (by rw [hsc]; simp) hfl_old hrext rfl
  have hfrget_old : ∀ i, i < rs₁.frames.length → rsB.frames.getD i {} = rs₁.frames.getD i {} := fun i hi => by
    rw [hfr]; simp only [List.getD_eq_getElem?_getD, List.getElem?_append_left hi]
  have hfrget_new : rsB.frames.getD rs₁.frames.length {} = { vars := Lref, parent := some e } := by
    rw [hfr]; simp [List.getD_eq_getElem?_getD]
  have hfrget_big : ∀ i, rs₁.frames.length < i → rsB.frames.getD i {} = {} := fun i hi => by
    rw [hfr, List.getD_eq_getElem?_getD, List.getElem?_eq_none (by simp; omega)]; rfl
  obtain ⟨lrest, hlrest⟩ := hc.head
  -- the closure object, seen from the new state
  have hgB := hgood vid hg
  obtain ⟨c, hc1, _, _, _, _, _, _, _, _, hel, ⟨k', p, hp1, hp2, hch, hfcc⟩, _⟩ := hgB.clo
  have hce' : c.env = e := hce c (by rw [← hclos]; exact hc1)
  have helt : e < rs₁.frames.length := by
    obtain ⟨c0, hc0, _, _, _, _, _, _, _, _, hel0, _⟩ := hg.clo
    rw [← hce c0 hc0, ← hlen]; exact hel0
  refine ⟨by rw [hsc, hfr]; simp [hlen], ?_, ⟨fr0, by rw [hfr, List.getElem?_append_left hpos]; exact hf0, hp0,
      by rw [hfl_old 0 (by rw [hlen]; exact hpos)]; exact hfl0⟩, by rw [hfr]; exact h.par.push Lref e helt,
    by rw [hlin, getLast?_cons_ne _ (by rw [hlrest]; simp)]; exact h.bottom, ⟨some e, ?_, ?_⟩, ?_,
    by rw [hrheap, hheap]; exact h.heap, by rw [htr, hrtr]; exact h.trace, ?_, ?_, by rw [hheap]; exact HeapIn.mono h.hok hgood,
    h.lz.mono hk (by rw [hsc]; simp) hfl_old hrext (fun _ _ => rfl) hlz hth⟩
  · -- vars
    intro i x
    rcases Nat.lt_trichotomy i rs₁.frames.length with hi | hi | hi
    · rw [hfrget_old i hi, hso_old i (by rw [hlen]; exact hi)]; exact h.vars i x
    · subst hi; rw [hfrget_new, ← hlen, hso_new]; exact hL x
    · rw [hfrget_big i hi, hso_big i (by rw [hlen]; exact hi)]; rfl
  · -- the chain: the function scope on top of the caller's stack
    rw [hlin, hlen]
    refine ChainF.fn _ e { vars := Lref, parent := some e } s₁.linear (by rw [hfr]; simp) rfl helt ?_
    show (scopeOf sB rs₁.frames.length).isFunction = true
    rw [← hlen, hso_new]
  · rw [hcur]
    exact FnChainF.clos sB.linear e vid p k' hgB.lt hp1 hp2 (by rw [← hce']; exact hch) hfcc
  · -- function scopes
    intro i hi
    rcases Nat.lt_trichotomy i s₁.scopes.length with hlt | heq | hgt
    · have hi' : isFnScope s₁ i = true := by rw [← hfl_old i hlt]; exact hi
      obtain ⟨t', h1, h2⟩ := h.fscopes i hi'
      exact ⟨t', by rw [hso_old i hlt]; exact h1, by rw [hfo]; exact h2⟩
    · subst heq; exact ⟨t, by rw [hso_new], by rw [hfo]; exact ht⟩
    · unfold isFnScope at hi; rw [hso_big i hgt] at hi; cases hi
  · -- builtins stay global
    intro name hn
    refine ⟨by rw [hfrget_old 0 hpos]; exact (h.globals name hn).1, fun i hi => ?_⟩
    rcases Nat.lt_trichotomy i rs₁.frames.length with hlt | heq | hgt
    · rw [hfrget_old i hlt]; exact (h.globals name hn).2 i hi
    · subst heq; rw [hfrget_new]; exact hLfo name hn
    · rw [hfrget_big i hgt]; rfl
  · -- values in order
    intro i x v hv
    rcases Nat.lt_trichotomy i s₁.scopes.length with hlt | heq | hgt
    · rw [hso_old i hlt] at hv; exact ValIn.mono (h.vok i x v hv) hgood
    · subst heq; rw [hso_new] at hv; exact ValIn.mono ((hLok x v hv).named x) hgood
    · rw [hso_big i hgt] at hv; cases hv

/-! ## `CallExprInstr` with a symbol callee, `CallResolved` -/

theorem exec_callExpr_sym (F : Nat) (h : String) (args : List Expr) (s : St) (i : Nat) (fv : Val)
    (hl : lexLookup s h = some (i, fv)) :
    (exec (F + 3) (.callExpr (.sym h) args)).run s = (callResolved (F + 2) fv args).run s := by
  rw [exec]
  have he : (evalCallExpr (F + 2) (.sym h)).run s = (.ok fv, s) := by
    rw [evalCallExpr]
    simp only [run_bind, run_get, hl, run_pure]
  simp only [run_bind, he]

theorem exec_callExpr_sym_none (F : Nat) (h : String) (args : List Expr) (s : St) (hl : lexLookup s h = none) :
    (exec (F + 2) (.callExpr (.sym h) args)).run s = (.error .err, s) := by
  rw [exec]
  have he : (evalCallExpr (F + 1) (.sym h)).run s = (.error .err, s) := by
    rw [evalCallExpr]
    simp only [run_bind, run_get, hl, run_err]
  simp only [run_bind, he]

/-- what the `guarded` wrapper of `CallResolved` makes of the outcome of its body -/
def guardedRun (start : Nat) (r : Except Fault Unit × St) : Except Fault Unit × St :=
  match r with
  | (.ok _, s') => (.ok (), s')
  | (.error .err, s') => (.error .err, { s' with data := truncate s'.data start })
  | (.error flt, s') => (.error flt, s')

theorem run_callResolved_fn (F vid : Nat) (args : List Expr) (s : St) :
    (callResolved (F + 1) (.fn vid) args).run s =
      guardedRun s.data.length
        ((prepareArgs F (some (fnOf s vid)) 0 args >>= fun _ => callFunction vid args.length : M Unit).run s) := by
  rw [callResolved]
  unfold guardedRun
  rcases hp : (prepareArgs F (some (fnOf s vid)) 0 args).run s with ⟨rp, s1⟩
  cases rp with
  | error flt =>
    cases flt <;> simp only [run_bind, hp, run_get, run_set, run_throw, run_modify, run_pure]
  | ok u =>
    rcases hcu : (callFunction vid args.length).run s1 with ⟨rc, s2⟩
    cases rc with
    | ok u2 => simp only [run_bind, hp, hcu, run_get, run_set, run_throw, run_modify, run_pure]
    | error flt =>
      cases flt <;> simp only [run_bind, hp, hcu, run_get, run_set, run_throw, run_modify, run_pure]

theorem run_callResolved_builtin (F : Nat) (name : String) (args : List Expr) (s : St) :
    (callResolved (F + 1) (.builtin name) args).run s =
      guardedRun s.data.length
        ((prepareArgs F none 0 args >>= fun _ => callUser F name args.length : M Unit).run s) := by
  rw [callResolved]
  unfold guardedRun
  rcases hp : (prepareArgs F none 0 args).run s with ⟨rp, s1⟩
  cases rp with
  | error flt =>
    cases flt <;> simp only [run_bind, hp, run_get, run_set, run_throw, run_modify, run_pure]
  | ok u =>
    rcases hcu : (callUser F name args.length).run s1 with ⟨rc, s2⟩
    cases rc with
    | ok u2 => simp only [run_bind, hp, hcu, run_get, run_set, run_throw, run_modify, run_pure]
    | error flt =>
      cases flt <;> simp only [run_bind, hp, hcu, run_get, run_set, run_throw, run_modify, run_pure]

theorem run_callResolved_arr (F r : Nat) (args : List Expr) (s : St) :
    (callResolved (F + 1) (.arr r) args).run s =
      guardedRun s.data.length ((prepareArgs F none 0 args >>= fun _ => (err : M Unit) : M Unit).run s) := by
  rw [callResolved]
  unfold guardedRun
  rcases hp : (prepareArgs F none 0 args).run s with ⟨rp, s1⟩
  cases rp with
  | error flt =>
    cases flt <;> simp only [run_bind, hp, run_get, run_set, run_throw, run_modify, run_pure]
  | ok u => simp only [run_bind, hp, run_get, run_set, run_throw, run_modify, run_pure, run_err]

theorem run_callResolved_other (F : Nat) (fv : Val) (args : List Expr) (s : St) (h1 : ∀ id, fv ≠ .fn id)
    (h2 : ∀ n, fv ≠ .builtin n) (h3 : ∀ r, fv ≠ .arr r) :
    (callResolved (F + 1) fv args).run s =
      if args.isEmpty then (.ok (), s.jmp (s.pc + 1) (some fv :: s.data)) else (.error .err, s) := by
  rw [callResolved]
  cases fv with
  | fn id => exact absurd rfl (h1 id)
  | builtin n => exact absurd rfl (h2 n)
  | arr r => exact absurd rfl (h3 r)
  | _ =>
    simp only [run_bind, run_get]
    split
    · simp only [run_bind, run_pushData, run_incPc]; rfl
    · simp only [run_err]

/-! ## `CreateClosureInstr` -/

/-- `CreateClosureInstr`: a copy of the template with the current closing stack and parent -/
def closureObj (s : St) (t : Nat) : FnObj := { fnOf s t with closing := closingNow s, parent := some s.curfunc }

def afterClosure (s : St) (t : Nat) : St :=
  { s with pc := s.pc + 1, fns := s.fns ++ [closureObj s t], data := some (.fn s.fns.length) :: s.data }

theorem exec_createClosure (f t : Nat) (s : St) :
    (exec (f + 1) (.createClosure t)).run s = (.ok (), afterClosure s t) := by
  rw [exec]
  simp only [run_bind, run_incPc, run_get, run_set, run_pushData]
  rfl


/-! ## A new closure object is good -/

theorem ChainF.trim {isFn : Nat → Bool} {frames : List Ref.Frame} :
    ∀ {k env lin}, ChainF isFn frames k env lin → ChainF isFn frames k env (Scope.takeToBoundary isFn lin) := by
  intro k env lin h
  induction h with
  | root fr hf hp hfl0 =>
    have e : Scope.isFnElem isFn (some 0) = false := hfl0
    simp only [Scope.takeToBoundary, e, Bool.false_eq_true, if_false]
    exact ChainF.root fr hf hp hfl0
  | cons k env p fr rest hf hp hlt hfl0 _ ih =>
    have e : Scope.isFnElem isFn (some env) = false := hfl0
    simp only [Scope.takeToBoundary, e, Bool.false_eq_true, if_false]
    exact ChainF.cons k env p fr _ hf hp hlt hfl0 ih
  | fn env p fr below hf hp hlt hfl0 =>
    have e : Scope.isFnElem isFn (some env) = true := hfl0
    simp only [Scope.takeToBoundary, e, if_true]
    exact ChainF.fn env p fr [] hf hp hlt hfl0

/-- the walk depends on the segment searched before only through its top segment -/
theorem FnChainF.seg_congr {s : St} {frames : List Ref.Frame} {seg seg' : List (Option Nat)}
    (h : Scope.takeToBoundary (isFnScope s) seg' = Scope.takeToBoundary (isFnScope s) seg) :
    ∀ {k f}, FnChainF s frames seg k f → FnChainF s frames seg' k f := by
  intro k f hc
  induction hc with
  | root seg f hlt hp hs => exact FnChainF.root seg' f hlt hp (by rw [h]; exact hs)
  | step seg k f p hlt hp hpf hs _ ih => exact FnChainF.step seg' k f p hlt hp hpf (by rw [h]; exact hs) (ih h)
  | clos seg e f p k' hlt hp hpf hch hrest _ => exact FnChainF.clos seg' e f p k' hlt hp hpf hch hrest
  | sfx seg k f p hlt hp hpf hbd hs _ ih => exact FnChainF.sfx seg' k f p hlt hp hpf hbd (by rw [h]; exact hs) (ih h)

/-- the id map extended by a new closure object -/
def mapWith (m : Nat → Nat) (vid cid : Nat) : Nat → Nat := fun id => if id = vid then cid else m id

/-- **`createClosure t` makes a good closure object**: template `t` was compiled from the body of
the reference closure `c` just appended, whose environment is the current one -/
theorem GoodFn.create {m : Nat → Nat} {s : St} {rs : Ref.St} {env : Nat} (h : RelF m s rs env) (t : Nat) (c : Ref.Clos)
    (hmain : mainFn < s.fns.length) (hcenv : c.env = env) (hrest : okRest c.rest = true) (hnd : (c.ps ++ c.rest.toList).Nodup)
    (hps : ∀ p ∈ c.ps, okParam p = true) (hbody : c.body ≠ [])
    (hparams : (fnOf s t).params = c.ps ++ c.rest.toList) (hnargs : (fnOf s t).nargs = c.ps.length)
    (hvar : (fnOf s t).varargs = c.rest.isSome)
    (huser : (fnOf s t).user = false) (htlt : t < s.fns.length) (htclo : (fnOf s t).closing = [some 0])
    (hcode : ∃ b tl isFn cb gs0 gs1 self, (fnOf s t).code = fnCode t (c.ps ++ c.rest.toList) b
      ∧ (compileBegin isFn cb c.body).run gs0 = .ok ((b, tl), gs1) ∧ cb.scopes = 0
      ∧ FnameOk self cb ∧ (∃ ex, FzList ex self c.body = true ∧ (ex = true → gs0.loopstack = [])) ∧ GenOk gs0 gs1 s
      ∧ KnownOk cb gs0 c.ps c.rest)
    (s₁ : St) (rs₁ : Ref.St) (hs1 : s₁ = afterClosure s t) (hrs1 : rs₁ = { rs with clos := rs.clos ++ [c] }) :
    GoodFn (mapWith m s.fns.length rs.clos.length) s₁ rs₁ s.fns.length := by
  subst hs1; subst hrs1
  obtain ⟨k, hc, hfc⟩ := h.ctx
  have hfns1 : (afterClosure s t).fns = s.fns ++ [closureObj s t] := rfl
  have hfo1 : ∀ id, id < s.fns.length → fnOf (afterClosure s t) id = fnOf s id := fun id hid => by
    unfold fnOf; rw [hfns1]; simp only [List.getD_eq_getElem?_getD, List.getElem?_append_left hid]
  have hnew1 : fnOf (afterClosure s t) s.fns.length = closureObj s t := by
    unfold fnOf; rw [hfns1]; simp [List.getD_eq_getElem?_getD]
  have hk : FnsKeep s (afterClosure s t) := FnsKeep.of_eq (by rw [hfns1]; simp) hfo1 hmain
  have hmv : mapWith m s.fns.length rs.clos.length s.fns.length = rs.clos.length := by unfold mapWith; rw [if_pos rfl]
  have hcl : (closureObj s t).closing = Scope.takeToBoundary (isFnScope s) s.linear := closingNow_topSeg hc h.bottom
  obtain ⟨b, tl, isFn, cb, gs0, gs1, self, hcd, hcomp, hsc0, hfname, hff, hgen, hkn⟩ := hcode
  refine ⟨by rw [hfns1]; simp, hmain, c, ?_, hrest, hnd, hps, hbody, ?_, ?_, ?_, ?_, ?_,
    ⟨k, s.curfunc, ?_, hfc.lt, ?_, ?_⟩, t, b, tl, isFn, cb, gs0, gs1, self, ?_, Nat.lt_of_lt_of_le htlt hk.len, ?_, hcomp,
    hsc0, hfname, hff, hgen.mono hk, hkn⟩
  · rw [hmv]; show (rs.clos ++ [c])[rs.clos.length]? = _; simp
  · rw [hnew1]; exact hparams
  · rw [hnew1]; exact hnargs
  · rw [hnew1]; exact hvar
  · rw [hnew1]; exact huser
  · rw [hcenv]; show env < s.scopes.length; rw [h.len]; exact hc.lt
  · rw [hnew1]; rfl
  · rw [hnew1, hcl, hcenv]; exact hc.trim
  · rw [hnew1, hcl]
    have h2 : FnChainF (afterClosure s t) rs.frames s.linear k s.curfunc :=
      hfc.transfer (s := s) (s' := afterClosure s t) (frames' := rs.frames) rs.frames.length (fun _ _ => rfl)
        (fun i fr hf => ⟨fr, hf, rfl⟩) hk (Nat.le_of_eq h.len) (Nat.le_refl _) (fun e he => Nat.lt_trans (hc.k_lt e he) hc.lt) rfl
    exact h2.seg_congr (takeToBoundary_idem _ _)
  · rw [hnew1]; exact hcd
  · rw [hfo1 t htlt]; exact htclo

/-! ## Opening a scope (`let`, `letseq`, `newScope`) -/

theorem isFnScope_pushScope (s : St) (i : Nat) : isFnScope s.pushScope i = if i < s.scopes.length then isFnScope s i else false := by
  unfold isFnScope
  rw [scopeOf_pushScope]
  split <;> rfl

/-- a scope that is no function scope pushed on the segment searched before: the suffixes stay suffixes -/
theorem FnChainF.push {s : St} {frames : List Ref.Frame} {seg : List (Option Nat)} (x : Option Nat)
    (hx : Scope.isFnElem (isFnScope s) x = false) : ∀ {k f}, FnChainF s frames seg k f → FnChainF s frames (x :: seg) k f := by
  have htt : Scope.takeToBoundary (isFnScope s) (x :: seg) = x :: Scope.takeToBoundary (isFnScope s) seg := by
    simp only [Scope.takeToBoundary, hx, Bool.false_eq_true, if_false]
  intro k f hc
  induction hc with
  | root seg f hlt hp hs =>
    obtain ⟨t, ht⟩ := hs
    exact FnChainF.root _ f hlt hp ⟨x :: t, by rw [htt, ht]; rfl⟩
  | step seg k f p hlt hp hpf hs _ ih =>
    obtain ⟨t, ht⟩ := hs
    have htt' : Scope.takeToBoundary (isFnScope s) (x :: seg) = x :: Scope.takeToBoundary (isFnScope s) seg := by
      simp only [Scope.takeToBoundary, hx, Bool.false_eq_true, if_false]
    exact FnChainF.step _ k f p hlt hp hpf ⟨x :: t, by rw [htt', ht]; rfl⟩ (ih htt')
  | clos seg e f p k' hlt hp hpf hch hrest _ => exact FnChainF.clos _ e f p k' hlt hp hpf hch hrest
  | sfx seg k f p hlt hp hpf hbd hs _ ih =>
    obtain ⟨t, ht⟩ := hs
    have htt' : Scope.takeToBoundary (isFnScope s) (x :: seg) = x :: Scope.takeToBoundary (isFnScope s) seg := by
      simp only [Scope.takeToBoundary, hx, Bool.false_eq_true, if_false]
    exact FnChainF.sfx _ k f p hlt hp hpf hbd ⟨x :: t, by rw [htt', ht]; rfl⟩ (ih htt')

/-- `addScope` against `newFrame`: a fresh scope on top, a fresh frame under the current one -/
theorem RelF.pushScope {m s rs env} (h : RelF m s rs env) :
    RelF m s.pushScope (Ref.newFrame rs env).2 rs.frames.length := by
  obtain ⟨k, hc, hfc⟩ := h.ctx
  obtain ⟨fr0, hf0, hp0, hfl0⟩ := h.root0
  have hlt := hc.lt
  have hlen := h.len
  have hpos : 0 < rs.frames.length := lt_of_getElem?_some hf0
  have hflo : ∀ i, i < s.scopes.length → isFnScope s.pushScope i = isFnScope s i := fun i hi => by
    rw [isFnScope_pushScope, if_pos hi]
  have hfln : isFnScope s.pushScope s.scopes.length = false := by
    rw [isFnScope_pushScope, if_neg (Nat.lt_irrefl _)]
  have hext : ∀ (i : Nat) (fr : Ref.Frame), rs.frames[i]? = some fr →
      ∃ fr' : Ref.Frame, (Ref.newFrame rs env).2.frames[i]? = some fr' ∧ fr'.parent = fr.parent := fun i fr hf =>
    ⟨fr, by show (rs.frames ++ [_])[i]? = _; rw [List.getElem?_append_left (lt_of_getElem?_some hf)]; exact hf, rfl⟩
  have hk : FnsKeep s s.pushScope := FnsKeep.of_fns_eq rfl
  have hrext : RExt rs (Ref.newFrame rs env).2 := ⟨hext, fun i c hc' => hc'⟩
  have hgood : ∀ j, GoodFn m s rs j → GoodFn m s.pushScope (Ref.newFrame rs env).2 j := fun j hj =>
    hj.mono hk (by show s.scopes.length ≤ (s.scopes ++ [_]).length; simp) hflo hrext rfl
  obtain ⟨lrest, hlrest⟩ := hc.head
  refine ⟨by show (s.scopes ++ [_]).length = (rs.frames ++ [_]).length; simp [hlen], ?_,
    ⟨fr0, by show (rs.frames ++ [_])[0]? = _; rw [List.getElem?_append_left hpos]; exact hf0, hp0,
      by rw [hflo 0 (by rw [hlen]; exact hpos)]; exact hfl0⟩,
    by show ParOk (rs.frames ++ [({ vars := [], parent := some env } : Ref.Frame)]); exact h.par.push [] env hlt,
    by show (some s.scopes.length :: s.linear).getLast? = _; rw [getLast?_cons_ne _ (by rw [hlrest]; simp)]; exact h.bottom,
    ⟨k, ?_, ?_⟩, ?_, h.heap, h.trace, h.globals.newFrame env (fun e => by rw [e] at hpos; cases hpos), ?_,
    HeapIn.mono h.hok hgood,
    h.lz.mono hk (by show s.scopes.length ≤ (s.scopes ++ [_]).length; simp) hflo hrext (fun _ _ => rfl)⟩
  · intro i x
    rw [scopeOf_pushScope]
    show ((rs.frames ++ [_]).getD i {}).vars.lookup x = _
    by_cases hi : i < s.scopes.length
    · rw [if_pos hi, List.getD_eq_getElem?_getD, List.getElem?_append_left (by rw [← hlen]; exact hi)]
      have := h.vars i x
      rw [List.getD_eq_getElem?_getD] at this
      exact this
    · rw [if_neg hi]
      by_cases hi' : i = rs.frames.length
      · subst hi'; simp [List.getD_eq_getElem?_getD]
      · rw [List.getD_eq_getElem?_getD, List.getElem?_eq_none (by simp; omega)]; rfl
  · show ChainF (isFnScope s.pushScope) (rs.frames ++ [_]) k rs.frames.length (some s.scopes.length :: s.linear)
    rw [hlen]
    refine ChainF.cons k rs.frames.length env { parent := some env } s.linear (by simp) rfl hlt
      (by rw [← hlen]; exact hfln) (hc.congr hext (fun i hi => hflo i (by rw [hlen]; omega)))
  · have h2 : FnChainF s.pushScope (rs.frames ++ [({ parent := some env } : Ref.Frame)]) s.linear k s.curfunc :=
      hfc.transfer (s := s) (s' := s.pushScope) s.scopes.length hflo hext hk (Nat.le_refl _) (by show s.scopes.length ≤ (s.scopes ++ [_]).length; simp)
        (fun e he => by rw [hlen]; exact Nat.lt_trans (hc.k_lt e he) hlt)
        (takeToBoundary_chain hc (fun i hi => hflo i (by rw [hlen]; omega)))
    exact h2.push (some s.scopes.length) hfln
  · intro i hi
    rw [isFnScope_pushScope] at hi
    split at hi
    · rename_i hlt'
      obtain ⟨t, h1, h2⟩ := h.fscopes i hi
      exact ⟨t, by rw [scopeOf_pushScope, if_pos hlt']; exact h1, h2⟩
    · cases hi
  · intro i x v hv
    rw [scopeOf_pushScope] at hv
    split at hv
    · exact ValIn.mono (h.vok i x v hv) hgood
    · cases hv

end ZygoVerif.Sim
