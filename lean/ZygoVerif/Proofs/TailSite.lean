/-
Proofs/TailSite.lean — what the balance checker says about a self tail-call site (for C09).

In ANY function the verifier accepts, a state of the stack-effect machine that stands at a tail
sequence `prepareCall n; removeScope × (k+1); goto 0` has exactly `k+1` scopes open on top of
the caller's, the caller's data underneath, and after `prepareCall` exactly the function's
`entryCount` operands on top of the caller's data. This is C09's `BodyBalanced`, on the
stack-effect machine, derived from the annotation alone (no hypothesis about the generator).
-/
import ZygoVerif.Proofs.Balanced
namespace ZygoVerif.Bal

theorem framesLe_length : ∀ (a b : List Frame), framesLe a b = true → a.length = b.length
  | [], [], _ => rfl
  | [], _ :: _, h => by simp [framesLe] at h
  | _ :: _, [], h => by simp [framesLe] at h
  | x :: a, y :: b, h => by
    simp only [framesLe, Bool.and_eq_true] at h
    simp [framesLe_length a b h.2]

/-- `seq` sits in `code` at position `p` -/
def CodeAtB (code : List BInstr) (p : Nat) (seq : List BInstr) : Prop :=
  ∀ i, i < seq.length → code[p + i]? = seq[i]?

/-- along `m` consecutive `removeScope`s the annotation loses `m` scopes and keeps the rest -/
theorem removeScopes_ann (F : Fn) (ann : Ann) (hV : Verified F ann) :
    ∀ (m q : Nat) (t : AState), annAt ann q = some t → (∀ i, i < m → F.code[q + i]? = some .removeScope) →
      ∃ t', annAt ann (q + m) = some t' ∧ t'.k + m = t.k ∧ t'.base = t.base ∧ t'.frames.length = t.frames.length
  | 0, q, t, ht, _ => ⟨t, ht, rfl, rfl, rfl⟩
  | m + 1, q, t, ht, hc => by
    obtain ⟨_, succs, hs, hall⟩ := hV.step q t .removeScope ht (by simpa using hc 0 (by omega))
    simp only [astep, eff] at hs
    split at hs
    · rename_i hk
      cases hs
      obtain ⟨t1, ht1, hle⟩ := hall (q + 1, { t with k := t.k - 1 }) (by simp)
      obtain ⟨h1, h2, h3⟩ := le_elim _ _ hle
      obtain ⟨t', ht', hk', hb', hf'⟩ := removeScopes_ann F ann hV m (q + 1) t1 ht1
        (fun i hi => by have := hc (i + 1) (by omega); rwa [show q + (i + 1) = q + 1 + i by omega] at this)
      refine ⟨t', by rwa [show q + (m + 1) = q + 1 + m by omega], ?_, ?_, ?_⟩
      · simp only at h1; omega
      · simp only at h2; rw [hb', ← h2]
      · rw [hf', ← framesLe_length _ _ h3]
    · cases hs

/-- an instruction whose effect class is `prepareCall` moves the pc by one -/
theorem cstep_pc_of_prepare (F : Fn) (c c' : CState) (n : Nat) (h : F.code[c.pc]? = some (.prepareCall n))
    (hs : CStep F c c') : c'.pc = c.pc + 1 := by
  cases hs <;> first
    | rfl
    | (rename_i i _ _ h1 h2 _ _; rw [h] at h1; cases h1; cases h2)
    | (rename_i i _ h1 h2 _ _; rw [h] at h1; cases h1; cases h2)
    | (rename_i i _ h1 h2 _; rw [h] at h1; cases h1; cases h2)
    | (rename_i i h1 h2 _; rw [h] at h1; cases h1; cases h2)
    | (rename_i i h1 h2; rw [h] at h1; cases h1; cases h2)
    | (rename_i i _ _ _ h1 h2 _ _ _; rw [h] at h1; cases h1; cases h2)
    | (rename_i i _ _ _ h1 h2 _ _; rw [h] at h1; cases h1; cases h2)
    | (rename_i i _ _ _ _ h1 h2 _ _ _; rw [h] at h1; cases h1; cases h2)
    | (rename_i i _ _ _ _ h1 h2 _ _; rw [h] at h1; cases h1; cases h2)

/-- **The tail site.** `f` verified, an execution from its entry (arguments on top of the
caller's data `D`, `S` scopes, `A` return addresses) to a state `c` that stands at a tail
sequence. Then `c` has `k+1` scopes above the caller's `S`, the address depth of the entry, the
caller's data underneath; and the state behind `prepareCall` holds exactly the function's
`entryCount` operands on top of `D` — what the re-entry at instruction 0 binds. -/
theorem tail_site_depths (F : Fn) (ann : Ann) (hv : verify F ann = true)
    (D : List Cell) (S A : Nat) (c0 c : CState)
    (hpc : c0.pc = 0) (hdata : c0.data = List.replicate F.entryCount .val ++ D)
    (hsc : c0.sc = S) (haddr : c0.addr = A) (hreach : Reach F c0 c) (n k : Nat)
    (hcode : CodeAtB F.code c.pc ([.prepareCall n] ++ List.replicate (k + 1) .removeScope ++ [.goto 0])) :
    c.sc = S + (k + 1) ∧ c.addr = A ∧ (∃ own, c.data = own ++ D) ∧
    ∀ c', CStep F c c' →
      c'.pc = c.pc + 1 ∧ c'.data = List.replicate F.entryCount .val ++ D ∧ c'.sc = S + (k + 1) ∧ c'.addr = A := by
  have hV := verified_of_verify F ann hv
  have h0 := inv_entry F ann hV D S A c0 hpc hdata hsc haddr
  have hinv := inv_reach F ann hV D S A c0 c hreach h0
  obtain ⟨a, own, hann, hd, hconc, hs, ha⟩ := hinv
  -- the instructions of the sequence
  have hc0 : F.code[c.pc]? = some (.prepareCall n) := by simpa using hcode 0 (by simp)
  have hcr : ∀ i, i < k + 1 → F.code[c.pc + 1 + i]? = some .removeScope := by
    intro i hi
    have := hcode (i + 1) (by simp; omega)
    rw [show c.pc + (i + 1) = c.pc + 1 + i by omega] at this
    rw [this]
    simp only [List.cons_append, List.nil_append, List.getElem?_cons_succ]
    rw [List.getElem?_append_left (by simp; omega), List.getElem?_replicate]
    simp [hi]
  have hcg : F.code[c.pc + 1 + (k + 1)]? = some (.goto 0) := by
    have := hcode (k + 1 + 1) (by simp)
    rw [show c.pc + (k + 1 + 1) = c.pc + 1 + (k + 1) by omega] at this
    rw [this]
    simp only [List.cons_append, List.nil_append, List.getElem?_cons_succ]
    rw [List.getElem?_append_right (by simp)]
    simp
  -- prepareCall
  obtain ⟨_, succs, hsu, hall⟩ := hV.step c.pc a (.prepareCall n) hann hc0
  have h1 : ∃ a1, (c.pc + 1, a1) ∈ succs ∧ a1.k = a.k ∧ a1.frames.length = a.frames.length := by
    simp only [astep, eff] at hsu
    split at hsu
    · split at hsu
      · split at hsu
        · rename_i a' hp
          cases hsu
          refine ⟨a', by simp, ?_, ?_⟩
          · unfold popPush at hp
            split at hp <;> (split at hp <;> first | (cases hp; rfl) | cases hp)
          · unfold popPush at hp
            split at hp
            · rename_i hfr
              split at hp
              · cases hp; simp [hfr]
              · cases hp
            · rename_i fr rest hfr
              split at hp
              · cases hp; simp [hfr]
              · cases hp
        · cases hsu
      · cases hsu
    · cases hsu
      exact ⟨a, by simp, rfl, rfl⟩
  obtain ⟨a1, hmem, hk1, hf1⟩ := h1
  obtain ⟨t1, ht1, hle1⟩ := hall _ hmem
  obtain ⟨e1, e2, e3⟩ := le_elim _ _ hle1
  -- removeScope × (k+1)
  obtain ⟨t', ht', hk', hb', hf'⟩ := removeScopes_ann F ann hV (k + 1) (c.pc + 1) t1 ht1 hcr
  -- goto 0
  obtain ⟨_, succs', hsu', hall'⟩ := hV.step _ t' (.goto 0) ht' hcg
  have habs : absTarget 0 F.code.length = some 0 := by simp [absTarget]
  simp only [astep, eff, habs] at hsu'
  cases hsu'
  obtain ⟨e0, he0, hle0⟩ := hall' (0, t') (by simp)
  obtain ⟨g1, g2, g3⟩ := le_elim _ _ hle0
  simp only at g1 g2 g3
  obtain ⟨e0', he0', hlee⟩ := hV.entry
  simp only at he0
  rw [he0] at he0'
  cases he0'
  obtain ⟨f1, f2, f3⟩ := le_elim _ _ hlee
  have hfl := framesLe_length _ _ f3
  have hgl := framesLe_length _ _ g3
  simp only [Fn.entry, List.length_nil] at f1 f2 hfl
  -- collect
  have ht1k : t1.k = k + 1 := by omega
  have ht1b : t1.base = F.entryCount := by rw [← hb', g2, ← f2]
  have ht1f : t1.frames = [] := List.length_eq_zero_iff.mp (by omega)
  refine ⟨by rw [hs, ← hk1, e1, ht1k], ha, ⟨own, hd⟩, ?_⟩
  intro c' hstep
  have hpc' := cstep_pc_of_prepare F c c' n hc0 hstep
  obtain ⟨a', own', hann', hd', hconc', hs', ha'⟩ := inv_step F ann hV D S A c c' ⟨a, own, hann, hd, hconc, hs, ha⟩ hstep
  rw [hpc', ht1] at hann'
  cases hann'
  rw [ht1f, ht1b] at hconc'
  refine ⟨hpc', ?_, by rw [hs', ht1k], ha'⟩
  cases hconc'
  exact hd'

end ZygoVerif.Bal
