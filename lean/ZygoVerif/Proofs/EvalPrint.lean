/-
JSON-like values without hashes: the printed text is the printed text of a data value (`toRead`),
that value is in the domain of `read (print v) = v`, and it evaluates to the JSON-like value again.
`nil` prints as `nil`, is read as the SYMBOL `nil` (the known finding of the data half) — and that
symbol evaluates to nil: by evaluation the round trip closes.
-/
import ZygoVerif.Proofs.ReadPrintMain
import ZygoVerif.Model.EvalData
import ZygoVerif.Spec.DataValue
namespace ZygoVerif.ReadPrint
open ZygoVerif ZygoVerif.Lexer ZygoVerif.Parser ZygoVerif.PrintData ZygoVerif.EvalData ZygoVerif.Spec.DataValue

mutual
/-- the data value the reader makes of the printed text of a JSON-like value -/
def toRead : JV → Sexp
  | .nil => .sym "nil".toList false false
  | .bool b => .bool b
  | .int v => .int v
  | .flt b sci => .float b sci
  | .str s => .str s false
  | .arr es => .array (toReadList es) false
  | .hash _ => .emptyHash
def toReadList : List JV → List Sexp
  | [] => []
  | e :: r => toRead e :: toReadList r
end

mutual
/-- no hash anywhere inside, every float finite -/
def hashFree : JV → Bool
  | .flt b _ => isFiniteBits b
  | .arr es => hashFreeList es
  | .hash _ => false
  | _ => true
def hashFreeList : List JV → Bool
  | [] => true
  | e :: r => hashFree e && hashFreeList r
end

theorem symOK_nil : symOK "nil".toList = true := by decide +kernel

mutual
theorem print_toRead (ff : FloatFmt) : (v : JV) → hashFree v = true → printSexp ff (toRead v) = printJ ff v
  | .nil, _ => rfl
  | .bool b, _ => rfl
  | .int v, _ => rfl
  | .flt b sci, _ => rfl
  | .str s, _ => rfl
  | .arr es, h => by
    simp only [hashFree] at h
    simp only [toRead, printSexp, printJ, print_toReadList ff es h]
    rfl
  | .hash _, h => by simp [hashFree] at h
theorem print_toReadList (ff : FloatFmt) : (es : List JV) → hashFreeList es = true →
    printElems ff (toReadList es) = printJElems ff es
  | [], _ => rfl
  | [a], h => by
    simp only [hashFreeList, Bool.and_eq_true] at h
    simp only [toReadList, printElems, printJElems, print_toRead ff a h.1]
  | a :: b :: r, h => by
    simp only [hashFreeList, Bool.and_eq_true] at h
    have h2 := print_toReadList ff (b :: r) (by simp only [hashFreeList, Bool.and_eq_true]; exact h.2)
    simp only [toReadList] at h2
    simp only [toReadList, printElems, printJElems, print_toRead ff a h.1, h2]
end

mutual
theorem okV_toRead : (v : JV) → isJsonLike v = true → hashFree v = true → okV (toRead v) = true
  | .nil, _, _ => by simp only [toRead, okV, okAtom, symOK_nil]; rfl
  | .bool b, _, _ => rfl
  | .int v, h, _ => by simpa only [toRead, okV, okAtom, isJsonLike] using h
  | .flt b sci, _, h => by simpa only [toRead, okV, okAtom, hashFree] using h
  | .str s, _, _ => rfl
  | .arr es, h, hf => by
    simp only [isJsonLike] at h
    simp only [hashFree] at hf
    simp only [toRead, okV, okList_toRead es h hf]
    rfl
  | .hash _, _, h => by simp [hashFree] at h
theorem okList_toRead : (es : List JV) → isJsonLikeList es = true → hashFreeList es = true →
    okList (toReadList es) = true
  | [], _, _ => rfl
  | a :: r, h, hf => by
    simp only [isJsonLikeList, Bool.and_eq_true] at h
    simp only [hashFreeList, Bool.and_eq_true] at hf
    simp only [toReadList, okList, okV_toRead a h.1 hf.1, okList_toRead r h.2 hf.2]
    rfl
end

mutual
theorem eval_toRead : (v : JV) → hashFree v = true → evalData (toRead v) = some v
  | .nil, _ => by simp only [toRead, evalData]; rfl
  | .bool b, _ => by simp only [toRead, evalData]
  | .int v, _ => by simp only [toRead, evalData]
  | .flt b sci, _ => by simp only [toRead, evalData]
  | .str s, _ => by simp only [toRead, evalData]
  | .arr es, h => by
    simp only [hashFree] at h
    simp only [toRead, evalData, evalList_toRead es h]
    rfl
  | .hash _, h => by simp [hashFree] at h
theorem evalList_toRead : (es : List JV) → hashFreeList es = true → evalList (toReadList es) = some es
  | [], _ => by simp only [toReadList, evalList]
  | a :: r, h => by
    simp only [hashFreeList, Bool.and_eq_true] at h
    simp only [toReadList, evalList, eval_toRead a h.1, evalList_toRead r h.2]
end

/-- **printed, read, evaluated = the value**, for every JSON-like value without a hash -/
theorem eval_print_hashFree (ff : FloatFmt) (hlaw : FloatLaw ff) (v : JV) (hj : isJsonLike v = true)
    (hf : hashFree v = true) : (readOne (printJ ff v)).bind evalData = some v := by
  have hrp := read_print ff hlaw (toRead v) (okV_toRead v hj hf) LexState.init [printSexp ff (toRead v)] (by simp)
  rw [print_toRead ff v hf] at hrp
  have h1 : (parseChunks [printJ ff v]).status = .done := hrp.1
  have h2 : (parseChunks [printJ ff v]).exprs = [toRead v] := hrp.2
  have hra : readAll (printJ ff v) = some [toRead v] := by simp [readAll, h1, h2]
  have hro : readOne (printJ ff v) = some (toRead v) := by simp [readOne, hra]
  rw [hro]
  exact eval_toRead v hf

end ZygoVerif.ReadPrint
