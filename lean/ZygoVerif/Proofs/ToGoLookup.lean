/-
Field lookup, model = spec, for EVERY embedding depth.

Model (`fillJsonMap` + `JsonTagMap[key]`): flatten the struct into a table in declaration order
(embedded structs right after the embedded field, each entry with its `EmbedPath`), then take the
LAST entry with the key. Spec (`Spec/RecordGo.lean` `findExact`): search the declarations from the
last to the first, inside an embedded struct before the embedded field itself.

`lookupKey_eq_findExact`: both name the same field (same path, same type) — for every depth budget,
every field list, every path prefix. So the bookkeeping of paths in the flattened table is exactly
"search through embedded structs, the later declaration wins", at depth 0, 1, 2, 3, 4, ….
-/
import ZygoVerif.Model.ToGo
import ZygoVerif.Spec.RecordGo
namespace ZygoVerif.ToGoLookup
open ZygoVerif.ToGo ZygoVerif.SpecToGo

def proj (e : Entry) : List Nat × Ty := (e.path, e.ty)

def keyOf (f : Field) : String := if f.tag != "" then f.tag else f.name

/-- the struct an anonymous struct-typed field embeds -/
def embeddedOf (w : World) (f : Field) : Option SDef :=
  if f.anon then match f.ty with
    | .struct s => w.find s
    | _ => none
  else none

/-- `tableOf`, one declaration unfolded, without pattern matching -/
theorem tableOf_cons (w : World) (sub : List Field → List Nat → List Entry) (f : Field) (rest : List Field)
    (i : Nat) (pre : List Nat) :
    tableOf w sub (f :: rest) i pre =
      ⟨keyOf f, pre ++ [i], f.ty, f.anon⟩ ::
        (((embeddedOf w f).elim [] (fun d => sub d.fields (pre ++ [i]))) ++ tableOf w sub rest (i + 1) pre) := by
  simp only [tableOf, keyOf, embeddedOf]
  cases f.anon <;> simp
  cases f.ty <;> simp
  cases w.find _ <;> simp

/-- what one declaration answers in the spec's search: a field inside it (embedded), else itself -/
def elemRes (w : World) (sub : List Field → String → Option (List Nat × Ty)) (k : String)
    (fi : Field × Nat) : Option (List Nat × Ty) :=
  ((embeddedOf w fi.1).bind (fun d => (sub d.fields k).map (fun r => (fi.2 :: r.1, r.2)))).or
    (if keyOf fi.1 == k then some ([fi.2], fi.1.ty) else none)

theorem searchFields_eq (w : World) (sub : List Field → String → Option (List Nat × Ty)) (k : String) :
    ∀ l, searchFields w sub k l = l.findSome? (elemRes w sub k) := by
  intro l
  induction l with
  | nil => rfl
  | cons fi rest ih =>
    obtain ⟨f, i⟩ := fi
    simp only [searchFields, List.findSome?_cons, elemRes, embeddedOf, keyOf, ih]
    generalize (if (f.tag != "") = true then f.tag else f.name) = key
    cases han : f.anon
    · simp only [Bool.false_eq_true, if_false, Option.bind_none, Option.none_or]
      cases hc : key == k <;> simp
    · simp only [if_true]
      cases hty : f.ty
      case struct s =>
        simp only
        cases hfind : w.find s with
        | none =>
          simp only [Option.bind_none, Option.none_or]
          cases hc : key == k <;> simp
        | some d =>
          simp only [Option.bind_some]
          cases hs : sub d.fields k with
          | none =>
            simp only [Option.map_none, Option.none_or]
            cases hc : key == k <;> simp
          | some r => simp [Option.or]
      all_goals
        simp only [Option.bind_none, Option.none_or]
        cases hc : key == k <;> simp

theorem lookupKey_cons_append (a : Entry) (l1 l2 : List Entry) (k : String) :
    lookupKey (a :: (l1 ++ l2)) k =
      ((lookupKey l2 k).or (lookupKey l1 k)).or (if a.key == k then some a else none) := by
  simp only [lookupKey, List.reverse_cons, List.reverse_append, List.find?_append, List.append_assoc]
  cases List.find? (fun x => x.key == k) l2.reverse <;> cases List.find? (fun x => x.key == k) l1.reverse <;>
    simp [List.find?] <;> cases hk : a.key == k <;> simp_all

theorem map_or {α β : Type} (f : α → β) (a b : Option α) : (a.or b).map f = (a.map f).or (b.map f) := by
  cases a <;> simp [Option.or]

/-- the two recursion schemes agree on one struct level, if they agree on the levels below -/
theorem tableOf_lookup (w : World) (k : String)
    (subm : List Field → List Nat → List Entry) (subs : List Field → String → Option (List Nat × Ty))
    (hsub : ∀ fs' p, (lookupKey (subm fs' p) k).map proj = (subs fs' k).map (fun r => (p ++ r.1, r.2))) :
    ∀ (fs : List Field) (i : Nat) (pre : List Nat),
      (lookupKey (tableOf w subm fs i pre) k).map proj =
        ((fs.zipIdx i).reverse.findSome? (elemRes w subs k)).map (fun r => (pre ++ r.1, r.2)) := by
  intro fs
  induction fs with
  | nil => intro i pre; rfl
  | cons f rest ih =>
    intro i pre
    rw [tableOf_cons, lookupKey_cons_append, map_or, map_or, ih (i + 1) pre]
    simp only [List.zipIdx_cons, List.reverse_cons, List.findSome?_append, List.findSome?_cons, List.findSome?_nil]
    -- the later declarations: the same search on both sides; then this declaration
    cases hrest : List.findSome? (elemRes w subs k) (rest.zipIdx (i + 1)).reverse with
    | some r => simp [Option.or]
    | none =>
      simp only [Option.map_none, Option.none_or, elemRes]
      cases hemb : embeddedOf w f with
      | none =>
        simp only [Option.elim, lookupKey, List.reverse_nil, List.find?_nil, Option.map_none, Option.none_or,
          Option.bind_none]
        cases hk : keyOf f == k <;> simp [proj]
      | some d =>
        simp only [Option.elim, Option.bind_some]
        rw [hsub d.fields (pre ++ [i])]
        cases subs d.fields k with
        | some r => simp [Option.or]
        | none =>
          simp only [Option.map_none, Option.none_or]
          cases hk : keyOf f == k <;> simp [proj]

/-- `lookupKey_eq_findExact`: for every depth budget `n`, field list and path prefix, the model's
"last entry of the flattened table with this key" and the spec's "search through embedded structs,
later declaration first" name the same field: same path, same type. -/
theorem lookupKey_eq_findExact (w : World) (k : String) : ∀ (n : Nat) (fs : List Field) (pre : List Nat),
    (lookupKey (fieldTable w n fs 0 pre) k).map proj =
      (findExact w (n + 1) fs k).map (fun r => (pre ++ r.1, r.2)) := by
  intro n
  induction n with
  | zero =>
    intro fs pre
    simp only [fieldTable, findExact, searchFields_eq]
    exact tableOf_lookup w k (fun _ _ => []) (findExact w 0) (fun _ _ => rfl) fs 0 pre
  | succ n ih =>
    intro fs pre
    simp only [fieldTable, findExact, searchFields_eq]
    have := tableOf_lookup w k (fun fs' p => fieldTable w n fs' 0 p) (findExact w (n + 1)) (fun fs' p => ih fs' p) fs 0 pre
    simpa [findExact, searchFields_eq] using this

/-- key as written, then capitalised: the model's `resolve` and the spec's `findField` agree (the
model's table has one more level of depth budget than the spec's search: 9 against 8 levels). -/
theorem resolve_eq_findField_budget (w : World) (n : Nat) (fs : List Field) (b : List Nat) :
    (resolve (fieldTable w n fs 0 []) b).map proj =
      (if b.isEmpty then none else
        match findExact w (n + 1) fs (bytesToString b) with
        | some r => some r
        | none => findExact w (n + 1) fs (bytesToString (upperFirst b))) := by
  simp only [resolve]
  split
  · rfl
  · have h1 := lookupKey_eq_findExact w (bytesToString b) n fs []
    have h2 := lookupKey_eq_findExact w (bytesToString (upperFirst b)) n fs []
    simp only [List.nil_append] at h1 h2
    have hid : (fun r : List Nat × Ty => (r.1, r.2)) = id := rfl
    rw [hid, Option.map_id, id] at h1 h2
    rw [← h1, ← h2]
    cases lookupKey (fieldTable w n fs 0 []) (bytesToString b) <;> rfl

end ZygoVerif.ToGoLookup
