/-
String, raw-string and character literals as the printer writes them are lexed to one token
holding exactly the runes of the value.
-/
import ZygoVerif.Proofs.LexString
import ZygoVerif.Proofs.LexNormal
namespace ZygoVerif.Lexer
open ZygoVerif.PrintData

/-- `Lex` from a statement that ignores the ring (the ring follows from `feed_ring`) -/
theorem Lex.of_feed {a b : Shape} {t : List Char}
    (h : ∀ s, HasShape s a → ∃ s', feed (.ok s) t = .ok s' ∧ s'.state = b.state ∧ s'.buffer = b.buffer ∧ s'.tokens = b.tokens)
    (hl : b.last = lastOf a.last t) : Lex a t b := by
  intro s hs
  obtain ⟨s', hf, h1, h2, h3⟩ := h s hs
  obtain ⟨hr, hlast⟩ := feed_ring s s' t hf hs.ring
  exact ⟨s', hf, h1, h2, h3, hr, by rw [hlast, hs.last, hl]⟩

theorem feed_chain3 (s s1 s2 s3 : LexCore) (a z : Char) (mid : List Char) (h1 : step s a = .ok s1)
    (h2 : feed (.ok s1) mid = .ok s2) (h3 : step s2 z = .ok s3) : feed (.ok s) (a :: (mid ++ [z])) = .ok s3 := by
  rw [feed_ok_cons, h1, feed_append, h2, feed_ok_cons, h3]; rfl

theorem step_open_quote (s : LexCore) (hs : s.state = .normal) (hb : s.buffer = []) :
    step s '"' = .ok { pushRing s '"' with state := .strLit } := by
  have hst : (pushRing s '"').state = .normal := hs
  have hbb : (pushRing s '"').buffer = [] := hb
  rw [step_def, stepMode_normal _ _ hst]
  simp [stepNormal, hbb]

theorem step_close_quote (s : LexCore) (hs : s.state = .strLit) :
    step s '"' = .ok { dumpAs (pushRing s '"') .string with state := .normal } := by
  have hst : (pushRing s '"').state = .strLit := hs
  rw [step_def, stepMode_strLit _ _ hst]
  simp

/-- **string literals**: the text `strconv.Quote` writes for `cs` is lexed to the string token `cs` -/
theorem lex_string (cs : List Char) (T : List Token) (l : Char) :
    Lex ⟨.normal, [], T, l⟩ (quoteStr cs) ⟨.normal, [], T ++ [⟨.string, cs⟩], '"'⟩ := by
  apply Lex.of_feed
  · intro s hs
    have h1 := step_open_quote s hs.state hs.buffer
    obtain ⟨s2, hf2, hs2⟩ := quoteBody_reads_back strMode (Or.inl rfl) cs { pushRing s '"' with state := .strLit } [] T
      ⟨rfl, hs.buffer, hs.tokens⟩
    have h3 := step_close_quote s2 hs2.state
    refine ⟨{ dumpAs (pushRing s2 '"') .string with state := .normal }, ?_, rfl, rfl, ?_⟩
    · exact feed_chain3 _ _ _ _ _ _ _ h1 hf2 h3
    · show (dumpAs (pushRing s2 '"') TokType.string).tokens = _
      simp only [dumpAs, appendToken]
      show s2.tokens ++ [⟨.string, s2.buffer⟩] = _
      rw [hs2.tokens, hs2.buffer]; rfl
  · simp [quoteStr]

end ZygoVerif.Lexer
