/-
C02, execution half — F3: `apply` and `map` with user closures. The Go builtin calls back into the
machine (`Apply`: arguments pushed — at lazy positions as already forced lazy argument objects —,
`CallFunction`, a nested `Run`), against `Ref.applyValues`/`Ref.mapArr`/`Ref.mapList`. The callee may be
a closure object (`FClaimU` at lower fuel) or again a Go builtin (`force`, `apply`, `map`, first-order).
-/
import ZygoVerif.Proofs.SimF2Lazy
import ZygoVerif.Proofs.SimF2Tail
set_option linter.unusedSimpArgs false
set_option linter.unusedVariables false
namespace ZygoVerif.Sim
open ZygoVerif.Core ZygoVerif.VM

/-! ## The machine: `Apply` -/

/-- `Run` from a state from which the loop reaches `pc = -1` with a value on top -/
theorem run_reach_halt {s₃ s₄ : St} {v : Val} {D' : List (Option Val)} (hr : ReachX s₃ s₄) (hpc : s₄.pc = -1)
    (hd : s₄.data = some v :: D') :
    ∃ M, ∀ fuel, M ≤ fuel → (run fuel).run s₃ = (.ok v, { s₄ with data := D' }) := by
  obtain ⟨K, m, k, hk, H⟩ := hr
  refine ⟨m + k + 3, fun fuel hf => ?_⟩
  obtain ⟨F, rfl⟩ : ∃ F, fuel = ((F + 1) + k) + 1 := ⟨fuel - k - 2, by omega⟩
  have hhalt : (runLoop (F + 1) (capOf s₃)).run s₄ = (.ok (), s₄) := runLoop_halt _ F _ (Or.inl hpc)
  have hloop : (runLoop ((F + 1) + k) (capOf s₃)).run s₃ = (.ok (), s₄) := by
    rw [H (F + 1) (by omega) _, hhalt]
  rw [run]
  simp only [run_bind, run_capture, hloop, run_get, hd, List.isEmpty_cons, Bool.false_eq_true, if_false,
    run_pure, run_popData]

/-- a lazy argument object made from a value (`NewValueLazyArg`) -/
def valLazy (v : Val) : LazyObj := { e := .nilLit, stack := [], curfunc := 0, value := some v, isValue := true }
/-- … and the thunk the reference evaluator makes -/
def valThunk (v : Val) : Ref.Thunk := { e := .nilLit, env := 0, value := some v, isValue := true }

/-- the arguments `Apply` hands over: at lazy positions the index of the object made for the value -/
def wrapVals (la : Nat → Bool) : Nat → Nat → List Val → List Val
  | _, _, [] => []
  | i, n, v :: vs => if la i then .lazy n :: wrapVals la (i + 1) (n + 1) vs else v :: wrapVals la (i + 1) n vs

/-- the values at lazy positions -/
def wrapLz (la : Nat → Bool) : Nat → List Val → List Val
  | _, [] => []
  | i, v :: vs => if la i then v :: wrapLz la (i + 1) vs else wrapLz la (i + 1) vs

theorem wrapVals_length (la : Nat → Bool) : ∀ (i n : Nat) (vs : List Val), (wrapVals la i n vs).length = vs.length
  | _, _, [] => rfl
  | i, n, v :: vs => by
    unfold wrapVals
    split <;> simp [wrapVals_length la]

theorem wrapVals_map (la : Nat → Bool) (f : Val → Val) (hf : ∀ n, f (.lazy n) = .lazy n) :
    ∀ (i n : Nat) (vs : List Val), wrapVals la i n (vs.map f) = (wrapVals la i n vs).map f
  | _, _, [] => rfl
  | i, n, v :: vs => by
    simp only [List.map_cons, wrapVals]
    split
    · rw [List.map_cons, hf, wrapVals_map la f hf]
    · rw [List.map_cons, wrapVals_map la f hf]

theorem wrapLz_map (la : Nat → Bool) (f : Val → Val) : ∀ (i : Nat) (vs : List Val), wrapLz la i (vs.map f) = (wrapLz la i vs).map f
  | _, [] => rfl
  | i, v :: vs => by
    simp only [List.map_cons, wrapLz]
    split
    · rw [List.map_cons, wrapLz_map la f]
    · rw [wrapLz_map la f]

theorem wrapLz_mem (la : Nat → Bool) : ∀ (i : Nat) (vs : List Val) (v : Val), v ∈ wrapLz la i vs → v ∈ vs
  | _, [], _, h => by cases h
  | i, w :: vs, v, h => by
    unfold wrapLz at h
    split at h
    · rcases List.mem_cons.mp h with rfl | h
      · exact List.mem_cons_self
      · exact List.mem_cons_of_mem _ (wrapLz_mem la _ vs v h)
    · exact List.mem_cons_of_mem _ (wrapLz_mem la _ vs v h)

/-- a wrapped argument is an argument or names one of the new objects -/
theorem wrapVals_mem (la : Nat → Bool) : ∀ (i n : Nat) (vs : List Val) (v : Val), v ∈ wrapVals la i n vs →
    v ∈ vs ∨ ∃ k, v = .lazy k
  | _, _, [], _, h => by cases h
  | i, n, w :: vs, v, h => by
    unfold wrapVals at h
    split at h
    · rcases List.mem_cons.mp h with rfl | h
      · exact Or.inr ⟨n, rfl⟩
      · rcases wrapVals_mem la _ _ vs v h with h | h
        · exact Or.inl (List.mem_cons_of_mem _ h)
        · exact Or.inr h
    · rcases List.mem_cons.mp h with rfl | h
      · exact Or.inl List.mem_cons_self
      · rcases wrapVals_mem la _ _ vs v h with h | h
        · exact Or.inl (List.mem_cons_of_mem _ h)
        · exact Or.inr h

/-- the state after `Apply` pushed the arguments -/
def wrapped (s : St) (la : Nat → Bool) (vs : List Val) : St :=
  { s with lazies := s.lazies ++ (wrapLz la 0 vs).map valLazy,
           data := (wrapVals la 0 s.lazies.length vs).reverse.map some ++ s.data }

theorem vm_wrap_fold (fo : FnObj) : ∀ (vs : List Val) (s : St) (i : Nat),
    (vs.foldl (fun (p : St × Nat) v =>
        if fo.isLazyCallArg p.2 then
          ({ p.1 with lazies := p.1.lazies ++ [({ e := .nilLit, stack := [], curfunc := 0, value := some v, isValue := true } : LazyObj)],
                      data := some (.lazy p.1.lazies.length) :: p.1.data }, p.2 + 1)
        else ({ p.1 with data := some v :: p.1.data }, p.2 + 1)) (s, i)).1
      = { s with lazies := s.lazies ++ (wrapLz fo.isLazyCallArg i vs).map valLazy,
                 data := (wrapVals fo.isLazyCallArg i s.lazies.length vs).reverse.map some ++ s.data }
  | [], s, i => by simp [wrapLz, wrapVals]
  | v :: vs, s, i => by
    rw [List.foldl_cons]
    by_cases hl : fo.isLazyCallArg i = true
    · simp only [hl, if_true]
      rw [vm_wrap_fold fo vs _ (i + 1)]
      simp [wrapLz, wrapVals, hl, valLazy]
    · have hl' : fo.isLazyCallArg i = false := by simpa using hl
      simp only [hl', Bool.false_eq_true, if_false]
      rw [vm_wrap_fold fo vs _ (i + 1)]
      simp [wrapLz, wrapVals, hl']

theorem ref_wrap_fold (c : Ref.Clos) : ∀ (vs : List Val) (rs : Ref.St) (acc : List Val) (i : Nat),
    vs.foldl (fun (p : Ref.St × List Val × Nat) v =>
        if p.2.2 < c.ps.length && Ref.isLazyParam (c.ps.getD p.2.2 "") then
          ({ p.1 with thunks := p.1.thunks ++ [{ e := .nilLit, env := 0, value := some v, isValue := true }] },
           p.2.1 ++ [.lazy p.1.thunks.length], p.2.2 + 1)
        else (p.1, p.2.1 ++ [v], p.2.2 + 1)) (rs, acc, i)
      = ({ rs with thunks := rs.thunks ++ (wrapLz (lazyAtC c) i vs).map valThunk },
         acc ++ wrapVals (lazyAtC c) i rs.thunks.length vs, i + vs.length)
  | [], rs, acc, i => by simp [wrapLz, wrapVals]
  | v :: vs, rs, acc, i => by
    rw [List.foldl_cons]
    by_cases hl : lazyAtC c i = true
    · have hl2 : (decide (i < c.ps.length) && Ref.isLazyParam (c.ps.getD i "")) = true := hl
      simp only [hl2, if_true]
      rw [ref_wrap_fold c vs _ _ (i + 1)]
      simp [wrapLz, wrapVals, hl, valThunk]
      omega
    · have hl' : lazyAtC c i = false := by simpa using hl
      have hl2 : (decide (i < c.ps.length) && Ref.isLazyParam (c.ps.getD i "")) = false := hl'
      simp only [hl2, Bool.false_eq_true, if_false]
      rw [ref_wrap_fold c vs _ _ (i + 1)]
      simp [wrapLz, wrapVals, hl']
      omega

/-- `Apply` of a function object: the arguments pushed, `CallFunction`, a nested `Run`; an error restores the
control state -/
theorem vm_applyFn_fn (fuel id : Nat) (args : List Val) (s : St) :
    (VM.applyFn (fuel + 1) (.fn id) args).run s =
      match ((do callFunction id args.length; run fuel : M Val)).run
          { s with pc := -2, lazies := s.lazies ++ (wrapLz (fnOf s id).isLazyCallArg 0 args).map valLazy,
                   data := (wrapVals (fnOf s id).isLazyCallArg 0 s.lazies.length args).reverse.map some ++ s.data } with
      | (.ok v, s') => (.ok v, s')
      | (.error .err, s') => (.error .err, ((restore (capOf s)).run s').2)
      | (.error flt, s') => (.error flt, s') := by
  rw [VM.applyFn]
  simp only [run_bind, run_capture, run_modify, run_get, run_set]
  have hw := vm_wrap_fold (fnOf s id) args { s with pc := -2 } 0
  have hfo : fnOf ({ s with pc := -2 } : St) id = fnOf s id := rfl
  rw [hfo]
  rw [hw]
  generalize ExceptT.run (callFunction id args.length) _ = cf
  obtain ⟨r1, s1⟩ := cf
  cases r1 with
  | error flt =>
    cases flt with
    | err => simp only [run_bind, run_throw]; rw [run_restore_ok]
    | panic => simp only [run_throw]
    | timeout => simp only [run_throw]
  | ok u =>
    simp only []
    generalize ExceptT.run (run fuel) s1 = res
    obtain ⟨r, s'⟩ := res
    cases r with
    | ok v => simp only [run_pure]
    | error flt =>
      cases flt with
      | err => simp only [run_bind, run_throw]; rw [run_restore_ok]
      | panic => simp only [run_throw]
      | timeout => simp only [run_throw]

theorem vm_applyFn_builtin (fuel : Nat) (name : String) (args : List Val) (s : St) :
    (VM.applyFn (fuel + 1) (.builtin name) args).run s = (builtin fuel name args).run s := by
  rw [VM.applyFn]

theorem ref_applyValues_fn (fuel cid : Nat) (xs : List Val) (rs : Ref.St) (c : Ref.Clos) (hc : rs.clos[cid]? = some c) :
    Ref.applyValues (fuel + 1) (.fn cid) xs rs =
      Ref.applyFn fuel (.fn cid) (wrapVals (lazyAtC c) 0 rs.thunks.length xs)
        { rs with thunks := rs.thunks ++ (wrapLz (lazyAtC c) 0 xs).map valThunk } := by
  rw [Ref.applyValues]
  simp only [hc]
  have := ref_wrap_fold c xs rs [] 0
  rw [this]
  simp

theorem ref_applyValues_builtin (fuel : Nat) (name : String) (xs : List Val) (rs : Ref.St) :
    Ref.applyValues (fuel + 1) (.builtin name) xs rs = Ref.applyFn fuel (.builtin name) xs rs := by
  rw [Ref.applyValues]
  intro id h; cases h

/-! ## Value thunks in the relation -/

/-- **Already forced lazy argument objects** (made by `Apply` from values) against the thunks the reference
evaluator makes: same slots, memos related from the start -/
theorem RelF.allocVals {m s rs env} (h : RelF m s rs env) (L : List Val) (hL : ∀ v ∈ L, VOk m s rs v) :
    RelF m { s with lazies := s.lazies ++ L.map valLazy } { rs with thunks := rs.thunks ++ (L.map (trf m)).map valThunk } env := by
  obtain ⟨k, hc, hfc⟩ := h.ctx
  have hk : FnsKeep s { s with lazies := s.lazies ++ L.map valLazy } := FnsKeep.of_fns_eq rfl
  have hr : RExt rs { rs with thunks := rs.thunks ++ (L.map (trf m)).map valThunk } :=
    ⟨fun i fr hf => ⟨fr, hf, rfl⟩, fun _ _ hc' => hc'⟩
  have hgood : ∀ j, GoodFn m s rs j → GoodFn m { s with lazies := s.lazies ++ L.map valLazy }
      { rs with thunks := rs.thunks ++ (L.map (trf m)).map valThunk } j := fun j hg =>
    hg.mono hk (Nat.le_refl _) (fun _ _ => rfl) hr rfl
  refine ⟨h.len, h.vars, h.root0, h.par, h.bottom, ⟨k, hc, ?_⟩, h.fscopes, h.heap, h.trace, h.globals,
    fun i x w hw => ValIn.mono (h.vok i x w hw) hgood, HeapIn.mono h.hok hgood, ?_, ?_⟩
  · exact hfc.transfer (s := s) (s' := { s with lazies := s.lazies ++ L.map valLazy }) (frames' := rs.frames) rs.frames.length
      (fun _ _ => rfl) (fun i fr hf => ⟨fr, hf, rfl⟩) hk (Nat.le_of_eq h.len) (Nat.le_refl _)
      (fun q hq => Nat.lt_trans (hc.k_lt q hq) hc.lt) rfl
  · show (s.lazies ++ L.map valLazy).length = (rs.thunks ++ (L.map (trf m)).map valThunk).length
    simp [h.lz.1]
  · intro id lz hl
    have hl' : (s.lazies ++ L.map valLazy)[id]? = some lz := hl
    by_cases hid : id < s.lazies.length
    · rw [List.getElem?_append_left hid] at hl'
      obtain ⟨th, h1, h2⟩ := h.lz.2 id lz hl'
      refine ⟨th, ?_, h2.mono hk (Nat.le_refl _) (fun _ _ => rfl) hr (fun _ _ => rfl)⟩
      show (rs.thunks ++ _)[id]? = some th
      rw [List.getElem?_append_left (by rw [← h.lz.1]; exact hid)]; exact h1
    · have hge : s.lazies.length ≤ id := Nat.le_of_not_lt hid
      rw [List.getElem?_append_right hge, List.getElem?_map] at hl'
      cases hv : L[id - s.lazies.length]? with
      | none => rw [hv] at hl'; cases hl'
      | some v =>
        rw [hv] at hl'
        simp only [Option.map_some, Option.some.injEq] at hl'
        subst hl'
        refine ⟨valThunk (trf m v), ?_, ⟨rfl, fun w hw => ?_, fun hn => by cases hn⟩⟩
        · show (rs.thunks ++ (L.map (trf m)).map valThunk)[id]? = _
          rw [List.getElem?_append_right (by rw [← h.lz.1]; exact hge), ← h.lz.1, List.getElem?_map, List.getElem?_map, hv]
          rfl
        · have : w = v := by injection hw with hw; exact hw.symm
          subst this
          exact ValIn.mono (hL w (List.mem_of_getElem? hv)) hgood

/-! ## The claims -/

theorem BOk.shift {m s rs env D} {run run' : Nat → Except Fault Val × St} {res : Ref.R Val}
    (hs : ∀ fuel, run' (fuel + 1) = run fuel) (h : BOk m s rs env D run res) : BOk m s rs env D run' res := by
  cases res with
  | ok v' rs' =>
    obtain ⟨M, s', m', v, hrun, rest⟩ := h
    refine ⟨M + 1, s', m', v, fun fuel hf => ?_, rest⟩
    obtain ⟨f, rfl⟩ : ∃ f, fuel = f + 1 := ⟨fuel - 1, by omega⟩
    rw [hs f]; exact hrun f (by omega)
  | err rs' =>
    obtain ⟨M, hrun⟩ := h
    refine ⟨M + 1, fun fuel hf => ?_⟩
    obtain ⟨f, rfl⟩ : ∃ f, fuel = f + 1 := ⟨fuel - 1, by omega⟩
    rw [hs f]; exact hrun f (by omega)
  | timeout => trivial
  | brk l rs' => exact h.elim
  | cont l rs' => exact h.elim

/-- `Apply` of a function value to values, inside the frame of a Go builtin, against `Ref.applyValues` -/
def AClaim (n : Nat) : Prop :=
  ∀ (m : Nat → Nat) (s : St) (rs : Ref.St) (env : Nat) (fv : Val) (vs : List Val) (D : List (Option Val)), RelF m s rs env →
    VOk m s rs fv → isFunction fv = true → (∀ v ∈ vs, VOk m s rs v) →
    BOk m s rs env D (fun fuel => (VM.applyFn fuel fv vs).run (inBuiltin s D)) (Ref.applyValues n (trf m fv) (vs.map (trf m)) rs)

theorem st_eq_inBuiltin (s'' s : St) (D : List (Option Val)) (ha : s''.addr = some (s.curfunc, s.pc + 1) :: s.addr)
    (hc : s''.curfunc = builtinFn) (hp : s''.pc = -1) :
    ({ s'' with data := D } : St) = inBuiltin { s'' with curfunc := s.curfunc, pc := s.pc, addr := s.addr } D := by
  cases s''
  simp only at ha hc hp
  subst ha hc hp
  rfl

theorem aclaim_succ {j : Nat} (hU : FClaimU j) (hB : ∀ name, okB name → BClaim j name) : AClaim (j + 1) := by
  intro m s rs env fv vs D hrel hfv hfn hvs
  cases fv with
  | fn vid =>
    have hg : GoodFn m s rs vid := hfv.fn
    obtain ⟨c, hc1, hrest, hnd, hokp, hbody, hparams, hnargs, hvar, huser, _⟩ := hg.clo
    show BOk m s rs env D _ (Ref.applyValues (j + 1) (.fn (m vid)) (vs.map (trf m)) rs)
    rw [ref_applyValues_fn j (m vid) _ rs c hc1]
    have hla : (fnOf s vid).isLazyCallArg = lazyAtC c :=
      funext fun i => (isLazyVM_eq huser i).symm.trans (isLazyVM_clo huser hparams hnargs hvar i)
    rw [wrapLz_map, wrapVals_map (lazyAtC c) (trf m) (fun _ => rfl), ← hrel.lz.1]
    generalize hL : wrapLz (lazyAtC c) 0 vs = L
    generalize hws : wrapVals (lazyAtC c) 0 s.lazies.length vs = ws
    have hLok : ∀ v ∈ L, VOk m s rs v := fun v hv => hvs v (wrapLz_mem _ _ _ v (by rw [hL]; exact hv))
    have hwlen : ws.length = vs.length := by rw [← hws]; exact wrapVals_length _ _ _ _
    -- the state in which `CallFunction` is executed, and the reference state with the new thunks
    let sW : St := { inBuiltin s D with pc := -2, lazies := s.lazies ++ L.map valLazy, data := ws.reverse.map some ++ D }
    let rsW : Ref.St := { rs with thunks := rs.thunks ++ (L.map (trf m)).map valThunk }
    have hunf : ∀ fuel, (VM.applyFn (fuel + 1) (.fn vid) vs).run (inBuiltin s D) =
        match ((do callFunction vid ws.length; run fuel : M Val)).run sW with
        | (.ok v, s') => (.ok v, s')
        | (.error .err, s') => (.error .err, ((restore (capOf (inBuiltin s D))).run s').2)
        | (.error flt, s') => (.error flt, s') := by
      intro fuel
      rw [vm_applyFn_fn, hwlen]
      simp only [show fnOf (inBuiltin s D) vid = fnOf s vid from rfl, show (inBuiltin s D).lazies = s.lazies from rfl, hla, hL, hws]
      rfl
    have hrW : RExt rs rsW := ⟨fun i fr hf => ⟨fr, hf, rfl⟩, fun _ _ hc' => hc'⟩
    have relW : RelF m (sW.withCur s.curfunc) rsW env :=
      (hrel.allocVals L hLok).of_same rfl rfl rfl rfl rfl rfl (hrel.allocVals L hLok).heap (hrel.allocVals L hLok).trace
        (hrel.allocVals L hLok).hok
    have goodW : GoodFn m sW rsW vid := hg.mono (FnsKeep.of_fns_eq rfl) (Nat.le_refl _) (fun _ _ => rfl) hrW rfl
    have hokW : ∀ v ∈ ws, VOk m sW rsW v := by
      intro v hv
      rw [← hws] at hv
      rcases wrapVals_mem _ _ _ _ v hv with h | ⟨k, rfl⟩
      · exact ValIn.mono (hvs v h) (fun id hgd => hgd.mono (FnsKeep.of_fns_eq rfl) (Nat.le_refl _) (fun _ _ => rfl) hrW rfl)
      · exact valIn_of_const (fun _ _ _ => rfl)
    cases j with
    | zero => rw [Ref.applyFn]; trivial
    | succ i =>
    by_cases har : arOk c.rest c.ps.length ws.length
    · have hcf : (callFunction vid ws.length).run sW = (.ok (), enteredA sW vid c.rest c.ps.length ws D) := by
        rw [run_callFunction_clo vid c.rest c.ps.length ws D sW rfl hvar hnargs, if_pos har]
      have hu := hU m sW rsW env vid c ws D s.curfunc relW goodW hc1 rfl hokW har
      cases h2 : Ref.applyFn (i + 1) (.fn (m vid)) (ws.map (trf m)) rsW with
      | ok v' rs' =>
        rw [h2] at hu
        obtain ⟨s'', m', v, r, hpc, hdat, hv, rel'', hm', ext', fr'', hcl''⟩ := hu
        obtain ⟨M, hM⟩ := run_reach_halt r (by rw [hpc]; rfl) hdat
        have heq := st_eq_inBuiltin s'' s D (by rw [fr''.addr]; rfl) (by rw [fr''.curfunc]; rfl) (by rw [hpc]; rfl)
        refine ⟨M + 1, { s'' with curfunc := s.curfunc, pc := s.pc, addr := s.addr }, m', v, fun fuel hf => ?_, rfl, hv, ?_,
          fun id hid => hm' id hid, hrW.trans ext', ?_, ?_⟩
        · obtain ⟨f, rfl⟩ : ∃ f, fuel = f + 1 := ⟨fuel - 1, by omega⟩
          show (VM.applyFn (f + 1) (.fn vid) vs).run (inBuiltin s D) = _
          rw [hunf f, run_bind, hcf]
          simp only
          rw [hM f (by omega), heq]
        · exact rel''.of_same rfl rfl rfl rfl rfl rfl rel''.heap rel''.trace rel''.hok
        · exact ⟨⟨fr''.linear, rfl, rfl, fr''.susp, fr''.fnsLen, fr''.fns, fr''.loopsLen, fr''.loops⟩, fr''.scLen, fr''.flags⟩
        · exact ValIn.mono hcl'' (fun id hgd => hgd.mono (FnsKeep.of_fns_eq rfl) (Nat.le_refl _) (fun _ _ => rfl) (RExt.refl _) rfl)
      | err rs' =>
        rw [h2] at hu
        obtain ⟨M, hM⟩ := run_of_failsE hu
        refine ⟨M + 1, fun fuel hf => ?_⟩
        obtain ⟨f, rfl⟩ : ∃ f, fuel = f + 1 := ⟨fuel - 1, by omega⟩
        obtain ⟨sf, hrun, htr⟩ := hM f (by omega)
        refine ⟨_, by show (VM.applyFn (f + 1) (.fn vid) vs).run (inBuiltin s D) = _
                      rw [hunf f, run_bind, hcf]; simp only; rw [hrun], ?_⟩
        rw [restore_trace]; exact htr
      | timeout => trivial
      | brk l rs' => rw [h2] at hu; exact hu.elim
      | cont l rs' => rw [h2] at hu; exact hu.elim
    · have hcf : (callFunction vid ws.length).run sW = (.error .err, sW) := by
        rw [run_callFunction_clo vid c.rest c.ps.length ws D sW rfl hvar hnargs, if_neg har]
      rw [ref_applyFn_arity i (m vid) _ rsW c hc1 (by rw [List.length_map]; exact har)]
      refine ⟨1, fun fuel hf => ?_⟩
      obtain ⟨f, rfl⟩ : ∃ f, fuel = f + 1 := ⟨fuel - 1, by omega⟩
      refine ⟨_, by show (VM.applyFn (f + 1) (.fn vid) vs).run (inBuiltin s D) = _
                    rw [hunf f, run_bind, hcf], ?_⟩
      rw [restore_trace]; exact hrel.trace
  | builtin name =>
    have hn : okB name := hfv.builtin
    show BOk m s rs env D _ (Ref.applyValues (j + 1) (.builtin name) (vs.map (trf m)) rs)
    rw [ref_applyValues_builtin]
    exact (hB name hn m s rs env vs D hrel hvs).shift (fun fuel => vm_applyFn_builtin fuel name vs _)
  | nil => cases hfn
  | bool b => cases hfn
  | int b => cases hfn
  | str b => cases hfn
  | pair x y => cases hfn
  | arr r => cases hfn
  | lazy l => cases hfn
  | mark l => cases hfn
  | sym x => cases hfn

/-- a first-order builtin on evaluated arguments -/
theorem bclaim_fo {k : Nat} {name : String} (hn : name ∈ foBuiltins) : BClaim (k + 1) name := by
  intro m s rs env vs D hrel hvs
  rw [ref_applyFn_fo k name hn]
  have hrun : ∀ f, (builtin (f + 1) name vs).run (inBuiltin s D) = foResult name vs (inBuiltin s D) :=
    fun f => run_builtin_fo f name hn vs _
  have hok : ∀ (v : Val) (s' : St) (rsF : Ref.St), foResult name vs (inBuiltin s D) = (.ok v, inBuiltin s' D) →
      s'.scopes = s.scopes → s'.linear = s.linear → s'.fns = s.fns → s'.suspended = s.suspended →
      s'.loops = s.loops → s'.lazies = s.lazies → s'.curfunc = s.curfunc → s'.addr = s.addr → s'.pc = s.pc → rsF.thunks = rs.thunks →
      rsF.frames = rs.frames → rsF.clos = rs.clos → rsF.heap = trHeap m id id s'.heap → s'.trace = rsF.trace →
      HOk m s rs s'.heap → VOk m s rs v →
      BOk m s rs env D (fun fuel => (builtin fuel name vs).run (inBuiltin s D)) (.ok (trf m v) rsF) := by
    intro v s' rsF hres hsc hlin hfns hsus hlps hlzs hcur haddr hpc hths hfr hcl hheap htr hhok hvok
    have hrelF : RelF m s' rsF env := hrel.of_same hsc hlin hfns hcur hfr hcl hheap htr hhok (LoopsExt.of_eq hlps) hlzs hths
    have hfrF : FrameF s s' :=
      ⟨⟨hlin, hcur, haddr, hsus, by rw [hfns]; exact Nat.le_refl _, fun id _ => by unfold fnOf; rw [hfns],
        by rw [hlps]; exact Nat.le_refl _, fun id _ => by rw [hlps]⟩,
        by rw [hsc]; exact Nat.le_refl _, fun i _ => by unfold isFnScope scopeOf; rw [hsc]⟩
    have hrext : RExt rs rsF := ⟨fun i fr hf => ⟨fr, by rw [hfr]; exact hf, rfl⟩, fun i c hc => by rw [hcl]; exact hc⟩
    refine ⟨1, s', m, v, fun fuel hf => ?_, hpc, rfl, hrelF, MExt.refl _ _, hrext, hfrF,
      VOk.ext hvok hfrF hrext (MExt.refl _ _)⟩
    obtain ⟨f, rfl⟩ : ∃ f, fuel = f + 1 := ⟨fuel - 1, by omega⟩
    show (builtin (f + 1) name vs).run (inBuiltin s D) = _
    rw [hrun f, hres]
  by_cases ht : name = "trace"
  · simp only [ht, if_true]
    rw [ht] at hok
    have hfo : foResult "trace" vs (inBuiltin s D) = (.ok (vs.headD .nil),
        inBuiltin { s with trace := s.trace ++ [pr s.heap (vs.headD .nil)] } D) := by
      unfold foResult; rw [if_pos rfl]; rfl
    have hpr : pr rs.heap ((vs.map (trf m)).headD .nil) = pr s.heap (vs.headD .nil) := by
      rw [hrel.heap, headD_map_tr]; exact pr_tr m id id _ _
    rw [headD_map_tr]
    rw [ht] at hrun
    refine hok _ _ { rs with trace := rs.trace ++ [pr rs.heap (trf m (vs.headD .nil))] } hfo rfl rfl rfl rfl rfl rfl rfl rfl rfl rfl rfl rfl
      hrel.heap ?_ hrel.hok ?_
    · show s.trace ++ [pr s.heap _] = _
      rw [hrel.trace, ← headD_map_tr, hpr]
    · cases vs with
      | nil => exact vOk_lit .nil (fun _ _ _ => rfl)
      | cons v0 _ => exact hvs v0 List.mem_cons_self
  · simp only [ht, if_false]
    have hpt := prim_tr m id id name vs s.heap
    rw [hrel.heap, hpt]
    cases hp : prim name vs s.heap with
    | some r =>
      obtain ⟨v, hp'⟩ := r
      have hfo : foResult name vs (inBuiltin s D) = (.ok v, inBuiltin { s with heap := hp' } D) := by
        unfold foResult; rw [if_neg ht]
        show (match prim name vs s.heap with | some (v, h) => _ | none => _) = _
        rw [hp]; rfl
      simp only [Option.map_some]
      have hpc := prim_valIn name vs s.heap v hp' hp hvs hrel.hok
      exact hok v _ { rs with heap := trHeap m id id hp' } hfo rfl rfl rfl rfl rfl rfl rfl rfl rfl rfl rfl rfl rfl hrel.trace hpc.2 hpc.1
    | none =>
      have hfo : foResult name vs (inBuiltin s D) = (.error .err, inBuiltin s D) := by
        unfold foResult; rw [if_neg ht]
        show (match prim name vs s.heap with | some (v, h) => _ | none => _) = _
        rw [hp]
      simp only [Option.map_none]
      refine ⟨1, fun fuel hf => ?_⟩
      obtain ⟨f, rfl⟩ : ∃ f, fuel = f + 1 := ⟨fuel - 1, by omega⟩
      exact ⟨inBuiltin s D, by show (builtin (f + 1) name vs).run (inBuiltin s D) = _; rw [hrun f, hfo], hrel.trace⟩

/-! ## `apply` and `map`: the argument shapes -/

/-- what `apply` does with its arguments: `onApp f xs` for a function and a collection, else `onErr` -/
def applySpec {α} (vs : List Val) (heapGet : Nat → List Val) (onErr : α) (onApp : Val → List Val → α) : α :=
  match vs with
  | [f, coll] =>
    if !isFunction f then onErr else
    (match coll with
     | .arr r => onApp f (heapGet r)
     | .pair a b => (match listToArray (.pair a b) with
       | some xs => onApp f xs
       | none => onErr)
     | _ => onErr)
  | _ => onErr

/-- what `map` does with its arguments -/
def mapSpec {α} (vs : List Val) (onErr : α) (onArr : Val → Nat → α) (onList : Val → Val → α) : α :=
  match vs with
  | [f, coll] =>
    if !isFunction f then onErr else
    (match coll with
     | .arr r => onArr f r
     | .pair a b => onList f (.pair a b)
     | _ => onErr)
  | _ => onErr

theorem ref_applyFn_apply (k : Nat) (vs : List Val) (rs : Ref.St) :
    Ref.applyFn (k + 1) (.builtin "apply") vs rs =
      applySpec vs rs.heap.get (.err rs) (fun f xs => Ref.applyValues k f xs rs) := by
  rw [Ref.applyFn.eq_def]
  simp only []
  rw [if_neg (show ¬ "apply" = "trace" by decide), if_neg (show ¬ "apply" = "probe" by decide),
    if_neg (show ¬ "apply" = "force" by decide), if_neg (show ¬ "apply" = "substitute" by decide), if_pos True.intro]
  unfold applySpec
  rcases vs with _ | ⟨f, _ | ⟨c, _ | ⟨d, r⟩⟩⟩
  · rfl
  · rfl
  · cases c <;> rfl
  · rfl

theorem run_builtin_apply (fuel : Nat) (vs : List Val) (s : St) :
    (builtin (fuel + 1) "apply" vs).run s =
      applySpec vs s.heap.get (.error .err, s) (fun f xs => (VM.applyFn fuel f xs).run s) := by
  rw [builtin.eq_def]
  simp only []
  rw [if_neg (show ¬ "apply" = "trace" by decide), if_neg (show ¬ "apply" = "probe" by decide),
    if_neg (show ¬ "apply" = "force" by decide), if_neg (show ¬ "apply" = "substitute" by decide), if_pos True.intro]
  unfold applySpec
  rcases vs with _ | ⟨f, _ | ⟨c, _ | ⟨d, r⟩⟩⟩
  · rfl
  · rfl
  · by_cases hf : (!isFunction f) = true
    · simp only [hf, if_true]; rfl
    · simp only [hf, if_false, Bool.false_eq_true]
      cases c with
      | arr r => simp only [run_bind, run_get]
      | pair a b =>
        simp only [run_bind, run_get]
        cases listToArray (.pair a b) <;> rfl
      | _ => simp only [run_bind, run_get, run_err] <;> rfl
  · rfl

/-- the two evaluators take the same branch of `apply` -/
theorem applySpec_rel {α β} (P : α → β → Prop) (f : Val → Val) (hf : ∀ v, isFunction (f v) = isFunction v)
    (hl : ∀ v, listToArray (f v) = (listToArray v).map (List.map f)) (harr : ∀ r, f (.arr r) = .arr r)
    (hpair : ∀ a b, f (.pair a b) = .pair (f a) (f b))
    (hshape : ∀ v, (∀ r, v ≠ .arr r) → (∀ a b, v ≠ .pair a b) → (∀ r, f v ≠ .arr r) ∧ (∀ a b, f v ≠ .pair a b))
    (vs : List Val) (g g' : Nat → List Val) (hg : ∀ r, g' r = (g r).map f)
    (e : α) (e' : β) (app : Val → List Val → α) (app' : Val → List Val → β) (he : P e e')
    (happ : ∀ fv xs, fv ∈ vs → isFunction fv = true →
      ((∃ r, .arr r ∈ vs ∧ xs = g r) ∨ (∃ c, c ∈ vs ∧ listToArray c = some xs)) → P (app fv xs) (app' (f fv) (xs.map f))) :
    P (applySpec vs g e app) (applySpec (vs.map f) g' e' app') := by
  unfold applySpec
  rcases vs with _ | ⟨fv, _ | ⟨c, _ | ⟨d, r⟩⟩⟩
  · exact he
  · exact he
  · simp only [List.map_cons, List.map_nil, hf]
    by_cases hfn : (!isFunction fv) = true
    · simp only [hfn, if_true]; exact he
    · simp only [hfn, if_false, Bool.false_eq_true]
      have hfn' : isFunction fv = true := by simpa using hfn
      cases c with
      | arr r =>
        rw [harr]
        simp only [hg]
        exact happ fv (g r) (by simp) hfn' (Or.inl ⟨r, by simp, rfl⟩)
      | pair a b =>
        have hl' := hl (.pair a b)
        rw [hpair] at hl' ⊢
        simp only [hl']
        cases hla : listToArray (.pair a b) with
        | none => exact he
        | some xs => exact happ fv xs (by simp) hfn' (Or.inr ⟨.pair a b, by simp, hla⟩)
      | nil => have := hshape .nil (fun _ h => by cases h) (fun _ _ h => by cases h); cases hv : f .nil <;> first | exact he | exact absurd hv (this.1 _) | exact absurd hv (this.2 _ _)
      | bool x => have := hshape (.bool x) (fun _ h => by cases h) (fun _ _ h => by cases h); cases hv : f (.bool x) <;> first | exact he | exact absurd hv (this.1 _) | exact absurd hv (this.2 _ _)
      | int x => have := hshape (.int x) (fun _ h => by cases h) (fun _ _ h => by cases h); cases hv : f (.int x) <;> first | exact he | exact absurd hv (this.1 _) | exact absurd hv (this.2 _ _)
      | str x => have := hshape (.str x) (fun _ h => by cases h) (fun _ _ h => by cases h); cases hv : f (.str x) <;> first | exact he | exact absurd hv (this.1 _) | exact absurd hv (this.2 _ _)
      | fn x => have := hshape (.fn x) (fun _ h => by cases h) (fun _ _ h => by cases h); cases hv : f (.fn x) <;> first | exact he | exact absurd hv (this.1 _) | exact absurd hv (this.2 _ _)
      | builtin x => have := hshape (.builtin x) (fun _ h => by cases h) (fun _ _ h => by cases h); cases hv : f (.builtin x) <;> first | exact he | exact absurd hv (this.1 _) | exact absurd hv (this.2 _ _)
      | lazy x => have := hshape (.lazy x) (fun _ h => by cases h) (fun _ _ h => by cases h); cases hv : f (.lazy x) <;> first | exact he | exact absurd hv (this.1 _) | exact absurd hv (this.2 _ _)
      | mark x => have := hshape (.mark x) (fun _ h => by cases h) (fun _ _ h => by cases h); cases hv : f (.mark x) <;> first | exact he | exact absurd hv (this.1 _) | exact absurd hv (this.2 _ _)
      | sym x => have := hshape (.sym x) (fun _ h => by cases h) (fun _ _ h => by cases h); cases hv : f (.sym x) <;> first | exact he | exact absurd hv (this.1 _) | exact absurd hv (this.2 _ _)
  · exact he

theorem applySpec_fun {α β} (vs : List Val) (g : Nat → List Val) (e : β → α) (app : Val → List Val → β → α) (x : β) :
    applySpec vs g e app x = applySpec vs g (e x) (fun f xs => app f xs x) := by
  unfold applySpec
  rcases vs with _ | ⟨fv, _ | ⟨c, _ | ⟨d, r⟩⟩⟩
  · rfl
  · rfl
  · by_cases hfn : (!isFunction fv) = true
    · simp only [hfn, if_true]
    · simp only [hfn, if_false, Bool.false_eq_true]
      cases c with
      | pair a b => simp only []; cases listToArray (.pair a b) <;> rfl
      | _ => rfl
  · rfl

theorem vOk_listToArray {m s rs} : ∀ (c : Val) (xs : List Val), VOk m s rs c → listToArray c = some xs → ∀ x ∈ xs, VOk m s rs x
  | .nil, xs, _, h => by simp only [listToArray, Option.some.injEq] at h; subst h; intro x hx; cases hx
  | .pair a t, xs, hc, h => by
    simp only [listToArray] at h
    cases ht : listToArray t with
    | none => rw [ht] at h; cases h
    | some ys =>
      rw [ht] at h
      simp only [Option.map_some, Option.some.injEq] at h
      subst h
      intro x hx
      rcases List.mem_cons.mp hx with rfl | hx
      · exact (ValIn.pair hc).1
      · exact vOk_listToArray t ys (ValIn.pair hc).2 ht x hx
  | .bool _, _, _, h => by cases h
  | .int _, _, _, h => by cases h
  | .str _, _, _, h => by cases h
  | .arr _, _, _, h => by cases h
  | .fn _, _, _, h => by cases h
  | .builtin _, _, _, h => by cases h
  | .lazy _, _, _, h => by cases h
  | .mark _, _, _, h => by cases h
  | .sym _, _, _, h => by cases h

theorem trf_shape (m : Nat → Nat) (v : Val) (h1 : ∀ r, v ≠ .arr r) (h2 : ∀ a b, v ≠ .pair a b) :
    (∀ r, trf m v ≠ .arr r) ∧ (∀ a b, trf m v ≠ .pair a b) := by
  cases v with
  | arr r => exact absurd rfl (h1 r)
  | pair a b => exact absurd rfl (h2 a b)
  | _ => exact ⟨(fun _ h => by cases h), (fun _ _ h => by cases h)⟩

/-- `apply` on evaluated arguments -/
theorem bclaim_apply {k : Nat} (hA : AClaim k) : BClaim (k + 1) "apply" := by
  intro m s rs env vs D hrel hvs
  rw [ref_applyFn_apply]
  refine BOk.shift (run := fun fuel => applySpec vs s.heap.get (.error .err, inBuiltin s D)
    (fun fv xs => (VM.applyFn fuel fv xs).run (inBuiltin s D))) (fun fuel => run_builtin_apply fuel vs _) ?_
  have hfun : (fun fuel => applySpec vs s.heap.get (.error .err, inBuiltin s D)
        (fun fv xs => (VM.applyFn fuel fv xs).run (inBuiltin s D)))
      = applySpec vs s.heap.get (fun _ => (.error .err, inBuiltin s D))
        (fun fv xs fuel => (VM.applyFn fuel fv xs).run (inBuiltin s D)) := by
    funext fuel; rw [applySpec_fun]
  rw [hfun]
  refine applySpec_rel (fun run res => BOk m s rs env D run res) (trf m) (fun v => isFunction_tr m id id v)
    (fun v => listToArray_tr m id id v) (fun _ => rfl) (fun _ _ => rfl) (trf_shape m) vs s.heap.get rs.heap.get
    (fun r => by rw [hrel.heap, trHeap_get]) _ _ _ _ ⟨0, fun fuel _ => ⟨inBuiltin s D, rfl, hrel.trace⟩⟩ ?_
  intro fv xs hfv hfn hxs
  refine hA m s rs env fv xs D hrel (hvs fv hfv) hfn ?_
  rcases hxs with ⟨r, _, rfl⟩ | ⟨c, hc, hl⟩
  · exact HeapIn.get hrel.hok r
  · exact vOk_listToArray c xs (hvs c hc) hl

/-! ## `map` -/

/-- as `BOk`, for a computation that returns a list of values -/
def BOkL (m : Nat → Nat) (s : St) (rs : Ref.St) (env : Nat) (D : List (Option Val)) (run : Nat → Except Fault (List Val) × St)
    (res : Ref.R (List Val)) : Prop :=
  match res with
  | .ok vs' rs' => ∃ (M : Nat) (s' : St) (m' : Nat → Nat) (vs : List Val),
      (∀ fuel, M ≤ fuel → run fuel = (.ok vs, inBuiltin s' D))
      ∧ s'.pc = s.pc ∧ vs' = vs.map (trf m') ∧ RelF m' s' rs' env
      ∧ MExt s m m' ∧ RExt rs rs' ∧ FrameF s s' ∧ ∀ v ∈ vs, VOk m' s' rs' v
  | .err rs' => ∃ M, ∀ fuel, M ≤ fuel → ∃ se, run fuel = (.error .err, se) ∧ se.trace = rs'.trace
  | .timeout => True
  | .brk _ _ => False
  | .cont _ _ => False

def MArrClaim (n : Nat) : Prop :=
  ∀ (m : Nat → Nat) (s : St) (rs : Ref.St) (env : Nat) (fv : Val) (r i cnt : Nat) (D : List (Option Val)), RelF m s rs env →
    VOk m s rs fv → isFunction fv = true →
    BOkL m s rs env D (fun fuel => (VM.mapArr fuel fv r i cnt).run (inBuiltin s D)) (Ref.mapArr n (trf m fv) r i cnt rs)

def MListClaim (n : Nat) : Prop :=
  ∀ (m : Nat → Nat) (s : St) (rs : Ref.St) (env : Nat) (fv l : Val) (D : List (Option Val)), RelF m s rs env →
    VOk m s rs fv → isFunction fv = true → VOk m s rs l →
    BOk m s rs env D (fun fuel => (VM.mapList fuel fv l).run (inBuiltin s D)) (Ref.mapList n (trf m fv) (trf m l) rs)

theorem vm_mapArr_succ (fuel : Nat) (f : Val) (r i n : Nat) (s : St) :
    (VM.mapArr (fuel + 1) f r i n).run s =
      if i ≥ n then (.ok [], s) else
      match (VM.applyFn fuel f [(s.heap.get r).getD i .nil]).run s with
      | (.ok v, s1) =>
        (match (VM.mapArr fuel f r (i + 1) n).run s1 with
         | (.ok vs, s2) => (.ok (v :: vs), s2)
         | (.error e, s2) => (.error e, s2))
      | (.error e, s1) => (.error e, s1) := by
  rw [VM.mapArr]
  by_cases h : i ≥ n
  · simp only [h, if_true, run_pure]
  · simp only [h, if_false, run_bind, run_get]
    rcases (VM.applyFn fuel f [(s.heap.get r).getD i .nil]).run s with ⟨r1, s1⟩
    cases r1 with
    | error e => rfl
    | ok v =>
      simp only []
      rcases (VM.mapArr fuel f r (i + 1) n).run s1 with ⟨r2, s2⟩
      cases r2 with
      | error e => rfl
      | ok vs => rfl

theorem getD_map_tr (m : Nat → Nat) (l : List Val) (i : Nat) : (l.map (trf m)).getD i .nil = trf m (l.getD i .nil) := by
  simp only [List.getD_eq_getElem?_getD, List.getElem?_map]
  cases l[i]? <;> rfl

theorem vOk_getD {m s rs} (l : List Val) (i : Nat) (h : ∀ x ∈ l, VOk m s rs x) : VOk m s rs (l.getD i .nil) := by
  simp only [List.getD_eq_getElem?_getD]
  cases hl : l[i]? with
  | none => exact vOk_lit .nil (fun _ _ _ => rfl)
  | some x => exact h x (List.mem_of_getElem? hl)

theorem marr_succ {j : Nat} (hA : AClaim j) (hM : MArrClaim j) : MArrClaim (j + 1) := by
  intro m s rs env fv r i cnt D hrel hfv hfn
  rw [Ref.mapArr]
  by_cases hi : i ≥ cnt
  · simp only [hi, if_true]
    refine ⟨1, s, m, [], fun fuel hf => ?_, rfl, rfl, hrel, MExt.refl _ _, RExt.refl _, FrameF.refl _, fun v hv => by cases hv⟩
    obtain ⟨f, rfl⟩ : ∃ f, fuel = f + 1 := ⟨fuel - 1, by omega⟩
    show (VM.mapArr (f + 1) fv r i cnt).run (inBuiltin s D) = _
    rw [vm_mapArr_succ, if_pos hi]
  · simp only [hi, if_false]
    have hx : (rs.heap.get r).getD i .nil = trf m ((s.heap.get r).getD i .nil) := by
      rw [hrel.heap, trHeap_get, getD_map_tr]
    have hxok : VOk m s rs ((s.heap.get r).getD i .nil) := vOk_getD _ _ (HeapIn.get hrel.hok r)
    have ha := hA m s rs env fv [(s.heap.get r).getD i .nil] D hrel hfv hfn
      (fun v hv => by rw [List.mem_singleton.mp hv]; exact hxok)
    rw [hx]
    simp only [List.map_cons, List.map_nil] at ha
    have hunf : ∀ fuel, (VM.mapArr (fuel + 1) fv r i cnt).run (inBuiltin s D) =
        match (VM.applyFn fuel fv [(s.heap.get r).getD i .nil]).run (inBuiltin s D) with
        | (.ok v, s1) =>
          (match (VM.mapArr fuel fv r (i + 1) cnt).run s1 with
           | (.ok vs, s2) => (.ok (v :: vs), s2)
           | (.error e, s2) => (.error e, s2))
        | (.error e, s1) => (.error e, s1) := fun fuel => by rw [vm_mapArr_succ, if_neg hi]; rfl
    cases h1 : Ref.applyValues j (trf m fv) [trf m ((s.heap.get r).getD i .nil)] rs with
    | ok v' rs1 =>
      rw [h1] at ha
      obtain ⟨M1, s1, m1, v, hr1, hpc1, hv1, rel1, hm1, ext1, fr1, hcl1⟩ := ha
      simp only
      have hr1 : ∀ fuel, M1 ≤ fuel → (VM.applyFn fuel fv [(s.heap.get r).getD i .nil]).run (inBuiltin s D)
          = (.ok v, inBuiltin s1 D) := hr1
      have hfv1 : VOk m1 s1 rs1 fv := VOk.ext hfv fr1 ext1 hm1
      have ih := hM m1 s1 rs1 env fv r (i + 1) cnt D rel1 hfv1 hfn
      rw [VOk.tr_ext hfv hm1] at ih
      cases h2 : Ref.mapArr j (trf m fv) r (i + 1) cnt rs1 with
      | ok vs' rs2 =>
        rw [h2] at ih
        obtain ⟨M2, s2, m2, vs, hr2, hpc2, hvs2, rel2, hm2, ext2, fr2, hcl2⟩ := ih
        have hr2 : ∀ fuel, M2 ≤ fuel → (VM.mapArr fuel fv r (i + 1) cnt).run (inBuiltin s1 D) = (.ok vs, inBuiltin s2 D) := hr2
        refine ⟨max M1 M2 + 1, s2, m2, v :: vs, fun fuel hf => ?_, by rw [hpc2, hpc1], ?_, rel2, hm1.trans hm2 fr1.fnsLen,
          ext1.trans ext2, fr1.trans fr2, fun w hw => ?_⟩
        · obtain ⟨f, rfl⟩ : ∃ f, fuel = f + 1 := ⟨fuel - 1, by omega⟩
          show (VM.mapArr (f + 1) fv r i cnt).run (inBuiltin s D) = _
          rw [hunf f, hr1 f (by omega)]
          simp only
          rw [hr2 f (by omega)]
        · rw [List.map_cons, hv1, hvs2, VOk.tr_ext hcl1 hm2]
        · rcases List.mem_cons.mp hw with rfl | hw
          · exact VOk.ext hcl1 fr2 ext2 hm2
          · exact hcl2 w hw
      | err rs2 =>
        rw [h2] at ih
        obtain ⟨M2, hr2⟩ := ih
        refine ⟨max M1 M2 + 1, fun fuel hf => ?_⟩
        obtain ⟨f, rfl⟩ : ∃ f, fuel = f + 1 := ⟨fuel - 1, by omega⟩
        obtain ⟨se, hse, htr⟩ := hr2 f (by omega)
        have hse : (VM.mapArr f fv r (i + 1) cnt).run (inBuiltin s1 D) = (.error .err, se) := hse
        exact ⟨se, by show (VM.mapArr (f + 1) fv r i cnt).run (inBuiltin s D) = _
                      rw [hunf f, hr1 f (by omega)]; simp only; rw [hse], htr⟩
      | timeout => trivial
      | brk l rs2 => rw [h2] at ih; exact ih.elim
      | cont l rs2 => rw [h2] at ih; exact ih.elim
    | err rs1 =>
      rw [h1] at ha
      obtain ⟨M1, hr1⟩ := ha
      refine ⟨M1 + 1, fun fuel hf => ?_⟩
      obtain ⟨f, rfl⟩ : ∃ f, fuel = f + 1 := ⟨fuel - 1, by omega⟩
      obtain ⟨se, hse, htr⟩ := hr1 f (by omega)
      have hse : (VM.applyFn f fv [(s.heap.get r).getD i .nil]).run (inBuiltin s D) = (.error .err, se) := hse
      exact ⟨se, by show (VM.mapArr (f + 1) fv r i cnt).run (inBuiltin s D) = _; rw [hunf f, hse], htr⟩
    | timeout => trivial
    | brk l rs1 => rw [h1] at ha; exact ha.elim
    | cont l rs1 => rw [h1] at ha; exact ha.elim

theorem vm_mapList_pair (fuel : Nat) (f a b : Val) (s : St) :
    (VM.mapList (fuel + 1) f (.pair a b)).run s =
      match (VM.applyFn fuel f [a]).run s with
      | (.ok v, s1) =>
        (match (VM.mapList fuel f b).run s1 with
         | (.ok t, s2) => (.ok (.pair v t), s2)
         | (.error e, s2) => (.error e, s2))
      | (.error e, s1) => (.error e, s1) := by
  rw [VM.mapList]
  simp only [run_bind]
  rcases (VM.applyFn fuel f [a]).run s with ⟨r1, s1⟩
  cases r1 with
  | error e => rfl
  | ok v =>
    simp only []
    rcases (VM.mapList fuel f b).run s1 with ⟨r2, s2⟩
    cases r2 with
    | error e => rfl
    | ok vs => rfl

theorem mlist_succ {j : Nat} (hA : AClaim j) (hM : MListClaim j) : MListClaim (j + 1) := by
  intro m s rs env fv l D hrel hfv hfn hl
  have herr : ∀ (hn : l ≠ .nil) (hp : ∀ a b, l ≠ .pair a b),
      BOk m s rs env D (fun fuel => (VM.mapList fuel fv l).run (inBuiltin s D)) (.err rs) := by
    intro hn hp
    refine ⟨1, fun fuel hf => ⟨inBuiltin s D, ?_, hrel.trace⟩⟩
    obtain ⟨f, rfl⟩ : ∃ f, fuel = f + 1 := ⟨fuel - 1, by omega⟩
    show (VM.mapList (f + 1) fv l).run (inBuiltin s D) = _
    rw [VM.mapList.eq_def]
    cases l with
    | nil => exact absurd rfl hn
    | pair a b => exact absurd rfl (hp a b)
    | _ => rfl
  cases l with
  | nil =>
    show BOk m s rs env D _ (Ref.mapList (j + 1) (trf m fv) .nil rs)
    rw [Ref.mapList]
    refine ⟨1, s, m, .nil, fun fuel hf => ?_, rfl, rfl, hrel, MExt.refl _ _, RExt.refl _, FrameF.refl _, vOk_lit .nil (fun _ _ _ => rfl)⟩
    obtain ⟨f, rfl⟩ : ∃ f, fuel = f + 1 := ⟨fuel - 1, by omega⟩
    show (VM.mapList (f + 1) fv .nil).run (inBuiltin s D) = _
    rw [VM.mapList]; rfl
  | pair a b =>
    show BOk m s rs env D _ (Ref.mapList (j + 1) (trf m fv) (.pair (trf m a) (trf m b)) rs)
    rw [Ref.mapList]
    have hab := ValIn.pair hl
    have ha := hA m s rs env fv [a] D hrel hfv hfn (fun v hv => by rw [List.mem_singleton.mp hv]; exact hab.1)
    simp only [List.map_cons, List.map_nil] at ha
    cases h1 : Ref.applyValues j (trf m fv) [trf m a] rs with
    | ok v' rs1 =>
      rw [h1] at ha
      obtain ⟨M1, s1, m1, v, hr1, hpc1, hv1, rel1, hm1, ext1, fr1, hcl1⟩ := ha
      have hr1 : ∀ fuel, M1 ≤ fuel → (VM.applyFn fuel fv [a]).run (inBuiltin s D) = (.ok v, inBuiltin s1 D) := hr1
      simp only
      have hfv1 : VOk m1 s1 rs1 fv := VOk.ext hfv fr1 ext1 hm1
      have hb1 : VOk m1 s1 rs1 b := VOk.ext hab.2 fr1 ext1 hm1
      have ih := hM m1 s1 rs1 env fv b D rel1 hfv1 hfn hb1
      rw [VOk.tr_ext hfv hm1, VOk.tr_ext hab.2 hm1] at ih
      cases h2 : Ref.mapList j (trf m fv) (trf m b) rs1 with
      | ok t' rs2 =>
        rw [h2] at ih
        obtain ⟨M2, s2, m2, t, hr2, hpc2, ht2, rel2, hm2, ext2, fr2, hcl2⟩ := ih
        have hr2 : ∀ fuel, M2 ≤ fuel → (VM.mapList fuel fv b).run (inBuiltin s1 D) = (.ok t, inBuiltin s2 D) := hr2
        refine ⟨max M1 M2 + 1, s2, m2, .pair v t, fun fuel hf => ?_, by rw [hpc2, hpc1], ?_, rel2, hm1.trans hm2 fr1.fnsLen,
          ext1.trans ext2, fr1.trans fr2, valIn_pair (VOk.ext hcl1 fr2 ext2 hm2) hcl2⟩
        · obtain ⟨f, rfl⟩ : ∃ f, fuel = f + 1 := ⟨fuel - 1, by omega⟩
          show (VM.mapList (f + 1) fv (.pair a b)).run (inBuiltin s D) = _
          rw [vm_mapList_pair, hr1 f (by omega)]
          simp only
          rw [hr2 f (by omega)]
        · show Val.pair v' t' = .pair (trf m2 v) (trf m2 t)
          rw [hv1, ht2, VOk.tr_ext hcl1 hm2]
      | err rs2 =>
        rw [h2] at ih
        obtain ⟨M2, hr2⟩ := ih
        refine ⟨max M1 M2 + 1, fun fuel hf => ?_⟩
        obtain ⟨f, rfl⟩ : ∃ f, fuel = f + 1 := ⟨fuel - 1, by omega⟩
        obtain ⟨se, hse, htr⟩ := hr2 f (by omega)
        have hse : (VM.mapList f fv b).run (inBuiltin s1 D) = (.error .err, se) := hse
        exact ⟨se, by show (VM.mapList (f + 1) fv (.pair a b)).run (inBuiltin s D) = _
                      rw [vm_mapList_pair, hr1 f (by omega)]; simp only; rw [hse], htr⟩
      | timeout => trivial
      | brk l rs2 => rw [h2] at ih; exact ih.elim
      | cont l rs2 => rw [h2] at ih; exact ih.elim
    | err rs1 =>
      rw [h1] at ha
      obtain ⟨M1, hr1⟩ := ha
      refine ⟨M1 + 1, fun fuel hf => ?_⟩
      obtain ⟨f, rfl⟩ : ∃ f, fuel = f + 1 := ⟨fuel - 1, by omega⟩
      obtain ⟨se, hse, htr⟩ := hr1 f (by omega)
      have hse : (VM.applyFn f fv [a]).run (inBuiltin s D) = (.error .err, se) := hse
      exact ⟨se, by show (VM.mapList (f + 1) fv (.pair a b)).run (inBuiltin s D) = _; rw [vm_mapList_pair, hse], htr⟩
    | timeout => trivial
    | brk l rs1 => rw [h1] at ha; exact ha.elim
    | cont l rs1 => rw [h1] at ha; exact ha.elim
  | bool x =>
    show BOk m s rs env D _ (Ref.mapList (j + 1) (trf m fv) (.bool x) rs)
    rw [Ref.mapList.eq_def]
    exact herr (fun h => by cases h) (fun _ _ h => by cases h)
  | int x =>
    show BOk m s rs env D _ (Ref.mapList (j + 1) (trf m fv) (.int x) rs)
    rw [Ref.mapList.eq_def]
    exact herr (fun h => by cases h) (fun _ _ h => by cases h)
  | str x =>
    show BOk m s rs env D _ (Ref.mapList (j + 1) (trf m fv) (.str x) rs)
    rw [Ref.mapList.eq_def]
    exact herr (fun h => by cases h) (fun _ _ h => by cases h)
  | arr x =>
    show BOk m s rs env D _ (Ref.mapList (j + 1) (trf m fv) (.arr x) rs)
    rw [Ref.mapList.eq_def]
    exact herr (fun h => by cases h) (fun _ _ h => by cases h)
  | fn x =>
    show BOk m s rs env D _ (Ref.mapList (j + 1) (trf m fv) (.fn (m x)) rs)
    rw [Ref.mapList.eq_def]
    exact herr (fun h => by cases h) (fun _ _ h => by cases h)
  | builtin x =>
    show BOk m s rs env D _ (Ref.mapList (j + 1) (trf m fv) (.builtin x) rs)
    rw [Ref.mapList.eq_def]
    exact herr (fun h => by cases h) (fun _ _ h => by cases h)
  | lazy x =>
    show BOk m s rs env D _ (Ref.mapList (j + 1) (trf m fv) (.lazy x) rs)
    rw [Ref.mapList.eq_def]
    exact herr (fun h => by cases h) (fun _ _ h => by cases h)
  | mark x =>
    show BOk m s rs env D _ (Ref.mapList (j + 1) (trf m fv) (.mark x) rs)
    rw [Ref.mapList.eq_def]
    exact herr (fun h => by cases h) (fun _ _ h => by cases h)
  | sym x =>
    show BOk m s rs env D _ (Ref.mapList (j + 1) (trf m fv) (.sym x) rs)
    rw [Ref.mapList.eq_def]
    exact herr (fun h => by cases h) (fun _ _ h => by cases h)

theorem ref_applyFn_map (k : Nat) (vs : List Val) (rs : Ref.St) :
    Ref.applyFn (k + 1) (.builtin "map") vs rs =
      mapSpec vs (.err rs)
        (fun f r => match Ref.mapArr k f r 0 (rs.heap.get r).length rs with
          | .ok ws s => .ok (s.heap.alloc ws).1 { s with heap := (s.heap.alloc ws).2 }
          | .err s => .err s | .brk l s => .brk l s | .cont l s => .cont l s | .timeout => .timeout)
        (fun f l => Ref.mapList k f l rs) := by
  rw [Ref.applyFn.eq_def]
  simp only []
  rw [if_neg (show ¬ "map" = "trace" by decide), if_neg (show ¬ "map" = "probe" by decide),
    if_neg (show ¬ "map" = "force" by decide), if_neg (show ¬ "map" = "substitute" by decide),
    if_neg (show ¬ "map" = "apply" by decide), if_pos True.intro]
  unfold mapSpec
  rcases vs with _ | ⟨f, _ | ⟨c, _ | ⟨d, r⟩⟩⟩
  · rfl
  · rfl
  · by_cases hf : (!isFunction f) = true
    · simp only [hf, if_true]
    · simp only [hf, if_false, Bool.false_eq_true]
      cases c with
      | arr r => simp only []; cases Ref.mapArr k f r 0 (rs.heap.get r).length rs <;> rfl
      | _ => rfl
  · rfl

/-- the array case of `map` on the machine: the results are collected and stored in a new array -/
def vmMapArr (fuel : Nat) (f : Val) (r : Nat) (s : St) : Except Fault Val × St :=
  match (VM.mapArr fuel f r 0 (s.heap.get r).length).run s with
  | (.ok ws, s2) => (.ok (s2.heap.alloc ws).1, { s2 with heap := (s2.heap.alloc ws).2 })
  | (.error e, s2) => (.error e, s2)

theorem run_builtin_map (fuel : Nat) (vs : List Val) (s : St) :
    (builtin (fuel + 1) "map" vs).run s =
      mapSpec vs (.error .err, s) (fun f r => vmMapArr fuel f r s) (fun f l => (VM.mapList fuel f l).run s) := by
  rw [builtin.eq_def]
  simp only []
  rw [if_neg (show ¬ "map" = "trace" by decide), if_neg (show ¬ "map" = "probe" by decide),
    if_neg (show ¬ "map" = "force" by decide), if_neg (show ¬ "map" = "substitute" by decide),
    if_neg (show ¬ "map" = "apply" by decide), if_pos True.intro]
  unfold mapSpec
  rcases vs with _ | ⟨f, _ | ⟨c, _ | ⟨d, r⟩⟩⟩
  · rfl
  · rfl
  · by_cases hf : (!isFunction f) = true
    · simp only [hf, if_true]; rfl
    · simp only [hf, if_false, Bool.false_eq_true]
      cases c with
      | arr r =>
        simp only [run_bind, run_get, vmMapArr]
        rcases (VM.mapArr fuel f r 0 (s.heap.get r).length).run s with ⟨r1, s1⟩
        cases r1 with
        | error e => rfl
        | ok ws => simp only [run_set, run_pure]
      | pair a b => rfl
      | _ => rfl
  · rfl

theorem mapSpec_fun {α β} (vs : List Val) (e : β → α) (oa : Val → Nat → β → α) (ol : Val → Val → β → α) (x : β) :
    mapSpec vs e oa ol x = mapSpec vs (e x) (fun f r => oa f r x) (fun f l => ol f l x) := by
  unfold mapSpec
  rcases vs with _ | ⟨fv, _ | ⟨c, _ | ⟨d, r⟩⟩⟩
  · rfl
  · rfl
  · by_cases hfn : (!isFunction fv) = true
    · simp only [hfn, if_true]
    · simp only [hfn, if_false, Bool.false_eq_true]
      cases c <;> rfl
  · rfl

theorem mapSpec_rel {α β} (P : α → β → Prop) (m : Nat → Nat) (vs : List Val)
    (e : α) (e' : β) (oa : Val → Nat → α) (oa' : Val → Nat → β) (ol : Val → Val → α) (ol' : Val → Val → β) (he : P e e')
    (harr : ∀ fv r, fv ∈ vs → isFunction fv = true → P (oa fv r) (oa' (trf m fv) r))
    (hlist : ∀ fv l, fv ∈ vs → l ∈ vs → isFunction fv = true → P (ol fv l) (ol' (trf m fv) (trf m l))) :
    P (mapSpec vs e oa ol) (mapSpec (vs.map (trf m)) e' oa' ol') := by
  unfold mapSpec
  rcases vs with _ | ⟨fv, _ | ⟨c, _ | ⟨d, r⟩⟩⟩
  · exact he
  · exact he
  · simp only [List.map_cons, List.map_nil, isFunction_tr]
    by_cases hfn : (!isFunction fv) = true
    · simp only [hfn, if_true]; exact he
    · simp only [hfn, if_false, Bool.false_eq_true]
      have hfn' : isFunction fv = true := by simpa using hfn
      cases c with
      | arr r => exact harr fv r (by simp) hfn'
      | pair a b => exact hlist fv (.pair a b) (by simp) (by simp) hfn'
      | _ => exact he
  · exact he

/-- `map` on evaluated arguments -/
theorem bclaim_map {k : Nat} (hMA : MArrClaim k) (hML : MListClaim k) : BClaim (k + 1) "map" := by
  intro m s rs env vs D hrel hvs
  rw [ref_applyFn_map]
  refine BOk.shift (run := fun fuel => mapSpec vs (.error .err, inBuiltin s D) (fun fv r => vmMapArr fuel fv r (inBuiltin s D))
    (fun fv l => (VM.mapList fuel fv l).run (inBuiltin s D))) (fun fuel => run_builtin_map fuel vs _) ?_
  have hfun : (fun fuel => mapSpec vs (.error .err, inBuiltin s D) (fun fv r => vmMapArr fuel fv r (inBuiltin s D))
        (fun fv l => (VM.mapList fuel fv l).run (inBuiltin s D)))
      = mapSpec vs (fun _ => (.error .err, inBuiltin s D)) (fun fv r fuel => vmMapArr fuel fv r (inBuiltin s D))
        (fun fv l fuel => (VM.mapList fuel fv l).run (inBuiltin s D)) := by
    funext fuel; rw [mapSpec_fun]
  rw [hfun]
  refine mapSpec_rel (fun run res => BOk m s rs env D run res) m vs _ _ _ _ _ _
    ⟨0, fun fuel _ => ⟨inBuiltin s D, rfl, hrel.trace⟩⟩ ?_ ?_
  · intro fv r hfv hfn
    have hlen : (rs.heap.get r).length = (s.heap.get r).length := by rw [hrel.heap, trHeap_get, List.length_map]
    rw [hlen]
    have ih := hMA m s rs env fv r 0 (s.heap.get r).length D hrel (hvs fv hfv) hfn
    cases h1 : Ref.mapArr k (trf m fv) r 0 (s.heap.get r).length rs with
    | ok ws' rs1 =>
      rw [h1] at ih
      obtain ⟨M1, s1, m1, ws, hr1, hpc1, hws, rel1, hm1, ext1, fr1, hcl1⟩ := ih
      have hr1 : ∀ fuel, M1 ≤ fuel → (VM.mapArr fuel fv r 0 (s.heap.get r).length).run (inBuiltin s D) = (.ok ws, inBuiltin s1 D) := hr1
      simp only
      have hal := trHeap_alloc m1 id id s1.heap ws
      have hheap2 : (rs1.heap.alloc ws').2 = trHeap m1 id id (s1.heap.alloc ws).2 := by
        rw [rel1.heap, hws, hal]
      have hv2 : (rs1.heap.alloc ws').1 = trf m1 (s1.heap.alloc ws).1 := by
        rw [rel1.heap, hws, hal]
      have hhok : HOk m1 s1 rs1 (s1.heap.alloc ws).2 := heapIn_alloc rel1.hok ws hcl1
      have hrelF : RelF m1 { s1 with heap := (s1.heap.alloc ws).2 } { rs1 with heap := (rs1.heap.alloc ws').2 } env :=
        rel1.of_same rfl rfl rfl rfl rfl rfl hheap2 rel1.trace hhok
      have hfrF : FrameF s1 { s1 with heap := (s1.heap.alloc ws).2 } :=
        ⟨⟨rfl, rfl, rfl, rfl, Nat.le_refl _, fun _ _ => rfl, Nat.le_refl _, fun _ _ => rfl⟩, Nat.le_refl _, fun _ _ => rfl⟩
      have hrext : RExt rs1 { rs1 with heap := (rs1.heap.alloc ws').2 } := ⟨fun i fr hf => ⟨fr, hf, rfl⟩, fun _ _ hc => hc⟩
      refine ⟨M1, { s1 with heap := (s1.heap.alloc ws).2 }, m1, (s1.heap.alloc ws).1, fun fuel hf => ?_, hpc1, hv2, hrelF, hm1,
        ext1.trans hrext, fr1.trans hfrF, ?_⟩
      · show vmMapArr fuel fv r (inBuiltin s D) = _
        unfold vmMapArr
        show (match (VM.mapArr fuel fv r 0 (s.heap.get r).length).run (inBuiltin s D) with
          | (.ok ws, s2) => _ | (.error e, s2) => _) = _
        rw [hr1 fuel hf]
        rfl
      · have : (s1.heap.alloc ws).1 = .arr s1.heap.arrs.length := by simp [DataHeap.alloc]
        rw [this]
        exact valIn_of_const (fun _ _ _ => rfl)
    | err rs1 =>
      rw [h1] at ih
      obtain ⟨M1, hr1⟩ := ih
      refine ⟨M1, fun fuel hf => ?_⟩
      obtain ⟨se, hse, htr⟩ := hr1 fuel hf
      have hse : (VM.mapArr fuel fv r 0 (s.heap.get r).length).run (inBuiltin s D) = (.error .err, se) := hse
      refine ⟨se, ?_, htr⟩
      show vmMapArr fuel fv r (inBuiltin s D) = _
      unfold vmMapArr
      show (match (VM.mapArr fuel fv r 0 (s.heap.get r).length).run (inBuiltin s D) with
        | (.ok ws, s2) => _ | (.error e, s2) => _) = _
      rw [hse]
    | timeout => trivial
    | brk l rs1 => rw [h1] at ih; exact ih.elim
    | cont l rs1 => rw [h1] at ih; exact ih.elim
  · intro fv l hfv hl hfn
    exact hML m s rs env fv l D hrel (hvs fv hfv) hfn (hvs l hl)

/-! ## All Go builtins of the fragment, by induction on the reference fuel -/

theorem hclaims : ∀ n, (∀ j, j < n → FClaimE j ∧ FClaimU j) →
    (∀ name, okB name → BClaim n name) ∧ AClaim n ∧ MArrClaim n ∧ MListClaim n
  | 0, _ => by
    refine ⟨fun name _ m s rs env vs D _ _ => ?_, fun m s rs env fv vs D _ _ _ _ => ?_,
      fun m s rs env fv r i cnt D _ _ _ => ?_, fun m s rs env fv l D _ _ _ _ => ?_⟩
    · rw [Ref.applyFn]; trivial
    · rw [Ref.applyValues]; trivial
    · rw [Ref.mapArr]; trivial
    · rw [Ref.mapList]; trivial
  | n + 1, hlow => by
    obtain ⟨hB, hA, hMA, hML⟩ := hclaims n (fun j hj => hlow j (Nat.lt_succ_of_lt hj))
    refine ⟨fun name hn => ?_, aclaim_succ (hlow n (Nat.lt_succ_self n)).2 hB, marr_succ hA hMA, mlist_succ hA hML⟩
    rcases hn with hn | hn | hn | hn
    · exact bclaim_fo hn
    · subst hn; exact bclaim_force (fun j hj => (hlow j (Nat.lt_succ_of_lt hj)).1)
    · subst hn; exact bclaim_apply hA
    · subst hn; exact bclaim_map hMA hML

/-- a call whose callee symbol denotes `force`, `apply` or `map` -/
theorem fclaimH {k : Nat} (hlow : ∀ j, j < k + 1 → FClaimE j ∧ FClaimU j) (hA : FClaimA (k + 1)) :
    ∀ name, hoB name → FClaimH k name :=
  fun name hn => fclaimH_of_bclaim hA ((hclaims (k + 1) hlow).1 name (Or.inr hn))

end ZygoVerif.Sim
