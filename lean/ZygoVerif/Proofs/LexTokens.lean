/-
The lexer never looks at its token queue: it only appends to it. `step` (hence `feed`)
commutes with putting tokens in front of the queue, and the queue after a feed is the queue
before it followed by the new tokens. Used by Proofs/ReadEager (lazy = eager lexing).
-/
import ZygoVerif.Model.Lexer
namespace ZygoVerif.Lexer

/-- put `q` in front of the token queue -/
def pre (q : List Token) (s : LexCore) : LexCore := { s with tokens := q ++ s.tokens }

def Outcome.pre (q : List Token) : Outcome LexCore → Outcome LexCore
  | .ok s => .ok (Lexer.pre q s)
  | .err e s => .err e (Lexer.pre q s)

@[simp] theorem pre_buffer (q : List Token) (s : LexCore) : (pre q s).buffer = s.buffer := rfl
@[simp] theorem pre_state (q : List Token) (s : LexCore) : (pre q s).state = s.state := rfl

theorem appendToken_pre (q : List Token) (s : LexCore) (t : Token) :
    appendToken (pre q s) t = pre q (appendToken s t) := by
  simp [appendToken, pre, List.append_assoc]

theorem twoback_pre (q : List Token) (s : LexCore) : twoback (pre q s) = twoback s := rfl

theorem dumpBuffer_pre (q : List Token) (s : LexCore) : dumpBuffer (pre q s) = (dumpBuffer s).pre q := by
  unfold dumpBuffer
  simp only [pre_buffer]
  by_cases h : s.buffer.isEmpty = true
  · simp [h, Outcome.pre]
  · simp only [h]
    cases decodeAtom s.buffer <;> simp [Outcome.pre, appendToken, pre, List.append_assoc]

theorem dumpAs_pre (q : List Token) (s : LexCore) (t : TokType) : dumpAs (pre q s) t = pre q (dumpAs s t) := by
  simp [dumpAs, appendToken, pre, List.append_assoc]

theorem thenDump_pre (q : List Token) (s : LexCore) (k k' : LexCore → Outcome LexCore)
    (hk : ∀ x, k (pre q x) = (k' x).pre q) : thenDump (pre q s) k = (thenDump s k').pre q := by
  unfold thenDump
  rw [dumpBuffer_pre]
  cases dumpBuffer s with
  | ok s' => simpa [Outcome.pre] using hk s'
  | err e s' => rfl

theorem writeRune_pre (q : List Token) (s : LexCore) (r : Char) : writeRune (pre q s) r = (writeRune s r).pre q := rfl

theorem ite_pre (q : List Token) {c : Prop} [Decidable c] (a b a' b' : Outcome LexCore)
    (ha : a = a'.pre q) (hb : b = b'.pre q) : (if c then a else b) = (if c then a' else b').pre q := by
  split <;> assumption

theorem ok_appendToken_pre (q : List Token) (s : LexCore) (t : Token) :
    Outcome.ok (appendToken (pre q s) t) = (Outcome.ok (appendToken s t)).pre q :=
  congrArg Outcome.ok (appendToken_pre q s t)

/-- one step of the structural proofs below -/
macro "obl_step" : tactic => `(tactic| first
  | exact rfl
  | apply ite_pre
  | (apply thenDump_pre; intro _)
  | exact ok_appendToken_pre _ _ _
  | exact writeRune_pre _ _ _)

theorem stepNormal_pre (q : List Token) (s : LexCore) (r : Char) :
    stepNormal (pre q s) r = (stepNormal s r).pre q := by
  unfold stepNormal
  repeat' obl_step
  · exact ok_appendToken_pre q { s with state := .backtickString } _
  · exact thenDump_pre q { s with linenum := s.linenum + 1 } _ _ (fun _ => rfl)

theorem stepBuiltin_pre (q : List Token) (s : LexCore) (r : Char) :
    stepBuiltin (pre q s) r = (stepBuiltin s r).pre q := by
  unfold stepBuiltin
  apply ite_pre
  · exact rfl
  apply ite_pre
  · exact rfl
  apply ite_pre
  · exact ok_appendToken_pre q { s with state := .normal } _
  · exact (congrArg (fun x => stepNormal x r) (appendToken_pre q { s with state := .normal } _)).trans
      (stepNormal_pre q _ r)

theorem stepMinusDot_pre (q : List Token) (s : LexCore) (r : Char) :
    stepMinusDot (pre q s) r = (stepMinusDot s r).pre q := by
  unfold stepMinusDot
  apply ite_pre
  · exact rfl
  · have h := appendToken_pre q { s with state := .normal } ⟨.symbol, ['-']⟩
    have h2 : ({ appendToken (pre q { s with state := Mode.normal }) ⟨.symbol, ['-']⟩ with
          buffer := (appendToken (pre q { s with state := Mode.normal }) ⟨.symbol, ['-']⟩).buffer ++ ['.'] } : LexCore) =
        pre q { appendToken { s with state := Mode.normal } ⟨.symbol, ['-']⟩ with
          buffer := (appendToken { s with state := Mode.normal } ⟨.symbol, ['-']⟩).buffer ++ ['.'] } := by
      rw [h]; rfl
    exact (congrArg (fun y => stepNormal y r) h2).trans (stepNormal_pre q _ r)

theorem stepFirstFwdSlash_pre (q : List Token) (s : LexCore) (r : Char) :
    stepFirstFwdSlash (pre q s) r = (stepFirstFwdSlash s r).pre q := by
  unfold stepFirstFwdSlash
  apply ite_pre
  · exact thenDump_pre q s _ _ (fun _ => rfl)
  apply ite_pre
  · refine thenDump_pre q s _ _ (fun x => ?_)
    exact ok_appendToken_pre q { x with buffer := x.buffer ++ "/*".toList, state := .commentBlock } _
  · exact thenDump_pre q { s with state := .builtinOperator, prevrune := '/' } _ _ (fun x => stepBuiltin_pre q x r)

theorem stepFresh_pre (q : List Token) (s : LexCore) (r : Char) :
    stepFresh (pre q s) r = (stepFresh s r).pre q := by
  unfold stepFresh
  apply ite_pre
  · exact thenDump_pre q { s with state := .normal } _ _ (fun x => ok_appendToken_pre q x _)
  apply ite_pre
  · refine thenDump_pre q { s with state := .normal } _ _ (fun x => ?_)
    exact (congrArg (fun y => stepNormal y r) (appendToken_pre q x _)).trans (stepNormal_pre q _ r)
  · exact thenDump_pre q { s with state := .normal, buffer := s.buffer ++ [':'] } _ _ (fun x => stepNormal_pre q x r)

theorem hexEscapeDigit_pre (q : List Token) (s : LexCore) (r : Char) (back : Mode) :
    hexEscapeDigit (pre q s) r back = (hexEscapeDigit s r back).pre q := by
  unfold hexEscapeDigit
  cases hexDigitValue r with
  | none => rfl
  | some d =>
    dsimp only
    repeat' obl_step

macro "obl_fin" : tactic =>
  `(tactic| simp [Outcome.pre, dumpAs, appendToken, pre, writeRune, List.append_assoc])

theorem startHexEscape_pre (q : List Token) (s : LexCore) (r : Char) (m : Mode) :
    startHexEscape (pre q s) r m = (startHexEscape s r m).map (pre q) := by
  unfold startHexEscape
  split <;> rfl

theorem stepMode_pre (q : List Token) (s : LexCore) (r : Char) :
    stepMode (pre q s) r = (stepMode s r).pre q := by
  unfold stepMode
  cases hs : s.state <;> simp only [pre_state, hs]
  case firstFwdSlash => exact stepFirstFwdSlash_pre q s r
  case freshAssignOrColon => exact stepFresh_pre q s r
  case builtinOperator => exact stepBuiltin_pre q s r
  case minusDot => exact stepMinusDot_pre q s r
  case normal => exact stepNormal_pre q s r
  case strHexEscape => exact hexEscapeDigit_pre q s r _
  case runeHexEscape => exact hexEscapeDigit_pre q s r _
  case strEscaped =>
    rw [startHexEscape_pre]
    cases startHexEscape s r Mode.strHexEscape with
    | some s' => rfl
    | none => cases escapeChar r <;> rfl
  case runeEscaped =>
    rw [startHexEscape_pre]
    cases startHexEscape s r Mode.runeHexEscape with
    | some s' => rfl
    | none => cases escapeChar r <;> rfl
  case unquote =>
    apply ite_pre
    · obl_fin
    apply ite_pre
    · have h := appendToken_pre q s ⟨.tilde, []⟩
      have h2 : ({ appendToken (pre q s) ⟨.tilde, []⟩ with state := Mode.normal } : LexCore) =
          pre q { appendToken s ⟨.tilde, []⟩ with state := Mode.normal } := by rw [h]; rfl
      rw [h2]
      exact stepNormal_pre q _ r
    · obl_fin
  case runeLit =>
    apply ite_pre
    · exact rfl
    apply ite_pre
    · erw [dumpBuffer_pre q { s with state := Mode.runeLit, buffer := s.buffer ++ [r] }]
      cases dumpBuffer { s with state := Mode.runeLit, buffer := s.buffer ++ [r] } <;> rfl
    · exact rfl
  all_goals (repeat' obl_step)
  all_goals obl_fin

theorem step_pre (q : List Token) (s : LexCore) (r : Char) : step (pre q s) r = (step s r).pre q := by
  unfold step
  exact stepMode_pre q { s with priorRune := s.priorRune.set s.priori r, priori := (s.priori + 1) % 20 } r

/-- one step of `feed` -/
def feedStep (o : Outcome LexCore) (r : Char) : Outcome LexCore :=
  match o with
  | .ok s => step s r
  | .err e s => .err e s

theorem feed_eq (o : Outcome LexCore) (rs : List Char) : feed o rs = rs.foldl feedStep o := rfl

theorem feed_nil (o : Outcome LexCore) : feed o [] = o := rfl

theorem feed_cons (o : Outcome LexCore) (r : Char) (rs : List Char) : feed o (r :: rs) = feed (feedStep o r) rs := rfl

theorem feed_ok_cons (s : LexCore) (r : Char) (rs : List Char) : feed (.ok s) (r :: rs) = feed (step s r) rs := rfl

theorem feed_append (o : Outcome LexCore) (a b : List Char) : feed o (a ++ b) = feed (feed o a) b := by
  simp [feed_eq, List.foldl_append]

theorem feed_err (e : LexErr) (s : LexCore) (rs : List Char) : feed (.err e s) rs = .err e s := by
  induction rs with
  | nil => rfl
  | cons r rs ih => rw [feed_cons]; exact ih

theorem feedStep_pre (q : List Token) (o : Outcome LexCore) (r : Char) :
    feedStep (o.pre q) r = (feedStep o r).pre q := by
  cases o with
  | ok s => exact step_pre q s r
  | err e s => rfl

theorem feed_pre (q : List Token) (o : Outcome LexCore) (rs : List Char) :
    feed (o.pre q) rs = (feed o rs).pre q := by
  induction rs generalizing o with
  | nil => rfl
  | cons r rs ih => rw [feed_cons, feed_cons, feedStep_pre, ih]

/-- the tokens queued after a step are the tokens before it followed by new ones -/
theorem step_tokens_append (s : LexCore) (r : Char) :
    ∃ new, match step s r with
      | .ok s' => s'.tokens = s.tokens ++ new
      | .err _ s' => s'.tokens = s.tokens ++ new := by
  have h := step_pre s.tokens { s with tokens := [] } r
  have hs : pre s.tokens { s with tokens := [] } = s := by simp [pre]
  rw [hs] at h
  rw [h]
  cases step { s with tokens := [] } r with
  | ok s' => exact ⟨s'.tokens, rfl⟩
  | err e s' => exact ⟨s'.tokens, rfl⟩

end ZygoVerif.Lexer
