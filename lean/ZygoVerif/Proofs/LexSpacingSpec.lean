/-
C06 `lex_spacing`, part 4: the character-level specification `Spacing.legal` implies the
lexer-level legality `LegalFrom`, and every well-formed specification token is one lexer token
of the expected type. Hence `lex_spacing`: the lexer model reads every legal spacing of a token
sequence as exactly that token sequence.
-/
import ZygoVerif.Proofs.LexSpacing
import ZygoVerif.Proofs.LexSpacingNames
import ZygoVerif.Model.SpacingTok
namespace ZygoVerif.Lexer
open ZygoVerif.Spacing (Tok)
open ZygoVerif.Spacing.Tok (dotted)

/-! ## the character classes of the specification and of the lexer agree -/

theorem isBlank_eq (c : Char) : Spacing.isBlank c = isBlank c := rfl
theorem isDigit_eq (c : Char) : Spacing.isDigit c = isDig c := rfl

theorem signMayFollow_eq (c : Char) : Spacing.signMayFollow c = canStartSignedNumberAfter c := by
  have h0 : (c.toNat == 0) = (c == '\x00') := by
    by_cases h : c = '\x00'
    · subst h; decide
    · have : c.toNat ≠ 0 := by
        intro hn; apply h
        have := Char.ofNat_toNat c
        rw [hn] at this; exact this.symm
      rw [beq_eq_false_iff_ne.2 this, beq_eq_false_iff_ne.2 h]
  have e1 : "\x00 \t\n\r([{,;:+-*/<>=!&|".toList = '\x00' :: " \t\n\r([{,;:+-*/<>=!&|".toList := by decide
  simp only [Spacing.signMayFollow, canStartSignedNumberAfter, e1, List.contains_cons, h0]

theorem isDigits_iff (ds : List Char) : Spacing.isDigits ds = true ↔ digitsOK ds := by
  simp only [Spacing.isDigits, Bool.and_eq_true, Bool.not_eq_true', List.all_eq_true, digitsOK, ne_eq]
  constructor
  · rintro ⟨h1, h2⟩; exact ⟨by intro h; rw [h] at h1; simp at h1, h2⟩
  · rintro ⟨h1, h2⟩; exact ⟨by cases ds <;> simp_all, h2⟩

/-- the operator digraphs of the specification cover those of `BuiltinOpRegex` and the comment openers -/
theorem digraph_of_opMerges (o c : Char) (h : opMerges o c = true) : Spacing.digraph o c = true := by
  simp only [opMerges, builtinOpRe, List.any_eq_true] at h
  obtain ⟨x, hx, he⟩ := h
  have he' : x.toList = [o, c] := by simpa using he
  have : builtinOps.all (fun x => x.toList.length != 2 || Spacing.digraphs.contains x.toList) = true := by decide
  have h2 := List.all_eq_true.1 this x hx
  rw [he'] at h2
  simpa [Spacing.digraph] using h2

theorem digraph_slash : Spacing.digraph '/' '/' = true ∧ Spacing.digraph '/' '*' = true := by decide

/-! ## specification tokens as lexer pieces -/

def opPiece (o : List Char) : Piece :=
  match o with
  | ['/'] => .slash
  | [':', '='] => .assign
  | [a] => .op1 a
  | [a, b] => .op2 a b
  | _ => .word []

def toPiece : Tok → Piece
  | .name lead segs => .word (Tok.text (.name lead segs))
  | .num neg ip fp ex => .word (Tok.text (.num neg ip fp ex))
  | .op o => opPiece o
  | .punct c => if c == ',' || c == ';' then .sep c else .brace c

/-- `Piece.OK` for the pieces of operators, as a test -/
def opPieceOK : Piece → Bool
  | .op1 o => isOpRune o
  | .op2 o c => isOpRune o && opMerges o c
  | .slash => true
  | .assign => true
  | _ => false

theorem opPieceOK_ok (p : Piece) (h : opPieceOK p = true) : p.OK := by
  cases p <;> simp_all [opPieceOK, Piece.OK]

theorem opTexts_facts : Spacing.opTexts.all (fun o => opPieceOK (opPiece o) && ((opPiece o).text == o)) = true := by decide

theorem flush_of_decode (w : List Char) (t : Token) (hne : w ≠ []) (h : decodeAtom w = .ok t) : flush w = [t] := by
  have : w.isEmpty = false := by cases w <;> simp_all
  simp [flush, this, h]

theorem toFloatParts_render (neg : Bool) (ip : List Char) (fp : Option (List Char)) (ex : Option (Char × List Char)) :
    (FloatParts.mk neg ip fp ex).render = Tok.text (.num neg ip fp ex) := by
  cases fp <;> cases ex <;> simp [FloatParts.render, FloatParts.mant, Tok.text, fracText, expText]

theorem num_valid (neg : Bool) (ip : List Char) (fp : Option (List Char)) (ex : Option (Char × List Char))
    (h : Tok.wf (.num neg ip fp ex) = true) (hf : (fp.isNone && ex.isNone) = false) :
    (FloatParts.mk neg ip fp ex).Valid := by
  simp only [Tok.wf, Bool.and_eq_true] at h
  obtain ⟨⟨h1, h2⟩, h3⟩ := h
  refine ⟨(isDigits_iff ip).1 h1, ?_, ?_, ?_⟩
  · intro f hfp
    simp only at hfp
    subst hfp
    exact (isDigits_iff f).1 h2
  · intro s ds hex
    simp only at hex
    subst hex
    simp only [Bool.and_eq_true, Bool.or_eq_true, beq_iff_eq] at h3
    exact ⟨h3.1, (isDigits_iff ds).1 h3.2⟩
  · cases fp with
    | some f => exact Or.inl rfl
    | none =>
      cases ex with
      | some e => exact Or.inr rfl
      | none => simp at hf

/-- the word of a name or numeral, with its token -/
theorem word_of_tok (t : Tok) (hw : t.isWord = true) (h : t.wf = true) :
    WordText t.text ∧ decodeAtom t.text = .ok (expTok t) := by
  cases t with
  | name lead segs =>
    simp only [Tok.wf, Bool.and_eq_true, Bool.not_eq_true', List.all_eq_true, Bool.or_eq_true, decide_eq_true_eq] at h
    obtain ⟨⟨⟨h1, h2⟩, h3⟩, h4⟩ := h
    have hne : segs ≠ [] := by intro he; rw [he] at h1; simp at h1
    have hnt := dotted_nameText segs hne h2
    cases lead with
    | true =>
      have hd := decodeAtom_leadpath segs hne h2 h4
      have hnt' : NameText ('.' :: dotted segs) := ⟨by simp, fun x hx => by
        rw [List.mem_cons] at hx
        rcases hx with rfl | hx
        · exact Or.inr rfl
        · exact hnt.runes x hx⟩
      refine ⟨?_, ?_⟩
      · exact WordText.plain _ (by simp [Tok.text]) (by simpa [Tok.text] using hnt'.plain) ⟨_, by simpa [Tok.text] using hd⟩
      · simpa [Tok.text, expTok] using hd
    | false =>
      by_cases hl : segs.length ≥ 2
      · have hd := decodeAtom_path segs hl h2 h4
        have hl1 : (segs.length == 1) = false := by rw [beq_eq_false_iff_ne]; omega
        refine ⟨?_, ?_⟩
        · exact WordText.plain _ (by simpa [Tok.text] using hnt.ne) (by simpa [Tok.text] using hnt.plain) ⟨_, by simpa [Tok.text] using hd⟩
        · simpa [Tok.text, expTok, hl1] using hd
      · match segs, hne, hl with
        | [w], _, _ =>
          have hres : Spacing.reservedWords.contains w = false := by
            rcases h3 with h3 | h3
            · rcases h3 with h3 | h3
              · cases h3
              · simp at h3
            · simpa [dotted] using h3
          have hd := decodeAtom_ident w (h2 w (by simp)) hres (by simpa [dotted] using h4)
          refine ⟨?_, ?_⟩
          · exact WordText.plain _ (by simpa [Tok.text, dotted] using hnt.ne) (by simpa [Tok.text, dotted] using hnt.plain)
              ⟨_, by simpa [Tok.text, dotted] using hd⟩
          · simpa [Tok.text, expTok, dotted] using hd
        | _ :: _ :: _, _, hl => simp at hl
  | num neg ip fp ex =>
    by_cases hf : (fp.isNone && ex.isNone) = true
    · -- an integer
      have hfp : fp = none := by cases fp <;> simp_all
      have hex : ex = none := by cases ex <;> simp_all
      subst hfp; subst hex
      simp only [Tok.wf, Bool.and_true] at h
      obtain ⟨hne, hd⟩ := (isDigits_iff ip).1 h
      cases neg with
      | false =>
        have hdec := decodeAtom_digits ip hne hd
        refine ⟨?_, ?_⟩
        · exact WordText.plain _ (by simpa [Tok.text] using hne) (by simpa [Tok.text] using digits_plain ip hd)
            ⟨_, by simpa [Tok.text] using hdec⟩
        · simpa [Tok.text, expTok] using hdec
      | true =>
        have hdec := decodeAtom_neg_digits ip hne hd
        cases ip with
        | nil => exact absurd rfl hne
        | cons d r =>
          refine ⟨?_, ?_⟩
          · have := WordText.neg d r (hd d (by simp)) (fun c hc => digits_plain (d :: r) hd c (by simp [hc])) ⟨_, hdec⟩
            simpa [Tok.text] using this
          · simpa [Tok.text, expTok] using hdec
    · have hf' : (fp.isNone && ex.isNone) = false := Bool.eq_false_iff.2 hf
      have hv := num_valid neg ip fp ex h hf'
      have hdec := decodeAtom_floatParts _ hv
      rw [toFloatParts_render] at hdec
      refine ⟨?_, ?_⟩
      · have := WordText.float _ hv
        rwa [toFloatParts_render] at this
      · simpa [expTok, hf'] using hdec
  | op o => simp [Tok.isWord] at hw
  | punct c => simp [Tok.isWord] at hw

theorem op_facts (o : List Char) (h : Tok.wf (.op o) = true) : opPieceOK (opPiece o) = true ∧ (opPiece o).text = o := by
  simp only [Tok.wf, List.contains_iff_mem] at h
  have := List.all_eq_true.1 opTexts_facts o h
  simpa using this

theorem toPiece_ok (t : Tok) (h : t.wf = true) : (toPiece t).OK := by
  cases t with
  | name lead segs => exact (word_of_tok _ rfl h).1
  | num neg ip fp ex => exact (word_of_tok _ rfl h).1
  | op o => exact opPieceOK_ok _ (op_facts o h).1
  | punct c =>
    simp only [Tok.wf, List.contains_iff_mem] at h
    have e : "()[]{},;".toList = ['(', ')', '[', ']', '{', '}', ',', ';'] := by decide
    rw [e] at h
    simp only [List.mem_cons, List.not_mem_nil, or_false] at h
    rcases h with rfl | rfl | rfl | rfl | rfl | rfl | rfl | rfl <;> simp [toPiece, Piece.OK, isBrace]

theorem toPiece_text (t : Tok) (h : t.wf = true) : (toPiece t).text = t.text := by
  cases t with
  | name lead segs => rfl
  | num neg ip fp ex => rfl
  | op o => exact (op_facts o h).2
  | punct c => simp only [toPiece]; split <;> rfl

theorem toPiece_toks (t : Tok) (h : t.wf = true) : (toPiece t).toks = [expTok t] := by
  cases t with
  | name lead segs =>
    obtain ⟨hw, hd⟩ := word_of_tok _ rfl h
    exact flush_of_decode _ _ hw.ne_nil hd
  | num neg ip fp ex =>
    obtain ⟨hw, hd⟩ := word_of_tok _ rfl h
    exact flush_of_decode _ _ hw.ne_nil hd
  | op o =>
    simp only [Tok.wf, List.contains_iff_mem] at h
    have : Spacing.opTexts.all (fun o => (toPiece (.op o)).toks == [expTok (.op o)]) = true := by decide
    have := List.all_eq_true.1 this o h
    simpa using this
  | punct c =>
    simp only [Tok.wf, List.contains_iff_mem] at h
    have e : "()[]{},;".toList = ['(', ')', '[', ']', '{', '}', ',', ';'] := by decide
    rw [e] at h
    simp only [List.mem_cons, List.not_mem_nil, or_false] at h
    rcases h with rfl | rfl | rfl | rfl | rfl | rfl | rfl | rfl <;> decide

/-! ## first and last characters -/

theorem lastOf_eq_lastAfter (l : Char) (g : List Char) : lastOf l g = Spacing.lastAfter l g := by
  induction g generalizing l with
  | nil => rfl
  | cons c g ih =>
    rw [lastOf_cons, ih]
    show g.getLastD c = (c :: g).getLastD l
    rw [List.getLastD_cons]

theorem lastOf_text (l : Char) (t : Tok) (hne : t.text ≠ []) : lastOf l t.text = t.last := by
  rw [lastOf_eq_lastAfter]
  cases ht : t.text with
  | nil => exact absurd ht hne
  | cons c r =>
    show (c :: r).getLastD l = t.text.getLastD '\x00'
    rw [ht, List.getLastD_cons, List.getLastD_cons]

theorem tok_text_ne_nil (t : Tok) (h : t.wf = true) : t.text ≠ [] := by
  rw [← toPiece_text t h]; exact (toPiece t).text_ne_nil (toPiece_ok t h)

theorem toPiece_first (t : Tok) (h : t.wf = true) : (toPiece t).first = t.first := by
  simp [Piece.first, Tok.first, toPiece_text t h]

theorem lastOf_mem (l c : Char) (g : List Char) : lastOf l (c :: g) ∈ c :: g := by
  rw [lastOf_cons]
  induction g generalizing c with
  | nil => simp
  | cons d g ih => rw [lastOf_cons]; exact List.mem_cons_of_mem _ (ih d)

theorem canStart_blank (c : Char) (h : isBlank c = true) : canStartSignedNumberAfter c = true := by
  simp only [isBlank, Bool.or_eq_true, beq_iff_eq] at h
  rcases h with ((rfl | rfl) | rfl) | rfl <;> decide

/-! ## words of the specification -/

theorem isE_digit (c : Char) (h : isDig c = true) : isE c = false := by
  have := isDig_not_xob c h
  simp only [isDig, Bool.and_eq_true, decide_eq_true_eq] at h
  have h1 : '0'.toNat ≤ c.toNat := h.1
  have h2 : c.toNat ≤ '9'.toNat := h.2
  have e0 : '0'.toNat = 48 := by decide
  have e9 : '9'.toNat = 57 := by decide
  rw [e0] at h1; rw [e9] at h2
  simp only [isE, Bool.or_eq_false_iff, beq_eq_false_iff_ne]
  constructor <;> (intro heq; subst heq; revert h1 h2; decide)

theorem num_last_digit (neg : Bool) (ip : List Char) (fp : Option (List Char)) (ex : Option (Char × List Char))
    (h : Tok.wf (.num neg ip fp ex) = true) : isDig (Tok.last (.num neg ip fp ex)) = true := by
  by_cases hf : (fp.isNone && ex.isNone) = true
  · have hfp : fp = none := by cases fp <;> simp_all
    have hex : ex = none := by cases ex <;> simp_all
    subst hfp; subst hex
    simp only [Tok.wf, Bool.and_true] at h
    obtain ⟨hne, hd⟩ := (isDigits_iff ip).1 h
    have : Tok.last (.num neg ip none none) = ip.getLast hne := by
      simp only [Tok.last, Tok.text, List.append_nil, List.getLastD_eq_getLast?, List.getLast?_append,
        List.getLast?_eq_some_getLast hne, Option.some_or, Option.getD_some]
    rw [this]; exact hd _ (List.getLast_mem hne)
  · have hf' : (fp.isNone && ex.isNone) = false := Bool.eq_false_iff.2 hf
    have hv := num_valid neg ip fp ex h hf'
    obtain ⟨c, hc, hd⟩ := FloatParts.last_digit _ hv
    rw [toFloatParts_render] at hc
    simp only [Tok.last, List.getLastD_eq_getLast?, hc]
    exact hd

theorem sciPrefix_name (a : List Char) (c : Char) (r : List Char) (ha : a = c :: r)
    (hc : Spacing.isLetter c = true ∨ (c = '.' ∧ ∃ c2 r2, r = c2 :: r2 ∧ Spacing.isLetter c2 = true)) : sciPrefix a = false := by
  subst ha
  have hdl : decimalRe (c :: r).dropLast = false ∧ floatRe (c :: r).dropLast = false := by
    cases r with
    | nil => simp [decimalRe, floatRe, dropMinus, digThenDigU, floatBody]
    | cons d r' =>
      rw [List.dropLast_cons_cons]
      rcases hc with hc | ⟨rfl, c2, r2, hr, hc2⟩
      · obtain ⟨_, _, g3, _, _, _, g7⟩ := letter_facts c hc
        have hdot : c ≠ '.' := (idc_facts c (by simp [idc, hc])).2.2.2.2.1
        exact ⟨decimalRe_head c _ g3 g7, floatRe_head c _ g3 g7 hdot⟩
      · simp only [List.cons.injEq] at hr
        obtain ⟨rfl, rfl⟩ := hr
        obtain ⟨_, _, g3, _, _, _, _⟩ := letter_facts d hc2
        refine ⟨decimalRe_head '.' _ (by decide) (by decide), ?_⟩
        cases r' with
        | nil => simp [floatRe, dropMinus, floatBody, digThenDigU]
        | cons e r'' =>
          rw [List.dropLast_cons_cons]
          simp [floatRe, dropMinus, floatBody, digThenDigU, g3]
  unfold sciPrefix
  cases hl : (c :: r).getLast? with
  | none => simp
  | some x => simp [hdl.1, hdl.2]

/-- a word of the specification is never continued by a following `+` or `-` -/
theorem word_no_sci (t : Tok) (hw : t.isWord = true) (h : t.wf = true) (c : Char) : sciGlues t.text t.last c = false := by
  cases t with
  | name lead segs =>
    simp only [Tok.wf, Bool.and_eq_true, Bool.not_eq_true', List.all_eq_true] at h
    obtain ⟨⟨⟨h1, h2⟩, _⟩, _⟩ := h
    have hne : segs ≠ [] := by intro he; rw [he] at h1; simp at h1
    obtain ⟨c1, r1, hcr, hc1⟩ := dotted_head segs hne h2
    have : sciPrefix (Tok.text (.name lead segs)) = false := by
      cases lead with
      | false => exact sciPrefix_name _ c1 r1 (by simp [Tok.text, hcr]) (Or.inl hc1)
      | true => exact sciPrefix_name _ '.' (c1 :: r1) (by simp [Tok.text, hcr]) (Or.inr ⟨rfl, c1, r1, rfl, hc1⟩)
    simp [sciGlues, this]
  | num neg ip fp ex => simp [sciGlues, isE_digit _ (num_last_digit neg ip fp ex h)]
  | op o => simp [Tok.isWord] at hw
  | punct c => simp [Tok.isWord] at hw

theorem negStart_word (t : Tok) (hw : t.isWord = true) (h : t.wf = true) : negStart t.text = t.isSigned := by
  cases t with
  | name lead segs =>
    simp only [Tok.wf, Bool.and_eq_true, Bool.not_eq_true', List.all_eq_true] at h
    obtain ⟨⟨⟨h1, h2⟩, _⟩, _⟩ := h
    have hne : segs ≠ [] := by intro he; rw [he] at h1; simp at h1
    obtain ⟨c1, r1, hcr, hc1⟩ := dotted_head segs hne h2
    have hm : c1 ≠ '-' := (letter_facts c1 hc1).2.2.2.2.2.2
    cases lead <;> simp [negStart, Tok.text, Tok.isSigned, hcr, hm]
  | num neg ip fp ex =>
    simp only [Tok.wf, Bool.and_eq_true] at h
    obtain ⟨hne, hd⟩ := (isDigits_iff ip).1 h.1.1
    cases ip with
    | nil => exact absurd rfl hne
    | cons d r =>
      have hdm : d ≠ '-' := (isDig_facts d (hd d (by simp))).2.2.2.2.2.2.1
      cases neg <;> simp [negStart, Tok.text, Tok.isSigned, hdm]
  | op o => simp [Tok.isWord] at hw
  | punct c => simp [Tok.isWord] at hw

theorem sciGlues_nil (l c : Char) : sciGlues [] l c = false := by simp [sciGlues, sciPrefix, utf8Len]

theorem opTexts_no_dot : Spacing.opTexts.all (fun o => o.headD '\x00' != '.') = true := by decide

/-- a token that starts with a dot is a path with a leading dot: a letter follows -/
theorem tok_dot_start (R : Tok) (hR : R.wf = true) (h : R.first = '.') :
    ∃ x rest, R.text = '.' :: x :: rest ∧ isDig x = false := by
  cases R with
  | name lead segs =>
    simp only [Tok.wf, Bool.and_eq_true, Bool.not_eq_true', List.all_eq_true] at hR
    obtain ⟨⟨⟨h1, h2⟩, _⟩, _⟩ := hR
    have hne : segs ≠ [] := by intro he; rw [he] at h1; simp at h1
    obtain ⟨c1, r1, hcr, hc1⟩ := dotted_head segs hne h2
    cases lead with
    | true => exact ⟨c1, r1, by simp [Tok.text, hcr], (letter_facts c1 hc1).2.2.1⟩
    | false =>
      exfalso
      have hd : c1 ≠ '.' := (idc_facts c1 (by simp [idc, hc1])).2.2.2.2.1
      simp [Tok.first, Tok.text, hcr] at h
      exact hd h
  | num neg ip fp ex =>
    exfalso
    simp only [Tok.wf, Bool.and_eq_true] at hR
    obtain ⟨hne, hd⟩ := (isDigits_iff ip).1 hR.1.1
    cases ip with
    | nil => exact absurd rfl hne
    | cons d r =>
      have hdd := hd d (by simp)
      have hdot : d ≠ '.' := isDig_ne_dot d hdd
      cases neg <;> simp [Tok.first, Tok.text] at h
      exact hdot h
  | op o =>
    exfalso
    simp only [Tok.wf, List.contains_iff_mem] at hR
    have := List.all_eq_true.1 opTexts_no_dot o hR
    simp only [Tok.first, Tok.text] at h
    rw [h] at this
    exact absurd this (by decide)
  | punct c =>
    exfalso
    simp only [Tok.wf, List.contains_iff_mem] at hR
    have e : "()[]{},;".toList = ['(', ')', '[', ']', '{', '}', ',', ';'] := by decide
    rw [e] at hR
    simp only [Tok.first, Tok.text, List.headD_cons] at h
    subst h
    simp at hR

/-! ## the situation after a token -/

/-- `σ` is the situation after the token `L` written after the character `pb` -/
def Matches (σ : Sit) (pb : Char) (L : Tok) : Prop :=
  σ.l = L.last ∧
  match toPiece L with
  | .word w => σ.q = .norm w
  | .op1 o => σ.q = .op1 o pb
  | .slash => ∃ b, σ.q = .slash b
  | _ => σ.q = .norm []

theorem matches_after (σ : Sit) (g : List Char) (R : Tok) (hR : R.wf = true) :
    Matches (afterPiece σ g (toPiece R)) (Spacing.lastAfter σ.l g) R := by
  refine ⟨?_, ?_⟩
  · rw [afterPiece, afterFrom_l, toPiece_text R hR, lastOf_text _ R (tok_text_ne_nil R hR)]
  · rw [← lastOf_eq_lastAfter]
    unfold afterPiece
    cases toPiece R <;> simp [afterFrom]

/-- the conditions on a piece that starts on an empty buffer after the rune `l` -/
theorem startOK_nil (l : Char) (R : Tok) (hR : R.wf = true)
    (hs : R.isSigned = true → canStartSignedNumberAfter l = true) : startOK [] l (toPiece R) := by
  cases R with
  | name lead segs => exact ⟨rfl, fun hn => hs (by rw [← negStart_word _ rfl hR]; exact hn)⟩
  | num neg ip fp ex => exact ⟨rfl, fun hn => hs (by rw [← negStart_word _ rfl hR]; exact hn)⟩
  | op o =>
    have := (op_facts o hR).1
    show startOK [] l (opPiece o)
    cases hp : opPiece o <;> simp_all [startOK, sciGlues_nil, opPieceOK]
  | punct c => simp only [toPiece]; split <;> trivial

/-- **one step of the specification is one step of the lexer-level legality** -/
theorem stepOK_of_spec (σ : Sit) (pb : Char) (L : Tok) (hm : Matches σ pb L) (hL : L.wf = true)
    (g : List Char) (R : Tok) (hg : g.all Spacing.isBlank = true) (hR : R.wf = true)
    (ht : g = [] → Spacing.tightOK pb L R = true) : stepOK σ g (toPiece R) := by
  have hblank : ∀ c ∈ g, isBlank c = true := fun c hc => (isBlank_eq c) ▸ (List.all_eq_true.1 hg) c hc
  refine ⟨hblank, toPiece_ok R hR, ?_, ?_⟩
  · -- startOK
    cases g with
    | cons c g' =>
      have hb : baseOf σ (c :: g') = ([], σ.all) := by simp [baseOf]
      rw [hb]
      exact startOK_nil _ R hR (fun _ => canStart_blank _ (hblank _ (lastOf_mem σ.l c g')))
    | nil =>
      have ht' := ht rfl
      simp only [Spacing.tightOK, Bool.and_eq_true, Bool.not_eq_true', Bool.or_eq_true] at ht'
      obtain ⟨⟨⟨hW, hD⟩, hS⟩, hB⟩ := ht'
      obtain ⟨hl, hq⟩ := hm
      have hsigned : R.isSigned = true → canStartSignedNumberAfter σ.l = true := by
        intro hsg
        rcases hS with hS | hS
        · rw [hsg] at hS; cases hS
        · rw [hl, ← signMayFollow_eq]; exact hS
      obtain ⟨q, T, l⟩ := σ
      simp only [lastOf_nil]
      cases hLw : L.isWord with
      | true =>
        -- L is a word: the buffer holds it
        have hRw : R.isWord = false := by simpa [hLw] using hW
        have hqw : q = .norm L.text := by
          cases L with
          | name lead segs => simpa [toPiece] using hq
          | num neg ip fp ex => simpa [toPiece] using hq
          | op o => simp [Tok.isWord] at hLw
          | punct c => simp [Tok.isWord] at hLw
        subst hqw
        simp only [baseOf]
        simp only at hl
        cases R with
        | name lead segs => simp [Tok.isWord] at hRw
        | num neg ip fp ex => simp [Tok.isWord] at hRw
        | op o =>
          have := (op_facts o hR).1
          show startOK L.text l (opPiece o)
          rw [hl]
          cases hp : opPiece o <;> simp_all [startOK, word_no_sci L hLw hL, opPieceOK]
        | punct c => simp only [toPiece]; split <;> trivial
      | false =>
        have hb : (baseOf ⟨q, T, l⟩ []).1 = [] := by
          cases L with
          | name lead segs => simp [Tok.isWord] at hLw
          | num neg ip fp ex => simp [Tok.isWord] at hLw
          | op o =>
            simp only [toPiece] at hq
            cases hp : opPiece o with
            | word w =>
              have := (op_facts o hL).1
              rw [hp] at this; simp [opPieceOK] at this
            | op1 a => rw [hp] at hq; simp only at hq; subst hq; rfl
            | slash => rw [hp] at hq; obtain ⟨b, hq⟩ := hq; subst hq; rfl
            | _ => rw [hp] at hq; simp only at hq; subst hq; rfl
          | punct c =>
            have : q = .norm [] := by
              cases hcs : (c == ',' || c == ';') <;> simp only [toPiece, hcs] at hq <;> exact hq
            subst this; rfl
        rw [hb]
        exact startOK_nil l R hR hsigned
  · -- noGlue
    intro hg0
    subst hg0
    have ht' := ht rfl
    simp only [Spacing.tightOK, Bool.and_eq_true, Bool.not_eq_true', Bool.or_eq_true] at ht'
    obtain ⟨⟨⟨hW, hD⟩, hS⟩, hB⟩ := ht'
    obtain ⟨hl, hq⟩ := hm
    have hfirst : (toPiece R).text.headD '\x00' = R.first := by rw [toPiece_text R hR]; rfl
    unfold noGlue
    simp only [hfirst]
    cases L with
    | name lead segs => simp only [toPiece] at hq; rw [hq]; trivial
    | num neg ip fp ex => simp only [toPiece] at hq; rw [hq]; trivial
    | punct c =>
      have : σ.q = .norm [] := by
        cases hcs : (c == ',' || c == ';') <;> simp only [toPiece, hcs] at hq <;> exact hq
      rw [this]; trivial
    | op o =>
      obtain ⟨hok, htext⟩ := op_facts o hL
      simp only [toPiece] at hq
      cases hp : opPiece o with
      | op1 a =>
        rw [hp] at hq htext; simp only at hq
        rw [hq]
        have ho : o = [a] := by simpa [Piece.text] using htext.symm
        subst ho
        have hlast : Tok.last (.op [a]) = a := rfl
        have hisop : Tok.isOp1 (.op [a]) = true := rfl
        rw [hisop, hlast] at hD
        simp only [Bool.true_and] at hD
        refine ⟨?_, ?_, ?_⟩
        · rw [Bool.eq_false_iff]; intro hmm
          rw [digraph_of_opMerges a _ hmm] at hD; cases hD
        rotate_left
        · intro hdg
          simp only [dotGlues, Bool.and_eq_true, beq_iff_eq] at hdg
          rw [toPiece_text R hR]
          exact tok_dot_start R hR hdg.2
        · simp only [signGlues]
          rw [Bool.eq_false_iff]; intro hsg
          simp only [Bool.and_eq_true, beq_iff_eq] at hsg
          obtain ⟨⟨ha, hp1⟩, hd⟩ := hsg
          subst ha
          have : (Tok.text (.op ['-']) == ['-'] && Spacing.isDigit R.first && Spacing.signMayFollow pb) = true := by
            rw [signMayFollow_eq, isDigit_eq, hp1, hd]; rfl
          rw [this] at hB; cases hB
      | slash =>
        rw [hp] at hq htext
        obtain ⟨b, hq⟩ := hq
        rw [hq]
        have ho : o = ['/'] := by simpa [Piece.text] using htext.symm
        subst ho
        have hlast : Tok.last (.op ['/']) = '/' := rfl
        have hisop : Tok.isOp1 (.op ['/']) = true := rfl
        rw [hisop, hlast] at hD
        simp only [Bool.true_and] at hD
        refine ⟨?_, ?_, ?_⟩
        · intro he; rw [he, digraph_slash.1] at hD; cases hD
        · intro he; rw [he, digraph_slash.2] at hD; cases hD
        · rw [Bool.eq_false_iff]; intro hmm
          rw [digraph_of_opMerges '/' _ hmm] at hD; cases hD
      | word w => rw [hp] at hok; simp [opPieceOK] at hok
      | op2 a b => rw [hp] at hq; simp only at hq; rw [hq]; trivial
      | assign => rw [hp] at hq; simp only at hq; rw [hq]; trivial
      | brace c => rw [hp] at hok; simp [opPieceOK] at hok
      | sep c => rw [hp] at hok; simp [opPieceOK] at hok
      | str cs => rw [hp] at hok; simp [opPieceOK] at hok
      | chr v => rw [hp] at hok; simp [opPieceOK] at hok

def toItems (items : List Spacing.Item) : List Item := items.map (fun it => (it.1, toPiece it.2))

theorem legalAfter_legalFrom (items : List Spacing.Item) (σ : Sit) (pb : Char) (L : Tok) (hm : Matches σ pb L)
    (hL : L.wf = true) (h : Spacing.legalAfter pb L items = true) : LegalFrom σ (toItems items) := by
  induction items generalizing σ pb L with
  | nil => trivial
  | cons it rest ih =>
    obtain ⟨g, R⟩ := it
    simp only [Spacing.legalAfter, Bool.and_eq_true, Bool.or_eq_true, Bool.not_eq_true'] at h
    obtain ⟨⟨⟨hg, hR⟩, ht⟩, hrest⟩ := h
    refine ⟨stepOK_of_spec σ pb L hm hL g R hg hR ?_, ?_⟩
    · intro hg0
      rcases ht with ht | ht
      · rw [hg0] at ht; cases ht
      · exact ht
    · have hm' := matches_after σ g R hR
      rw [hm.1] at hm'
      exact ih _ _ R hm' hR hrest

/-- **the character-level specification implies the lexer-level legality** -/
theorem legal_legalFrom (items : List Spacing.Item) (T : List Token) (l0 : Char) (h : Spacing.legal l0 items = true) :
    LegalFrom ⟨.norm [], T, l0⟩ (toItems items) := by
  cases items with
  | nil => trivial
  | cons it rest =>
    obtain ⟨g, R⟩ := it
    simp only [Spacing.legal, Bool.and_eq_true, Bool.or_eq_true, Bool.not_eq_true'] at h
    obtain ⟨⟨⟨hg, hR⟩, hs⟩, hrest⟩ := h
    have hblank : ∀ c ∈ g, isBlank c = true := fun c hc => (isBlank_eq c) ▸ (List.all_eq_true.1 hg) c hc
    refine ⟨⟨hblank, toPiece_ok R hR, ?_, fun _ => trivial⟩, ?_⟩
    · have hb : (baseOf ⟨.norm [], T, l0⟩ g).1 = [] := by cases g <;> rfl
      rw [hb]
      apply startOK_nil _ R hR
      intro hsg
      rcases hs with hs | hs
      · rw [hsg] at hs; cases hs
      · rw [lastOf_eq_lastAfter, ← signMayFollow_eq]; exact hs
    · have hm' := matches_after ⟨.norm [], T, l0⟩ g R hR
      exact legalAfter_legalFrom rest _ _ R hm' hR hrest

theorem renderItems_toItems (items : List Spacing.Item) (h : ∀ it ∈ items, it.2.wf = true) :
    renderItems (toItems items) = Spacing.renderItems items := by
  induction items with
  | nil => rfl
  | cons it rest ih =>
    obtain ⟨g, R⟩ := it
    simp only [toItems, List.map_cons, renderItems, Spacing.renderItems]
    rw [toPiece_text R (h (g, R) (by simp))]
    have := ih (fun x hx => h x (by simp [hx]))
    simp only [toItems] at this
    rw [this]

theorem itemToks_toItems (items : List Spacing.Item) (h : ∀ it ∈ items, it.2.wf = true) :
    itemToks (toItems items) = items.map (fun it => expTok it.2) := by
  induction items with
  | nil => rfl
  | cons it rest ih =>
    obtain ⟨g, R⟩ := it
    have := ih (fun x hx => h x (by simp [hx]))
    simp only [itemToks, toItems, List.map_cons, List.flatMap_cons] at this ⊢
    rw [toPiece_toks R (h (g, R) (by simp)), this]
    rfl

theorem legal_wf (l0 : Char) (items : List Spacing.Item) (h : Spacing.legal l0 items = true) : ∀ it ∈ items, it.2.wf = true := by
  have aux : ∀ (items : List Spacing.Item) (pb : Char) (L : Tok), Spacing.legalAfter pb L items = true → ∀ it ∈ items, it.2.wf = true := by
    intro items
    induction items with
    | nil => intro _ _ _ it hit; cases hit
    | cons it rest ih =>
      intro pb L h x hx
      obtain ⟨g, R⟩ := it
      simp only [Spacing.legalAfter, Bool.and_eq_true] at h
      rw [List.mem_cons] at hx
      rcases hx with rfl | hx
      · exact h.1.1.2
      · exact ih _ _ h.2 x hx
  cases items with
  | nil => intro it hit; cases hit
  | cons it rest =>
    obtain ⟨g, R⟩ := it
    simp only [Spacing.legal, Bool.and_eq_true] at h
    intro x hx
    rw [List.mem_cons] at hx
    rcases hx with rfl | hx
    · exact h.1.1.2
    · exact aux rest _ _ h.2 x hx

/-- **lex_spacing**: for every token sequence and every legal spacing of it (`Spec/Spacing.lean`),
the lexer model, started in LexerNormal with an empty buffer after the rune `l0`, reads the
rendered text followed by a blank as exactly the tokens of the sequence, one lexer token of the
expected type per specification token, and is left with nothing pending. -/
theorem lex_spacing (items : List Spacing.Item) (l0 c : Char) (hc : Spacing.isBlank c = true)
    (h : Spacing.legal l0 items = true) (T : List Token) :
    Lex ⟨.normal, [], T, l0⟩ (Spacing.renderItems items ++ [c]) ⟨.normal, [], T ++ items.map (fun it => expTok it.2), c⟩ := by
  have hwf := legal_wf l0 items h
  have := lex_spacing_blank (toItems items) T l0 c hc (legal_legalFrom items T l0 h)
  rwa [renderItems_toItems items hwf, itemToks_toItems items hwf] at this

end ZygoVerif.Lexer
