/-
C02, execution half — F2c: self tail calls.

A call of the function being compiled, in tail position, is compiled as `tailGuard` (is the name still
the running function object?), the operands inline, `prepareCall`, `removeScope`s down to below the
function scope, `goto 0` — and behind the jump the ordinary call the guard skips to. Guard passes:
the re-entered activation is the ordinary application of the same closure (`FClaimU`), and the whole
activation returns its value (`RetOut`: the code of the call does not land at its own end). Guard
fails: the ordinary call.
-/
import ZygoVerif.Proofs.SimF2BrkFor
import ZygoVerif.Proofs.TailVM
set_option linter.unusedSimpArgs false
set_option linter.unusedVariables false
namespace ZygoVerif.Sim
open ZygoVerif.Core ZygoVerif.VM

/-! ## The generator on tail positions (`Fz`) -/

theorem gsOk_nil {gs : GS} (h : gs.loopstack = []) : GsOk [] gs := ⟨by simp [h], fun _ h => by cases h⟩

theorem lsIn_tailCode {h : String} {sc : Nat} {args : List Expr} {code : List Instr} {a b : Nat} (hc : LsIn code a b) :
    LsIn (tailCode h sc args code) a b := by
  intro l hl
  simp [tailCode, List.mem_replicate] at hl
  exact hc l hl

theorem compileCallArgs_total_ls : ∀ (self : String) (args : List Expr), FfList false self args = true →
    ∀ isFn c f i gs, FnameOk self c →
    ∃ code gs', (compileCallArgs isFn c f i args).run gs = .ok (code, gs') ∧ TotX gs gs' code
  | _, [], _, isFn, c, f, i, gs, _ =>
    ⟨[], gs, by rw [compileCallArgs.eq_def]; rfl, KeepFns.refl _, Nat.le_refl _, LsIn.nil _ _⟩
  | self, e :: es, he, isFn, c, f, i, gs, hfn => by
    rw [FfList] at he
    simp only [Bool.and_eq_true] at he
    obtain ⟨a, t, g1, ha, _, hk1⟩ := compile_total_Ff false self e he.1 isFn c gs hfn
    have hl1 := compile_ls_Ff false self e he.1 isFn c gs _ ha hfn
    have key : ∀ (b : Bool), ∃ code gs', (do
          let a ← (if b = true then pure [Instr.pushLazy e] else (do let (a, _) ← compile isFn c e; pure a) : G (List Instr))
          let r ← compileCallArgs isFn c f (i + 1) es
          pure (a ++ r) : G (List Instr)).run gs = .ok (code, gs') ∧ TotX gs gs' code := by
      intro b
      cases b
      · obtain ⟨r, g2, hr, hk2⟩ := compileCallArgs_total_ls self es he.2 isFn c f (i + 1) g1 hfn
        refine ⟨a ++ r, g2, ?_, TotX.seq ⟨hk1.1, hl1⟩ hk2 (fun x y hx hy => hx.app hy)⟩
        simp only [Bool.false_eq_true, if_false, g_bind_ok, g_pure_ok]
        exact ⟨_, _, ⟨_, _, ha, rfl⟩, _, _, hr, rfl⟩
      · obtain ⟨r, g2, hr, hk2⟩ := compileCallArgs_total_ls self es he.2 isFn c f (i + 1) gs hfn
        refine ⟨[.pushLazy e] ++ r, g2, ?_, hk2.1, hk2.2.1, ?_⟩
        · simp only [if_true, g_bind_ok, g_pure_ok]
          exact ⟨_, _, rfl, _, _, hr, rfl⟩
        · have := hk2.2.2
          lsin
    rw [compileCallArgs.eq_def]
    exact key _

/-- a call in tail position: an ordinary call, or (own name, right arity) the tail sequence -/
theorem compile_total_call_ls {self h : String} {args : List Expr} (hh : (h != "") = true) (hhead : okHead h = true)
    (hself : (h != self) = true ∨ FfList false self args = true) (isFn : Nat → Bool) (c : Ctx) (gs : GS) (hfn : FnameOk self c) :
    ∃ code gs', (compile isFn c (.call (.sym h) args)).run gs = .ok ((code, c.tail), gs') ∧ code ≠ [] ∧ TotX gs gs' code := by
  rw [compile_call_eq]
  by_cases hc : (c.tail && h == c.funcname) = true ∧ arityOk (knownFn c gs h) args.length = true
  · rw [if_pos hc]
    have hhc : h = c.funcname := by have := hc.1; simp only [Bool.and_eq_true, beq_iff_eq] at this; exact this.2
    have hargs : FfList false self args = true := by
      rcases hself with hne | ha
      · have := ff_call_ne hfn hne hh hhead
        rw [← hhc] at this; simp at this
      · exact ha
    have hfn' : FnameOk self { c with tail := false } := hfn
    obtain ⟨code, g1, hcode, hk⟩ := compileCallArgs_total_ls self args hargs isFn { c with tail := false } (knownFn c gs h) 0 gs hfn'
    refine ⟨tailCode h c.scopes args code, g1, ?_, tailCode_ne_nil _ _ _ _, hk.1, hk.2.1, lsIn_tailCode hk.2.2⟩
    have : (compileCallArgs isFn { c with tail := false } (knownFn c gs h) 0 args).run gs = .ok (code, g1) := hcode
    rw [this]
  · rw [if_neg hc]
    exact ⟨_, gs, rfl, by simp, KeepFns.refl _, Nat.le_refl _, by lsin⟩

/-- a statement before the last one of a body: a form of F2 resp. Fx -/
theorem total_stmt0 {ex : Bool} {self : String} {e : Expr} (he : (if ex then Fx [] self e else Ff true self e) = true)
    (isFn : Nat → Bool) (c : Ctx) (gs : GS) (hfn : FnameOk self c) (hex : ex = true → gs.loopstack = []) :
    ∃ code t gs', (compile isFn c e).run gs = .ok ((code, t), gs') ∧ code ≠ [] ∧ TotX gs gs' code := by
  cases ex with
  | false => exact total_of_Ff (by simpa using he) isFn c gs hfn
  | true => exact compile_total_Fx [] self e (by simpa using he) isFn c gs [] hfn (gsOk_nil (hex rfl)) rfl

mutual
theorem compile_total_Fz : ∀ (ex : Bool) (self : String) (e : Expr), Fz ex self e = true → ∀ isFn c gs, FnameOk self c →
    (ex = true → gs.loopstack = []) →
    ∃ code t gs', (compile isFn c e).run gs = .ok ((code, t), gs') ∧ code ≠ [] ∧ TotX gs gs' code
  | ex, self, .call f args, he, isFn, c, gs, hfn, hex => by
    cases f with
    | sym h =>
      rw [Fz] at he
      simp only [Bool.and_eq_true, Bool.or_eq_true] at he
      obtain ⟨code, g1, h1, h2, h3⟩ := compile_total_call_ls he.1.1.1 he.1.1.2 he.2 isFn c gs hfn
      exact ⟨code, _, g1, h1, h2, h3⟩
    | _ =>
      rw [fz_call_nonsym (fun _ hh => by cases hh)] at he
      exact total_of_Ff he isFn c gs hfn
  | ex, self, .begin_ es, he, isFn, c, gs, hfn, hex => by
    rw [Fz] at he
    cases es with
    | nil => exact ⟨[.push .nil], c.tail, gs, by rw [compile]; rfl, by simp, KeepFns.refl _, Nat.le_refl _, by lsin⟩
    | cons e0 es0 =>
      rw [compile]
      · exact compileBegin_total_Fz ex self (e0 :: es0) (by simp) he isFn c gs hfn hex
      · intro hh; cases hh
  | ex, self, .cond arms d, he, isFn, c, gs, hfn, hex => by
    rw [Fz] at he
    simp only [Bool.and_eq_true] at he
    obtain ⟨dc, t, g1, hd, hdne, hf1⟩ := compile_total_Fz ex self d he.2 isFn c gs hfn hex
    obtain ⟨as, g2, has, hf2, hl2, hin2⟩ := compileArms_total_Fz ex self arms he.1 isFn c g1 hfn
      (fun h => by rw [hf1.1.loopstack]; exact hex h)
    refine ⟨asmCond as dc, c.tail, g2, ?_, asmCond_ne_nil as dc hdne, hf1.1.trans hf2, Nat.le_trans hf1.2.1 hl2, ?_⟩
    · rw [compile]
      simp only [g_bind_ok, g_pure_ok]
      exact ⟨_, _, hd, _, _, has, rfl⟩
    · exact lsIn_asmCond _ _ (fun p hp => ⟨(hin2 p hp).1.mono hf1.2.1 (Nat.le_refl _),
        (hin2 p hp).2.mono hf1.2.1 (Nat.le_refl _)⟩) (hf1.2.2.mono (Nat.le_refl _) hl2)
  | ex, self, .let_ seq bs body, he, isFn, c, gs, hfn, hex => by
    rw [Fz] at he
    simp only [Bool.and_eq_true, Bool.not_eq_true', List.isEmpty_eq_false_iff] at he
    obtain ⟨⟨⟨_, hbody⟩, hbs⟩, hbl⟩ := he
    have hfn' : FnameOk self { c with scopes := c.scopes + 1, tail := false } := hfn
    obtain ⟨rhs, t1, g1, h1, hf1⟩ := compileBinds_total_Ff true self bs hbs isFn { c with scopes := c.scopes + 1, tail := false } seq gs hfn'
    have hl1 := compileBinds_ls_Ff true self bs hbs isFn _ seq gs _ h1 hfn'
    obtain ⟨b, t2, g2, h2, _, hf2⟩ := compileBegin_total_Fz ex self body hbody hbl isFn { c with scopes := c.scopes + 1 } g1 hfn
      (fun h => by rw [hf1.1.loopstack]; exact hex h)
    refine ⟨[.addScope] ++ rhs ++ (if seq then [] else (bs.map (fun p => Instr.popStackPutEnv p.1)).reverse)
      ++ b ++ [.removeScope], t2, g2, ?_, by simp, TotX.seq ⟨hf1.1, hl1⟩ hf2 (fun x y hx hy => ?_)⟩
    · rw [compile]
      simp only [g_bind_ok, g_pure_ok]
      exact ⟨_, _, h1, _, _, h2, rfl⟩
    · have h5 : LsIn (bs.map (fun p => Instr.popStackPutEnv p.1)).reverse x y := by
        intro l hl
        simp only [List.mem_reverse, List.mem_map] at hl
        obtain ⟨_, _, hh⟩ := hl; cases hh
      lsin
  | ex, self, .newScope es, he, isFn, c, gs, hfn, hex => by
    rw [Fz] at he
    simp only [Bool.and_eq_true, Bool.not_eq_true', List.isEmpty_eq_false_iff] at he
    obtain ⟨code, t, g1, h1, _, hf1⟩ := compileNewScope_total_Fz ex self es he.1 he.2 isFn { c with scopes := c.scopes + 1 }
      c.tail gs hfn hex
    refine ⟨[.addScope] ++ code ++ [.removeScope], t, g1, ?_, by simp, hf1.1, hf1.2.1, ?_⟩
    · cases es with
      | nil => exact absurd rfl he.1
      | cons e es =>
        rw [compile]
        · simp only [g_bind_ok, g_pure_ok]
          exact ⟨_, _, h1, rfl⟩
        · intro hh; cases hh
    · have := hf1.2.2
      lsin
  | ex, self, .for_ l i t st b, he, isFn, c, gs, hfn, hex => by
    rw [Fz] at he
    exact total_stmt0 he isFn c gs hfn hex
  | ex, self, .int v, he, isFn, c, gs, hfn, hex | ex, self, .bool v, he, isFn, c, gs, hfn, hex
  | ex, self, .str v, he, isFn, c, gs, hfn, hex | ex, self, .nilLit, he, isFn, c, gs, hfn, hex
  | ex, self, .sym x, he, isFn, c, gs, hfn, hex | ex, self, .arr es, he, isFn, c, gs, hfn, hex
  | ex, self, .def_ x e, he, isFn, c, gs, hfn, hex | ex, self, .set_ x e, he, isFn, c, gs, hfn, hex
  | ex, self, .and_ es, he, isFn, c, gs, hfn, hex | ex, self, .or_ es, he, isFn, c, gs, hfn, hex => by
    rw [Fz] at he
    exact total_of_Ff he isFn c gs hfn
  | ex, self, .fn ps rest body, he, isFn, c, gs, hfn, hex => by
    rw [Fz] at he
    simp only [Bool.or_eq_true] at he
    rcases he with he | he
    · exact total_of_Ff he isFn c gs hfn
    · simp only [Bool.and_eq_true, decide_eq_true_eq, Bool.not_eq_true', List.isEmpty_eq_false_iff] at he
      obtain ⟨b, tl, g2, hb, _, hk2⟩ := compileBegin_total_Fz ex "" body he.1.2 he.2 isFn (anonCtx c gs)
        (gsAlloc isFn gs s!"__anon{gs.fns.length}" ps rest) (anonCtx_funcname c gs) hex
      exact ⟨_, _, _, compile_fn_eq isFn c ps rest body gs g2 b tl hb, by simp,
        keepFns_fin isFn gs g2 _ ps rest b hk2.1, hk2.2.1, by lsin⟩
  | ex, self, .defn name ps rest body, he, isFn, c, gs, hfn, hex => by
    rw [Fz] at he
    simp only [Bool.or_eq_true] at he
    rcases he with he | he
    · exact total_of_Ff he isFn c gs hfn
    · simp only [Bool.and_eq_true, bne_iff_ne, ne_eq, decide_eq_true_eq, Bool.not_eq_true', List.isEmpty_eq_false_iff] at he
      obtain ⟨b, tl, g2, hb, _, hk2⟩ := compileBegin_total_Fz ex name body he.1.2 he.2 isFn (bodyCtx c gs name ps rest body)
        (gsAlloc isFn gs name ps rest) (bodyCtx_funcname c gs name ps rest body) hex
      exact ⟨_, _, _, compile_defn_eq isFn c name ps rest body gs g2 b tl he.1.1.1.1.2 hb, by simp,
        keepFns_fin isFn gs g2 _ ps rest b hk2.1, hk2.2.1, by lsin⟩
  | ex, self, .assign _ _, he, _, _, _, _, _ | ex, self, .bad _, he, _, _, _, _, _
  | ex, self, .break_ _, he, _, _, _, _, _ | ex, self, .continue_ _, he, _, _, _, _, _ => by
    simp [Fz] at he
/-- a statement before the last one of a body -/
theorem total_stmt : ∀ (ex : Bool) (self : String) (e : Expr), Fs ex self e = true → ∀ isFn c gs, FnameOk self c →
    (ex = true → gs.loopstack = []) →
    ∃ code t gs', (compile isFn c e).run gs = .ok ((code, t), gs') ∧ code ≠ [] ∧ TotX gs gs' code
  | ex, self, .defn name ps rest body, he, isFn, c, gs, hfn, hex => by
    rw [Fs] at he
    simp only [Bool.or_eq_true] at he
    rcases he with he | he
    · exact total_stmt0 he isFn c gs hfn hex
    · simp only [Bool.and_eq_true, bne_iff_ne, ne_eq, decide_eq_true_eq, Bool.not_eq_true', List.isEmpty_eq_false_iff] at he
      obtain ⟨b, tl, g2, hb, _, hk2⟩ := compileBegin_total_Fz ex name body he.1.2 he.2 isFn (bodyCtx c gs name ps rest body)
        (gsAlloc isFn gs name ps rest) (bodyCtx_funcname c gs name ps rest body) hex
      exact ⟨_, _, _, compile_defn_eq isFn c name ps rest body gs g2 b tl he.1.1.1.1.2 hb, by simp,
        keepFns_fin isFn gs g2 _ ps rest b hk2.1, hk2.2.1, by lsin⟩
  | ex, self, .fn ps rest body, he, isFn, c, gs, hfn, hex => by
    rw [Fs] at he
    simp only [Bool.or_eq_true] at he
    rcases he with he | he
    · exact total_stmt0 he isFn c gs hfn hex
    · simp only [Bool.and_eq_true, decide_eq_true_eq, Bool.not_eq_true', List.isEmpty_eq_false_iff] at he
      obtain ⟨b, tl, g2, hb, _, hk2⟩ := compileBegin_total_Fz ex "" body he.1.2 he.2 isFn (anonCtx c gs)
        (gsAlloc isFn gs s!"__anon{gs.fns.length}" ps rest) (anonCtx_funcname c gs) hex
      exact ⟨_, _, _, compile_fn_eq isFn c ps rest body gs g2 b tl hb, by simp,
        keepFns_fin isFn gs g2 _ ps rest b hk2.1, hk2.2.1, by lsin⟩
  | ex, self, .call _ _, he, isFn, c, gs, hfn, hex | ex, self, .begin_ _, he, isFn, c, gs, hfn, hex
  | ex, self, .cond _ _, he, isFn, c, gs, hfn, hex | ex, self, .newScope _, he, isFn, c, gs, hfn, hex
  | ex, self, .let_ _ _ _, he, isFn, c, gs, hfn, hex | ex, self, .for_ _ _ _ _ _, he, isFn, c, gs, hfn, hex
  | ex, self, .int _, he, isFn, c, gs, hfn, hex | ex, self, .bool _, he, isFn, c, gs, hfn, hex
  | ex, self, .str _, he, isFn, c, gs, hfn, hex | ex, self, .nilLit, he, isFn, c, gs, hfn, hex
  | ex, self, .sym _, he, isFn, c, gs, hfn, hex | ex, self, .arr _, he, isFn, c, gs, hfn, hex
  | ex, self, .def_ _ _, he, isFn, c, gs, hfn, hex | ex, self, .set_ _ _, he, isFn, c, gs, hfn, hex
  | ex, self, .and_ _, he, isFn, c, gs, hfn, hex | ex, self, .or_ _, he, isFn, c, gs, hfn, hex
  | ex, self, .assign _ _, he, isFn, c, gs, hfn, hex
  | ex, self, .bad _, he, isFn, c, gs, hfn, hex | ex, self, .break_ _, he, isFn, c, gs, hfn, hex
  | ex, self, .continue_ _, he, isFn, c, gs, hfn, hex => by
    rw [Fs] at he
    exact total_stmt0 he isFn c gs hfn hex
theorem compileBegin_total_Fz : ∀ (ex : Bool) (self : String) (es : List Expr), es ≠ [] → FzList ex self es = true →
    ∀ isFn c gs, FnameOk self c → (ex = true → gs.loopstack = []) →
    ∃ code t gs', (compileBegin isFn c es).run gs = .ok ((code, t), gs') ∧ code ≠ [] ∧ TotX gs gs' code
  | _, _, [], hne, _, _, _, _, _, _ => absurd rfl hne
  | ex, self, [e], _, he, isFn, c, gs, hfn, hex => by
    rw [FzList] at he
    rw [compileBegin]
    exact compile_total_Fz ex self e he isFn c gs hfn hex
  | ex, self, e :: e' :: es, _, he, isFn, c, gs, hfn, hex => by
    rw [FzList] at he
    simp only [Bool.and_eq_true] at he
    have hfn' : FnameOk self { c with tail := false } := hfn
    obtain ⟨a, ta, g1, ha, hane, hf1⟩ := total_stmt ex self e he.1 isFn { c with tail := false } gs hfn' hex
    obtain ⟨b, tb, g2, hb, _, hf2⟩ := compileBegin_total_Fz ex self (e' :: es) (by simp) he.2 isFn c g1 hfn
      (fun h => by rw [hf1.1.loopstack]; exact hex h)
    refine ⟨a ++ (if a.isEmpty then [] else [.pop]) ++ b, tb, g2, ?_, by simp [hane],
      TotX.seq hf1 hf2 (fun x y hx hy => by lsin)⟩
    rw [compileBegin]
    · simp only [g_bind_ok, g_pure_ok]
      exact ⟨_, _, ha, _, _, hb, rfl⟩
    · intro hh; cases hh
theorem compileNewScope_total_Fz : ∀ (ex : Bool) (self : String) (es : List Expr), es ≠ [] → FzList ex self es = true →
    ∀ isFn c oldtail gs, FnameOk self c → (ex = true → gs.loopstack = []) →
    ∃ code t gs', (compileNewScope isFn c oldtail es).run gs = .ok ((code, t), gs') ∧ code ≠ [] ∧ TotX gs gs' code
  | _, _, [], hne, _, _, _, _, _, _, _ => absurd rfl hne
  | ex, self, [e], _, he, isFn, c, oldtail, gs, hfn, hex => by
    rw [FzList] at he
    rw [compileNewScope]
    exact compile_total_Fz ex self e he isFn _ gs hfn hex
  | ex, self, e :: e' :: es, _, he, isFn, c, oldtail, gs, hfn, hex => by
    rw [FzList] at he
    simp only [Bool.and_eq_true] at he
    have hfn' : FnameOk self { c with tail := false } := hfn
    obtain ⟨a, ta, g1, ha, hane, hf1⟩ := total_stmt ex self e he.1 isFn { c with tail := false } gs hfn' hex
    obtain ⟨b, tb, g2, hb, _, hf2⟩ := compileNewScope_total_Fz ex self (e' :: es) (by simp) he.2 isFn c oldtail g1 hfn
      (fun h => by rw [hf1.1.loopstack]; exact hex h)
    refine ⟨a ++ [.pop] ++ b, tb, g2, ?_, by simp, TotX.seq hf1 hf2 (fun x y hx hy => by lsin)⟩
    rw [compileNewScope]
    · simp only [g_bind_ok, g_pure_ok]
      exact ⟨_, _, ha, _, _, hb, rfl⟩
    · intro hh; cases hh
theorem compileArms_total_Fz : ∀ (ex : Bool) (self : String) (arms : List (Expr × Expr)), FzArms ex self arms = true →
    ∀ isFn c gs, FnameOk self c → (ex = true → gs.loopstack = []) →
    ∃ as gs', (compileArms isFn c arms).run gs = .ok (as, gs') ∧ KeepFns gs gs' ∧ gs.loops.length ≤ gs'.loops.length
      ∧ ∀ p ∈ as, LsIn p.1 gs.loops.length gs'.loops.length ∧ LsIn p.2 gs.loops.length gs'.loops.length
  | _, _, [], _, isFn, c, gs, _, _ =>
    ⟨[], gs, by rw [compileArms]; rfl, KeepFns.refl _, Nat.le_refl _, fun _ h => by cases h⟩
  | ex, self, (p, b) :: arms, he, isFn, c, gs, hfn, hex => by
    rw [FzArms] at he
    simp only [Bool.and_eq_true] at he
    have hfn' : FnameOk self { c with tail := false } := hfn
    obtain ⟨r, g1, hr, hf1, hl1, hin1⟩ := compileArms_total_Fz ex self arms he.2 isFn c gs hfn hex
    obtain ⟨pc, _, g2, hp, _, hf2⟩ := total_of_Ff he.1.1 isFn { c with tail := false } g1 hfn'
    obtain ⟨bc, _, g3, hb, _, hf3⟩ := compile_total_Fz ex self b he.1.2 isFn c g2 hfn
      (fun h => by rw [hf2.1.loopstack, hf1.loopstack]; exact hex h)
    refine ⟨(pc, bc) :: r, g3, ?_, (hf1.trans hf2.1).trans hf3.1, Nat.le_trans hl1 (Nat.le_trans hf2.2.1 hf3.2.1), fun x hx => ?_⟩
    · rw [compileArms]
      simp only [g_bind_ok, g_pure_ok]
      exact ⟨_, _, hr, _, _, hp, _, _, hb, rfl⟩
    · rcases List.mem_cons.mp hx with rfl | hx
      · exact ⟨hf2.2.2.mono hl1 hf3.2.1, hf3.2.2.mono (Nat.le_trans hl1 hf2.2.1) (Nat.le_refl _)⟩
      · exact ⟨(hin1 x hx).1.mono (Nat.le_refl _) (Nat.le_trans hf2.2.1 hf3.2.1),
          (hin1 x hx).2.mono (Nat.le_refl _) (Nat.le_trans hf2.2.1 hf3.2.1)⟩
end

theorem tot_stmt {ex : Bool} {self : String} {e : Expr} (he : Fs ex self e = true)
    {isFn c gs r} (hfn : FnameOk self c) (hex : ex = true → gs.loopstack = []) (h : (compile isFn c e).run gs = .ok r) :
    r.1.1 ≠ [] ∧ TotX gs r.2 r.1.1 := by
  obtain ⟨code, t, g1, h1, hne, hk⟩ := total_stmt ex self e he isFn c gs hfn hex
  rw [h1] at h; injection h with h; subst h; exact ⟨hne, hk⟩

theorem compile_tot_Fz {ex : Bool} {self : String} {e : Expr} (he : Fz ex self e = true) {isFn c gs r} (hfn : FnameOk self c)
    (hex : ex = true → gs.loopstack = []) (h : (compile isFn c e).run gs = .ok r) : r.1.1 ≠ [] ∧ TotX gs r.2 r.1.1 := by
  obtain ⟨code, t, g1, h1, hne, hk⟩ := compile_total_Fz ex self e he isFn c gs hfn hex
  rw [h1] at h; injection h with h; subst h; exact ⟨hne, hk⟩

theorem compileBegin_tot_Fz {ex : Bool} {self : String} {es : List Expr} (hne : es ≠ []) (he : FzList ex self es = true)
    {isFn c gs r} (hfn : FnameOk self c) (hex : ex = true → gs.loopstack = []) (h : (compileBegin isFn c es).run gs = .ok r) :
    TotX gs r.2 r.1.1 := by
  obtain ⟨code, t, g1, h1, _, hk⟩ := compileBegin_total_Fz ex self es hne he isFn c gs hfn hex
  rw [h1] at h; injection h with h; subst h; exact hk

theorem compileNewScope_tot_Fz {ex : Bool} {self : String} {es : List Expr} (hne : es ≠ []) (he : FzList ex self es = true)
    {isFn c oldtail gs r} (hfn : FnameOk self c) (hex : ex = true → gs.loopstack = [])
    (h : (compileNewScope isFn c oldtail es).run gs = .ok r) : TotX gs r.2 r.1.1 := by
  obtain ⟨code, t, g1, h1, _, hk⟩ := compileNewScope_total_Fz ex self es hne he isFn c oldtail gs hfn hex
  rw [h1] at h; injection h with h; subst h; exact hk

theorem compileArms_tot_Fz {ex : Bool} {self : String} {arms : List (Expr × Expr)} (he : FzArms ex self arms = true)
    {isFn c gs r} (hfn : FnameOk self c) (hex : ex = true → gs.loopstack = []) (h : (compileArms isFn c arms).run gs = .ok r) :
    KeepFns gs r.2 ∧ gs.loops.length ≤ r.2.loops.length
      ∧ ∀ p ∈ r.1, LsIn p.1 gs.loops.length r.2.loops.length ∧ LsIn p.2 gs.loops.length r.2.loops.length := by
  obtain ⟨as, g1, h1, hk⟩ := compileArms_total_Fz ex self arms he isFn c gs hfn hex
  rw [h1] at h; injection h with h; subst h; exact hk

/-! ## The machine -/

/-- `removeScope` as often as there are scopes to drop -/
theorem reach_removeScopes : ∀ (extra : List (Option Nat)) (s : St) (P Q : List Instr) (rest : List (Option Nat)),
    (fnOf s s.curfunc).user = false → (fnOf s s.curfunc).code = P ++ List.replicate extra.length Instr.removeScope ++ Q →
    s.pc = (P.length : Int) → s.linear = extra ++ rest →
    ReachX s { s with pc := s.pc + (extra.length : Int), linear := rest }
  | [], s, P, Q, rest, hu, hc, hp, hl => by
    have : ({ s with pc := s.pc + (([] : List (Option Nat)).length : Int), linear := rest } : St) = s := by
      simp only [List.length_nil, Int.natCast_zero, Int.add_zero]
      rw [show rest = s.linear by simpa using hl.symm]
    rw [this]; exact ReachX.refl s
  | a :: extra, s, P, Q, rest, hu, hc, hp, hl => by
    have a1 : At s P .removeScope (List.replicate extra.length Instr.removeScope ++ Q) :=
      ⟨hu, by rw [hc]; simp [List.replicate_succ], hp⟩
    have r1 : ReachX s { s with pc := s.pc + 1, linear := extra ++ rest } :=
      (Reach.step a1 (fun f => by rw [exec_removeScope, hl]; rfl)).toX
    have r2 := reach_removeScopes extra { s with pc := s.pc + 1, linear := extra ++ rest } (P ++ [.removeScope]) Q rest hu
      (by show (fnOf s s.curfunc).code = _; rw [hc]; simp [List.replicate_succ])
      (by show s.pc + 1 = _; rw [hp]; simp) rfl
    have e : ({ ({ s with pc := s.pc + 1, linear := extra ++ rest } : St) with
        pc := ({ s with pc := s.pc + 1, linear := extra ++ rest } : St).pc + (extra.length : Int), linear := rest } : St)
        = { s with pc := s.pc + ((a :: extra).length : Int), linear := rest } := by
      simp only [List.length_cons]
      congr 1
      push_cast; omega
    rw [e] at r2
    exact r1.trans r2

/-- the state after `k` scopes were dropped -/
def dropped (s : St) (k : Nat) (lin : List (Option Nat)) : St := { s with pc := s.pc + (k : Int), linear := lin }

/-- a state with the return address on top of the address stack is the state `CallFunction` leaves -/
theorem entered_of (s : St) (f : Nat) (pc : Int) (a : List (Option (Nat × Int))) (vid : Nat) (h1 : s.curfunc = vid)
    (h2 : s.pc = 0) (h3 : s.addr = some (f, pc + 1) :: a) :
    entered { s with curfunc := f, pc := pc, addr := a } vid = s := by
  unfold entered
  cases s
  simp only at h1 h2 h3
  subst h1; subst h2; subst h3
  rfl

theorem enteredA_of (s : St) (f : Nat) (pc : Int) (a : List (Option (Nat × Int))) (vid : Nat) (rest : Option String) (nfix : Nat)
    (vs : List Val) (D dd : List (Option Val)) (h1 : s.curfunc = vid)
    (h2 : s.pc = 0) (h3 : s.addr = some (f, pc + 1) :: a) (h4 : s.data = argsData rest nfix vs D) :
    enteredA { s with curfunc := f, pc := pc, addr := a, data := dd } vid rest nfix vs D = s := by
  unfold enteredA entered
  cases s
  simp only at h1 h2 h3 h4
  subst h1; subst h2; subst h3; subst h4
  rfl

theorem arOk_congr {r₁ r₂ : Option String} {n₁ n₂ n : Nat} (h1 : r₁.isSome = r₂.isSome) (h2 : n₁ = n₂) :
    arOk r₁ n₁ n ↔ arOk r₂ n₂ n := by
  subst h2
  cases r₁ <;> cases r₂ <;> simp [arOk] at h1 ⊢

/-- `PrepareCall` on the tail path: the variadic tail of the running function is packed -/
theorem exec_prepareCall_clo (f : Nat) (x : String) (rest : Option String) (nfix : Nat) (vs : List Val) (D : List (Option Val))
    (s : St) (hd : s.data = vs.reverse.map some ++ D) (hu : (fnOf s s.curfunc).user = false)
    (hv : (fnOf s s.curfunc).varargs = rest.isSome) (hn : (fnOf s s.curfunc).nargs = nfix) (har : arOk rest nfix vs.length) :
    (exec (f + 1) (.prepareCall x vs.length)).run s = (.ok (), s.jmp (s.pc + 1) (argsData rest nfix vs D)) := by
  cases rest with
  | none =>
    rw [TailVM.exec_prepareCall_fixed f s x _ hv]
    unfold argsData bvals
    rw [← hd]; rfl
  | some r =>
    have hv' : (fnOf s s.curfunc).varargs = true := hv
    have har' : nfix ≤ vs.length := har
    rw [exec]
    simp only [run_bind, run_get, hu, hv', Bool.not_false, Bool.and_self, if_true, hn]
    unfold wrangleOptargs
    have hnlt2 : ¬ vs.length < nfix := by omega
    simp only [run_ite, if_neg hnlt2]
    by_cases hgt : vs.length > nfix
    · simp only [if_pos hgt, run_bind]
      have hsplit : s.data = (vs.drop nfix).reverse.map some ++ ((vs.take nfix).reverse.map some ++ D) := by
        rw [hd, ← List.append_assoc, ← List.map_append, ← List.reverse_append, List.take_append_drop]
      have hlen' : vs.length - nfix = (vs.drop nfix).length := by simp
      rw [hlen', run_popN _ _ s hsplit]
      simp only [run_pushData, run_incPc]
      unfold argsData bvals
      simp
      rfl
    · have heq : vs.length = nfix := by omega
      simp only [if_neg hgt, run_pushData, run_bind, run_incPc]
      have h1 : vs.drop nfix = [] := by rw [← heq]; simp
      have h2 : vs.take nfix = vs := by rw [← heq]; simp
      unfold argsData bvals
      rw [h1, h2]
      have e : (vs ++ [mkList []]).reverse.map some ++ D = some (mkList []) :: (vs.reverse.map some ++ D) := by simp
      rw [e, ← hd]; rfl

/-! ## The outcome "the activation returned" -/

/-- what `FClaimU` says of a whole call of the activation entered from `s₁`, seen from a state inside it -/
def RetOut (s₁ : St) (env : Nat) (D : List (Option Val)) (f₀ : Nat) (m : Nat → Nat) (s : St) (rs : Ref.St) (v' : Val) (rs' : Ref.St) :
    Prop :=
  ∃ (s' : St) (m' : Nat → Nat) (v : Val), ReachX s s' ∧ s'.pc = s₁.pc + 1 ∧ s'.data = some v :: D ∧ v' = trf m' v
    ∧ RelF m' (s'.withCur f₀) rs' env ∧ MExt s m m' ∧ RExt rs rs' ∧ FrameF s₁ s' ∧ VOk m' s' rs' v

theorem RetOut.of_reach {s₁ : St} {env : Nat} {D : List (Option Val)} {f₀ : Nat} {m m₂ : Nat → Nat} {s s₂ : St} {rs rs₂ rs' : Ref.St}
    {v' : Val} (hr : ReachX s s₂) (hm : MExt s m m₂) (hfl : s.fns.length ≤ s₂.fns.length) (hext : RExt rs rs₂)
    (h : RetOut s₁ env D f₀ m₂ s₂ rs₂ v' rs') : RetOut s₁ env D f₀ m s rs v' rs' := by
  obtain ⟨s', m', v, r, hpc, hd, hv, rel, hm', ext, fr, hcl⟩ := h
  exact ⟨s', m', v, hr.trans r, hpc, hd, hv, rel, hm.trans hm' hfl, hext.trans ext, fr, hcl⟩

/-- as `SimF`; a value may also be delivered by the return of the whole activation -/
def SimT (code : List Instr) (s₁ : St) (env : Nat) (D : List (Option Val)) (f₀ : Nat) (m : Nat → Nat) (s : St) (rs : Ref.St)
    (cenv : Nat) (res : Ref.R Val) : Prop :=
  match res with
  | .ok v' rs' => (∃ s' m' v, ReachX s s' ∧ Lands code.length v s s' ∧ v' = trf m' v ∧ RelF m' s' rs' cenv
      ∧ MExt s m m' ∧ RExt rs rs' ∧ FrameF s s' ∧ VOk m' s' rs' v) ∨ RetOut s₁ env D f₀ m s rs v' rs'
  | .err rs' => FailsX s rs'.trace
  | .timeout => True
  | .brk _ _ => False
  | .cont _ _ => False

theorem SimF.toT {code : List Instr} {s₁ : St} {env : Nat} {D : List (Option Val)} {f₀ : Nat} {m : Nat → Nat} {s : St} {rs : Ref.St}
    {cenv : Nat} {res : Ref.R Val} (h : SimF code m s rs cenv res) : SimT code s₁ env D f₀ m s rs cenv res := by
  cases res with
  | ok v rs' => exact Or.inl h
  | err rs' => exact h
  | timeout => trivial
  | brk l rs' => exact h
  | cont l rs' => exact h

theorem SimT.seq {code c₂ : List Instr} {s₁ : St} {env : Nat} {D : List (Option Val)} {f₀ : Nat} {m m₁ : Nat → Nat} {s s₁' : St}
    {rs rs₁ : Ref.St} {cenv k : Nat} {res : Ref.R Val} (hreach : ReachX s s₁') (hmoved : Moved k s s₁') (hm : MExt s m m₁)
    (hext : RExt rs rs₁) (hframe : FrameF s s₁') (h₂ : SimT c₂ s₁ env D f₀ m₁ s₁' rs₁ cenv res) (hk : k + c₂.length = code.length) :
    SimT code s₁ env D f₀ m s rs cenv res := by
  cases res with
  | ok v rs' =>
    rcases h₂ with h | h
    · exact Or.inl (SimF.seq (res := .ok v rs') hreach hmoved hm hext hframe h hk)
    · exact Or.inr (h.of_reach hreach hm hframe.fnsLen hext)
  | err rs' => exact FailsX.of_reach hreach h₂
  | timeout => trivial
  | brk l rs' => exact h₂
  | cont l rs' => exact h₂

theorem SimT.cond_exit {p b rest pre post : List Instr} {s₁ : St} {env : Nat} {D : List (Option Val)} {f₀ : Nat} {m m₁ : Nat → Nat}
    {s s₁' : St} {rs rs₁ : Ref.St} {cenv : Nat} {res : Ref.R Val}
    (h : Seg s pre (p ++ [.branch false (b.length + 2)] ++ b ++ [.jump (rest.length + 1)] ++ rest) post)
    (hreach : ReachX s s₁') (hmoved : Moved (p.length + 1) s s₁') (hm : MExt s m m₁) (hext : RExt rs rs₁)
    (hframe : FrameF s s₁') (h₂ : SimT b s₁ env D f₀ m₁ s₁' rs₁ cenv res) :
    SimT (p ++ [.branch false (b.length + 2)] ++ b ++ [.jump (rest.length + 1)] ++ rest) s₁ env D f₀ m s rs cenv res := by
  cases res with
  | ok v rs' =>
    rcases h₂ with h' | h'
    · exact Or.inl (SimF.cond_exit (res := .ok v rs') h hreach hmoved hm hext hframe h')
    · exact Or.inr (h'.of_reach hreach hm hframe.fnsLen hext)
  | err rs' => exact FailsX.of_reach hreach h₂
  | timeout => trivial
  | brk l rs' => exact h₂
  | cont l rs' => exact h₂

theorem SimT.scoped {inner pre post : List Instr} {s₁ : St} {env : Nat} {D : List (Option Val)} {f₀ : Nat} {m : Nat → Nat} {s : St}
    {rs : Ref.St} {cenv : Nat} {res : Ref.R Val} (h : Seg s pre ([.addScope] ++ inner ++ [.removeScope]) post)
    (hrel : RelF m s rs cenv)
    (hin : SimT inner s₁ env D f₀ m s.pushScope (Ref.newFrame rs cenv).2 rs.frames.length res) :
    SimT ([.addScope] ++ inner ++ [.removeScope]) s₁ env D f₀ m s rs cenv res := by
  have hr1 := (glue_addScope h).1
  cases res with
  | ok v rs3 =>
    rcases hin with h' | h'
    · exact Or.inl (SimF.scoped (res := .ok v rs3) h hrel h')
    · exact Or.inr (h'.of_reach hr1.toX (MExt.refl _ _) (Nat.le_refl _) ⟨FramesExt.newFrame rs cenv, fun _ _ hc => hc⟩)
  | err rs3 => exact SimF.scoped (res := .err rs3) h hrel hin
  | timeout => trivial
  | brk l rs3 => exact hin
  | cont l rs3 => exact hin

/-! ## Inside an activation -/

/-- the state `s` is inside the activation of closure object `vid` entered from `s₁` (arguments popped,
`D` below them): what is needed to re-enter the function from a tail position, `sc` block scopes open -/
structure InAct (m₁ : Nat → Nat) (s₁ : St) (rs₁ : Ref.St) (env vid : Nat) (D : List (Option Val)) (f₀ : Nat) (sc : Nat)
    (m : Nat → Nat) (s : St) (rs : Ref.St) : Prop where
  rel₁ : RelF m₁ (s₁.withCur f₀) rs₁ env
  good : GoodFn m₁ s₁ rs₁ vid
  cur : s.curfunc = vid
  addr : s.addr = some (s₁.curfunc, s₁.pc + 1) :: s₁.addr
  susp : s.suspended = s₁.suspended
  data : s.data = D
  lin : ∃ extra, s.linear = extra ++ some s₁.scopes.length :: s₁.linear ∧ extra.length = sc
  fnsLen : s₁.fns.length ≤ s.fns.length
  fns : ∀ id, id < s₁.fns.length → fnOf s id = fnOf s₁ id
  loopsLen : s₁.loops.length ≤ s.loops.length
  loops : ∀ id, id < s₁.loops.length → s.loops.getD id {} = s₁.loops.getD id {}
  scLen : s₁.scopes.length ≤ s.scopes.length
  flags : ∀ i, i < s₁.scopes.length → isFnScope s i = isFnScope s₁ i
  mext : MExt s₁ m₁ m
  rext : RExt rs₁ rs

theorem InAct.after {m₁ : Nat → Nat} {s₁ : St} {rs₁ : Ref.St} {env vid : Nat} {D : List (Option Val)} {f₀ : Nat} {sc : Nat}
    {m m' : Nat → Nat} {s s' : St} {rs rs' : Ref.St} (h : InAct m₁ s₁ rs₁ env vid D f₀ sc m s rs) (fr : FrameF s s')
    (hd : s'.data = s.data) (hm : MExt s m m') (ext : RExt rs rs') : InAct m₁ s₁ rs₁ env vid D f₀ sc m' s' rs' :=
  ⟨h.rel₁, h.good, by rw [fr.curfunc]; exact h.cur, by rw [fr.addr]; exact h.addr, by rw [fr.susp]; exact h.susp,
    by rw [hd]; exact h.data, by rw [fr.linear]; exact h.lin, Nat.le_trans h.fnsLen fr.fnsLen,
    fun id hid => (fr.fns id (Nat.lt_of_lt_of_le hid h.fnsLen)).trans (h.fns id hid),
    Nat.le_trans h.loopsLen fr.loopsLen,
    fun id hid => (fr.loops id (Nat.lt_of_lt_of_le hid h.loopsLen)).trans (h.loops id hid),
    Nat.le_trans h.scLen fr.scLen,
    fun i hi => (fr.flags i (Nat.lt_of_lt_of_le hi h.scLen)).trans (h.flags i hi),
    h.mext.trans hm h.fnsLen, h.rext.trans ext⟩

theorem InAct.moved {m₁ : Nat → Nat} {s₁ : St} {rs₁ : Ref.St} {env vid : Nat} {D : List (Option Val)} {f₀ : Nat} {sc k : Nat}
    {m m' : Nat → Nat} {s s' : St} {rs rs' : Ref.St} (h : InAct m₁ s₁ rs₁ env vid D f₀ sc m s rs) (mv : Moved k s s')
    (fr : FrameF s s') (hm : MExt s m m') (ext : RExt rs rs') : InAct m₁ s₁ rs₁ env vid D f₀ sc m' s' rs' :=
  h.after fr mv.data hm ext

theorem InAct.pushScope {m₁ : Nat → Nat} {s₁ : St} {rs₁ : Ref.St} {env vid : Nat} {D : List (Option Val)} {f₀ : Nat} {sc : Nat}
    {m : Nat → Nat} {s : St} {rs : Ref.St} (h : InAct m₁ s₁ rs₁ env vid D f₀ sc m s rs) (cenv : Nat) :
    InAct m₁ s₁ rs₁ env vid D f₀ (sc + 1) m s.pushScope (Ref.newFrame rs cenv).2 := by
  obtain ⟨extra, hl, hlen⟩ := h.lin
  exact ⟨h.rel₁, h.good, h.cur, h.addr, h.susp, h.data,
    ⟨some s.scopes.length :: extra, by show some s.scopes.length :: s.linear = _; rw [hl]; rfl, by simp [hlen]⟩,
    h.fnsLen, h.fns, h.loopsLen, h.loops,
    Nat.le_trans h.scLen (by show s.scopes.length ≤ (s.scopes ++ [_]).length; simp),
    fun i hi => by rw [isFnScope_pushScope, if_pos (Nat.lt_of_lt_of_le hi h.scLen)]; exact h.flags i hi,
    h.mext, h.rext.trans ⟨FramesExt.newFrame rs cenv, fun _ _ hc => hc⟩⟩

/-- what the generator knows about the running function survives compiling -/
theorem KnownOk.keep {c c' : Ctx} {gs gs' : GS} {ps : List String} {rest : Option String} (h : KnownOk c gs ps rest)
    (hk : KeepFns gs gs') (hf : c'.funcname = c.funcname) (hkn : c'.known = c.known) : KnownOk c' gs' ps rest := by
  intro hne
  rw [hf] at hne ⊢
  rcases h hne with h1 | ⟨t, h1, h2, h3, h4, h5⟩
  · exact Or.inl h1
  · refine Or.inr ⟨t, by rw [hkn]; exact h1, Nat.lt_of_lt_of_le h2 hk.len, ?_, ?_, ?_⟩ <;> rw [hk.fns t h2] <;> assumption

/-! ## Operands compiled inline -/

/-- the positions the generator delays for this callee -/
def isLazyGen (f : Option FnObj) (j : Nat) : Bool :=
  match f with
  | some fo => fo.isLazyCallArg j
  | none => false

theorem exec_pushLazy (f : Nat) (e : Expr) (s : St) :
    (exec (f + 1) (.pushLazy e)).run s = (.ok (), (s.allocLazy e).jmp (s.pc + 1) (s.allocLazy e).data) := by
  rw [exec]; rfl

/-- operands compiled inline: a delayed one is one instruction that makes the lazy argument object -/
def TClaimV (n : Nat) : Prop :=
  ∀ self args, FfList false self args = true → FaList args = true →
    ∀ isFn c f i gs r, (compileCallArgs isFn c f i args).run gs = .ok r →
    FnameOk self c → ∀ lazyAt : Nat → Bool, (∀ j, isLazyGen f j = lazyAt j) →
    ∀ m s rs env pre post, RelF m s rs env → Seg s pre r.1 post →
      SimFL r.1 m s rs env (Ref.evalArgs n args i lazyAt env rs)

theorem tclaimV_succ {n : Nat} (hE : FClaimE n) (hV : TClaimV n) : TClaimV (n + 1) := by
  intro self args hargs hfa isFn c f i gs r hc hfn lazyAt hlz m s rs env pre post hrel hseg
  match args with
  | [] =>
    rw [compileCallArgs.eq_def] at hc; simp only [g_pure_ok] at hc; subst hc
    rw [Ref.evalArgs]
    · exact ⟨s, m, [], ReachX.refl s, rfl, by simp, by simp, rfl, hrel, MExt.refl s m, RExt.refl rs, FrameF.refl s,
        fun v hv => by cases hv⟩
    · omega
  | e :: es' =>
    rw [FfList] at hargs
    rw [FaList] at hfa
    simp only [Bool.and_eq_true] at hargs hfa
    rw [Ref.evalArgs]
    by_cases hl : lazyAt i = true
    · -- a delayed operand
      simp only [hl, if_true]
      obtain ⟨fo, rfl, hfo⟩ : ∃ fo, f = some fo ∧ fo.isLazyCallArg i = true := by
        have := hlz i; rw [hl] at this
        cases f with
        | none => cases this
        | some fo => exact ⟨fo, rfl, this⟩
      rw [compileCallArgs_cons_lazy hfo] at hc
      obtain ⟨rb, hb, hcode⟩ := hc
      rw [hcode] at hseg ⊢
      have hid : s.lazies.length = rs.thunks.length := hrel.lz.1
      have a0 : At s pre (.pushLazy e) (rb ++ post) := (hseg.refocus (c' := [.pushLazy e]) (post' := rb ++ post) (by simp)).head
      have r1 : ReachX s ((s.allocLazy e).jmp (s.pc + 1) (s.allocLazy e).data) :=
        (Reach.step a0 (fun f => exec_pushLazy f e s)).toX
      have l1 : Lands [Instr.pushLazy e].length (.lazy s.lazies.length) s ((s.allocLazy e).jmp (s.pc + 1) (s.allocLazy e).data) :=
        ⟨rfl, by simp, rfl⟩
      have hrelA := (hrel.allocLazy e hfa.1).jmp (s.pc + 1) (s.allocLazy e).data
      have hfrA : FrameF s ((s.allocLazy e).jmp (s.pc + 1) (s.allocLazy e).data) :=
        ⟨⟨rfl, rfl, rfl, rfl, Nat.le_refl _, fun _ _ => rfl, Nat.le_refl _, fun _ _ => rfl⟩, Nat.le_refl _, fun _ _ => rfl⟩
      have hextA : RExt rs (allocThunkR rs e env) := ⟨fun i fr hf => ⟨fr, hf, rfl⟩, fun _ _ hc => hc⟩
      have ih2 := hV self es' hargs.2 hfa.2 isFn _ (some fo) (i + 1) gs (rb, r.2) hb hfn lazyAt hlz m _ (allocThunkR rs e env) env
        (pre ++ [.pushLazy e]) post hrelA (hseg.move l1.fn (by simp) (by rw [l1.pc, hseg.pc]; simp))
      show (match (match Ref.evalArgs n es' (i + 1) lazyAt env (allocThunkR rs e env) with
          | .ok vs s => Ref.R.ok (Val.lazy rs.thunks.length :: vs) s | r => r) with
        | .ok vs' rs' => _ | .err rs' => _ | .timeout => _ | .brk _ _ => _ | .cont _ _ => _)
      cases h2 : Ref.evalArgs n es' (i + 1) lazyAt env (allocThunkR rs e env) with
      | ok vs' rs2 =>
        rw [h2] at ih2
        rw [← hid]
        exact simFL_cons (w1 := .lazy s.lazies.length) rfl r1 l1 (MExt.refl _ _) hextA hfrA (valIn_of_const (fun _ _ _ => rfl)) ih2
      | err rs2 => rw [h2] at ih2; exact (FailsX.of_reach r1 ih2)
      | timeout => trivial
      | brk l rs2 => rw [h2] at ih2; exact ih2.elim
      | cont l rs2 => rw [h2] at ih2; exact ih2.elim
    have hl' : lazyAt i = false := by simpa using hl
    simp only [hl', Bool.false_eq_true, if_false]
    rw [compileCallArgs_cons_run (fun fo hfo => by have := hlz i; rw [hl', hfo] at this; exact this)] at hc
    obtain ⟨ra, g1, rb, ha, hb, hcode⟩ := hc
    rw [hcode] at hseg ⊢
    have ih := hE false self e hargs.1 isFn _ gs (ra, g1) ha hfn m s rs env pre (rb ++ post) hrel
      (fun h => by cases h) (hseg.refocus (by simp))
    cases h1 : Ref.eval n e env rs with
    | ok v1 rs1 =>
      rw [h1] at ih
      obtain ⟨s1, m1, w1, r1, l1, hv1, rel1, hm1, ext1, fr1, hcl1⟩ := ih
      simp only
      have ih2 := hV self es' hargs.2 hfa.2 isFn _ f (i + 1) g1 (rb, r.2) hb hfn lazyAt hlz m1 s1 rs1 env (pre ++ ra.1) post rel1
        (hseg.move l1.fn (by simp) (by rw [l1.pc, hseg.pc]; simp))
      rw [hv1]
      cases h2 : Ref.evalArgs n es' (i + 1) lazyAt env rs1 with
      | ok vs' rs2 => rw [h2] at ih2; exact simFL_cons rfl r1 l1 hm1 ext1 fr1 hcl1 ih2
      | err rs2 => rw [h2] at ih2; exact (FailsX.of_reach r1 ih2)
      | timeout => trivial
      | brk l rs2 => rw [h2] at ih2; exact ih2.elim
      | cont l rs2 => rw [h2] at ih2; exact ih2.elim
    | err rs1 => rw [h1] at ih; exact ih
    | timeout => trivial
    | brk l rs1 => rw [h1] at ih; exact ih.elim
    | cont l rs1 => rw [h1] at ih; exact ih.elim

/-! ## A call in tail position -/

theorem okSym_of_okHead {h : String} (hh : okHead h = true) : okSym h = true := by
  unfold okHead at hh; simp only [Bool.and_eq_true] at hh; exact hh.1

theorem not_anon_of_okHead {h : String} (hh : okHead h = true) (t : Nat) : h ≠ s!"__anon{t}" := by
  unfold okHead at hh; simp only [Bool.and_eq_true, Bool.not_eq_true'] at hh
  intro e
  have := anon_prefix t
  rw [← e, hh.2] at this
  cases this

/-- **A call in tail position of the running function's body.** Compiled as an ordinary call: as
`simF_call`. Compiled as a self tail call: if the guard passes, the operands are evaluated inline,
the scopes of the activation dropped, the function re-entered at instruction 0 — the rest of the
activation is the application of the same closure (`FClaimU`), whose return is the return of this
activation; if the guard fails, the ordinary call behind the jump runs. -/
theorem isLazyCallArg_congr {f g : FnObj} (hp : f.params = g.params) (hn : f.nargs = g.nargs) (hv : f.varargs = g.varargs)
    (j : Nat) : f.isLazyCallArg j = g.isLazyCallArg j := by
  unfold FnObj.isLazyCallArg; rw [hp, hn, hv]

/-- for a closure object, `PrepareCallExprArgs` and the generator delay the same positions -/
theorem isLazyVM_eq {fo : FnObj} (hu : fo.user = false) (j : Nat) : isLazyVM (some fo) j = fo.isLazyCallArg j := by
  unfold isLazyVM
  simp only [hu, Bool.not_false, Bool.true_and]
  by_cases hj : fo.isLazyCallArg j = true
  · rw [hj, Bool.and_true]
    unfold FnObj.isLazyCallArg at hj
    unfold FnObj.hasLazyFormals
    split at hj
    · cases hj
    · cases hp : fo.params[j]? with
      | none => rw [hp] at hj; cases hj
      | some p =>
        rw [hp] at hj
        exact List.any_eq_true.mpr ⟨p, List.mem_of_getElem? hp, hj⟩
  · have : fo.isLazyCallArg j = false := by simpa using hj
    rw [this, Bool.and_false]

theorem simT_selfcall {k : Nat} (hV : TClaimV (k + 1)) (hA : FClaimA (k + 1)) (hU : FClaimU (k + 1)) (hG : ∀ name, hoB name → FClaimH k name)
    {self h : String} {args : List Expr} (hh : (h != "") = true) (hhead : okHead h = true) (hfa : FaList args = true)
    (hself : (h != self) = true ∨ FfList false self args = true)
    (isFn : Nat → Bool) (c : Ctx) (gs : GS) (r : (List Instr × Bool) × GS)
    (hc : (compile isFn c (.call (.sym h) args)).run gs = .ok r) (hfn : FnameOk self c)
    {ps : List String} {rest : Option String} (hkn : KnownOk c gs ps rest) (hps : ∀ p ∈ ps ++ rest.toList, okParam p = true)
    {m₁ : Nat → Nat} {s₁ : St} {rs₁ : Ref.St} {env vid : Nat} {D : List (Option Val)} {f₀ : Nat} {m : Nat → Nat} {s : St} {rs : Ref.St}
    {cenv : Nat} {pre post : List Instr}
    (hact : InAct m₁ s₁ rs₁ env vid D f₀ c.scopes m s rs) (hnargs : (fnOf s₁ vid).nargs = ps.length)
    (hva : (fnOf s₁ vid).varargs = rest.isSome) (hpa : (fnOf s₁ vid).params = ps ++ rest.toList)
    (hrel : RelF m s rs cenv) (hseg : Seg s pre r.1.1 post) :
    SimT r.1.1 s₁ env D f₀ m s rs cenv (Ref.eval (k + 2) (.call (.sym h) args) cenv rs) := by
  have hok : okSym h = true := okSym_of_okHead hhead
  rw [compile_call_eq] at hc
  by_cases hcond' : ¬ ((c.tail && h == c.funcname) = true ∧ arityOk (knownFn c gs h) args.length = true)
  · rw [if_neg hcond'] at hc
    injection hc with hc; subst hc
    exact (simF_call hA hU hG hok hfa hrel hseg).toT
  have hcond := Classical.not_not.mp hcond'
  rw [if_pos hcond] at hc
  -- the name is the running function's
  have hhc : h = c.funcname := by have := hcond.1; simp only [Bool.and_eq_true, beq_iff_eq] at this; exact this.2
  have hne0 : c.funcname ≠ "" := by rw [← hhc]; simpa using hh
  have hcs : c.funcname = self := by
    rcases hfn with h1 | h1 | ⟨t, h1⟩
    · exact h1
    · exact absurd h1 hne0
    · exact absurd (hhc.trans h1) (not_anon_of_okHead hhead t)
  have hargs : FfList false self args = true := by
    rcases hself with hne | ha
    · rw [hhc, hcs] at hne; simp at hne
    · exact ha
  rcases hkn hne0 with ⟨t', hanon⟩ | ⟨t, hlook, htlt, hvar, hna, hpar⟩
  · exact absurd (hhc.trans hanon) (not_anon_of_okHead hhead t')
  have hkf : knownFn c gs h = some (gs.fns.getD t {}) := by
    unfold knownFn; rw [hhc, hlook]
    simp [List.getD_eq_getElem?_getD, List.getElem?_eq_getElem htlt]
  have harity : arOk rest ps.length args.length := by
    have := hcond.2
    rw [hkf] at this
    cases rest with
    | none =>
      simp only [arityOk, hvar, Option.isSome_none, Bool.false_eq_true, if_false, beq_iff_eq] at this
      show args.length = ps.length
      rw [this, hna]
    | some r =>
      simp only [arityOk, hvar, Option.isSome_some, if_true, decide_eq_true_eq] at this
      show ps.length ≤ args.length
      rw [← hna]; exact this
  rw [hkf] at hc
  have hfn' : FnameOk self { c with tail := false } := hfn
  cases hcc : (compileCallArgs isFn { c with tail := false } (some (gs.fns.getD t {})) 0 args).run gs with
  | error e => rw [hcc] at hc; cases hc
  | ok v =>
  obtain ⟨code, g1⟩ := v
  rw [hcc] at hc
  simp only at hc
  injection hc with hc; subst hc
  simp only at hseg ⊢
  -- the closure object that is running
  have hmain1 : mainFn < s₁.fns.length := Nat.lt_trans hact.good.nm hact.good.lt
  have hgs : GoodFn m s rs vid :=
    hact.good.mono (FnsKeep.of_eq hact.fnsLen hact.fns hmain1 ⟨hact.loopsLen, hact.loops⟩) hact.scLen hact.flags hact.rext
      (hact.mext vid hact.good.lt)
  obtain ⟨c0, hc1, hrest, hnd, hokp, hbody, hparams, hnargs0, hvar0, huser0, _⟩ := hgs.clo
  have hfo_s : fnOf s vid = fnOf s₁ vid := hact.fns vid hact.good.lt
  have hn0 : c0.ps.length = ps.length := by rw [← hnargs0, hfo_s, hnargs]
  have hv0 : c0.rest.isSome = rest.isSome := by rw [← hvar0, hfo_s, hva]
  have hlz : ∀ j, isLazyGen (some (gs.fns.getD t {})) j = lazyAtC c0 j := fun j => by
    show (gs.fns.getD t {}).isLazyCallArg j = _
    rw [← isLazyVM_clo huser0 hparams hnargs0 hvar0 j, isLazyVM_eq huser0 j]
    exact isLazyCallArg_congr (by rw [hpar, hfo_s, hpa]) (by rw [hna, hfo_s, hnargs]) (by rw [hvar, hfo_s, hva]) j
  have hin := hseg.inFn
  have hlen : (tailCode h c.scopes args code).length = code.length + c.scopes + 5 := by
    simp [tailCode]; omega
  have a0 : At s pre (.tailGuard h (code.length + c.scopes + 4)) (code ++ [.prepareCall h args.length]
      ++ List.replicate (c.scopes + 1) Instr.removeScope ++ [.goto 0, .callExpr (.sym h) args] ++ post) :=
    hin.at (by simp [tailCode]) hseg.pc
  by_cases hg : ∃ sid, lexLookup s h = some (sid, .fn s.curfunc)
  · -- the guard passes
    obtain ⟨sid, hl⟩ := hg
    have r0 : ReachX s (s.jmp (s.pc + 1) s.data) :=
      (Reach.step a0 (fun f => by rw [TailVM.exec_tailGuard_self f s h _ sid hl]; rfl)).toX
    -- the reference side: the callee is the closure of the running function
    rw [ref_eval_call_sym]
    have hlook' := hrel.lexLookup h
    rw [hl] at hlook'
    rw [← hlook']
    simp only [Option.map_some, trp2]
    show SimT _ s₁ env D f₀ m s rs cenv (refCall k (.fn (m s.curfunc)) args cenv rs)
    rw [hact.cur, refCall_fn k (m vid) args cenv rs c0 hc1]
    -- the operands
    have hseg1 : Seg (s.jmp (s.pc + 1) s.data) (pre ++ [.tailGuard h (code.length + c.scopes + 4)]) code
        ([.prepareCall h args.length] ++ List.replicate (c.scopes + 1) Instr.removeScope
          ++ [.goto 0, .callExpr (.sym h) args] ++ post) :=
      (hin.of_fn (σ' := s.jmp (s.pc + 1) s.data) rfl).seg (by simp [tailCode]) (by rw [St.jmp_pc, hseg.pc]; simp)
    have ihV := hV self args hargs hfa isFn _ _ 0 gs (code, g1) hcc hfn' (lazyAtC c0) hlz m _ rs cenv _ _ (hrel.jmp _ _) hseg1
    cases h1 : Ref.evalArgs (k + 1) args 0 (lazyAtC c0) cenv rs with
    | ok vs' rs2 =>
      rw [h1] at ihV
      obtain ⟨s2, m2, vs, r2, hfn2, hpc2, hd2, hvs2, rel2, hm2, ext2, fr2, hcl2⟩ := ihV
      simp only
      have hfr02 : FrameF s s2 := (FrameF.jmp _ _ _).trans fr2
      have hin2 : InFn s2 (pre ++ tailCode h c.scopes args code ++ post) := hin.of_fn (hfn2.trans rfl)
      have hpc2' : s2.pc = ((pre.length + 1 + code.length : Nat) : Int) := by
        rw [hpc2, St.jmp_pc, hseg.pc]; push_cast; omega
      have hcur2 : s2.curfunc = vid := by rw [hfr02.curfunc]; exact hact.cur
      have hfo2 : ∀ id, id < s₁.fns.length → fnOf s2 id = fnOf s₁ id := fun id hid =>
        (hfr02.fns id (Nat.lt_of_lt_of_le hid hact.fnsLen)).trans (hact.fns id hid)
      have hfl2 : s₁.fns.length ≤ s2.fns.length := Nat.le_trans hact.fnsLen hfr02.fnsLen
      have hlen12 : vs.length = args.length := by
        have h3 := ref_evalArgs_length' _ _ _ _ _ _ _ _ h1
        rw [hvs2, List.length_map] at h3
        exact h3
      have har0 : arOk c0.rest c0.ps.length vs.length := by
        rw [hlen12]; exact (arOk_congr hv0 hn0).mpr harity
      have hd2' : s2.data = vs.reverse.map some ++ D := by rw [hd2, St.jmp_data, hact.data]
      -- prepareCall
      have a3 : At s2 (pre ++ [.tailGuard h (code.length + c.scopes + 4)] ++ code) (.prepareCall h args.length)
          (List.replicate (c.scopes + 1) Instr.removeScope ++ [.goto 0, .callExpr (.sym h) args] ++ post) :=
        hin2.at (by simp [tailCode]) (by rw [hpc2']; simp; omega)
      have hfo2v : fnOf s2 s2.curfunc = fnOf s vid := by
        rw [hcur2]; exact hfr02.fns vid (Nat.lt_of_lt_of_le hact.good.lt hact.fnsLen)
      generalize hAD : argsData c0.rest c0.ps.length vs D = AD
      have r3 : ReachX s2 (s2.jmp (s2.pc + 1) AD) :=
        (Reach.step a3 (fun f => by
          rw [← hlen12, exec_prepareCall_clo f h c0.rest c0.ps.length vs D s2 hd2' (by rw [hfo2v]; exact huser0)
            (by rw [hfo2v]; exact hvar0) (by rw [hfo2v]; exact hnargs0) har0, hAD])).toX
      -- the scopes of the activation
      obtain ⟨extra, hlin, hel⟩ := hact.lin
      have hlin2 : (s2.jmp (s2.pc + 1) AD).linear = (extra ++ [some s₁.scopes.length]) ++ s₁.linear := by
        show s2.linear = _; rw [hfr02.linear, hlin]; simp
      have hxl : (extra ++ [some s₁.scopes.length]).length = c.scopes + 1 := by simp [hel]
      have r4 := reach_removeScopes (extra ++ [some s₁.scopes.length]) (s2.jmp (s2.pc + 1) AD)
        (pre ++ [.tailGuard h (code.length + c.scopes + 4)] ++ code ++ [.prepareCall h args.length])
        ([.goto 0, .callExpr (.sym h) args] ++ post) s₁.linear
        (by show (fnOf s2 s2.curfunc).user = false; exact hin2.user)
        (by show (fnOf s2 s2.curfunc).code = _; rw [hin2.code, hxl]; simp [tailCode])
        (by rw [St.jmp_pc, hpc2']; simp; omega) hlin2
      rw [hxl] at r4
      have r4' : ReachX (s2.jmp (s2.pc + 1) AD) (dropped (s2.jmp (s2.pc + 1) AD) (c.scopes + 1) s₁.linear) := r4
      clear r4
      generalize hs4 : dropped (s2.jmp (s2.pc + 1) AD) (c.scopes + 1) s₁.linear = s4 at r4'
      have hin4 : InFn s4 (pre ++ tailCode h c.scopes args code ++ post) := by subst hs4; exact hin2.of_fn rfl
      have hpc4 : s4.pc = ((pre.length + code.length + c.scopes + 3 : Nat) : Int) := by
        subst hs4; show s2.pc + 1 + ((c.scopes + 1 : Nat) : Int) = _; rw [hpc2']; push_cast; omega
      have a5 : At s4 (pre ++ [.tailGuard h (code.length + c.scopes + 4)] ++ code ++ [.prepareCall h args.length]
          ++ List.replicate (c.scopes + 1) Instr.removeScope) (.goto 0) ([.callExpr (.sym h) args] ++ post) :=
        hin4.at (by simp [tailCode]) (by rw [hpc4]; simp; omega)
      have r5 := (reach_goto a5 (by omega)).toX
      generalize hs5 : s4.jmp ((0 : Nat) : Int) s4.data = s5 at r5
      -- the state as `CallFunction` would leave it
      have hcur5 : s5.curfunc = vid := by subst hs5; subst hs4; exact hcur2
      have hpc5 : s5.pc = 0 := by subst hs5; rfl
      have haddr5 : s5.addr = some (s₁.curfunc, s₁.pc + 1) :: s₁.addr := by
        subst hs5; subst hs4; show s2.addr = _; rw [hfr02.addr]; exact hact.addr
      have hsc5 : s5.scopes = s2.scopes := by subst hs5; subst hs4; rfl
      have hfns5 : s5.fns = s2.fns := by subst hs5; subst hs4; rfl
      have hheap5 : s5.heap = s2.heap := by subst hs5; subst hs4; rfl
      have htr5 : s5.trace = s2.trace := by subst hs5; subst hs4; rfl
      have hlin5 : s5.linear = s₁.linear := by subst hs5; subst hs4; rfl
      have hd5 : s5.data = argsData c0.rest c0.ps.length vs D := by
        subst hs5; subst hs4; exact hAD.symm
      have hent := enteredA_of s5 s₁.curfunc s₁.pc s₁.addr vid c0.rest c0.ps.length vs D (vs.reverse.map some ++ D)
        hcur5 hpc5 haddr5 hd5
      have hsusp5 : s5.suspended = s₁.suspended := by subst hs5; subst hs4; show s2.suspended = _; rw [hfr02.susp]; exact hact.susp
      have hloops5 : s5.loops = s2.loops := by subst hs5; subst hs4; rfl
      have hflags2 : ∀ i, i < s₁.scopes.length → isFnScope s2 i = isFnScope s₁ i := fun i hi =>
        (hfr02.flags i (Nat.lt_of_lt_of_le hi hact.scLen)).trans (hact.flags i hi)
      have hscl2 : s₁.scopes.length ≤ s2.scopes.length := Nat.le_trans hact.scLen hfr02.scLen
      have hext12 : RExt rs₁ rs2 := hact.rext.trans ext2
      have hle12 : LoopsExt s₁ s2 := ⟨Nat.le_trans hact.loopsLen hfr02.loopsLen, fun id hid =>
        (hfr02.loops id (Nat.lt_of_lt_of_le hid hact.loopsLen)).trans (hact.loops id hid)⟩
      have hm12 : m2 vid = m₁ vid := (hm2 vid (by show vid < s.fns.length; exact Nat.lt_of_lt_of_le hact.good.lt hact.fnsLen)).trans
        (hact.mext vid hact.good.lt)
      generalize hs1' : ({ s5 with curfunc := s₁.curfunc, pc := s₁.pc, addr := s₁.addr, data := vs.reverse.map some ++ D } : St)
        = s₁' at hent
      have hfo1' : ∀ id, fnOf s₁' id = fnOf s2 id := fun id => by subst hs1'; unfold fnOf; rw [hfns5]
      have hflags1' : ∀ i, isFnScope s₁' i = isFnScope s2 i := fun i => by
        subst hs1'; unfold isFnScope scopeOf; rw [hsc5]
      have rel1' : RelF m2 (s₁'.withCur f₀) rs2 env :=
        hact.rel₁.back (s₅ := s₁'.withCur f₀) rel2 (by subst hs1'; exact hsc5) (by subst hs1'; exact hfns5) (by subst hs1'; exact hheap5)
          (by subst hs1'; exact htr5) (by subst hs1'; exact hlin5) (by subst hs1'; rfl) hflags2 hfl2 hfo2 hext12.1 hle12
          (by subst hs1'; exact hloops5) (by subst hs1'; subst hs5; subst hs4; rfl)
      have hk1' : FnsKeep s₁ s₁' := FnsKeep.of_eq (by subst hs1'; rw [hfns5]; exact hfl2)
        (fun id hid => (hfo1' id).trans (hfo2 id hid)) hmain1 (by subst hs1'; unfold LoopsExt; rw [hloops5]; exact hle12)
      have good1' : GoodFn m2 s₁' rs2 vid :=
        hact.good.mono hk1' (by subst hs1'; rw [hsc5]; exact hscl2) (fun i hi => (hflags1' i).trans (hflags2 i hi)) hext12 hm12
      have hvok : ∀ v ∈ vs, VOk m2 s₁' rs2 v := fun v hv =>
        ValIn.mono (hcl2 v hv) (fun id hgd => hgd.mono (FnsKeep.of_fns_eq (by subst hs1'; exact hfns5)
            (LoopsExt.of_eq (by subst hs1'; exact hloops5)))
          (by subst hs1'; rw [hsc5]; exact Nat.le_refl _) (fun i _ => hflags1' i) (RExt.refl _) rfl)
      have hres := hU m2 s₁' rs2 env vid c0 vs D f₀ rel1' good1'
        (by rw [hm12, ← hact.mext vid hact.good.lt]; exact ext2.2 _ _ hc1) (by subst hs1'; rfl) hvok har0
      rw [hent, hm12, ← hact.mext vid hact.good.lt, ← hvs2] at hres
      have hreach5 : ReachX s s5 := (((r0.trans r2).trans r3).trans r4').trans r5
      have hfr11' : FrameF s₁ s₁' :=
        ⟨⟨by subst hs1'; exact hlin5, by subst hs1'; rfl, by subst hs1'; rfl, by subst hs1'; exact hsusp5,
          hk1'.len, fun id hid => (hfo1' id).trans (hfo2 id hid),
          by subst hs1'; rw [hloops5]; exact Nat.le_trans hact.loopsLen hfr02.loopsLen,
          fun id hid => by
            subst hs1'; show s5.loops.getD id {} = _; rw [hloops5]
            exact (hfr02.loops id (Nat.lt_of_lt_of_le hid hact.loopsLen)).trans (hact.loops id hid)⟩,
          by subst hs1'; rw [hsc5]; exact hscl2, fun i hi => (hflags1' i).trans (hflags2 i hi)⟩
      have hmm : MExt s m m2 := fun id hid => hm2 id hid
      have hfl1' : s.fns.length ≤ s₁'.fns.length := by subst hs1'; rw [hfns5]; exact hfr02.fnsLen
      cases h2 : Ref.applyFn (k + 1) (.fn (m vid)) vs' rs2 with
      | ok v' rs3 =>
        rw [h2] at hres
        obtain ⟨s', m', v, r, hpc, hdata, hv, rel, hm', ext, fr, hcl⟩ := hres
        exact Or.inr ⟨s', m', v, hreach5.trans r, by rw [hpc]; subst hs1'; rfl, hdata, hv, rel, hmm.trans hm' hfl1',
          ext2.trans ext, hfr11'.trans fr, hcl⟩
      | err rs3 => rw [h2] at hres; exact FailsX.of_reach hreach5 hres
      | timeout => trivial
      | brk l rs3 => rw [h2] at hres; exact hres.elim
      | cont l rs3 => rw [h2] at hres; exact hres.elim
    | err rs2 => rw [h1] at ihV; exact FailsX.of_reach r0 ihV
    | timeout => trivial
    | brk l rs2 => rw [h1] at ihV; exact ihV.elim
    | cont l rs2 => rw [h1] at ihV; exact ihV.elim
  · -- the guard fails: the ordinary call behind the jump
    have hl' : ∀ sid, lexLookup s h ≠ some (sid, .fn s.curfunc) := fun sid e => hg ⟨sid, e⟩
    have r0 : ReachX s (s.jmp (s.pc + ((code.length + c.scopes + 4 : Nat) : Int)) s.data) :=
      (Reach.step a0 (fun f => by rw [TailVM.exec_tailGuard_other f s h _ hl']; rfl)).toX
    have mv : Moved (code.length + c.scopes + 4) s (s.jmp (s.pc + ((code.length + c.scopes + 4 : Nat) : Int)) s.data) :=
      ⟨rfl, rfl, rfl⟩
    have hseg' : Seg (s.jmp (s.pc + ((code.length + c.scopes + 4 : Nat) : Int)) s.data)
        (pre ++ ([.tailGuard h (code.length + c.scopes + 4)] ++ code ++ [.prepareCall h args.length]
          ++ List.replicate (c.scopes + 1) Instr.removeScope ++ [.goto 0])) [.callExpr (.sym h) args] post :=
      (hin.of_fn (σ' := s.jmp (s.pc + ((code.length + c.scopes + 4 : Nat) : Int)) s.data) rfl).seg (by simp [tailCode])
        (by rw [St.jmp_pc, hseg.pc]; simp; omega)
    have hcall := simF_call hA hU hG hok hfa (hrel.jmp _ _) hseg'
    exact (SimF.seq r0 mv (MExt.refl _ _) (RExt.refl _) (FrameF.jmp _ _ _) hcall (by rw [hlen]; simp)).toT

/-! ## The claims for tail positions -/

theorem simF_of_simX_nil {code : List Instr} {m : Nat → Nat} {s : St} {rs : Ref.St} {env : Nat} {res : Ref.R Val}
    (h : SimX code [] m s rs env res) : SimF code m s rs env res := by
  cases res with
  | ok v rs' => exact h
  | err rs' => exact h
  | timeout => trivial
  | brk l rs' => obtain ⟨γ, hγ, _⟩ := h; cases l <;> simp [findCtx] at hγ
  | cont l rs' => obtain ⟨γ, hγ, _⟩ := h; cases l <;> simp [findCtx] at hγ

/-- a `defn` whose body is in `FzList` (at top level, or nested in a function body) -/
theorem simF_defnZ {n : Nat} {ex : Bool} {name : String} {ps : List String} {rest : Option String} {body : List Expr}
    (hrest : okRest rest = true) (hname : okName name = true) (hne : name ≠ "") (hnd : (ps ++ rest.toList).Nodup)
    (hps : ∀ p ∈ ps, okParam p = true) (hbody : body ≠ []) (hfz : FzList ex name body = true)
    (isFn : Nat → Bool) (c : Ctx) (gs : GS) (hex : ex = true → gs.loopstack = [])
    (r : (List Instr × Bool) × GS) (hc : (compile isFn c (.defn name ps rest body)).run gs = .ok r)
    (m : Nat → Nat) (s : St) (rs : Ref.St) (env : Nat) (pre post : List Instr)
    (hrel : RelF m s rs env) (hgen : GenOk gs r.2 s) (hseg : Seg s pre r.1.1 post) :
    SimF r.1.1 m s rs env (Ref.eval n (.defn name ps rest body) env rs) := by
  cases n with
  | zero => rw [Ref.eval]; trivial
  | succ k =>
    obtain ⟨b, tl, g2, hb, _, hk2⟩ := compileBegin_total_Fz ex name body hbody hfz isFn (bodyCtx c gs name ps rest body)
      (gsAlloc isFn gs name ps rest) (bodyCtx_funcname c gs name ps rest body) hex
    exact simF_defn_core name ps rest body hrest hname hne hnd hps hbody hfz hex isFn c g2 b tl hb hk2.1 r hc hrel hgen hseg

/-- an anonymous function whose body is in `FzList` (loops with exits in its body) -/
theorem simF_fnZ {n : Nat} {ex : Bool} {ps : List String} {rest : Option String} {body : List Expr}
    (hrest : okRest rest = true) (hnd : (ps ++ rest.toList).Nodup)
    (hps : ∀ p ∈ ps, okParam p = true) (hbody : body ≠ []) (hfz : FzList ex "" body = true)
    (isFn : Nat → Bool) (c : Ctx) (gs : GS) (hex : ex = true → gs.loopstack = [])
    (r : (List Instr × Bool) × GS) (hc : (compile isFn c (.fn ps rest body)).run gs = .ok r)
    (m : Nat → Nat) (s : St) (rs : Ref.St) (env : Nat) (pre post : List Instr)
    (hrel : RelF m s rs env) (hgen : GenOk gs r.2 s) (hseg : Seg s pre r.1.1 post) :
    SimF r.1.1 m s rs env (Ref.eval n (.fn ps rest body) env rs) := by
  cases n with
  | zero => rw [Ref.eval]; trivial
  | succ k =>
    obtain ⟨b, tl, g2, hb, _, hk2⟩ := compileBegin_total_Fz ex "" body hbody hfz isFn (anonCtx c gs)
      (gsAlloc isFn gs s!"__anon{gs.fns.length}" ps rest) (anonCtx_funcname c gs) hex
    exact simF_fn_core ps rest body hrest hnd hps hbody hfz hex isFn c g2 b tl hb hk2.1 r hc hrel hgen hseg

/-- a statement that is not in tail position: a form of F2, or (`ex`) one whose loops `break`/`continue`, or a nested
`defn` with self tail calls / loops with exits in its body -/
theorem simF_stmt {n : Nat} (hFE : FClaimE n) (hXE : XClaimE n) {ex : Bool} {self : String} {e : Expr}
    (he : Fs ex self e = true) (isFn : Nat → Bool) (c : Ctx) (gs : GS)
    (r : (List Instr × Bool) × GS) (hc : (compile isFn c e).run gs = .ok r) (hfn : FnameOk self c)
    (hex : ex = true → gs.loopstack = []) (m : Nat → Nat) (s : St) (rs : Ref.St) (env : Nat) (pre post : List Instr)
    (hrel : RelF m s rs env) (hgen : GenOk gs r.2 s) (hlo : LsOut pre gs.loops.length r.2.loops.length)
    (hseg : Seg s pre r.1.1 post) : SimF r.1.1 m s rs env (Ref.eval n e env rs) := by
  rcases fs_cases he with he | ⟨name, ps, rest, body, rfl, hrest, hname, hne, hnd, hps, hbody, hfz⟩
    | ⟨ps, rest, body, rfl, hrest, hnd, hps, hbody, hfz⟩
  rotate_left
  · exact simF_defnZ hrest hname hne hnd hps hbody hfz isFn c gs hex r hc m s rs env pre post hrel hgen hseg
  · exact simF_fnZ hrest hnd hps hbody hfz isFn c gs hex r hc m s rs env pre post hrel hgen hseg
  cases ex with
  | false => exact hFE true self e (by simpa using he) isFn c gs r hc hfn m s rs env pre post hrel (fun _ => hgen) hseg
  | true =>
    exact simF_of_simX_nil (hXE [] self e (by simpa using he) isFn c gs r hc hfn [] rfl (gsOk_nil (hex rfl)) m s rs env pre post
      hrel hgen (fun _ h => by cases h) hgen.loops hlo hseg)

def TClaimE (n : Nat) : Prop :=
  ∀ ex self e, Fz ex self e = true → ∀ isFn c gs r, (compile isFn c e).run gs = .ok r → FnameOk self c →
  (ex = true → gs.loopstack = []) → ∀ ps rest, KnownOk c gs ps rest → (∀ p ∈ ps ++ rest.toList, okParam p = true) →
  ∀ m₁ s₁ rs₁ env vid D f₀ m s rs cenv pre post, InAct m₁ s₁ rs₁ env vid D f₀ c.scopes m s rs → (fnOf s₁ vid).nargs = ps.length →
    ((fnOf s₁ vid).varargs = rest.isSome ∧ (fnOf s₁ vid).params = ps ++ rest.toList) →
    RelF m s rs cenv → GenOk gs r.2 s → LsOut pre gs.loops.length r.2.loops.length → Seg s pre r.1.1 post →
    SimT r.1.1 s₁ env D f₀ m s rs cenv (Ref.eval n e cenv rs)

def TClaimB (n : Nat) : Prop :=
  ∀ ex self es, es ≠ [] → FzList ex self es = true → ∀ isFn c gs r, (compileBegin isFn c es).run gs = .ok r → FnameOk self c →
  (ex = true → gs.loopstack = []) → ∀ ps rest, KnownOk c gs ps rest → (∀ p ∈ ps ++ rest.toList, okParam p = true) →
  ∀ m₁ s₁ rs₁ env vid D f₀ m s rs cenv pre post, InAct m₁ s₁ rs₁ env vid D f₀ c.scopes m s rs → (fnOf s₁ vid).nargs = ps.length →
    ((fnOf s₁ vid).varargs = rest.isSome ∧ (fnOf s₁ vid).params = ps ++ rest.toList) →
    RelF m s rs cenv → GenOk gs r.2 s → LsOut pre gs.loops.length r.2.loops.length → Seg s pre r.1.1 post →
    SimT r.1.1 s₁ env D f₀ m s rs cenv (Ref.evalBegin n es cenv rs)

def TClaimN (n : Nat) : Prop :=
  ∀ ex self es, es ≠ [] → FzList ex self es = true → ∀ isFn c oldtail gs r, (compileNewScope isFn c oldtail es).run gs = .ok r →
  FnameOk self c → (ex = true → gs.loopstack = []) → ∀ ps rest, KnownOk c gs ps rest → (∀ p ∈ ps ++ rest.toList, okParam p = true) →
  ∀ m₁ s₁ rs₁ env vid D f₀ m s rs cenv pre post, InAct m₁ s₁ rs₁ env vid D f₀ c.scopes m s rs → (fnOf s₁ vid).nargs = ps.length →
    ((fnOf s₁ vid).varargs = rest.isSome ∧ (fnOf s₁ vid).params = ps ++ rest.toList) →
    RelF m s rs cenv → GenOk gs r.2 s → LsOut pre gs.loops.length r.2.loops.length → Seg s pre r.1.1 post →
    SimT r.1.1 s₁ env D f₀ m s rs cenv (Ref.evalBegin n es cenv rs)

def TClaimC (n : Nat) : Prop :=
  ∀ ex self arms d, FzArms ex self arms = true → Fz ex self d = true → ∀ isFn c gs r gs0 rd,
    (compileArms isFn c arms).run gs = .ok r → (compile isFn c d).run gs0 = .ok rd → FnameOk self c →
  (ex = true → gs.loopstack = []) → (ex = true → gs0.loopstack = []) →
  ∀ ps rest, KnownOk c gs ps rest → KnownOk c gs0 ps rest → (∀ p ∈ ps ++ rest.toList, okParam p = true) →
  ∀ m₁ s₁ rs₁ env vid D f₀ m s rs cenv pre post, InAct m₁ s₁ rs₁ env vid D f₀ c.scopes m s rs → (fnOf s₁ vid).nargs = ps.length →
    ((fnOf s₁ vid).varargs = rest.isSome ∧ (fnOf s₁ vid).params = ps ++ rest.toList) →
    RelF m s rs cenv → GenOk gs r.2 s → GenOk gs0 rd.2 s →
    LsOut pre gs.loops.length r.2.loops.length → LsOut pre gs0.loops.length rd.2.loops.length →
    rd.2.loops.length ≤ gs.loops.length → Seg s pre (asmCond r.1 rd.1.1) post →
    SimT (asmCond r.1 rd.1.1) s₁ env D f₀ m s rs cenv (Ref.evalCond n arms d cenv rs)

theorem tclaimB_succ {n : Nat} (hFE : FClaimE n) (hXE : XClaimE n) (hE : TClaimE n) (hB : TClaimB n) : TClaimB (n + 1) := by
  intro ex self es hne hes isFn c gs r hc hfn hex ps rest hkn hps m₁ s₁ rs₁ env vid D f₀ m s rs cenv pre post hact hna hva hrel hgen hlo hseg
  match es, hne with
  | [e], _ =>
    rw [FzList] at hes
    rw [compileBegin] at hc
    rw [Ref.evalBegin]
    exact hE ex self e hes isFn c gs r hc hfn hex ps rest hkn hps m₁ s₁ rs₁ env vid D f₀ m s rs cenv pre post hact hna hva hrel hgen hlo hseg
  | e :: e' :: es', _ =>
    rw [FzList] at hes
    simp only [Bool.and_eq_true] at hes
    rw [compileBegin] at hc
    · simp only [g_bind_ok, g_pure_ok] at hc
      obtain ⟨ra, gs1, ha, rb, gs2, hb, rfl⟩ := hc
      have hfn' : FnameOk self { c with tail := false } := hfn
      obtain ⟨hane', tot1⟩ := tot_stmt hes.1 hfn' hex ha
      have hex1 : ex = true → gs1.loopstack = [] := fun h => by rw [tot1.1.loopstack]; exact hex h
      have tot2 := compileBegin_tot_Fz (by simp) hes.2 hfn hex1 hb
      have hane : ra.1.isEmpty = false := by simpa [List.isEmpty_eq_false_iff] using hane'
      simp only [hane, Bool.false_eq_true, if_false] at hseg hgen hlo ⊢
      rw [Ref.evalBegin]
      · have ih := simF_stmt hFE hXE hes.1 isFn _ gs (ra, gs1) ha hfn' hex m s rs cenv pre ([.pop] ++ rb.1 ++ post) hrel
          (hgen.first tot2.1) (hlo.mono (Nat.le_refl _) tot2.2.1) (hseg.refocus (by simp))
        cases h1 : Ref.eval n e cenv rs with
        | ok v1 rs1 =>
          rw [h1] at ih
          obtain ⟨s1, m1, w1, r1, l1, hv1, rel1, hm1, ext1, fr1, hcl1⟩ := ih
          obtain ⟨r2, m2⟩ := glue_pop hseg l1
          have hfr := fr1.trans (FrameF.jmp s1 (s1.pc + 1) s.data)
          have ih2 := hB ex self (e' :: es') (by simp) hes.2 isFn c gs1 (rb, gs2) hb hfn hex1 ps rest (hkn.keep tot1.1 rfl rfl) hps
            m₁ s₁ rs₁ env vid D f₀ m1 (s1.jmp (s1.pc + 1) s.data) rs1 cenv _ post (hact.moved m2 hfr hm1 ext1) hna hva (rel1.jmp _ _)
            ((hgen.rest tot1.1).frame hfr.toFrame)
            ((hlo.mono tot1.2.1 (Nat.le_refl _)).app ((tot1.2.2.below (Nat.le_refl _)).app (lsOut_pop _ _)))
            (hseg.moved m2 (c₁ := ra.1 ++ [.pop]) (c₂ := rb.1) (post' := post) rfl (by simp))
          exact SimT.seq (r1.trans r2.toX) m2 hm1 ext1 hfr ih2 (by lenarith)
        | err rs1 => rw [h1] at ih; exact ih
        | timeout => trivial
        | brk l rs1 => rw [h1] at ih; exact ih.elim
        | cont l rs1 => rw [h1] at ih; exact ih.elim
      · intro hh; cases hh
    · intro hh; cases hh

theorem tclaimN_succ {n : Nat} (hFE : FClaimE n) (hXE : XClaimE n) (hE : TClaimE n) (hN : TClaimN n) : TClaimN (n + 1) := by
  intro ex self es hne hes isFn c oldtail gs r hc hfn hex ps rest hkn hps m₁ s₁ rs₁ env vid D f₀ m s rs cenv pre post hact hna hva hrel hgen
    hlo hseg
  match es, hne with
  | [e], _ =>
    rw [FzList] at hes
    rw [compileNewScope] at hc
    rw [Ref.evalBegin]
    exact hE ex self e hes isFn _ gs r hc hfn hex ps rest (hkn.keep (KeepFns.refl _) rfl rfl) hps m₁ s₁ rs₁ env vid D f₀ m s rs cenv
      pre post hact hna hva hrel hgen hlo hseg
  | e :: e' :: es', _ =>
    rw [FzList] at hes
    simp only [Bool.and_eq_true] at hes
    rw [compileNewScope] at hc
    · simp only [g_bind_ok, g_pure_ok] at hc
      obtain ⟨ra, gs1, ha, rb, gs2, hb, rfl⟩ := hc
      have hfn' : FnameOk self { c with tail := false } := hfn
      obtain ⟨hane', tot1⟩ := tot_stmt hes.1 hfn' hex ha
      have hex1 : ex = true → gs1.loopstack = [] := fun h => by rw [tot1.1.loopstack]; exact hex h
      have tot2 := compileNewScope_tot_Fz (by simp) hes.2 hfn hex1 hb
      simp only at hgen hlo
      rw [Ref.evalBegin]
      · have ih := simF_stmt hFE hXE hes.1 isFn _ gs (ra, gs1) ha hfn' hex m s rs cenv pre ([.pop] ++ rb.1 ++ post) hrel
          (hgen.first tot2.1) (hlo.mono (Nat.le_refl _) tot2.2.1) (hseg.refocus (by simp))
        cases h1 : Ref.eval n e cenv rs with
        | ok v1 rs1 =>
          rw [h1] at ih
          obtain ⟨s1, m1, w1, r1, l1, hv1, rel1, hm1, ext1, fr1, hcl1⟩ := ih
          obtain ⟨r2, m2⟩ := glue_pop hseg l1
          have hfr := fr1.trans (FrameF.jmp s1 (s1.pc + 1) s.data)
          have ih2 := hN ex self (e' :: es') (by simp) hes.2 isFn c oldtail gs1 (rb, gs2) hb hfn hex1 ps rest (hkn.keep tot1.1 rfl rfl)
            hps m₁ s₁ rs₁ env vid D f₀ m1 (s1.jmp (s1.pc + 1) s.data) rs1 cenv _ post (hact.moved m2 hfr hm1 ext1) hna hva
            (rel1.jmp _ _) ((hgen.rest tot1.1).frame hfr.toFrame)
            ((hlo.mono tot1.2.1 (Nat.le_refl _)).app ((tot1.2.2.below (Nat.le_refl _)).app (lsOut_pop _ _)))
            (hseg.moved m2 (c₁ := ra.1 ++ [.pop]) (c₂ := rb.1) (post' := post) rfl (by simp))
          exact SimT.seq (r1.trans r2.toX) m2 hm1 ext1 hfr ih2 (by lenarith)
        | err rs1 => rw [h1] at ih; exact ih
        | timeout => trivial
        | brk l rs1 => rw [h1] at ih; exact ih.elim
        | cont l rs1 => rw [h1] at ih; exact ih.elim
      · intro hh; cases hh
    · intro hh; cases hh

theorem tclaimC_succ {n : Nat} (hFE : FClaimE n) (hE : TClaimE n) (hC : TClaimC n) : TClaimC (n + 1) := by
  intro ex self arms d harms hd isFn c gs r gs0 rd hc hcd hfn hex hex0 ps rest hkn hkn0 hps m₁ s₁ rs₁ env vid D f₀ m s rs cenv pre post
    hact hna hva hrel hgen hgend hlo hlod hdl hseg
  match arms with
  | [] =>
    rw [compileArms] at hc; simp only [g_pure_ok] at hc; subst hc
    rw [Ref.evalCond]
    simp only [asmCond] at hseg ⊢
    exact hE ex self d hd isFn c gs0 rd hcd hfn hex0 ps rest hkn0 hps m₁ s₁ rs₁ env vid D f₀ m s rs cenv pre post hact hna hva hrel hgend
      hlod hseg
  | (p, b) :: arms' =>
    rw [FzArms] at harms
    simp only [Bool.and_eq_true] at harms
    rw [compileArms] at hc
    simp only [g_bind_ok, g_pure_ok] at hc
    obtain ⟨restA, gs1, hrest, rp, gs2, hp, rb, gs3, hb, rfl⟩ := hc
    have hfn' : FnameOk self { c with tail := false } := hfn
    have totr := compileArms_tot_Fz harms.2 hfn hex hrest
    have totp := compile_tot_Ff harms.1.1 hfn' hp
    have hex2 : ex = true → gs2.loopstack = [] := fun h => by rw [totp.1.loopstack, totr.1.loopstack]; exact hex h
    obtain ⟨_, totb⟩ := compile_tot_Fz harms.1.2 hfn hex2 hb
    have l01 : gs.loops.length ≤ gs1.loops.length := totr.2.1
    have l12 : gs1.loops.length ≤ gs2.loops.length := totp.2.1
    have l23 : gs2.loops.length ≤ gs3.loops.length := totb.2.1
    rw [Ref.evalCond]
    simp only [asmCond] at hseg hgen hlo ⊢
    have ih := hFE true self p harms.1.1 isFn _ gs1 (rp, gs2) hp hfn' m s rs cenv pre _ hrel
      (fun _ => (hgen.rest totr.1).first totb.1) (hseg.refocus (c' := rp.1)
      (post' := [.branch false (rb.1.length + 2)] ++ rb.1 ++ [.jump ((asmCond restA rd.1.1).length + 1)]
        ++ asmCond restA rd.1.1 ++ post) (by simp))
    cases h1 : Ref.eval n p cenv rs with
    | ok v1 rs1 =>
      rw [h1] at ih
      obtain ⟨s1, m1, w1, r1, l1, hv1, rel1, hm1, ext1, fr1, hcl1⟩ := ih
      simp only
      have htr : truthy v1 = truthy w1 := by rw [hv1]; exact truthy_tr m1 id id w1
      by_cases ht : truthy w1 = true
      · rw [htr, if_pos ht]
        obtain ⟨r2, m2⟩ := glue_brn_fall hseg l1 ht
        have hfr := fr1.trans (FrameF.jmp s1 (s1.pc + 1) s.data)
        have ih2 := hE ex self b harms.1.2 isFn c gs2 (rb, gs3) hb hfn hex2 ps rest (hkn.keep (totr.1.trans totp.1) rfl rfl) hps
          m₁ s₁ rs₁ env vid D f₀ m1 (s1.jmp (s1.pc + 1) s.data) rs1 cenv _ _ (hact.moved m2 hfr hm1 ext1) hna hva (rel1.jmp _ _)
          ((hgen.rest (totr.1.trans totp.1)).frame hfr.toFrame)
          ((hlo.mono (Nat.le_trans l01 l12) (Nat.le_refl _)).app
            ((totp.2.2.below (Nat.le_refl _)).app (lsOut_one (.branch false (rb.1.length + 2)) _ _)))
          (hseg.moved m2 (c₁ := rp.1 ++ [.branch false (rb.1.length + 2)]) (c₂ := rb.1)
            (post' := [.jump ((asmCond restA rd.1.1).length + 1)] ++ asmCond restA rd.1.1 ++ post)
            (by simp) (by simp))
        exact SimT.cond_exit hseg (r1.trans r2.toX) m2 hm1 ext1 hfr ih2
      · rw [htr, if_neg ht]
        obtain ⟨r2, m2⟩ := glue_brn_taken hseg l1 (by simpa using ht)
        have hfr := fr1.trans (FrameF.jmp s1 (s1.pc + ((rb.1.length : Int) + 2)) s.data)
        have hk13 := totp.1.trans totb.1
        have ih2 := hC ex self arms' d harms.2 hd isFn c gs (restA, gs1) gs0 rd hrest hcd hfn hex hex0 ps rest hkn hkn0 hps
          m₁ s₁ rs₁ env vid D f₀ m1 (s1.jmp (s1.pc + ((rb.1.length : Int) + 2)) s.data) rs1 cenv _ post
          (hact.moved m2 hfr hm1 ext1) hna hva (rel1.jmp _ _)
          ((hgen.first hk13).frame hfr.toFrame) (hgend.frame hfr.toFrame)
          ((hlo.mono (Nat.le_refl _) (Nat.le_trans l12 l23)).app
            ((((totp.2.2.above (Nat.le_refl _)).app (lsOut_one (.branch false (rb.1.length + 2)) _ _)).app
              (totb.2.2.above l12)).app (lsOut_one (.jump ((asmCond restA rd.1.1).length + 1)) _ _)))
          (hlod.app
            ((((totp.2.2.above (Nat.le_trans hdl l01)).app (lsOut_one (.branch false (rb.1.length + 2)) _ _)).app
              (totb.2.2.above (Nat.le_trans hdl (Nat.le_trans l01 l12)))).app
              (lsOut_one (.jump ((asmCond restA rd.1.1).length + 1)) _ _)))
          hdl
          (hseg.moved m2 (c₁ := rp.1 ++ [.branch false (rb.1.length + 2)] ++ rb.1
              ++ [.jump ((asmCond restA rd.1.1).length + 1)]) (c₂ := asmCond restA rd.1.1) (post' := post)
            (by simp) (by lenarith))
        exact SimT.seq (r1.trans r2.toX) m2 hm1 ext1 hfr ih2 (by lenarith)
    | err rs1 => rw [h1] at ih; exact ih
    | timeout => trivial
    | brk l rs1 => rw [h1] at ih; exact ih.elim
    | cont l rs1 => rw [h1] at ih; exact ih.elim

theorem tclaimE_succ {n : Nat} (hFE1 : FClaimE (n + 1)) (hXE1 : XClaimE (n + 1)) (hV : TClaimV n) (hA : FClaimA n)
    (hU : FClaimU n) (hG : ∀ k, n = k + 1 → ∀ name, hoB name → FClaimH k name) (hL : FClaimL n) (hP : FClaimP n) (hB : TClaimB n) (hC : TClaimC n)
    (hN : TClaimN n) : TClaimE (n + 1) := by
  intro ex self e he isFn c gs r hc hfn hex ps rest hkn hps m₁ s₁ rs₁ env vid D f₀ m s rs cenv pre post hact hna hva hrel hgen hlo hseg
  have hff : Ff true self e = true → SimT r.1.1 s₁ env D f₀ m s rs cenv (Ref.eval (n + 1) e cenv rs) := fun h =>
    (hFE1 true self e h isFn c gs r hc hfn m s rs cenv pre post hrel (fun _ => hgen) hseg).toT
  cases e with
  | call f args =>
    cases f with
    | sym h =>
      rw [Fz] at he
      simp only [Bool.and_eq_true, Bool.or_eq_true] at he
      cases n with
      | zero => rw [Ref.eval, Ref.eval]; trivial
      | succ k =>
        exact simT_selfcall hV hA hU (hG k rfl) he.1.1.1 he.1.1.2 he.1.2 he.2 isFn c gs r hc hfn hkn hps hact hna hva.1 hva.2 hrel hseg
    | _ =>
      rw [fz_call_nonsym (fun _ hh => by cases hh)] at he
      exact hff he
  | begin_ es =>
    rw [Fz] at he
    cases es with
    | nil => exact hff (by simp [Ff, FfList])
    | cons e0 es0 =>
      rw [compile] at hc
      · rw [Ref.eval]
        exact hB ex self (e0 :: es0) (by simp) he isFn c gs r hc hfn hex ps rest hkn hps m₁ s₁ rs₁ env vid D f₀ m s rs cenv pre post
          hact hna hva hrel hgen hlo hseg
      · intro hh; cases hh
  | cond arms d =>
    rw [Fz] at he
    simp only [Bool.and_eq_true] at he
    rw [compile] at hc
    simp only [g_bind_ok, g_pure_ok] at hc
    obtain ⟨rd, gs1, hd, as, gs2, has, rfl⟩ := hc
    obtain ⟨_, totd⟩ := compile_tot_Fz he.2 hfn hex hd
    have hex1 : ex = true → gs1.loopstack = [] := fun h => by rw [totd.1.loopstack]; exact hex h
    have tota := compileArms_tot_Fz he.1 hfn hex1 has
    rw [Ref.eval]
    exact hC ex self arms d he.1 he.2 isFn c gs1 (as, gs2) gs (rd, gs1) has hd hfn hex1 hex ps rest (hkn.keep totd.1 rfl rfl) hkn hps
      m₁ s₁ rs₁ env vid D f₀ m s rs cenv pre post hact hna hva hrel (hgen.rest totd.1) (hgen.first tota.1)
      (hlo.mono totd.2.1 (Nat.le_refl _)) (hlo.mono (Nat.le_refl _) tota.2.1) (Nat.le_refl _) hseg
  | newScope es =>
    rw [Fz] at he
    simp only [Bool.and_eq_true, Bool.not_eq_true', List.isEmpty_eq_false_iff] at he
    cases es with
    | nil => exact absurd rfl he.1
    | cons e0 es0 =>
      rw [compile] at hc
      · simp only [g_bind_ok, g_pure_ok] at hc
        obtain ⟨ra, gs1, ha, rfl⟩ := hc
        rw [Ref.eval]
        show SimT _ s₁ env D f₀ m s rs cenv (Ref.evalBegin n (e0 :: es0) rs.frames.length (Ref.newFrame rs cenv).2)
        exact SimT.scoped hseg hrel (hN ex self (e0 :: es0) he.1 he.2 isFn _ _ gs (ra, gs1) ha hfn hex ps rest
          (hkn.keep (KeepFns.refl _) rfl rfl) hps m₁ s₁ rs₁ env vid D f₀ m _ _ _ _ _ (hact.pushScope cenv) hna hva
          hrel.pushScope (hgen.mono (FnsKeep.of_fns_eq rfl)) (hlo.app (lsOut_one .addScope _ _)) hseg.inner)
      · intro hh; cases hh
  | let_ seq bs body =>
    rw [Fz] at he
    simp only [Bool.and_eq_true, Bool.not_eq_true', List.isEmpty_eq_false_iff] at he
    obtain ⟨⟨⟨hseq, hbody⟩, hbs⟩, hbl⟩ := he
    rw [compile] at hc
    simp only [g_bind_ok, g_pure_ok] at hc
    obtain ⟨ra, gs1, ha, rb, gs2, hb, rfl⟩ := hc
    have hfn' : FnameOk self { c with scopes := c.scopes + 1, tail := false } := hfn
    have hfn'' : FnameOk self { c with scopes := c.scopes + 1 } := hfn
    have hk1 := compileBinds_keep_Ff hbs ha hfn'
    have hl1 := compileBinds_ls_Ff true self bs hbs isFn _ seq gs _ ha hfn'
    have hex1 : ex = true → gs1.loopstack = [] := fun h => by rw [hk1.1.loopstack]; exact hex h
    have tot2 := compileBegin_tot_Fz hbody hbl hfn'' hex1 hb
    cases seq
    · -- parallel
      have hnd : (bs.map (·.1)).Nodup := by simpa using hseq
      have hcode : ([Instr.addScope] ++ ra.1 ++ (if False then [] else (List.map (fun p => Instr.popStackPutEnv p.fst) bs).reverse)
          ++ rb.1 ++ [Instr.removeScope])
          = [Instr.addScope] ++ (ra.1 ++ (bs.map (fun p => Instr.popStackPutEnv p.1)).reverse ++ rb.1) ++ [Instr.removeScope] := by
        simp
      simp only [Bool.false_eq_true, hcode] at hseg hgen hlo ⊢
      rw [Ref.eval]
      show SimT _ s₁ env D f₀ m s rs cenv (if false = true then _ else
          (match Ref.evalList n (bs.map (·.2)) rs.frames.length (Ref.newFrame rs cenv).2 with
           | .ok vs s => (match Ref.bindAll s rs.frames.length (bs.map (·.1)) vs with
              | some s => Ref.evalBegin n body rs.frames.length s
              | none => .err s)
           | .err s => .err s | .brk l s => .brk l s | .cont l s => .cont l s | .timeout => .timeout))
      rw [if_neg (by decide)]
      refine SimT.scoped hseg hrel ?_
      have hseg1 := hseg.inner
      have hUb := letpar_binds hP isFn _ gs (ra, gs1) ha hfn' hnd hbs m s.pushScope (Ref.newFrame rs cenv).2 rs.frames.length _ _
        hrel.pushScope (fun _ => (hgen.first tot2.1).mono (FnsKeep.of_fns_eq rfl))
        (hseg1.refocus (c' := ra.1 ++ (bs.map (fun p => Instr.popStackPutEnv p.1)).reverse)
          (post' := rb.1 ++ ([.removeScope] ++ post)) (by simp))
      cases h1 : Ref.evalList n (bs.map (·.2)) rs.frames.length (Ref.newFrame rs cenv).2 with
      | ok vs rs2 =>
        rw [h1] at hUb
        simp only at hUb ⊢
        cases h2 : Ref.bindAll rs2 rs.frames.length (bs.map (·.1)) vs with
        | some rs3 =>
          rw [h2] at hUb
          obtain ⟨s2, m2, r2, mv2, rel2, hm2, ext2, fr2⟩ := hUb
          simp only
          have ihb := hB ex self body hbody hbl isFn _ gs1 (rb, gs2) hb hfn'' hex1 ps rest (hkn.keep hk1.1 rfl rfl) hps
            m₁ s₁ rs₁ env vid D f₀ m2 s2 rs3 _ _ _ ((hact.pushScope cenv).moved mv2 fr2 hm2 ext2) hna hva rel2
            (((hgen.rest hk1.1).mono (s' := s.pushScope) (FnsKeep.of_fns_eq rfl)).frame fr2.toFrame)
            (((hlo.mono hl1.1 (Nat.le_refl _)).app (lsOut_one .addScope _ _)).app
              (LsOut.app (hl1.2.below (Nat.le_refl _))
                (fun l hl => by simp only [List.mem_reverse, List.mem_map] at hl; obtain ⟨_, _, hh⟩ := hl; cases hh)))
            (hseg1.moved mv2 (c₁ := ra.1 ++ (bs.map (fun p => Instr.popStackPutEnv p.1)).reverse) (c₂ := rb.1)
              (post' := [.removeScope] ++ post) (by simp) rfl)
          exact SimT.seq r2 mv2 hm2 ext2 fr2 ihb (by simp only [List.length_append])
        | none => rw [h2] at hUb; exact hUb
      | err rs2 => rw [h1] at hUb; exact hUb
      | timeout => trivial
      | brk l rs2 => rw [h1] at hUb; exact hUb.elim
      | cont l rs2 => rw [h1] at hUb; exact hUb.elim
    · -- sequential
      have hcode : ([Instr.addScope] ++ ra.1 ++ (if True then [] else (List.map (fun p => Instr.popStackPutEnv p.fst) bs).reverse)
          ++ rb.1 ++ [Instr.removeScope]) = [Instr.addScope] ++ (ra.1 ++ rb.1) ++ [Instr.removeScope] := by simp
      simp only [hcode] at hseg hgen hlo ⊢
      rw [Ref.eval]
      show SimT _ s₁ env D f₀ m s rs cenv (if true = true then
          (match Ref.evalLetSeq n bs rs.frames.length (Ref.newFrame rs cenv).2 with
           | .ok _ s => Ref.evalBegin n body rs.frames.length s
           | .err s => .err s | .brk l s => .brk l s | .cont l s => .cont l s | .timeout => .timeout)
        else _)
      rw [if_pos rfl]
      refine SimT.scoped hseg hrel ?_
      have hseg1 := hseg.inner
      have hUl := hL true self bs hbs isFn _ gs (ra, gs1) ha hfn' m _ _ _ _ _ hrel.pushScope
        (fun _ => (hgen.first tot2.1).mono (FnsKeep.of_fns_eq rfl))
        (hseg1.refocus (c' := ra.1) (post' := rb.1 ++ ([.removeScope] ++ post)) (by simp))
      cases h1 : Ref.evalLetSeq n bs rs.frames.length (Ref.newFrame rs cenv).2 with
      | ok u rs2 =>
        rw [h1] at hUl
        obtain ⟨s2, m2, r2, mv2, rel2, hm2, ext2, fr2⟩ := hUl
        have ihb := hB ex self body hbody hbl isFn _ gs1 (rb, gs2) hb hfn'' hex1 ps rest (hkn.keep hk1.1 rfl rfl) hps
          m₁ s₁ rs₁ env vid D f₀ m2 s2 rs2 _ _ _ ((hact.pushScope cenv).moved mv2 fr2 hm2 ext2) hna hva rel2
          (((hgen.rest hk1.1).mono (s' := s.pushScope) (FnsKeep.of_fns_eq rfl)).frame fr2.toFrame)
          (((hlo.mono hl1.1 (Nat.le_refl _)).app (lsOut_one .addScope _ _)).app (hl1.2.below (Nat.le_refl _)))
          (hseg1.moved mv2 (c₁ := ra.1) (c₂ := rb.1) (post' := [.removeScope] ++ post) (by simp) rfl)
        exact SimT.seq r2 mv2 hm2 ext2 fr2 ihb (by lenarith)
      | err rs2 => rw [h1] at hUl; exact hUl
      | timeout => trivial
      | brk l rs2 => rw [h1] at hUl; exact hUl.elim
      | cont l rs2 => rw [h1] at hUl; exact hUl.elim
  | for_ l i t st b =>
    rw [Fz] at he
    exact (simF_stmt hFE1 hXE1 (fs_of_stmt he) isFn c gs r hc hfn hex m s rs cenv pre post hrel hgen hlo hseg).toT
  | int v => rw [Fz] at he; exact hff he
  | bool v => rw [Fz] at he; exact hff he
  | str v => rw [Fz] at he; exact hff he
  | nilLit => rw [Fz] at he; exact hff he
  | sym x => rw [Fz] at he; exact hff he
  | arr es => rw [Fz] at he; exact hff he
  | def_ x e => rw [Fz] at he; exact hff he
  | set_ x e => rw [Fz] at he; exact hff he
  | and_ es => rw [Fz] at he; exact hff he
  | or_ es => rw [Fz] at he; exact hff he
  | fn ps' rest' body =>
    rw [Fz] at he
    simp only [Bool.or_eq_true] at he
    rcases he with he | he
    · exact hff he
    · simp only [Bool.and_eq_true, decide_eq_true_eq, Bool.not_eq_true', List.isEmpty_eq_false_iff, List.all_eq_true] at he
      exact (simF_fnZ he.1.1.1.1 he.1.1.1.2 he.1.1.2 he.1.2 he.2 isFn c gs hex r hc m s rs cenv
        pre post hrel hgen hseg).toT
  | defn name ps' rest' body =>
    rw [Fz] at he
    simp only [Bool.or_eq_true] at he
    rcases he with he | he
    · exact hff he
    · simp only [Bool.and_eq_true, bne_iff_ne, ne_eq, decide_eq_true_eq, Bool.not_eq_true', List.isEmpty_eq_false_iff,
        List.all_eq_true] at he
      exact (simF_defnZ he.1.1.1.1.1.1 he.1.1.1.1.1.2 he.1.1.1.1.2 he.1.1.1.2 he.1.1.2 he.1.2 he.2 isFn c gs hex r hc m s rs cenv
        pre post hrel hgen hseg).toT
  | assign _ _ => simp [Fz] at he
  | bad _ => simp [Fz] at he
  | break_ _ => simp [Fz] at he
  | continue_ _ => simp [Fz] at he

theorem tclaims_zero : TClaimV 0 ∧ TClaimE 0 ∧ TClaimB 0 ∧ TClaimC 0 ∧ TClaimN 0 := by
  refine ⟨?_, ?_, ?_, ?_, ?_⟩
  · intro self args hargs hfa isFn c f i gs r hc hfn lazyAt hlz m s rs env pre post hrel hseg
    rw [Ref.evalArgs]; trivial
  · intro ex self e he isFn c gs r hc hfn hex ps rest hkn hps m₁ s₁ rs₁ env vid D f₀ m s rs cenv pre post hact hna hva hrel hgen hlo hseg
    rw [Ref.eval]; trivial
  · intro ex self es hne hes isFn c gs r hc hfn hex ps rest hkn hps m₁ s₁ rs₁ env vid D f₀ m s rs cenv pre post hact hna hva hrel hgen hlo
      hseg
    rw [Ref.evalBegin]; trivial
  · intro ex self arms d harms hd isFn c gs r gs0 rd hc hcd hfn hex hex0 ps rest hkn hkn0 hps m₁ s₁ rs₁ env vid D f₀ m s rs cenv pre post
      hact hna hva hrel hgen hgend hlo hlod hdl hseg
    rw [Ref.evalCond]; trivial
  · intro ex self es hne hes isFn c oldtail gs r hc hfn hex ps rest hkn hps m₁ s₁ rs₁ env vid D f₀ m s rs cenv pre post hact hna hva hrel
      hgen hlo hseg
    rw [Ref.evalBegin]; trivial

/-! ## Applying a closure object (`FClaimU`): the body is in tail position -/

theorem vOk_mkList {m : Nat → Nat} {s : St} {rs : Ref.St} : ∀ (xs : List Val), (∀ w ∈ xs, VOk m s rs w) → VOk m s rs (mkList xs)
  | [], _ => vOk_lit .nil (fun _ _ _ => rfl)
  | x :: xs, h => valIn_pair (h x (List.mem_cons_self ..)) (vOk_mkList xs (fun w hw => h w (List.mem_cons_of_mem _ hw)))

theorem fclaimU_succ {n : Nat} (hB : TClaimB n) : FClaimU (n + 1) := by
  intro m s₁ rs₁ env vid c' vs₀ D f₀ hrel hg hcc hd₀ hvs₀ har
  obtain ⟨c, hc1, hrest, hnd, hokp, hbody, hparams, hnargs, hvar, huser, hel, _,
    t, b, tl, isFn, cb, gs0, gs1, self, hcode, htlt, htclo, hcomp, hsc0, hfname, ⟨ex, hff, hexg⟩, hgen, hkn⟩ := hg.clo
  have hcc' : c' = c := by rw [hcc] at hc1; injection hc1
  subst hcc'
  have hokF := okParam_all hokp hrest
  -- the reference side
  rw [Ref.applyFn]
  simp only [hc1, ref_bindParams_eq c'.ps c'.rest (vs₀.map (trf m)) (by rw [List.length_map]; exact har), bvals_map]
  -- the formals and the values bound to them
  have hvl0 : (bvals c'.rest c'.ps.length vs₀).length = (c'.ps ++ c'.rest.toList).length := by
    rw [bvals_length har, List.length_append]
  have hvsb : ∀ v ∈ bvals c'.rest c'.ps.length vs₀, VOk m s₁ rs₁ v := by
    intro v hv
    cases hr : c'.rest with
    | none => rw [hr] at hv; exact hvs₀ v hv
    | some r =>
      rw [hr] at hv
      simp only [bvals, List.mem_append, List.mem_singleton] at hv
      rcases hv with hv | hv
      · exact hvs₀ v (List.mem_of_mem_take hv)
      · subst hv
        exact vOk_mkList _ (fun w hw => hvs₀ w (List.mem_of_mem_drop hw))
  have hdE : (enteredA s₁ vid c'.rest c'.ps.length vs₀ D).data = (bvals c'.rest c'.ps.length vs₀).reverse.map some ++ D := rfl
  generalize hbv : bvals c'.rest c'.ps.length vs₀ = vs at hvl0 hvsb hdE
  generalize hFe : c'.ps ++ c'.rest.toList = F at hvl0 hnd hparams hcode hokF
  have hvl : vs.length = F.length := hvl0
  have hvs := hvsb
  -- the reference state at the start of the body
  have hnf : (Ref.newFrame rs₁ c'.env) = (rs₁.frames.length, { rs₁ with frames := rs₁.frames ++ [{ parent := some c'.env }] }) := rfl
  have hfold := foldl_setVar rs₁.frames.length (F.zip (vs.map (trf m)))
    { rs₁ with frames := rs₁.frames ++ [{ parent := some c'.env }] } { parent := some c'.env }
    (by show (rs₁.frames ++ [_])[rs₁.frames.length]? = _; simp)
  generalize hrsB : (F.zip (vs.map (trf m))).foldl (fun s (p : String × Val) => Ref.setVar s rs₁.frames.length p.1 p.2)
    { rs₁ with frames := rs₁.frames ++ [{ parent := some c'.env }] } = rsB at hfold
  have hfrB : rsB.frames = rs₁.frames ++ [({ vars := bindsVars [] (F.zip (vs.map (trf m))), parent := some c'.env } : Ref.Frame)] := by
    rw [hfold]; show (rs₁.frames ++ [_]).set rs₁.frames.length _ = _
    simp
  have hclB : rsB.clos = rs₁.clos := by rw [hfold]
  have hhpB : rsB.heap = rs₁.heap := by rw [hfold]
  have htrB : rsB.trace = rs₁.trace := by rw [hfold]
  show (match (match Ref.evalBegin n c'.body rs₁.frames.length
        ((F.zip (vs.map (trf m))).foldl (fun s (p : String × Val) => Ref.setVar s rs₁.frames.length p.1 p.2)
          { rs₁ with frames := rs₁.frames ++ [{ parent := some c'.env }] }) with
      | .ok v s => Ref.R.ok v s | .brk _ s => .err s | .cont _ s => .err s | r => r) with
    | .ok v' rs' => _ | .err rs' => _ | .timeout => _ | .brk _ _ => _ | .cont _ _ => _)
  rw [hrsB]
  -- the machine: function scope, parameters
  have hcur1 := hrel.ctx
  obtain ⟨b0, hch, hfc⟩ := hcur1
  have a2 : At ((enteredA s₁ vid c'.rest c'.ps.length vs₀ D)) [] (.addFuncScope t)
      ((F.map Instr.popStackPutEnv).reverse ++ b ++ [.removeScope, .ret]) :=
    ⟨huser, by show (fnOf s₁ vid).code = _; rw [hcode]; simp [fnCode], rfl⟩
  have r2 : ReachX ((enteredA s₁ vid c'.rest c'.ps.length vs₀ D)) (((enteredA s₁ vid c'.rest c'.ps.length vs₀ D)).pushFnScope t) :=
    (Reach.step a2 (fun f => exec_addFuncScope f t _)).toX
  generalize hs3 : ((enteredA s₁ vid c'.rest c'.ps.length vs₀ D)).pushFnScope t = s₃ at r2
  have hzl : (F.zip vs).map (·.1) = F := List.map_fst_zip (by omega)
  have hzr : (F.zip vs).map (·.2) = vs := List.map_snd_zip (by omega)
  have hpairs1 : ((F.zip vs).reverse).map (fun p => Instr.popStackPutEnv p.1) = (F.map Instr.popStackPutEnv).reverse := by
    have := congrArg (List.map Instr.popStackPutEnv) hzl
    rw [List.map_map] at this
    rw [List.map_reverse]; exact congrArg List.reverse this
  have hpairs2 : ((F.zip vs).reverse).map (fun p => some p.2) = vs.reverse.map some := by
    have := congrArg (List.map (some : Val → Option Val)) hzr
    rw [List.map_map] at this
    rw [List.map_reverse, List.map_reverse]; exact congrArg List.reverse this
  have hsc3 : s₃.scopes = s₁.scopes ++ [({ isFunction := true, myFunction := some t } : Scope)] := by subst hs3; rfl
  have hscope3 : scopeOf s₃ s₁.scopes.length = { isFunction := true, myFunction := some t } := by
    unfold scopeOf; rw [hsc3]; simp [List.getD_eq_getElem?_getD]
  have r4 := reach_params (F.zip vs).reverse s₃ [.addFuncScope t] (b ++ [.removeScope, .ret]) D s₁.scopes.length s₁.linear
    (by subst hs3; exact huser)
    (by subst hs3; show (fnOf s₁ vid).code = _; rw [hcode, hpairs1]; simp [fnCode])
    (by subst hs3; rfl) (by subst hs3; rw [hpairs2]; exact hdE) (by subst hs3; rfl)
    (by rw [hsc3]; simp) (fun x _ => by rw [hscope3]; rfl)
    (by rw [List.map_reverse, hzl]; exact nodup_reverse' hnd)
  generalize hs4 : afterParams s₃ s₁.scopes.length (F.zip vs).reverse D = s₄ at r4
  have hsc4 : s₄.scopes = s₁.scopes ++ [({ vars := bindsVars [] (F.zip vs).reverse, isFunction := true, myFunction := some t } : Scope)] := by
    subst hs4; unfold afterParams
    show s₃.scopes.set s₁.scopes.length _ = _
    rw [hscope3, hsc3]; simp
  have hlin4 : s₄.linear = some s₁.scopes.length :: s₁.linear := by subst hs4; subst hs3; rfl
  have hfns4 : s₄.fns = s₁.fns := by subst hs4; subst hs3; rfl
  have hcur4 : s₄.curfunc = vid := by subst hs4; subst hs3; rfl
  have hpc4 : s₄.pc = ((1 + F.length : Nat) : Int) := by
    subst hs4; subst hs3; show (0 : Int) + 1 + ((F.zip vs).reverse.length : Nat) = _
    simp [hvl] <;> omega
  have hd4 : s₄.data = D := by subst hs4; rfl
  have haddr4 : s₄.addr = some (s₁.curfunc, s₁.pc + 1) :: s₁.addr := by subst hs4; subst hs3; rfl
  have hsusp4 : s₄.suspended = s₁.suspended := by subst hs4; subst hs3; rfl
  have hloops4 : s₄.loops = s₁.loops := by subst hs4; subst hs3; rfl
  -- the relation at the start of the body
  have hndz : ((F.zip vs).map (·.1)).Nodup := by rw [hzl]; exact hnd
  have hndz' : ((F.zip (vs.map (trf m))).map (·.1)).Nodup := by
    rw [List.map_fst_zip (by simp; omega)]; exact hnd
  have hgW : GoodFn m (s₁.withCur f₀) rs₁ vid :=
    hg.mono (FnsKeep.of_fns_eq rfl) (Nat.le_refl _) (fun _ _ => rfl) (RExt.refl _) rfl
  have hvsW : ∀ w ∈ vs, VOk m (s₁.withCur f₀) rs₁ w := fun w hw =>
    ValIn.mono (hvs w hw) (fun id hgd => hgd.mono (FnsKeep.of_fns_eq rfl) (Nat.le_refl _) (fun _ _ => rfl) (RExt.refl _) rfl)
  have relB : RelF m s₄ rsB rs₁.frames.length := by
    refine hrel.enter hgW (fun c' hc' => by rw [hc1] at hc'; injection hc' with hc'; rw [hc']) s₄ rsB t _ _ hsc4 hlin4 hfns4 hcur4 (by subst hs4; subst hs3; rfl) (by subst hs4; subst hs3; rfl)
      hfrB hclB hhpB htrB htclo (fun y => ?_) (fun y v hv => ?_) (fun h hh => ?_) hloops4
      (by subst hs4; subst hs3; rfl) (by rw [hfold])
    · rw [lookup_bindsVars, lookup_bindsVars, List.reverse_reverse, lookup_reverse_of_nodup _ hndz', lookup_zip_map]
      cases (F.zip vs).lookup y <;> rfl
    · rw [lookup_bindsVars, List.reverse_reverse] at hv
      cases hz : (F.zip vs).lookup y with
      | none => rw [hz] at hv; cases hv
      | some w => rw [hz] at hv; injection hv with hv; subst hv; exact hvsW w (lookup_zip_mem hz).2
    · rw [lookup_bindsVars, lookup_reverse_of_nodup _ hndz', lookup_zip_none]
      · rfl
      · intro hm
        have := okName_binder (okParam_name (hokF h hm))
        unfold okBinder at this
        simp only [Bool.not_eq_true', List.contains_eq_mem, decide_eq_false_iff_not] at this
        exact this hh
  -- the body
  have hseg4 : Seg s₄ ([.addFuncScope t] ++ (F.map Instr.popStackPutEnv).reverse) b [.removeScope, .ret] :=
    ⟨by rw [hcur4]; unfold fnOf; rw [hfns4]; exact huser, by rw [hcur4]; show (fnOf s₄ vid).code = _; unfold fnOf; rw [hfns4]; exact hcode.trans (by simp [fnCode]),
      by rw [hpc4]; simp; omega⟩
  have hfl14 : ∀ i, i < s₁.scopes.length → isFnScope s₄ i = isFnScope s₁ i := fun i hi => by
    unfold isFnScope scopeOf; rw [hsc4]; simp only [List.getD_eq_getElem?_getD, List.getElem?_append_left hi]
  have hscl14 : s₁.scopes.length ≤ s₄.scopes.length := by rw [hsc4]; simp
  have hext1B : FramesExt rs₁ rsB := fun i fr hf =>
    ⟨fr, by rw [hfrB, List.getElem?_append_left (lt_of_getElem?_some hf)]; exact hf, rfl⟩
  have hact : InAct m s₁ rs₁ env vid D f₀ cb.scopes m s₄ rsB :=
    ⟨hrel, hg, hcur4, haddr4, hsusp4, hd4, ⟨[], by rw [hlin4]; rfl, by rw [hsc0]; rfl⟩, by rw [hfns4]; exact Nat.le_refl _,
      fun id _ => by unfold fnOf; rw [hfns4], by rw [hloops4]; exact Nat.le_refl _, fun id _ => by rw [hloops4], hscl14, hfl14,
      MExt.refl _ _, ⟨hext1B, fun i c' hc' => by rw [hclB]; exact hc'⟩⟩
  have hlo4 : LsOut ([.addFuncScope t] ++ (F.map Instr.popStackPutEnv).reverse) gs0.loops.length gs1.loops.length :=
    fun l hl => by simp at hl
  have hsim := hB ex self c'.body hbody hff isFn cb gs0 ((b, tl), gs1) hcomp hfname hexg c'.ps c'.rest hkn (hFe ▸ hokF) m s₁ rs₁ env vid D f₀ m s₄ rsB
    rs₁.frames.length _ _ hact hnargs ⟨hvar, by rw [hFe]; exact hparams⟩ relB (hgen.mono (FnsKeep.of_fns_eq hfns4 (LoopsExt.of_eq hloops4))) hlo4 hseg4
  have hreach4 : ReachX ((enteredA s₁ vid c'.rest c'.ps.length vs₀ D)) s₄ := r2.trans r4
  cases hres : Ref.evalBegin n c'.body rs₁.frames.length rsB with
  | ok v' rs' =>
    rw [hres] at hsim
    simp only
    rcases hsim with hsim | hret
    rotate_left
    · obtain ⟨s', m', v, r, hpc, hdata, hv, rel, hm', ext, fr, hcl⟩ := hret
      exact ⟨s', m', v, hreach4.trans r, hpc, hdata, hv, rel, fun id hid => hm' id (by rw [hfns4]; exact hid),
        ⟨hext1B.trans ext.1, fun i c hc => ext.2 i c (by rw [hclB]; exact hc)⟩, fr, hcl⟩
    obtain ⟨s₅, m₅, v, r5, l5, hv5, rel5, hm5, ext5, fr5, hcl5⟩ := hsim
    -- removeScope, ret
    have hcode5 : (fnOf s₅ s₅.curfunc).code = fnCode t F b := by rw [l5.fn, hcur4]; unfold fnOf; rw [hfns4]; exact hcode
    have huser5 : (fnOf s₅ s₅.curfunc).user = false := by rw [l5.fn, hcur4]; unfold fnOf; rw [hfns4]; exact huser
    have a5 : At s₅ ([.addFuncScope t] ++ (F.map Instr.popStackPutEnv).reverse ++ b) .removeScope [.ret] :=
      ⟨huser5, by rw [hcode5]; simp [fnCode], by rw [l5.pc, hpc4]; simp; omega⟩
    have hlin5 : s₅.linear = some s₁.scopes.length :: s₁.linear := by rw [fr5.linear, hlin4]
    have r6 : ReachX s₅ { s₅ with pc := s₅.pc + 1, linear := s₁.linear } :=
      (Reach.step a5 (fun f => by rw [exec_removeScope, hlin5])).toX
    have a6 : At ({ s₅ with pc := s₅.pc + 1, linear := s₁.linear } : St)
        ([.addFuncScope t] ++ (F.map Instr.popStackPutEnv).reverse ++ b ++ [.removeScope]) .ret [] :=
      ⟨huser5, by show (fnOf s₅ s₅.curfunc).code = _; rw [hcode5]; simp [fnCode],
        by show s₅.pc + 1 = _; rw [l5.pc, hpc4]; simp; omega⟩
    have haddr5 : s₅.addr = some (s₁.curfunc, s₁.pc + 1) :: s₁.addr := by rw [fr5.addr, haddr4]
    have r7 : ReachX ({ s₅ with pc := s₅.pc + 1, linear := s₁.linear } : St)
        { s₅ with pc := s₁.pc + 1, linear := s₁.linear, addr := s₁.addr, curfunc := s₁.curfunc } :=
      (Reach.step a6 (fun f => by rw [exec_ret]; show (match s₅.addr with | [] => _ | none :: _ => _ | some (fn, pc) :: rest => _) = _; rw [haddr5])).toX
    have hfl14 : ∀ i, i < s₁.scopes.length → isFnScope s₄ i = isFnScope s₁ i := fun i hi => by
      unfold isFnScope scopeOf; rw [hsc4]; simp only [List.getD_eq_getElem?_getD, List.getElem?_append_left hi]
    have hscl14 : s₁.scopes.length ≤ s₄.scopes.length := by rw [hsc4]; simp
    have hflags : ∀ i, i < s₁.scopes.length → isFnScope s₅ i = isFnScope s₁ i := fun i hi =>
      (fr5.flags i (Nat.lt_of_lt_of_le hi hscl14)).trans (hfl14 i hi)
    have hfl : s₁.fns.length ≤ s₅.fns.length := by rw [← hfns4]; exact fr5.fnsLen
    have hfo : ∀ id, id < s₁.fns.length → fnOf s₅ id = fnOf s₁ id := fun id hid =>
      (fr5.fns id (by rw [hfns4]; exact hid)).trans (by unfold fnOf; rw [hfns4])
    have hext1B : FramesExt rs₁ rsB := fun i fr hf =>
      ⟨fr, by rw [hfrB, List.getElem?_append_left (lt_of_getElem?_some hf)]; exact hf, rfl⟩
    have hrext : RExt rs₁ rs' := ⟨hext1B.trans ext5.1, fun i c hc => ext5.2 i c (by rw [hclB]; exact hc)⟩
    refine ⟨{ s₅ with pc := s₁.pc + 1, linear := s₁.linear, addr := s₁.addr, curfunc := s₁.curfunc }, m₅, v,
      ((hreach4.trans r5).trans r6).trans r7, rfl, by show s₅.data = _; rw [l5.data, hd4], hv5, ?_,
      fun id hid => hm5 id (by rw [hfns4]; exact hid), hrext, ?_, ?_⟩
    · exact hrel.back rel5 rfl rfl rfl rfl rfl rfl hflags hfl hfo hrext.1
        ⟨by show s₁.loops.length ≤ s₅.loops.length; rw [← hloops4]; exact fr5.loopsLen,
          fun id hid => by show s₅.loops.getD id {} = s₁.loops.getD id {}; rw [← hloops4]; exact fr5.loops id (by rw [hloops4]; exact hid)⟩
    · exact ⟨⟨rfl, rfl, rfl, by show s₅.suspended = _; rw [fr5.susp, hsusp4], hfl, hfo,
        by show s₁.loops.length ≤ s₅.loops.length; rw [← hloops4]; exact fr5.loopsLen,
        fun id hid => by show s₅.loops.getD id {} = _; rw [← hloops4]; exact fr5.loops id (by rw [hloops4]; exact hid)⟩,
        Nat.le_trans hscl14 fr5.scLen, hflags⟩
    · exact ValIn.mono hcl5 (fun id hgd => hgd.mono (FnsKeep.of_fns_eq rfl) (Nat.le_refl _) (fun _ _ => rfl) (RExt.refl _) rfl)
  | err rs' =>
    rw [hres] at hsim
    simp only
    exact FailsX.of_reach hreach4 hsim
  | timeout => trivial
  | brk l rs' => rw [hres] at hsim; exact hsim.elim
  | cont l rs' => rw [hres] at hsim; exact hsim.elim


end ZygoVerif.Sim
