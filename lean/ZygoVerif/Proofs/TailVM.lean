/-
Lemmas for C09 about the VM model (`Model/VM.lean`): what the instructions of the self
tail-call sequence and of the function prologue do to the three stacks, as statements
about `exec` and about the real loop `runLoop`.
-/
import ZygoVerif.Model.VM
namespace ZygoVerif.TailVM
open ZygoVerif.Core ZygoVerif.VM

syntax "vmsimp" (" [" Lean.Parser.Tactic.simpLemma,* "]")? : tactic
macro_rules
  | `(tactic| vmsimp) => `(tactic| simp [incPc, popScope, jumpTo, pushData, popData, err, hostPanic, ExceptT.run, bind, ExceptT.bind, ExceptT.mk, ExceptT.bindCont, StateT.bind, modify, modifyGet, MonadStateOf.modifyGet, StateT.modifyGet, ExceptT.lift, liftM, monadLift, MonadLift.monadLift, get, getThe, MonadStateOf.get, StateT.get, set, StateT.set, pure, ExceptT.pure, StateT.pure, Functor.map, StateT.map, throw, throwThe, MonadExceptOf.throw])
  | `(tactic| vmsimp [$ts,*]) => `(tactic| simp [incPc, popScope, jumpTo, pushData, popData, err, hostPanic, ExceptT.run, bind, ExceptT.bind, ExceptT.mk, ExceptT.bindCont, StateT.bind, modify, modifyGet, MonadStateOf.modifyGet, StateT.modifyGet, ExceptT.lift, liftM, monadLift, MonadLift.monadLift, get, getThe, MonadStateOf.get, StateT.get, set, StateT.set, pure, ExceptT.pure, StateT.pure, Functor.map, StateT.map, throw, throwThe, MonadExceptOf.throw, $ts,*])

theorem exec_removeScope (n : Nat) (s : St) (top : Option Nat) (rest : List (Option Nat)) (h : s.linear = top :: rest) :
    (exec (n+1) .removeScope).run s = (.ok (), { s with pc := s.pc + 1, linear := rest }) := by
  simp only [exec]
  vmsimp [h]

theorem exec_goto (n : Nat) (s : St) (loc : Nat) (h : (loc : Int) ≤ curSize s) :
    (exec (n+1) (.goto loc)).run s = (.ok (), { s with pc := loc }) := by
  simp only [exec]
  have h0 : ¬ ((loc : Int) < 0) := by omega
  have h1 : ¬ (curSize s < (loc : Int)) := by omega
  vmsimp [h0, h1]

theorem exec_prepareCall_fixed (n : Nat) (s : St) (x : String) (nargs : Nat)
    (hv : (fnOf s s.curfunc).varargs = false) :
    (exec (n+1) (.prepareCall x nargs)).run s = (.ok (), { s with pc := s.pc + 1 }) := by
  simp only [exec]
  vmsimp [hv]

theorem exec_addFuncScope (n : Nat) (s : St) (t : Nat) :
    (exec (n+1) (.addFuncScope t)).run s =
      (.ok (), { s with scopes := s.scopes ++ [({ isFunction := true, myFunction := some t } : Scope)],
                        linear := some s.scopes.length :: s.linear, pc := s.pc + 1 }) := by
  simp only [exec]
  vmsimp

/-- `PopStackPutEnv` into a scope that has no binding for `x` yet. -/
theorem exec_popStackPutEnv_fresh (n : Nat) (s : St) (x : String) (v : Val) (D : List (Option Val))
    (top : Nat) (rest : List (Option Nat))
    (hd : s.data = some v :: D) (hl : s.linear = some top :: rest)
    (hx : (scopeOf s top).vars.lookup x = none) :
    (exec (n+1) (.popStackPutEnv x)).run s =
      (.ok (), { s with data := D, pc := s.pc + 1,
                        scopes := s.scopes.set top { scopeOf s top with vars := assocSet (scopeOf s top).vars x v } }) := by
  have hx' := hx
  simp only [scopeOf, List.getD_eq_getElem?_getD] at hx'
  simp only [exec]
  vmsimp [bindTop, setInScope, scopeOf, hd, hl, hx']

theorem runLoop_step (fuel : Nat) (st : CtlState) (s s1 : St) (instr : Instr)
    (hpc : ¬ (s.pc = -1 ∨ s.pc ≥ curSize s))
    (hfetch : (fnOf s s.curfunc).code[s.pc.toNat]? = some instr)
    (hex : (exec fuel instr).run s = (.ok (), s1)) :
    (runLoop (fuel + 1) st).run s = (runLoop fuel st).run s1 := by
  have hex' : exec fuel instr s = (.ok (), s1) := hex
  rw [runLoop]
  vmsimp [hpc, hfetch, hex']


/-- `is` sits in `code` at position `p`. -/
def CodeAt (code : List Instr) (p : Nat) (is : List Instr) : Prop :=
  ∃ pre post, code = pre ++ is ++ post ∧ pre.length = p

theorem CodeAt.head {code : List Instr} {p : Nat} {i : Instr} {is : List Instr} (h : CodeAt code p (i :: is)) :
    code[p]? = some i ∧ p < code.length ∧ CodeAt code (p + 1) is := by
  obtain ⟨pre, post, rfl, rfl⟩ := h
  refine ⟨by simp, by simp, pre ++ [i], post, by simp, by simp⟩

/-- the state is inside compiled code (not a Go builtin) at position `p` where `is` starts -/
structure At (s : St) (p : Nat) (is : List Instr) : Prop where
  pc : s.pc = (p : Int)
  compiled : (fnOf s s.curfunc).user = false
  code : CodeAt (fnOf s s.curfunc).code p is

theorem At.fetch {s : St} {p : Nat} {i : Instr} {is : List Instr} (h : At s p (i :: is)) :
    ¬ (s.pc = -1 ∨ s.pc ≥ curSize s) ∧ (fnOf s s.curfunc).code[s.pc.toNat]? = some i := by
  obtain ⟨h1, h2, h3⟩ := h.code.head
  have hc : curSize s = ((fnOf s s.curfunc).code.length : Int) := by simp [curSize, h.compiled]
  refine ⟨?_, ?_⟩
  · rw [hc, h.pc]; omega
  · rw [h.pc]; simpa using h1

/-- one step of `runLoop` at a known instruction that succeeds -/
theorem runLoop_at (fuel : Nat) (st : CtlState) {s s1 : St} {p : Nat} {i : Instr} {is : List Instr}
    (h : At s p (i :: is)) (hex : (exec fuel i).run s = (.ok (), s1)) :
    (runLoop (fuel + 1) st).run s = (runLoop fuel st).run s1 :=
  runLoop_step fuel st s s1 i h.fetch.1 h.fetch.2 hex

/-- `RemoveScope × m`. -/
theorem runLoop_removeScopes (st : CtlState) :
    ∀ (m : Nat) (fuel : Nat) (s : St) (p : Nat) (rest : List Instr) (ext L : List (Option Nat)),
      At s p (List.replicate m Instr.removeScope ++ rest) → s.linear = ext ++ L → ext.length = m →
      (runLoop (fuel + 1 + m) st).run s = (runLoop (fuel + 1) st).run { s with pc := s.pc + m, linear := L } ∧
      At { s with pc := s.pc + m, linear := L } (p + m) rest := by
  intro m
  induction m with
  | zero =>
    intro fuel s p rest ext L h hl he
    have : ext = [] := List.length_eq_zero_iff.mp he
    subst this
    simp only [List.nil_append] at hl
    have hs : ({ s with pc := s.pc + (0 : Nat), linear := L } : St) = s := by
      cases s; simp at hl; simp [hl]
    rw [hs]
    exact ⟨rfl, by simpa using h⟩
  | succ m ih =>
    intro fuel s p rest ext L h hl he
    cases ext with
    | nil => simp at he
    | cons top ext' =>
      simp only [List.replicate_succ, List.cons_append] at h
      have hl' : s.linear = top :: (ext' ++ L) := by simpa using hl
      have hex := exec_removeScope fuel s top (ext' ++ L) hl'
      have hstep := runLoop_at (fuel + 1 + m) st h (by
        have := exec_removeScope (fuel + m) s top (ext' ++ L) hl'
        simpa [Nat.add_assoc, Nat.add_comm 1 m] using this)
      obtain ⟨s1, hs1⟩ : ∃ s1 : St, s1 = { s with pc := s.pc + 1, linear := ext' ++ L } := ⟨_, rfl⟩
      rw [← hs1] at hstep
      have hat1 : At s1 (p + 1) (List.replicate m Instr.removeScope ++ rest) :=
        ⟨by simp [hs1, h.pc], by simpa [hs1, fnOf] using h.compiled, by simpa [hs1, fnOf] using h.code.head.2.2⟩
      obtain ⟨ihr, iha⟩ := ih fuel s1 (p + 1) rest ext' L hat1 (by simp [hs1]) (by simpa using he)
      have hst : ({ s1 with pc := s1.pc + (m : Int), linear := L } : St) = { s with pc := s.pc + ((m + 1 : Nat) : Int), linear := L } := by
        simp [hs1]; omega
      rw [hst] at ihr iha
      refine ⟨?_, ?_⟩
      · have e1 : fuel + 1 + (m + 1) = fuel + 1 + m + 1 := by omega
        rw [e1, hstep, ihr]
      · have e2 : p + (m + 1) = p + 1 + m := by omega
        rw [e2]
        exact iha

/-- the self tail-call sequence the generator emits after the operands -/
def tailSeq (x : String) (nargs k : Nat) : List Instr :=
  [Instr.prepareCall x nargs] ++ List.replicate (k + 1) Instr.removeScope ++ [Instr.goto 0]

theorem At.next {s s1 : St} {p : Nat} {i : Instr} {is : List Instr} (h : At s p (i :: is))
    (hpc : s1.pc = s.pc + 1) (hf : s1.fns = s.fns) (hc : s1.curfunc = s.curfunc) : At s1 (p + 1) is :=
  ⟨by rw [hpc, h.pc]; simp, by simpa [fnOf, hf, hc] using h.compiled, by simpa [fnOf, hf, hc] using h.code.head.2.2⟩

/-- **Segment lemma.** From a state at the `PrepareCall` of the tail sequence, with `k+1`
scopes (`ext`: the extra scopes opened in the body and the function scope) above `L`: if
`PrepareCall` succeeds and leaves the operands `data'`, the loop takes `k+3` steps and stands
at instruction 0 of the same function with scope stack `L` and operands `data'`; the address
stack, the scope table and everything else are untouched. -/
theorem tail_sequence (st : CtlState) (fuel : Nat) (s : St) (p : Nat) (x : String) (nargs k : Nat)
    (rest : List Instr) (ext L : List (Option Nat)) (data' : List (Option Val))
    (hat : At s p (tailSeq x nargs k ++ rest))
    (hprep : ∀ n, (exec (n + 1) (.prepareCall x nargs)).run s = (.ok (), { s with pc := s.pc + 1, data := data' }))
    (hlin : s.linear = ext ++ L) (he : ext.length = k + 1) :
    (runLoop (fuel + 1 + (k + 3)) st).run s =
      (runLoop (fuel + 1) st).run { s with pc := 0, linear := L, data := data' } := by
  simp only [tailSeq, List.append_assoc, List.cons_append, List.nil_append] at hat
  -- PrepareCall
  have h1 := runLoop_at (fuel + 1 + (k + 2)) st hat (by
    have := hprep (fuel + (k + 2))
    simpa [Nat.add_assoc, Nat.add_comm 1] using this)
  obtain ⟨s1, hs1⟩ : ∃ s1 : St, s1 = { s with pc := s.pc + 1, data := data' } := ⟨_, rfl⟩
  rw [← hs1] at h1
  have hat1 : At s1 (p + 1) (List.replicate (k + 1) Instr.removeScope ++ (Instr.goto 0 :: rest)) :=
    hat.next (by simp [hs1]) (by simp [hs1]) (by simp [hs1])
  -- RemoveScope × (k+1)
  obtain ⟨h2, hat2⟩ := runLoop_removeScopes st (k + 1) (fuel + 1) s1 (p + 1) (Instr.goto 0 :: rest) ext L hat1
    (by simp [hs1, hlin]) he
  obtain ⟨s2, hs2⟩ : ∃ s2 : St, s2 = { s1 with pc := s1.pc + ((k + 1 : Nat) : Int), linear := L } := ⟨_, rfl⟩
  rw [← hs2] at h2 hat2
  -- Goto 0
  have hsz : ((0 : Nat) : Int) ≤ curSize s2 := by
    have : curSize s2 = ((fnOf s2 s2.curfunc).code.length : Int) := by simp [curSize, hat2.compiled]
    rw [this]; omega
  have h3 := runLoop_at (fuel + 1) st hat2 (exec_goto fuel s2 0 hsz)
  have e : fuel + 1 + (k + 3) = fuel + 1 + (k + 2) + 1 := by omega
  have e2 : fuel + 1 + (k + 2) = fuel + 1 + 1 + (k + 1) := by omega
  rw [e, h1, e2, h2, h3]
  have : ({ s2 with pc := ((0 : Nat) : Int) } : St) = { s with pc := 0, linear := L, data := data' } := by
    simp [hs2, hs1]
  rw [this]

/-- `PrepareCall` when the running function is variadic and there are more operands than fixed
parameters: the extra ones are packed into one list. -/
theorem exec_prepareCall_varargs_gt (n : Nat) (s : St) (x : String) (nargs : Nat) (vs : List Val)
    (hu : (fnOf s s.curfunc).user = false)
    (hv : (fnOf s s.curfunc).varargs = true) (hgt : (fnOf s s.curfunc).nargs < nargs)
    (hlen : nargs - (fnOf s s.curfunc).nargs ≤ s.data.length)
    (hm : (s.data.take (nargs - (fnOf s s.curfunc).nargs)).mapM id = some vs) :
    ∃ data', (exec (n+1) (.prepareCall x nargs)).run s = (.ok (), { s with pc := s.pc + 1, data := data' }) ∧
      data' = some (mkList vs.reverse) :: s.data.drop (nargs - (fnOf s s.curfunc).nargs) := by
  simp only [exec]
  refine ⟨_, ?_, rfl⟩
  have h1 : ¬ nargs < (fnOf s s.curfunc).nargs := by omega
  have h2 : ¬ s.data.length < nargs - (fnOf s s.curfunc).nargs := by omega
  vmsimp [hu, hv, wrangleOptargs, popN, h1, hgt, h2, hm]

/-- `PrepareCall` when the running function is variadic and exactly the fixed operands are
there: nil is pushed. -/
theorem exec_prepareCall_varargs_eq (n : Nat) (s : St) (x : String) (nargs : Nat)
    (hu : (fnOf s s.curfunc).user = false)
    (hv : (fnOf s s.curfunc).varargs = true) (heq : nargs = (fnOf s s.curfunc).nargs) :
    (exec (n+1) (.prepareCall x nargs)).run s = (.ok (), { s with pc := s.pc + 1, data := some Val.nil :: s.data }) := by
  simp only [exec]
  have h1 : ¬ nargs < (fnOf s s.curfunc).nargs := by omega
  have h2 : ¬ (fnOf s s.curfunc).nargs < nargs := by omega
  vmsimp [hu, hv, wrangleOptargs, h1, h2]

/-- fixed parameter list: the operands are left as they are (the generator only emits the
sequence when their number fits, fix c9a2ccf; `PrepareCall` itself does not look at it). -/
theorem tail_sequence_fixed (st : CtlState) (fuel : Nat) (s : St) (p : Nat) (x : String) (nargs k : Nat)
    (rest : List Instr) (ext L : List (Option Nat))
    (hat : At s p (tailSeq x nargs k ++ rest))
    (hv : (fnOf s s.curfunc).varargs = false)
    (hlin : s.linear = ext ++ L) (he : ext.length = k + 1) :
    (runLoop (fuel + 1 + (k + 3)) st).run s = (runLoop (fuel + 1) st).run { s with pc := 0, linear := L } := by
  have := tail_sequence st fuel s p x nargs k rest ext L s.data hat
    (fun n => by simpa using exec_prepareCall_fixed n s x nargs hv) hlin he
  simpa using this

/-- variadic: the operands beyond the fixed ones are packed; `nargs_fixed + 1` operands remain. -/
theorem tail_sequence_varargs (st : CtlState) (fuel : Nat) (s : St) (p : Nat) (x : String) (nargs k : Nat)
    (rest : List Instr) (ext L : List (Option Nat)) (vs : List Val)
    (hat : At s p (tailSeq x nargs k ++ rest))
    (hv : (fnOf s s.curfunc).varargs = true) (ha : (fnOf s s.curfunc).nargs ≤ nargs)
    (hlen : nargs - (fnOf s s.curfunc).nargs ≤ s.data.length)
    (hm : (s.data.take (nargs - (fnOf s s.curfunc).nargs)).mapM id = some vs)
    (hlin : s.linear = ext ++ L) (he : ext.length = k + 1) :
    ∃ data', data'.length + nargs = s.data.length + (fnOf s s.curfunc).nargs + 1 ∧
      (runLoop (fuel + 1 + (k + 3)) st).run s =
        (runLoop (fuel + 1) st).run { s with pc := 0, linear := L, data := data' } := by
  have hu := hat.compiled
  by_cases hgt : (fnOf s s.curfunc).nargs < nargs
  · refine ⟨some (mkList vs.reverse) :: s.data.drop (nargs - (fnOf s s.curfunc).nargs), by simp; omega, ?_⟩
    apply tail_sequence st fuel s p x nargs k rest ext L _ hat _ hlin he
    intro n
    obtain ⟨d, hd, rfl⟩ := exec_prepareCall_varargs_gt n s x nargs vs hu hv hgt hlen hm
    exact hd
  · have heq : nargs = (fnOf s s.curfunc).nargs := by omega
    refine ⟨some Val.nil :: s.data, by simp; omega, ?_⟩
    apply tail_sequence st fuel s p x nargs k rest ext L _ hat _ hlin he
    intro n
    exact exec_prepareCall_varargs_eq n s x nargs hu hv heq

/-! ## The guard in front of the tail sequence (fix C09-02) -/

/-- the name still denotes the function object that is running: the guard falls through -/
theorem exec_tailGuard_self (n : Nat) (s : St) (x : String) (skip sid : Nat)
    (hl : lexLookup s x = some (sid, .fn s.curfunc)) :
    (exec (n+1) (.tailGuard x skip)).run s = (.ok (), { s with pc := s.pc + 1 }) := by
  simp only [exec]
  vmsimp [hl]

/-- the name denotes anything else (another function, another closure of the same template, a
non-function, nothing at all): the guard skips `skip` instructions and changes nothing else -/
theorem exec_tailGuard_other (n : Nat) (s : St) (x : String) (skip : Nat)
    (hl : ∀ sid, lexLookup s x ≠ some (sid, .fn s.curfunc)) :
    (exec (n+1) (.tailGuard x skip)).run s = (.ok (), { s with pc := s.pc + skip }) := by
  simp only [exec]
  cases hlk : lexLookup s x with
  | none => vmsimp [hlk]
  | some r =>
    obtain ⟨sid, v⟩ := r
    cases v with
    | fn f =>
      have hne : f ≠ s.curfunc := by
        intro h; subst h; exact hl sid hlk
      vmsimp [hlk, hne]
    | _ => vmsimp [hlk]

/-! ## Parameter binding writes only the scope on top of the scope stack -/

/-- `PopStackPutEnv` (whatever its outcome) leaves every scope other than the top one as it was. -/
theorem exec_popStackPutEnv_frame (n : Nat) (s : St) (x : String) (top : Nat) (rest : List (Option Nat))
    (hl : s.linear = some top :: rest) (sid : Nat) (hne : sid ≠ top) :
    ((exec (n+1) (.popStackPutEnv x)).run s).2.scopes[sid]? = s.scopes[sid]? := by
  simp only [exec]
  cases hd : s.data with
  | nil => vmsimp [hd]
  | cons v D =>
    cases v with
    | none => vmsimp [hd]
    | some v =>
      cases hx : (s.scopes[top]?.getD {}).vars.lookup x with
      | none => vmsimp [bindTop, setInScope, scopeOf, hd, hl, hx, List.getElem?_set_ne (Ne.symm hne)]
      | some cur =>
        by_cases hr : rebindOk s.heap cur v = true
        · vmsimp [bindTop, setInScope, scopeOf, hd, hl, hx, hr, List.getElem?_set_ne (Ne.symm hne)]
        · vmsimp [bindTop, setInScope, scopeOf, hd, hl, hx, hr]

/-- `PopStackPutEnv` (whatever its outcome) leaves the scope stack as it was. -/
theorem exec_popStackPutEnv_linear (n : Nat) (s : St) (x : String) :
    ((exec (n+1) (.popStackPutEnv x)).run s).2.linear = s.linear := by
  simp only [exec]
  cases hd : s.data with
  | nil => vmsimp [hd]
  | cons v D =>
    cases v with
    | none => vmsimp [hd]
    | some v =>
      cases hl : s.linear with
      | nil => vmsimp [bindTop, hd, hl]
      | cons top rest =>
        cases top with
        | none => vmsimp [bindTop, hd, hl]
        | some top =>
          cases hx : (s.scopes[top]?.getD {}).vars.lookup x with
          | none => vmsimp [bindTop, setInScope, scopeOf, hd, hl, hx]
          | some cur =>
            by_cases hr : rebindOk s.heap cur v = true
            · vmsimp [bindTop, setInScope, scopeOf, hd, hl, hx, hr]
            · vmsimp [bindTop, setInScope, scopeOf, hd, hl, hx, hr]

/-- `AddFuncScope` puts a scope on top that did not exist before (its id is the old size of
the scope table) and leaves every existing scope as it was. -/
theorem exec_addFuncScope_fresh (n : Nat) (s : St) (t : Nat) :
    let s1 := ((exec (n+1) (.addFuncScope t)).run s).2
    s1.linear = some s.scopes.length :: s.linear ∧ s1.scopes.length = s.scopes.length + 1 ∧
      ∀ sid, sid < s.scopes.length → s1.scopes[sid]? = s.scopes[sid]? := by
  rw [exec_addFuncScope]
  refine ⟨rfl, by simp, ?_⟩
  intro sid h
  simp [List.getElem?_append_left h]

end ZygoVerif.TailVM
