/-
Stepping the lexer model through printed text: the part of the lexer state that later lexing
depends on (`Shape`: mode, buffer, token queue, the last rune in the look-back ring), the
relation `Lex sh text sh'` (from every state of shape `sh`, feeding `text` succeeds and ends in
a state of shape `sh'`), and the single-rune facts about `LexNextRune` in the normal, string
and rune-literal modes.
-/
import ZygoVerif.Proofs.LexTokens
namespace ZygoVerif.Lexer

/-! ## the look-back ring -/

def pushRing (s : LexCore) (r : Char) : LexCore :=
  { s with priorRune := s.priorRune.set s.priori r, priori := (s.priori + 1) % 20 }

theorem step_def (s : LexCore) (r : Char) : step s r = stepMode (pushRing s r) r := rfl

structure RingOK (s : LexCore) : Prop where
  len : s.priorRune.length = 20
  lt : s.priori < 20

/-- the rune fed last -/
def lastRune (s : LexCore) : Char := s.priorRune.getD ((s.priori + 19) % 20) '\x00'

theorem ringOK_init : RingOK LexCore.init := ⟨by decide, by decide⟩
theorem lastRune_init : lastRune LexCore.init = '\x00' := by decide

theorem ringOK_pushRing (s : LexCore) (r : Char) (h : RingOK s) : RingOK (pushRing s r) :=
  ⟨by simp [pushRing, h.len], by simp only [pushRing]; omega⟩

theorem lastRune_pushRing (s : LexCore) (r : Char) (h : RingOK s) : lastRune (pushRing s r) = r := by
  have hlt := h.lt
  have hidx : ((s.priori + 1) % 20 + 19) % 20 = s.priori := by omega
  simp only [lastRune, pushRing, hidx, List.getD_eq_getElem?_getD]
  rw [List.getElem?_set_self (by rw [h.len]; exact hlt)]
  rfl

theorem twoback_pushRing (s : LexCore) (r : Char) (h : RingOK s) : twoback (pushRing s r) = lastRune s := by
  have hlt := h.lt
  have hidx : ((s.priori + 1) % 20 + 18) % 20 = (s.priori + 19) % 20 := by omega
  have hne : s.priori ≠ (s.priori + 19) % 20 := by omega
  simp only [twoback, lastRune, pushRing, hidx, List.getD_eq_getElem?_getD]
  rw [List.getElem?_set_ne hne]

/-! ## shapes -/

structure Shape where
  state : Mode
  buffer : List Char
  tokens : List Token
  last : Char

structure HasShape (s : LexCore) (sh : Shape) : Prop where
  state : s.state = sh.state
  buffer : s.buffer = sh.buffer
  tokens : s.tokens = sh.tokens
  ring : RingOK s
  last : lastRune s = sh.last

/-- from every state of shape `a`, feeding `text` succeeds and gives a state of shape `b` -/
def Lex (a : Shape) (text : List Char) (b : Shape) : Prop :=
  ∀ s, HasShape s a → ∃ s', feed (.ok s) text = .ok s' ∧ HasShape s' b

theorem Lex.nil (a : Shape) : Lex a [] a := fun s h => ⟨s, rfl, h⟩

theorem Lex.trans {a b c : Shape} {t u : List Char} (h1 : Lex a t b) (h2 : Lex b u c) : Lex a (t ++ u) c := by
  intro s hs
  obtain ⟨s1, hf1, hs1⟩ := h1 s hs
  obtain ⟨s2, hf2, hs2⟩ := h2 s1 hs1
  exact ⟨s2, by rw [feed_append, hf1, hf2], hs2⟩

theorem Lex.cons {a b c : Shape} {r : Char} {u : List Char} (h1 : Lex a [r] b) (h2 : Lex b u c) : Lex a (r :: u) c :=
  Lex.trans h1 h2

/-- a single rune: from the step equation -/
theorem Lex.step {a b : Shape} {r : Char}
    (h : ∀ s, HasShape s a → ∃ s', stepMode (pushRing s r) r = .ok s' ∧ s'.state = b.state ∧ s'.buffer = b.buffer ∧
      s'.tokens = b.tokens ∧ s'.priorRune = (pushRing s r).priorRune ∧ s'.priori = (pushRing s r).priori ∧ r = b.last) :
    Lex a [r] b := by
  intro s hs
  obtain ⟨s', hst, h1, h2, h3, h4, h5, h6⟩ := h s hs
  refine ⟨s', by rw [feed_ok_cons, step_def, hst]; rfl, h1, h2, h3, ?_, ?_⟩
  · have := ringOK_pushRing s r hs.ring
    exact ⟨by rw [h4]; exact this.len, by rw [h5]; exact this.lt⟩
  · have := lastRune_pushRing s r hs.ring
    simp only [lastRune] at this ⊢
    rw [h4, h5, this, h6]

end ZygoVerif.Lexer
