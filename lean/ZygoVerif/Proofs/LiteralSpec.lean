/-
The specification's `mathValue` (Spec/DataValue) cut into its branches, so that "this spelling is an
integer / uint64 literal of value v" can be inverted: which notation it is written in and how `v` is
made of its digits. `mathValue_eq` ties the pieces to the specification by unfolding alone.
-/
import ZygoVerif.Spec.DataValue
namespace ZygoVerif.Literal
open ZygoVerif ZygoVerif.Spec.DataValue

def signOf (s : List Char) : Option Char × List Char :=
  match s with
  | '-' :: r => (some '-', r)
  | '+' :: r => (some '+', r)
  | _ => (none, s)

def uintBase (d : List Char) : Nat × List Char :=
  match d with
  | '0' :: 'x' :: r => (16, r)
  | '0' :: 'o' :: r => (8, r)
  | _ => (10, d)

def uintPart (sign : Option Char) (d : List Char) : Option (NumVal × Bool) :=
  if sign.isSome then none else
  (digitsOf (uintBase d).1 (uintBase d).2).map fun l => (.uint (posValue (uintBase d).1 l), true)

def basedOf (body : List Char) : Option (Nat × List Char) :=
  match body with
  | '0' :: 'x' :: r => some (16, r)
  | '0' :: 'o' :: r => some (8, r)
  | '0' :: 'b' :: r => some (2, r)
  | _ => none

def basedPart (sign : Option Char) (base : Nat) (ds : List Char) : Option (NumVal × Bool) :=
  (digitsOf base ds).map fun l =>
    let v : Int := posValue base l
    (.int (if sign == some '-' then -v else v), sign.isNone)

def decPart (sign : Option Char) (body : List Char) : Option (NumVal × Bool) :=
  (digitsOf 10 (dropUnderscores body)).map fun l =>
    let v : Int := posValue 10 l
    (.int (if sign == some '-' then -v else v), !(sign == some '+') && underscoresBetweenDigits body)

def fracLast (neg plus : Bool) (body ip fpd : List Char) (ex : Option (List Char)) (expo : Option (Option Int))
    (dg : Option (List Nat)) : Option (NumVal × Bool) :=
  match expo, dg with
  | some e, some _ =>
    let iv := match digitsOf 10 (dropUnderscores ip) with | some l => posValue 10 l | none => 0
    let fl := (dropUnderscores fpd).length
    let fv := match digitsOf 10 (dropUnderscores fpd) with | some l => posValue 10 l | none => 0
    let mant := iv * 10 ^ fl + fv
    let e10 : Int := e.getD 0 - fl
    let supported := !plus && noUnderscore body && (!ip.isEmpty || ex.isNone)
    some (.dec neg mant e10, supported)
  | _, _ => none

def expoOf (ex : Option (List Char)) : Option (Option Int) :=
  match ex with
  | none => some none
  | some e =>
    let (eneg, ed) : Bool × List Char := match e with
      | '-' :: r => (true, r)
      | '+' :: r => (false, r)
      | _ => (false, e)
    if digitsUnderscores ed then
      (digitsOf 10 (dropUnderscores ed)).map fun l =>
        let v : Int := posValue 10 l
        some (if eneg then -v else v)
    else none

def fracFinal (neg plus : Bool) (body ip : List Char) (fp ex : Option (List Char)) : Option (NumVal × Bool) :=
  if fp.isNone && ex.isNone then none else
  let fpd := fp.getD []
  let okInt := if ip.isEmpty then fp.isSome && digitsUnderscores fpd else digitsUnderscores ip
  let okFrac := ip.isEmpty || fpd.all (fun c => isDigit c || c == '_')
  if !(okInt && okFrac) then none else
  fracLast neg plus body ip fpd ex (expoOf ex) (digitsOf 10 (dropUnderscores ip ++ dropUnderscores fpd))

def fracPart (neg plus : Bool) (body : List Char) : Option (NumVal × Bool) :=
  let (mant, ex) : List Char × Option (List Char) := match splitAt? (fun c => c == 'e' || c == 'E') body with
    | some (m, e) => (m, some e)
    | none => (body, none)
  let (ip, fp) : List Char × Option (List Char) := match splitAt? (· == '.') mant with
    | some (i, f) => (i, some f)
    | none => (mant, none)
  fracFinal neg plus body ip fp ex

def mathBody (sign : Option Char) (body : List Char) : Option (NumVal × Bool) :=
  if body == "Inf".toList then some (.inf (sign == some '-'), true)
  else if body == "inf".toList then some (.inf (sign == some '-'), false)
  else if sign.isNone && body == "NaN".toList then some (.nan, true)
  else if sign.isNone && body == "nan".toList then some (.nan, false)
  else
  match stripSuffix? "ULL".toList body with
  | some d => uintPart sign d
  | none =>
  match basedOf body with
  | some (base, ds) => basedPart sign base ds
  | none =>
  if digitsUnderscores body then decPart sign body
  else fracPart (sign == some '-') (sign == some '+') body

/-- the pieces ARE the specification -/
theorem mathValue_eq (s : List Char) : mathValue s = mathBody (signOf s).1 (signOf s).2 := by
  rfl

/-! ## inversion -/

theorem signOf_cases (s : List Char) :
    (∃ r, s = '-' :: r ∧ signOf s = (some '-', r)) ∨ (∃ r, s = '+' :: r ∧ signOf s = (some '+', r)) ∨
    (signOf s = (none, s) ∧ (∀ r, s ≠ '-' :: r) ∧ (∀ r, s ≠ '+' :: r)) := by
  unfold signOf
  split
  · exact Or.inl ⟨_, rfl, rfl⟩
  · exact Or.inr (Or.inl ⟨_, rfl, rfl⟩)
  · rename_i h1 h2
    exact Or.inr (Or.inr ⟨rfl, fun r hr => h1 r hr, fun r hr => h2 r hr⟩)

theorem basedOf_some (body : List Char) (base : Nat) (ds : List Char) (h : basedOf body = some (base, ds)) :
    (body = '0' :: 'x' :: ds ∧ base = 16) ∨ (body = '0' :: 'o' :: ds ∧ base = 8) ∨ (body = '0' :: 'b' :: ds ∧ base = 2) := by
  unfold basedOf at h
  split at h
  · simp only [Option.some.injEq, Prod.mk.injEq] at h; obtain ⟨rfl, rfl⟩ := h; exact Or.inl ⟨rfl, rfl⟩
  · simp only [Option.some.injEq, Prod.mk.injEq] at h; obtain ⟨rfl, rfl⟩ := h; exact Or.inr (Or.inl ⟨rfl, rfl⟩)
  · simp only [Option.some.injEq, Prod.mk.injEq] at h; obtain ⟨rfl, rfl⟩ := h; exact Or.inr (Or.inr ⟨rfl, rfl⟩)
  · cases h

def isDecVal : NumVal → Bool
  | .dec _ _ _ => true
  | _ => false

theorem of_ite_none {α : Type} {c : Prop} [Decidable c] {x : Option α} {r : α}
    (h : (if c then none else x) = some r) : x = some r := by
  split at h
  · cases h
  · exact h

theorem fracLast_dec (neg plus : Bool) (body ip fpd : List Char) (ex : Option (List Char)) (expo : Option (Option Int))
    (dg : Option (List Nat)) (r : NumVal × Bool) (h : fracLast neg plus body ip fpd ex expo dg = some r) :
    isDecVal r.1 = true := by
  unfold fracLast at h
  split at h
  · simp only [Option.some.injEq] at h; rw [← h]; rfl
  · cases h

theorem fracFinal_dec (neg plus : Bool) (body ip : List Char) (fp ex : Option (List Char)) (r : NumVal × Bool)
    (h : fracFinal neg plus body ip fp ex = some r) : isDecVal r.1 = true := by
  unfold fracFinal at h
  have h1 := of_ite_none h
  dsimp only at h1
  have h2 := of_ite_none h1
  exact fracLast_dec _ _ _ _ _ _ _ _ r h2

theorem fracPart_dec (neg plus : Bool) (body : List Char) (r : NumVal × Bool)
    (h : fracPart neg plus body = some r) : isDecVal r.1 = true := by
  unfold fracPart at h
  exact fracFinal_dec _ _ _ _ _ _ r h

/-- an integer verdict of the specification comes from a based literal or from a decimal one -/
theorem mathBody_int (sign : Option Char) (body : List Char) (v : Int) (sup : Bool)
    (h : mathBody sign body = some (.int v, sup)) :
    (∃ base ds l, basedOf body = some (base, ds) ∧ digitsOf base ds = some l ∧
        v = (if sign == some '-' then -(posValue base l : Int) else (posValue base l : Int)) ∧ sup = sign.isNone) ∨
    (digitsUnderscores body = true ∧ ∃ l, digitsOf 10 (dropUnderscores body) = some l ∧
        v = (if sign == some '-' then -(posValue 10 l : Int) else (posValue 10 l : Int)) ∧
        sup = (!(sign == some '+') && underscoresBetweenDigits body)) := by
  unfold mathBody at h
  split at h
  · cases h
  split at h
  · cases h
  split at h
  · cases h
  split at h
  · cases h
  split at h
  · -- uint64 suffix: never an `.int`
    rename_i d _
    unfold uintPart at h
    have h1 := of_ite_none h
    obtain ⟨l, _, hf⟩ := Option.map_eq_some_iff.mp h1
    cases hf
  · split at h
    · rename_i base ds hb
      left
      unfold basedPart at h
      cases hd : digitsOf base ds with
      | none => rw [hd] at h; cases h
      | some l =>
        rw [hd] at h
        simp only [Option.map_some, Option.some.injEq, Prod.mk.injEq, NumVal.int.injEq] at h
        exact ⟨base, ds, l, hb, hd, h.1.symm, h.2.symm⟩
    · split at h
      · rename_i hdu
        right
        unfold decPart at h
        cases hd : digitsOf 10 (dropUnderscores body) with
        | none => rw [hd] at h; cases h
        | some l =>
          rw [hd] at h
          simp only [Option.map_some, Option.some.injEq, Prod.mk.injEq, NumVal.int.injEq] at h
          exact ⟨hdu, l, rfl, h.1.symm, h.2.symm⟩
      · have := fracPart_dec _ _ _ _ h
        cases this

theorem uintBase_cases (d : List Char) :
    (∃ r, d = '0' :: 'x' :: r ∧ uintBase d = (16, r)) ∨ (∃ r, d = '0' :: 'o' :: r ∧ uintBase d = (8, r)) ∨
    uintBase d = (10, d) := by
  unfold uintBase
  split
  · exact Or.inl ⟨_, rfl, rfl⟩
  · exact Or.inr (Or.inl ⟨_, rfl, rfl⟩)
  · exact Or.inr (Or.inr rfl)

/-- a uint64 verdict comes from the `ULL` suffix on an unsigned spelling -/
theorem mathBody_uint (sign : Option Char) (body : List Char) (n : Nat) (sup : Bool)
    (h : mathBody sign body = some (.uint n, sup)) :
    sign = none ∧ sup = true ∧ ∃ d, stripSuffix? "ULL".toList body = some d ∧
      ((∃ ds l, d = '0' :: 'x' :: ds ∧ digitsOf 16 ds = some l ∧ n = posValue 16 l) ∨
       (∃ ds l, d = '0' :: 'o' :: ds ∧ digitsOf 8 ds = some l ∧ n = posValue 8 l) ∨
       (∃ l, digitsOf 10 d = some l ∧ n = posValue 10 l)) := by
  unfold mathBody at h
  split at h
  · cases h
  split at h
  · cases h
  split at h
  · cases h
  split at h
  · cases h
  split at h
  · rename_i d hd
    unfold uintPart at h
    have hsn : sign = none := by
      cases sign with
      | none => rfl
      | some c => simp at h
    have h1 := of_ite_none h
    obtain ⟨l, hl, hf⟩ := Option.map_eq_some_iff.mp h1
    simp only [Prod.mk.injEq, NumVal.uint.injEq] at hf
    refine ⟨hsn, hf.2.symm, d, hd, ?_⟩
    rcases uintBase_cases d with ⟨r, rfl, hb⟩ | ⟨r, rfl, hb⟩ | hb
    · rw [hb] at hl hf; exact Or.inl ⟨_, l, rfl, hl, hf.1.symm⟩
    · rw [hb] at hl hf; exact Or.inr (Or.inl ⟨_, l, rfl, hl, hf.1.symm⟩)
    · rw [hb] at hl hf; exact Or.inr (Or.inr ⟨l, hl, hf.1.symm⟩)
  · split at h
    · rename_i base ds hb
      unfold basedPart at h
      cases hd : digitsOf base ds with
      | none => rw [hd] at h; cases h
      | some l => rw [hd] at h; cases h
    · split at h
      · unfold decPart at h
        cases hd : digitsOf 10 (dropUnderscores body) with
        | none => rw [hd] at h; cases h
        | some l => rw [hd] at h; cases h
      · have := fracPart_dec _ _ _ _ h
        cases this

/-- a supported `Inf`/`NaN` verdict comes from the words `Inf` (any sign) and `NaN` (no sign) -/
theorem mathBody_special (sign : Option Char) (body : List Char) (nv : NumVal)
    (h : mathBody sign body = some (nv, true)) (hk : nv = .nan ∨ ∃ neg, nv = .inf neg) :
    body = "Inf".toList ∨ (sign = none ∧ body = "NaN".toList) := by
  have notk : ∀ {x : NumVal}, (x = nv) → (∀ neg, x ≠ .inf neg) → x ≠ .nan → False := by
    intro x hx h1 h2
    rcases hk with rfl | ⟨neg, rfl⟩
    · exact h2 hx
    · exact h1 neg hx
  unfold mathBody at h
  split at h
  · rename_i hc; exact Or.inl (eq_of_beq hc)
  split at h
  · simp at h
  split at h
  · rename_i hc
    simp only [Bool.and_eq_true] at hc
    right
    exact ⟨by cases sign <;> simp_all, eq_of_beq hc.2⟩
  split at h
  · simp at h
  split at h
  · unfold uintPart at h
    have h1 := of_ite_none h
    obtain ⟨l, _, hf⟩ := Option.map_eq_some_iff.mp h1
    simp only [Prod.mk.injEq] at hf
    exact (notk hf.1 (by intro neg; simp) (by simp)).elim
  · split at h
    · unfold basedPart at h
      obtain ⟨l, _, hf⟩ := Option.map_eq_some_iff.mp h
      simp only [Prod.mk.injEq] at hf
      exact (notk hf.1 (by intro neg; simp) (by simp)).elim
    · split at h
      · unfold decPart at h
        obtain ⟨l, _, hf⟩ := Option.map_eq_some_iff.mp h
        simp only [Prod.mk.injEq] at hf
        exact (notk hf.1 (by intro neg; simp) (by simp)).elim
      · have := fracPart_dec _ _ _ _ h
        rcases hk with rfl | ⟨neg, rfl⟩ <;> cases this

theorem stripSuffix?_some (suf s d : List Char) (h : stripSuffix? suf s = some d) : s = d ++ suf := by
  unfold stripSuffix? at h
  split at h
  · rename_i hc
    simp only [Option.some.injEq] at h
    have := List.take_append_drop (s.length - suf.length) s
    rw [hc.2] at this
    rw [← h]; exact this.symm
  · cases h

end ZygoVerif.Literal
