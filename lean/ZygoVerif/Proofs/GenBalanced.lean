/-
Proofs/GenBalanced.lean — the code the modelled generator (Model/Gen.lean) emits is balanced.

A *fragment* is a piece of code together with an annotation (one abstract state per
instruction plus one for the position behind it). `FragOK Γ code as` says: wherever the
fragment is placed inside a function whose annotation carries `as` at the fragment's
positions, and whose enclosing loops are as `Γ` says, the local condition `okAt` of the
verifier (Spec/Balanced.lean) holds at every position of the fragment. Fragments compose
(`frag_seq`, `frag_cond`, `frag_sc`, `frag_scope`, …); the theorems at the end of the file
run the induction over the expression grammar.
-/
import ZygoVerif.Model.Gen
import ZygoVerif.Spec.Balanced
import ZygoVerif.Proofs.Balanced
namespace ZygoVerif.Bal
open ZygoVerif.VM ZygoVerif.Core

/-! ## From model instructions to checker instructions -/

/-- The checker's view of a model instruction. The offsets of `break`/`continue` live in the
loop table (as in Go: `BreakInstr.loop.breakOffset`). -/
def toB (loops : List LoopRec) : Instr → BInstr
  | .push _ => .push
  | .pop => .pop
  | .dup => .dup
  | .envToStack _ => .envToStack
  | .popStackPutEnv _ => .popStackPutEnv
  | .update _ => .update
  | .callArr n => .call n
  | .callExpr _ args => .callExpr args.length
  | .jump off => .jump off
  | .goto loc => .goto loc
  | .branch d off => .branch d off
  | .ret => .ret false
  | .addScope => .addScope
  | .addFuncScope _ => .addFuncScope
  | .removeScope => .removeScope
  | .createClosure _ => .createClosure
  | .prepareCall _ n => .prepareCall n
  | .tailGuard _ skip => .tailGuard skip
  | .pushLazy _ => .pushLazy
  | .loopStart l => .loopStart l
  | .label => .label
  | .pushMark l => .pushMark l
  | .popUntilMark l => .popUntilMark l
  | .clearMark l => .clearMark l
  | .brk l n => .brk l (loops.getD l {}).breakOff n
  | .cont l n => .cont l (loops.getD l {}).contOff n
  | .assign => .assign

/-! ## `bump`: operands added to the innermost region -/

def bump (σ : AState) (d : Nat) : AState :=
  match σ.frames with
  | [] => { σ with base := σ.base + d }
  | fr :: rest => { σ with frames := { fr with cnt := { fr.cnt with n := fr.cnt.n + d } } :: rest }

theorem bump_zero (σ : AState) : bump σ 0 = σ := by
  obtain ⟨k, frames, base⟩ := σ
  cases frames <;> simp [bump]

theorem bump_bump (σ : AState) (a b : Nat) : bump (bump σ a) b = bump σ (a + b) := by
  obtain ⟨k, frames, base⟩ := σ
  cases frames <;> simp [bump, Nat.add_assoc]

theorem bump_k (σ : AState) (d : Nat) : (bump σ d).k = σ.k := by
  obtain ⟨k, frames, base⟩ := σ
  cases frames <;> simp [bump]

theorem openMarks_bump (σ : AState) (d : Nat) : openMarks (bump σ d).frames = openMarks σ.frames := by
  obtain ⟨k, frames, base⟩ := σ
  cases frames with
  | nil => simp [bump]
  | cons fr rest =>
    obtain ⟨fk, fc⟩ := fr
    cases fk <;> simp [bump, openMarks]

theorem wf_bump (σ : AState) (d : Nat) : (bump σ d).wf = σ.wf := by
  simp [AState.wf, openMarks_bump]

theorem popPush_bump (σ : AState) (n p m : Nat) (h : p ≤ n) :
    popPush (bump σ n) p m = some (bump σ (n - p + m)) := by
  obtain ⟨k, frames, base⟩ := σ
  cases frames with
  | nil =>
    have hle : p ≤ base + n := by omega
    simp [bump, popPush, hle]
    omega
  | cons fr rest =>
    have hle : p ≤ fr.cnt.n + n := by omega
    simp [bump, popPush, hle]
    omega

theorem popPush_zero (σ : AState) (m : Nat) : popPush σ 0 m = some (bump σ m) := by
  have := popPush_bump σ 0 0 m (Nat.le_refl _)
  rw [bump_zero] at this
  simpa using this

/-- a state with `k + d` scopes open -/
def deeper (σ : AState) (d : Nat) : AState := { σ with k := σ.k + d }

theorem bump_deeper (σ : AState) (d n : Nat) : bump (deeper σ d) n = deeper (bump σ n) d := by
  obtain ⟨k, frames, base⟩ := σ
  cases frames <;> simp [bump, deeper]

theorem wf_deeper (σ : AState) (d : Nat) : (deeper σ d).wf = σ.wf := rfl

/-! ## Reflexivity of the order -/

theorem shape_le_refl (s : Shape) : s.le s = true := by cases s <;> rfl

theorem cnt_le_refl (c : Cnt) : c.le c = true := by
  obtain ⟨s, n⟩ := c
  simp only [Cnt.le, shape_le_refl, Bool.true_and]
  split <;> simp

theorem framesLe_refl : ∀ fs : List Frame, framesLe fs fs = true
  | [] => rfl
  | f :: fs => by simp [framesLe, Frame.le, cnt_le_refl, framesLe_refl fs]

theorem le_refl (σ : AState) : σ.le σ = true := by
  simp [AState.le, framesLe_refl]

/-! ## Fragments -/

structure LoopInfo where
  id : Nat
  k : Nat                 -- scopes open right after the loop's own scope was opened
  below : List Frame      -- the frames underneath the loop's stack-mark
  base : Nat
  brkOff : Int
  contOff : Int

/-- the state a `break`/`continue` of this loop arrives with -/
def LoopInfo.cut (i : LoopInfo) : AState :=
  { k := i.k, frames := ⟨.mark i.id, ⟨.junk, 0⟩⟩ :: i.below, base := i.base }

/-- What a fragment may assume about the function it is placed in: the enclosing loops (innermost
first) and a side condition on the function and its annotation as a whole (used by
`Proofs/GenBalancedLoop.lean`: loop ids occur once, loops of an enclosing function do not occur,
the annotation of instruction 0 is the entry state). -/
structure Env where
  loops : List LoopInfo := []
  side : Fn → Ann → Prop := fun _ _ => True

/-- The enclosing function really has the loops of `Γ`, and its annotation admits the cut
states at their break and continue targets. -/
def EnvOK (Γ : Env) (F : Fn) (A : Ann) : Prop :=
  Γ.side F A ∧ ∀ i ∈ Γ.loops, ∃ p tb tc, loopPos F.code i.id = some p ∧
    target p i.brkOff F.code.length = some tb ∧ target p i.contOff F.code.length = some tc ∧
    (∃ t, annAt A tb = some t ∧ i.cut.le t = true) ∧ (∃ t, annAt A tc = some t ∧ i.cut.le t = true)

/-- `code` sits at position `L` of `F`, `as` at position `L` of the annotation. -/
def Placed (F : Fn) (A : Ann) (L : Nat) (code : List BInstr) (as : List AState) : Prop :=
  (∀ i, i < code.length → F.code[L + i]? = code[i]?) ∧
  (∀ i, i < as.length → annAt A (L + i) = as[i]?)

def FragOK (Γ : Env) (code : List BInstr) (as : List AState) : Prop :=
  as.length = code.length + 1 ∧ (∀ s ∈ as, s.wf = true) ∧
  ∀ (F : Fn) (A : Ann) (L : Nat), Placed F A L code as → EnvOK Γ F A →
    ∀ i, i < code.length → okAt F A (L + i) = true

theorem placed_bound {F : Fn} {A : Ann} {L : Nat} {code : List BInstr} {as : List AState}
    (h : Placed F A L code as) (n : Nat) (hn : n < code.length) : L + n < F.code.length := by
  have := h.1 n hn
  rw [List.getElem?_eq_getElem hn] at this
  rcases Nat.lt_or_ge (L + n) F.code.length with h' | h'
  · exact h'
  · rw [List.getElem?_eq_none_iff.mpr h'] at this; cases this

theorem okAt_intro (F : Fn) (A : Ann) (pc : Nat) (ins : BInstr) (a : AState) (succs : List (Nat × AState))
    (hc : F.code[pc]? = some ins) (ha : annAt A pc = some a) (hwf : a.wf = true)
    (hs : astep F pc ins a = .ok succs)
    (hall : ∀ p ∈ succs, ∃ t, annAt A p.1 = some t ∧ p.2.le t = true) : okAt F A pc = true := by
  unfold okAt
  rw [ha, hc]
  simp only [hwf, Bool.true_and, hs]
  apply List.all_eq_true.mpr
  intro p hp
  obtain ⟨t, ht, hle⟩ := hall p hp
  simp [succOk, ht, hle]

theorem placed_left {F : Fn} {A : Ann} {L : Nat} {c1 c2 : List BInstr} {a1 a2 : List AState} {m : AState}
    (h : Placed F A L (c1 ++ c2) (a1 ++ m :: a2)) (hl : a1.length = c1.length) :
    Placed F A L c1 (a1 ++ [m]) := by
  constructor
  · intro i hi
    have := h.1 i (by simp; omega)
    rw [this, List.getElem?_append_left hi]
  · intro i hi
    simp only [List.length_append, List.length_cons, List.length_nil] at hi
    have := h.2 i (by simp; omega)
    rw [this]
    rcases Nat.lt_or_ge i a1.length with hlt | hge
    · rw [List.getElem?_append_left hlt, List.getElem?_append_left hlt]
    · have hie : i = a1.length := by omega
      subst hie
      simp

theorem placed_right {F : Fn} {A : Ann} {L : Nat} {c1 c2 : List BInstr} {a1 a2 : List AState} {m : AState}
    (h : Placed F A L (c1 ++ c2) (a1 ++ m :: a2)) (hl : a1.length = c1.length) :
    Placed F A (L + c1.length) c2 (m :: a2) := by
  constructor
  · intro i hi
    have := h.1 (c1.length + i) (by simp; omega)
    rw [Nat.add_assoc, this, List.getElem?_append_right (by omega)]
    simp
  · intro i hi
    have := h.2 (a1.length + i) (by simp at hi ⊢; omega)
    rw [Nat.add_assoc, ← hl, this, List.getElem?_append_right (by omega)]
    simp

/-- Sequential composition: the state behind the first fragment is the state in front of the second. -/
theorem frag_seq {Γ : Env} {c1 c2 : List BInstr} {a1 a2 : List AState} {m : AState}
    (h1 : FragOK Γ c1 (a1 ++ [m])) (h2 : FragOK Γ c2 (m :: a2)) :
    FragOK Γ (c1 ++ c2) (a1 ++ m :: a2) := by
  obtain ⟨hl1, hw1, hk1⟩ := h1
  obtain ⟨hl2, hw2, hk2⟩ := h2
  have hl : a1.length = c1.length := by simpa using hl1
  refine ⟨by simp at hl2 ⊢; omega, ?_, ?_⟩
  · intro s hs
    rcases List.mem_append.mp hs with hs | hs
    · exact hw1 s (List.mem_append.mpr (Or.inl hs))
    · exact hw2 s hs
  · intro F A L hp henv i hi
    rcases Nat.lt_or_ge i c1.length with hlt | hge
    · exact hk1 F A L (placed_left hp hl) henv i hlt
    · have := hk2 F A (L + c1.length) (placed_right hp hl) henv (i - c1.length) (by simp at hi; omega)
      have he : L + c1.length + (i - c1.length) = L + i := by omega
      rwa [he] at this

/-- One instruction whose only successor is the next position. -/
theorem frag_step1 (Γ : Env) (ins : BInstr) (σ τ : AState) (hσ : σ.wf = true) (hτ : τ.wf = true)
    (h : ∀ F pc, astep F pc ins σ = .ok [(pc + 1, τ)]) : FragOK Γ [ins] [σ, τ] := by
  refine ⟨rfl, ?_, ?_⟩
  · intro s hs
    simp at hs
    rcases hs with rfl | rfl <;> assumption
  · intro F A L hp _ i hi
    have hi0 : i = 0 := by simpa using hi
    subst hi0
    have hc := hp.1 0 (by simp)
    have ha0 := hp.2 0 (by simp)
    have ha1 := hp.2 1 (by simp)
    simp at hc ha0 ha1
    refine okAt_intro F A (L + 0) ins σ [(L + 1, τ)] (by simpa using hc) (by simpa using ha0) hσ (h F _) ?_
    intro p hp'
    simp at hp'
    subst hp'
    exact ⟨τ, ha1, le_refl τ⟩

/-! ## Expression fragments: non-empty code from state `σ` to state `τ` -/

def ExprFrag (Γ : Env) (code : List BInstr) (σ τ : AState) : Prop :=
  ∃ mid, FragOK Γ code (σ :: mid ++ [τ])

theorem efrag_seq {Γ : Env} {c1 c2 : List BInstr} {σ μ τ : AState}
    (h1 : ExprFrag Γ c1 σ μ) (h2 : ExprFrag Γ c2 μ τ) : ExprFrag Γ (c1 ++ c2) σ τ := by
  obtain ⟨m1, h1⟩ := h1
  obtain ⟨m2, h2⟩ := h2
  refine ⟨m1 ++ μ :: m2, ?_⟩
  have := frag_seq (a1 := σ :: m1) (a2 := m2 ++ [τ]) (m := μ) (by simpa using h1) (by simpa using h2)
  simpa using this

theorem efrag_wf {Γ : Env} {c : List BInstr} {σ τ : AState} (h : ExprFrag Γ c σ τ) :
    σ.wf = true ∧ τ.wf = true := by
  obtain ⟨m, _, hw, _⟩ := h
  exact ⟨hw σ (by simp), hw τ (by simp)⟩

theorem efrag_single (Γ : Env) (ins : BInstr) (σ τ : AState) (hσ : σ.wf = true) (hτ : τ.wf = true)
    (h : ∀ F pc, astep F pc ins σ = .ok [(pc + 1, τ)]) : ExprFrag Γ [ins] σ τ :=
  ⟨[], by simpa using frag_step1 Γ ins σ τ hσ hτ h⟩

theorem astep_simple (F : Fn) (pc : Nat) (ins : BInstr) (a a' : AState) (p m : Nat)
    (he : eff ins = .simple p m) (hp : popPush a p m = some a') :
    astep F pc ins a = .ok [(pc + 1, a')] := by
  simp [astep, he, hp]

/-- an instruction that pops `p` and pushes `m` operands of the innermost region -/
theorem efrag_simple (Γ : Env) (ins : BInstr) (σ : AState) (n p m : Nat) (hσ : σ.wf = true)
    (he : eff ins = .simple p m) (hp : p ≤ n) : ExprFrag Γ [ins] (bump σ n) (bump σ (n - p + m)) :=
  efrag_single Γ ins _ _ (by rw [wf_bump]; exact hσ) (by rw [wf_bump]; exact hσ)
    (fun F pc => astep_simple F pc ins _ _ p m he (popPush_bump σ n p m hp))

theorem efrag_push (Γ : Env) (ins : BInstr) (σ : AState) (hσ : σ.wf = true)
    (he : eff ins = .simple 0 1) : ExprFrag Γ [ins] σ (bump σ 1) := by
  have := efrag_simple Γ ins σ 0 0 1 hσ he (Nat.le_refl _)
  rwa [bump_zero] at this

theorem efrag_dup (Γ : Env) (σ : AState) (n : Nat) (hσ : σ.wf = true) :
    ExprFrag Γ [.dup] (bump σ (n + 1)) (bump σ (n + 2)) :=
  efrag_single Γ .dup _ _ (by rw [wf_bump]; exact hσ) (by rw [wf_bump]; exact hσ)
    (fun F pc => by
      have := popPush_bump σ (n + 1) 1 2 (by omega)
      simp only [astep, eff, this]
      congr 4)

theorem efrag_pop (Γ : Env) (σ : AState) (n : Nat) (hσ : σ.wf = true) :
    ExprFrag Γ [.pop] (bump σ (n + 1)) (bump σ n) :=
  efrag_single Γ .pop _ _ (by rw [wf_bump]; exact hσ) (by rw [wf_bump]; exact hσ)
    (fun F pc => by
      have := popPush_bump σ (n + 1) 1 0 (by omega)
      simp only [astep, eff, this]
      congr 4)

theorem efrag_scopeUp (Γ : Env) (ins : BInstr) (σ : AState) (hσ : σ.wf = true)
    (he : eff ins = .scopeUp) : ExprFrag Γ [ins] σ (deeper σ 1) :=
  efrag_single Γ ins _ _ hσ (by rw [wf_deeper]; exact hσ)
    (fun F pc => by simp [astep, he, deeper])

theorem efrag_scopeDown (Γ : Env) (σ : AState) (hσ : σ.wf = true) :
    ExprFrag Γ [.removeScope] (deeper σ 1) σ :=
  efrag_single Γ .removeScope _ _ (by rw [wf_deeper]; exact hσ) hσ
    (fun F pc => by
      obtain ⟨k, fr, b⟩ := σ
      simp [astep, eff, deeper])

/-! ## Two-way branches -/

theorem target_some (pc : Nat) (off : Int) (n : Nat) (len : Nat) (ho : off = (n : Int)) (h : pc + n ≤ len) :
    target pc off len = some (pc + n) := by
  unfold target
  simp only
  rw [if_pos (by omega)]
  congr 1
  omega

/-- `branch → b ; jump → behind r ; r`: the shape of one `cond` arm. The branch pops the test
value; both continuations start in the same state and end in the same state. -/
theorem efrag_branch_over {Γ : Env} {b r : List BInstr} {σ₁ σ τ : AState} (d : Bool)
    (hpop : popPush σ₁ 1 0 = some σ) (hw1 : σ₁.wf = true)
    (hb : ExprFrag Γ b σ τ) (hr : ExprFrag Γ r σ τ) :
    ExprFrag Γ ([BInstr.branch d ((b.length : Int) + 2)] ++ (b ++ ([BInstr.jump ((r.length : Int) + 1)] ++ r))) σ₁ τ := by
  obtain ⟨mb, hbl, hbw, hbk⟩ := hb
  obtain ⟨mr, hrl, hrw, hrk⟩ := hr
  have hnb : b.length = mb.length + 1 := by simp at hbl; omega
  have hnr : r.length = mr.length + 1 := by simp at hrl; omega
  refine ⟨(σ :: mb) ++ τ :: (σ :: mr), ?_, ?_, ?_⟩
  · simp; omega
  · intro s hs
    have h' : s = σ₁ ∨ s ∈ σ :: mb ++ [τ] ∨ s ∈ σ :: mr ++ [τ] := by
      simp only [List.cons_append, List.mem_cons, List.mem_append, List.mem_nil_iff, or_false] at hs ⊢
      grind
    rcases h' with rfl | h' | h'
    · exact hw1
    · exact hbw s h'
    · exact hrw s h'
  · intro F A L hp henv i hi
    -- placements of the parts
    have hAS : σ₁ :: ((σ :: mb) ++ τ :: (σ :: mr)) ++ [τ]
        = [σ₁] ++ σ :: (mb ++ τ :: (σ :: mr ++ [τ])) := by simp
    rw [hAS] at hp
    have hp1 := placed_right (c1 := [BInstr.branch d ((b.length : Int) + 2)]) (a1 := [σ₁]) hp rfl
    have hpB : Placed F A (L + 1) b ((σ :: mb) ++ [τ]) :=
      placed_left (c1 := b) (a1 := σ :: mb) (m := τ) (a2 := σ :: mr ++ [τ]) (by simpa using hp1) (by simp [hnb])
    have hp2 := placed_right (c1 := b) (a1 := σ :: mb) (m := τ) (a2 := σ :: mr ++ [τ]) (by simpa using hp1) (by simp [hnb])
    have hpR : Placed F A (L + 1 + b.length + 1) r (σ :: mr ++ [τ]) :=
      placed_right (c1 := [BInstr.jump ((r.length : Int) + 1)]) (a1 := [τ]) (m := σ) (a2 := mr ++ [τ]) (by simpa using hp2) rfl
    simp only [List.length_append, List.length_cons, List.length_nil] at hi
    -- the last placed instruction bounds the code
    have hlast := placed_bound hp (b.length + 1 + r.length) (by simp; omega)
    rcases Nat.eq_zero_or_pos i with h0 | hpos
    · -- the branch
      subst h0
      have hc := hp.1 0 (by simp)
      have ha := hp.2 0 (by simp)
      simp at hc ha
      have ha1 := hpB.2 0 (by simp)
      have ha2 := hpR.2 0 (by simp)
      simp at ha1 ha2
      have htgt : target (L + 0) ((b.length : Int) + 2) F.code.length = some (L + 0 + (b.length + 2)) :=
        target_some _ _ (b.length + 2) _ (by push_cast; rfl) (by omega)
      refine okAt_intro F A (L + 0) _ σ₁ [(L + 0 + 1, σ), (L + 0 + (b.length + 2), σ)] (by simpa using hc) (by simpa using ha) hw1 ?_ ?_
      · simp only [astep, eff, hpop, htgt]
      · intro q hq
        simp only [List.mem_cons, List.mem_nil_iff, or_false] at hq
        rcases hq with rfl | rfl
        · exact ⟨σ, by simpa using ha1, le_refl σ⟩
        · refine ⟨σ, ?_, le_refl σ⟩
          have : L + 0 + (b.length + 2) = L + 1 + b.length + 1 := by omega
          rw [this]; simpa using ha2
    · rcases Nat.lt_or_ge i (b.length + 1) with hib | hib
      · -- inside b
        have := hbk F A (L + 1) (by simpa using hpB) henv (i - 1) (by omega)
        have he : L + 1 + (i - 1) = L + i := by omega
        rwa [he] at this
      · rcases Nat.eq_or_lt_of_le hib with hij | hij
        · -- the jump behind r
          subst hij
          have hc := hp2.1 0 (by simp)
          have ha := hp2.2 0 (by simp)
          simp at hc ha
          have haE := hpR.2 (mr.length + 1) (by simp)
          simp at haE
          have htgt : target (L + (b.length + 1)) ((r.length : Int) + 1) F.code.length
              = some (L + (b.length + 1) + (r.length + 1)) :=
            target_some _ _ (r.length + 1) _ (by push_cast; rfl) (by omega)
          refine okAt_intro F A (L + (b.length + 1)) _ τ [(L + (b.length + 1) + (r.length + 1), τ)]
            (by have : L + 1 + b.length = L + (b.length + 1) := by omega
                rw [← this]; simpa using hc)
            (by have : L + 1 + b.length = L + (b.length + 1) := by omega
                rw [← this]; simpa using ha)
            (hbw τ (by simp)) ?_ ?_
          · simp only [astep, eff, htgt]
          · intro q hq
            simp only [List.mem_cons, List.mem_nil_iff, or_false] at hq
            subst hq
            refine ⟨τ, ?_, le_refl τ⟩
            have : L + (b.length + 1) + (r.length + 1) = L + 1 + b.length + 1 + (mr.length + 1) := by omega
            rw [this]; simpa using haE
        · -- inside r
          have := hrk F A (L + 1 + b.length + 1) (by simpa using hpR) henv (i - (b.length + 2)) (by omega)
          have he : L + 1 + b.length + 1 + (i - (b.length + 2)) = L + i := by omega
          rwa [he] at this

/-- `branch → behind x ; x`: the shape of a short-circuit step. Taken or not, the state behind
`x` is the state the branch leaves. -/
theorem efrag_branch_skip {Γ : Env} {x : List BInstr} {σ₁ μ : AState} (d : Bool)
    (hpop : popPush σ₁ 1 0 = some μ) (hw1 : σ₁.wf = true) (hx : ExprFrag Γ x μ μ) :
    ExprFrag Γ ([BInstr.branch d ((x.length : Int) + 1)] ++ x) σ₁ μ := by
  obtain ⟨mx, hxl, hxw, hxk⟩ := hx
  have hnx : x.length = mx.length + 1 := by simp at hxl; omega
  refine ⟨μ :: mx, ?_, ?_, ?_⟩
  · simp; omega
  · intro s hs
    have h' : s = σ₁ ∨ s ∈ μ :: mx ++ [μ] := by
      simp only [List.cons_append, List.mem_cons, List.mem_append, List.mem_nil_iff, or_false] at hs ⊢
      grind
    rcases h' with rfl | h'
    · exact hw1
    · exact hxw s h'
  · intro F A L hp henv i hi
    have hAS : σ₁ :: (μ :: mx) ++ [μ] = [σ₁] ++ μ :: (mx ++ [μ]) := by simp
    rw [hAS] at hp
    have hpX : Placed F A (L + 1) x (μ :: mx ++ [μ]) := by
      have := placed_right (c1 := [BInstr.branch d ((x.length : Int) + 1)]) (a1 := [σ₁]) hp rfl
      simpa using this
    simp only [List.length_append, List.length_cons, List.length_nil] at hi
    have hlast := placed_bound hp x.length (by simp)
    rcases Nat.eq_zero_or_pos i with h0 | hpos
    · subst h0
      have hc := hp.1 0 (by simp)
      have ha := hp.2 0 (by simp)
      simp at hc ha
      have ha1 := hpX.2 0 (by simp)
      have haE := hpX.2 (mx.length + 1) (by simp)
      simp at ha1 haE
      have htgt : target (L + 0) ((x.length : Int) + 1) F.code.length = some (L + 0 + (x.length + 1)) :=
        target_some _ _ (x.length + 1) _ (by push_cast; rfl) (by omega)
      refine okAt_intro F A (L + 0) _ σ₁ [(L + 0 + 1, μ), (L + 0 + (x.length + 1), μ)] (by simpa using hc) (by simpa using ha) hw1 ?_ ?_
      · simp only [astep, eff, hpop, htgt]
      · intro q hq
        simp only [List.mem_cons, List.mem_nil_iff, or_false] at hq
        rcases hq with rfl | rfl
        · exact ⟨μ, by simpa using ha1, le_refl μ⟩
        · refine ⟨μ, ?_, le_refl μ⟩
          have : L + 0 + (x.length + 1) = L + 1 + (mx.length + 1) := by omega
          rw [this]; simpa using haE
    · have := hxk F A (L + 1) hpX henv (i - 1) (by omega)
      have he : L + 1 + (i - 1) = L + i := by omega
      rwa [he] at this

/-! ## Possibly empty fragments -/

def SeqFrag (Γ : Env) (code : List BInstr) (σ τ : AState) : Prop :=
  (code = [] ∧ σ = τ) ∨ ExprFrag Γ code σ τ

theorem sfrag_nil (Γ : Env) (σ : AState) : SeqFrag Γ [] σ σ := Or.inl ⟨rfl, rfl⟩

theorem sfrag_of_e {Γ : Env} {c : List BInstr} {σ τ : AState} (h : ExprFrag Γ c σ τ) :
    SeqFrag Γ c σ τ := Or.inr h

theorem sfrag_seq_e {Γ : Env} {c1 c2 : List BInstr} {σ μ τ : AState}
    (h1 : SeqFrag Γ c1 σ μ) (h2 : ExprFrag Γ c2 μ τ) : ExprFrag Γ (c1 ++ c2) σ τ := by
  rcases h1 with ⟨rfl, rfl⟩ | h1
  · simpa using h2
  · exact efrag_seq h1 h2

theorem efrag_seq_s {Γ : Env} {c1 c2 : List BInstr} {σ μ τ : AState}
    (h1 : ExprFrag Γ c1 σ μ) (h2 : SeqFrag Γ c2 μ τ) : ExprFrag Γ (c1 ++ c2) σ τ := by
  rcases h2 with ⟨rfl, rfl⟩ | h2
  · simpa using h1
  · exact efrag_seq h1 h2

theorem sfrag_seq {Γ : Env} {c1 c2 : List BInstr} {σ μ τ : AState}
    (h1 : SeqFrag Γ c1 σ μ) (h2 : SeqFrag Γ c2 μ τ) : SeqFrag Γ (c1 ++ c2) σ τ := by
  rcases h2 with ⟨rfl, rfl⟩ | h2
  · simpa using h1
  · exact Or.inr (sfrag_seq_e h1 h2)

/-! ## The assembly functions of the generator -/

abbrev B (T : List LoopRec) (code : List Instr) : List BInstr := code.map (toB T)

theorem B_length (T : List LoopRec) (code : List Instr) : (B T code).length = code.length := by simp [B]

/-- `GenerateBegin`: statements separated by `pop`. -/
theorem bal_asmBegin (Γ : Env) (T : List LoopRec) (σ : AState) (hσ : σ.wf = true) :
    ∀ (cs : List (List Instr)), cs ≠ [] → (∀ c ∈ cs, ExprFrag Γ (B T c) σ (bump σ 1)) →
      ExprFrag Γ (B T (asmBegin cs)) σ (bump σ 1)
  | [], h, _ => absurd rfl h
  | [c], _, hc => by simpa [asmBegin] using hc c (by simp)
  | c :: c' :: rest, _, hc => by
    have h1 := hc c (by simp)
    have hne : c ≠ [] := by
      intro he; subst he
      obtain ⟨m, hl, _, _⟩ := h1
      simp [B] at hl
    have ih := bal_asmBegin Γ T σ hσ (c' :: rest) (by simp) (fun x hx => hc x (by simp [hx]))
    have hpop := efrag_pop Γ σ 0 hσ
    rw [bump_zero] at hpop
    have := efrag_seq (efrag_seq h1 hpop) ih
    simpa [asmBegin, hne, B, toB] using this

/-- `GenerateCond`. -/
theorem bal_asmCond (Γ : Env) (T : List LoopRec) (σ τ : AState) (hσ : σ.wf = true)
    (dflt : List Instr) (hd : ExprFrag Γ (B T dflt) σ τ) :
    ∀ (arms : List (List Instr × List Instr)),
      (∀ a ∈ arms, ExprFrag Γ (B T a.1) σ (bump σ 1) ∧ ExprFrag Γ (B T a.2) σ τ) →
      ExprFrag Γ (B T (asmCond arms dflt)) σ τ
  | [], _ => by simpa [asmCond] using hd
  | (pred, body) :: arms, h => by
    obtain ⟨hp, hb⟩ := h (pred, body) (by simp)
    have ih := bal_asmCond Γ T σ τ hσ dflt hd arms (fun a ha => h a (by simp [ha]))
    have hpop : popPush (bump σ 1) 1 0 = some σ := by
      have := popPush_bump σ 1 1 0 (Nat.le_refl _)
      simpa [bump_zero] using this
    have hbo := efrag_branch_over (Γ := Γ) false hpop (by rw [wf_bump]; exact hσ) hb ih
    have := efrag_seq hp hbo
    simpa [asmCond, B, toB, List.append_assoc] using this

/-- `GenerateShortCircuit`. -/
theorem bal_asmSC (Γ : Env) (T : List LoopRec) (isOr : Bool) (σ : AState) (hσ : σ.wf = true) :
    ∀ (cs : List (List Instr)), cs ≠ [] → (∀ c ∈ cs, ExprFrag Γ (B T c) σ (bump σ 1)) →
      ExprFrag Γ (B T (asmSC isOr cs)) σ (bump σ 1)
  | [], h, _ => absurd rfl h
  | [c], _, hc => by simpa [asmSC] using hc c (by simp)
  | c :: c' :: rest, _, hc => by
    have h1 := hc c (by simp)
    have ih := bal_asmSC Γ T isOr σ hσ (c' :: rest) (by simp) (fun x hx => hc x (by simp [hx]))
    -- [dup] : σ+1 → σ+2 ; branch pops → σ+1 ; x = [pop] ++ rest : σ+1 → σ+1
    have hdup := efrag_dup Γ σ 0 hσ
    have hpop := efrag_pop Γ σ 0 hσ
    rw [bump_zero] at hpop
    have hx : ExprFrag Γ ([BInstr.pop] ++ B T (asmSC isOr (c' :: rest))) (bump σ 1) (bump σ 1) :=
      efrag_seq hpop ih
    have hpp : popPush (bump σ 2) 1 0 = some (bump σ 1) := by
      have := popPush_bump σ 2 1 0 (by omega)
      simpa using this
    have hskip := efrag_branch_skip (Γ := Γ) isOr hpp (by rw [wf_bump]; exact hσ) hx
    have he : ((([BInstr.pop] ++ B T (asmSC isOr (c' :: rest))).length : Nat) : Int) + 1
        = ((asmSC isOr (c' :: rest)).length : Int) + 2 := by
      simp only [List.length_append, List.length_cons, List.length_nil, B_length]
      omega
    rw [he] at hskip
    have := efrag_seq (efrag_seq h1 hdup) hskip
    simpa [asmSC, B, toB, List.append_assoc] using this

/-! ## Running the generator monad -/

theorem bind_ok {α β : Type} (m : G α) (f : α → G β) (gs : GS) (r : β × GS) :
    (m >>= f) gs = Except.ok r ↔ ∃ a gs1, m gs = Except.ok (a, gs1) ∧ f a gs1 = Except.ok r := by
  show (StateT.bind m f) gs = Except.ok r ↔ _
  unfold StateT.bind
  simp only [bind, Except.bind]
  cases h : m gs with
  | error e => simp
  | ok p =>
    obtain ⟨a, s⟩ := p
    constructor
    · intro h'; exact ⟨a, s, rfl, h'⟩
    · rintro ⟨a', s', heq, h'⟩
      cases heq; exact h'

theorem pure_ok {α : Type} (a : α) (gs : GS) (r : α × GS) :
    (pure a : G α) gs = Except.ok r ↔ r = (a, gs) := by
  show (StateT.pure a) gs = Except.ok r ↔ _
  unfold StateT.pure
  simp only [pure, Except.pure]
  constructor
  · intro h; cases h; rfl
  · intro h; rw [h]

theorem get_ok (gs : GS) (r : GS × GS) : (get : G GS) gs = Except.ok r ↔ r = (gs, gs) := by
  show (StateT.get : G GS) gs = Except.ok r ↔ _
  unfold StateT.get
  simp only [pure, Except.pure]
  constructor
  · intro h; cases h; rfl
  · intro h; rw [h]

theorem throw_ok {α : Type} (gs : GS) (r : α × GS) : ¬ ((throw () : G α) gs = Except.ok r) := by
  intro h
  cases h

/-! ## The forms covered by the induction -/

mutual
/-- Tier A: every core form except `for`/`break`/`continue`; bodies of `let` are non-empty
(what `elabE` guarantees). `fn`/`defn` are atoms here: their bodies are other functions. -/
def okA : Expr → Bool
  | .int _ => true
  | .bool _ => true
  | .str _ => true
  | .nilLit => true
  | .sym _ => true
  | .arr es => okAs es
  | .call _ _ => true
  | .begin_ es => okAs es
  | .def_ _ e => okA e
  | .set_ _ e => okA e
  | .cond arms d => okArms arms && okA d
  | .and_ es => okAs es
  | .or_ es => okAs es
  | .let_ _ bs body => okBinds bs && !body.isEmpty && okAs body
  | .newScope es => okAs es
  | .for_ _ _ _ _ _ => false
  | .break_ _ => false
  | .continue_ _ => false
  | .fn _ _ _ => true
  | .defn _ _ _ _ => true
  | .assign l r => okA l && okA r
  | .bad _ => true
def okAs : List Expr → Bool
  | [] => true
  | e :: es => okA e && okAs es
def okArms : List (Expr × Expr) → Bool
  | [] => true
  | (p, b) :: r => okA p && okA b && okArms r
def okBinds : List (String × Expr) → Bool
  | [] => true
  | (_, e) :: r => okA e && okBinds r
end

/-! ## Induction over the expression grammar (tail flag off: top level, operands, helpers) -/

/-- what the induction proves about one piece of generated code: from any well-formed state it
adds exactly `n` operands to the innermost region and leaves everything else as it was -/
def Adds (code : List Instr) (n : Nat) : Prop :=
  ∀ (Γ : Env) (T : List LoopRec) (σ : AState), σ.wf = true → ExprFrag Γ (B T code) σ (bump σ n)

def AddsS (code : List Instr) (n : Nat) : Prop :=
  ∀ (Γ : Env) (T : List LoopRec) (σ : AState), σ.wf = true → SeqFrag Γ (B T code) σ (bump σ n)

theorem adds_push (i : Instr) (h : ∀ T, eff (toB T i) = .simple 0 1) : Adds [i] 1 :=
  fun Γ T σ hσ => by simpa [B] using efrag_push Γ (toB T i) σ hσ (h T)

theorem adds_seq {c1 c2 : List Instr} {n m : Nat} (h1 : Adds c1 n) (h2 : Adds c2 m) : Adds (c1 ++ c2) (n + m) :=
  fun Γ T σ hσ => by
    have a := h1 Γ T σ hσ
    have b := h2 Γ T (bump σ n) (by rw [wf_bump]; exact hσ)
    rw [bump_bump] at b
    simpa [B] using efrag_seq a b

theorem addsS_seq {c1 c2 : List Instr} {n m : Nat} (h1 : AddsS c1 n) (h2 : AddsS c2 m) : AddsS (c1 ++ c2) (n + m) :=
  fun Γ T σ hσ => by
    have a := h1 Γ T σ hσ
    have b := h2 Γ T (bump σ n) (by rw [wf_bump]; exact hσ)
    rw [bump_bump] at b
    simpa [B] using sfrag_seq a b

theorem adds_of_S_e {c1 c2 : List Instr} {n m : Nat} (h1 : AddsS c1 n) (h2 : Adds c2 m) : Adds (c1 ++ c2) (n + m) :=
  fun Γ T σ hσ => by
    have a := h1 Γ T σ hσ
    have b := h2 Γ T (bump σ n) (by rw [wf_bump]; exact hσ)
    rw [bump_bump] at b
    simpa [B] using sfrag_seq_e a b

/-- one instruction that pops `p` and pushes `m`, after `n ≥ p` operands were added -/
theorem frag_simple_at (i : Instr) (p m n : Nat) (h : ∀ T, eff (toB T i) = .simple p m) (hp : p ≤ n)
    (Γ : Env) (T : List LoopRec) (σ : AState) (hσ : σ.wf = true) :
    ExprFrag Γ (B T [i]) (bump σ n) (bump σ (n - p + m)) := by
  simpa [B] using efrag_simple Γ (toB T i) σ n p m hσ (h T) hp

/-- the `popStackPutEnv`s of a parallel `let`, last binding first -/
theorem popBinds (Γ : Env) (T : List LoopRec) :
    ∀ (bs : List (String × Expr)) (σ : AState), σ.wf = true →
      SeqFrag Γ (B T ((bs.map (fun p => Instr.popStackPutEnv p.1)).reverse)) (bump σ bs.length) σ
  | [], σ, _ => by simpa [B, bump_zero] using sfrag_nil Γ σ
  | (x, e) :: bs, σ, hσ => by
    have ih := popBinds Γ T bs (bump σ 1) (by rw [wf_bump]; exact hσ)
    rw [bump_bump] at ih
    have p := frag_simple_at (.popStackPutEnv x) 1 0 1 (fun _ => rfl) (Nat.le_refl _) Γ T σ hσ
    rw [Nat.sub_self, Nat.zero_add, bump_zero] at p
    have := sfrag_seq ih (sfrag_of_e p)
    have hl : ((x, e) :: bs).length = 1 + bs.length := by simp [Nat.add_comm]
    rw [hl]
    simpa [B] using this

mutual

theorem bal_compile (isFn : Nat → Bool) : ∀ (e : Expr) (c : Ctx) (gs : GS) (code : List Instr) (t : Bool) (gs' : GS),
    c.tail = false → okA e = true → compile isFn c e gs = Except.ok ((code, t), gs') →
    t = false ∧ Adds code 1
  | .int v, c, gs, code, t, gs', hc, _, h => by
    simp only [compile, pure_ok] at h
    cases h
    exact ⟨hc, adds_push _ (fun _ => rfl)⟩
  | .bool v, c, gs, code, t, gs', hc, _, h => by
    simp only [compile, pure_ok] at h
    cases h
    exact ⟨hc, adds_push _ (fun _ => rfl)⟩
  | .str v, c, gs, code, t, gs', hc, _, h => by
    simp only [compile, pure_ok] at h
    cases h
    exact ⟨hc, adds_push _ (fun _ => rfl)⟩
  | .nilLit, c, gs, code, t, gs', hc, _, h => by
    simp only [compile, pure_ok] at h
    cases h
    exact ⟨hc, adds_push _ (fun _ => rfl)⟩
  | .sym x, c, gs, code, t, gs', hc, _, h => by
    simp only [compile, pure_ok] at h
    cases h
    exact ⟨hc, adds_push _ (fun _ => rfl)⟩
  | .def_ x e, c, gs, code, t, gs', hc, hok, h => by
    simp only [compile, bind_ok, pure_ok] at h
    obtain ⟨⟨code1, t1⟩, gs1, h1, heq⟩ := h
    simp only [okA] at hok
    obtain ⟨_, ih⟩ := bal_compile isFn e { c with tail := false } gs code1 t1 gs1 rfl hok h1
    cases heq
    refine ⟨rfl, fun Γ T σ hσ => ?_⟩
    have a := ih Γ T σ hσ
    have d := efrag_dup Γ σ 0 hσ
    have p := frag_simple_at (.popStackPutEnv x) 1 0 2 (fun _ => rfl) (by omega) Γ T σ hσ
    simpa [B, toB] using efrag_seq (efrag_seq a d) p
  | .set_ x e, c, gs, code, t, gs', hc, hok, h => by
    simp only [compile, bind_ok, pure_ok] at h
    obtain ⟨⟨code1, t1⟩, gs1, h1, heq⟩ := h
    simp only [okA] at hok
    obtain ⟨_, ih⟩ := bal_compile isFn e { c with tail := false } gs code1 t1 gs1 rfl hok h1
    cases heq
    refine ⟨rfl, fun Γ T σ hσ => ?_⟩
    have a := ih Γ T σ hσ
    have d := efrag_dup Γ σ 0 hσ
    have p := frag_simple_at (.update x) 1 0 2 (fun _ => rfl) (by omega) Γ T σ hσ
    simpa [B, toB] using efrag_seq (efrag_seq a d) p
  | .arr es, c, gs, code, t, gs', hc, hok, h => by
    simp only [compile, bind_ok, pure_ok] at h
    obtain ⟨⟨code1, t1⟩, gs1, h1, heq⟩ := h
    simp only [okA] at hok
    obtain ⟨_, ih⟩ := bal_compileAll isFn es { c with tail := false } gs code1 t1 gs1 rfl hok h1
    cases heq
    refine ⟨hc, fun Γ T σ hσ => ?_⟩
    have a := ih Γ T σ hσ
    have p := frag_simple_at (.callArr es.length) es.length 1 es.length (fun _ => rfl) (Nat.le_refl _) Γ T σ hσ
    rw [Nat.sub_self, Nat.zero_add] at p
    simpa [B] using sfrag_seq_e a p
  | .call f args, c, gs, code, t, gs', hc, _, h => by
    have hcall : code = [Instr.callExpr f args] ∧ t = false := by
      cases f <;> simp [compile, bind_ok, pure_ok, get_ok, hc] at h <;>
        first
          | (obtain ⟨⟨rfl, rfl⟩, _⟩ := h; exact ⟨rfl, rfl⟩)
          | (obtain ⟨rfl, rfl⟩ := h.1; exact ⟨rfl, rfl⟩)
    obtain ⟨rfl, rfl⟩ := hcall
    exact ⟨rfl, adds_push _ (fun _ => rfl)⟩
  | .begin_ es, c, gs, code, t, gs', hc, hok, h => by
    simp only [okA] at hok
    cases es with
    | nil =>
      simp only [compile, pure_ok] at h
      cases h
      exact ⟨hc, adds_push _ (fun _ => rfl)⟩
    | cons e es =>
      simp only [compile] at h
      exact bal_compileBegin isFn (e :: es) c gs code t gs' hc hok (by simp) h
  | .cond arms dflt, c, gs, code, t, gs', hc, hok, h => by
    simp only [compile, bind_ok, pure_ok] at h
    obtain ⟨⟨d, td⟩, gs1, h1, as, gs2, h2, heq⟩ := h
    simp only [okA, Bool.and_eq_true] at hok
    obtain ⟨_, ihd⟩ := bal_compile isFn dflt c gs d td gs1 hc hok.2 h1
    have iha := bal_compileArms isFn arms c gs1 as gs2 hc hok.1 h2
    cases heq
    refine ⟨hc, fun Γ T σ hσ => ?_⟩
    exact bal_asmCond Γ T σ (bump σ 1) hσ d (ihd Γ T σ hσ) as
      (fun a ha => ⟨(iha a ha).1 Γ T σ hσ, (iha a ha).2 Γ T σ hσ⟩)
  | .and_ es, c, gs, code, t, gs', hc, hok, h => by
    simp only [compile, bind_ok, pure_ok] at h
    obtain ⟨cs, gs1, h1, heq⟩ := h
    simp only [okA] at hok
    have ih := bal_compileSC isFn es c gs cs gs1 hc hok h1
    cases heq
    refine ⟨hc, fun Γ T σ hσ => ?_⟩
    cases cs with
    | nil => simpa [asmSC, B, toB] using efrag_push Γ .push σ hσ rfl
    | cons x xs => exact bal_asmSC Γ T false σ hσ (x :: xs) (by simp) (fun y hy => ih y hy Γ T σ hσ)
  | .or_ es, c, gs, code, t, gs', hc, hok, h => by
    simp only [compile, bind_ok, pure_ok] at h
    obtain ⟨cs, gs1, h1, heq⟩ := h
    simp only [okA] at hok
    have ih := bal_compileSC isFn es c gs cs gs1 hc hok h1
    cases heq
    refine ⟨hc, fun Γ T σ hσ => ?_⟩
    cases cs with
    | nil => simpa [asmSC, B, toB] using efrag_push Γ .push σ hσ rfl
    | cons x xs => exact bal_asmSC Γ T true σ hσ (x :: xs) (by simp) (fun y hy => ih y hy Γ T σ hσ)
  | .let_ seq bs body, c, gs, code, t, gs', hc, hok, h => by
    simp only [compile, bind_ok, pure_ok] at h
    obtain ⟨⟨rhs, t1⟩, gs1, h1, ⟨b, t2⟩, gs2, h2, heq⟩ := h
    simp only [okA, Bool.and_eq_true, Bool.not_eq_true', List.isEmpty_eq_false_iff] at hok
    obtain ⟨⟨hokb, hne⟩, hokbody⟩ := hok
    obtain ⟨_, ihr⟩ := bal_compileBinds isFn bs { c with scopes := c.scopes + 1, tail := false } seq gs rhs t1 gs1 rfl hokb h1
    obtain ⟨ht2, ihb⟩ := bal_compileBegin isFn body { c with scopes := c.scopes + 1 } gs1 b t2 gs2 hc hokbody hne h2
    cases heq
    refine ⟨ht2, fun Γ T σ hσ => ?_⟩
    -- addScope ; rhs ; binds ; body ; removeScope
    have hσ' : (deeper σ 1).wf = true := by rw [wf_deeper]; exact hσ
    have up := efrag_scopeUp Γ .addScope σ hσ rfl
    have r := ihr Γ T (deeper σ 1) hσ'
    have body' := ihb Γ T (deeper σ 1) hσ'
    have down := efrag_scopeDown Γ (bump σ 1) (by rw [wf_bump]; exact hσ)
    rw [← bump_deeper] at down
    cases seq with
    | true =>
      simp only [if_true] at r
      rw [bump_zero] at r
      have := efrag_seq (efrag_seq (efrag_seq_s up r) body') down
      simpa [B, toB, List.append_assoc] using this
    | false =>
      simp only [Bool.false_eq_true, if_false] at r
      have binds : SeqFrag Γ (B T ((bs.map (fun p => Instr.popStackPutEnv p.1)).reverse)) (bump (deeper σ 1) bs.length) (deeper σ 1) :=
        popBinds Γ T bs (deeper σ 1) hσ'
      have := efrag_seq (efrag_seq (efrag_seq_s (efrag_seq_s up r) binds) body') down
      simpa [B, toB, List.append_assoc] using this
  | .newScope es, c, gs, code, t, gs', hc, hok, h => by
    simp only [okA] at hok
    cases es with
    | nil =>
      simp only [compile, pure_ok] at h
      cases h
      exact ⟨rfl, adds_push _ (fun _ => rfl)⟩
    | cons e es =>
      simp only [compile, bind_ok, pure_ok] at h
      obtain ⟨⟨code1, t1⟩, gs1, h1, heq⟩ := h
      obtain ⟨ht, ih⟩ := bal_compileNewScope isFn (e :: es) { c with scopes := c.scopes + 1 } c.tail gs code1 t1 gs1 hc hc hok (by simp) h1
      cases heq
      refine ⟨ht, fun Γ T σ hσ => ?_⟩
      have hσ' : (deeper σ 1).wf = true := by rw [wf_deeper]; exact hσ
      have up := efrag_scopeUp Γ .addScope σ hσ rfl
      have body' := ih Γ T (deeper σ 1) hσ'
      have down := efrag_scopeDown Γ (bump σ 1) (by rw [wf_bump]; exact hσ)
      rw [← bump_deeper] at down
      simpa [B, toB, List.append_assoc] using efrag_seq (efrag_seq up body') down
  | .for_ _ _ _ _ _, _, _, _, _, _, _, hok, _ => by simp [okA] at hok
  | .break_ _, _, _, _, _, _, _, hok, _ => by simp [okA] at hok
  | .continue_ _, _, _, _, _, _, _, hok, _ => by simp [okA] at hok
  | .fn ps rest body, c, gs, code, t, gs', hc, _, h => by
    simp only [compile, bind_ok, pure_ok] at h
    obtain ⟨⟨tm, cb⟩, gs1, _, ⟨b, tb⟩, gs2, _, u, gs3, _, heq⟩ := h
    cases heq
    exact ⟨hc, adds_push _ (fun _ => rfl)⟩
  | .defn name ps rest body, c, gs, code, t, gs', hc, _, h => by
    simp only [compile, bind_ok, pure_ok] at h
    obtain ⟨⟨tm, cb⟩, gs1, _, ⟨b, tb⟩, gs2, _, u, gs3, _, heq⟩ := h
    cases heq
    refine ⟨hc, fun Γ T σ hσ => ?_⟩
    have a := efrag_push Γ .createClosure σ hσ rfl
    have p := frag_simple_at (.popStackPutEnv name) 1 0 1 (fun _ => rfl) (Nat.le_refl _) Γ T σ hσ
    rw [Nat.sub_self, Nat.zero_add, bump_zero] at p
    have q := efrag_push Γ .push σ hσ rfl
    simpa [B, toB] using efrag_seq (efrag_seq a p) q
  | .assign l r, c, gs, code, t, gs', hc, hok, h => by
    simp only [compile, bind_ok, pure_ok] at h
    obtain ⟨⟨a, ta⟩, gs1, h1, ⟨b, tb⟩, gs2, h2, heq⟩ := h
    simp only [okA, Bool.and_eq_true] at hok
    obtain ⟨_, iha⟩ := bal_compile isFn l { c with tail := false } gs a ta gs1 rfl hok.1 h1
    obtain ⟨_, ihb⟩ := bal_compile isFn r { c with tail := false } gs1 b tb gs2 rfl hok.2 h2
    cases heq
    refine ⟨rfl, fun Γ T σ hσ => ?_⟩
    have x := iha Γ T σ hσ
    have y := ihb Γ T (bump σ 1) (by rw [wf_bump]; exact hσ)
    rw [bump_bump] at y
    have z := frag_simple_at .assign 2 1 2 (fun _ => rfl) (Nat.le_refl _) Γ T σ hσ
    simpa [B, toB] using efrag_seq (efrag_seq x y) z
  | .bad _, c, gs, code, t, gs', _, _, h => by
    simp only [compile] at h
    exact absurd h (throw_ok gs _)

theorem bal_compileAll (isFn : Nat → Bool) : ∀ (es : List Expr) (c : Ctx) (gs : GS) (code : List Instr) (t : Bool) (gs' : GS),
    c.tail = false → okAs es = true → compileAll isFn c es gs = Except.ok ((code, t), gs') →
    t = false ∧ AddsS code es.length
  | [], c, gs, code, t, gs', hc, _, h => by
    simp only [compileAll, pure_ok] at h
    cases h
    exact ⟨hc, fun Γ T σ _ => by simpa [B, bump_zero] using sfrag_nil Γ σ⟩
  | e :: es, c, gs, code, t, gs', hc, hok, h => by
    simp only [compileAll, bind_ok, pure_ok] at h
    obtain ⟨⟨a, ta⟩, gs1, h1, ⟨b, tb⟩, gs2, h2, heq⟩ := h
    simp only [okAs, Bool.and_eq_true] at hok
    obtain ⟨hta, iha⟩ := bal_compile isFn e c gs a ta gs1 hc hok.1 h1
    obtain ⟨htb, ihb⟩ := bal_compileAll isFn es { c with tail := ta } gs1 b tb gs2 hta hok.2 h2
    cases heq
    refine ⟨htb, ?_⟩
    have : AddsS (a ++ b) (1 + es.length) := addsS_seq (fun Γ T σ hσ => sfrag_of_e (iha Γ T σ hσ)) ihb
    simpa [Nat.add_comm] using this

theorem bal_compileBegin (isFn : Nat → Bool) : ∀ (es : List Expr) (c : Ctx) (gs : GS) (code : List Instr) (t : Bool) (gs' : GS),
    c.tail = false → okAs es = true → es ≠ [] → compileBegin isFn c es gs = Except.ok ((code, t), gs') →
    t = false ∧ Adds code 1
  | [], _, _, _, _, _, _, _, hne, _ => absurd rfl hne
  | [e], c, gs, code, t, gs', hc, hok, _, h => by
    simp only [compileBegin] at h
    simp only [okAs, Bool.and_eq_true] at hok
    exact bal_compile isFn e c gs code t gs' hc hok.1 h
  | e :: e' :: es, c, gs, code, t, gs', hc, hok, _, h => by
    simp only [compileBegin, bind_ok, pure_ok] at h
    obtain ⟨⟨a, ta⟩, gs1, h1, ⟨b, tb⟩, gs2, h2, heq⟩ := h
    simp only [okAs, Bool.and_eq_true] at hok
    obtain ⟨_, iha⟩ := bal_compile isFn e { c with tail := false } gs a ta gs1 rfl hok.1 h1
    obtain ⟨htb, ihb⟩ := bal_compileBegin isFn (e' :: es) c gs1 b tb gs2 hc (by simp [okAs, hok.2]) (by simp) h2
    cases heq
    refine ⟨htb, fun Γ T σ hσ => ?_⟩
    have x := iha Γ T σ hσ
    have hne : a ≠ [] := by
      intro he; subst he
      obtain ⟨m, hl, _, _⟩ := x
      simp [B] at hl
    have hpop := efrag_pop Γ σ 0 hσ
    rw [bump_zero] at hpop
    simpa [B, toB, hne] using efrag_seq (efrag_seq x hpop) (ihb Γ T σ hσ)

theorem bal_compileArms (isFn : Nat → Bool) : ∀ (arms : List (Expr × Expr)) (c : Ctx) (gs : GS)
    (as : List (List Instr × List Instr)) (gs' : GS),
    c.tail = false → okArms arms = true → compileArms isFn c arms gs = Except.ok (as, gs') →
    ∀ a ∈ as, Adds a.1 1 ∧ Adds a.2 1
  | [], c, gs, as, gs', _, _, h => by
    simp only [compileArms, pure_ok] at h
    cases h
    intro a ha; cases ha
  | (p, b) :: arms, c, gs, as, gs', hc, hok, h => by
    simp only [compileArms, bind_ok, pure_ok] at h
    obtain ⟨rest, gs1, h1, ⟨pc, tp⟩, gs2, h2, ⟨bc, tb⟩, gs3, h3, heq⟩ := h
    simp only [okArms, Bool.and_eq_true] at hok
    have ihr := bal_compileArms isFn arms c gs rest gs1 hc hok.2 h1
    obtain ⟨_, ihp⟩ := bal_compile isFn p { c with tail := false } gs1 pc tp gs2 rfl hok.1.1 h2
    obtain ⟨_, ihb⟩ := bal_compile isFn b c gs2 bc tb gs3 hc hok.1.2 h3
    cases heq
    intro a ha
    rcases List.mem_cons.mp ha with rfl | ha
    · exact ⟨ihp, ihb⟩
    · exact ihr a ha

theorem bal_compileSC (isFn : Nat → Bool) : ∀ (es : List Expr) (c : Ctx) (gs : GS) (cs : List (List Instr)) (gs' : GS),
    c.tail = false → okAs es = true → compileSC isFn c es gs = Except.ok (cs, gs') →
    ∀ x ∈ cs, Adds x 1
  | [], c, gs, cs, gs', _, _, h => by
    simp only [compileSC, pure_ok] at h
    cases h
    intro x hx; cases hx
  | [e], c, gs, cs, gs', hc, hok, h => by
    simp only [compileSC, bind_ok, pure_ok] at h
    obtain ⟨⟨a, ta⟩, gs1, h1, heq⟩ := h
    simp only [okAs, Bool.and_eq_true] at hok
    obtain ⟨_, iha⟩ := bal_compile isFn e c gs a ta gs1 hc hok.1 h1
    cases heq
    intro x hx
    simp at hx; subst hx; exact iha
  | e :: e' :: es, c, gs, cs, gs', hc, hok, h => by
    simp only [compileSC, bind_ok, pure_ok] at h
    obtain ⟨rest, gs1, h1, ⟨a, ta⟩, gs2, h2, heq⟩ := h
    simp only [okAs, Bool.and_eq_true] at hok
    have ihr := bal_compileSC isFn (e' :: es) c gs rest gs1 hc (by simp [okAs, hok.2]) h1
    obtain ⟨_, iha⟩ := bal_compile isFn e { c with tail := false } gs1 a ta gs2 rfl hok.1 h2
    cases heq
    intro x hx
    rcases List.mem_cons.mp hx with rfl | hx
    · exact iha
    · exact ihr x hx

theorem bal_compileBinds (isFn : Nat → Bool) : ∀ (bs : List (String × Expr)) (c : Ctx) (seq : Bool) (gs : GS)
    (code : List Instr) (t : Bool) (gs' : GS),
    c.tail = false → okBinds bs = true → compileBinds isFn c seq bs gs = Except.ok ((code, t), gs') →
    t = false ∧ AddsS code (if seq then 0 else bs.length)
  | [], c, seq, gs, code, t, gs', hc, _, h => by
    simp only [compileBinds, pure_ok] at h
    cases h
    refine ⟨hc, fun Γ T σ _ => ?_⟩
    have : (if seq = true then 0 else ([] : List (String × Expr)).length) = 0 := by cases seq <;> rfl
    rw [this, bump_zero]; exact sfrag_nil Γ σ
  | (x, e) :: bs, c, seq, gs, code, t, gs', hc, hok, h => by
    simp only [compileBinds, bind_ok, pure_ok] at h
    obtain ⟨⟨a, ta⟩, gs1, h1, ⟨b, tb⟩, gs2, h2, heq⟩ := h
    simp only [okBinds, Bool.and_eq_true] at hok
    obtain ⟨hta, iha⟩ := bal_compile isFn e c gs a ta gs1 hc hok.1 h1
    obtain ⟨htb, ihb⟩ := bal_compileBinds isFn bs { c with tail := ta } seq gs1 b tb gs2 hta hok.2 h2
    cases heq
    refine ⟨htb, ?_⟩
    cases seq with
    | true =>
      simp only [if_true] at ihb ⊢
      -- a ; popStackPutEnv x : net 0
      have hstep : AddsS (a ++ [Instr.popStackPutEnv x]) 0 := fun Γ T σ hσ => by
        have p := frag_simple_at (.popStackPutEnv x) 1 0 1 (fun _ => rfl) (Nat.le_refl _) Γ T σ hσ
        rw [Nat.sub_self, Nat.zero_add] at p
        simpa [B] using sfrag_of_e (efrag_seq (iha Γ T σ hσ) p)
      have := addsS_seq hstep ihb
      simpa [List.append_assoc] using this
    | false =>
      simp only [Bool.false_eq_true, if_false] at ihb ⊢
      have : AddsS (a ++ b) (1 + bs.length) := addsS_seq (fun Γ T σ hσ => sfrag_of_e (iha Γ T σ hσ)) ihb
      simpa [Nat.add_comm] using this

theorem bal_compileNewScope (isFn : Nat → Bool) : ∀ (es : List Expr) (c : Ctx) (oldtail : Bool) (gs : GS)
    (code : List Instr) (t : Bool) (gs' : GS),
    c.tail = false → oldtail = false → okAs es = true → es ≠ [] →
    compileNewScope isFn c oldtail es gs = Except.ok ((code, t), gs') → t = false ∧ Adds code 1
  | [], _, _, _, _, _, _, _, _, _, hne, _ => absurd rfl hne
  | [e], c, oldtail, gs, code, t, gs', hc, ho, hok, _, h => by
    simp only [compileNewScope] at h
    simp only [okAs, Bool.and_eq_true] at hok
    exact bal_compile isFn e { c with tail := oldtail } gs code t gs' ho hok.1 h
  | e :: e' :: es, c, oldtail, gs, code, t, gs', hc, ho, hok, _, h => by
    simp only [compileNewScope, bind_ok, pure_ok] at h
    obtain ⟨⟨a, ta⟩, gs1, h1, ⟨b, tb⟩, gs2, h2, heq⟩ := h
    simp only [okAs, Bool.and_eq_true] at hok
    obtain ⟨_, iha⟩ := bal_compile isFn e { c with tail := false } gs a ta gs1 rfl hok.1 h1
    obtain ⟨htb, ihb⟩ := bal_compileNewScope isFn (e' :: es) c oldtail gs1 b tb gs2 hc ho (by simp [okAs, hok.2]) (by simp) h2
    cases heq
    refine ⟨htb, fun Γ T σ hσ => ?_⟩
    have hpop := efrag_pop Γ σ 0 hσ
    rw [bump_zero] at hpop
    simpa [B, toB] using efrag_seq (efrag_seq (iha Γ T σ hσ) hpop) (ihb Γ T σ hσ)

end

/-! ## Whole functions -/

def restState : AState := { k := 0, frames := [], base := 0 }

theorem annAt_map_some (as : List AState) (i : Nat) : annAt (as.map some) i = as[i]? := by
  unfold annAt
  rw [List.getElem?_map]
  cases as[i]? <;> rfl

/-- a fragment from "nothing pushed" to "one value pushed", on its own, is a verified top-level text -/
theorem verify_top_of_frag (code : List BInstr) (mid : List AState)
    (h : FragOK {} code (restState :: mid ++ [bump restState 1])) :
    verify { kind := .top, code := code } ((restState :: mid ++ [bump restState 1]).map some) = true := by
  obtain ⟨hl, hw, hk⟩ := h
  have hlen : mid.length + 1 = code.length := by simp at hl; omega
  unfold verify
  simp only [Bool.and_eq_true]
  refine ⟨⟨⟨?_, ?_⟩, ?_⟩, ?_⟩
  · simp; omega
  · have h0 : annAt ((restState :: mid ++ [bump restState 1]).map some) 0 = some restState := by
      rw [annAt_map_some]; rfl
    unfold succOk
    simp only [h0]
    exact le_refl restState
  · apply List.all_eq_true.mpr
    intro pc hpc
    have hpc' := List.mem_range.mp hpc
    have := hk { kind := .top, code := code } ((restState :: mid ++ [bump restState 1]).map some) 0
      ⟨fun i _ => by simp, fun i _ => by rw [Nat.zero_add]; exact annAt_map_some _ i⟩
      ⟨trivial, fun i hi => by cases hi⟩ pc hpc'
    simpa using this
  · unfold endOk
    have hlast : annAt ((restState :: mid ++ [bump restState 1]).map some) code.length = some (bump restState 1) := by
      rw [annAt_map_some, ← hlen]
      have : (restState :: (mid ++ [bump restState 1]))[mid.length + 1]? = some (bump restState 1) := by
        rw [List.getElem?_cons_succ, List.getElem?_append_right (Nat.le_refl _)]
        simp
      simpa using this
    simp only [hlast]
    simp [bump, restState]

theorem annAt_append_none (as : List AState) (i : Nat) (hi : i < as.length) :
    annAt (as.map some ++ [none]) i = as[i]? := by
  unfold annAt
  rw [List.getElem?_append_left (by simpa using hi), List.getElem?_map]
  cases as[i]? <;> rfl

/-- … and followed by `ret` it is a verified helper function (`callExprEval`, `lazyArgForce`) -/
theorem verify_thunk_of_frag (code : List BInstr) (mid : List AState)
    (h : FragOK {} code (restState :: mid ++ [bump restState 1])) :
    verify { kind := .thunk, code := code ++ [.ret false] }
      ((restState :: mid ++ [bump restState 1]).map some ++ [none]) = true := by
  obtain ⟨hl, hw, hk⟩ := h
  have hlen : mid.length + 1 = code.length := by simp at hl; omega
  have hlenas : (restState :: mid ++ [bump restState 1]).length = code.length + 1 := hl
  unfold verify
  simp only [Bool.and_eq_true]
  refine ⟨⟨⟨?_, ?_⟩, ?_⟩, ?_⟩
  · simp; omega
  · have h0 : annAt ((restState :: mid ++ [bump restState 1]).map some ++ [none]) 0 = some restState := by
      rw [annAt_append_none _ 0 (by simp)]; rfl
    unfold succOk
    simp only [h0]
    exact le_refl restState
  · apply List.all_eq_true.mpr
    intro pc hpc
    have hpc' := List.mem_range.mp hpc
    simp only [List.length_append, List.length_cons, List.length_nil] at hpc'
    rcases Nat.lt_or_ge pc code.length with hlt | hge
    · have := hk { kind := .thunk, code := code ++ [.ret false] }
        ((restState :: mid ++ [bump restState 1]).map some ++ [none]) 0
        ⟨fun i hi => by simp [List.getElem?_append_left hi],
         fun i hi => by rw [Nat.zero_add]; exact annAt_append_none _ i hi⟩
        ⟨trivial, fun i hi => by cases hi⟩ pc hlt
      simpa using this
    · have hpe : pc = code.length := by omega
      subst hpe
      have hlast : annAt ((restState :: mid ++ [bump restState 1]).map some ++ [none]) code.length
          = some (bump restState 1) := by
        rw [annAt_append_none _ _ (by omega), ← hlen]
        have : (restState :: (mid ++ [bump restState 1]))[mid.length + 1]? = some (bump restState 1) := by
          rw [List.getElem?_cons_succ, List.getElem?_append_right (Nat.le_refl _)]
          simp
        simpa using this
      refine okAt_intro _ _ _ (.ret false) (bump restState 1) [] (by simp) hlast (by simp [bump, restState, AState.wf, openMarks]) ?_ (fun p hp => by cases hp)
      simp [astep, eff, bump, restState]
  · unfold endOk
    have hnone : annAt ((restState :: mid ++ [bump restState 1]).map some ++ [none])
        (code ++ [BInstr.ret false]).length = none := by
      unfold annAt
      have : (List.map some (restState :: mid ++ [bump restState 1]) ++ [none])[(code ++ [BInstr.ret false]).length]?
          = some none := by
        have hidx : (code ++ [BInstr.ret false]).length
            = (List.map some (restState :: mid ++ [bump restState 1])).length := by
          simp; omega
        rw [hidx, List.getElem?_append_right (Nat.le_refl _)]
        simp
      rw [this]; rfl
    simp only [hnone]

end ZygoVerif.Bal
