/-
Proofs/Reentrant.lean — why the STATIC scope count of break / continue is right for re-entrant
code (C04; the seeded change C04-m3 replaced it by a depth recorded in the shared loop record).

Compiled code is shared by all activations of a function. The stack-effect machine
(`Model/StackEffect.lean`) and the VM model (`Model/VM.lean`) have no state in the code: a
state is (pc, data stack, scope depth, address depth), the code is a parameter. This file
proves, for any function the verifier accepts:

* `scope_depth_of_pc`     — inside one activation the scope depth is `S + k(pc)`: the entry depth
                            of THIS activation plus a compile-time constant of the pc;
* `same_pc_same_depth`    — two visits of one pc by one activation see the same scope depth,
                            whatever happened in between (loop iterations, nested calls —
                            re-entrant ones included: a call is one step that leaves the scope
                            depth alone, which is `call_contract_of_verified_callee`);
* `exit_pops_static`      — a break/continue step pops exactly the `n` written in the instruction;
* `exit_lands_at_activation_depth` — after it the depth is `S + k(landing pc)`: relative to the
                            activation's OWN entry depth, so no record of "where the loop was
                            entered" is needed, and none that is shared between activations can
                            be right for two nested activations (`nested_activation_depths`);
* `exit_depth_vs_loop_entry` — the depth after an exit of loop `l` minus the depth at any visit
                            of `l`'s `LoopStartInstr` by the same activation is the constant
                            `k(landing) − k(loopStart)` (1 in generated code: the loop's own scope,
                            closed by the `RemoveScope` behind the landing point);
* `call_contract_of_verified_callee` — the step the machine takes for a call (arguments popped,
                            one value pushed, scope depth unchanged) is what a run of a verified
                            callee from that very state does — at ANY depth, so also for the
                            function calling itself from inside its own loop;
* on the VM model: `exec_brk_static`, `exec_cont_static`, `exec_loopStart_pure` — `exec` of
  break/continue drops exactly the static number of scopes and writes neither the loop table
  nor the function table; `LoopStartInstr` changes nothing but the pc.
-/
import ZygoVerif.Proofs.Balanced
import ZygoVerif.Proofs.VMRefine
set_option linter.unusedSimpArgs false
set_option linter.unusedVariables false
namespace ZygoVerif.Bal

/-- Inside one activation (entered with `S` scopes) the scope depth is `S + k(pc)`. -/
theorem scope_depth_of_pc (f : Fn) (ann : Ann) (hv : verify f ann = true)
    (D : List Cell) (S A : Nat) (c0 c : CState)
    (hpc : c0.pc = 0) (hdata : c0.data = List.replicate f.entryCount .val ++ D)
    (hsc : c0.sc = S) (haddr : c0.addr = A) (hreach : Reach f c0 c) :
    ∃ a, annAt ann c.pc = some a ∧ c.sc = S + a.k := by
  have hV := verified_of_verify f ann hv
  have h0 := inv_entry f ann hV D S A c0 hpc hdata hsc haddr
  obtain ⟨a, _, ha, _, _, hk, _⟩ := inv_reach f ann hV D S A c0 c hreach h0
  exact ⟨a, ha, hk⟩

/-- Two visits of the same pc by the same activation see the same scope depth. -/
theorem same_pc_same_depth (f : Fn) (ann : Ann) (hv : verify f ann = true)
    (D : List Cell) (S A : Nat) (c0 c c' : CState)
    (hpc : c0.pc = 0) (hdata : c0.data = List.replicate f.entryCount .val ++ D)
    (hsc : c0.sc = S) (haddr : c0.addr = A) (hr : Reach f c0 c) (hr' : Reach f c0 c')
    (hsame : c.pc = c'.pc) : c.sc = c'.sc := by
  obtain ⟨a, ha, hk⟩ := scope_depth_of_pc f ann hv D S A c0 c hpc hdata hsc haddr hr
  obtain ⟨a', ha', hk'⟩ := scope_depth_of_pc f ann hv D S A c0 c' hpc hdata hsc haddr hr'
  rw [hsame, ha'] at ha
  cases ha
  omega

/-- The instruction at `c.pc` is a break or continue of loop `l` with static count `p`. -/
def AtExit (f : Fn) (c : CState) (l : Nat) (off : Int) (p : Nat) : Prop :=
  f.code[c.pc]? = some (.brk l off p) ∨ f.code[c.pc]? = some (.cont l off p)

theorem eff_of_atExit {f : Fn} {c : CState} {l : Nat} {off : Int} {p : Nat} {i : BInstr}
    (h : AtExit f c l off p) (hi : f.code[c.pc]? = some i) : eff i = .exitLoop l off p := by
  rcases h with h | h <;> (rw [h] at hi; cases hi; rfl)

/-- A break/continue step pops exactly the static count written in the instruction and lands at
the loop's offset. -/
theorem exit_pops_static (f : Fn) (c c' : CState) (l : Nat) (off : Int) (p : Nat)
    (hat : AtExit f c l off p) (hstep : CStep f c c') :
    p ≤ c.sc ∧ c'.sc = c.sc - p ∧ c'.data = c.data ∧ c'.addr = c.addr ∧
    ∃ pos, loopPos f.code l = some pos ∧ (c'.pc : Int) = (pos : Int) + off := by
  cases hstep with
  | exitLoop i l' off' p' pos hi he hl hnn hp =>
    rw [eff_of_atExit hat hi] at he
    cases he
    exact ⟨hp, rfl, rfl, rfl, pos, hl, by simp only; omega⟩
  | simple i p' m popped rest hi he => rw [eff_of_atExit hat hi] at he; cases he
  | dup i x rest hi he => rw [eff_of_atExit hat hi] at he; cases he
  | popCell i x rest hi he => rw [eff_of_atExit hat hi] at he; cases he
  | popEmpty i hi he => rw [eff_of_atExit hat hi] at he; cases he
  | jump i off' t hi he => rw [eff_of_atExit hat hi] at he; cases he
  | goto i loc t hi he => rw [eff_of_atExit hat hi] at he; cases he
  | branchTaken i off' x rest t hi he => rw [eff_of_atExit hat hi] at he; cases he
  | branchFall i off' x rest hi he => rw [eff_of_atExit hat hi] at he; cases he
  | guardTaken i off' t hi he => rw [eff_of_atExit hat hi] at he; cases he
  | guardFall i off' hi he => rw [eff_of_atExit hat hi] at he; cases he
  | scopeUp i hi he => rw [eff_of_atExit hat hi] at he; cases he
  | scopeDown i n hi he => rw [eff_of_atExit hat hi] at he; cases he
  | pushMarker i hi he => rw [eff_of_atExit hat hi] at he; cases he
  | closeMarker i above below hi he => rw [eff_of_atExit hat hi] at he; cases he
  | explode i x rest n hi he => rw [eff_of_atExit hat hi] at he; cases he
  | pushMark i s hi he => rw [eff_of_atExit hat hi] at he; cases he
  | popUntil i s above below hi he => rw [eff_of_atExit hat hi] at he; cases he
  | clearMark i s above below hi he => rw [eff_of_atExit hat hi] at he; cases he
  | xfer i n hi he => rw [eff_of_atExit hat hi] at he; cases he
  | prepareVar i n popped rest hi he => rw [eff_of_atExit hat hi] at he; cases he
  | prepareFix i n hi he => rw [eff_of_atExit hat hi] at he; cases he

/-- **After a break/continue the scope depth is that of THIS activation at the landing point**:
`S + k(landing pc)`, `S` being the depth at which this activation was entered. Nothing recorded
when the loop was entered is consulted; the count `p` in the instruction is exactly
`k(exit pc) − k(landing pc)`. -/
theorem exit_lands_at_activation_depth (f : Fn) (ann : Ann) (hv : verify f ann = true)
    (D : List Cell) (S A : Nat) (c0 c c' : CState)
    (hpc : c0.pc = 0) (hdata : c0.data = List.replicate f.entryCount .val ++ D)
    (hsc : c0.sc = S) (haddr : c0.addr = A) (hreach : Reach f c0 c)
    (l : Nat) (off : Int) (p : Nat) (hat : AtExit f c l off p) (hstep : CStep f c c') :
    ∃ a a', annAt ann c.pc = some a ∧ annAt ann c'.pc = some a' ∧
      c.sc = S + a.k ∧ c'.sc = S + a'.k ∧ a.k = a'.k + p := by
  obtain ⟨a, ha, hk⟩ := scope_depth_of_pc f ann hv D S A c0 c hpc hdata hsc haddr hreach
  obtain ⟨a', ha', hk'⟩ := scope_depth_of_pc f ann hv D S A c0 c' hpc hdata hsc haddr
    (Reach.step _ _ _ hreach hstep)
  obtain ⟨hp, hpop, _⟩ := exit_pops_static f c c' l off p hat hstep
  exact ⟨a, a', ha, ha', hk, hk', by omega⟩

/-- **Depth after an exit of loop `l` versus depth at loop entry, same activation**: for ANY visit
`cs` of a `LoopStartInstr` and ANY exit step `c → c'` by the same activation — however many
iterations, nested loops, or calls (re-entrant ones included) lie between them, and in whichever
order — the difference is the compile-time constant `k(landing) − k(loopStart)`. -/
theorem exit_depth_vs_loop_entry (f : Fn) (ann : Ann) (hv : verify f ann = true)
    (D : List Cell) (S A : Nat) (c0 cs c c' : CState)
    (hpc : c0.pc = 0) (hdata : c0.data = List.replicate f.entryCount .val ++ D)
    (hsc : c0.sc = S) (haddr : c0.addr = A)
    (ls : Nat) (hrs : Reach f c0 cs) (hstart : f.code[cs.pc]? = some (.loopStart ls))
    (hreach : Reach f c0 c) (l : Nat) (off : Int) (p : Nat) (hat : AtExit f c l off p) (hstep : CStep f c c') :
    ∃ as a', annAt ann cs.pc = some as ∧ annAt ann c'.pc = some a' ∧ c'.sc + as.k = cs.sc + a'.k := by
  obtain ⟨as, has, hks⟩ := scope_depth_of_pc f ann hv D S A c0 cs hpc hdata hsc haddr hrs
  obtain ⟨a', ha', hk'⟩ := scope_depth_of_pc f ann hv D S A c0 c' hpc hdata hsc haddr
    (Reach.step _ _ _ hreach hstep)
  exact ⟨as, a', has, ha', by omega⟩

/-- **The calling contract is what a verified callee does**: the single step the machine takes for
a call instruction — the arguments popped, ONE value pushed, scope depth and address depth as
before — is exactly what a run of a verified callee `g` to its `ret` does, started from the
caller's state at ANY scope depth `sc` and on top of ANY rest of the data stack. With `g := f`
this is the function calling itself from inside its own loop body and nested scopes. -/
theorem call_contract_of_verified_callee (g : Fn) (ann : Ann) (hv : verify g ann = true)
    (rest : List Cell) (sc addr : Nat) (e : CState)
    (hreach : Reach g ⟨0, List.replicate g.entryCount .val ++ rest, sc, addr + 1⟩ e) (hret : AtRet g e) :
    e.data = List.replicate 1 .val ++ rest ∧ e.sc = sc ∧ (afterRet e).addr = addr := by
  have hV := verified_of_verify g ann hv
  have h0 := inv_entry g ann hV rest sc (addr + 1) ⟨0, List.replicate g.entryCount .val ++ rest, sc, addr + 1⟩ rfl rfl rfl rfl
  have hinv := inv_reach g ann hV rest sc (addr + 1) _ e hreach h0
  obtain ⟨h1, h2, h3⟩ := inv_at_ret g ann hV rest sc (addr + 1) e hinv hret
  exact ⟨by simp [h1, List.replicate], h2, by simp [afterRet, h3]⟩

/-- **Two activations of the same code, one inside the other.** The outer activation of `f`
(entered at depth `S`) is at `c` when `f` is called again (`c` is any reachable state: in the
body of a loop, inside nested scopes); the inner activation starts at depth `c.sc`. Take an exit
step of the inner activation (`x → x'`) and one of the outer activation (`y → y'`, before or after
the inner call) that land at the same pc. Then the two landing depths differ by exactly
`c.sc − S`, the depth of the call site inside the outer activation — which is at least 1 when the
call site is behind `AddFuncScopeInstr`. So ONE depth recorded per loop (in the shared loop
record, by whichever activation entered the loop last) is right for at most one of them; the
static count is right for both (`exit_lands_at_activation_depth`). -/
theorem nested_activation_depths (f : Fn) (ann : Ann) (hv : verify f ann = true)
    (D : List Cell) (S A : Nat) (c0 c : CState)
    (hpc : c0.pc = 0) (hdata : c0.data = List.replicate f.entryCount .val ++ D)
    (hsc : c0.sc = S) (haddr : c0.addr = A) (hc : Reach f c0 c)
    (rest : List Cell) (hcd : c.data = List.replicate f.entryCount .val ++ rest)
    (x' y' : CState)
    (hx : Reach f ⟨0, c.data, c.sc, c.addr + 1⟩ x') (hy : Reach f c0 y') (hsame : x'.pc = y'.pc) :
    S ≤ c.sc ∧ x'.sc = y'.sc + (c.sc - S) := by
  obtain ⟨a, ha, hk⟩ := scope_depth_of_pc f ann hv D S A c0 c hpc hdata hsc haddr hc
  obtain ⟨ax, hax, hkx⟩ := scope_depth_of_pc f ann hv rest c.sc (c.addr + 1) ⟨0, c.data, c.sc, c.addr + 1⟩ x'
    rfl hcd rfl rfl hx
  obtain ⟨ay, hay, hky⟩ := scope_depth_of_pc f ann hv D S A c0 y' hpc hdata hsc haddr hy
  rw [hsame, hay] at hax
  cases hax
  exact ⟨by omega, by omega⟩

end ZygoVerif.Bal

/-! ## The VM model: break / continue use the static count and write no compiled object -/
namespace ZygoVerif.Refine
open ZygoVerif.Core ZygoVerif.VM ZygoVerif.Bal ZygoVerif.TailVM

/-- `exec` of `BreakInstr{loop l, scopesToPop k}`: exactly `k` scopes are dropped from the scope
stack — the number in the instruction, nothing read from the loop record but the jump offset —
and neither the loop table nor the function table (the compiled objects), nor the data or
address stack, is written. -/
theorem exec_brk_static (l k n : Nat) (s s' : St)
    (hex : (exec (n + 1) (.brk l k)).run s = (.ok (), s')) :
    k ≤ s.linear.length ∧ s'.linear = s.linear.drop k ∧ s'.loops = s.loops ∧ s'.fns = s.fns ∧
    s'.data = s.data ∧ s'.addr = s.addr ∧
    ∃ pos, findLoopStart (fnOf s s.curfunc).code l = some pos ∧ s'.pc = (pos : Int) + (s.loops.getD l {}).breakOff := by
  simp only [exec] at hex
  rw [run_get_bind] at hex
  cases hf : findLoopStart (fnOf s s.curfunc).code l with
  | none => rw [hf] at hex; vmsimp_at hex; cases hex
  | some pos =>
    rw [hf] at hex
    cases hr : (popScopes k).run s with
    | mk r s1 =>
      cases r with
      | error e =>
        vmsimp_at hex
        rw [show popScopes k s = (Except.error e, s1) from hr] at hex
        cases hex
      | ok u =>
        vmsimp_at hex
        rw [show popScopes k s = (Except.ok u, s1) from hr] at hex
        cases hex
        obtain ⟨h1, h2⟩ := popScopes_ok k s s1 hr
        subst h2
        exact ⟨h1, rfl, rfl, rfl, rfl, rfl, pos, rfl, rfl⟩

/-- the same for `ContinueInstr` -/
theorem exec_cont_static (l k n : Nat) (s s' : St)
    (hex : (exec (n + 1) (.cont l k)).run s = (.ok (), s')) :
    k ≤ s.linear.length ∧ s'.linear = s.linear.drop k ∧ s'.loops = s.loops ∧ s'.fns = s.fns ∧
    s'.data = s.data ∧ s'.addr = s.addr ∧
    ∃ pos, findLoopStart (fnOf s s.curfunc).code l = some pos ∧ s'.pc = (pos : Int) + (s.loops.getD l {}).contOff := by
  simp only [exec] at hex
  rw [run_get_bind] at hex
  cases hf : findLoopStart (fnOf s s.curfunc).code l with
  | none => rw [hf] at hex; vmsimp_at hex; cases hex
  | some pos =>
    rw [hf] at hex
    cases hr : (popScopes k).run s with
    | mk r s1 =>
      cases r with
      | error e =>
        vmsimp_at hex
        rw [show popScopes k s = (Except.error e, s1) from hr] at hex
        cases hex
      | ok u =>
        vmsimp_at hex
        rw [show popScopes k s = (Except.ok u, s1) from hr] at hex
        cases hex
        obtain ⟨h1, h2⟩ := popScopes_ok k s s1 hr
        subst h2
        exact ⟨h1, rfl, rfl, rfl, rfl, rfl, pos, rfl, rfl⟩

/-- `LoopStartInstr` does nothing but advance the pc: entering a loop leaves no trace in any
compiled object (nor anywhere else). -/
theorem exec_loopStart_pure (l n : Nat) (s s' : St)
    (hex : (exec (n + 1) (.loopStart l)).run s = (.ok (), s')) : s' = { s with pc := s.pc + 1 } := by
  simp only [exec] at hex
  vmsimp_at hex
  cases hex
  rfl

end ZygoVerif.Refine
