/-
`LexNextRune` touches the look-back ring only at its entry (`pushRing`): whatever the mode, the
ring after a step is the ring with the new rune pushed. Hence after feeding any text the last
rune of the ring is the last rune of the text.
-/
import ZygoVerif.Proofs.LexShape
namespace ZygoVerif.Lexer

/-- the outcome's state has the ring of `s` -/
def RingOf (o : Outcome LexCore) (s : LexCore) : Prop :=
  match o with
  | .ok s' => s'.priorRune = s.priorRune ∧ s'.priori = s.priori
  | .err _ s' => s'.priorRune = s.priorRune ∧ s'.priori = s.priori

theorem RingOf.ite {c : Prop} [Decidable c] {a b : Outcome LexCore} {s : LexCore}
    (ha : RingOf a s) (hb : RingOf b s) : RingOf (if c then a else b) s := by
  split <;> assumption

theorem ringOf_dumpBuffer (s : LexCore) : RingOf (dumpBuffer s) s := by
  unfold dumpBuffer
  split
  · exact ⟨rfl, rfl⟩
  · split <;> exact ⟨rfl, rfl⟩

theorem ringOf_thenDump (s : LexCore) (k : LexCore → Outcome LexCore) (hk : ∀ x, RingOf (k x) x) :
    RingOf (thenDump s k) s := by
  unfold thenDump
  have h := ringOf_dumpBuffer s
  cases hd : dumpBuffer s with
  | ok s' =>
    rw [hd] at h
    have := hk s'
    simp only [RingOf] at h ⊢
    cases hks : k s' with
    | ok s2 => rw [hks] at this; exact ⟨this.1.trans h.1, this.2.trans h.2⟩
    | err e s2 => rw [hks] at this; exact ⟨this.1.trans h.1, this.2.trans h.2⟩
  | err e s' => rw [hd] at h; exact h

theorem RingOf.of_eq {o : Outcome LexCore} {s t : LexCore} (h : RingOf o t)
    (h1 : t.priorRune = s.priorRune) (h2 : t.priori = s.priori) : RingOf o s := by
  cases o with
  | ok s' => exact ⟨h.1.trans h1, h.2.trans h2⟩
  | err e s' => exact ⟨h.1.trans h1, h.2.trans h2⟩

theorem ringOf_ok (s' s : LexCore) (h1 : s'.priorRune = s.priorRune) (h2 : s'.priori = s.priori) :
    RingOf (.ok s') s := ⟨h1, h2⟩

theorem ringOf_err (e : LexErr) (s' s : LexCore) (h1 : s'.priorRune = s.priorRune) (h2 : s'.priori = s.priori) :
    RingOf (.err e s') s := ⟨h1, h2⟩

macro "ring_step" : tactic => `(tactic| first
  | exact ringOf_ok _ _ rfl rfl
  | exact ringOf_err _ _ _ rfl rfl
  | apply RingOf.ite
  | (apply ringOf_thenDump; intro _))

theorem ringOf_stepNormal (s : LexCore) (r : Char) : RingOf (stepNormal s r) s := by
  unfold stepNormal
  repeat' ring_step

theorem ringOf_stepBuiltin (s : LexCore) (r : Char) : RingOf (stepBuiltin s r) s := by
  unfold stepBuiltin
  apply RingOf.ite
  · exact ringOf_ok _ _ rfl rfl
  apply RingOf.ite
  · exact ringOf_ok _ _ rfl rfl
  apply RingOf.ite
  · exact ringOf_ok _ _ rfl rfl
  · exact (ringOf_stepNormal _ r).of_eq rfl rfl

theorem ringOf_stepMinusDot (s : LexCore) (r : Char) : RingOf (stepMinusDot s r) s := by
  unfold stepMinusDot
  apply RingOf.ite
  · exact ringOf_ok _ _ rfl rfl
  · exact (ringOf_stepNormal _ r).of_eq rfl rfl

theorem ringOf_stepFirstFwdSlash (s : LexCore) (r : Char) : RingOf (stepFirstFwdSlash s r) s := by
  unfold stepFirstFwdSlash
  apply RingOf.ite
  · exact ringOf_thenDump s _ (fun _ => ringOf_ok _ _ rfl rfl)
  apply RingOf.ite
  · exact ringOf_thenDump s _ (fun _ => ringOf_ok _ _ rfl rfl)
  · exact (ringOf_thenDump { s with state := .builtinOperator, prevrune := '/' } _ (fun x => ringOf_stepBuiltin x r)).of_eq rfl rfl

theorem ringOf_stepFresh (s : LexCore) (r : Char) : RingOf (stepFresh s r) s := by
  unfold stepFresh
  apply RingOf.ite
  · exact (ringOf_thenDump { s with state := .normal } (fun s' => .ok (appendToken s' ⟨.freshAssign, ":=".toList⟩))
      (fun _ => ringOf_ok _ _ rfl rfl)).of_eq rfl rfl
  apply RingOf.ite
  · exact (ringOf_thenDump { s with state := .normal } _
      (fun x => (ringOf_stepNormal (appendToken x ⟨.colonOperator, [':']⟩) r).of_eq rfl rfl)).of_eq rfl rfl
  · exact (ringOf_thenDump { s with state := .normal, buffer := s.buffer ++ [':'] } _ (fun x => ringOf_stepNormal x r)).of_eq rfl rfl

theorem ringOf_hexEscapeDigit (s : LexCore) (r : Char) (back : Mode) : RingOf (hexEscapeDigit s r back) s := by
  unfold hexEscapeDigit
  cases hexDigitValue r with
  | none => exact ringOf_err _ _ _ rfl rfl
  | some d =>
    dsimp only
    repeat' ring_step

theorem startHexEscape_ring (s s' : LexCore) (r : Char) (m : Mode) (h : startHexEscape s r m = some s') :
    s'.priorRune = s.priorRune ∧ s'.priori = s.priori := by
  unfold startHexEscape at h
  split at h
  · cases h
  · simp only [Option.some.injEq] at h; subst h; exact ⟨rfl, rfl⟩

theorem ringOf_stepMode (s : LexCore) (r : Char) : RingOf (stepMode s r) s := by
  unfold stepMode
  cases hs : s.state <;> simp only
  case firstFwdSlash => exact ringOf_stepFirstFwdSlash s r
  case freshAssignOrColon => exact ringOf_stepFresh s r
  case builtinOperator => exact ringOf_stepBuiltin s r
  case minusDot => exact ringOf_stepMinusDot s r
  case normal => exact ringOf_stepNormal s r
  case strHexEscape => exact ringOf_hexEscapeDigit s r _
  case runeHexEscape => exact ringOf_hexEscapeDigit s r _
  case strEscaped =>
    cases hh : startHexEscape s r Mode.strHexEscape with
    | some s' => obtain ⟨h1, h2⟩ := startHexEscape_ring s s' r _ hh; exact ringOf_ok _ _ h1 h2
    | none => cases escapeChar r <;> first | exact ringOf_ok _ _ rfl rfl | exact ringOf_err _ _ _ rfl rfl
  case runeEscaped =>
    cases hh : startHexEscape s r Mode.runeHexEscape with
    | some s' => obtain ⟨h1, h2⟩ := startHexEscape_ring s s' r _ hh; exact ringOf_ok _ _ h1 h2
    | none => cases escapeChar r <;> first | exact ringOf_ok _ _ rfl rfl | exact ringOf_err _ _ _ rfl rfl
  case unquote =>
    apply RingOf.ite
    · exact ringOf_ok _ _ rfl rfl
    apply RingOf.ite
    · exact (ringOf_stepNormal _ r).of_eq rfl rfl
    · exact ringOf_ok _ _ rfl rfl
  case runeLit =>
    apply RingOf.ite
    · exact ringOf_ok _ _ rfl rfl
    apply RingOf.ite
    · have h := ringOf_dumpBuffer { s with state := Mode.runeLit, buffer := s.buffer ++ [r] }
      revert h
      cases dumpBuffer { s with state := Mode.runeLit, buffer := s.buffer ++ [r] } with
      | ok s2 => intro h; exact ringOf_ok _ _ h.1 h.2
      | err e s2 => intro h; exact ringOf_ok _ _ h.1 h.2
    · exact ringOf_ok _ _ rfl rfl
  all_goals (repeat' ring_step)

/-- the last rune after feeding `t` when it was `l` before -/
def lastOf (l : Char) (t : List Char) : Char := (l :: t).getLast (by simp)

@[simp] theorem lastOf_nil (l : Char) : lastOf l [] = l := rfl
@[simp] theorem lastOf_cons (l c : Char) (t : List Char) : lastOf l (c :: t) = lastOf c t := by
  simp [lastOf, List.getLast_cons]
theorem lastOf_append (l : Char) (a b : List Char) : lastOf l (a ++ b) = lastOf (lastOf l a) b := by
  induction a generalizing l with
  | nil => rfl
  | cons c a ih => simp [ih]
@[simp] theorem lastOf_append_singleton (l c : Char) (a : List Char) : lastOf l (a ++ [c]) = c := by
  rw [lastOf_append]; simp

theorem step_ring (s s' : LexCore) (r : Char) (h : step s r = .ok s') (hr : RingOK s) :
    RingOK s' ∧ lastRune s' = r := by
  have := ringOf_stepMode (pushRing s r) r
  rw [← step_def, h] at this
  have hok := ringOK_pushRing s r hr
  have hl := lastRune_pushRing s r hr
  refine ⟨⟨by rw [this.1]; exact hok.len, by rw [this.2]; exact hok.lt⟩, ?_⟩
  simp only [lastRune] at hl ⊢
  rw [this.1, this.2, hl]

theorem feed_ring (s s' : LexCore) (t : List Char) (h : feed (.ok s) t = .ok s') (hr : RingOK s) :
    RingOK s' ∧ lastRune s' = lastOf (lastRune s) t := by
  induction t generalizing s with
  | nil =>
    have : s = s' := by simpa [feed_nil] using h
    subst this; exact ⟨hr, rfl⟩
  | cons r t ih =>
    rw [feed_ok_cons] at h
    cases hs : step s r with
    | ok s1 =>
      rw [hs] at h
      obtain ⟨h1, h2⟩ := step_ring s s1 r hs hr
      obtain ⟨h3, h4⟩ := ih s1 h h1
      exact ⟨h3, by rw [h4, h2]; simp⟩
    | err e s1 => rw [hs, feed_err] at h; cases h

end ZygoVerif.Lexer
