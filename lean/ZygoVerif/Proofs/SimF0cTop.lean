/-
C02, execution half — Stage B, top level: a whole program text of the fragment F0c, loaded
and run by the VM model (`VM.runText`: LoadExpressions + Run) and evaluated by the
reference evaluator (`Ref.runProgram`).

* `compile_length_F0c`  — the code of an F0c expression has at most `3 * esize e` instructions;
* `run_of_pushes`       — `Run` over code that `Pushes v`, placed at the end of the current
                          function: returns `v`, data stack as before;
* `runText_F0c`         — `runText` of a non-empty F0c program from any resting state whose
                          `pc` stands at the end of `__main`: class `ok`, the value the
                          reference evaluator computes, empty trace, for every fuel
                          `≥ 3 * esizeList p + 3`.
-/
import ZygoVerif.Proofs.SimF0c
set_option linter.unusedSimpArgs false
namespace ZygoVerif.Sim
open ZygoVerif.Core ZygoVerif.VM

/-! ## Code size -/

theorem asmCond_length (as : List (List Instr × List Instr)) (d : List Instr) :
    (asmCond as d).length = (as.map (fun a => a.1.length + a.2.length + 2)).sum + d.length := by
  induction as with
  | nil => simp [asmCond]
  | cons a as ih =>
    obtain ⟨p, b⟩ := a
    simp only [asmCond, List.length_append, List.length_cons, List.length_nil, ih, List.map_cons, List.sum_cons]
    omega

theorem asmSC_length (isOr : Bool) : ∀ (cs : List (List Instr)),
    (asmSC isOr cs).length ≤ (cs.map (fun c => c.length + 3)).sum + 1
  | [] => by simp [asmSC]
  | [c] => by simp [asmSC]; omega
  | c :: c' :: cs => by
    have ih := asmSC_length isOr (c' :: cs)
    simp only [asmSC, List.length_append, List.length_cons, List.length_nil, List.map_cons, List.sum_cons] at ih ⊢
    omega

mutual
theorem compile_length_F0c : ∀ (e : Expr), F0c e = true → ∀ isFn c gs r, (compile isFn c e).run gs = .ok r →
    r.1.1.length ≤ 3 * esize e
  | .int v, _, isFn, c, gs, r, h => by
    rw [compile] at h; simp only [g_pure_ok] at h; subst h; simp [esize]
  | .bool v, _, isFn, c, gs, r, h => by
    rw [compile] at h; simp only [g_pure_ok] at h; subst h; simp [esize]
  | .str v, _, isFn, c, gs, r, h => by
    rw [compile] at h; simp only [g_pure_ok] at h; subst h; simp [esize]
  | .nilLit, _, isFn, c, gs, r, h => by
    rw [compile] at h; simp only [g_pure_ok] at h; subst h; simp [esize]
  | .begin_ es, he, isFn, c, gs, r, h => by
    rw [F0c] at he
    cases es with
    | nil =>
      rw [compile] at h; simp only [g_pure_ok] at h; subst h; simp [esize, esizeList]
    | cons e0 es0 =>
      rw [compile] at h
      · have := compileBegin_length_F0c (e0 :: es0) he isFn c gs r h
        rw [esize]; omega
      · intro hh; cases hh
  | .cond arms d, he, isFn, c, gs, r, h => by
    rw [F0c] at he
    simp only [Bool.and_eq_true] at he
    rw [compile] at h
    simp only [g_bind_ok, g_pure_ok] at h
    obtain ⟨rd, gs1, hd, as, gs2, has, rfl⟩ := h
    have h1 := compile_length_F0c d he.2 isFn c gs (rd, gs1) hd
    have h2 := compileArms_length_F0c arms he.1 isFn c gs1 (as, gs2) has
    simp only [asmCond_length]
    rw [esize]; simp only at h1 h2; omega
  | .and_ es, he, isFn, c, gs, r, h => by
    rw [F0c] at he
    rw [compile] at h
    simp only [g_bind_ok, g_pure_ok] at h
    obtain ⟨cs, gs1, hcs, rfl⟩ := h
    have h1 := compileSC_length_F0c es he isFn c gs (cs, gs1) hcs
    have h2 := asmSC_length false cs
    rw [esize]; simp only at h1 h2 ⊢; omega
  | .or_ es, he, isFn, c, gs, r, h => by
    rw [F0c] at he
    rw [compile] at h
    simp only [g_bind_ok, g_pure_ok] at h
    obtain ⟨cs, gs1, hcs, rfl⟩ := h
    have h1 := compileSC_length_F0c es he isFn c gs (cs, gs1) hcs
    have h2 := asmSC_length true cs
    rw [esize]; simp only at h1 h2 ⊢; omega
  | .sym _, he, _, _, _, _, _ | .arr _, he, _, _, _, _, _ | .call _ _, he, _, _, _, _, _ | .def_ _ _, he, _, _, _, _, _
  | .set_ _ _, he, _, _, _, _, _ | .let_ _ _ _, he, _, _, _, _, _ | .newScope _, he, _, _, _, _, _
  | .for_ _ _ _ _ _, he, _, _, _, _, _ | .break_ _, he, _, _, _, _, _ | .continue_ _, he, _, _, _, _, _
  | .fn _ _ _, he, _, _, _, _, _ | .defn _ _ _ _, he, _, _, _, _, _ | .assign _ _, he, _, _, _, _, _ | .bad _, he, _, _, _, _, _ => by
    simp [F0c] at he
theorem compileBegin_length_F0c : ∀ (es : List Expr), F0cList es = true → ∀ isFn c gs r, (compileBegin isFn c es).run gs = .ok r →
    r.1.1.length + 1 ≤ 3 * esizeList es
  | [], _, isFn, c, gs, r, h => by
    rw [compileBegin] at h; simp only [g_pure_ok] at h; subst h; simp [esizeList]
  | [e], he, isFn, c, gs, r, h => by
    rw [F0cList] at he
    simp only [Bool.and_eq_true] at he
    rw [compileBegin] at h
    have := compile_length_F0c e he.1 isFn c gs r h
    simp only [esizeList]; omega
  | e :: e' :: es, he, isFn, c, gs, r, h => by
    rw [F0cList] at he
    simp only [Bool.and_eq_true] at he
    rw [compileBegin] at h
    · simp only [g_bind_ok, g_pure_ok] at h
      obtain ⟨ra, gs1, ha, rb, gs2, hb, rfl⟩ := h
      have h1 := compile_length_F0c e he.1 isFn _ gs (ra, gs1) ha
      have h2 := compileBegin_length_F0c (e' :: es) he.2 isFn c gs1 (rb, gs2) hb
      rw [esizeList]
      simp only [List.length_append] at h1 h2 ⊢
      split <;> simp only [List.length_nil, List.length_cons] <;> omega
    · intro hh; cases hh
theorem compileSC_length_F0c : ∀ (es : List Expr), F0cList es = true → ∀ isFn c gs r, (compileSC isFn c es).run gs = .ok r →
    (r.1.map (fun c => c.length + 3)).sum + 3 ≤ 3 * esizeList es
  | [], _, isFn, c, gs, r, h => by
    rw [compileSC] at h; simp only [g_pure_ok] at h; subst h; simp [esizeList]
  | [e], he, isFn, c, gs, r, h => by
    rw [F0cList] at he
    simp only [Bool.and_eq_true] at he
    rw [compileSC] at h
    simp only [g_bind_ok, g_pure_ok] at h
    obtain ⟨ra, gs1, ha, rfl⟩ := h
    have := compile_length_F0c e he.1 isFn c gs (ra, gs1) ha
    simp only [esizeList, List.map_cons, List.map_nil, List.sum_cons, List.sum_nil] at this ⊢; omega
  | e :: e' :: es, he, isFn, c, gs, r, h => by
    rw [F0cList] at he
    simp only [Bool.and_eq_true] at he
    rw [compileSC] at h
    · simp only [g_bind_ok, g_pure_ok] at h
      obtain ⟨rest, gs1, hrest, ra, gs2, ha, rfl⟩ := h
      have h1 := compile_length_F0c e he.1 isFn _ gs1 (ra, gs2) ha
      have h2 := compileSC_length_F0c (e' :: es) he.2 isFn c gs (rest, gs1) hrest
      rw [esizeList]
      simp only [List.map_cons, List.sum_cons] at h1 h2 ⊢
      omega
    · intro hh; cases hh
theorem compileArms_length_F0c : ∀ (arms : List (Expr × Expr)), F0cArms arms = true → ∀ isFn c gs r, (compileArms isFn c arms).run gs = .ok r →
    (r.1.map (fun a => a.1.length + a.2.length + 2)).sum + 3 ≤ 3 * esizeArms arms
  | [], _, isFn, c, gs, r, h => by
    rw [compileArms] at h; simp only [g_pure_ok] at h; subst h; simp [esizeArms]
  | (p, b) :: arms, he, isFn, c, gs, r, h => by
    rw [F0cArms] at he
    simp only [Bool.and_eq_true] at he
    rw [compileArms] at h
    simp only [g_bind_ok, g_pure_ok] at h
    obtain ⟨rest, gs1, hrest, rp, gs2, hp, rb, gs3, hb, rfl⟩ := h
    have h1 := compile_length_F0c p he.1.1 isFn _ gs1 (rp, gs2) hp
    have h2 := compile_length_F0c b he.1.2 isFn c gs2 (rb, gs3) hb
    have h3 := compileArms_length_F0c arms he.2 isFn c gs (rest, gs1) hrest
    rw [esizeArms]
    simp only [List.map_cons, List.sum_cons] at h1 h2 h3 ⊢
    omega
end

/-! ## `Run` over a segment at the end of the current function -/

/-- what `captureControlState` records in state `s` -/
def capOf (s : St) : CtlState :=
  { curfunc := s.curfunc, pc := s.pc, susp := s.suspended.length, addrSize := s.addr.length,
    linearSize := s.linear.length, dataSize := s.data.length }

theorem run_capture (s : St) : capture.run s = (.ok (capOf s), s) := rfl

/-- `Run` from the first instruction of code that pushes `v` and is the tail of the current
function: the loop reaches the end of the function, `Run` pops `v` and returns it; the data
stack is as before, the program counter stands behind the function. -/
theorem run_of_pushes {s : St} {pre code : List Instr} {v : Val} (h : Seg s pre code [])
    (hp : Pushes code v) (fuel : Nat) (hf : code.length + 3 ≤ fuel) :
    (run fuel).run s = (.ok v, s.jmp (s.pc + code.length) s.data) := by
  obtain ⟨f, rfl⟩ : ∃ f, fuel = f + 1 := ⟨fuel - 1, by omega⟩
  have hr := hp s pre [] h
  have hfin : (runLoop f (capOf s)).run s = (.ok (), s.jmp (s.pc + code.length) (some v :: s.data)) :=
    hr.finish (Or.inr (by
      rw [curSize_jmp, h.total]
      simp only [St.jmp_pc, h.pc, List.length_nil]; omega)) f (by omega) _
  rw [run]
  simp only [run_bind, run_capture, hfin, run_get, St.jmp_data, List.isEmpty_cons, Bool.false_eq_true, if_false,
    run_pure, run_popData]
  rfl

/-! ## A whole program text -/

/-- `runText`, first step: the trace of the previous text is dropped -/
def clearTrace (s : St) : St := { s with trace := [] }

/-- `LoadExpressions`: the new code (after a `pop` when the previous text did not run to its
end) is appended to `__main`, which becomes the current function; `s0` is the state before
the generator ran, `s1` the state after. -/
def loadState (s0 s1 : St) (code : List Instr) : St :=
  { s1 with fns := s1.fns.set mainFn { fnOf s1 mainFn with
              code := (fnOf s1 mainFn).code ++ (if s0.pc ≥ curSize s0 then [] else [.pop]) ++ code },
            curfunc := mainFn }

/-- `runText` in terms of the two helpers above (definitional unfolding). -/
theorem runText_eq (fuel : Nat) (es : List Expr) (s : St) : runText fuel es s =
    (let load := (runGen (compileBegin (isFnScope (clearTrace s)) {} es)).run (clearTrace s)
     match load.1 with
     | .error _ => (.done "cerr" "-" [] (depths load.2), load.2, true)
     | .ok (code, _) =>
       let r := (run fuel).run (loadState (clearTrace s) load.2 code)
       match r.1 with
       | .ok v => (.done "ok" (pr r.2.heap v) r.2.trace (depths r.2), r.2, true)
       | .error .err => (.done "err" "-" r.2.trace (depths r.2), r.2, true)
       | .error .panic => (.done "panic" "-" r.2.trace "-", r.2, false)
       | .error .timeout => (.done "timeout" "-" r.2.trace "-", r.2, false)) := rfl

/-- the generator succeeded and left its state alone: `runGen` returns its result, state unchanged -/
theorem run_runGen_ok {α} (g : G α) (s : St) (a : α)
    (h : g.run { fns := s.fns, loops := s.loops, loopstack := s.loopstack, live := s.linear }
      = .ok (a, { fns := s.fns, loops := s.loops, loopstack := s.loopstack, live := s.linear })) :
    (runGen g).run s = (.ok a, s) := by
  unfold runGen
  simp only [run_bind, run_get, h, run_set, run_pure]

/-- A resting state at top level: `__main` is the current function, it exists, is compiled
code, and the program counter stands at its end (as after `NewZlisp` and after every text
that ran to completion). -/
structure AtRest (s : St) : Prop where
  cur : s.curfunc = mainFn
  main : mainFn < s.fns.length
  user : (fnOf s mainFn).user = false
  pc : s.pc = ((fnOf s mainFn).code.length : Int)

/-- the state `runText` leaves after a successful run of `code` appended to `__main` -/
def afterText (s : St) (code : List Instr) : St :=
  (loadState (clearTrace s) (clearTrace s) code).jmp (s.pc + code.length) s.data

theorem AtRest.loaded {s : St} (h : AtRest s) (code : List Instr) :
    Seg (loadState (clearTrace s) (clearTrace s) code) (fnOf s mainFn).code code [] := by
  have hsz : curSize (clearTrace s) = ((fnOf s mainFn).code.length : Int) := by
    show (if (fnOf s s.curfunc).user then (0 : Int) else ((fnOf s s.curfunc).code.length : Int)) = _
    rw [h.cur, h.user]; rfl
  have hpre : (if (clearTrace s).pc ≥ curSize (clearTrace s) then ([] : List Instr) else [.pop]) = [] :=
    if_pos (by rw [hsz]; show s.pc ≥ _; rw [h.pc]; exact Int.le_refl _)
  have hf : fnOf (loadState (clearTrace s) (clearTrace s) code) (loadState (clearTrace s) (clearTrace s) code).curfunc
      = { fnOf s mainFn with code := (fnOf s mainFn).code ++ code } := by
    show (List.set s.fns mainFn _).getD mainFn {} = _
    rw [hpre]
    simp only [List.getD_eq_getElem?_getD, List.getElem?_set_self h.main, Option.getD_some, List.append_nil]
    rfl
  exact ⟨by rw [hf]; exact h.user, by rw [hf]; simp, h.pc⟩

/-- **A non-empty F0c program text, loaded and run.** From any resting state: if the
reference evaluator computes `v` for the program (any fuel, environment, state), then
`runText` with fuel `≥ 3 * esizeList p + 3` reports class `ok`, the printed `v`, an empty
trace and the stack depths it started with. -/
theorem runText_F0c (s : St) (p : List Expr) (hne : p ≠ []) (hp : F0cList p = true) (hs : AtRest s)
    (n env : Nat) (rs : Ref.St) (v : Val) (rs' : Ref.St) (hr : Ref.evalBegin n p env rs = .ok v rs')
    (fuel : Nat) (hf : 3 * esizeList p + 3 ≤ fuel) :
    ∃ code, runText fuel p s = (.done "ok" (pr s.heap v) [] (depths s), afterText s code, true) := by
  obtain ⟨code, hc⟩ := compileBegin_total p hne hp (isFnScope (clearTrace s)) {}
    { fns := s.fns, loops := s.loops, loopstack := s.loopstack, live := s.linear }
  have hlen := compileBegin_length_F0c p hp _ _ _ _ hc
  obtain ⟨-, hpush⟩ := segment_F0c_begin p hne hp _ _ _ code _ _ hc n env rs v rs' hr
  refine ⟨code, ?_⟩
  have hload : (runGen (compileBegin (isFnScope (clearTrace s)) {} p)).run (clearTrace s)
      = (.ok (code, false), clearTrace s) := run_runGen_ok _ (clearTrace s) _ hc
  have hrun := run_of_pushes (hs.loaded code) hpush fuel (by simp only at hlen; omega)
  rw [runText_eq]
  simp only [hload, hrun]
  rfl

/-- The empty program text: no code is added, `Run` finds the data stack empty and returns nil. -/
theorem runText_nil (s : St) (hs : AtRest s) (hd : s.data = []) (fuel : Nat) (hf : 2 ≤ fuel) :
    runText fuel [] s = (.done "ok" "nil" [] (depths s), afterText s [], true) := by
  have hload : (runGen (compileBegin (isFnScope (clearTrace s)) {} [])).run (clearTrace s)
      = (.ok ([], false), clearTrace s) := run_runGen_ok _ (clearTrace s) _ (by rw [compileBegin]; rfl)
  have hseg := hs.loaded []
  obtain ⟨f, rfl⟩ : ∃ f, fuel = f + 2 := ⟨fuel - 2, by omega⟩
  have hrun : (run (f + 2)).run (loadState (clearTrace s) (clearTrace s) [])
      = (.ok .nil, loadState (clearTrace s) (clearTrace s) []) := by
    rw [run]
    have hhalt := runLoop_halt (loadState (clearTrace s) (clearTrace s) []) f
      (capOf (loadState (clearTrace s) (clearTrace s) [])) (Or.inr (by
        rw [hseg.total, hseg.pc]; simp))
    have hdata : (loadState (clearTrace s) (clearTrace s) []).data = [] := hd
    simp only [run_bind, run_capture, hhalt, run_get, hdata, List.isEmpty_nil, if_true, run_pushData, run_popData]
    generalize loadState (clearTrace s) (clearTrace s) [] = X at hdata
    cases X
    simp only at hdata
    subst hdata
    rfl
  have e : afterText s [] = loadState (clearTrace s) (clearTrace s) [] := by
    have : s.pc + (([] : List Instr).length : Int) = s.pc := by simp
    unfold afterText
    rw [this]
    rfl
  have hpr : pr (loadState (clearTrace s) (clearTrace s) []).heap Val.nil = "nil" := by
    rw [pr, printDepth, showVal]
  rw [runText_eq, e]
  simp only [hload, hrun, hpr]
  rfl

theorem pr_nil (h : DataHeap) : pr h .nil = "nil" := by rw [pr, printDepth, showVal]

/-- the reference evaluator on the empty program text -/
theorem refProgram_nil (m : Nat) (rs : Ref.St) :
    Ref.runProgram (m + 1) [] rs = (.ok "nil" [], { rs with trace := [] }) := by
  have h : Ref.evalBegin (m + 1) [] 0 { rs with trace := [] } = .ok .nil { rs with trace := [] } := by
    rw [Ref.evalBegin]; omega
  unfold Ref.runProgram
  simp only [h, pr_nil]

/-- the reference evaluator on a program text that evaluates to `v` without changing the state -/
theorem refProgram_ok (fuel : Nat) (p : List Expr) (rs : Ref.St) (v : Val)
    (h : Ref.evalBegin fuel p 0 { rs with trace := [] } = .ok v { rs with trace := [] }) :
    Ref.runProgram fuel p rs = (.ok (pr rs.heap v) [], { rs with trace := [] }) := by
  unfold Ref.runProgram
  simp only [h]

theorem atRest_initSt : AtRest initSt := ⟨rfl, by decide, rfl, rfl⟩

end ZygoVerif.Sim
