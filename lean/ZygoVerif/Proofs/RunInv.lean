/-
Proofs/RunInv.lean — the run-time invariant behind the calling contract (C04 `run_at_rest`).

* `WF s`      — the tables of the interpreter: every function object (index ≥ 2: templates, closures,
                the helpers of `EvalCallExpression` / `Force`) is a VERIFIED function with a
                well-formed signature and generated-code side conditions (`AllOK`); every value
                stored anywhere (scopes, heap, forced lazies, the non-mark cells of the data stack)
                is `vok`: contains no stack-mark and only ids of such functions; the expressions of
                lazies are in the covered grammar; the compile-time loop stack is empty.
* `TExt`      — the tables only grow (function objects and loop records are appended).
* `Running`   — the stack of activations of one `runLoop`: the top activation is described by the
                checker's invariant `Bal.Inv` at its pc; every suspended caller by `Bal.Inv` of the
                state it will be in when its callee has returned ("one value on the data the
                callee was entered with, the callee's scope depth, one return address less"); the
                bottom activation sits on the `Base` the loop was started on.
-/
import ZygoVerif.Proofs.GenCodeOK
import ZygoVerif.Proofs.VMRefine
import ZygoVerif.Proofs.ContainSusp
set_option linter.unusedSimpArgs false
set_option linter.unusedVariables false
namespace ZygoVerif.RunInv
open ZygoVerif.Core ZygoVerif.VM ZygoVerif.Bal ZygoVerif.Refine

/-! ## Values -/

/-- a value that may be stored: no stack-mark inside, function ids name function objects -/
def vok (n : Nat) : Val → Bool
  | .pair a b => vok n a && vok n b
  | .mark _ => false
  | .fn id => decide (2 ≤ id ∧ id < n)
  | _ => true

theorem vok_mono {n m : Nat} (h : n ≤ m) : ∀ v, vok n v = true → vok m v = true
  | .pair a b, hv => by
    simp only [vok, Bool.and_eq_true] at hv ⊢
    exact ⟨vok_mono h a hv.1, vok_mono h b hv.2⟩
  | .mark _, hv => by simp [vok] at hv
  | .fn id, hv => by simp only [vok, decide_eq_true_eq] at hv ⊢; omega
  | .nil, _ => rfl
  | .bool _, _ => rfl
  | .int _, _ => rfl
  | .str _, _ => rfl
  | .arr _, _ => rfl
  | .builtin _, _ => rfl
  | .lazy _, _ => rfl
  | .sym _, _ => rfl

theorem vok_plain {n : Nat} {v : Val} (h : vok n v = true) : plain v = true := by
  cases v <;> first | rfl | simp [vok] at h

/-- a cell of the data stack: a padding cell, a stack-mark, or a storable value -/
def cellOK (n : Nat) : Option Val → Prop
  | none => True
  | some (.mark _) => True
  | some v => vok n v = true

theorem cellOK_mono {n m : Nat} (h : n ≤ m) (c : Option Val) (hc : cellOK n c) : cellOK m c := by
  cases c with
  | none => trivial
  | some v => cases v <;> first | trivial | exact vok_mono h _ hc

theorem cellOK_of_vok {n : Nat} {v : Val} (h : vok n v = true) : cellOK n (some v) := by
  cases v <;> first | trivial | exact h

/-- a cell that the checker sees as an ordinary value holds a storable value -/
theorem vok_of_cell {n : Nat} {v : Val} (hc : cellOK n (some v)) (hv : cellOf (some v) = .val) : vok n v = true := by
  cases v <;> first | exact hc | cases hv

/-! ## Tables -/

/-- the tables only grow -/
structure TExt (s s' : St) : Prop where
  fns : ∃ e, s'.fns = s.fns ++ e
  loops : ∃ e, s'.loops = s.loops ++ e

theorem TExt.refl (s : St) : TExt s s := ⟨⟨[], by simp⟩, ⟨[], by simp⟩⟩

theorem TExt.trans {a b c : St} (h1 : TExt a b) (h2 : TExt b c) : TExt a c := by
  obtain ⟨⟨f1, hf1⟩, ⟨l1, hl1⟩⟩ := h1
  obtain ⟨⟨f2, hf2⟩, ⟨l2, hl2⟩⟩ := h2
  exact ⟨⟨f1 ++ f2, by rw [hf2, hf1, List.append_assoc]⟩, ⟨l1 ++ l2, by rw [hl2, hl1, List.append_assoc]⟩⟩

theorem TExt.same {s s' : St} (hf : s'.fns = s.fns) (hl : s'.loops = s.loops) : TExt s s' :=
  ⟨⟨[], by simp [hf]⟩, ⟨[], by simp [hl]⟩⟩

theorem TExt.fns_len {s s' : St} (h : TExt s s') : s.fns.length ≤ s'.fns.length := by
  obtain ⟨⟨e, he⟩, _⟩ := h; rw [he]; simp

theorem TExt.loops_len {s s' : St} (h : TExt s s') : s.loops.length ≤ s'.loops.length := by
  obtain ⟨_, ⟨e, he⟩⟩ := h; rw [he]; simp

theorem TExt.fnOf {s s' : St} (h : TExt s s') (id : Nat) (hid : id < s.fns.length) : fnOf s' id = fnOf s id := by
  obtain ⟨⟨e, he⟩, _⟩ := h
  simp only [VM.fnOf, he, List.getD_eq_getElem?_getD, List.getElem?_append_left hid]

/-- the sizes of the tables of a state -/
def szS (s : St) : Sz := ⟨s.loops.length, s.fns.length⟩

theorem TExt.sz {s s' : St} (h : TExt s s') : (szS s).le (szS s') := ⟨h.loops_len, h.fns_len⟩

theorem toB_stable {T T' : List LoopRec} {M : Nat} (h : ∃ e, T' = T ++ e) (i : Instr) (hi : instrOK ⟨T.length, M⟩ i = true) :
    toB T' i = toB T i := by
  obtain ⟨e, rfl⟩ := h
  cases i <;> first
    | rfl
    | (simp only [instrOK, decide_eq_true_eq] at hi
       simp only [toB, List.getD_eq_getElem?_getD, List.getElem?_append_left hi])

theorem B_stable {T T' : List LoopRec} {M : Nat} (h : ∃ e, T' = T ++ e) (code : List Instr) (hc : AllOK ⟨T.length, M⟩ code) :
    B T' code = B T code := by
  simp only [B]
  apply List.map_congr_left
  intro i hi
  exact toB_stable h i (hc i hi)

theorem fnB_stable {s s' : St} (h : TExt s s') (id : Nat) (hid : id < s.fns.length)
    (hc : AllOK (szS s) (fnOf s id).code) : fnB s' id = fnB s id := by
  simp only [fnB, h.fnOf id hid, B_stable h.loops _ hc]

/-- function object `id` is a verified function -/
structure FnGood (s : St) (id : Nat) : Prop where
  user : (fnOf s id).user = false
  sig : (fnOf s id).params.length = (fnOf s id).nargs + (if (fnOf s id).varargs then 1 else 0)
  code : AllOK (szS s) (fnOf s id).code
  verified : ∃ ann, verify (fnB s id) ann = true

theorem FnGood.ext {s s' : St} {id : Nat} (h : FnGood s id) (he : TExt s s') (hid : id < s.fns.length) : FnGood s' id := by
  have hf := he.fnOf id hid
  refine ⟨by rw [hf]; exact h.user, by rw [hf]; exact h.sig, by rw [hf]; exact h.code.mono he.sz, ?_⟩
  rw [fnB_stable he id hid h.code]
  exact h.verified

/-- **The table invariant.** -/
structure WF (s : St) : Prop where
  fns : ∀ id, 2 ≤ id → id < s.fns.length → FnGood s id
  two : 2 ≤ s.fns.length
  loopstack : s.loopstack = []
  scopes : ∀ sc ∈ s.scopes, ∀ p ∈ sc.vars, vok s.fns.length p.2 = true
  heap : ∀ a ∈ s.heap.arrs, ∀ v ∈ a, vok s.fns.length v = true
  lazies : ∀ lz ∈ s.lazies, okL lz.e = true ∧ ∀ v, lz.value = some v → vok s.fns.length v = true
  data : ∀ c ∈ s.data, cellOK s.fns.length c

/-! ## Activations -/

structure Act where
  f : Nat
  ann : Ann
  D : List Cell
  S : Nat
  A : Nat

/-- the activation's function is compiled code, locally verified by its annotation, and never
runs off its end -/
structure ActOK (s : St) (a : Act) : Prop where
  step : StepVerified (fnB s a.f) a.ann
  /-- (an activation with a return address, `A ≠ 0`: not the top-level text) it was entered at instruction 0 -/
  entry : a.A ≠ 0 → ∃ t, annAt a.ann 0 = some t ∧ (fnB s a.f).entry.le t = true
  len : a.ann.length = (fnB s a.f).code.length + 1
  /-- an activation with a return address never runs off its end (the top-level text does: that is how it ends) -/
  noEnd : a.A ≠ 0 → annAt a.ann (fnB s a.f).code.length = none
  user : (fnOf s a.f).user = false
  idx : a.f < s.fns.length
  code : AllOK (szS s) (fnOf s a.f).code

theorem ActOK.ext {s s' : St} {a : Act} (h : ActOK s a) (he : TExt s s') : ActOK s' a := by
  have hb := fnB_stable he a.f h.idx h.code
  have hf := he.fnOf a.f h.idx
  exact ⟨by rw [hb]; exact h.step, by rw [hb]; exact h.entry, by rw [hb]; exact h.len, by rw [hb]; exact h.noEnd, by rw [hf]; exact h.user,
    Nat.lt_of_lt_of_le h.idx he.fns_len, by rw [hf]; exact h.code.mono he.sz⟩

/-- what a `runLoop` was started on: the stacks of the pseudo caller and where it resumes -/
structure Base where
  data : List (Option Val)
  linear : List (Option Nat)
  addr : List (Option (Nat × Int))
  cur : Nat
  pc : Int
  /-- the bottom activation is the top-level text (`mainfunc`): it has no return address, and it ends by
  running off its end instead of returning -/
  main : Bool

/-- the suspended callers, innermost first; `D`, `S`, `addr` are the data cells below the callee,
its scope depth and the address stack while it runs -/
def Chain (b : Base) (s : St) : List Act → List Cell → Nat → List (Option (Nat × Int)) → Prop
  | [], D, S, addr => D = b.data.map cellOf ∧ S = b.linear.length ∧
      (if b.main = true then addr = [] else addr = some (b.cur, b.pc + 1) :: b.addr)
  | a :: rest, D, S, addr => ∃ r tail, addr = some (a.f, r) :: tail ∧ 0 ≤ r ∧
      Bal.Inv a.ann a.D a.S a.A ⟨r.toNat, .val :: D, S, a.A⟩ ∧ a.A = tail.length ∧ ActOK s a ∧
      a.D.length ≤ D.length ∧ Chain b s rest a.D a.S tail

theorem Chain.ext {b : Base} {s s' : St} (he : TExt s s') :
    ∀ (acts : List Act) (D : List Cell) (S : Nat) (addr : List (Option (Nat × Int))),
      Chain b s acts D S addr → Chain b s' acts D S addr
  | [], _, _, _, h => h
  | a :: rest, D, S, addr, h => by
    obtain ⟨r, tail, h1, h2, h3, h4, h5, h7, h6⟩ := h
    exact ⟨r, tail, h1, h2, h3, h4, h5.ext he, h7, Chain.ext he rest _ _ _ h6⟩

/-- the scope depth the bottom activation was entered with is the smallest of the chain -/
theorem Chain.depth {b : Base} {s : St} : ∀ (acts : List Act) (D : List Cell) (S : Nat) (addr : List (Option (Nat × Int))),
    Chain b s acts D S addr → b.linear.length ≤ S
  | [], _, _, _, h => by rw [h.2.1]; exact Nat.le_refl _
  | a :: rest, D, S, addr, h => by
    obtain ⟨r, tail, _, _, h3, _, _, _, h6⟩ := h
    have := Chain.depth rest _ _ _ h6
    obtain ⟨t, own, _, _, _, hsc, _⟩ := h3
    simp only at hsc
    omega

/-- the data the bottom activation was entered on is the shallowest of the chain -/
theorem Chain.dlen {b : Base} {s : St} : ∀ (acts : List Act) (D : List Cell) (S : Nat) (addr : List (Option (Nat × Int))),
    Chain b s acts D S addr → b.data.length ≤ D.length
  | [], _, _, _, h => by rw [h.1]; simp
  | a :: rest, D, S, addr, h => by
    obtain ⟨r, tail, _, _, _, _, _, h7, h6⟩ := h
    have := Chain.dlen rest _ _ _ h6
    omega

/-- the return addresses below the bottom activation are at the bottom of the address stack -/
theorem Chain.addr_suffix {b : Base} {s : St} : ∀ (acts : List Act) (D : List Cell) (S : Nat) (addr : List (Option (Nat × Int))),
    Chain b s acts D S addr → b.main = false → b.addr <:+ addr ∧ b.addr.length + 1 ≤ addr.length
  | [], _, _, _, h, hm => by
    have h3 := h.2.2
    rw [hm] at h3
    simp only [Bool.false_eq_true, if_false] at h3
    rw [h3]
    exact ⟨List.suffix_cons _ _, by simp⟩
  | a :: rest, D, S, addr, h, hm => by
    obtain ⟨r, tail, h1, _, _, _, _, _, h6⟩ := h
    obtain ⟨i1, i2⟩ := Chain.addr_suffix rest _ _ _ h6 hm
    rw [h1]
    exact ⟨i1.trans (List.suffix_cons _ _), by simp; omega⟩

/-- the loop is inside an activation -/
structure Running (b : Base) (s : St) (top : Act) (rest : List Act) : Prop where
  cur : s.curfunc = top.f
  pc : 0 ≤ s.pc
  inv : Bal.Inv top.ann top.D top.S top.A (absC s)
  ok : ActOK s top
  chain : Chain b s rest top.D top.S s.addr
  lin : b.linear <:+ s.linear

/-- the bottom activation has returned to the pseudo caller -/
structure Finished (b : Base) (s : St) : Prop where
  cur : s.curfunc = b.cur
  pc : s.pc = b.pc + 1
  data : s.data.map cellOf = .val :: b.data.map cellOf
  linear : s.linear = b.linear
  addr : s.addr = b.addr
  notMain : b.main = false

theorem suffix_of_drop {α} {base l : List α} (n : Nat) (h : base <:+ l) (hl : base.length ≤ (l.drop n).length) :
    base <:+ l.drop n := by
  obtain ⟨t, rfl⟩ := h
  have hlen : (List.drop n (t ++ base)).length = t.length + base.length - n := by simp
  rw [hlen] at hl
  by_cases hn : n ≤ t.length
  · rw [List.drop_append_of_le_length hn]
    exact ⟨t.drop n, rfl⟩
  · have : base = [] := List.length_eq_zero_iff.mp (by omega)
    subst this
    exact List.nil_suffix

theorem eq_of_suffix_length {α} {base l : List α} (h : base <:+ l) (hl : l.length = base.length) : l = base := by
  obtain ⟨t, rfl⟩ := h
  simp only [List.length_append] at hl
  have : t = [] := List.length_eq_zero_iff.mp (by omega)
  subst this; rfl

/-- a step of the stack-effect machine inside the top activation keeps the loop `Running` -/
theorem Running.step {b : Base} {s s' : St} {top : Act} {rest : List Act} (h : Running b s top rest)
    (hstep : CStep (fnB s top.f) (absC s) (absC s')) (hcur : s'.curfunc = s.curfunc) (haddr : s'.addr = s.addr)
    (hpc : 0 ≤ s'.pc) (he : TExt s s') (hlin : b.linear <:+ s'.linear) : Running b s' top rest :=
  ⟨hcur.trans h.cur, hpc, inv_step_s _ _ h.ok.step _ _ _ _ _ h.inv hstep, h.ok.ext he,
   by rw [haddr]; exact Chain.ext he _ _ _ _ h.chain, hlin⟩

theorem Running.topA {b : Base} {s : St} {top : Act} {rest : List Act} (h : Running b s top rest) : top.A = s.addr.length := by
  obtain ⟨_, _, _, _, _, _, ha⟩ := h.inv
  exact ha.symm

/-- above a base that is not the top-level text every activation has a return address -/
theorem Running.A_pos {b : Base} {s : St} {top : Act} {rest : List Act} (h : Running b s top rest) (hb : b.main = false) :
    top.A ≠ 0 := by
  rw [h.topA]
  have hc := h.chain
  cases rest with
  | nil =>
    obtain ⟨_, _, h3⟩ := hc
    rw [hb] at h3
    simp only [Bool.false_eq_true, if_false] at h3
    rw [h3]; simp
  | cons a r =>
    obtain ⟨r', tail, h1, _⟩ := hc
    rw [h1]; simp

/-- while `Running` the pc is inside the code -/
theorem Running.fetch {b : Base} {s : St} {top : Act} {rest : List Act} (h : Running b s top rest) (hA : top.A ≠ 0) :
    ¬ (s.pc = -1 ∨ s.pc ≥ curSize s) ∧ ∃ i, (fnOf s s.curfunc).code[s.pc.toNat]? = some i := by
  obtain ⟨a, own, hann, _, _, _, _⟩ := h.inv
  have hlt : (absC s).pc < top.ann.length := by
    unfold annAt at hann
    rcases Nat.lt_or_ge (absC s).pc top.ann.length with h' | h'
    · exact h'
    · rw [List.getElem?_eq_none_iff.mpr h'] at hann; cases hann
  rw [h.ok.len] at hlt
  have hne : (absC s).pc ≠ (fnB s top.f).code.length := by
    intro he
    rw [he, h.ok.noEnd hA] at hann
    cases hann
  have hlen : (fnB s top.f).code.length = (fnOf s s.curfunc).code.length := by
    rw [h.cur]; show (B s.loops (fnOf s top.f).code).length = _; rw [B_length]
  have hlt' : s.pc.toNat < (fnOf s s.curfunc).code.length := by
    have : (absC s).pc = s.pc.toNat := rfl
    omega
  have hsz : curSize s = ((fnOf s s.curfunc).code.length : Int) := by
    have hu : (fnOf s s.curfunc).user = false := by rw [h.cur]; exact h.ok.user
    simp [curSize, hu]
  refine ⟨?_, (fnOf s s.curfunc).code[s.pc.toNat], List.getElem?_eq_getElem hlt'⟩
  have := h.pc
  rw [hsz]
  omega

end ZygoVerif.RunInv
