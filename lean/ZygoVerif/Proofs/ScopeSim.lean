/-
The simulation statement between the VM's scope machinery and the reference evaluator's
environments (`Spec/RefEval.lean`): `Sim` relates a VM state to a reference state and
environment; `lookup_sound` says the two lookups then agree. Used by `Props/C03.lean`.
-/
import ZygoVerif.Proofs.ScopeInv
import ZygoVerif.Spec.RefEval
namespace ZygoVerif.Scope
open ZygoVerif.Core ZygoVerif.VM

/-! ## Reference side: the static chain as a list -/

/-- The frames `Ref.lookup` walks from `env`, in order (same recursion and fuel as
`Ref.lookupIn`). -/
def refChain (frames : List Ref.Frame) : Nat → Nat → List Nat
  | 0, _ => []
  | fuel+1, env =>
    match frames[env]? with
    | none => []
    | some fr => env :: (match fr.parent with | some p => refChain frames fuel p | none => [])

/-- First frame of a list that binds `x`. -/
def refFirst (frames : List Ref.Frame) (x : String) : List Nat → Option (Nat × Val)
  | [] => none
  | e :: rest =>
    match (frames.getD e {}).vars.lookup x with
    | some v => some (e, v)
    | none => refFirst frames x rest

theorem lookupIn_eq (frames : List Ref.Frame) (fuel env : Nat) (x : String) :
    Ref.lookupIn frames fuel env x = refFirst frames x (refChain frames fuel env) := by
  induction fuel generalizing env with
  | zero => rfl
  | succ n ih =>
    simp only [Ref.lookupIn, refChain]
    cases hf : frames[env]? with
    | none => rfl
    | some fr =>
      have hg : frames.getD env {} = fr := by simp [List.getD_eq_getElem?_getD, hf]
      simp only [refFirst, hg]
      cases hv : fr.vars.lookup x with
      | some v => rfl
      | none =>
        cases hp : fr.parent with
        | none => rfl
        | some p => exact ih p

/-- Keep the first occurrence of every id. -/
def dedupFirst : List Nat → List Nat
  | [] => []
  | a :: l => a :: (dedupFirst l).filter (· != a)

theorem refFirst_filter_unbound (frames : List Ref.Frame) (x : String) (a : Nat)
    (ha : (frames.getD a {}).vars.lookup x = none) (l : List Nat) :
    refFirst frames x (l.filter (· != a)) = refFirst frames x l := by
  induction l with
  | nil => rfl
  | cons b rest ih =>
    by_cases hb : b = a
    · subst hb
      have hf : (b != b) = false := by simp
      simp only [List.filter, hf, refFirst, ha, ih]
    · have : (b != a) = true := by simpa using hb
      simp only [List.filter, this, refFirst, ih]

theorem refFirst_dedupFirst (frames : List Ref.Frame) (x : String) (l : List Nat) :
    refFirst frames x (dedupFirst l) = refFirst frames x l := by
  induction l with
  | nil => rfl
  | cons a rest ih =>
    simp only [dedupFirst, refFirst]
    cases ha : (frames.getD a {}).vars.lookup x with
    | some v => rfl
    | none => rw [refFirst_filter_unbound frames x a ha, ih]

/-! ## VM side -/

/-- Stages 1 and 2 of the lookup: the live scopes of the current activation, then the
captured scopes of the running closure and of its creators. -/
def lexCore (s : St) : List Nat := aboveBoundary s s.linear ++ capturedChain s

theorem firstBinding_append_sub (s : St) (x : String) (a b : List Nat) (h : ∀ id ∈ b, id ∈ a) :
    firstBinding s x (a ++ b) = firstBinding s x a := by
  rw [firstBinding_append]
  cases ha : firstBinding s x a with
  | some r => rfl
  | none =>
    have hn := firstBinding_none ha
    cases hb : firstBinding s x b with
    | none => rfl
    | some r =>
      obtain ⟨id, v⟩ := r
      obtain ⟨pre, post, he, _, hv⟩ := firstBinding_some hb
      have := hn id (h id (by simp [he]))
      rw [this] at hv
      cases hv

theorem lookup_map_val (φ : Val → Val) (x : String) (l : List (String × Val)) :
    (l.map (fun p => (p.1, φ p.2))).lookup x = (l.lookup x).map φ := by
  induction l with
  | nil => rfl
  | cons p rest ih =>
    obtain ⟨k, w⟩ := p
    simp only [List.map_cons, List.lookup]
    cases (x == k) <;> simp [ih]

/-- The relation: along the part of the VM's search list that matters, scope by scope, the
reference environment has the corresponding frames (`ρ` maps scope ids to frame ids) with
the corresponding variables (`φ` translates values: closure and array ids differ between
the two evaluators); the template's captured scopes add nothing new. -/
structure Sim (ρ : Nat → Nat) (φ : Val → Val) (s : St) (rs : Ref.St) (env : Nat) : Prop where
  chain : refChain rs.frames (rs.frames.length + 1) env = dedupFirst ((lexCore s).map ρ)
  vars : ∀ id ∈ lexCore s, (rs.frames.getD (ρ id) {}).vars = (scopeOf s id).vars.map (fun p => (p.1, φ p.2))
  template : ∀ id ∈ templateCaptured s s.linear, id ∈ lexCore s

theorem refFirst_map (ρ : Nat → Nat) (φ : Val → Val) (s : St) (frames : List Ref.Frame) (x : String) (l : List Nat)
    (hv : ∀ id ∈ l, (frames.getD (ρ id) {}).vars = (scopeOf s id).vars.map (fun p => (p.1, φ p.2))) :
    refFirst frames x (l.map ρ) = (firstBinding s x l).map (fun p => (ρ p.1, φ p.2)) := by
  induction l with
  | nil => rfl
  | cons id rest ih =>
    simp only [List.map_cons, refFirst, firstBinding]
    rw [hv id (by simp), lookup_map_val]
    cases (scopeOf s id).vars.lookup x with
    | some v => rfl
    | none => exact ih (fun j hj => hv j (by simp [hj]))

/-- **Lookup soundness**: in related states, `LexicalLookupSymbol` finds the scope that
corresponds to the frame the reference lookup finds, holding the corresponding value — and
fails exactly when the reference lookup fails. -/
theorem lookup_sound {ρ : Nat → Nat} {φ : Val → Val} {s : St} {rs : Ref.St} {env : Nat}
    (h : Sim ρ φ s rs env) (x : String) :
    (lexLookup s x).map (fun p => (ρ p.1, φ p.2)) = Ref.lookup rs env x := by
  have h1 : lexLookup s x = firstBinding s x (lexCore s) := by
    rw [lexLookup_eq]
    have : lexChain s = lexCore s ++ (aboveBoundary s s.linear ++ templateCaptured s s.linear) := by
      simp [lexChain, lexCore]
    rw [this]
    apply firstBinding_append_sub
    intro id hid
    rcases List.mem_append.mp hid with hid | hid
    · exact List.mem_append.mpr (Or.inl hid)
    · exact h.template id hid
  rw [h1, Ref.lookup, lookupIn_eq, h.chain, refFirst_dedupFirst, refFirst_map ρ φ s rs.frames x (lexCore s) h.vars]

/-! ## Preservation: entering a scope -/

theorem aboveBoundary_congr_on {s s' : St} (l : List (Option Nat))
    (h : ∀ id ∈ idsOf l, isFnScope s' id = isFnScope s id) : aboveBoundary s' l = aboveBoundary s l := by
  induction l with
  | nil => rfl
  | cons o rest ih =>
    cases o with
    | none => exact ih (fun id hid => h id (by simpa [idsOf] using hid))
    | some j =>
      have hj := h j (by simp [idsOf])
      have := ih (fun id hid => h id (by simp [idsOf, hid]))
      simp only [aboveBoundary, hj, this]

theorem templateCaptured_congr_on {s s' : St} (l : List (Option Nat))
    (h : ∀ id ∈ idsOf l, isFnScope s' id = isFnScope s id ∧ (scopeOf s' id).myFunction = (scopeOf s id).myFunction)
    (hf : ∀ i, (fnOf s' i).closing = (fnOf s i).closing) : templateCaptured s' l = templateCaptured s l := by
  induction l with
  | nil => rfl
  | cons o rest ih =>
    cases o with
    | none => exact ih (fun id hid => h id (by simpa [idsOf] using hid))
    | some j =>
      have hj := h j (by simp [idsOf])
      have := ih (fun id hid => h id (by simp [idsOf, hid]))
      simp only [templateCaptured, hj.1, hj.2, hf, this]

theorem chainIds_congr {s s' : St} (hf : ∀ i, fnOf s' i = fnOf s i)
    (hb : ∀ i, ∀ id ∈ idsOf (fnOf s i).closing, isFnScope s' id = isFnScope s id) (fuel cur : Nat) :
    chainIds s' fuel cur = chainIds s fuel cur := by
  induction fuel generalizing cur with
  | zero => rfl
  | succ n ih =>
    simp only [chainIds, hf]
    cases (fnOf s cur).parent with
    | none => rfl
    | some par => simp only [aboveBoundary_congr_on _ (hb cur), ih]

theorem refChain_append (frames extra : List Ref.Frame)
    (hp : ∀ (i : Nat) (fr : Ref.Frame), frames[i]? = some fr → ∀ p, fr.parent = some p → p < i)
    (fuel env : Nat) (he : env < frames.length) :
    refChain (frames ++ extra) fuel env = refChain frames fuel env := by
  induction fuel generalizing env with
  | zero => rfl
  | succ n ih =>
    simp only [refChain, List.getElem?_append_left he]
    cases hf : frames[env]? with
    | none => rfl
    | some fr =>
      cases hpar : fr.parent with
      | none => simp only [hpar]
      | some p =>
        have hlt := hp env fr hf p hpar
        simp only [hpar, ih p (by omega)]

theorem dedupFirst_sub (l : List Nat) : ∀ a ∈ dedupFirst l, a ∈ l := by
  induction l with
  | nil => simp [dedupFirst]
  | cons b rest ih =>
    intro a ha
    simp only [dedupFirst, List.mem_cons, List.mem_filter] at ha
    rcases ha with rfl | ⟨ha, _⟩
    · simp
    · simp [ih a ha]

theorem filter_ne_of_not_mem (l : List Nat) (m : Nat) (h : m ∉ l) : l.filter (· != m) = l := by
  induction l with
  | nil => rfl
  | cons b rest ih =>
    have hb : b ≠ m := fun e => h (by simp [e])
    have : (b != m) = true := by simpa using hb
    simp only [List.filter, this, ih (fun hm => h (by simp [hm]))]

/-- The ids `lexCore` lists are held by the live stack or by a captured stack. -/
theorem chainIds_bounded (s : St) (w : WF s) (fuel cur : Nat) : ∀ id ∈ chainIds s fuel cur, id < s.scopes.length := by
  induction fuel generalizing cur with
  | zero => simp [chainIds]
  | succ n ih =>
    intro id hid
    simp only [chainIds] at hid
    split at hid
    · simp at hid
    · rcases List.mem_append.mp hid with h | h
      · have := aboveBoundary_sub s _ id h
        rcases getD_mem_or_default s.fns cur {} with hm | hd
        · exact w.closing _ hm id this
        · simp only [fnOf, hd] at this
          simp [idsOf] at this
      · exact ih _ id h

theorem fnClosing_bounded (s : St) (w : WF s) (i : Nat) : ∀ id ∈ idsOf (fnOf s i).closing, id < s.scopes.length := by
  intro id hid
  rcases getD_mem_or_default s.fns i {} with hm | hd
  · exact w.closing _ hm id hid
  · simp only [fnOf, hd] at hid
    simp [idsOf] at hid

theorem lexCore_bounded (s : St) (w : WF s) : ∀ id ∈ lexCore s, id < s.scopes.length := by
  intro id hid
  simp only [lexCore, List.mem_append] at hid
  rcases hid with h | h
  · exact w.linear id (aboveBoundary_sub s _ id h)
  · simp only [capturedChain] at h
    split at h
    · exact chainIds_bounded s w _ _ id h
    · exact fnClosing_bounded s w _ id (aboveBoundary_sub s _ id h)

/-- The state after `AddScopeInstr`. -/
def addScopeSt (s : St) : St :=
  { s with scopes := s.scopes ++ [({} : Scope)], linear := some s.scopes.length :: s.linear, pc := s.pc + 1 }

/-- Entering `let` / `letseq` / `newScope` / `for`: the VM pushes a fresh scope, the
reference evaluator allocates a fresh frame whose parent is the current environment; the
relation is kept, with the new scope mapped to the new frame. -/
theorem sim_addScope {ρ : Nat → Nat} {φ : Val → Val} {s : St} {rs : Ref.St} {env : Nat}
    (h : Sim ρ φ s rs env) (w : WF s)
    (hrange : ∀ id ∈ lexCore s, ρ id < rs.frames.length)
    (hparents : ∀ (i : Nat) (fr : Ref.Frame), rs.frames[i]? = some fr → ∀ p, fr.parent = some p → p < i)
    (henv : env < rs.frames.length) :
    Sim (fun id => if id = s.scopes.length then rs.frames.length else ρ id) φ
      (addScopeSt s) (Ref.newFrame rs env).2 (Ref.newFrame rs env).1 := by
  have hold : ∀ id, id < s.scopes.length → scopeOf (addScopeSt s) id = scopeOf s id := by
    intro id hid
    simp [scopeOf, addScopeSt, List.getD_eq_getElem?_getD, List.getElem?_append_left hid]
  have hflag : ∀ id, id < s.scopes.length → isFnScope (addScopeSt s) id = isFnScope s id := by
    intro id hid; simp only [isFnScope, hold id hid]
  have hnew : isFnScope (addScopeSt s) s.scopes.length = false := by
    simp [isFnScope, scopeOf, addScopeSt]
  have hfn : ∀ i, fnOf (addScopeSt s) i = fnOf s i := fun _ => rfl
  have hab : aboveBoundary (addScopeSt s) s.linear = aboveBoundary s s.linear :=
    aboveBoundary_congr_on _ (fun id hid => hflag id (w.linear id hid))
  have hcc : capturedChain (addScopeSt s) = capturedChain s := by
    have hb : ∀ i, ∀ id ∈ idsOf (fnOf s i).closing, isFnScope (addScopeSt s) id = isFnScope s id :=
      fun i id hid => hflag id (fnClosing_bounded s w i id hid)
    show (if (fnOf s s.curfunc).parent.isSome then chainIds (addScopeSt s) (s.fns.length + 1) s.curfunc
          else aboveBoundary (addScopeSt s) (fnOf s s.curfunc).closing) = _
    rw [chainIds_congr hfn hb, aboveBoundary_congr_on _ (hb _)]
    rfl
  have hcore : lexCore (addScopeSt s) = s.scopes.length :: lexCore s := by
    simp only [lexCore, hcc]
    show aboveBoundary (addScopeSt s) (some s.scopes.length :: s.linear) ++ capturedChain s = _
    simp only [aboveBoundary, hnew, Bool.false_eq_true, if_false, hab, List.cons_append]
  have hnotin : s.scopes.length ∉ lexCore s := fun hm => Nat.lt_irrefl _ (lexCore_bounded s w _ hm)
  have hmap : (lexCore s).map (fun id => if id = s.scopes.length then rs.frames.length else ρ id) = (lexCore s).map ρ := by
    apply List.map_congr_left
    intro id hid
    have : id ≠ s.scopes.length := fun e => hnotin (e ▸ hid)
    simp [this]
  refine ⟨?_, ?_, ?_⟩
  · -- chain
    simp only [Ref.newFrame, hcore, List.map_cons, if_true, hmap, dedupFirst]
    have hlen : (rs.frames ++ [({ parent := some env } : Ref.Frame)]).length = rs.frames.length + 1 := by simp
    rw [hlen]
    show refChain _ (rs.frames.length + 1 + 1) rs.frames.length = _
    rw [refChain]
    simp only [List.getElem?_append_right (Nat.le_refl _), Nat.sub_self, List.getElem?_cons_zero]
    rw [refChain_append rs.frames _ hparents _ _ henv, h.chain]
    congr 1
    symm
    apply filter_ne_of_not_mem
    intro hm
    have hm' := dedupFirst_sub _ _ hm
    obtain ⟨id, hid, he⟩ := List.mem_map.mp hm'
    have := hrange id hid
    omega
  · -- vars
    intro id hid
    rw [hcore] at hid
    rcases List.mem_cons.mp hid with rfl | hid
    · simp [Ref.newFrame, scopeOf, addScopeSt, List.getD_eq_getElem?_getD]
    · have hne : id ≠ s.scopes.length := fun e => hnotin (e ▸ hid)
      have hlt := lexCore_bounded s w id hid
      have hr := hrange id hid
      simp only [hne, if_false, Ref.newFrame, hold id hlt]
      rw [← h.vars id hid]
      simp [List.getD_eq_getElem?_getD, List.getElem?_append_left hr]
  · -- template
    intro id hid
    have ht : templateCaptured (addScopeSt s) (addScopeSt s).linear = templateCaptured s s.linear := by
      show templateCaptured (addScopeSt s) (some s.scopes.length :: s.linear) = _
      simp only [templateCaptured, hnew, Bool.false_eq_true, if_false]
      exact templateCaptured_congr_on _ (fun j hj => ⟨hflag j (w.linear j hj), by rw [hold j (w.linear j hj)]⟩)
        (fun _ => rfl)
    rw [ht] at hid
    rw [hcore]
    exact List.mem_cons_of_mem _ (h.template id hid)

end ZygoVerif.Scope
