/-
Proofs/RunMain.lean — the top-level text as the bottom activation.

`runText` appends the code of a text to `mainfunc` and runs the loop from the old end. That
stretch of `mainfunc` is an activation like any other for the calling contract
(`RunInv.allSpec'`), except that it has no return address and ends by running off its end
(`Base.main`). Its annotation does not come from a whole-function verification: the fragment
calculus of Proofs/GenBalanced.lean is generic in the position of the fragment
(`FragOK … ∀ F A L, Placed F A L code as → …`), so the annotation of the text is placed behind
`old.length` unannotated positions — no "shift" of a verified annotation is needed, no fact
about `goto`s or about the loop ids of the old code beyond their uniqueness.

* `main_loop`   the loop keeps `Holds b a0 []` and stops only at the end of the bottom activation;
* `load_ok`     `LoadExpressions` keeps `WF`, gives the fragment of the text and its loop ids;
* `MainOK`      what is known of `mainfunc` between texts;
* `runText_ok`  a text of the grammar that returns a value, from a state with `WF`, `MainOK`, at
                rest: afterwards `WF`, `MainOK`, at rest.
-/
import ZygoVerif.Proofs.RunAct
import ZygoVerif.Proofs.VMRest

namespace ZygoVerif.RunInv
open ZygoVerif.Core ZygoVerif.VM ZygoVerif.Bal ZygoVerif.Refine ZygoVerif.Sim ZygoVerif.Contain

/-! ## The loop over the bottom activation -/

/-- the loop has stopped: `Run`'s loop condition fails (or no instruction is there) -/
def Stopped (s : St) : Prop :=
  (s.pc = -1 ∨ s.pc ≥ curSize s) ∨ (fnOf s s.curfunc).code[s.pc.toNat]? = none

theorem main_loop (b : Base) (a0 : Act) (ha0 : a0.A = 0) :
    ∀ (n : Nat) (st : CtlState) (s s' : St), Holds b a0 [] s → (runLoop n st).run s = (.ok (), s') →
      Holds b a0 [] s' ∧ Stopped s'
  | 0, st, s, s', _, hex => by rw [runLoop_zero] at hex; cases hex
  | n + 1, st, s, s', hh, hex => by
    rw [runLoop] at hex
    by_cases hns : (s.pc = -1 ∨ s.pc ≥ curSize s)
    · simp only [run_bind, run_get, run_ite, hns, if_true, run_pure] at hex
      cases hex
      exact ⟨hh, Or.inl hns⟩
    · cases hi : (fnOf s s.curfunc).code[s.pc.toNat]? with
      | none =>
        simp only [run_bind, run_get, run_ite, hns, if_false, hi, run_pure] at hex
        cases hex
        exact ⟨hh, Or.inr hi⟩
      | some i =>
        simp only [run_bind, run_get, run_ite, hns, if_false, hi] at hex
        rcases hx : (exec n i).run s with ⟨r, s1⟩
        simp only [hx, run_set] at hex
        cases r with
        | error e => cases e <;> simp only [run_bind, run_restore, run_modify, run_throw] at hex <;> cases hex
        | ok u =>
          cases n with
          | zero => simp only [VM.exec, run_throw] at hx; cases hx
          | succ m =>
            have hv : VmStep s s1 := ⟨m, i, hns, hi, hx⟩
            exact main_loop b a0 ha0 (m + 1) st s1 s' (holds_step hh hv (by rw [ha0]; exact Nat.zero_le _)) hex

/-- when the loop has stopped, the bottom activation is the only one, and it is the top-level
text (an activation with a return address never runs off its end) -/
theorem main_end {b : Base} {a0 : Act} {s : St} (hh : Holds b a0 [] s) (hst : Stopped s) :
    WF s ∧ Running b s a0 [] ∧ s.addr = [] := by
  obtain ⟨hw, upper, top, rest, hr, hl⟩ := hh
  have hA : top.A = 0 := by
    apply Classical.byContradiction
    intro hne
    obtain ⟨h1, i, h2⟩ := hr.fetch hne
    rcases hst with h | h
    · exact h1 h
    · rw [h2] at h; cases h
  have haddr : s.addr = [] := by
    have := hr.topA
    exact List.length_eq_zero_iff.mp (by omega)
  have hrest : rest = [] := by
    cases rest with
    | nil => rfl
    | cons a r =>
      obtain ⟨r', tail, h1, _⟩ := hr.chain
      rw [haddr] at h1; cases h1
  subst hrest
  cases upper with
  | nil =>
    simp only [List.nil_append, List.cons.injEq, and_true] at hl
    subst hl
    exact ⟨hw, hr, haddr⟩
  | cons u us =>
    exfalso
    have := congrArg List.length hl
    simp at this

/-! ## Loading a text -/

/-- the context of code placed in `mainfunc`: loop ids occur once -/
def mainEnv : Env := { loops := [], side := fun F _ => LoopsUnique F.code }

/-- `LoadExpressions` (the generator run of `runText`) on a text of the covered grammar: the
table invariant is kept, every template made on the way is verified, and the code of the text
is a fragment — wherever it is placed in a function whose loop ids are unique — that leaves
one value (nothing for the empty text), no scope, no open region. -/
theorem load_ok {s s1 : St} (isFn : Nat → Bool) (es : List Expr) (code : List Instr) (t : Bool) (hw : WF s)
    (hok : okLs es = true) (h : (runGen (compileBegin isFn {} es)).run s = (.ok (code, t), s1)) :
    WF s1 ∧ TExt s s1 ∧ s1.data = s.data ∧ s1.linear = s.linear ∧ s1.addr = s.addr ∧ s1.curfunc = s.curfunc ∧ s1.pc = s.pc ∧
      s1.trace = s.trace ∧ AllOK (szS s1) code ∧ idsIn code s.loops.length s1.loops.length ∧
      ∃ as τ, FragOK mainEnv (B s1.loops code) as ∧ as[0]? = some restState ∧ as[code.length]? = some τ ∧
        τ.k = 0 ∧ τ.frames = [] ∧ τ.base ≤ 1 := by
  rw [run_runGen] at h
  split at h
  · rename_i a gs' hc
    cases h
    have hc' : compileBegin isFn {} es (gsOf s) = Except.ok ((code, t), gs') := hc
    have hgs := gsok_of_wf hw
    obtain ⟨_, ids, hnil, R⟩ := balL_compileBegin isFn es {} (gsOf s) code t gs' hok hgs hc'
    obtain ⟨hfns, hfr⟩ := R.sem gs'.loops (TOk.self (gsOf s) gs')
    have hcok := cok_compileBegin isFn es {} (gsOf s) code t gs' hok hgs hw.two hc'
    have hext : TExt s (withGen s gs') := ⟨R.ext.fns, R.ext.loops⟩
    have hls : (withGen s gs').loopstack = [] := by
      show gs'.loopstack = []
      rw [R.ext.stack]; exact hw.loopstack
    refine ⟨?_, hext, rfl, rfl, rfl, rfl, rfl, rfl, hcok.code, ids, ?_⟩
    · refine hw.grow hext ?_ (by rw [hls]; exact hw.loopstack.symm) rfl rfl (fun lz h => Or.inl h) (fun c h => Or.inl h)
      intro id h1 h2
      have hget : gs'.fns[id]? = some (fnOf (withGen s gs') id) := by
        show gs'.fns[id]? = some (gs'.fns.getD id {})
        have h2' : id < gs'.fns.length := h2
        rw [List.getD_eq_getElem?_getD, List.getElem?_eq_getElem h2']
        rfl
      obtain ⟨hcode, huser, hsig⟩ := hcok.fns id _ h1 hget
      exact ⟨huser, hsig, hcode, hfns id _ h1 hget⟩
    · by_cases hne : es = []
      · have := hnil hne
        subst this
        refine ⟨[restState], restState, ⟨rfl, fun x hx => ?_, fun F A L _ _ i hi => ?_⟩, rfl, rfl, rfl, rfl, Nat.zero_le _⟩
        · simp only [List.mem_cons, List.not_mem_nil, or_false] at hx; subst hx; decide
        · simp [B] at hi
      · have hinv : GInv 0 {} (gsOf s) mainEnv gs'.loops restState := by
          refine ⟨by decide, rfl, fun F A h => h, fun m hm => by simp [restState, openMarks] at hm, ?_, fun ht => by cases ht⟩
          intro id hid
          have : (gsOf s).loopstack = [] := hw.loopstack
          rw [this] at hid; cases hid
        obtain ⟨mid, hfrag⟩ := hfr hne 0 mainEnv restState hinv
        refine ⟨_, bump restState 1, hfrag, rfl, ?_, rfl, rfl, Nat.le_refl _⟩
        have hl := hfrag.1
        rw [B_length] at hl
        have hml : mid.length + 1 = code.length := by simp at hl; omega
        rw [← hml]
        simp
  · cases h

end ZygoVerif.RunInv
