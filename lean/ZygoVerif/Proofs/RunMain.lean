/-
Proofs/RunMain.lean — the top-level text as the bottom activation.

`runText` appends the code of a text to `mainfunc` and runs the loop from the old end. That
stretch of `mainfunc` is an activation like any other for the calling contract
(`RunInv.allSpec'`), except that it has no return address and ends by running off its end
(`Base.main`). Its annotation does not come from a whole-function verification: the fragment
calculus of Proofs/GenBalanced.lean is generic in the position of the fragment
(`FragOK … ∀ F A L, Placed F A L code as → …`), so the annotation of the text is placed behind
`old.length` unannotated positions — no "shift" of a verified annotation is needed, no fact
about `goto`s or about the loop ids of the old code beyond their uniqueness.

* `main_loop`   the loop keeps `Holds b a0 []` and stops only at the end of the bottom activation;
* `load_ok`     `LoadExpressions` keeps `WF`, gives the fragment of the text and its loop ids;
* `MainOK`      what is known of `mainfunc` between texts;
* `runText_ok`  a text of the grammar that returns a value, from a state with `WF`, `MainOK`, at
                rest: afterwards `WF`, `MainOK`, at rest.
-/
import ZygoVerif.Proofs.RunAct
import ZygoVerif.Proofs.VMRest

namespace ZygoVerif.RunInv
open ZygoVerif.Core ZygoVerif.VM ZygoVerif.Bal ZygoVerif.Refine ZygoVerif.Sim ZygoVerif.Contain

/-! ## The loop over the bottom activation -/

/-- the loop has stopped: `Run`'s loop condition fails (or no instruction is there) -/
def Stopped (s : St) : Prop :=
  (s.pc = -1 ∨ s.pc ≥ curSize s) ∨ (fnOf s s.curfunc).code[s.pc.toNat]? = none

theorem main_loop (b : Base) (a0 : Act) (ha0 : a0.A = 0) :
    ∀ (n : Nat) (st : CtlState) (s s' : St), Holds b a0 [] s → (runLoop n st).run s = (.ok (), s') →
      Holds b a0 [] s' ∧ Stopped s' ∧ TExt s s' ∧ s'.suspended = s.suspended
  | 0, st, s, s', _, hex => by rw [runLoop_zero] at hex; cases hex
  | n + 1, st, s, s', hh, hex => by
    rw [runLoop] at hex
    by_cases hns : (s.pc = -1 ∨ s.pc ≥ curSize s)
    · simp only [run_bind, run_get, run_ite, hns, if_true, run_pure] at hex
      cases hex
      exact ⟨hh, Or.inl hns, TExt.refl _, rfl⟩
    · cases hi : (fnOf s s.curfunc).code[s.pc.toNat]? with
      | none =>
        simp only [run_bind, run_get, run_ite, hns, if_false, hi, run_pure] at hex
        cases hex
        exact ⟨hh, Or.inr hi, TExt.refl _, rfl⟩
      | some i =>
        simp only [run_bind, run_get, run_ite, hns, if_false, hi] at hex
        rcases hx : (exec n i).run s with ⟨r, s1⟩
        simp only [hx, run_set] at hex
        cases r with
        | error e => cases e <;> simp only [run_bind, run_restore, run_modify, run_throw] at hex <;> cases hex
        | ok u =>
          cases n with
          | zero => simp only [VM.exec, run_throw] at hx; cases hx
          | succ m =>
            have hv : VmStep s s1 := ⟨m, i, hns, hi, hx⟩
            obtain ⟨hh1, he1, hs1⟩ := holds_step_ext hh hv (by rw [ha0]; exact Nat.zero_le _)
            obtain ⟨r1, r2, r3, r4⟩ := main_loop b a0 ha0 (m + 1) st s1 s' hh1 hex
            exact ⟨r1, r2, he1.trans r3, r4.trans hs1⟩

/-- when the loop has stopped, the bottom activation is the only one, and it is the top-level
text (an activation with a return address never runs off its end) -/
theorem main_end {b : Base} {a0 : Act} {s : St} (hh : Holds b a0 [] s) (hst : Stopped s) :
    WF s ∧ Running b s a0 [] ∧ s.addr = [] := by
  obtain ⟨hw, upper, top, rest, hr, hl⟩ := hh
  have hA : top.A = 0 := by
    apply Classical.byContradiction
    intro hne
    obtain ⟨h1, i, h2⟩ := hr.fetch hne
    rcases hst with h | h
    · exact h1 h
    · rw [h2] at h; cases h
  have haddr : s.addr = [] := by
    have := hr.topA
    exact List.length_eq_zero_iff.mp (by omega)
  have hrest : rest = [] := by
    cases rest with
    | nil => rfl
    | cons a r =>
      obtain ⟨r', tail, h1, _⟩ := hr.chain
      rw [haddr] at h1; cases h1
  subst hrest
  cases upper with
  | nil =>
    simp only [List.nil_append, List.cons.injEq, and_true] at hl
    subst hl
    exact ⟨hw, hr, haddr⟩
  | cons u us =>
    exfalso
    have := congrArg List.length hl
    simp at this

/-! ## Loading a text -/

/-- the context of code placed in `mainfunc`: loop ids occur once -/
def mainEnv : Env := { loops := [], side := fun F _ => LoopsUnique F.code }

/-- `LoadExpressions` (the generator run of `runText`) on a text of the covered grammar: the
table invariant is kept, every template made on the way is verified, and the code of the text
is a fragment — wherever it is placed in a function whose loop ids are unique — that leaves
one value (nothing for the empty text), no scope, no open region. -/
theorem load_ok {s s1 : St} (isFn : Nat → Bool) (es : List Expr) (code : List Instr) (t : Bool) (hw : WF s)
    (hok : okLs es = true) (h : (runGen (compileBegin isFn {} es)).run s = (.ok (code, t), s1)) :
    WF s1 ∧ TExt s s1 ∧ s1.data = s.data ∧ s1.linear = s.linear ∧ s1.addr = s.addr ∧ s1.curfunc = s.curfunc ∧ s1.pc = s.pc ∧
      s1.trace = s.trace ∧ AllOK (szS s1) code ∧ idsIn code s.loops.length s1.loops.length ∧
      ∃ as τ, FragOK mainEnv (B s1.loops code) as ∧ as[0]? = some restState ∧ as[code.length]? = some τ ∧
        τ.k = 0 ∧ τ.frames = [] ∧ τ.base ≤ 1 := by
  rw [run_runGen] at h
  split at h
  · rename_i a gs' hc
    cases h
    have hc' : compileBegin isFn {} es (gsOf s) = Except.ok ((code, t), gs') := hc
    have hgs := gsok_of_wf hw
    obtain ⟨_, ids, hnil, R⟩ := balL_compileBegin isFn es {} (gsOf s) code t gs' hok hgs hc'
    obtain ⟨hfns, hfr⟩ := R.sem gs'.loops (TOk.self (gsOf s) gs')
    have hcok := cok_compileBegin isFn es {} (gsOf s) code t gs' hok hgs hw.two hc'
    have hext : TExt s (withGen s gs') := ⟨R.ext.fns, R.ext.loops⟩
    have hls : (withGen s gs').loopstack = [] := by
      show gs'.loopstack = []
      rw [R.ext.stack]; exact hw.loopstack
    refine ⟨?_, hext, rfl, rfl, rfl, rfl, rfl, rfl, hcok.code, ids, ?_⟩
    · refine hw.grow hext ?_ (by rw [hls]; exact hw.loopstack.symm) rfl rfl (fun lz h => Or.inl h) (fun c h => Or.inl h)
      intro id h1 h2
      have hget : gs'.fns[id]? = some (fnOf (withGen s gs') id) := by
        show gs'.fns[id]? = some (gs'.fns.getD id {})
        have h2' : id < gs'.fns.length := h2
        rw [List.getD_eq_getElem?_getD, List.getElem?_eq_getElem h2']
        rfl
      obtain ⟨hcode, huser, hsig⟩ := hcok.fns id _ h1 hget
      exact ⟨huser, hsig, hcode, hfns id _ h1 hget⟩
    · by_cases hne : es = []
      · have := hnil hne
        subst this
        refine ⟨[restState], restState, ⟨rfl, fun x hx => ?_, fun F A L _ _ i hi => ?_⟩, rfl, rfl, rfl, rfl, Nat.zero_le _⟩
        · simp only [List.mem_cons, List.not_mem_nil, or_false] at hx; subst hx; decide
        · simp [B] at hi
      · have hinv : GInv 0 {} (gsOf s) mainEnv gs'.loops restState := by
          refine ⟨by decide, rfl, fun F A h => h, fun m hm => by simp [restState, openMarks] at hm, ?_, fun ht => by cases ht⟩
          intro id hid
          have : (gsOf s).loopstack = [] := hw.loopstack
          rw [this] at hid; cases hid
        obtain ⟨mid, hfrag⟩ := hfr hne 0 mainEnv restState hinv
        refine ⟨_, bump restState 1, hfrag, rfl, ?_, rfl, rfl, Nat.le_refl _⟩
        have hl := hfrag.1
        rw [B_length] at hl
        have hml : mid.length + 1 = code.length := by simp at hl; omega
        rw [← hml]
        simp
  · cases h

/-! ## The annotation of `mainfunc` while a text runs -/

/-- nothing is claimed about the old code (the run never enters it); behind it, the fragment's states -/
def mainAnn (m : Nat) (as : List AState) : Ann := List.replicate m none ++ as.map some

theorem annAt_mainAnn_lt (m : Nat) (as : List AState) (i : Nat) (h : i < m) : annAt (mainAnn m as) i = none := by
  unfold annAt mainAnn
  rw [List.getElem?_append_left (by simpa using h)]
  simp [h]

theorem annAt_mainAnn_ge (m : Nat) (as : List AState) (i : Nat) : annAt (mainAnn m as) (m + i) = as[i]? := by
  unfold annAt mainAnn
  rw [List.getElem?_append_right (by simp)]
  simp only [List.length_replicate, Nat.add_sub_cancel_left, List.getElem?_map]
  cases as[i]? <;> rfl

/-- **Placement instead of shifting**: a fragment placed behind `old` in a function whose loop
ids are unique is locally verified there, with the old code left unannotated. -/
theorem main_stepVerified (F : Fn) (old code : List BInstr) (as : List AState) (hF : F.code = old ++ code)
    (hfrag : FragOK mainEnv code as) (hu : LoopsUnique F.code) : StepVerified F (mainAnn old.length as) := by
  obtain ⟨hlen, _, hk⟩ := hfrag
  refine ⟨fun pc a i ha hi => ?_⟩
  rcases Nat.lt_or_ge pc old.length with hlt | hge
  · rw [annAt_mainAnn_lt _ _ _ hlt] at ha; cases ha
  · obtain ⟨j, rfl⟩ : ∃ j, pc = old.length + j := ⟨pc - old.length, by omega⟩
    have hj : j < code.length := by
      have : old.length + j < F.code.length := by
        rcases Nat.lt_or_ge (old.length + j) F.code.length with h | h
        · exact h
        · rw [List.getElem?_eq_none_iff.mpr h] at hi; cases hi
      rw [hF, List.length_append] at this
      omega
    have hplaced : Placed F (mainAnn old.length as) old.length code as := by
      refine ⟨fun i _ => ?_, fun i _ => annAt_mainAnn_ge _ _ _⟩
      rw [hF, List.getElem?_append_right (by omega)]
      simp
    have hok := hk F (mainAnn old.length as) old.length hplaced ⟨hu, fun i hi => by cases hi⟩ j hj
    unfold okAt at hok
    rw [ha, hi] at hok
    simp only [Bool.and_eq_true] at hok
    obtain ⟨hwf, hrest⟩ := hok
    refine ⟨hwf, ?_⟩
    split at hrest
    · rename_i succs hs
      exact ⟨succs, hs, fun p hp => succOk_elim _ p (List.all_eq_true.mp hrest p hp)⟩
    · cases hrest

/-! ## `mainfunc` between texts -/

/-- what is known of `mainfunc` between texts: compiled code of the grammar, loop ids unique
and allocated, the pc at its end -/
structure MainOK (s : St) : Prop where
  user : (fnOf s mainFn).user = false
  code : AllOK (szS s) (fnOf s mainFn).code
  ids : idsIn (fnOf s mainFn).code 0 s.loops.length
  pc : s.pc = ((fnOf s mainFn).code.length : Int)

/-- the state `runText` runs: the code of the text appended to `mainfunc` -/
def loaded (s1 : St) (code : List Instr) : St :=
  { s1 with fns := s1.fns.set mainFn { (fnOf s1 mainFn) with code := (fnOf s1 mainFn).code ++ code }, curfunc := mainFn }

theorem loaded_main (s1 : St) (code : List Instr) (h : 2 ≤ s1.fns.length) :
    fnOf (loaded s1 code) mainFn = { (fnOf s1 mainFn) with code := (fnOf s1 mainFn).code ++ code } := by
  show (s1.fns.set 0 _).getD 0 {} = _
  rw [List.getD_eq_getElem?_getD, List.getElem?_set_self (by omega)]
  rfl

theorem loaded_other (s1 : St) (code : List Instr) (id : Nat) (h : id ≠ 0) : fnOf (loaded s1 code) id = fnOf s1 id := by
  show (s1.fns.set 0 _).getD id {} = s1.fns.getD id {}
  rw [List.getD_eq_getElem?_getD, List.getD_eq_getElem?_getD, List.getElem?_set_ne (by omega)]

theorem loaded_len (s1 : St) (code : List Instr) : (loaded s1 code).fns.length = s1.fns.length := by
  show (s1.fns.set 0 _).length = _
  rw [List.length_set]

theorem wf_loaded {s1 : St} (code : List Instr) (hw : WF s1) : WF (loaded s1 code) := by
  have hl := loaded_len s1 code
  refine ⟨fun id h2 hlt => ?_, by rw [hl]; exact hw.two, hw.loopstack, by rw [hl]; exact hw.scopes, by rw [hl]; exact hw.heap,
    by rw [hl]; exact hw.lazies, by rw [hl]; exact hw.data⟩
  have hg := hw.fns id h2 (by rw [← hl]; exact hlt)
  have hfo := loaded_other s1 code id (by omega)
  have hsz : szS (loaded s1 code) = szS s1 := by simp only [szS, hl]; rfl
  refine ⟨by rw [hfo]; exact hg.user, by rw [hfo]; exact hg.sig, by rw [hfo, hsz]; exact hg.code, ?_⟩
  have : fnB (loaded s1 code) id = fnB s1 id := by
    simp only [fnB, hfo]; rfl
  rw [this]; exact hg.verified

/-! ## Running the loaded text -/

/-- the loaded state: `mainfunc`, from the old end on, is the one activation, above a base without
return address -/
theorem loaded_running {s1 : St} (code : List Instr) (as : List AState) (N : Nat)
    (hw : WF s1) (hd : s1.data = []) (ha : s1.addr = [])
    (hu : (fnOf s1 mainFn).user = false) (hold : AllOK (szS s1) (fnOf s1 mainFn).code)
    (hoids : idsIn (fnOf s1 mainFn).code 0 N) (hids : idsIn code N s1.loops.length) (hN : N ≤ s1.loops.length)
    (hpc : s1.pc = ((fnOf s1 mainFn).code.length : Int)) (hcode : AllOK (szS s1) code)
    (hfrag : FragOK mainEnv (B s1.loops code) as) (h0 : as[0]? = some restState) :
    ∃ b a0, b.main = true ∧ a0.A = 0 ∧ b.linear = s1.linear ∧ Holds b a0 [] (loaded s1 code) := by
  obtain ⟨s2, hs2⟩ : ∃ s2, s2 = loaded s1 code := ⟨_, rfl⟩
  have hw2 : WF s2 := by rw [hs2]; exact wf_loaded code hw
  have hmain : fnOf s2 mainFn = { (fnOf s1 mainFn) with code := (fnOf s1 mainFn).code ++ code } := by
    rw [hs2]; exact loaded_main s1 code hw.two
  have hsz : szS s2 = szS s1 := by rw [hs2]; simp only [szS, loaded_len]; rfl
  have hloops : s2.loops = s1.loops := by rw [hs2]; rfl
  obtain ⟨old, hold'⟩ : ∃ old, old = (fnOf s1 mainFn).code := ⟨_, rfl⟩
  have hcodeM : (fnOf s2 mainFn).code = old ++ code := by rw [hmain, hold']
  have hidsM : idsIn (old ++ code) 0 s1.loops.length := by
    rw [hold']; exact idsIn_app hoids hids (Nat.zero_le _) hN
  have hBM : (fnB s2 mainFn).code = B s1.loops old ++ B s1.loops code := by
    show B s2.loops (fnOf s2 mainFn).code = _
    rw [hcodeM, hloops]; simp only [B, List.map_append]
  have huniq : LoopsUnique (fnB s2 mainFn).code := by
    apply loopsUnique_of_nodup
    show (lids (B s2.loops (fnOf s2 mainFn).code)).Nodup
    rw [lids_B, hcodeM]; exact nodup_of_idsIn hidsM
  have hstep : StepVerified (fnB s2 mainFn) (mainAnn (B s1.loops old).length as) :=
    main_stepVerified _ _ _ as hBM hfrag huniq
  rw [B_length] at hstep
  have hlenas : as.length = code.length + 1 := by have := hfrag.1; rw [B_length] at this; exact this
  let a0 : Act := ⟨mainFn, mainAnn old.length as, [], s1.linear.length, 0⟩
  let b : Base := ⟨[], s1.linear, [], mainFn, 0, true⟩
  have hpc2 : s2.pc = (old.length : Int) := by rw [hs2, hold']; exact hpc
  have hd2 : s2.data = [] := by rw [hs2]; exact hd
  have ha2 : s2.addr = [] := by rw [hs2]; exact ha
  have hl2 : s2.linear = s1.linear := by rw [hs2]; rfl
  have hc2 : s2.curfunc = mainFn := by rw [hs2]; rfl
  have hact : ActOK s2 a0 := by
    refine ⟨hstep, fun h => absurd rfl h, ?_, fun h => absurd rfl h, by rw [hmain]; exact hu, ?_, ?_⟩
    · show (mainAnn old.length as).length = (fnB s2 mainFn).code.length + 1
      rw [hBM]; simp only [mainAnn, List.length_append, List.length_replicate, List.length_map, B_length, hlenas]; omega
    · have := hw2.two; show 0 < s2.fns.length; omega
    · show AllOK (szS s2) (fnOf s2 mainFn).code
      rw [hcodeM, hsz, hold']; exact AllOK.append hold hcode
  have hrun : Running b s2 a0 [] := by
    refine ⟨hc2, by rw [hpc2]; exact Int.natCast_nonneg _, ?_, hact, ⟨by rfl, by rfl, ?_⟩, by rw [hl2]; exact List.suffix_refl _⟩
    · apply inv_mk (s' := restState) (own' := [])
      · refine ⟨restState, ?_, le_refl _⟩
        show annAt (mainAnn old.length as) s2.pc.toNat = _
        rw [hpc2]
        have := annAt_mainAnn_ge old.length as 0
        simp only [Nat.add_zero] at this
        rw [Int.toNat_natCast, this, h0]
      · show s2.data.map cellOf = _; rw [hd2]; rfl
      · exact Conc.base 0
      · show s2.linear.length = _; rw [hl2]; rfl
      · show s2.addr.length = _; rw [ha2]; rfl
    · show (if true = true then s2.addr = [] else _)
      rw [if_pos rfl]; exact ha2
  subst hs2
  exact ⟨b, a0, rfl, rfl, rfl, hw2, [], a0, [], hrun, rfl⟩

/-- **`Run` on a loaded text that returns a value leaves the interpreter at rest**, with the
table invariant and the facts about `mainfunc` kept. `s1` is the state after `LoadExpressions`
(before the code is appended): nothing on the data and address stacks, `mainfunc`'s loop ids
below `N`, those of the text from `N` on. -/
theorem run_loaded {s1 : St} (code : List Instr) (as : List AState) (τ : AState) (N fuel : Nat) (v : Val) (s' : St)
    (hw : WF s1) (hd : s1.data = []) (ha : s1.addr = [])
    (hu : (fnOf s1 mainFn).user = false) (hold : AllOK (szS s1) (fnOf s1 mainFn).code)
    (hoids : idsIn (fnOf s1 mainFn).code 0 N) (hids : idsIn code N s1.loops.length) (hN : N ≤ s1.loops.length)
    (hpc : s1.pc = ((fnOf s1 mainFn).code.length : Int)) (hcode : AllOK (szS s1) code)
    (hfrag : FragOK mainEnv (B s1.loops code) as) (h0 : as[0]? = some restState) (hτ : as[code.length]? = some τ)
    (hk : τ.k = 0) (hfr : τ.frames = []) (hb : τ.base ≤ 1)
    (hex : (run fuel).run (loaded s1 code) = (.ok v, s')) :
    WF s' ∧ MainOK s' ∧ s'.data = [] ∧ s'.linear = s1.linear ∧ s'.addr = [] ∧ s'.loopstack = [] ∧ s'.curfunc = mainFn ∧
      vok s'.fns.length v = true ∧ s'.suspended = s1.suspended := by
  obtain ⟨s2, hs2⟩ : ∃ s2, s2 = loaded s1 code := ⟨_, rfl⟩
  rw [← hs2] at hex
  have hw2 : WF s2 := by rw [hs2]; exact wf_loaded code hw
  have hmain : fnOf s2 mainFn = { (fnOf s1 mainFn) with code := (fnOf s1 mainFn).code ++ code } := by
    rw [hs2]; exact loaded_main s1 code hw.two
  have hsz : szS s2 = szS s1 := by rw [hs2]; simp only [szS, loaded_len]; rfl
  have hloops : s2.loops = s1.loops := by rw [hs2]; rfl
  obtain ⟨old, hold'⟩ : ∃ old, old = (fnOf s1 mainFn).code := ⟨_, rfl⟩
  have hcodeM : (fnOf s2 mainFn).code = old ++ code := by rw [hmain, hold']
  have hidsM : idsIn (old ++ code) 0 s1.loops.length := by
    rw [hold']; exact idsIn_app hoids hids (Nat.zero_le _) hN
  have hBM : (fnB s2 mainFn).code = B s1.loops old ++ B s1.loops code := by
    show B s2.loops (fnOf s2 mainFn).code = _
    rw [hcodeM, hloops]; simp only [B, List.map_append]
  have huniq : LoopsUnique (fnB s2 mainFn).code := by
    apply loopsUnique_of_nodup
    show (lids (B s2.loops (fnOf s2 mainFn).code)).Nodup
    rw [lids_B, hcodeM]; exact nodup_of_idsIn hidsM
  have hstep : StepVerified (fnB s2 mainFn) (mainAnn (B s1.loops old).length as) :=
    main_stepVerified _ _ _ as hBM hfrag huniq
  rw [B_length] at hstep
  have hlenas : as.length = code.length + 1 := by have := hfrag.1; rw [B_length] at this; exact this
  let a0 : Act := ⟨mainFn, mainAnn old.length as, [], s1.linear.length, 0⟩
  let b : Base := ⟨[], s1.linear, [], mainFn, 0, true⟩
  have hpc2 : s2.pc = (old.length : Int) := by rw [hs2, hold']; exact hpc
  have hd2 : s2.data = [] := by rw [hs2]; exact hd
  have ha2 : s2.addr = [] := by rw [hs2]; exact ha
  have hl2 : s2.linear = s1.linear := by rw [hs2]; rfl
  have hc2 : s2.curfunc = mainFn := by rw [hs2]; rfl
  have hact : ActOK s2 a0 := by
    refine ⟨hstep, fun h => absurd rfl h, ?_, fun h => absurd rfl h, by rw [hmain]; exact hu, ?_, ?_⟩
    · show (mainAnn old.length as).length = (fnB s2 mainFn).code.length + 1
      rw [hBM]; simp only [mainAnn, List.length_append, List.length_replicate, List.length_map, B_length, hlenas]; omega
    · have := hw2.two; show 0 < s2.fns.length; omega
    · show AllOK (szS s2) (fnOf s2 mainFn).code
      rw [hcodeM, hsz, hold']; exact AllOK.append hold hcode
  have hrun : Running b s2 a0 [] := by
    refine ⟨hc2, by rw [hpc2]; exact Int.natCast_nonneg _, ?_, hact, ⟨by rfl, by rfl, ?_⟩, by rw [hl2]; exact List.suffix_refl _⟩
    · apply inv_mk (s' := restState) (own' := [])
      · refine ⟨restState, ?_, le_refl _⟩
        show annAt (mainAnn old.length as) s2.pc.toNat = _
        rw [hpc2]
        have := annAt_mainAnn_ge old.length as 0
        simp only [Nat.add_zero] at this
        rw [Int.toNat_natCast, this, h0]
      · show s2.data.map cellOf = _; rw [hd2]; rfl
      · exact Conc.base 0
      · show s2.linear.length = _; rw [hl2]; rfl
      · show s2.addr.length = _; rw [ha2]; rfl
    · show (if true = true then s2.addr = [] else _)
      rw [if_pos rfl]; exact ha2
  -- the run
  cases fuel with
  | zero => simp only [VM.run, run_throw] at hex; cases hex
  | succ n =>
    rw [run_succ_eq] at hex
    simp only [run_bind, run_capture] at hex
    rcases hl : (runLoop n (captureOf s2)).run s2 with ⟨r, s3⟩
    rw [hl] at hex
    cases r with
    | error e => cases hex
    | ok u =>
      obtain ⟨hh3, hst3, he3, hsu3⟩ := main_loop b a0 rfl n _ s2 s3 ⟨hw2, [], a0, [], hrun, rfl⟩ hl
      obtain ⟨hw3, hr3, ha3⟩ := main_end hh3 hst3
      -- where the loop stopped: at the end of `mainfunc`
      have hok3 := hr3.ok
      have hlen3 : (fnOf s3 mainFn).code.length = old.length + code.length := by
        have h1 := hok3.len
        have : (fnB s3 mainFn).code.length = (fnOf s3 mainFn).code.length := by
          show (B s3.loops (fnOf s3 mainFn).code).length = _; rw [B_length]
        show (fnOf s3 a0.f).code.length = _
        rw [← this]
        have h2 : (mainAnn old.length as).length = old.length + (code.length + 1) := by
          simp only [mainAnn, List.length_append, List.length_replicate, List.length_map, hlenas]
        have h1' : (mainAnn old.length as).length = (fnB s3 mainFn).code.length + 1 := h1
        omega
      have hc3 : s3.curfunc = mainFn := hr3.cur
      obtain ⟨a, own, hann, hdata, hconc, hsc, _⟩ := hr3.inv
      have hpcn := hr3.pc
      have hge : old.length + code.length ≤ s3.pc.toNat := by
        rcases hst3 with h | h
        · rcases h with h | h
          · omega
          · have hcs : curSize s3 = ((fnOf s3 mainFn).code.length : Int) := by
              have hu3 : (fnOf s3 mainFn).user = false := hok3.user
              simp [curSize, hu3, hc3]
            rw [hcs, hlen3] at h
            omega
        · rw [hc3] at h
          have := List.getElem?_eq_none_iff.mp h
          omega
      have hlt : s3.pc.toNat < old.length + (code.length + 1) := by
        have hpa : (absC s3).pc = s3.pc.toNat := rfl
        rw [hpa] at hann
        unfold annAt at hann
        rcases Nat.lt_or_ge s3.pc.toNat (mainAnn old.length as).length with h' | h'
        · simpa [mainAnn, hlenas] using h'
        · rw [List.getElem?_eq_none_iff.mpr h'] at hann; cases hann
      have hpceq : s3.pc.toNat = old.length + code.length := by omega
      have haτ : a = τ := by
        have hpa : (absC s3).pc = s3.pc.toNat := rfl
        rw [hpa, hpceq, annAt_mainAnn_ge, hτ] at hann
        cases hann; rfl
      subst haτ
      rw [hfr] at hconc
      have hown : own = List.replicate a.base .val := by cases hconc; rfl
      have hdata3 : s3.data.map cellOf = List.replicate a.base .val := by
        have : (absC s3).data = s3.data.map cellOf := rfl
        rw [← this, hdata, hown]; exact List.append_nil _
      have hlin3 : s3.linear = s1.linear := by
        apply eq_of_suffix_length hr3.lin
        have : (absC s3).sc = s3.linear.length := rfl
        rw [← this, hsc, hk]; rfl
      have hmain3 : fnOf s3 mainFn = fnOf s2 mainFn := he3.fnOf mainFn (by have := hw2.two; show 0 < s2.fns.length; omega)
      have hm3 : MainOK s3 := by
        refine ⟨hok3.user, hok3.code, ?_, ?_⟩
        · rw [hmain3, hcodeM]
          exact idsIn_mono hidsM (Nat.le_refl _) (by rw [← hloops]; exact he3.loops_len)
        · rw [hmain3, hcodeM, List.length_append]
          have := hr3.pc
          omega
      simp only at hex
      unfold runTail at hex
      simp only [run_bind, run_get] at hex
      rcases hdd : s3.data with _ | ⟨c, rest⟩
      · simp only [hdd, List.isEmpty_nil, if_true, run_bind, Sim.run_pushData, run_popData] at hex
        cases hex
        exact ⟨hw3.setData [] s3.pc (fun c hc => by cases hc), ⟨hm3.user, hm3.code, hm3.ids, hm3.pc⟩, rfl, hlin3, ha3, hw3.loopstack, hc3, rfl,
          hsu3.trans (by rw [hs2]; rfl)⟩
      · rw [hdd] at hdata3
        have hb1 : a.base = 1 ∧ rest = [] ∧ cellOf c = .val := by
          rcases Nat.lt_or_ge a.base 1 with h | h
          · have : a.base = 0 := by omega
            rw [this] at hdata3; simp at hdata3
          · have : a.base = 1 := by omega
            rw [this] at hdata3
            simp only [List.map_cons, List.replicate_one, List.cons.injEq, List.map_eq_nil_iff] at hdata3
            exact ⟨this, hdata3.2, hdata3.1⟩
        obtain ⟨_, hrest, hcell⟩ := hb1
        subst hrest
        cases c with
        | none =>
          simp only [hdd, List.isEmpty_cons, Bool.false_eq_true, if_false, run_pure, run_popData] at hex
          cases hex
        | some w =>
          simp only [hdd, List.isEmpty_cons, Bool.false_eq_true, if_false, run_pure, run_popData] at hex
          cases hex
          exact ⟨hw3.setData [] s3.pc (fun c hc => by cases hc), ⟨hm3.user, hm3.code, hm3.ids, hm3.pc⟩, rfl, hlin3, ha3, hw3.loopstack, hc3,
            vok_of_cell (hw3.data_head hdd) hcell, hsu3.trans (by rw [hs2]; rfl)⟩

/-! ## One text -/

/-- the interpreter between texts: the table invariant, the facts about `mainfunc`, at rest -/
structure Served (s : St) : Prop where
  wf : WF s
  main : MainOK s
  rest : AtRest s
  susp : s.suspended = []

theorem load_susp {s s1 : St} {α : Type} (g : G α) (r : α) (h : (runGen g).run s = (.ok r, s1)) : s1.suspended = s.suspended := by
  rw [run_runGen] at h
  split at h
  · cases h; rfl
  · cases h

theorem runText_loaded (fuel : Nat) (es : List Expr) (s s1 : St) (code : List Instr) (t : Bool) (hpc : curSize s ≤ s.pc)
    (hload : (runGen (compileBegin (isFnScope { s with trace := [] }) {} es)).run { s with trace := [] } = (.ok (code, t), s1)) :
    runText fuel es s = finishRun ((run fuel).run (loaded s1 code)) := by
  unfold runText
  have hge : s.pc ≥ curSize { s with trace := [] } := hpc
  simp only [hload, hge, if_true, List.append_nil]
  rfl

/-- **One text of the grammar that returns a value**, served by an interpreter that satisfies
the invariants and is at rest: afterwards the invariants hold and the interpreter is at rest. -/
theorem runText_ok (fuel : Nat) (es : List Expr) (s s' : St) (v : String) (tr : List String) (d : String) (alive : Bool)
    (hs : Served s) (hok : okLs es = true) (h : runText fuel es s = (Outcome.done "ok" v tr d, s', alive)) : Served s' := by
  obtain ⟨hw, hm, ⟨hd, hl, ha, hls, hcf, hpc⟩, hsusp⟩ := hs
  obtain ⟨s0, hs0⟩ : ∃ s0 : St, s0 = { s with trace := [] } := ⟨_, rfl⟩
  have hw0 : WF s0 := by
    rw [hs0]
    exact hw.mk' (TExt.same rfl rfl) (fun id h1 h2 => absurd h2 (Nat.not_lt.mpr h1)) hw.loopstack hw.scopes hw.heap hw.lazies hw.data
  rcases hload : (runGen (compileBegin (isFnScope s0) {} es)).run s0 with ⟨r, s1⟩
  cases r with
  | error e =>
    exfalso
    unfold runText at h
    rw [← hs0] at h
    simp only [hload] at h
    have := congrArg (fun x => x.1) h
    simp at this
  | ok ct =>
    obtain ⟨code, t⟩ := ct
    rw [hs0] at hload
    rw [runText_loaded fuel es s s1 code t hpc hload] at h
    rw [← hs0] at hload
    rcases hr : (run fuel).run (loaded s1 code) with ⟨r, s3⟩
    rw [hr] at h
    cases r with
    | error e =>
      exfalso
      cases e <;> (simp only [finishRun] at h; have := congrArg (fun x => x.1) h; simp at this)
    | ok val =>
      simp only [finishRun] at h
      cases h
      obtain ⟨hw1, he1, d1, l1, a1, c1, p1, _, hcode, hids, as, τ, hfrag, h0, hτ, hk, hfr, hb⟩ := load_ok (isFnScope s0) es code t hw0 hok hload
      have hidx : mainFn < s0.fns.length := by have := hw0.two; show 0 < s0.fns.length; omega
      have hfo : fnOf s1 mainFn = fnOf s mainFn := by rw [he1.fnOf mainFn hidx, hs0]; rfl
      have hsz : (szS s).le (szS s1) := by have := he1.sz; rw [hs0] at this; exact this
      obtain ⟨r1, r2, r3, r4, r5, r6, r7, _, r9⟩ := run_loaded code as τ s0.loops.length fuel val s' hw1
        (by rw [d1, hs0]; exact hd) (by rw [a1, hs0]; exact ha) (by rw [hfo]; exact hm.user) (by rw [hfo]; exact hm.code.mono hsz)
        (by rw [hfo, hs0]; exact hm.ids) hids he1.loops_len (by rw [p1, hfo, hs0]; exact hm.pc) hcode hfrag h0 hτ hk hfr hb hr
      refine ⟨r1, r2, ⟨r3, by rw [r4, l1, hs0]; exact hl, r5, r6, r7, ?_⟩, by rw [r9, load_susp _ _ hload, hs0]; exact hsusp⟩
      have hcs : curSize s' = ((fnOf s' mainFn).code.length : Int) := by
        simp [curSize, r7, r2.user]
      rw [hcs, r2.pc]
      exact Int.le_refl _

end ZygoVerif.RunInv
