/-
Lemmas for C11 about string literals: the RFC 8259 string parser reads back what
`jsonQuote` wrote, for every valid UTF-8 content.
-/
import ZygoVerif.Model.Json
namespace ZygoVerif.Proofs.JsonString
open ZygoVerif.Rfc8259 ZygoVerif.Json
open ZygoVerif.Quote (lowerhex)

theorem hexVal_lowerhex (n : Nat) : hexVal? (lowerhex n) = some (n % 16) := by
  unfold lowerhex hexVal?
  split
  · rw [if_pos (by omega)]; congr 1; omega
  · rw [if_neg (by omega), if_neg (by omega), if_pos (by omega)]; congr 1; omega

theorem hex4_ctrl (c : Nat) (h : c < 0x20) (r : Bytes) :
    hex4? (0x30 :: 0x30 :: lowerhex (c / 16) :: lowerhex c :: r) = some (c, r) := by
  have h0 : hexVal? 0x30 = some 0 := by decide
  simp only [hex4?, h0, hexVal_lowerhex]
  congr 2; omega

/-- one ASCII byte written by jsonQuote is read back as that byte, using one unit of fuel -/
theorem parse_quoteByte_ascii (c : Nat) (hc : c < 0x80) (f : Nat) (tail acc : Bytes) :
    parseStrBody (f + 1) (jsonQuoteByte c ++ tail) acc = parseStrBody f tail (acc ++ [c]) := by
  unfold jsonQuoteByte
  split
  · rename_i h
    rcases h with h | h <;> subst h <;> simp [parseStrBody]
  · split
    · rename_i h; subst h; simp [parseStrBody]
    · split
      · rename_i h; subst h; simp [parseStrBody]
      · split
        · rename_i h; subst h; simp [parseStrBody]
        · split
          · rename_i h1 h2 h3 h4 h5
            have hx := hex4_ctrl c h5 tail
            have he : encodeScalar c = [c] := by unfold encodeScalar; rw [if_pos (by omega)]
            simp only [List.cons_append, List.nil_append, parseStrBody]
            simp [hx, he]
            omega
          · rename_i h1 h2 h3 h4 h5
            have hs : scalar? (c :: tail) = some ([c], tail) := by
              simp [scalar?, hc]
            simp only [List.cons_append, List.nil_append, parseStrBody]
            have : ¬ c = 0x22 := by omega
            have : ¬ c = 0x5C := by omega
            simp [*]

/-- what `scalar?` splits off a non-ASCII lead byte: a prefix of bytes ≥ 0x80 that is
recognised again in front of any other continuation -/
theorem scalar_multibyte (b : Nat) (r sc r' : Bytes) (hb : ¬ b < 0x80)
    (h : scalar? (b :: r) = some (sc, r')) :
    b :: r = sc ++ r' ∧ (∀ x ∈ sc, 0x80 ≤ x) ∧ sc ≠ [] ∧ ∀ X, scalar? (sc ++ X) = some (sc, X) := by
  simp only [scalar?, hb, if_false] at h
  split at h
  · rename_i h2
    split at h
    · rename_i b1 r1
      split at h
      · rename_i hc
        simp only [Option.some.injEq, Prod.mk.injEq] at h
        obtain ⟨rfl, rfl⟩ := h
        refine ⟨rfl, ?_, by simp, ?_⟩
        · intro x hx
          simp only [isCont, Bool.and_eq_true, decide_eq_true_eq] at hc
          simp only [List.mem_cons, List.not_mem_nil, or_false] at hx
          rcases hx with rfl | rfl <;> omega
        · intro X
          simp [scalar?, hb, h2, hc]
      · cases h
    · cases h
  · rename_i h2
    split at h
    · rename_i h3
      split at h
      · rename_i b1 b2 r1
        split at h
        · rename_i hc
          simp only [Option.some.injEq, Prod.mk.injEq] at h
          obtain ⟨rfl, rfl⟩ := h
          refine ⟨rfl, ?_, by simp, ?_⟩
          · intro x hx
            simp only [isCont, Bool.and_eq_true, decide_eq_true_eq] at hc
            simp only [List.mem_cons, List.not_mem_nil, or_false] at hx
            rcases hx with rfl | rfl | rfl <;> omega
          · intro X
            simp [scalar?, hb, h2, h3, hc.1, hc.2.1]; exact hc.2.2
        · cases h
      · cases h
    · rename_i h3
      split at h
      · rename_i h4
        split at h
        · rename_i b1 b2 b3 r1
          split at h
          · rename_i hc
            simp only [Option.some.injEq, Prod.mk.injEq] at h
            obtain ⟨rfl, rfl⟩ := h
            refine ⟨rfl, ?_, by simp, ?_⟩
            · intro x hx
              simp only [isCont, Bool.and_eq_true, decide_eq_true_eq] at hc
              simp only [List.mem_cons, List.not_mem_nil, or_false] at hx
              rcases hx with rfl | rfl | rfl | rfl <;> omega
            · intro X
              simp [scalar?, hb, h2, h3, h4, hc.1, hc.2.1, hc.2.2.1]; exact hc.2.2.2
          · cases h
        · cases h
      · cases h

theorem quoteByte_high (x : Nat) (h : 0x80 ≤ x) : jsonQuoteByte x = [x] := by
  unfold jsonQuoteByte
  rw [if_neg (by omega), if_neg (by omega), if_neg (by omega), if_neg (by omega), if_neg (by omega)]

theorem quoteBody_append (a b : Bytes) : jsonQuoteBody (a ++ b) = jsonQuoteBody a ++ jsonQuoteBody b := by
  induction a with
  | nil => rfl
  | cons x a ih => simp [jsonQuoteBody, ih]

theorem quoteBody_high (sc : Bytes) (h : ∀ x ∈ sc, 0x80 ≤ x) : jsonQuoteBody sc = sc := by
  induction sc with
  | nil => rfl
  | cons x a ih =>
    simp only [jsonQuoteBody, quoteByte_high x (h x (by simp))]
    rw [ih (fun y hy => h y (by simp [hy]))]; rfl

/-- a raw multi-byte scalar is copied by the string parser, using one unit of fuel -/
theorem parse_scalar_high (sc : Bytes) (hne : sc ≠ []) (hhi : ∀ x ∈ sc, 0x80 ≤ x)
    (hs : ∀ X, scalar? (sc ++ X) = some (sc, X)) (f : Nat) (tail acc : Bytes) :
    parseStrBody (f + 1) (sc ++ tail) acc = parseStrBody f tail (acc ++ sc) := by
  cases sc with
  | nil => exact absurd rfl hne
  | cons b r =>
    have hb : 0x80 ≤ b := hhi b (by simp)
    have h := hs tail
    simp only [List.cons_append] at h ⊢
    simp only [parseStrBody]
    rw [if_neg (by omega), if_neg (by omega), if_neg (by omega)]
    simp only [h]

theorem quoteBody_length (s : Bytes) : s.length ≤ (jsonQuoteBody s).length := by
  induction s with
  | nil => simp [jsonQuoteBody]
  | cons x a ih =>
    simp only [jsonQuoteBody, List.length_append, List.length_cons]
    have : 1 ≤ (jsonQuoteByte x).length := by
      unfold jsonQuoteByte; repeat' split
      all_goals simp
    omega

/-- The string parser reads back the body written by `jsonQuote`, for valid UTF-8. -/
theorem parse_quoteBody : ∀ (k : Nat) (s : Bytes), validUtf8Fuel k s = true →
    ∀ (f : Nat), k ≤ f → ∀ (acc rest : Bytes),
    parseStrBody (f + 1) (jsonQuoteBody s ++ 0x22 :: rest) acc = some (acc ++ s, rest) := by
  intro k
  induction k with
  | zero =>
    intro s hv f _ acc rest
    cases s with
    | nil => simp [jsonQuoteBody, parseStrBody]
    | cons b r => simp [validUtf8Fuel] at hv
  | succ k ih =>
    intro s hv f hf acc rest
    cases s with
    | nil => simp [jsonQuoteBody, parseStrBody]
    | cons b r =>
      obtain ⟨f', rfl⟩ : ∃ f', f = f' + 1 := ⟨f - 1, by omega⟩
      simp only [validUtf8Fuel] at hv
      split at hv
      · rename_i sc r' hsc
        by_cases hb : b < 0x80
        · have : sc = [b] ∧ r' = r := by
            simp [scalar?, hb] at hsc; exact ⟨hsc.1.symm, hsc.2.symm⟩
          obtain ⟨rfl, rfl⟩ := this
          simp only [jsonQuoteBody, List.append_assoc]
          rw [parse_quoteByte_ascii b hb]
          rw [ih r' hv f' (by omega)]
          simp
        · obtain ⟨hsplit, hhi, hne, hs⟩ := scalar_multibyte b r sc r' hb hsc
          rw [hsplit, quoteBody_append, quoteBody_high sc hhi, List.append_assoc]
          rw [parse_scalar_high sc hne hhi hs]
          rw [ih r' hv f' (by omega)]
          simp
      · cases hv

/-- `jsonQuote s` followed by anything parses as the string `s` (valid UTF-8 content). -/
theorem parseString_quote (s rest : Bytes) (hv : validUtf8 s = true) :
    parseString (jsonQuoteBody s ++ 0x22 :: rest) = some (s, rest) := by
  unfold parseString
  have hl := quoteBody_length s
  obtain ⟨f, hf⟩ : ∃ f, (jsonQuoteBody s ++ 0x22 :: rest).length = f + 1 := ⟨_, by simp; rfl⟩
  rw [hf]
  have : s.length ≤ f := by simp at hf; omega
  have := parse_quoteBody s.length s hv f this [] rest
  simpa using this

end ZygoVerif.Proofs.JsonString
