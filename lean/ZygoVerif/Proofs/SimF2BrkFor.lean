/-
C02, execution half — F2 with `break`/`continue`: the `for` form, the expression step.
-/
import ZygoVerif.Proofs.SimF2Brk
set_option linter.unusedSimpArgs false
set_option linter.unusedVariables false
namespace ZygoVerif.Sim
open ZygoVerif.Core ZygoVerif.VM

/-- **A `for` loop whose body may `break`/`continue`** (this loop or an enclosing one). -/
theorem xclaimE_for {n : Nat} (hFE : FClaimE n) (hF : XClaimF n) {ls : List (Option String)} {label : Option String}
    {init test incr : Expr} {body : List Expr} (hinit : Ff true self init = true) (htest : Ff true self test = true)
    (hincr : Ff true self incr = true) (hbody : FxList (label :: ls) self body = true) (isFn : Nat → Bool) (c : Ctx) (gs : GS)
    (r : (List Instr × Bool) × GS)
    (hc : (compile isFn c (.for_ label init test incr body)).run gs = .ok r) (hfn : FnameOk self c)
    (Γ : List LCtx) (hls : Γ.map (·.label) = ls) (hg : GsOk Γ gs)
    (m : Nat → Nat) (s : St) (rs : Ref.St) (env : Nat) (pre post : List Instr) (hrel : RelF m s rs env)
    (hgen : GenOk gs r.2 s) (hctx : CtxF Γ c.scopes s rs) (hlf : LoopsFinal r.2 s)
    (hlo : LsOut pre gs.loops.length r.2.loops.length) (hseg : Seg s pre r.1.1 post) :
    SimX r.1.1 Γ m s rs env (Ref.eval (n + 1) (.for_ label init test incr body) env rs) := by
  rw [compile_for_eq] at hc
  cases hb : (compileBegin isFn { c with tail := false, scopes := c.scopes + 1 } body).run (forGs gs c label) with
  | error e => rw [hb] at hc; cases hc
  | ok vb =>
  obtain ⟨rb, g2⟩ := vb
  rw [hb] at hc; simp only at hc
  cases hi : (compile isFn { c with tail := false, scopes := c.scopes + 1 } init).run g2 with
  | error e => rw [hi] at hc; cases hc
  | ok vi =>
  obtain ⟨ri, g3⟩ := vi
  rw [hi] at hc; simp only at hc
  cases ht : (compile isFn { c with tail := false, scopes := c.scopes + 1 } test).run g3 with
  | error e => rw [ht] at hc; cases hc
  | ok vt =>
  obtain ⟨rt, g4⟩ := vt
  rw [ht] at hc; simp only at hc
  cases hs : (compile isFn { c with tail := false, scopes := c.scopes + 1 } incr).run g4 with
  | error e => rw [hs] at hc; cases hc
  | ok vs =>
  obtain ⟨rsn, g5⟩ := vs
  rw [hs] at hc; simp only at hc
  injection hc with hc
  subst hc
  simp only at hseg hgen hlf hlo ⊢
  have hfn' : FnameOk self { c with tail := false, scopes := c.scopes + 1 } := hfn
  have hfnok : FnameOk self { c with tail := false, scopes := c.scopes + 1 } := hfn
  -- the loop's context record
  generalize hγ : forCtx gs.loops.length label c.scopes pre.length
    (pre.length + ri.1.length + rsn.1.length + rt.1.length + rb.1.length + 14) (pre.length + ri.1.length + 6)
    (some s.scopes.length :: s.linear) rs.frames.length s.data = γ₀
  have hγid : γ₀.id = gs.loops.length := by subst hγ; rfl
  have hγlab : γ₀.label = label := by subst hγ; rfl
  have hγdep : γ₀.depth = c.scopes := by subst hγ; rfl
  have hγst : γ₀.start = pre.length := by subst hγ; rfl
  have hγbrk : γ₀.brkPos = ((pre.length + ri.1.length + rsn.1.length + rt.1.length + rb.1.length + 14 : Nat) : Int) := by
    subst hγ; rfl
  have hγcont : γ₀.contPos = ((pre.length + ri.1.length + 6 : Nat) : Int) := by subst hγ; rfl
  have hγlin : γ₀.lin = some s.scopes.length :: s.linear := by subst hγ; rfl
  have hγfr : γ₀.fr = rs.frames.length := by subst hγ; rfl
  have hγD : γ₀.D = s.data := by subst hγ; rfl
  have hg' : GsOk (γ₀ :: Γ) (forGs gs c label) := hg.for_ c label γ₀ hγid hγlab hγdep
  have hls' : (γ₀ :: Γ).map (·.label) = label :: ls := by simp [hls, hγlab]
  have totb := compileBeginAny_tot_Fx hbody hfn' hg' hls' hb
  have toti := compile_tot_Ff hinit hfn' hi
  have tott := compile_tot_Ff htest hfn' ht
  have tots := compile_tot_Ff hincr hfn' hs
  have lb : gs.loops.length + 1 ≤ g2.loops.length := by have := totb.2.1; rw [forGs_len] at this; exact this
  have li : g2.loops.length ≤ g3.loops.length := toti.2.1
  have lt : g3.loops.length ≤ g4.loops.length := tott.2.1
  have lsn : g4.loops.length ≤ g5.loops.length := tots.2.1
  simp only [forDone_len] at hlo
  -- the templates of the four parts
  have hg0 : GenOk (forGs gs c label) g5 s := ⟨hgen.live, hgen.main, hgen.len, hgen.tmpl,
    hgen.loops.for_body (((totb.1.trans toti.1).trans tott.1).trans tots.1) (KeepFns.refl g5)⟩
  have hgb : GenOk (forGs gs c label) g2 s := hg0.first ((toti.1.trans tott.1).trans tots.1)
  have hgi : GenOk g2 g3 s := (hg0.rest totb.1).first (tott.1.trans tots.1)
  have hgt : GenOk g3 g4 s := (hg0.rest (totb.1.trans toti.1)).first tots.1
  have hgs : GenOk g4 g5 s := hg0.rest ((totb.1.trans toti.1).trans tott.1)
  -- the loop record
  have hLlt : gs.loops.length < g5.loops.length := by omega
  have hnotin : gs.loops.length ∉ gs.loopstack := by
    rw [hg.stack]
    intro hmem
    obtain ⟨γ, hγm, hid⟩ := List.mem_map.mp hmem
    have := (hg.recs γ hγm).1
    omega
  have hst5 : g5.loopstack.drop 1 = gs.loopstack := by
    rw [((totb.1.trans toti.1).trans (tott.1.trans tots.1)).loopstack]; rfl
  have hrec := hlf.2 gs.loops.length (by rw [forDone_len]; exact hLlt) (by show gs.loops.length ∉ g5.loopstack.drop 1; rw [hst5]; exact hnotin)
  have hoffs := asmFor_offs gs.loops.length ri.1 rt.1 rsn.1 rb.1
  have hself := forDone_getD_self g5 gs.loops.length
    (asmFor gs.loops.length (ri.1 ++ [.popUntilMark gs.loops.length]) rt.1
      (rsn.1 ++ [.popUntilMark gs.loops.length]) (rb.1 ++ [.popUntilMark gs.loops.length])).2.1
    (asmFor gs.loops.length (ri.1 ++ [.popUntilMark gs.loops.length]) rt.1
      (rsn.1 ++ [.popUntilMark gs.loops.length]) (rb.1 ++ [.popUntilMark gs.loops.length])).2.2 hLlt
  have hLs : gs.loops.length < s.loops.length := Nat.lt_of_lt_of_le (by rw [forDone_len]; exact hLlt) hlf.1
  have hlf2 : LoopsFinal g2 s := hlf.for_body totb.1 ((toti.1.trans tott.1).trans tots.1)
  -- the function laid out
  have hin : InFn s (forFull pre post gs.loops.length ri.1 rt.1 rsn.1 rb.1) := by
    have := hseg.inFn; rw [forFull_eq] at this; exact this
  have hpc : s.pc = (pre.length : Int) := hseg.pc
  have hstart : findLoopStart (fnOf s s.curfunc).code gs.loops.length = some pre.length := by
    rw [hin.code]
    have : forFull pre post gs.loops.length ri.1 rt.1 rsn.1 rb.1 = pre ++ Instr.loopStart gs.loops.length ::
        ([.addScope, .pushMark gs.loops.length, .label] ++ ri.1 ++ fMid gs.loops.length rsn.1 ++ rsn.1
          ++ [.popUntilMark gs.loops.length, .label] ++ rt.1 ++ fBr rb.1 ++ rb.1 ++ fTl gs.loops.length rsn.1 rt.1 rb.1 ++ post) := by
      simp [forFull]
    rw [this]
    exact findLoopStart_at hlo (Nat.le_refl _) hLlt
  rw [Ref.eval]
  show SimX _ Γ m s rs env
    (match Ref.eval n init rs.frames.length (Ref.newFrame rs env).2 with
     | .ok _ s' => Ref.loop n label test incr body rs.frames.length s'
     | .brk l s' => if l.isNone ∨ l = label then .ok .nil s' else .brk l s'
     | r => r)
  -- loopStart, addScope, pushMark, label
  have a0 : At s pre (.loopStart gs.loops.length) ([.addScope, .pushMark gs.loops.length, .label] ++ ri.1
      ++ fMid gs.loops.length rsn.1 ++ rsn.1 ++ [.popUntilMark gs.loops.length, .label] ++ rt.1 ++ fBr rb.1 ++ rb.1
      ++ fTl gs.loops.length rsn.1 rt.1 rb.1 ++ post) := hin.at (by simp [forFull]) hpc
  have r0 : ReachX s (s.jmp (s.pc + 1) s.data) := (Reach.step a0 (fun f => exec_loopStart f _ s)).toX
  have a1 : At (s.jmp (s.pc + 1) s.data) (pre ++ [.loopStart gs.loops.length]) .addScope
      ([.pushMark gs.loops.length, .label] ++ ri.1
      ++ fMid gs.loops.length rsn.1 ++ rsn.1 ++ [.popUntilMark gs.loops.length, .label] ++ rt.1 ++ fBr rb.1 ++ rb.1
      ++ fTl gs.loops.length rsn.1 rt.1 rb.1 ++ post) :=
    (hin.of_fn (σ' := s.jmp (s.pc + 1) s.data) rfl).at (by simp [forFull]) (by rw [St.jmp_pc, hpc]; simp)
  have r1 : ReachX (s.jmp (s.pc + 1) s.data) (s.jmp (s.pc + 1) s.data).pushScope :=
    (Reach.step a1 (fun f => exec_addScope f _)).toX
  have rel2' : RelF m (s.jmp (s.pc + 1) s.data).pushScope (Ref.newFrame rs env).2 rs.frames.length := (hrel.jmp _ _).pushScope
  generalize hs2 : (s.jmp (s.pc + 1) s.data).pushScope = s2 at r1 rel2'
  have hin2 : InFn s2 (forFull pre post gs.loops.length ri.1 rt.1 rsn.1 rb.1) := by subst hs2; exact hin.of_fn rfl
  have hpc2 : s2.pc = ((pre.length + 2 : Nat) : Int) := by
    subst hs2; show s.pc + 1 + 1 = _; rw [hpc]; push_cast; omega
  have hd2 : s2.data = s.data := by subst hs2; rfl
  have hfr2 : FrameF s.pushScope s2 := by
    subst hs2; exact ⟨⟨rfl, rfl, rfl, rfl, Nat.le_refl _, fun _ _ => rfl, Nat.le_refl _, fun _ _ => rfl⟩, Nat.le_refl _, fun _ _ => rfl⟩
  have hfn2 : fnOf s2 s2.curfunc = fnOf s s.curfunc := by subst hs2; rfl
  have hfns2 : s2.fns = s.fns := by subst hs2; rfl
  have a2 : At s2 (pre ++ [.loopStart gs.loops.length, .addScope]) (.pushMark gs.loops.length) ([.label] ++ ri.1
      ++ fMid gs.loops.length rsn.1 ++ rsn.1 ++ [.popUntilMark gs.loops.length, .label] ++ rt.1 ++ fBr rb.1 ++ rb.1
      ++ fTl gs.loops.length rsn.1 rt.1 rb.1 ++ post) := hin2.at (by simp [forFull]) (by rw [hpc2]; simp)
  have r2 := (Reach.step a2 (fun f => exec_pushMark f gs.loops.length s2)).toX
  have a3 : At (s2.jmp (s2.pc + 1) (some (.mark gs.loops.length) :: s2.data))
      (pre ++ [.loopStart gs.loops.length, .addScope, .pushMark gs.loops.length]) .label (ri.1
      ++ fMid gs.loops.length rsn.1 ++ rsn.1 ++ [.popUntilMark gs.loops.length, .label] ++ rt.1 ++ fBr rb.1 ++ rb.1
      ++ fTl gs.loops.length rsn.1 rt.1 rb.1 ++ post) :=
    (hin2.of_fn (σ' := s2.jmp (s2.pc + 1) (some (.mark gs.loops.length) :: s2.data)) rfl).at (by simp [forFull])
      (by rw [St.jmp_pc, hpc2]; simp; omega)
  have r3 := reachX_label a3
  generalize hs4 : ((s2.jmp (s2.pc + 1) (some (.mark gs.loops.length) :: s2.data)).jmp
    ((s2.jmp (s2.pc + 1) (some (.mark gs.loops.length) :: s2.data)).pc + 1)
    (s2.jmp (s2.pc + 1) (some (.mark gs.loops.length) :: s2.data)).data) = s4 at r3
  have hin4 : InFn s4 (forFull pre post gs.loops.length ri.1 rt.1 rsn.1 rb.1) := by subst hs4; exact hin2.of_fn rfl
  have hpc4 : s4.pc = ((pre.length + 4 : Nat) : Int) := by
    subst hs4; simp only [St.jmp_pc, hpc2]; push_cast; omega
  have hd4 : s4.data = some (.mark gs.loops.length) :: s.data := by subst hs4; rw [St.jmp_data, St.jmp_data, hd2]
  have rel4 : RelF m s4 (Ref.newFrame rs env).2 rs.frames.length := by subst hs4; exact (rel2'.jmp _ _).jmp _ _
  have hfr24 : FrameF s2 s4 := by subst hs4; exact (FrameF.jmp _ _ _).trans (FrameF.jmp _ _ _)
  have hfn4 : fnOf s4 s4.curfunc = fnOf s s.curfunc := by subst hs4; exact hfn2
  have hfns4 : s4.fns = s.fns := by subst hs4; exact hfns2
  have hk04 : FnsKeep s s4 := FnsKeep.of_fns_eq hfns4 ⟨Nat.le_trans hfr2.loopsLen hfr24.loopsLen, fun id hid =>
    (hfr24.loops id (Nat.lt_of_lt_of_le hid hfr2.loopsLen)).trans (hfr2.loops id hid)⟩
  have hreach4 : ReachX s s4 := ((r0.trans r1).trans r2).trans r3
  have hnl04 : FrameNL s s4 := (FrameNL.pushScope s).trans (hfr2.trans hfr24).toNL
  -- the initialiser
  have hseg4 : Seg s4 (pre ++ fHd gs.loops.length) ri.1 (fMid gs.loops.length rsn.1 ++ rsn.1
      ++ [.popUntilMark gs.loops.length, .label] ++ rt.1 ++ fBr rb.1 ++ rb.1
      ++ fTl gs.loops.length rsn.1 rt.1 rb.1 ++ post) := hin4.seg (by simp [forFull]) (by rw [hpc4]; simp)
  have ih4 := hFE true self init hinit isFn _ g2 (ri, g3) hi hfnok m s4 _ _ _ _ rel4 (fun _ => hgi.mono hk04) hseg4
  have hs4' := seg_pumF hin4 (P := pre ++ fHd gs.loops.length) (c := ri.1)
    (Q := [.jump ((rsn.1.length : Int) + 3), .label] ++ rsn.1 ++ [.popUntilMark gs.loops.length, .label] ++ rt.1
      ++ fBr rb.1 ++ rb.1 ++ fTl gs.loops.length rsn.1 rt.1 rb.1 ++ post) (by simp [forFull]) (by rw [hpc4]; simp) hd4 ih4
  have hlen : (forCode gs.loops.length ri.1 rt.1 rsn.1 rb.1).length
      = ri.1.length + rt.1.length + rsn.1.length + rb.1.length + 17 := by
    rw [forCode_eq]; simp only [List.length_append, List.length_cons, List.length_nil]; omega
  cases h1 : Ref.eval n init rs.frames.length (Ref.newFrame rs env).2 with
  | ok vi rs2 =>
    rw [h1] at hs4'
    obtain ⟨s6, m6, r6, hpc6, hd6, hfn6, rel6, hm6, ext6, fr6⟩ := hs4'
    simp only
    have hin6 : InFn s6 (forFull pre post gs.loops.length ri.1 rt.1 rsn.1 rb.1) := hin4.of_fn hfn6
    have hpc6' : s6.pc = ((pre.length + ri.1.length + 5 : Nat) : Int) := by rw [hpc6, hpc4]; push_cast; omega
    have a6 : At s6 (pre ++ fHd gs.loops.length ++ ri.1 ++ [.popUntilMark gs.loops.length])
        (.jump ((rsn.1.length : Int) + 3)) ([.label] ++ rsn.1 ++ [.popUntilMark gs.loops.length, .label] ++ rt.1
        ++ fBr rb.1 ++ rb.1 ++ fTl gs.loops.length rsn.1 rt.1 rb.1 ++ post) :=
      hin6.at (by simp [forFull]) (by rw [hpc6']; simp; omega)
    have r7 := (reach_jump a6 (by rw [hpc6']; push_cast; omega)
      (by rw [hpc6']; simp only [List.length_append, List.length_cons, List.length_nil]; push_cast; omega)).toX
    generalize hs7 : s6.jmp (s6.pc + ((rsn.1.length : Int) + 3)) s6.data = s7 at r7
    have hin7 : InFn s7 (forFull pre post gs.loops.length ri.1 rt.1 rsn.1 rb.1) := by subst hs7; exact hin6.of_fn rfl
    have hpc7 : s7.pc = ((pre.length + ri.1.length + rsn.1.length + 8 : Nat) : Int) := by
      subst hs7; rw [St.jmp_pc, hpc6']; push_cast; omega
    have hd7 : s7.data = some (.mark gs.loops.length) :: s.data := by subst hs7; exact hd6
    have rel7 : RelF m6 s7 rs2 rs.frames.length := by subst hs7; exact rel6.jmp _ _
    have hfr47 : FrameF s4 s7 := by subst hs7; exact fr6.trans (FrameF.jmp _ _ _)
    have hfn7 : fnOf s7 s7.curfunc = fnOf s s.curfunc := by subst hs7; exact hfn6.trans hfn4
    have hfrin7 : FrameF s.pushScope s7 := (hfr2.trans hfr24).trans hfr47
    have hlin7 : s7.linear = some s.scopes.length :: s.linear := hfrin7.linear
    have hnl07 : FrameNL s s7 := hnl04.trans hfr47.toNL
    have hext07 : RExt rs rs2 := RExt.trans ⟨FramesExt.newFrame rs env, fun _ _ hc => hc⟩ ext6
    have hreach7 : ReachX s s7 := (hreach4.trans r6).trans r7
    have hm06 : MExt s m m6 := fun id hid => hm6 id (by rw [hfns4]; exact hid)
    -- the loop contexts inside the loop
    have hctx7 : CtxF (γ₀ :: Γ) (c.scopes + 1) s7 rs2 := by
      intro γ hmem
      rcases List.mem_cons.mp hmem with rfl | hmem
      · obtain ⟨k, hch, hfc⟩ := rel7.ctx
        refine ⟨by rw [hγid]; exact Nat.lt_of_lt_of_le hLs hnl07.loopsLen, by rw [hfn7, hγid, hγst]; exact hstart, ?_, ?_,
          ⟨[], by rw [hγlin]; exact hlin7, by rw [hγdep]; simp⟩, ?_, ⟨k, ?_, ?_⟩, by rw [hγlin, ← hlin7]; exact rel7.bottom,
          ⟨[], by rw [hγid, hγD]; exact hd7, GoodAbove.nil _⟩⟩
        · rw [hγid, hγst, hγbrk, hnl07.loops _ hLs, hrec, hself.1, hoffs.1]; push_cast; omega
        · rw [hγid, hγst, hγcont, hnl07.loops _ hLs, hrec, hself.2, hoffs.2]; push_cast; omega
        · rw [hγfr, rel7.len]; exact hch.lt
        · rw [hγfr, hγlin, ← hlin7]; exact hch
        · rw [hγlin, ← hlin7]; exact hfc
      · exact hctx.after_nl hfn7 hnl07 hext07 ⟨[some s.scopes.length], hlin7, by simp; omega⟩
          ⟨[some (.mark gs.loops.length)], hd7, fun γ' h' => goodAbove_mark (by have := (hg.recs γ' h').1; omega)⟩ γ hmem
    have hlo7 : LsOut (pre ++ fHd γ₀.id ++ ri.1 ++ fMid γ₀.id rsn.1 ++ rsn.1 ++ [.popUntilMark γ₀.id, .label] ++ rt.1 ++ fBr rb.1)
        (forGs gs c label).loops.length g2.loops.length := by
      rw [hγid, forGs_len]
      exact (((((((hlo.mono (Nat.le_succ _) (by omega)).app (lsOut_fHd (Nat.lt_succ_self _))).app
        (toti.2.2.above (Nat.le_refl _))).app (lsOut_fMid _ _ _ _)).app (tots.2.2.above (by omega))).app
        (lsOut_pl _ _ _)).app (tott.2.2.above li)).app (lsOut_fBr _ _ _)
    have hk07 : FnsKeep s s7 := by
      obtain ⟨k0, _, hfc0⟩ := hrel.ctx
      exact FnsKeep.of_nl hnl07 (fns_ne_nil_of_lt hfc0.lt)
    have hloop := hF ls self label test incr body htest hincr hbody isFn _ hfn' _ rb g2 _ rt g4 _ rsn g5 hb ht hs Γ γ₀ hls hγlab hg'
      ri.1 pre post m6 s7 rs2 (by rw [hγid]; exact hin7) hpc7 (by rw [hγid, hγD]; exact hd7) (by rw [hγlin]; exact hlin7)
      (by rw [hγfr]; exact rel7) ⟨hgb.mono hk07, hgt.mono hk07, hgs.mono hk07⟩ hctx7
      ⟨Nat.le_trans hlf2.1 hnl07.loopsLen, fun id h1 h2 => by
        rw [hnl07.loops id (Nat.lt_of_lt_of_le h1 hlf2.1)]; exact hlf2.2 id h1 h2⟩
      hlo7 hγbrk hγcont
    rw [hγfr, hγid, hγD] at hloop
    cases h2 : Ref.loop n label test incr body rs.frames.length rs2 with
    | ok v rs3 =>
      rw [h2] at hloop
      obtain ⟨s8, m8, G, r8, hpc8, hd8, hG8, hfn8, rel8, hm8, ext8, fr8⟩ := hloop
      have hv : v = .nil := ref_loop_nil _ _ _ _ _ _ _ _ _ h2
      subst hv
      have hin8 : InFn s8 (forFull pre post gs.loops.length ri.1 rt.1 rsn.1 rb.1) := hin7.of_fn hfn8
      rw [hγbrk] at hpc8
      -- clearMark, removeScope, push nil
      have a9 : At s8 (pre ++ fHd gs.loops.length ++ ri.1 ++ fMid gs.loops.length rsn.1 ++ rsn.1
          ++ [.popUntilMark gs.loops.length, .label] ++ rt.1 ++ fBr rb.1 ++ rb.1
          ++ [.popUntilMark gs.loops.length, .jump (-((rsn.1.length : Int) + rt.1.length + rb.1.length + 6)), .label])
          (.clearMark gs.loops.length) ([.removeScope, .push .nil] ++ post) :=
        hin8.at (by simp [forFull]) (by rw [hpc8]; simp; omega)
      have r10 := (Reach.step a9 (fun f => exec_clearMark_good f gs.loops.length s8 G s.data hd8 hG8)).toX
      generalize hs10 : s8.jmp (s8.pc + 1) s.data = s10 at r10
      have hin10 : InFn s10 (forFull pre post gs.loops.length ri.1 rt.1 rsn.1 rb.1) := by subst hs10; exact hin8.of_fn rfl
      have hpc10 : s10.pc = ((pre.length + ri.1.length + rsn.1.length + rt.1.length + rb.1.length + 15 : Nat) : Int) := by
        subst hs10; simp only [St.jmp_pc, hpc8]; push_cast; omega
      have rel10 : RelF m8 s10 rs3 rs.frames.length := by subst hs10; exact rel8.jmp _ _
      have hfr8_10 : FrameF s8 s10 := by subst hs10; exact FrameF.jmp _ _ _
      have hd10 : s10.data = s.data := by subst hs10; rfl
      have hfn10 : fnOf s10 s10.curfunc = fnOf s s.curfunc := by
        subst hs10; exact (hfn8.trans hfn7)
      have hfr_in : FrameF s.pushScope s10 := (hfrin7.trans fr8).trans hfr8_10
      have hlin10 : s10.linear = some s.scopes.length :: s.linear := hfr_in.linear
      have a10 : At s10 (pre ++ fHd gs.loops.length ++ ri.1 ++ fMid gs.loops.length rsn.1 ++ rsn.1
          ++ [.popUntilMark gs.loops.length, .label] ++ rt.1 ++ fBr rb.1 ++ rb.1
          ++ [.popUntilMark gs.loops.length, .jump (-((rsn.1.length : Int) + rt.1.length + rb.1.length + 6)), .label,
              .clearMark gs.loops.length]) .removeScope ([.push .nil] ++ post) :=
        hin10.at (by simp [forFull]) (by rw [hpc10]; simp; omega)
      have r11 : ReachX s10 s10.popScope := (Reach.step a10 (fun f => by
        rw [exec_removeScope, hlin10]
        show _ = (Except.ok (), { s10 with pc := s10.pc + 1, linear := s10.linear.tail })
        rw [hlin10]; rfl)).toX
      have a11 : At s10.popScope (pre ++ fHd gs.loops.length ++ ri.1 ++ fMid gs.loops.length rsn.1 ++ rsn.1
          ++ [.popUntilMark gs.loops.length, .label] ++ rt.1 ++ fBr rb.1 ++ rb.1
          ++ [.popUntilMark gs.loops.length, .jump (-((rsn.1.length : Int) + rt.1.length + rb.1.length + 6)), .label,
              .clearMark gs.loops.length, .removeScope]) (.push .nil) post :=
        (hin10.of_fn (σ' := s10.popScope) rfl).at (by simp [forFull])
          (by show s10.pc + 1 = _; rw [hpc10]; simp; omega)
      have r12 := reach_push a11 |>.toX
      -- the relation after the loop
      have hflags : ∀ i, i < s.scopes.length → isFnScope s10 i = isFnScope s i := fun i hi => by
        rw [hfr_in.flags i (by show i < (s.scopes ++ [_]).length; simp; omega), isFnScope_pushScope, if_pos hi]
      have hfl : s.fns.length ≤ s10.fns.length := hfr_in.fnsLen
      have hfo : ∀ id, id < s.fns.length → fnOf s10 id = fnOf s id := fun id hid => hfr_in.fns id hid
      have hext : FramesExt rs rs3 := (hext07.trans ext8).1
      have hframe : FrameF s s10.popScope :=
        ⟨⟨by show s10.linear.tail = _; rw [hlin10]; rfl, hfr_in.curfunc, hfr_in.addr, hfr_in.susp, hfl, hfo, hfr_in.loopsLen,
          hfr_in.loops⟩, Nat.le_trans (by show s.scopes.length ≤ (s.scopes ++ [_]).length; simp) hfr_in.scLen, hflags⟩
      have hm08 : MExt s m m8 := hm06.trans hm8 hnl07.fnsLen
      refine ⟨_, m8, .nil, ((((hreach7.trans r8).trans r10).trans r11).trans r12), ⟨hfn10, ?_, ?_⟩, rfl,
        (hrel.back (s₅ := s10.popScope) rel10 rfl rfl rfl rfl (by show s10.linear.tail = _; rw [hlin10]; rfl) hfr_in.curfunc
          hflags hfl hfo hext ⟨hfr_in.loopsLen, hfr_in.loops⟩).jmp _ _, hm08, hext07.trans ext8, hframe.trans (FrameF.jmp _ _ _),
        vOk_lit .nil (fun _ _ _ => rfl)⟩
      · show s10.pc + 1 + 1 = _
        rw [hpc10, hpc, hlen]; push_cast; omega
      · show some Val.nil :: s10.data = _
        rw [hd10]
    | err rs3 => rw [h2] at hloop; exact FailsX.of_reach hreach7 hloop
    | timeout => trivial
    | brk l rs3 =>
      rw [h2] at hloop
      obtain ⟨γ, hγ', hj⟩ := hloop
      exact ⟨γ, hγ', JumpedB.of_reach hreach7 hfn7 hm06 hext07 hnl07
        (JumpedB.rebase (X₀ := [some (.mark gs.loops.length)]) hj
          (fun γ' h' => goodAbove_mark (by have := (hg.recs γ' h').1; omega)))⟩
    | cont l rs3 =>
      rw [h2] at hloop
      obtain ⟨γ, hγ', hj⟩ := hloop
      exact ⟨γ, hγ', JumpedB.of_reach hreach7 hfn7 hm06 hext07 hnl07
        (JumpedB.rebase (X₀ := [some (.mark gs.loops.length)]) hj
          (fun γ' h' => goodAbove_mark (by have := (hg.recs γ' h').1; omega)))⟩
  | err rs2 => rw [h1] at hs4'; exact FailsX.of_reach hreach4 hs4'
  | timeout => trivial
  | brk l rs2 => rw [h1] at hs4'; exact hs4'.elim
  | cont l rs2 => rw [h1] at hs4'; exact hs4'.elim

theorem LoopsFinal.nl {gs' : GS} {s s' : St} (h : LoopsFinal gs' s) (hf : FrameNL s s') : LoopsFinal gs' s' :=
  ⟨Nat.le_trans h.1 hf.loopsLen, fun id h1 h2 => by
    rw [hf.loops id (Nat.lt_of_lt_of_le h1 h.1)]; exact h.2 id h1 h2⟩

theorem xclaimE_succ {n : Nat} (hFE1 : FClaimE (n + 1)) (hFE : FClaimE n) (hL : FClaimL n) (hP : FClaimP n)
    (hE : XClaimE n) (hB : XClaimB n) (hC : XClaimC n) (hN : XClaimN n) (hF : XClaimF n) : XClaimE (n + 1) := by
  intro ls self e he isFn c gs r hc hfn Γ hls hg m s rs env pre post hrel hgen hctx hlf hlo hseg
  have hfnok : FnameOk self c := hfn
  have hff : Ff true self e = true → SimX r.1.1 Γ m s rs env (Ref.eval (n + 1) e env rs) := fun h =>
    (hFE1 true self e h isFn c gs r hc hfnok m s rs env pre post hrel (fun _ => hgen) hseg).toX
  cases e with
  | break_ l =>
    rw [Fx] at he
    obtain ⟨γ, hγ, hmem⟩ := findCtx_ok hls he
    rw [compile_brk_eq hg hγ hmem] at hc
    injection hc with hc; subst hc
    rw [Ref.eval]
    exact simX_brk hγ hmem hctx hrel hseg
  | continue_ l =>
    rw [Fx] at he
    obtain ⟨γ, hγ, hmem⟩ := findCtx_ok hls he
    rw [compile_cont_eq hg hγ hmem] at hc
    injection hc with hc; subst hc
    rw [Ref.eval]
    exact simX_cont hγ hmem hctx hrel hseg
  | begin_ es =>
    rw [Fx] at he
    cases es with
    | nil => exact hff (by simp [Ff, FfList])
    | cons e0 es0 =>
      rw [compile] at hc
      · rw [Ref.eval]
        exact hB ls self (e0 :: es0) (by simp) he isFn c gs r hc hfn Γ hls hg m s rs env pre post hrel hgen hctx hlf hlo hseg
      · intro hh; cases hh
  | cond arms d =>
    rw [Fx] at he
    simp only [Bool.and_eq_true] at he
    rw [compile] at hc
    simp only [g_bind_ok, g_pure_ok] at hc
    obtain ⟨rd, gs1, hd, as, gs2, has, rfl⟩ := hc
    obtain ⟨_, totd⟩ := compile_tot_Fx he.2 hfn hg hls hd
    have tota := compileArms_tot_Fx he.1 hfn (hg.keep totd.1) hls has
    rw [Ref.eval]
    exact hC ls self arms d he.1 he.2 isFn c gs1 (as, gs2) gs (rd, gs1) has hd hfn Γ hls (hg.keep totd.1) hg m s rs env pre post hrel
      (hgen.rest totd.1) (hgen.first tota.1) hctx hlf (hlf.first tota.1) (hlo.mono totd.2.1 (Nat.le_refl _))
      (hlo.mono (Nat.le_refl _) tota.2.1) (Nat.le_refl _) hseg
  | newScope es =>
    rw [Fx] at he
    simp only [Bool.and_eq_true, Bool.not_eq_true', List.isEmpty_eq_false_iff] at he
    cases es with
    | nil => exact absurd rfl he.1
    | cons e0 es0 =>
      rw [compile] at hc
      · simp only [g_bind_ok, g_pure_ok] at hc
        obtain ⟨ra, gs1, ha, rfl⟩ := hc
        rw [Ref.eval]
        show SimX _ Γ m s rs env (Ref.evalBegin n (e0 :: es0) rs.frames.length (Ref.newFrame rs env).2)
        exact SimX.scoped hseg hrel (hN ls self (e0 :: es0) he.1 he.2 isFn _ _ gs (ra, gs1) ha hfn Γ hls hg m _ _ _ _ _
          hrel.pushScope (hgen.mono (FnsKeep.of_fns_eq rfl)) hctx.pushScope (hlf.nl (FrameNL.pushScope s))
          (hlo.app (lsOut_one .addScope _ _)) hseg.inner)
      · intro hh; cases hh
  | let_ seq bs body =>
    rw [Fx] at he
    simp only [Bool.and_eq_true, Bool.not_eq_true', List.isEmpty_eq_false_iff] at he
    obtain ⟨⟨⟨hseq, hbody⟩, hbs⟩, hbl⟩ := he
    rw [compile] at hc
    simp only [g_bind_ok, g_pure_ok] at hc
    obtain ⟨ra, gs1, ha, rb, gs2, hb, rfl⟩ := hc
    have hfnok' : FnameOk self { c with scopes := c.scopes + 1, tail := false } := hfn
    have hfn'' : FnameOk self { c with scopes := c.scopes + 1 } := hfn
    have hk1 := compileBinds_keep_Ff hbs ha hfnok'
    have hl1 := compileBinds_ls_Ff true self bs hbs isFn _ seq gs _ ha hfnok'
    have tot2 := compileBegin_tot_Fx hbody hbl hfn'' (hg.keep hk1.1) hls hb
    have hnl : FrameNL s s.pushScope := FrameNL.pushScope s
    cases seq
    · -- parallel
      have hnd : (bs.map (·.1)).Nodup := by simpa using hseq
      have hcode : ([Instr.addScope] ++ ra.1 ++ (if False then [] else (List.map (fun p => Instr.popStackPutEnv p.fst) bs).reverse)
          ++ rb.1 ++ [Instr.removeScope])
          = [Instr.addScope] ++ (ra.1 ++ (bs.map (fun p => Instr.popStackPutEnv p.1)).reverse ++ rb.1) ++ [Instr.removeScope] := by
        simp
      simp only [Bool.false_eq_true, hcode] at hseg hgen hlf hlo ⊢
      rw [Ref.eval]
      show SimX _ Γ m s rs env (if false = true then _ else
          (match Ref.evalList n (bs.map (·.2)) rs.frames.length (Ref.newFrame rs env).2 with
           | .ok vs s => (match Ref.bindAll s rs.frames.length (bs.map (·.1)) vs with
              | some s => Ref.evalBegin n body rs.frames.length s
              | none => .err s)
           | .err s => .err s | .brk l s => .brk l s | .cont l s => .cont l s | .timeout => .timeout))
      rw [if_neg (by decide)]
      refine SimX.scoped hseg hrel ?_
      have hseg1 := hseg.inner
      have hU := letpar_binds hP isFn _ gs (ra, gs1) ha hfnok' hnd hbs m s.pushScope (Ref.newFrame rs env).2 rs.frames.length _ _
        hrel.pushScope (fun _ => (hgen.first tot2.1).mono (FnsKeep.of_fns_eq rfl))
        (hseg1.refocus (c' := ra.1 ++ (bs.map (fun p => Instr.popStackPutEnv p.1)).reverse)
          (post' := rb.1 ++ ([.removeScope] ++ post)) (by simp))
      cases h1 : Ref.evalList n (bs.map (·.2)) rs.frames.length (Ref.newFrame rs env).2 with
      | ok vs rs2 =>
        rw [h1] at hU
        simp only at hU ⊢
        cases h2 : Ref.bindAll rs2 rs.frames.length (bs.map (·.1)) vs with
        | some rs3 =>
          rw [h2] at hU
          obtain ⟨s2, m2, r2, mv2, rel2, hm2, ext2, fr2⟩ := hU
          simp only
          have ihb := hB ls self body hbody hbl isFn _ gs1 (rb, gs2) hb hfn'' Γ hls (hg.keep hk1.1) m2 s2 rs3 _ _ _ rel2
            (((hgen.rest hk1.1).mono (s' := s.pushScope) (FnsKeep.of_fns_eq rfl)).frame fr2.toFrame)
            (hctx.pushScope.moved mv2 fr2 ext2) ((hlf.nl hnl).frame fr2.toFrame)
            (((hlo.mono hl1.1 (Nat.le_refl _)).app (lsOut_one .addScope _ _)).app
              (LsOut.app (hl1.2.below (Nat.le_refl _))
                (fun l hl => by simp only [List.mem_reverse, List.mem_map] at hl; obtain ⟨_, _, hh⟩ := hl; cases hh)))
            (hseg1.moved mv2 (c₁ := ra.1 ++ (bs.map (fun p => Instr.popStackPutEnv p.1)).reverse) (c₂ := rb.1)
              (post' := [.removeScope] ++ post) (by simp) rfl)
          exact SimX.seq r2 mv2 hm2 ext2 fr2 ihb (by simp only [List.length_append])
        | none => rw [h2] at hU; exact hU
      | err rs2 => rw [h1] at hU; exact hU
      | timeout => trivial
      | brk l rs2 => rw [h1] at hU; exact hU.elim
      | cont l rs2 => rw [h1] at hU; exact hU.elim
    · -- sequential
      have hcode : ([Instr.addScope] ++ ra.1 ++ (if True then [] else (List.map (fun p => Instr.popStackPutEnv p.fst) bs).reverse)
          ++ rb.1 ++ [Instr.removeScope]) = [Instr.addScope] ++ (ra.1 ++ rb.1) ++ [Instr.removeScope] := by simp
      simp only [hcode] at hseg hgen hlf hlo ⊢
      rw [Ref.eval]
      show SimX _ Γ m s rs env (if true = true then
          (match Ref.evalLetSeq n bs rs.frames.length (Ref.newFrame rs env).2 with
           | .ok _ s => Ref.evalBegin n body rs.frames.length s
           | .err s => .err s | .brk l s => .brk l s | .cont l s => .cont l s | .timeout => .timeout)
        else _)
      rw [if_pos rfl]
      refine SimX.scoped hseg hrel ?_
      have hseg1 := hseg.inner
      have hUl := hL true self bs hbs isFn _ gs (ra, gs1) ha hfnok' m _ _ _ _ _ hrel.pushScope
        (fun _ => (hgen.first tot2.1).mono (FnsKeep.of_fns_eq rfl))
        (hseg1.refocus (c' := ra.1) (post' := rb.1 ++ ([.removeScope] ++ post)) (by simp))
      cases h1 : Ref.evalLetSeq n bs rs.frames.length (Ref.newFrame rs env).2 with
      | ok u rs2 =>
        rw [h1] at hUl
        obtain ⟨s2, m2, r2, mv2, rel2, hm2, ext2, fr2⟩ := hUl
        have ihb := hB ls self body hbody hbl isFn _ gs1 (rb, gs2) hb hfn'' Γ hls (hg.keep hk1.1) m2 s2 rs2 _ _ _ rel2
          (((hgen.rest hk1.1).mono (s' := s.pushScope) (FnsKeep.of_fns_eq rfl)).frame fr2.toFrame)
          (hctx.pushScope.moved mv2 fr2 ext2) ((hlf.nl hnl).frame fr2.toFrame)
          (((hlo.mono hl1.1 (Nat.le_refl _)).app (lsOut_one .addScope _ _)).app (hl1.2.below (Nat.le_refl _)))
          (hseg1.moved mv2 (c₁ := ra.1) (c₂ := rb.1) (post' := [.removeScope] ++ post) (by simp) rfl)
        exact SimX.seq r2 mv2 hm2 ext2 fr2 ihb (by lenarith)
      | err rs2 => rw [h1] at hUl; exact hUl
      | timeout => trivial
      | brk l rs2 => rw [h1] at hUl; exact hUl.elim
      | cont l rs2 => rw [h1] at hUl; exact hUl.elim
  | for_ label init test incr body =>
    rw [Fx] at he
    simp only [Bool.and_eq_true] at he
    obtain ⟨⟨⟨hi, ht⟩, hs⟩, hb⟩ := he
    exact xclaimE_for hFE hF hi ht hs hb isFn c gs r hc hfn Γ hls hg m s rs env pre post hrel hgen hctx hlf hlo hseg
  | int v => rw [Fx] at he; exact hff he
  | bool v => rw [Fx] at he; exact hff he
  | str v => rw [Fx] at he; exact hff he
  | nilLit => rw [Fx] at he; exact hff he
  | sym x => rw [Fx] at he; exact hff he
  | arr es => rw [Fx] at he; exact hff he
  | call f args => rw [Fx] at he; exact hff he
  | def_ x e => rw [Fx] at he; exact hff he
  | set_ x e => rw [Fx] at he; exact hff he
  | and_ es => rw [Fx] at he; exact hff he
  | or_ es => rw [Fx] at he; exact hff he
  | fn ps rest body => rw [Fx] at he; exact hff he
  | defn name ps rest body => rw [Fx] at he; exact hff he
  | assign _ _ => simp [Fx] at he
  | bad _ => simp [Fx] at he

/-! ## The induction -/

theorem xclaims_zero : XClaimE 0 ∧ XClaimB 0 ∧ XClaimC 0 ∧ XClaimN 0 ∧ XClaimF 0 := by
  refine ⟨?_, ?_, ?_, ?_, ?_⟩
  · intro ls self e he isFn c gs r hc hfn Γ hls hg m s rs env pre post hrel hgen hctx hlf hlo hseg
    rw [Ref.eval]; trivial
  · intro ls self es hne hes isFn c gs r hc hfn Γ hls hg m s rs env pre post hrel hgen hctx hlf hlo hseg
    rw [Ref.evalBegin]; trivial
  · intro ls self arms d harms hd isFn c gs r gs0 rd hc hcd hfn Γ hls hg hg0 m s rs env pre post hrel hgen hgend hctx hlf hlfd
      hlo hlod hdl hseg
    rw [Ref.evalCond]; trivial
  · intro ls self es hne hes isFn c oldtail gs r hc hfn Γ hls hg m s rs env pre post hrel hgen hctx hlf hlo hseg
    rw [Ref.evalBegin]; trivial
  · intro ls self label test incr body htest hincr hbody isFn c hfn gb rb g2 gt rt g4 gi ri g5 hcb hct hci Γ γ₀ hls hlab hg
      ci pre post m σ rs hin hpc hd hlin hrel hgen hctx hlf hlo hbrk hcont
    rw [Ref.loop]; trivial

end ZygoVerif.Sim
