/-
C02, execution half — Stage C/D, machine level: environments.

* `exec_envToStack`, `exec_popStackPutEnv`, `exec_update`, `exec_addScope`, `exec_removeScope`
  — the scope instructions as state transformers;
* `Fails K s tr`  — from `s` the run loop ends in a script error within `K` instructions (for
  every enclosing `Run`), the trace being `tr`;
* `Lands n v s s'` — `s'` is `s` moved `n` instructions forward inside the same function, with
  one more value `v` on the data stack;
* `Rel s rs env`  — the simulation relation between a VM state and a reference state: the
  scope table and the frame table have the same length and hold the same bindings index by
  index, no scope is a function scope, the linear scope stack is the static chain of `env`
  (ending in the global scope 0), heaps and traces agree, and the current function looks
  nothing up beyond the linear stack;
* under `Rel`, `lexLookup` (the three-stage `LexicalLookupSymbol`) is `Ref.lookup`.
-/
import ZygoVerif.Proofs.SimControl
import ZygoVerif.Spec.RefEval
set_option linter.unusedSimpArgs false
namespace ZygoVerif.Sim
open ZygoVerif.Core ZygoVerif.VM

/-! ## The scope instructions -/

/-- what `setInScope id x v` does to the state -/
def _root_.ZygoVerif.VM.St.bind (s : St) (id : Nat) (x : String) (v : Val) : St :=
  { s with scopes := s.scopes.set id { scopeOf s id with vars := VM.assocSet (scopeOf s id).vars x v } }

theorem run_setInScope (id : Nat) (x : String) (v : Val) (s : St) :
    (setInScope id x v).run s = (.ok (), s.bind id x v) := rfl

theorem exec_envToStack (f : Nat) (x : String) (s : St) :
    (exec (f + 1) (.envToStack x)).run s = match lexLookup s x with
      | some (_, v) => (.ok (), s.jmp (s.pc + 1) (some v :: s.data))
      | none => (.error .err, s) := by
  rw [exec]
  simp only [run_bind, run_get]
  rcases h : lexLookup s x with _ | ⟨id, v⟩
  · simp only [run_err]
  · simp only [run_bind, run_pushData, run_incPc]; rfl

theorem run_bindTop (x : String) (v : Val) (s : St) :
    (bindTop x v).run s = match s.linear with
      | some id :: _ =>
        (match (scopeOf s id).vars.lookup x with
         | some cur => if rebindOk s.heap cur v then (.ok (), s.bind id x v) else (.error .err, s)
         | none => (.ok (), s.bind id x v))
      | _ => (.error .panic, s) := by
  unfold bindTop
  simp only [run_bind, run_get]
  rcases hl : s.linear with _ | ⟨_ | id, rest⟩
  · simp only [run_hostPanic]
  · simp only [run_hostPanic]
  · simp only
    rcases hv : (scopeOf s id).vars.lookup x with _ | cur
    · simp only [run_setInScope]
    · simp only [run_ite, run_setInScope, run_err]

/-- `PopStackPutEnvInstr` (`def`, `let` bindings, parameters): pop, step, bind in the top scope. -/
theorem exec_popStackPutEnv (f : Nat) (x : String) (s : St) (v : Val) (rest : List (Option Val))
    (hd : s.data = some v :: rest) :
    (exec (f + 1) (.popStackPutEnv x)).run s = (bindTop x v).run (s.jmp (s.pc + 1) rest) := by
  rw [exec]
  simp only [run_bind, run_popData, hd, run_incPc]
  rfl

/-- `UpdateInstr` (`set`): pop, step, assign where the symbol is found, else bind on top. -/
theorem exec_update (f : Nat) (x : String) (s : St) (v : Val) (rest : List (Option Val))
    (hd : s.data = some v :: rest) :
    (exec (f + 1) (.update x)).run s = match lexLookup (s.jmp (s.pc + 1) rest) x with
      | some (id, _) => (.ok (), (s.jmp (s.pc + 1) rest).bind id x v)
      | none => (bindTop x v).run (s.jmp (s.pc + 1) rest) := by
  rw [exec]
  simp only [run_bind, run_popData, hd, run_incPc, run_get]
  show (match lexLookup (s.jmp (s.pc + 1) rest) x with
    | some (id, _) => (setInScope id x v : M Unit)
    | none => bindTop x v).run (s.jmp (s.pc + 1) rest) = _
  rcases lexLookup (s.jmp (s.pc + 1) rest) x with _ | ⟨id, w⟩
  · rfl
  · rfl

theorem exec_addScope (f : Nat) (s : St) :
    (exec (f + 1) .addScope).run s =
      (.ok (), { s with scopes := s.scopes ++ [({} : Scope)], linear := some s.scopes.length :: s.linear, pc := s.pc + 1 }) := by
  rw [exec]; rfl

theorem exec_removeScope (f : Nat) (s : St) :
    (exec (f + 1) .removeScope).run s = match s.linear with
      | [] => (.error .err, { s with pc := s.pc + 1 })
      | _ :: rest => (.ok (), { s with pc := s.pc + 1, linear := rest }) := by
  rw [exec]
  simp only [run_bind, run_incPc]
  unfold popScope
  simp only [run_bind, run_get]
  rcases hl : s.linear with _ | ⟨a, rest⟩
  · simp only [run_err, hl]
  · simp only [run_set, hl]

/-! ## Ending in a script error -/

/-- From `s` the run loop ends in a script error after at most `K` instructions — for every
enclosing `Run` and every remaining fuel `≥ 1`; the trace of the final state is `tr`. -/
def Fails (K : Nat) (s : St) (tr : List String) : Prop :=
  ∃ k, k ≤ K ∧ ∀ fuel, 1 ≤ fuel → ∀ st, ∃ sf, (runLoop (fuel + k) st).run s = (.error .err, sf) ∧ sf.trace = tr

theorem Fails.mono {K K' : Nat} {s : St} {tr} (h : Fails K s tr) (hK : K ≤ K') : Fails K' s tr := by
  obtain ⟨k, hk, H⟩ := h
  exact ⟨k, Nat.le_trans hk hK, H⟩

theorem Fails.of_reach {K₁ K₂ : Nat} {s s₁ : St} {tr} (h₁ : Reach K₁ 1 s s₁) (h₂ : Fails K₂ s₁ tr) :
    Fails (K₁ + K₂) s tr := by
  obtain ⟨k₁, hk₁, H₁⟩ := h₁
  obtain ⟨k₂, hk₂, H₂⟩ := h₂
  refine ⟨k₂ + k₁, by omega, fun fuel hf st => ?_⟩
  rw [← Nat.add_assoc, H₁ (fuel + k₂) (by omega) st]
  exact H₂ fuel hf st

theorem restore_trace (st : CtlState) (s : St) : ((restore st).run s).2.trace = s.trace := by
  unfold restore
  rw [run_modify]

/-- One instruction that returns an error (for every fuel `≥ 1`). -/
theorem Fails.step {s se : St} {pre i post} (h : At s pre i post)
    (hx : ∀ f, (exec (f + 1) i).run s = (.error .err, se)) : Fails 1 s se.trace := by
  refine ⟨1, Nat.le_refl _, fun fuel hf st => ?_⟩
  obtain ⟨f, rfl⟩ : ∃ f, fuel = f + 1 := ⟨fuel - 1, by omega⟩
  refine ⟨_, runLoop_step_err h (f + 1) st (hx f), ?_⟩
  exact restore_trace st se

/-! ## Landing behind a segment -/

/-- `s'` is `s` moved `n` instructions forward inside the same function, one more value `v`
on the data stack. (What else changed — scopes — is said by `Rel`.) -/
structure Lands (n : Nat) (v : Val) (s s' : St) : Prop where
  fn : fnOf s' s'.curfunc = fnOf s s.curfunc
  pc : s'.pc = s.pc + (n : Int)
  data : s'.data = some v :: s.data

/-- a segment seen from a state that is in the same function -/
theorem Seg.move {s s' : St} {pre c post pre' c' post'} (h : Seg s pre c post)
    (hf : fnOf s' s'.curfunc = fnOf s s.curfunc)
    (hc : pre ++ c ++ post = pre' ++ c' ++ post') (hp : s'.pc = (pre'.length : Int)) :
    Seg s' pre' c' post' :=
  ⟨by rw [hf]; exact h.user, by rw [hf, h.code, hc], hp⟩

theorem At.move {s s' : St} {pre c post pre' i' post'} (h : Seg s pre c post)
    (hf : fnOf s' s'.curfunc = fnOf s s.curfunc)
    (hc : pre ++ c ++ post = pre' ++ i' :: post') (hp : s'.pc = (pre'.length : Int)) :
    At s' pre' i' post' :=
  ⟨by rw [hf]; exact h.user, by rw [hf, h.code, hc], hp⟩

/-! ## The simulation relation -/

/-- The linear scope stack `lin` is the static chain of frame `env`: `env`, its parent, …,
down to the global frame 0 (whose parent is none). Parents are older frames. -/
inductive Chain (frames : List Ref.Frame) : Nat → List (Option Nat) → Prop
  | root (fr : Ref.Frame) : frames[0]? = some fr → fr.parent = none → Chain frames 0 [some 0]
  | cons (env p : Nat) (fr : Ref.Frame) (rest : List (Option Nat)) :
      frames[env]? = some fr → fr.parent = some p → p < env → Chain frames p rest →
      Chain frames env (some env :: rest)

/-- the part of the relation that concerns scopes, heap and trace -/
structure RelCore (s : St) (rs : Ref.St) (env : Nat) : Prop where
  len : s.scopes.length = rs.frames.length
  vars : ∀ i x, (scopeOf s i).vars.lookup x = (rs.frames.getD i {}).vars.lookup x
  nofn : ∀ i, (scopeOf s i).isFunction = false
  chain : Chain rs.frames env s.linear
  heap : s.heap = rs.heap
  trace : s.trace = rs.trace

/-- … and the current function is a top-level one: no parent, closing over the global scope only -/
structure Rel (s : St) (rs : Ref.St) (env : Nat) : Prop extends RelCore s rs env where
  fnpar : (fnOf s s.curfunc).parent = none
  fnclo : (fnOf s s.curfunc).closing = [some 0]

theorem Chain.head {frames env lin} (h : Chain frames env lin) : ∃ rest, lin = some env :: rest := by
  cases h with
  | root => exact ⟨[], rfl⟩
  | cons _ _ _ rest => exact ⟨rest, rfl⟩

theorem Chain.lt {frames env lin} (h : Chain frames env lin) : env < frames.length := by
  cases h with
  | root fr h0 _ =>
    rcases Nat.lt_or_ge 0 frames.length with h | h
    · exact h
    · rw [List.getElem?_eq_none h] at h0; cases h0
  | cons _ p fr rest h0 _ _ _ =>
    rcases Nat.lt_or_ge env frames.length with h | h
    · exact h
    · rw [List.getElem?_eq_none h] at h0; cases h0

/-- Stage 1 of `LexicalLookupSymbol` over a chain of non-function scopes is the walk along
the static chain (any fuel that covers the chain; `checkCaptures` is irrelevant). -/
theorem lookupUntilFn_chain {s : St} {rs : Ref.St}
    (hvars : ∀ i x, (scopeOf s i).vars.lookup x = (rs.frames.getD i {}).vars.lookup x)
    (hnofn : ∀ i, (scopeOf s i).isFunction = false) (x : String) (cc : Bool) :
    ∀ {env lin}, Chain rs.frames env lin → ∀ fuel, env + 1 ≤ fuel →
      lookupUntilFn s x cc lin = Ref.lookupIn rs.frames fuel env x := by
  intro env lin h
  induction h with
  | root fr h0 hp =>
    intro fuel hf
    obtain ⟨f, rfl⟩ : ∃ f, fuel = f + 1 := ⟨fuel - 1, by omega⟩
    have hv := hvars 0 x
    rw [List.getD_eq_getElem?_getD, h0, Option.getD_some] at hv
    simp only [lookupUntilFn, Ref.lookupIn, h0, hv, hnofn 0, hp]
    cases fr.vars.lookup x <;> rfl
  | cons env p fr rest h0 hp hlt _ ih =>
    intro fuel hf
    obtain ⟨f, rfl⟩ : ∃ f, fuel = f + 1 := ⟨fuel - 1, by omega⟩
    have hv := hvars env x
    rw [List.getD_eq_getElem?_getD, h0, Option.getD_some] at hv
    simp only [lookupUntilFn, Ref.lookupIn, h0, hv, hnofn env, hp]
    cases fr.vars.lookup x with
    | some v => rfl
    | none => exact ih f (by omega)

/-- a chain ends in the global scope: what stage 1 does not find is not in scope 0 either -/
theorem lookupUntilFn_chain_none {s : St} {frames} (x : String) (cc : Bool)
    (hnofn : ∀ i, (scopeOf s i).isFunction = false) :
    ∀ {env lin}, Chain frames env lin → lookupUntilFn s x cc lin = none →
      (scopeOf s 0).vars.lookup x = none := by
  intro env lin h
  induction h with
  | root fr _ _ =>
    intro hn
    simp only [lookupUntilFn, hnofn 0] at hn
    cases hl : (scopeOf s 0).vars.lookup x with
    | none => rfl
    | some v => rw [hl] at hn; cases hn
  | cons env p fr rest _ _ _ _ ih =>
    intro hn
    simp only [lookupUntilFn, hnofn env] at hn
    cases hl : (scopeOf s env).vars.lookup x with
    | none => rw [hl] at hn; exact ih hn
    | some v => rw [hl] at hn; cases hn

/-- stage 1 (and stage 3) of `LexicalLookupSymbol` is the reference lookup -/
theorem RelCore.stage1 {s rs env} (h : RelCore s rs env) (x : String) (cc : Bool) :
    lookupUntilFn s x cc s.linear = Ref.lookup rs env x :=
  lookupUntilFn_chain h.vars h.nofn x cc h.chain _ (by have := h.chain.lt; omega)

/-- Under `Rel`, the three-stage `LexicalLookupSymbol` is the reference lookup. -/
theorem Rel.lexLookup {s rs env} (h : Rel s rs env) (x : String) :
    lexLookup s x = Ref.lookup rs env x := by
  have h1 : ∀ cc, lookupUntilFn s x cc s.linear = Ref.lookup rs env x := fun cc =>
    lookupUntilFn_chain h.vars h.nofn x cc h.chain _ (by have := h.chain.lt; omega)
  unfold VM.lexLookup
  rw [h1 false]
  cases hl : Ref.lookup rs env x with
  | some r => rfl
  | none =>
    have h0 := lookupUntilFn_chain_none x false h.nofn h.chain (by rw [h1 false, hl])
    simp only [h.fnpar, Option.isSome_none, Bool.false_eq_true, if_false, h.fnclo, lookupUntilFn, h0, h.nofn 0,
      h1 true, hl]

theorem RelCore.jmp {s rs env} (h : RelCore s rs env) (p : Int) (d : List (Option Val)) : RelCore (s.jmp p d) rs env :=
  ⟨h.len, h.vars, h.nofn, h.chain, h.heap, h.trace⟩

theorem Rel.jmp {s rs env} (h : Rel s rs env) (p : Int) (d : List (Option Val)) : Rel (s.jmp p d) rs env :=
  ⟨h.toRelCore.jmp p d, h.fnpar, h.fnclo⟩

/-! lookups read the scope table, the function table, the linear stack and `curfunc` only -/

theorem lookupWhole_congr {s s' : St} (hs : s'.scopes = s.scopes) (x : String) :
    ∀ l, lookupWhole s' x l = lookupWhole s x l
  | [] => rfl
  | none :: rest => by simp only [lookupWhole]; exact lookupWhole_congr hs x rest
  | some id :: rest => by
    simp only [lookupWhole, scopeOf, hs]
    rw [lookupWhole_congr hs x rest]

theorem lookupUntilFn_congr {s s' : St} (hs : s'.scopes = s.scopes) (hf : s'.fns = s.fns) (x : String) (cc : Bool) :
    ∀ l, lookupUntilFn s' x cc l = lookupUntilFn s x cc l
  | [] => rfl
  | none :: rest => by simp only [lookupUntilFn]; exact lookupUntilFn_congr hs hf x cc rest
  | some id :: rest => by
    simp only [lookupUntilFn, scopeOf, fnOf, hs, hf]
    rw [lookupUntilFn_congr hs hf x cc rest]
    have : ∀ l, lookupWhole s' x l = lookupWhole s x l := lookupWhole_congr hs x
    simp only [this]
    rfl

theorem lookupChain_congr {s s' : St} (hs : s'.scopes = s.scopes) (hf : s'.fns = s.fns) (x : String) :
    ∀ fuel cur, lookupChain s' x fuel cur = lookupChain s x fuel cur
  | 0, _ => rfl
  | fuel + 1, cur => by
    simp only [lookupChain, fnOf, hf]
    rw [lookupUntilFn_congr hs hf]
    simp only [lookupChain_congr hs hf x fuel]

theorem lexLookup_congr {s s' : St} (hs : s'.scopes = s.scopes) (hf : s'.fns = s.fns)
    (hl : s'.linear = s.linear) (hc : s'.curfunc = s.curfunc) (x : String) :
    lexLookup s' x = lexLookup s x := by
  unfold VM.lexLookup
  simp only [fnOf, hf, hl, hc, lookupUntilFn_congr hs hf, lookupChain_congr hs hf]
  rfl

theorem lexLookup_jmp (s : St) (p : Int) (d : List (Option Val)) (x : String) :
    lexLookup (s.jmp p d) x = lexLookup s x :=
  lexLookup_congr (s := s) (s' := s.jmp p d) rfl rfl rfl rfl x

/-! ## Assignments keep the relation -/

theorem assocSet_eq (l : List (String × Val)) (x : String) (v : Val) : Ref.assocSet l x v = VM.assocSet l x v := rfl

theorem lookup_map_set (x : String) (v : Val) (y : String) : ∀ (l : List (String × Val)),
    (l.map (fun p => if p.1 == x then (x, v) else p)).lookup y =
      if y == x then (if l.any (·.1 == x) then some v else none) else l.lookup y
  | [] => by simp
  | (k, w) :: l => by
    have ih := lookup_map_set x v y l
    simp only [List.map_cons, List.any_cons]
    by_cases hk : (k == x) = true
    · have hkx : k = x := by simpa using hk
      subst hkx
      simp only [beq_self_eq_true, if_true, Bool.true_or, List.lookup_cons]
      by_cases hy : (y == k) = true
      · simp [hy]
      · have hy' : (y == k) = false := by simpa using hy
        simp only [hy', ih]
        simp
    · have hk' : (k == x) = false := by simpa using hk
      simp only [hk', Bool.false_eq_true, if_false, Bool.false_or, List.lookup_cons]
      by_cases hy : (y == k) = true
      · have hyk : y = k := by simpa using hy
        subst hyk
        simp [hk']
      · have hy' : (y == k) = false := by simpa using hy
        simp only [hy', ih]

theorem lookup_assocSet (l : List (String × Val)) (x : String) (v : Val) (y : String) :
    (VM.assocSet l x v).lookup y = if y == x then some v else l.lookup y := by
  unfold VM.assocSet
  by_cases ha : l.any (·.1 == x) = true
  · rw [if_pos ha, lookup_map_set, ha]; rfl
  · rw [if_neg ha, List.lookup_cons]
    by_cases hy : (y == x) = true
    · simp [hy]
    · have hy' : (y == x) = false := by simpa using hy
      simp [hy']

theorem lt_of_getElem?_some {α} {l : List α} {i : Nat} {a : α} (h : l[i]? = some a) : i < l.length := by
  rcases Nat.lt_or_ge i l.length with h' | h'
  · exact h'
  · rw [List.getElem?_eq_none h'] at h; cases h

theorem Chain.set_vars {frames : List Ref.Frame} {id : Nat} {fr0 : Ref.Frame} (h0 : frames[id]? = some fr0)
    (vars : List (String × Val)) :
    ∀ {env lin}, Chain frames env lin → Chain (frames.set id { fr0 with vars := vars }) env lin := by
  intro env lin h
  induction h with
  | root fr hf hp =>
    by_cases hid : id = 0
    · subst hid
      rw [hf] at h0; cases h0
      exact Chain.root { fr0 with vars := vars } (List.getElem?_set_self (lt_of_getElem?_some hf)) hp
    · exact Chain.root fr (by rw [List.getElem?_set_ne hid]; exact hf) hp
  | cons env p fr rest hf hp hlt _ ih =>
    by_cases hid : id = env
    · subst hid
      rw [hf] at h0; cases h0
      exact Chain.cons id p { fr0 with vars := vars } rest
        (List.getElem?_set_self (lt_of_getElem?_some hf)) hp hlt ih
    · exact Chain.cons env p fr rest (by rw [List.getElem?_set_ne hid]; exact hf) hp hlt ih

theorem scopeOf_bind (s : St) (id : Nat) (x : String) (v : Val) (i : Nat) :
    scopeOf (s.bind id x v) i =
      if i = id ∧ id < s.scopes.length then { scopeOf s id with vars := VM.assocSet (scopeOf s id).vars x v }
      else scopeOf s i := by
  show (List.set s.scopes id _).getD i {} = _
  simp only [List.getD_eq_getElem?_getD, List.getElem?_set]
  by_cases hi : id = i
  · subst hi
    by_cases hl : id < s.scopes.length
    · have : scopeOf s id = s.scopes[id] := by simp [scopeOf, hl]
      simp [hl, this]
    · simp [hl, scopeOf]
  · have : ¬ i = id := fun h => hi h.symm
    simp [hi, this, scopeOf]

/-- Binding `x := v` in scope `id` on both sides keeps the relation. -/
theorem RelCore.bind {s rs env} (h : RelCore s rs env) (id : Nat) (hid : id < rs.frames.length) (x : String) (v : Val) :
    RelCore (s.bind id x v) (Ref.setVar rs id x v) env := by
  obtain ⟨fr, hfr⟩ : ∃ fr, rs.frames[id]? = some fr := ⟨rs.frames[id], by simp [hid]⟩
  have hset : Ref.setVar rs id x v = { rs with frames := rs.frames.set id { fr with vars := VM.assocSet fr.vars x v } } := by
    unfold Ref.setVar; rw [hfr]; rfl
  have hlen : id < s.scopes.length := by rw [h.len]; exact hid
  rw [hset]
  refine ⟨?_, ?_, ?_, ?_, h.heap, h.trace⟩
  · show (s.scopes.set id _).length = (rs.frames.set id _).length
    simp [h.len]
  · intro i y
    rw [scopeOf_bind]
    show _ = ((rs.frames.set id _).getD i {}).vars.lookup y
    by_cases hi : i = id
    · subst hi
      have hv := h.vars i y
      rw [List.getD_eq_getElem?_getD, hfr, Option.getD_some] at hv
      simp only [hlen, and_self, if_true, List.getD_eq_getElem?_getD, List.getElem?_set_self hid, Option.getD_some,
        lookup_assocSet, hv]
    · have hi' : ¬ id = i := fun e => hi e.symm
      simp only [hi, false_and, if_false, List.getD_eq_getElem?_getD, List.getElem?_set_ne hi']
      have hv := h.vars i y
      rw [List.getD_eq_getElem?_getD] at hv
      exact hv
  · intro i
    rw [scopeOf_bind]
    split
    · exact h.nofn id
    · exact h.nofn i
  · exact Chain.set_vars hfr _ h.chain

theorem Rel.bind {s rs env} (h : Rel s rs env) (id : Nat) (hid : id < rs.frames.length) (x : String) (v : Val) :
    Rel (s.bind id x v) (Ref.setVar rs id x v) env :=
  ⟨h.toRelCore.bind id hid x v, h.fnpar, h.fnclo⟩

/-! ## Frames only grow, parents never change -/

/-- `rs'` extends `rs`: every frame of `rs` is still there with the same parent. -/
def FramesExt (rs rs' : Ref.St) : Prop :=
  ∀ (i : Nat) (fr : Ref.Frame), rs.frames[i]? = some fr →
    ∃ fr' : Ref.Frame, rs'.frames[i]? = some fr' ∧ fr'.parent = fr.parent

theorem FramesExt.refl (rs : Ref.St) : FramesExt rs rs := fun _ fr h => ⟨fr, h, rfl⟩

theorem FramesExt.trans {a b c : Ref.St} (h₁ : FramesExt a b) (h₂ : FramesExt b c) : FramesExt a c := by
  intro i fr h
  obtain ⟨fr', h', hp'⟩ := h₁ i fr h
  obtain ⟨fr'', h'', hp''⟩ := h₂ i fr' h'
  exact ⟨fr'', h'', hp''.trans hp'⟩

theorem FramesExt.setVar (rs : Ref.St) (id : Nat) (x : String) (v : Val) : FramesExt rs (Ref.setVar rs id x v) := by
  intro i fr h
  unfold Ref.setVar
  cases hid : rs.frames[id]? with
  | none => exact ⟨fr, h, rfl⟩
  | some fr0 =>
    simp only
    by_cases hi : id = i
    · subst hi
      rw [hid] at h; cases h
      exact ⟨_, List.getElem?_set_self (lt_of_getElem?_some hid), rfl⟩
    · exact ⟨fr, by rw [List.getElem?_set_ne hi]; exact h, rfl⟩

theorem FramesExt.newFrame (rs : Ref.St) (env : Nat) : FramesExt rs (Ref.newFrame rs env).2 := by
  intro i fr h
  refine ⟨fr, ?_, rfl⟩
  show (rs.frames ++ [_])[i]? = some fr
  rw [List.getElem?_append_left (lt_of_getElem?_some h)]; exact h

theorem FramesExt.trace_irrel {rs rs' : Ref.St} (h : FramesExt rs rs') (tr : List String) :
    FramesExt { rs with trace := tr } rs' := h

/-- a static chain survives the growth of the frame table -/
theorem Chain.ext {frames frames' : List Ref.Frame}
    (hext : ∀ (i : Nat) (fr : Ref.Frame), frames[i]? = some fr →
      ∃ fr' : Ref.Frame, frames'[i]? = some fr' ∧ fr'.parent = fr.parent) :
    ∀ {env lin}, Chain frames env lin → Chain frames' env lin := by
  intro env lin h
  induction h with
  | root fr hf hp =>
    obtain ⟨fr', hf', hp'⟩ := hext 0 fr hf
    exact Chain.root fr' hf' (hp'.trans hp)
  | cons env p fr rest hf hp hlt _ ih =>
    obtain ⟨fr', hf', hp'⟩ := hext env fr hf
    exact Chain.cons env p fr' rest hf' (hp'.trans hp) hlt ih

/-! ## Opening and closing a scope -/

/-- what `AddScopeInstr` does -/
def _root_.ZygoVerif.VM.St.pushScope (s : St) : St :=
  { s with scopes := s.scopes ++ [({} : Scope)], linear := some s.scopes.length :: s.linear, pc := s.pc + 1 }

/-- what `RemoveScopeInstr` does (on a non-empty scope stack) -/
def _root_.ZygoVerif.VM.St.popScope (s : St) : St :=
  { s with pc := s.pc + 1, linear := s.linear.tail }

theorem scopeOf_pushScope (s : St) (i : Nat) :
    scopeOf s.pushScope i = if i < s.scopes.length then scopeOf s i else {} := by
  show (s.scopes ++ [({} : Scope)]).getD i {} = _
  simp only [List.getD_eq_getElem?_getD, scopeOf]
  by_cases hi : i < s.scopes.length
  · rw [List.getElem?_append_left hi, if_pos hi]
  · rw [if_neg hi]
    by_cases hi' : i = s.scopes.length
    · subst hi'; simp
    · rw [List.getElem?_eq_none (by simp; omega)]; rfl

/-- `addScope` on the VM, `newFrame` in the reference evaluator -/
theorem RelCore.pushScope {s rs env} (h : RelCore s rs env) :
    RelCore s.pushScope (Ref.newFrame rs env).2 rs.frames.length := by
  have hlt := h.chain.lt
  refine ⟨?_, ?_, ?_, ?_, h.heap, h.trace⟩
  · show (s.scopes ++ [_]).length = (rs.frames ++ [_]).length
    simp [h.len]
  · intro i x
    rw [scopeOf_pushScope]
    show _ = ((rs.frames ++ [_]).getD i {}).vars.lookup x
    by_cases hi : i < s.scopes.length
    · rw [if_pos hi, List.getD_eq_getElem?_getD, List.getElem?_append_left (by rw [← h.len]; exact hi)]
      have := h.vars i x
      rw [List.getD_eq_getElem?_getD] at this
      exact this
    · rw [if_neg hi, List.getD_eq_getElem?_getD]
      by_cases hi' : i = rs.frames.length
      · subst hi'; simp
      · rw [List.getElem?_eq_none (by simp; rw [← h.len] at hi' ⊢; omega)]; rfl
  · intro i
    rw [scopeOf_pushScope]
    split
    · exact h.nofn i
    · rfl
  · show Chain (rs.frames ++ [_]) rs.frames.length (some s.scopes.length :: s.linear)
    rw [h.len]
    refine Chain.cons rs.frames.length env { parent := some env } s.linear (by simp) rfl hlt ?_
    exact Chain.ext (fun i fr hf => ⟨fr, by rw [List.getElem?_append_left (lt_of_getElem?_some hf)]; exact hf, rfl⟩) h.chain

theorem Chain.tail {frames : List Ref.Frame} {fr env : Nat} {lin : List (Option Nat)} (h : Chain frames fr lin)
    (f : Ref.Frame) (hf : frames[fr]? = some f) (hp : f.parent = some env) : Chain frames env lin.tail := by
  cases h with
  | root fr0 h0 hp0 => rw [hf] at h0; cases h0; rw [hp] at hp0; cases hp0
  | cons _ p fr0 rest h0 hp0 hlt hrest =>
    rw [hf] at h0; cases h0
    rw [hp] at hp0; cases hp0
    exact hrest

/-- `removeScope`: back in the parent environment -/
theorem RelCore.popScope {s rs fr env} (h : RelCore s rs fr) (f : Ref.Frame) (hf : rs.frames[fr]? = some f)
    (hp : f.parent = some env) : RelCore s.popScope rs env :=
  ⟨h.len, h.vars, h.nofn, h.chain.tail f hf hp, h.heap, h.trace⟩

theorem Rel.pushScope {s rs env} (h : Rel s rs env) :
    Rel s.pushScope (Ref.newFrame rs env).2 rs.frames.length :=
  ⟨h.toRelCore.pushScope, h.fnpar, h.fnclo⟩

theorem Rel.popScope {s rs fr env} (h : Rel s rs fr) (f : Ref.Frame) (hf : rs.frames[fr]? = some f)
    (hp : f.parent = some env) : Rel s.popScope rs env :=
  ⟨h.toRelCore.popScope f hf hp, h.fnpar, h.fnclo⟩

end ZygoVerif.Sim
