/-
Lemmas for C14, part 4: the abstraction to the ordered association list and the
commutation of every mutator and observer with it.
-/
import ZygoVerif.Proofs.HashInv
import ZygoVerif.Spec.OrderedMap
namespace ZygoVerif.Hash
variable {K V : Type} {o : KeyOps K}

/-- one entry of the abstract map: a KeyOrder key with the value it resolves to -/
def entry (g : K → Option V) (k : K) : Option (K × V) := (g k).map (fun v => (k, v))

/-- The association list a hash stands for: KeyOrder, each key paired with its value. -/
def abs (o : KeyOps K) (h : Hash K V) : Spec.OMap K V := h.keyOrder.filterMap (entry (get? o h))

/-! ### list lemmas, for an arbitrary resolver `g` -/

theorem fm_congr (ko : List K) (g g' : K → Option V) (h : ∀ k ∈ ko, g k = g' k) :
    ko.filterMap (entry g) = ko.filterMap (entry g') := by
  induction ko with
  | nil => rfl
  | cons a r ih =>
    simp only [List.filterMap_cons, entry, h a List.mem_cons_self]
    rw [show List.filterMap (entry g) r = List.filterMap (entry g') r from
      ih (fun k hk => h k (List.mem_cons_of_mem _ hk))]

theorem fm_keys (ko : List K) (g : K → Option V) (h : ∀ k ∈ ko, (g k).isSome = true) :
    (ko.filterMap (entry g)).map (·.1) = ko := by
  induction ko with
  | nil => rfl
  | cons a r ih =>
    have ha := h a List.mem_cons_self
    obtain ⟨v, hv⟩ := Option.isSome_iff_exists.1 ha
    simp only [List.filterMap_cons, entry, hv, Option.map_some, List.map_cons]
    rw [ih (fun k hk => h k (List.mem_cons_of_mem _ hk))]

theorem fm_mem (ko : List K) (g : K → Option V) (e : K × V) (he : e ∈ ko.filterMap (entry g)) :
    e.1 ∈ ko ∧ g e.1 = some e.2 := by
  obtain ⟨k, hk, hke⟩ := List.mem_filterMap.1 he
  simp only [entry, Option.map_eq_some_iff] at hke
  obtain ⟨v, hv, rfl⟩ := hke
  exact ⟨hk, hv⟩

theorem mem_fm (ko : List K) (g : K → Option V) (k : K) (v : V) (hk : k ∈ ko) (hv : g k = some v) :
    (k, v) ∈ ko.filterMap (entry g) :=
  List.mem_filterMap.2 ⟨k, hk, by simp [entry, hv]⟩

/-- value update of the entries equal to `k` = re-resolving with the updated resolver -/
theorem fm_update (ko : List K) (g : K → Option V) (k : K) (v : V)
    (hl : ∀ k' ∈ ko, o.keq k' k = true → (g k').isSome = true) :
    (ko.filterMap (entry g)).map (fun e => if o.keq e.1 k then (e.1, v) else e) =
      ko.filterMap (entry (fun k' => if o.keq k' k then some v else g k')) := by
  induction ko with
  | nil => rfl
  | cons a r ih =>
    have ih' := ih (fun k' hk' => hl k' (List.mem_cons_of_mem _ hk'))
    simp only [List.filterMap_cons, entry] at ih' ⊢
    by_cases hq : o.keq a k = true
    · obtain ⟨x, hx⟩ := Option.isSome_iff_exists.1 (hl a List.mem_cons_self hq)
      simp only [hx, Option.map_some, List.map_cons, hq, if_true]
      rw [ih']
    · have hq' : o.keq a k = false := by simpa using hq
      cases hg : g a with
      | none => simp only [hq', Bool.false_eq_true, if_false, hg, Option.map_none]; exact ih'
      | some x =>
        simp only [hq', Bool.false_eq_true, if_false, hg, Option.map_some, List.map_cons]
        rw [ih']

/-- dropping the entries equal to `k` = re-resolving with `k` removed from the resolver -/
theorem fm_erase (ko : List K) (g : K → Option V) (k : K) :
    ko.filterMap (entry (fun k' => if o.keq k' k then none else g k')) =
      (ko.filterMap (entry g)).filter (fun e => !o.keq e.1 k) := by
  induction ko with
  | nil => rfl
  | cons a r ih =>
    simp only [List.filterMap_cons, entry] at ih ⊢
    by_cases hq : o.keq a k = true
    · simp only [hq, if_true, Option.map_none]
      cases hg : g a with
      | none => simp only [Option.map_none]; exact ih
      | some x => simp only [Option.map_some, List.filter_cons, hq, Bool.not_true, Bool.false_eq_true, if_false]; exact ih
    · have hq' : o.keq a k = false := by simpa using hq
      simp only [hq', Bool.false_eq_true, if_false]
      cases hg : g a with
      | none => simp only [Option.map_none]; exact ih
      | some x => simp only [Option.map_some, List.filter_cons, hq', Bool.not_false, if_true]; rw [ih]

/-- … and the first KeyOrder entry equal to `k` may as well be removed first -/
theorem fm_koRemove (ko : List K) (g : K → Option V) (k : K) :
    (koRemove o ko k).filterMap (entry (fun k' => if o.keq k' k then none else g k')) =
      ko.filterMap (entry (fun k' => if o.keq k' k then none else g k')) := by
  induction ko with
  | nil => rfl
  | cons a r ih =>
    simp only [koRemove]
    by_cases hq : o.keq a k = true
    · simp [hq, entry]
    · have hq' : o.keq a k = false := by simpa using hq
      simp only [hq', Bool.false_eq_true, if_false, List.filterMap_cons, ih]

theorem fm_getElem? (ko : List K) (g : K → Option V) (h : ∀ k ∈ ko, (g k).isSome = true) (i : Nat) :
    (ko.filterMap (entry g))[i]? = (ko[i]?).bind (entry g) := by
  induction ko generalizing i with
  | nil => simp
  | cons a r ih =>
    obtain ⟨v, hv⟩ := Option.isSome_iff_exists.1 (h a List.mem_cons_self)
    have ih' := ih (fun k hk => h k (List.mem_cons_of_mem _ hk))
    cases i with
    | zero => simp [entry, hv]
    | succ j =>
      simp only [List.filterMap_cons, entry, hv, Option.map_some, List.getElem?_cons_succ]
      exact ih' j

theorem fm_lookup (ko : List K) (g : K → Option V) (k : K)
    (hc : ∀ k0 ∈ ko, o.keq k0 k = true → g k0 = g k) :
    Spec.lookup o.keq (ko.filterMap (entry g)) k =
      if ko.any (fun k0 => o.keq k0 k && (g k0).isSome) then g k else none := by
  induction ko with
  | nil => rfl
  | cons a r ih =>
    have ih' := ih (fun k0 h0 => hc k0 (List.mem_cons_of_mem _ h0))
    simp only [Spec.lookup, List.filterMap_cons, entry, List.any_cons] at ih' ⊢
    have hga : g a = none ∨ ∃ x, g a = some x := by cases g a <;> simp
    rcases hga with hg | ⟨x, hg⟩
    · simp only [hg, Option.map_none, Option.isSome_none, Bool.and_false, Bool.false_or]; exact ih'
    · by_cases hq : o.keq a k = true
      · have := hc a List.mem_cons_self hq
        rw [hg] at this
        simp [hg, hq, ← this]
      · have hq' : o.keq a k = false := by simpa using hq
        simp only [hg, Option.map_some, List.find?_cons, hq', Bool.false_and, Bool.false_or]
        exact ih'

/-! ### mutators commute with the abstraction -/

section commute
variable (L : KeyLaws o)
include L

theorem live_keq_false (h : Hash K V) (I : Inv o h) (k : K) (hs : (get? o h k).isSome = false) :
    ∀ k' ∈ h.keyOrder, o.keq k' k = false := by
  intro k' hk'
  cases hq : o.keq k' k
  · rfl
  · have := I.koLive k' hk'
    rw [get?_congr L h hq] at this
    simp_all

theorem get?_set' (h : Hash K V) (k : K) (v : V) :
    get? o (set o h k v) = fun k' => if o.keq k' k then some v else get? o h k' := by
  funext k'; rw [get?_set L, keq_comm L]

theorem get?_del' (h : Hash K V) (I : Inv o h) (k : K) :
    get? o (del o h k) = fun k' => if o.keq k' k then none else get? o h k' := by
  funext k'; rw [get?_del L h k k' I.bucketPw, keq_comm L]

theorem abs_set (h : Hash K V) (I : Inv o h) (k : K) (v : V) :
    abs o (set o h k v) = Spec.set o.keq (abs o h) k v := by
  unfold abs Spec.set
  rw [get?_set' L, set_keyOrder]
  cases hs : (get? o h k).isSome
  · have hf := live_keq_false L h I k hs
    have hany : (h.keyOrder.filterMap (entry (get? o h))).any (fun e => o.keq e.1 k) = false := by
      rw [List.any_eq_false]
      intro e he
      have := hf e.1 (fm_mem _ _ e he).1
      simp [this]
    simp only [Bool.false_eq_true, if_false, hany, List.filterMap_append]
    congr 1
    · exact fm_congr _ _ _ (fun k' hk' => by simp [hf k' hk'])
    · simp [entry, L.refl]
  · obtain ⟨k0, h0, hq0⟩ := I.rep k hs
    obtain ⟨x, hx⟩ := Option.isSome_iff_exists.1 (I.koLive k0 h0)
    have hany : (h.keyOrder.filterMap (entry (get? o h))).any (fun e => o.keq e.1 k) = true := by
      rw [List.any_eq_true]
      exact ⟨(k0, x), mem_fm _ _ _ _ h0 hx, hq0⟩
    simp only [if_true, hany]
    exact (fm_update _ _ _ _ (fun k' hk' _ => I.koLive k' hk')).symm

theorem abs_del (h : Hash K V) (I : Inv o h) (k : K) :
    abs o (del o h k) = Spec.del o.keq (abs o h) k := by
  cases hs : (get? o h k).isSome
  · have : get? o h k = none := by cases hg : get? o h k <;> simp_all
    rw [del_missing h k this]
    have hf := live_keq_false L h I k hs
    unfold Spec.del abs
    symm
    rw [List.filter_eq_self]
    intro e he
    simp [hf e.1 (fm_mem _ _ e he).1]
  · unfold abs Spec.del
    rw [get?_del' L h I, del_keyOrder, hs]
    simp only [if_true]
    rw [fm_koRemove, fm_erase]

theorem abs_lookup (h : Hash K V) (I : Inv o h) (k : K) :
    Spec.lookup o.keq (abs o h) k = get? o h k := by
  unfold abs
  rw [fm_lookup _ _ _ (fun k0 _ hq => get?_congr L h hq)]
  cases hg : get? o h k with
  | none => simp
  | some x =>
    obtain ⟨k0, h0, hq0⟩ := I.rep k (by simp [hg])
    have : h.keyOrder.any (fun k0 => o.keq k0 k && (get? o h k0).isSome) = true := by
      rw [List.any_eq_true]
      exact ⟨k0, h0, by simp [hq0, I.koLive k0 h0]⟩
    simp [this]

end commute

/-! ### observers -/

theorem abs_keys (h : Hash K V) (I : Inv o h) : (abs o h).map (·.1) = h.keyOrder :=
  fm_keys _ _ I.koLive

theorem abs_length (h : Hash K V) (I : Inv o h) : (abs o h).length = h.keyOrder.length := by
  rw [← abs_keys h I, List.length_map]

theorem countKeys_inv (h : Hash K V) (I : Inv o h) : countKeys h = some ((abs o h).length : Int) := by
  unfold countKeys
  rw [← I.numKeys_eq, I.numKeys_eq, I.count, abs_length h I]
  simp

theorem firstLive_live (h : Hash K V) (l : List K) (hl : ∀ k ∈ l, (get? o h k).isSome = true) :
    firstLive o h l = l.head?.bind (entry (get? o h)) := by
  cases l with
  | nil => rfl
  | cons a r =>
    obtain ⟨x, hx⟩ := Option.isSome_iff_exists.1 (hl a List.mem_cons_self)
    simp [firstLive, hx, entry]

theorem pairi_inv (h : Hash K V) (I : Inv o h) (pos : Nat) (hp : pos < h.keyOrder.length) :
    pairi o h pos = match (abs o h)[pos]? with
      | some (k, v) => .pair k v
      | none => .err := by
  unfold pairi
  have hnk : ¬ ((pos : Int) > h.numKeys) := by rw [I.numKeys_eq, I.count]; omega
  simp only [hnk, if_false]
  rw [firstLive_live h _ (fun k hk => I.koLive k (List.mem_of_mem_drop hk))]
  unfold abs
  rw [fm_getElem? _ _ I.koLive, List.head?_drop]
  obtain ⟨x, hx⟩ := Option.isSome_iff_exists.1 (I.koLive h.keyOrder[pos] (List.getElem_mem hp))
  simp [List.getElem?_eq_getElem hp, entry, hx]

theorem hpair_inv (h : Hash K V) (I : Inv o h) (pos : Nat) :
    hpair o h pos = match (abs o h)[pos]? with
      | some (k, v) => .pair k v
      | none => .err := by
  unfold hpair
  by_cases hp : pos < h.keyOrder.length
  · simp only [hp, if_true]; exact pairi_inv h I pos hp
  · have : (abs o h)[pos]? = none := by
      rw [List.getElem?_eq_none_iff, abs_length h I]; omega
    simp [hp, this]

theorem collect_pairs (l : List (K × V)) (acc : List (K × V)) :
    collect (l.map (fun e => (Obs.pair e.1 e.2 : Obs K V))) acc = .pairs (acc ++ l) := by
  induction l generalizing acc with
  | nil => simp [collect]
  | cons a r ih => simp [collect, ih]

theorem range_inv (h : Hash K V) (I : Inv o h) : range o h = .pairs (abs o h) := by
  unfold range
  rw [countKeys_inv h I]
  simp only [Int.toNat_natCast]
  have : (List.range (abs o h).length).map (rangePair o h) =
      (abs o h).map (fun e => (Obs.pair e.1 e.2 : Obs K V)) := by
    apply List.ext_getElem
    · simp
    · intro i h1 h2
      simp only [List.length_map, List.length_range] at h1
      simp only [List.getElem_map, List.getElem_range]
      unfold rangePair
      rw [countKeys_inv h I]
      have : ¬ ((i : Int) ≥ ((abs o h).length : Int)) := by omega
      simp only [this, if_false]
      rw [pairi_inv h I i (by rw [← abs_length h I]; exact h1)]
      simp [List.getElem?_eq_getElem h1]
  rw [this, collect_pairs]; simp

end ZygoVerif.Hash
