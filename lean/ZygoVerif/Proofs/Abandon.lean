/-
Proofs about the suspended coroutine and the call-by-call protocol of `Model/Abandon`.
-/
import ZygoVerif.Model.Abandon
import ZygoVerif.Proofs.ParseChunks
set_option linter.unusedSimpArgs false
namespace ZygoVerif.Parser
open ZygoVerif.Lexer

/-! ## forgetting the annotation gives the parser of `Model/Parser` -/

theorem SProg.erase_bind {α β : Type} (p : SProg α) (f : α → SProg β) :
    (p.bind f).erase = p.erase.bind (fun a => (f a).erase) := by
  induction p with
  | pure a => rfl
  | fail => rfl
  | waitPeek n k ih => simp only [SProg.bind, SProg.erase, Prog.bind, ih]
  | waitLoop on k _ ih => simp only [SProg.bind, SProg.erase, Prog.bind, ih]
  | signPeek k ih => simp only [SProg.bind, SProg.erase, Prog.bind, ih]
  | peekAt n k ih => simp only [SProg.bind, SProg.erase, Prog.bind, ih]
  | getTok k ih => simp only [SProg.bind, SProg.erase, Prog.bind, ih]
  | topGet k ih => simp only [SProg.bind, SProg.erase, Prog.bind, ih]
  | pushTok t k ih => simp only [SProg.bind, SProg.erase, Prog.bind, ih]
  | pushExpr e k ih => simp only [SProg.bind, SProg.erase, Prog.bind, ih]

theorem SProg.erase_ite {α : Type} (c : Prop) [Decidable c] (a b : SProg α) :
    (if c then a else b).erase = if c then a.erase else b.erase := by
  split <;> rfl

/-- all eight functions of the recursive descent at one fuel level -/
def EraseOK (f : Nat) : Prop :=
  (∀ tok, (S.parseExprTok f tok).erase = parseExprTok f tok) ∧
  (∀ t e, (S.skipComments f t e).erase = skipComments f t e) ∧
  ((S.parseExprNested f).erase = parseExprNested f) ∧
  (∀ e, (S.parseList f e).erase = parseList f e) ∧
  (∀ a, (S.parseArray f a).erase = parseArray f a) ∧
  (∀ a, (S.parseInfix f a).erase = parseInfix f a) ∧
  (∀ a, (S.parseBlockComment f a).erase = parseBlockComment f a) ∧
  ((S.parseBacktick f).erase = parseBacktick f)

theorem eraseOK_zero : EraseOK 0 := by
  refine ⟨?_, ?_, ?_, ?_, ?_, ?_, ?_, ?_⟩ <;> intros <;>
    simp only [S.parseExprTok, S.skipComments, S.parseExprNested, S.parseList, S.parseArray, S.parseInfix,
      S.parseBlockComment, S.parseBacktick, parseExprTok, skipComments, parseExprNested, parseList, parseArray,
      parseInfix, parseBlockComment, parseBacktick, S.fail, fail, SProg.erase]

theorem erase_parseExprTok_succ (f : Nat) (h : EraseOK f) (tok : Token) :
    (S.parseExprTok (f + 1) tok).erase = parseExprTok (f + 1) tok := by
  obtain ⟨_, h0, h1, h2, h3, h4, h5, h6⟩ := h
  rw [S.parseExprTok, parseExprTok]
  obtain ⟨ty, str⟩ := tok
  cases ty <;>
  simp only [bind, pure, S.waitPeek, S.popTok, S.fail, S.signPeek, S.tokAt, S.pushTok, waitPeek, popTok, fail,
    signPeek, tokAt, pushTok, SProg.erase, SProg.erase_bind, SProg.erase_ite, SProg.bind, Prog.bind, h0, h1, h2, h3, h5, h6]
  case lcurly =>
    congr 1; funext t; congr 1; funext a
    generalize a.fst.typ = ty
    cases ty <;> simp only [SProg.erase, SProg.erase_ite, h2, h4]
  case symbol =>
    split
    · congr 1; funext t
      split
      · congr 1; funext _
        generalize NumLit.parseFloat _ = o
        cases o <;> rfl
      · rfl
    · rfl
  all_goals first
    | rfl
    | (generalize atomOfTok _ = o; rcases o with _ | _ | _ <;> rfl)

theorem eraseOK_succ (f : Nat) (h : EraseOK f) : EraseOK (f + 1) := by
  have hh := h
  obtain ⟨hT, h0, h1, h2, h3, h4, h5, h6⟩ := hh
  refine ⟨erase_parseExprTok_succ f h, ?_, ?_, ?_, ?_, ?_, ?_, ?_⟩
  · intro t e
    rw [S.skipComments, skipComments]
    simp only [bind, pure, S.tokAt, tokAt, SProg.erase, SProg.erase_bind, SProg.erase_ite, SProg.bind, Prog.bind, h0]
  · rw [S.parseExprNested, parseExprNested]
    simp only [bind, pure, S.waitPeek, S.popTok, waitPeek, popTok, SProg.erase, SProg.erase_bind, SProg.bind, Prog.bind, hT]
  · intro e
    rw [S.parseList, parseList]
    simp only [bind, pure, S.loopPeek, S.waitPeek, S.popTok, S.fail, waitPeek, popTok, fail,
      SProg.erase, SProg.erase_bind, SProg.erase_ite, SProg.bind, Prog.bind, h1, h2]
  · intro a
    rw [S.parseArray, parseArray]
    simp only [bind, pure, S.loopPeek, S.waitPeek, S.popTok, S.fail, waitPeek, popTok, fail,
      SProg.erase, SProg.erase_bind, SProg.erase_ite, SProg.bind, Prog.bind, h1, h3]
  · intro a
    rw [S.parseInfix, parseInfix]
    simp only [bind, pure, S.loopPeek, S.waitPeek, S.popTok, S.fail, waitPeek, popTok, fail,
      SProg.erase, SProg.erase_bind, SProg.erase_ite, SProg.bind, Prog.bind, h1, h4]
  · intro a
    rw [S.parseBlockComment, parseBlockComment]
    simp only [bind, pure, S.loopPeek, S.waitPeek, S.popTok, S.fail, waitPeek, popTok, fail,
      SProg.erase, SProg.erase_bind, SProg.erase_ite, SProg.bind, Prog.bind, h5]
  · rw [S.parseBacktick, parseBacktick]
    simp only [bind, pure, S.loopPeek, S.waitPeek, S.popTok, S.fail, waitPeek, popTok, fail,
      SProg.erase, SProg.erase_bind, SProg.erase_ite, SProg.bind, Prog.bind]

theorem eraseOK (f : Nat) : EraseOK f := by
  induction f with
  | zero => exact eraseOK_zero
  | succ n ih => exact eraseOK_succ n ih

/-- **The annotated parser is the parser.** Forgetting what a stopped `yield` does turns
`S.topLoop` into `Model/Parser.topLoop`, instruction by instruction: the two are one program,
and every theorem about `run (topLoop f)` is a theorem about `run (S.topLoop f).erase`. -/
theorem erase_topLoop (f : Nat) : (S.topLoop f).erase = topLoop f := by
  induction f with
  | zero => simp only [S.topLoop, topLoop, S.fail, fail, SProg.erase]
  | succ n ih =>
    rw [S.topLoop, topLoop]
    simp only [bind, pure, S.topGet, topGet, S.pushExpr, pushExpr, SProg.erase, SProg.erase_bind, SProg.bind, Prog.bind]
    congr 1; funext t
    cases t with
    | none => rfl
    | some tok => simp only [SProg.erase_bind, SProg.erase, (eraseOK n).1 tok, ih]

/-! ## the suspended program -/

/-- is the outcome of a run "more input needed"? -/
def Fin.isMore {α : Type} : Fin α → Bool
  | .stop .more => true
  | _ => false

/-- a waiting instruction at the head: what a suspended coroutine is blocked in -/
def SProg.isWait {α : Type} : SProg α → Bool
  | .waitPeek _ _ | .waitLoop _ _ | .signPeek _ | .peekAt _ _ | .getTok _ | .topGet _ => true
  | _ => false

/-- **A coroutine is suspended exactly when the parse answered "more input needed"**, and what it
is blocked in is a waiting instruction — for every program and every state. (`PSt.parseTokens`
keeps `residual` as `Parser.next`.) -/
theorem residual_iff_more {α : Type} (p : SProg α) (s : PState) :
    (residual p s).isSome = (run p.erase s).1.isMore ∧ (∀ κ, residual p s = some κ → κ.isWait = true) := by
  induction p generalizing s with
  | pure a => exact ⟨rfl, by intro κ h; simp [residual] at h⟩
  | fail => exact ⟨rfl, by intro κ h; simp [residual] at h⟩
  | waitPeek n k ih =>
    simp only [residual, SProg.erase, run]
    cases peekWaitRun false n (s.size + 1) s with
    | tok t s' => exact ih t s'
    | stop st s' => cases st <;> simp [Fin.isMore, SProg.isWait]
  | waitLoop on k _ ih =>
    simp only [residual, SProg.erase, run]
    cases peekWaitRun false 0 (s.size + 1) s with
    | tok t s' => exact ih t s'
    | stop st s' => cases st <;> simp [Fin.isMore, SProg.isWait]
  | signPeek k ih =>
    simp only [residual, SProg.erase, run]
    cases peekWaitRun true 0 (s.size + 1) s with
    | tok t s' => exact ih t s'
    | stop st s' => cases st <;> simp [Fin.isMore, SProg.isWait]
  | peekAt n k ih =>
    simp only [residual, SProg.erase, run]
    cases peekWaitRun false n (s.size + 1) s with
    | tok t s' =>
      simp only
      cases s'.lex.tokens[n]? with
      | some t' => exact ih t' s'
      | none => simp [Fin.isMore]
    | stop st s' => cases st <;> simp [Fin.isMore, SProg.isWait]
  | getTok k ih =>
    simp only [residual, SProg.erase, run]
    cases peekWaitRun false 0 (s.size + 1) s with
    | tok t s' => exact ih t _
    | stop st s' => cases st <;> simp [Fin.isMore, SProg.isWait]
  | topGet k ih =>
    simp only [residual, SProg.erase, run]
    cases topGetRun (s.size + 1) s with
    | tok t s' => exact ih (some t) s'
    | finished st s' =>
      cases st with
      | done => exact ih none s'
      | more => simp [Fin.isMore, SProg.isWait]
      | err => simp [Fin.isMore]
  | pushTok t k ih => simp only [residual, SProg.erase, run]; exact ih _
  | pushExpr e k ih => simp only [residual, SProg.erase, run]; exact ih _

/-! ## resuming the suspended program -/

/-- where a run on a view comes to rest for lack of input: `(ended, κ, v')` — the program `κ`
(its head is the instruction that found no input) on the view `v'`; `ended` = the top level
answered `done` (the Go iterator returns; the next `ParseTokens` starts a new one, which is the
same loop), otherwise a coroutine stays blocked in a "more input needed" yield -/
def suspendA {α : Type} : SProg α → View → Option (Bool × SProg α × View)
  | .pure _, _ => none
  | .fail, _ => none
  | .waitPeek n k, v =>
    (match peekWaitA false n v.exprs v.fin v.runes v.core with
     | .tok t v' => suspendA (k t) v'
     | .stop .more v' => some (false, .waitPeek n k, v')
     | .stop _ _ => none)
  | .waitLoop on k, v =>
    (match peekWaitA false 0 v.exprs v.fin v.runes v.core with
     | .tok t v' => suspendA (k t) v'
     | .stop .more v' => some (false, .waitLoop on k, v')
     | .stop _ _ => none)
  | .signPeek k, v =>
    (match peekWaitA true 0 v.exprs v.fin v.runes v.core with
     | .tok t v' => suspendA (k t) v'
     | .stop .more v' => some (false, .signPeek k, v')
     | .stop _ _ => none)
  | .topGet k, v =>
    (match topGetA v.exprs v.fin v.runes v.core with
     | .tok t v' => suspendA (k (some t)) v'
     | .finished .done v' => some (true, .topGet k, v')
     | .finished .more v' => some (false, .topGet k, v')
     | .finished .err _ => none)
  | .peekAt i k, v =>
    (match peekWaitA false i v.exprs v.fin v.runes v.core with
     | .tok _ v' =>
       (match v'.core.tokens[i]? with
        | some t => suspendA (k t) v'
        | none => none)
     | .stop .more v' => some (false, .peekAt i k, v')
     | .stop _ _ => none)
  | .getTok k, v =>
    (match peekWaitA false 0 v.exprs v.fin v.runes v.core with
     | .tok t v' => suspendA (k t) { v' with core := { v'.core with tokens := v'.core.tokens.tail } }
     | .stop .more v' => some (false, .getTok k, v')
     | .stop _ _ => none)
  | .pushTok t k, v => suspendA k { v with core := { v.core with tokens := t :: v.core.tokens } }
  | .pushExpr e k, v => suspendA k { v with exprs := v.exprs ++ [e] }

/-- more input behind the input of a look-ahead that found a token, ran out, or failed (end of
input not signalled while the first part is read) -/
theorem peekWaitA_append (b : Bool) (n : Nat) (ex : List Sexp) (rs : List Char) (c : LexCore)
    (more : List Char) (fin' : Bool) :
    match peekWaitA b n ex false rs c with
    | .tok t v' => v'.exprs = ex ∧ v'.fin = false ∧ peekWaitA b n ex fin' (rs ++ more) c = .tok t ⟨v'.core, v'.runes ++ more, ex, fin'⟩
    | .stop .more v' => v'.runes = [] ∧ v'.exprs = ex ∧
        peekWaitA b n ex fin' (rs ++ more) c = peekWaitA b n ex fin' more v'.core
    | .stop _ _ => True := by
  induction rs generalizing c with
  | nil =>
    simp only [peekWaitA, List.nil_append]
    cases h : headIf n c with
    | some t => simp [peekWaitA_headIf _ _ _ _ _ _ _ h]
    | none => simp
  | cons r rs ih =>
    simp only [peekWaitA, List.cons_append]
    cases h : headIf n c with
    | some t => simp
    | none =>
      simp only
      cases hs : step c r with
      | ok c' => exact ih c'
      | err e c' => trivial

theorem topGetA_append (ex : List Sexp) (rs : List Char) (c : LexCore) (more : List Char) (fin' : Bool) :
    match topGetA ex false rs c with
    | .tok t v' => v'.exprs = ex ∧ v'.fin = false ∧ topGetA ex fin' (rs ++ more) c = .tok t ⟨v'.core, v'.runes ++ more, ex, fin'⟩
    | .finished .err _ => True
    | .finished _ v' => v'.runes = [] ∧ v'.exprs = ex ∧ topGetA ex fin' (rs ++ more) c = topGetA ex fin' more v'.core := by
  induction rs generalizing c with
  | nil =>
    simp only [topGetA, List.nil_append]
    cases h : c.tokens with
    | cons t ts => simp [topGetA_tok _ _ _ _ t ts h]
    | nil =>
      simp only
      cases hl : inLiteral c <;> simp
  | cons r rs ih =>
    simp only [topGetA, List.cons_append]
    cases h : c.tokens with
    | cons t ts => simp
    | nil =>
      simp only
      cases hs : step c r with
      | ok c' => exact ih c'
      | err e c' => trivial

/-- **The suspended program is the rest of the run.** If a program comes to rest on a view for
lack of input (a coroutine blocked in a "more input needed" yield, or the top level answered
`done`), then running the ORIGINAL program on the input followed by any further input `more` is
running the SUSPENDED program, from the state it rested in, on `more` — for every program, whatever
the end-of-input mark of the continuation. -/
theorem resume_is_rest_of_run {α : Type} (p : SProg α) (v : View) (hfin : v.fin = false)
    (e : Bool) (κ : SProg α) (v' : View) (h : suspendA p v = some (e, κ, v')) :
    v'.runes = [] ∧ ∀ more fin',
      runA p.erase ⟨v.core, v.runes ++ more, v.exprs, fin'⟩ = runA κ.erase ⟨v'.core, more, v'.exprs, fin'⟩ := by
  induction p generalizing v with
  | pure a => simp [suspendA] at h
  | fail => simp [suspendA] at h
  | waitPeek n k ih =>
    simp only [suspendA, hfin] at h
    have A := fun more fin' => peekWaitA_append false n v.exprs v.runes v.core more fin'
    cases hp : peekWaitA false n v.exprs false v.runes v.core with
    | tok t v1 =>
      simp only [hp] at h A
      obtain ⟨i1, i2⟩ := ih t v1 (A [] false).2.1 h
      refine ⟨i1, fun more fin' => ?_⟩
      obtain ⟨a1, _, a3⟩ := A more fin'
      simp only [SProg.erase, runA, a3]
      rw [← a1]; exact i2 more fin'
    | stop st v1 =>
      cases st with
      | more =>
        simp only [hp, Option.some.injEq, Prod.mk.injEq] at h A
        obtain ⟨_, rfl, rfl⟩ := h
        refine ⟨(A [] false).1, fun more fin' => ?_⟩
        obtain ⟨_, a2, a3⟩ := A more fin'
        simp only [SProg.erase, runA, a3, a2]
      | done => simp [hp] at h
      | err => simp [hp] at h
  | waitLoop on k _ ih =>
    simp only [suspendA, hfin] at h
    have A := fun more fin' => peekWaitA_append false 0 v.exprs v.runes v.core more fin'
    cases hp : peekWaitA false 0 v.exprs false v.runes v.core with
    | tok t v1 =>
      simp only [hp] at h A
      obtain ⟨i1, i2⟩ := ih t v1 (A [] false).2.1 h
      refine ⟨i1, fun more fin' => ?_⟩
      obtain ⟨a1, _, a3⟩ := A more fin'
      simp only [SProg.erase, runA, a3]
      rw [← a1]; exact i2 more fin'
    | stop st v1 =>
      cases st with
      | more =>
        simp only [hp, Option.some.injEq, Prod.mk.injEq] at h A
        obtain ⟨_, rfl, rfl⟩ := h
        refine ⟨(A [] false).1, fun more fin' => ?_⟩
        obtain ⟨_, a2, a3⟩ := A more fin'
        simp only [SProg.erase, runA, a3, a2]
      | done => simp [hp] at h
      | err => simp [hp] at h
  | signPeek k ih =>
    simp only [suspendA, hfin] at h
    have A := fun more fin' => peekWaitA_append true 0 v.exprs v.runes v.core more fin'
    cases hp : peekWaitA true 0 v.exprs false v.runes v.core with
    | tok t v1 =>
      simp only [hp] at h A
      obtain ⟨i1, i2⟩ := ih t v1 (A [] false).2.1 h
      refine ⟨i1, fun more fin' => ?_⟩
      obtain ⟨a1, _, a3⟩ := A more fin'
      simp only [SProg.erase, runA, a3]
      rw [← a1]; exact i2 more fin'
    | stop st v1 =>
      cases st with
      | more =>
        simp only [hp, Option.some.injEq, Prod.mk.injEq] at h A
        obtain ⟨_, rfl, rfl⟩ := h
        refine ⟨(A [] false).1, fun more fin' => ?_⟩
        obtain ⟨_, a2, a3⟩ := A more fin'
        simp only [SProg.erase, runA, a3, a2]
      | done => simp [hp] at h
      | err => simp [hp] at h
  | peekAt n k ih =>
    simp only [suspendA, hfin] at h
    have A := fun more fin' => peekWaitA_append false n v.exprs v.runes v.core more fin'
    cases hp : peekWaitA false n v.exprs false v.runes v.core with
    | tok t v1 =>
      simp only [hp] at h A
      cases hq : v1.core.tokens[n]? with
      | none => simp [hq] at h
      | some t' =>
        simp only [hq] at h
        obtain ⟨i1, i2⟩ := ih t' v1 (A [] false).2.1 h
        refine ⟨i1, fun more fin' => ?_⟩
        obtain ⟨a1, _, a3⟩ := A more fin'
        simp only [SProg.erase, runA, a3, hq]
        rw [← a1]; exact i2 more fin'
    | stop st v1 =>
      cases st with
      | more =>
        simp only [hp, Option.some.injEq, Prod.mk.injEq] at h A
        obtain ⟨_, rfl, rfl⟩ := h
        refine ⟨(A [] false).1, fun more fin' => ?_⟩
        obtain ⟨_, a2, a3⟩ := A more fin'
        simp only [SProg.erase, runA, a3, a2]
      | done => simp [hp] at h
      | err => simp [hp] at h
  | getTok k ih =>
    simp only [suspendA, hfin] at h
    have A := fun more fin' => peekWaitA_append false 0 v.exprs v.runes v.core more fin'
    cases hp : peekWaitA false 0 v.exprs false v.runes v.core with
    | tok t v1 =>
      simp only [hp] at h A
      obtain ⟨i1, i2⟩ := ih t { v1 with core := { v1.core with tokens := v1.core.tokens.tail } } (A [] false).2.1 h
      refine ⟨i1, fun more fin' => ?_⟩
      obtain ⟨a1, _, a3⟩ := A more fin'
      simp only [SProg.erase, runA, a3]
      rw [← a1]; exact i2 more fin'
    | stop st v1 =>
      cases st with
      | more =>
        simp only [hp, Option.some.injEq, Prod.mk.injEq] at h A
        obtain ⟨_, rfl, rfl⟩ := h
        refine ⟨(A [] false).1, fun more fin' => ?_⟩
        obtain ⟨_, a2, a3⟩ := A more fin'
        simp only [SProg.erase, runA, a3, a2]
      | done => simp [hp] at h
      | err => simp [hp] at h
  | topGet k ih =>
    simp only [suspendA, hfin] at h
    have A := fun more fin' => topGetA_append v.exprs v.runes v.core more fin'
    cases hp : topGetA v.exprs false v.runes v.core with
    | tok t v1 =>
      simp only [hp] at h A
      obtain ⟨i1, i2⟩ := ih (some t) v1 (A [] false).2.1 h
      refine ⟨i1, fun more fin' => ?_⟩
      obtain ⟨a1, _, a3⟩ := A more fin'
      simp only [SProg.erase, runA, a3]
      rw [← a1]; exact i2 more fin'
    | finished st v1 =>
      cases st with
      | err => simp [hp] at h
      | more =>
        simp only [hp, Option.some.injEq, Prod.mk.injEq] at h A
        obtain ⟨_, rfl, rfl⟩ := h
        refine ⟨(A [] false).1, fun more fin' => ?_⟩
        obtain ⟨_, a2, a3⟩ := A more fin'
        simp only [SProg.erase, runA, a3, a2]
      | done =>
        simp only [hp, Option.some.injEq, Prod.mk.injEq] at h A
        obtain ⟨_, rfl, rfl⟩ := h
        refine ⟨(A [] false).1, fun more fin' => ?_⟩
        obtain ⟨_, a2, a3⟩ := A more fin'
        simp only [SProg.erase, runA, a3, a2]
  | pushTok t k ih =>
    simp only [suspendA] at h
    obtain ⟨i1, i2⟩ := ih { v with core := { v.core with tokens := t :: v.core.tokens } } hfin h
    exact ⟨i1, fun more fin' => by simpa [SProg.erase, runA] using i2 more fin'⟩
  | pushExpr e' k ih =>
    simp only [suspendA] at h
    obtain ⟨i1, i2⟩ := ih { v with exprs := v.exprs ++ [e'] } hfin h
    exact ⟨i1, fun more fin' => by simpa [SProg.erase, runA] using i2 more fin'⟩

/-- the concrete `residual` (what `PSt.parseTokens` keeps as the coroutine) is the program the
abstract run comes to rest in, whenever that is a blocked coroutine -/
theorem residual_of_suspendA {α : Type} (p : SProg α) (s : PState) (hi : Inv s)
    (κ : SProg α) (v' : View) (h : suspendA p (view s) = some (false, κ, v')) :
    residual p s = some κ ∧ view (run p.erase s).2 = v' ∧ (run p.erase s).1.isMore = true := by
  induction p generalizing s with
  | pure a => simp [suspendA] at h
  | fail => simp [suspendA] at h
  | waitPeek n k ih =>
    have hsim := peekWait_sim false n (s.size + 1) s hi (Nat.lt_succ_self _)
    have hv := view_fields s
    simp only [suspendA, hv.1, hv.2.1, hv.2.2.1, hv.2.2.2, ← hsim.1] at h
    simp only [residual, SProg.erase, run]
    cases hpw : peekWaitRun false n (s.size + 1) s with
    | tok t s' =>
      have hinv : Inv s' := by simpa [hpw, PeekOut.inv] using hsim.2
      simp only [hpw, PeekOut.toA] at h
      exact ih t s' hinv h
    | stop st s' =>
      simp only [hpw, PeekOut.toA] at h
      cases st <;> simp_all [Fin.isMore]
  | waitLoop on k _ ih =>
    have hsim := peekWait_sim false 0 (s.size + 1) s hi (Nat.lt_succ_self _)
    have hv := view_fields s
    simp only [suspendA, hv.1, hv.2.1, hv.2.2.1, hv.2.2.2, ← hsim.1] at h
    simp only [residual, SProg.erase, run]
    cases hpw : peekWaitRun false 0 (s.size + 1) s with
    | tok t s' =>
      have hinv : Inv s' := by simpa [hpw, PeekOut.inv] using hsim.2
      simp only [hpw, PeekOut.toA] at h
      exact ih t s' hinv h
    | stop st s' =>
      simp only [hpw, PeekOut.toA] at h
      cases st <;> simp_all [Fin.isMore]
  | signPeek k ih =>
    have hsim := peekWait_sim true 0 (s.size + 1) s hi (Nat.lt_succ_self _)
    have hv := view_fields s
    simp only [suspendA, hv.1, hv.2.1, hv.2.2.1, hv.2.2.2, ← hsim.1] at h
    simp only [residual, SProg.erase, run]
    cases hpw : peekWaitRun true 0 (s.size + 1) s with
    | tok t s' =>
      have hinv : Inv s' := by simpa [hpw, PeekOut.inv] using hsim.2
      simp only [hpw, PeekOut.toA] at h
      exact ih t s' hinv h
    | stop st s' =>
      simp only [hpw, PeekOut.toA] at h
      cases st <;> simp_all [Fin.isMore]
  | peekAt n k ih =>
    have hsim := peekWait_sim false n (s.size + 1) s hi (Nat.lt_succ_self _)
    have hv := view_fields s
    simp only [suspendA, hv.1, hv.2.1, hv.2.2.1, hv.2.2.2, ← hsim.1] at h
    simp only [residual, SProg.erase, run]
    cases hpw : peekWaitRun false n (s.size + 1) s with
    | tok t s' =>
      have hinv : Inv s' := by simpa [hpw, PeekOut.inv] using hsim.2
      have ht : (view s').core.tokens = s'.lex.tokens := rfl
      simp only [hpw, PeekOut.toA, ht] at h
      simp only
      cases hq : s'.lex.tokens[n]? with
      | some t' => simp only [hq] at h; exact ih t' s' hinv h
      | none => simp [hq] at h
    | stop st s' =>
      simp only [hpw, PeekOut.toA] at h
      cases st <;> simp_all [Fin.isMore]
  | getTok k ih =>
    have hsim := peekWait_sim false 0 (s.size + 1) s hi (Nat.lt_succ_self _)
    have hv := view_fields s
    simp only [suspendA, hv.1, hv.2.1, hv.2.2.1, hv.2.2.2, ← hsim.1] at h
    simp only [residual, SProg.erase, run]
    cases hpw : peekWaitRun false 0 (s.size + 1) s with
    | tok t s' =>
      have hinv : Inv s' := by simpa [hpw, PeekOut.inv] using hsim.2
      simp only [hpw, PeekOut.toA] at h
      refine ih t { s' with lex := { s'.lex with tokens := s'.lex.tokens.tail } } (by simpa [Inv] using hinv) ?_
      simpa [view, runes_of_pending, LexState.pending, PState.willFinish] using h
    | stop st s' =>
      simp only [hpw, PeekOut.toA] at h
      cases st <;> simp_all [Fin.isMore]
  | topGet k ih =>
    have hsim := topGet_sim (s.size + 1) s hi (Nat.lt_succ_self _)
    have hv := view_fields s
    simp only [suspendA, hv.1, hv.2.1, hv.2.2.1, hv.2.2.2, ← hsim.1] at h
    simp only [residual, SProg.erase, run]
    cases hpw : topGetRun (s.size + 1) s with
    | tok t s' =>
      have hinv : Inv s' := by simpa [hpw, TopOut.inv] using hsim.2
      simp only [hpw, TopOut.toA] at h
      exact ih (some t) s' hinv h
    | finished st s' =>
      simp only [hpw, TopOut.toA] at h
      cases st <;> simp_all [Fin.isMore]
  | pushTok t k ih =>
    simp only [suspendA] at h
    simp only [residual, SProg.erase, run]
    refine ih { s with lex := { s.lex with tokens := t :: s.lex.tokens } } (by simpa [Inv] using hi) ?_
    simpa [view, runes_of_pending, LexState.pending, PState.willFinish] using h
  | pushExpr e k ih =>
    simp only [suspendA] at h
    simp only [residual, SProg.erase, run]
    refine ih { s with exprs := s.exprs ++ [e] } (by simpa [Inv] using hi) ?_
    simpa [view, runes_of_pending, PState.willFinish] using h

end ZygoVerif.Parser
