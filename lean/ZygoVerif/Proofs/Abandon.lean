/-
Proofs about the suspended coroutine and the call-by-call protocol of `Model/Abandon`.
-/
import ZygoVerif.Model.Abandon
import ZygoVerif.Proofs.ParseChunks
set_option linter.unusedSimpArgs false
namespace ZygoVerif.Parser
open ZygoVerif.Lexer

/-! ## forgetting the annotation gives the parser of `Model/Parser` -/

theorem SProg.erase_bind {α β : Type} (p : SProg α) (f : α → SProg β) :
    (p.bind f).erase = p.erase.bind (fun a => (f a).erase) := by
  induction p with
  | pure a => rfl
  | fail => rfl
  | waitPeek n k ih => simp only [SProg.bind, SProg.erase, Prog.bind, ih]
  | waitLoop on k _ ih => simp only [SProg.bind, SProg.erase, Prog.bind, ih]
  | signPeek k ih => simp only [SProg.bind, SProg.erase, Prog.bind, ih]
  | peekAt n k ih => simp only [SProg.bind, SProg.erase, Prog.bind, ih]
  | getTok k ih => simp only [SProg.bind, SProg.erase, Prog.bind, ih]
  | topGet k ih => simp only [SProg.bind, SProg.erase, Prog.bind, ih]
  | pushTok t k ih => simp only [SProg.bind, SProg.erase, Prog.bind, ih]
  | pushExpr e k ih => simp only [SProg.bind, SProg.erase, Prog.bind, ih]

theorem SProg.erase_ite {α : Type} (c : Prop) [Decidable c] (a b : SProg α) :
    (if c then a else b).erase = if c then a.erase else b.erase := by
  split <;> rfl

/-- all eight functions of the recursive descent at one fuel level -/
def EraseOK (f : Nat) : Prop :=
  (∀ tok, (S.parseExprTok f tok).erase = parseExprTok f tok) ∧
  (∀ t e, (S.skipComments f t e).erase = skipComments f t e) ∧
  ((S.parseExprNested f).erase = parseExprNested f) ∧
  (∀ e, (S.parseList f e).erase = parseList f e) ∧
  (∀ a, (S.parseArray f a).erase = parseArray f a) ∧
  (∀ a, (S.parseInfix f a).erase = parseInfix f a) ∧
  (∀ a, (S.parseBlockComment f a).erase = parseBlockComment f a) ∧
  ((S.parseBacktick f).erase = parseBacktick f)

theorem eraseOK_zero : EraseOK 0 := by
  refine ⟨?_, ?_, ?_, ?_, ?_, ?_, ?_, ?_⟩ <;> intros <;>
    simp only [S.parseExprTok, S.skipComments, S.parseExprNested, S.parseList, S.parseArray, S.parseInfix,
      S.parseBlockComment, S.parseBacktick, parseExprTok, skipComments, parseExprNested, parseList, parseArray,
      parseInfix, parseBlockComment, parseBacktick, S.fail, fail, SProg.erase]

theorem erase_parseExprTok_succ (f : Nat) (h : EraseOK f) (tok : Token) :
    (S.parseExprTok (f + 1) tok).erase = parseExprTok (f + 1) tok := by
  obtain ⟨_, h0, h1, h2, h3, h4, h5, h6⟩ := h
  rw [S.parseExprTok, parseExprTok]
  obtain ⟨ty, str⟩ := tok
  cases ty <;>
  simp only [bind, pure, S.waitPeek, S.popTok, S.fail, S.signPeek, S.tokAt, S.pushTok, waitPeek, popTok, fail,
    signPeek, tokAt, pushTok, SProg.erase, SProg.erase_bind, SProg.erase_ite, SProg.bind, Prog.bind, h0, h1, h2, h3, h5, h6]
  case lcurly =>
    congr 1; funext t; congr 1; funext a
    generalize a.fst.typ = ty
    cases ty <;> simp only [SProg.erase, SProg.erase_ite, h2, h4]
  case symbol =>
    split
    · congr 1; funext t
      split
      · congr 1; funext _
        generalize NumLit.parseFloat _ = o
        cases o <;> rfl
      · rfl
    · rfl
  all_goals first
    | rfl
    | (generalize atomOfTok _ = o; rcases o with _ | _ | _ <;> rfl)

theorem eraseOK_succ (f : Nat) (h : EraseOK f) : EraseOK (f + 1) := by
  have hh := h
  obtain ⟨hT, h0, h1, h2, h3, h4, h5, h6⟩ := hh
  refine ⟨erase_parseExprTok_succ f h, ?_, ?_, ?_, ?_, ?_, ?_, ?_⟩
  · intro t e
    rw [S.skipComments, skipComments]
    simp only [bind, pure, S.tokAt, tokAt, SProg.erase, SProg.erase_bind, SProg.erase_ite, SProg.bind, Prog.bind, h0]
  · rw [S.parseExprNested, parseExprNested]
    simp only [bind, pure, S.waitPeek, S.popTok, waitPeek, popTok, SProg.erase, SProg.erase_bind, SProg.bind, Prog.bind, hT]
  · intro e
    rw [S.parseList, parseList]
    simp only [bind, pure, S.loopPeek, S.waitPeek, S.popTok, S.fail, waitPeek, popTok, fail,
      SProg.erase, SProg.erase_bind, SProg.erase_ite, SProg.bind, Prog.bind, h1, h2]
  · intro a
    rw [S.parseArray, parseArray]
    simp only [bind, pure, S.loopPeek, S.waitPeek, S.popTok, S.fail, waitPeek, popTok, fail,
      SProg.erase, SProg.erase_bind, SProg.erase_ite, SProg.bind, Prog.bind, h1, h3]
  · intro a
    rw [S.parseInfix, parseInfix]
    simp only [bind, pure, S.loopPeek, S.waitPeek, S.popTok, S.fail, waitPeek, popTok, fail,
      SProg.erase, SProg.erase_bind, SProg.erase_ite, SProg.bind, Prog.bind, h1, h4]
  · intro a
    rw [S.parseBlockComment, parseBlockComment]
    simp only [bind, pure, S.loopPeek, S.waitPeek, S.popTok, S.fail, waitPeek, popTok, fail,
      SProg.erase, SProg.erase_bind, SProg.erase_ite, SProg.bind, Prog.bind, h5]
  · rw [S.parseBacktick, parseBacktick]
    simp only [bind, pure, S.loopPeek, S.waitPeek, S.popTok, S.fail, waitPeek, popTok, fail,
      SProg.erase, SProg.erase_bind, SProg.erase_ite, SProg.bind, Prog.bind]

theorem eraseOK (f : Nat) : EraseOK f := by
  induction f with
  | zero => exact eraseOK_zero
  | succ n ih => exact eraseOK_succ n ih

/-- **The annotated parser is the parser.** Forgetting what a stopped `yield` does turns
`S.topLoop` into `Model/Parser.topLoop`, instruction by instruction: the two are one program,
and every theorem about `run (topLoop f)` is a theorem about `run (S.topLoop f).erase`. -/
theorem erase_topLoop (f : Nat) : (S.topLoop f).erase = topLoop f := by
  induction f with
  | zero => simp only [S.topLoop, topLoop, S.fail, fail, SProg.erase]
  | succ n ih =>
    rw [S.topLoop, topLoop]
    simp only [bind, pure, S.topGet, topGet, S.pushExpr, pushExpr, SProg.erase, SProg.erase_bind, SProg.bind, Prog.bind]
    congr 1; funext t
    cases t with
    | none => rfl
    | some tok => simp only [SProg.erase_bind, SProg.erase, (eraseOK n).1 tok, ih]

/-! ## the suspended program -/

/-- is the outcome of a run "more input needed"? -/
def Fin.isMore {α : Type} : Fin α → Bool
  | .stop .more => true
  | _ => false

/-- a waiting instruction at the head: what a suspended coroutine is blocked in -/
def SProg.isWait {α : Type} : SProg α → Bool
  | .waitPeek _ _ | .waitLoop _ _ | .signPeek _ | .peekAt _ _ | .getTok _ | .topGet _ => true
  | _ => false

/-- **A coroutine is suspended exactly when the parse answered "more input needed"**, and what it
is blocked in is a waiting instruction — for every program and every state. (`PSt.parseTokens`
keeps `residual` as `Parser.next`.) -/
theorem residual_iff_more {α : Type} (p : SProg α) (s : PState) :
    (residual p s).isSome = (run p.erase s).1.isMore ∧ (∀ κ, residual p s = some κ → κ.isWait = true) := by
  induction p generalizing s with
  | pure a => exact ⟨rfl, by intro κ h; simp [residual] at h⟩
  | fail => exact ⟨rfl, by intro κ h; simp [residual] at h⟩
  | waitPeek n k ih =>
    simp only [residual, SProg.erase, run]
    cases peekWaitRun false n (s.size + 1) s with
    | tok t s' => exact ih t s'
    | stop st s' => cases st <;> simp [Fin.isMore, SProg.isWait]
  | waitLoop on k _ ih =>
    simp only [residual, SProg.erase, run]
    cases peekWaitRun false 0 (s.size + 1) s with
    | tok t s' => exact ih t s'
    | stop st s' => cases st <;> simp [Fin.isMore, SProg.isWait]
  | signPeek k ih =>
    simp only [residual, SProg.erase, run]
    cases peekWaitRun true 0 (s.size + 1) s with
    | tok t s' => exact ih t s'
    | stop st s' => cases st <;> simp [Fin.isMore, SProg.isWait]
  | peekAt n k ih =>
    simp only [residual, SProg.erase, run]
    cases peekWaitRun false n (s.size + 1) s with
    | tok t s' =>
      simp only
      cases s'.lex.tokens[n]? with
      | some t' => exact ih t' s'
      | none => simp [Fin.isMore]
    | stop st s' => cases st <;> simp [Fin.isMore, SProg.isWait]
  | getTok k ih =>
    simp only [residual, SProg.erase, run]
    cases peekWaitRun false 0 (s.size + 1) s with
    | tok t s' => exact ih t _
    | stop st s' => cases st <;> simp [Fin.isMore, SProg.isWait]
  | topGet k ih =>
    simp only [residual, SProg.erase, run]
    cases topGetRun (s.size + 1) s with
    | tok t s' => exact ih (some t) s'
    | finished st s' =>
      cases st with
      | done => exact ih none s'
      | more => simp [Fin.isMore, SProg.isWait]
      | err => simp [Fin.isMore]
  | pushTok t k ih => simp only [residual, SProg.erase, run]; exact ih _
  | pushExpr e k ih => simp only [residual, SProg.erase, run]; exact ih _

end ZygoVerif.Parser
