/-
`read (print v) = v` for the parser model: the printed text, delivered whole (or in any
pieces, by C13) to a parser with any history, yields exactly the one expression `v`.
Glue of: lexing the printed text (ReadPrintLex), lazy = eager lexing (ReadEager), parsing
the tokens (ReadPrintParse), the fuel bound, and the abstract view of `parseChunks` (C13).
-/
import ZygoVerif.Proofs.ReadPrintLex
import ZygoVerif.Proofs.ReadPrintParse
import ZygoVerif.Props.C13
namespace ZygoVerif.ReadPrint
open ZygoVerif ZygoVerif.Lexer ZygoVerif.Parser ZygoVerif.PrintData

/-! ## the fuel of `parseChunks` suffices -/

theorem printAtom_ne_nil (ff : FloatFmt) (hlaw : FloatLaw ff) (a : Sexp) (h : okAtom a = true) :
    1 ≤ (printAtom ff a).length := by
  cases a with
  | uint v => simp [printAtom]
  | float b sci =>
    simp only [okAtom] at h
    obtain ⟨p, hv, hpr, _, _⟩ := hlaw b sci h
    obtain ⟨hipne, _⟩ := hv.ip
    show 1 ≤ (printFloat ff b sci).length
    rw [hpr, p.render_eq, p.body_eq]
    cases hip : p.ip with
    | nil => exact absurd hip hipne
    | cons d r => simp; omega
  | int v =>
    simp only [printAtom, itoa]
    split
    · simp
    · have := natDec_ne_nil v.toNat
      cases hn : natDec v.toNat with
      | nil => exact absurd hn this
      | cons a b => simp
  | char v => simp [printAtom, quoteRune]
  | str s raw => simp only [printAtom]; split <;> simp [quoteStr]
  | bool b => cases b <;> simp [printAtom]
  | sym n ct dot =>
    simp only [okAtom, Bool.and_eq_true] at h
    obtain ⟨hne, _, _⟩ := symOK_facts n h.2
    cases n with
    | nil => exact absurd rfl hne
    | cons a b => simp [printAtom]
  | _ => simp [okAtom] at h

mutual
theorem cost_bound (ff : FloatFmt) (hlaw : FloatLaw ff) : (v : Sexp) → okV v = true → costTok v + 1 ≤ 4 * (printSexp ff v).length
  | .pair h t, hv => by
    simp only [okV, Bool.and_eq_true] at hv
    have h1 := cost_bound ff hlaw h hv.1
    have h2 := cost_rest_bound ff hlaw t hv.2
    simp only [costTok, printSexp, List.length_cons, List.length_append]
    omega
  | .array es inf, hv => by
    simp only [okV, Bool.and_eq_true] at hv
    have h1 := cost_arr_bound ff hlaw es hv.2
    simp only [costTok, printSexp, List.length_cons, List.length_append, List.length_nil]
    omega
  | .int v, hv => by have := printAtom_ne_nil ff hlaw _ hv; simp only [costTok, printSexp]; omega
  | .char v, hv => by have := printAtom_ne_nil ff hlaw _ hv; simp only [costTok, printSexp]; omega
  | .str s raw, hv => by have := printAtom_ne_nil ff hlaw _ hv; simp only [costTok, printSexp]; omega
  | .sym n a b, hv => by have := printAtom_ne_nil ff hlaw _ hv; simp only [costTok, printSexp]; omega
  | .bool b, hv => by have := printAtom_ne_nil ff hlaw _ hv; simp only [costTok, printSexp]; omega
  | .uint v, hv => by have := printAtom_ne_nil ff hlaw _ hv; simp only [costTok, printSexp]; omega
  | .float b s, hv => by have := printAtom_ne_nil ff hlaw _ hv; simp only [costTok, printSexp]; omega
  | .comment _ _, hv => by simp [okV] at hv
  | .comma, hv => by simp [okV] at hv
  | .semicolon, hv => by simp [okV] at hv
  | .null, hv => by simp [okV] at hv
  | .endS, hv => by simp [okV] at hv
  | .emptyHash, hv => by simp [okV] at hv
theorem cost_rest_bound (ff : FloatFmt) (hlaw : FloatLaw ff) : (t : Sexp) → okTail t = true → costRest t ≤ 4 * (printRest ff t).length
  | .pair h t, ht => by
    simp only [okTail, Bool.and_eq_true] at ht
    have h1 := cost_bound ff hlaw h ht.1
    have h2 := cost_rest_bound ff hlaw t ht.2
    simp only [costRest, printRest, List.length_cons, List.length_append]
    omega
  | .null, _ => by simp [costRest, printRest]
  | .array es inf, ht => by
    simp only [okTail, Bool.and_eq_true] at ht
    have h1 := cost_arr_bound ff hlaw es ht.2
    simp only [costRest, printRest, List.length_cons, List.length_append, List.length_nil]
    omega
  | .int v, _ => by simp only [costRest, printRest, List.length_append, List.length_cons]; omega
  | .char v, _ => by simp only [costRest, printRest, List.length_append, List.length_cons]; omega
  | .str s raw, _ => by simp only [costRest, printRest, List.length_append, List.length_cons]; omega
  | .sym n a b, _ => by simp only [costRest, printRest, List.length_append, List.length_cons]; omega
  | .bool b, _ => by simp only [costRest, printRest, List.length_append, List.length_cons]; omega
  | .uint v, _ => by simp only [costRest, printRest, List.length_append, List.length_cons]; omega
  | .float b s, _ => by simp only [costRest, printRest, List.length_append, List.length_cons]; omega
  | .comment _ _, ht => by simp [okTail] at ht
  | .comma, ht => by simp [okTail] at ht
  | .semicolon, ht => by simp [okTail] at ht
  | .endS, ht => by simp [okTail] at ht
  | .emptyHash, ht => by simp [okTail] at ht
theorem cost_arr_bound (ff : FloatFmt) (hlaw : FloatLaw ff) : (es : List Sexp) → okList es = true → costArr es ≤ 4 * (printElems ff es).length + 1
  | [], _ => by simp [costArr, printElems]
  | [a], hes => by
    simp only [okList, Bool.and_eq_true] at hes
    have h1 := cost_bound ff hlaw a hes.1
    simp only [costArr, printElems]
    omega
  | a :: b :: r, hes => by
    simp only [okList, Bool.and_eq_true] at hes
    have h1 := cost_bound ff hlaw a hes.1
    have h2 := cost_arr_bound ff hlaw (b :: r) (by simp [okList, hes.2.1, hes.2.2])
    simp only [costArr, printElems, List.length_cons, List.length_append] at h2 ⊢
    omega
end

/-! ## the top-level loop on a complete queue -/

theorem topLoop_succ (f : Nat) :
    topLoop (f + 1) = Prog.topGet fun t => match t with
      | none => Prog.pure ()
      | some tok => (parseExprTok f tok).bind fun e => Prog.pushExpr e (topLoop f) := by
  rw [topLoop]
  simp only [bind, pure, topGet, pushExpr, Prog.bind]
  congr 1

/-- on the tokens of one value, the top-level loop yields exactly that value -/
theorem topLoop_one (f : Nat) (c : LexCore) (t : Token) (ts : List Token) (v : Sexp)
    (hc : c.tokens = t :: ts) (hl : inLiteral c = false) (hp : Consumes (parseExprTok (f + 1) t) ts v) :
    runA (topLoop (f + 2)) (tv c []) = (.ret (), tv (setToks c []) [v]) := by
  rw [topLoop_succ, runA_topGet_tok _ c [] t ts hc]
  simp only
  rw [runA_bind, hp (setToks c ts) [] [] (by simp [setToks])]
  simp only [runA, tv, setToks, List.nil_append]
  rw [topLoop_succ]
  have := runA_topGet_end (fun t => match t with
      | none => Prog.pure ()
      | some tok => (parseExprTok f tok).bind fun e => Prog.pushExpr e (topLoop f))
    { c with tokens := [] } [v] rfl (by simpa [inLiteral] using hl)
  simpa [tv, runA, Prog.bind] using this

/-- **`read (print v) = v`** on the parser model: the printed text of a value of the domain,
delivered in any pieces to a parser with any history, is accepted and yields exactly `v`. -/
theorem read_print (ff : FloatFmt) (hlaw : FloatLaw ff) (v : Sexp) (hv : okV v = true) (l : LexState) (cs : List (List Char))
    (hcs : cs.flatten = printSexp ff v) :
    (parseChunksFrom l cs).status = .done ∧ (parseChunksFrom l cs).exprs = [v] := by
  obtain ⟨hst, hex⟩ := Props.C13.parseChunksFrom_eq_abstract l cs
  -- lexing the whole text
  have hlex := lexV ff hlaw v hv [] '\x00' '\n' (by decide) (by decide)
  obtain ⟨cf, hfeed, hcf⟩ := hlex LexCore.init ⟨rfl, rfl, rfl, ringOK_init, lastRune_init⟩
  have htoks : cf.tokens = toks ff v := by simpa [delimTok] using hcf.tokens
  -- lazy = eager
  have hrunes : cs.flatten ++ eofPiece = printSexp ff v ++ ['\n'] := by rw [hcs]; rfl
  rw [hrunes] at hst hex
  have hahead := runA_ahead (topLoop (fuelFor cs)) ⟨LexCore.init, printSexp ff v ++ ['\n'], [], true⟩ ⟨cf, [], [], true⟩
    ⟨hfeed, rfl, rfl, rfl⟩
  -- parsing the tokens
  have hfuel : fuelFor cs = (4 * (printSexp ff v).length + 14) + 2 := by simp [fuelFor, hcs]
  have hcost := cost_bound ff hlaw v hv
  obtain ⟨t, ts, hts, _, hcons⟩ := parse_val ff hlaw v hv (4 * (printSexp ff v).length + 14 + 1) (by omega)
  have hlit : inLiteral cf = false := by simp [inLiteral, hcf.state]
  have hrun := topLoop_one (4 * (printSexp ff v).length + 14) cf t ts v (by rw [htoks, hts]) hlit hcons
  rw [← hfuel] at hrun
  simp only [tv] at hrun
  rw [hrun] at hahead
  obtain ⟨h1, h2⟩ := hahead
  rw [h1] at hst
  rw [h2] at hex
  exact ⟨hst, hex⟩

end ZygoVerif.ReadPrint
