/-
Property C16, second lemma file: the decision points of the call machinery and `force`.
Definitions that the theorems of `Props/C16.lean` are stated with (`lazyPos`, `allocThunk`,
`prepPlan`, `Step`/`Reach`, `forceEntry`, `applyWrap`) and their proofs. Everything is about
the executable model `Model/VM.lean` / `Model/Gen.lean` (and three facts about the reference
evaluator `Spec/RefEval.lean`); the whole-machine invariant comes from `Proofs/Lazy.lean`.
-/
import ZygoVerif.Proofs.Lazy
import ZygoVerif.Spec.RefEval
namespace ZygoVerif.C16
open ZygoVerif.Core ZygoVerif.VM

/-- The run-time decision of `PrepareCallExprArgs` for argument position `i` of callee `f`
(`none`: the callee is not a compiled function). -/
def lazyPos (f : Option FnObj) (i : Nat) : Bool :=
  match f with
  | some fo => !fo.user && fo.hasLazyFormals && fo.isLazyCallArg i
  | none => false

/-- All that happens to the machine state when an argument is delayed: one new thunk holding
the expression and the *current* scope stack and function, one operand naming it. -/
def allocThunk (e : Expr) (s : St) : St :=
  { s with lazies := s.lazies ++ [({ e, stack := s.linear, curfunc := s.curfunc, value := none } : LazyObj)],
           data := some (.lazy s.lazies.length) :: s.data }

/-- What `prepareArgs` does, argument by argument, written without the fuel bookkeeping of
the recursion: a lazy position allocates a thunk and runs nothing; a strict position runs
`evalCallExpr` on its expression exactly once and pushes the value. `fuel` is the fuel left
for the last argument. -/
def prepPlan (fuel : Nat) (f : Option FnObj) : Nat → List Expr → M Unit
  | _, [] => pure ()
  | i, e :: es => do
    (if lazyPos f i then modify (allocThunk e)
     else do let v ← evalCallExpr (fuel + es.length) e; pushData v)
    prepPlan fuel f (i + 1) es

theorem prepareArgs_lazy_step (fuel : Nat) (f : Option FnObj) (i : Nat) (e : Expr) (es : List Expr) (s : St)
    (h : lazyPos f i = true) :
    runM (prepareArgs (fuel + 1) f i (e :: es)) s = runM (prepareArgs fuel f (i + 1) es) (allocThunk e s) := by
  cases f with
  | none => simp [lazyPos] at h
  | some fo =>
    simp only [lazyPos] at h
    simp only [prepareArgs, h, if_true, runM_bind, runM_get, runM_set, pushData, runM_modify]
    rfl

theorem prepareArgs_strict_step (fuel : Nat) (f : Option FnObj) (i : Nat) (e : Expr) (es : List Expr)
    (h : lazyPos f i = false) :
    prepareArgs (fuel + 1) f i (e :: es) =
      (do let v ← evalCallExpr fuel e; pushData v; prepareArgs fuel f (i + 1) es) := by
  cases f with
  | none => simp only [prepareArgs]; rfl
  | some fo =>
    simp only [lazyPos] at h
    simp only [prepareArgs, h]
    rfl


theorem prepareArgs_nil (fuel : Nat) (f : Option FnObj) (i : Nat) : prepareArgs (fuel + 1) f i [] = pure () := by
  simp only [prepareArgs]

/-- With fuel for every argument, `prepareArgs` is its plan. -/
theorem prepareArgs_eq_plan (fuel : Nat) (f : Option FnObj) :
    ∀ (args : List Expr) (i : Nat) (s : St),
      runM (prepareArgs (fuel + 1 + args.length) f i args) s = runM (prepPlan (fuel + 1) f i args) s := by
  intro args
  induction args with
  | nil => intro i s; rw [List.length_nil, Nat.add_zero, prepareArgs_nil]; rfl
  | cons e es ih =>
    intro i s
    have hlen : fuel + 1 + (e :: es).length = (fuel + 1 + es.length) + 1 := by simp [List.length_cons]; omega
    rw [hlen]
    cases hl : lazyPos f i with
    | true =>
      rw [prepareArgs_lazy_step _ _ _ _ _ _ hl, ih]
      simp only [prepPlan, hl, if_true, runM_bind, runM_modify]
    | false =>
      rw [prepareArgs_strict_step _ _ _ _ _ hl]
      simp only [prepPlan, hl, runM_bind, Bool.false_eq_true, if_false]
      cases runM (evalCallExpr (fuel + 1 + es.length) e) s with
      | mk r s1 =>
        cases r with
        | error flt => rfl
        | ok v =>
          dsimp only
          cases runM (pushData v) s1 with
          | mk r2 s2 =>
            cases r2 with
            | error flt => rfl
            | ok u => dsimp only; exact ih (i + 1) s2


/-- every position lazy: the call preparation is a fold of `allocThunk` — no instruction of any
argument expression runs, for any number of arguments. -/
theorem prepPlan_all_lazy (fuel : Nat) (f : Option FnObj) :
    ∀ (args : List Expr) (i : Nat) (s : St), (∀ j, j < args.length → lazyPos f (i + j) = true) →
      runM (prepPlan fuel f i args) s = (.ok (), args.foldl (fun s e => allocThunk e s) s) := by
  intro args
  induction args with
  | nil => intro i s _; rfl
  | cons e es ih =>
    intro i s h
    have h0 : lazyPos f i = true := by simpa using h 0 (by simp)
    simp only [prepPlan, h0, if_true, runM_bind, runM_modify, List.foldl_cons]
    apply ih
    intro j hj
    have := h (j + 1) (by simp; omega)
    rwa [show i + (j + 1) = i + 1 + j by omega] at this

theorem allocThunk_fold_frame (args : List Expr) : ∀ (s : St),
    let s' := args.foldl (fun s e => allocThunk e s) s
    s'.trace = s.trace ∧ s'.scopes = s.scopes ∧ s'.fns = s.fns ∧ s'.heap = s.heap ∧ s'.linear = s.linear ∧
    s'.curfunc = s.curfunc ∧ s'.pc = s.pc ∧ s'.addr = s.addr ∧
    s'.lazies.length = s.lazies.length + args.length ∧ s'.data.length = s.data.length + args.length := by
  induction args with
  | nil => intro s; simp
  | cons e es ih =>
    intro s
    have := ih (allocThunk e s)
    simp only [List.foldl_cons, List.length_cons] at *
    obtain ⟨h1, h2, h3, h4, h5, h6, h7, h8, h9, h10⟩ := this
    refine ⟨h1, h2, h3, h4, h5, h6, h7, h8, ?_, ?_⟩
    · rw [h9]; simp [allocThunk]; omega
    · rw [h10]; simp [allocThunk]; omega


/-! ## (b) `force` memoises -/

theorem runM_bind_ok {α β} {m : M α} {f : α → M β} {s s' : St} {b : β}
    (h : runM (m >>= f) s = (.ok b, s')) : ∃ a s1, runM m s = (.ok a, s1) ∧ runM (f a) s1 = (.ok b, s') := by
  rw [runM_bind] at h
  cases hm : runM m s with
  | mk r s1 =>
    rw [hm] at h
    cases r with
    | ok a => exact ⟨a, s1, rfl, h⟩
    | error e => cases h

/-- A thunk that holds a value answers `force` with it; nothing else happens: the state
(trace, scopes, stacks, thunk table) is exactly what it was. -/
theorem force_hit (fuel id : Nat) (s : St) (lz : LazyObj) (v : Val)
    (h : s.lazies[id]? = some lz) (hv : lz.value = some v) :
    runM (forceLazy (fuel + 1) id) s = (.ok v, s) := by
  rw [forceLazy.eq_2]
  simp only [runM_bind, runM_get, h, hv, runM_pure]

theorem getElem?_lt {α} {l : List α} {i : Nat} {a : α} (h : l[i]? = some a) : i < l.length := by
  rcases Nat.lt_or_ge i l.length with h' | h'
  · exact h'
  · rw [List.getElem?_eq_none h'] at h; cases h

/-- A successful `force` leaves the value in the thunk. -/
theorem force_stores_value (fuel id : Nat) (s s' : St) (v : Val)
    (h : runM (forceLazy fuel id) s = (.ok v, s')) :
    ∃ lz', s'.lazies[id]? = some lz' ∧ lz'.value = some v := by
  cases fuel with
  | zero => rw [forceLazy.eq_1] at h; cases h
  | succ fuel =>
    have hL := LExt.pre
    have hall := allPres fuel
    rw [forceLazy.eq_2] at h
    rw [runM_bind, runM_get] at h
    dsimp only at h
    split at h
    · cases h
    · rename_i lz hlz
      split at h
      · rename_i w hw
        rw [runM_pure] at h
        cases h
        exact ⟨lz, hlz, hw⟩
      · rename_i hv
        -- the table at the moment `finish` runs extends the table at the start
        have fin : ∀ (s5 : St) (w : Val), LExt s.lazies s5.lazies →
            runM (do modify (fun s => { s with lazies := s.lazies.set id ({ lz with value := some w } : LazyObj) })
                     pure w : M Val) s5 = (.ok v, s') →
            ∃ lz', s'.lazies[id]? = some lz' ∧ lz'.value = some v := by
          intro s5 w hext hr
          rw [runM_bind, runM_modify] at hr
          dsimp only at hr
          rw [runM_pure] at hr
          cases hr
          obtain ⟨lz5, e5, _⟩ := hext id lz hlz
          refine ⟨{ lz with value := some v }, ?_, rfl⟩
          dsimp only
          rw [List.getElem?_set_self (getElem?_lt e5)]
        obtain ⟨a, s1, h1, h⟩ := runM_bind_ok h
        have e1 : LExt s.lazies s1.lazies := by
          have := (runGen_pres hL (compile (isFnScope s) {} lz.e) s).h; rw [h1] at this; exact this
        obtain ⟨code, snd⟩ := a
        dsimp only at h
        split at h
        · exact fin s1 _ e1 h
        · obtain ⟨f, s2, h2, h⟩ := runM_bind_ok h
          have e2 : LExt s1.lazies s2.lazies := by
            have := (mkFunction_pres hL "lazyArgForce" (code ++ [Instr.ret]) lz.stack (some lz.curfunc) s1).h
            rw [h2] at this; exact this
          obtain ⟨st, s3, h3, h⟩ := runM_bind_ok h
          have e3 : LExt s2.lazies s3.lazies := by
            have := (capture_pres hL s2).h; rw [h3] at this; exact this
          obtain ⟨u, s4, h4, h⟩ := runM_bind_ok h
          have e4 : LExt s3.lazies s4.lazies := by
            rw [runM_modify] at h4; cases h4; exact LExt.refl _
          obtain ⟨w, s5, h5, h⟩ := runM_bind_ok h
          have e5 := (hall.2.2.2.2.1 f st s4).h
          rw [h5] at e5
          exact fin s5 w (LExt.trans e1 (LExt.trans e2 (LExt.trans e3 (LExt.trans e4 e5)))) h


/-! ### …however often it is forced, whatever the machine does in between -/

theorem runText_ext (fuel : Nat) (es : List Expr) (s : St) : LExt s.lazies (runText fuel es s).2.1.lazies := by
  have hL := LExt.pre
  unfold runText
  dsimp only
  have hg := (runGen_pres hL (compileBegin (isFnScope { s with trace := [] }) {} es) { s with trace := [] }).h
  unfold runM at hg
  generalize ExceptT.run (runGen (compileBegin (isFnScope { s with trace := [] }) {} es)) { s with trace := [] } = ld at *
  obtain ⟨r, sl⟩ := ld
  cases r with
  | error e => exact hg
  | ok cs =>
    obtain ⟨code, t⟩ := cs
    dsimp only
    have hr := fun S => ((allPres fuel).1 S).h
    unfold runM at hr
    generalize hS : ({ sl with fns := _, curfunc := mainFn } : St) = S
    have hSl : S.lazies = sl.lazies := by rw [← hS]
    have hr' := hr S
    generalize ExceptT.run (run fuel) S = rr at *
    obtain ⟨r2, sr⟩ := rr
    rw [hSl] at hr'
    have : LExt s.lazies sr.lazies := LExt.trans hg hr'
    cases r2 with
    | ok v => exact this
    | error f => cases f <;> exact this

/-- One complete activity of the machine: an instruction, a run of the loop, a call, an
`apply`, a builtin, a force, the evaluation of a callee/argument expression, or a whole
program text handed to the interpreter. -/
inductive Step : St → St → Prop
  | exec (fuel : Nat) (i : Instr) (s : St) : Step s (runM (exec fuel i) s).2
  | run (fuel : Nat) (s : St) : Step s (runM (run fuel) s).2
  | runLoop (fuel : Nat) (st : CtlState) (s : St) : Step s (runM (runLoop fuel st) s).2
  | evalCallExpr (fuel : Nat) (e : Expr) (s : St) : Step s (runM (evalCallExpr fuel e) s).2
  | callResolved (fuel : Nat) (f : Val) (args : List Expr) (s : St) : Step s (runM (callResolved fuel f args) s).2
  | callUser (fuel : Nat) (name : String) (n : Nat) (s : St) : Step s (runM (callUser fuel name n) s).2
  | builtin (fuel : Nat) (name : String) (args : List Val) (s : St) : Step s (runM (builtin fuel name args) s).2
  | applyFn (fuel : Nat) (f : Val) (args : List Val) (s : St) : Step s (runM (applyFn fuel f args) s).2
  | forceLazy (fuel : Nat) (id : Nat) (s : St) : Step s (runM (forceLazy fuel id) s).2
  | text (fuel : Nat) (es : List Expr) (s : St) : Step s (runText fuel es s).2.1

/-- Any sequence of such activities, successful or not. -/
inductive Reach : St → St → Prop
  | refl (s : St) : Reach s s
  | step {s s1 s2 : St} : Reach s s1 → Step s1 s2 → Reach s s2

theorem step_ext {s s' : St} (h : Step s s') : LExt s.lazies s'.lazies := by
  cases h with
  | exec fuel i => exact ((allPres fuel).2.2.1 i s).h
  | run fuel => exact ((allPres fuel).1 s).h
  | runLoop fuel st => exact ((allPres fuel).2.1 st s).h
  | evalCallExpr fuel e => exact ((allPres fuel).2.2.2.1 e s).h
  | callResolved fuel f args => exact ((allPres fuel).2.2.2.2.2.2.1 f args s).h
  | callUser fuel name n => exact ((allPres fuel).2.2.2.2.2.2.2.1 name n s).h
  | builtin fuel name args => exact ((allPres fuel).2.2.2.2.2.2.2.2.1 name args s).h
  | applyFn fuel f args => exact ((allPres fuel).2.2.2.2.2.2.2.2.2.1 f args s).h
  | forceLazy fuel id => exact ((allPres fuel).2.2.2.2.2.2.2.2.2.2.2.2 id s).h
  | text fuel es => exact runText_ext fuel es s

theorem reach_ext {s s' : St} (h : Reach s s') : LExt s.lazies s'.lazies := by
  induction h with
  | refl => exact LExt.refl _
  | step _ hs ih => exact LExt.trans ih (step_ext hs)

/-- **At most once.** After one successful force, every later force of the same thunk — after
any further activity of the machine, in the same evaluation or in a later program text —
returns the same value and changes nothing: no instruction runs, the trace stays. -/
theorem force_at_most_once (f1 f2 id : Nat) (s s1 s2 : St) (v : Val)
    (h1 : runM (forceLazy f1 id) s = (.ok v, s1)) (hr : Reach s1 s2) :
    runM (forceLazy (f2 + 1) id) s2 = (.ok v, s2) := by
  obtain ⟨lz1, e1, v1⟩ := force_stores_value f1 id s s1 v h1
  obtain ⟨lz2, e2, le⟩ := reach_ext hr id lz1 e1
  exact force_hit f2 id s2 lz2 v e2 (le.2.2.2.2 v v1)

/-- (c) A thunk keeps the expression, the scope stack and the function it was created with,
forever: whatever the machine does later (the caller may long have returned). -/
theorem thunk_env_immutable {s s' : St} (hr : Reach s s') (id : Nat) (lz : LazyObj) (h : s.lazies[id]? = some lz) :
    ∃ lz', s'.lazies[id]? = some lz' ∧ lz'.e = lz.e ∧ lz'.stack = lz.stack ∧ lz'.curfunc = lz.curfunc ∧
      lz'.isValue = lz.isValue := by
  obtain ⟨lz', e, le⟩ := reach_ext hr id lz h
  exact ⟨lz', e, le.1, le.2.1, le.2.2.1, le.2.2.2.1⟩


/-! ## (c) the thunk captures the call site; force runs there -/

theorem allocThunk_new (e : Expr) (s : St) :
    (allocThunk e s).lazies[s.lazies.length]? =
      some ({ e, stack := s.linear, curfunc := s.curfunc, value := none } : LazyObj) ∧
    (allocThunk e s).data = some (.lazy s.lazies.length) :: s.data ∧
    (allocThunk e s).trace = s.trace ∧ (allocThunk e s).scopes = s.scopes ∧ (allocThunk e s).fns = s.fns ∧
    (allocThunk e s).heap = s.heap ∧ (allocThunk e s).linear = s.linear ∧ (allocThunk e s).addr = s.addr ∧
    (allocThunk e s).curfunc = s.curfunc ∧ (allocThunk e s).pc = s.pc := by
  refine ⟨?_, rfl, rfl, rfl, rfl, rfl, rfl, rfl, rfl, rfl⟩
  simp [allocThunk]

/-- the compile-time route (`PushLazyArgInstr`, emitted by `GenerateCallArgsForFunction` for a
self tail call) does exactly the same as the run-time route -/
theorem exec_pushLazy (fuel : Nat) (e : Expr) (s : St) :
    runM (exec (fuel + 1) (.pushLazy e)) s = (.ok (), { allocThunk e s with pc := s.pc + 1 }) := by
  simp only [exec, runM_bind, runM_get, runM_set, pushData, incPc, runM_modify]
  rfl

/-- the state in which the argument expression starts to run when it is forced -/
def forceEntry (lz : LazyObj) (code : List Instr) (s1 : St) : St :=
  { s1 with fns := s1.fns ++ [({ name := "lazyArgForce", code := code ++ [.ret], closing := lz.stack,
                                  parent := some lz.curfunc } : FnObj)],
            suspended := s1.linear :: s1.suspended, linear := lz.stack, pc := -2 }

def ctlOf (s : St) : CtlState :=
  { curfunc := s.curfunc, pc := s.pc, susp := s.suspended.length, addrSize := s.addr.length,
    linearSize := s.linear.length, dataSize := s.data.length }

def forceFinish (id : Nat) (lz : LazyObj) (v : Val) : M Val := do
  modify (fun s => { s with lazies := s.lazies.set id ({ lz with value := some v } : LazyObj) })
  pure v

/-- **Force evaluates in the caller's environment.** Forcing a thunk without a value compiles
its expression and runs it (`nested`) in a state whose scope stack is *the thunk's captured
stack* — the scope stack of the call site — inside a fresh function whose captured scopes are
that same stack and whose parent is the function the call site belonged to. Where the force
happens (the current scope stack of the forcing code) plays no role: it is set aside. -/
theorem force_runs_in_entry_state (fuel id : Nat) (s s1 : St) (lz : LazyObj) (code : List Instr) (t : Bool)
    (hlz : s.lazies[id]? = some lz) (hv : lz.value = none)
    (hgen : runM (runGen (compile (isFnScope s) {} lz.e)) s = (.ok (code, t), s1))
    (hne : code.isEmpty = false) :
    runM (forceLazy (fuel + 1) id) s =
      runM (nested fuel s1.fns.length (ctlOf s1) >>= forceFinish id lz) (forceEntry lz code s1) := by
  rw [forceLazy.eq_2]
  simp only [runM_bind, runM_get, hlz, hv, hgen, hne, mkFunction, capture, runM_set, runM_pure, runM_modify,
    Bool.false_eq_true, if_false]
  rfl

/-- …and the first thing `nested` does there: enter the fresh function at instruction 0. -/
theorem force_body_state (lz : LazyObj) (code : List Instr) (s1 : St) :
    ∃ s2, runM (callFunction s1.fns.length 0) (forceEntry lz code s1) = (.ok (), s2) ∧
      s2.linear = lz.stack ∧ s2.curfunc = s1.fns.length ∧ s2.pc = 0 ∧
      (fnOf s2 s2.curfunc).closing = lz.stack ∧ (fnOf s2 s2.curfunc).parent = some lz.curfunc ∧
      (fnOf s2 s2.curfunc).code = code ++ [.ret] ∧
      s2.scopes = s1.scopes ∧ s2.trace = s1.trace ∧ s2.lazies = s1.lazies := by
  have hfn : fnOf (forceEntry lz code s1) s1.fns.length =
      ({ name := "lazyArgForce", code := code ++ [.ret], closing := lz.stack, parent := some lz.curfunc } : FnObj) := by
    simp [fnOf, forceEntry]
  refine ⟨{ forceEntry lz code s1 with
              addr := some ((forceEntry lz code s1).curfunc, (forceEntry lz code s1).pc + 1) :: (forceEntry lz code s1).addr,
              curfunc := s1.fns.length, pc := 0 }, ?_, ?_⟩
  · unfold callFunction
    simp only [runM_bind, runM_get, hfn]
    simp [runM_modify]
  · simp [fnOf, forceEntry]


/-! ## (d) strict positions: evaluated exactly once, before the call; never handed a thunk -/

/-- The three places that decide whether an argument is delayed — `PrepareCallExprArgs`
(run time), `GenerateCallArgsForFunction` (compile time, self tail call) and `Apply` — use the
same predicate of the *function object*: for a compiled function the run-time decision is
`isLazyCallArg`. -/
theorem decisions_agree (fo : FnObj) (i : Nat) (hu : fo.user = false) :
    lazyPos (some fo) i = fo.isLazyCallArg i := by
  simp only [lazyPos, hu, Bool.not_false, Bool.true_and]
  cases h : fo.isLazyCallArg i with
  | false => simp
  | true =>
    simp only [Bool.and_true]
    unfold FnObj.isLazyCallArg at h
    split at h
    · cases h
    · split at h
      · rename_i p hp
        unfold FnObj.hasLazyFormals
        rw [List.any_eq_true]
        exact ⟨p, List.mem_of_getElem? hp, h⟩
      · cases h

/-- a Go builtin (`user`) and a callee that is no compiled function get every argument evaluated -/
theorem user_and_unknown_callee_strict (fo : FnObj) (i : Nat) (hu : fo.user = true) :
    lazyPos (some fo) i = false ∧ lazyPos none i = false := by
  simp [lazyPos, hu]

/-- the variadic tail is strict at every decision point -/
theorem variadic_tail_strict (fo : FnObj) (i : Nat) (hv : fo.varargs = true) (hi : fo.nargs ≤ i) :
    fo.isLazyCallArg i = false ∧ lazyPos (some fo) i = false := by
  have h : fo.isLazyCallArg i = false := by simp [FnObj.isLazyCallArg, hv, hi]
  simp [lazyPos, h]

/-- `CallExprInstr`: every call that is not a self tail call — by name, through an alias or a
parameter, through a computed callee — first evaluates the callee expression to a value and
then hands *that value* to `callResolved`. -/
theorem exec_callExpr (fuel : Nat) (callee : Expr) (args : List Expr) :
    exec (fuel + 1) (.callExpr callee args) = (do let f ← evalCallExpr fuel callee; callResolved fuel f args) := by
  simp only [exec]

/-- a symbol in head position is looked up when the call executes: an alias or a parameter
bound to a function resolves to that function's object -/
theorem evalCallExpr_sym (fuel : Nat) (x : String) (s : St) :
    runM (evalCallExpr (fuel + 1) (.sym x)) s =
      match lexLookup s x with
      | some (_, v) => (.ok v, s)
      | none => (.error .err, s) := by
  simp only [evalCallExpr, runM_bind, runM_get]
  cases lexLookup s x with
  | none => rfl
  | some r => rfl

/-- what `CallResolved` does with a compiled function `id`: the parameter list consulted is the
one of the function object the callee evaluated to (`fnOf s id`, whatever the head of the call
looked like), the arguments are prepared first, `callFunction` (arity check, variadic packing,
entering the function) comes after; an error truncates the operand stack. -/
theorem callResolved_fn (fuel id : Nat) (args : List Expr) (s : St) :
    runM (callResolved (fuel + 1) (.fn id) args) s =
      match runM (do prepareArgs fuel (some (fnOf s id)) 0 args; callFunction id args.length : M Unit) s with
      | (.ok u, s') => (.ok u, s')
      | (.error .err, s') => (.error .err, { s' with data := truncate s'.data s.data.length })
      | (.error flt, s') => (.error flt, s') := by
  simp only [callResolved, runM_bind, runM_get, runM_set]
  cases runM (prepareArgs fuel (some (fnOf s id)) 0 args) s with
  | mk r1 s1 =>
    cases r1 with
    | error f => cases f <;> rfl
    | ok u =>
      dsimp only
      cases runM (callFunction id args.length) s1 with
      | mk r2 s2 =>
        cases r2 with
        | ok u => rfl
        | error f => cases f <;> rfl

theorem callResolved_builtin (fuel : Nat) (name : String) (args : List Expr) (s : St) :
    runM (callResolved (fuel + 1) (.builtin name) args) s =
      match runM (do prepareArgs fuel none 0 args; callUser fuel name args.length : M Unit) s with
      | (.ok u, s') => (.ok u, s')
      | (.error .err, s') => (.error .err, { s' with data := truncate s'.data s.data.length })
      | (.error flt, s') => (.error flt, s') := by
  simp only [callResolved, runM_bind, runM_get, runM_set]
  cases runM (prepareArgs fuel none 0 args) s with
  | mk r1 s1 =>
    cases r1 with
    | error f => cases f <;> rfl
    | ok u =>
      dsimp only
      cases runM (callUser fuel name args.length) s1 with
      | mk r2 s2 =>
        cases r2 with
        | ok u => rfl
        | error f => cases f <;> rfl


/-! ### the compile-time decision point -/

/-- a call whose head is not a symbol (computed callee) is one `CallExprInstr` -/
theorem compile_call_computed (isFn : Nat → Bool) (c : Ctx) (f : Expr) (args : List Expr) (hf : ∀ h, f ≠ .sym h) :
    compile isFn c (.call f args) = pure ([.callExpr f args], c.tail) := by
  cases f <;> simp only [compile]
  exact absurd rfl (hf _)

/-- a call by name (function, alias, parameter — the generator cannot tell) is one
`CallExprInstr` unless it is a self call in tail position -/
theorem compile_call_by_name (isFn : Nat → Bool) (c : Ctx) (h : String) (args : List Expr)
    (hn : (c.tail && h == c.funcname) = false) :
    compile isFn c (.call (.sym h) args) = pure ([.callExpr (.sym h) args], c.tail) := by
  simp only [compile, hn]; rfl

/-- the self tail call: arguments inline, lazy positions taken from the template registered
under the function's own name while its body is compiled (after fix 4e6df0e a nested
definition of the same name no longer replaces it: `Ctx.known` is passed down, never up) -/
theorem compile_self_tail_call (isFn : Nat → Bool) (c : Ctx) (h : String) (args : List Expr)
    (hn : (c.tail && h == c.funcname) = true) :
    compile isFn c (.call (.sym h) args) = (do
      let gs ← get
      -- after fix C04-04 a self call with the wrong number of arguments is an ordinary call
      if (match (c.known.lookup h).bind (fun t => gs.fns[t]?) with
          | some fo => if fo.varargs then decide (fo.nargs ≤ args.length) else args.length == fo.nargs
          | none => true) then do
        let code ← compileCallArgs isFn { c with tail := false } ((c.known.lookup h).bind (fun t => gs.fns[t]?)) 0 args
        -- after fix C09-02: the guard in front, the ordinary call behind the jump
        pure ([.tailGuard h (code.length + c.scopes + 4)] ++ code ++ [.prepareCall h args.length] ++
              List.replicate (c.scopes + 1) .removeScope ++ [.goto 0, .callExpr (.sym h) args], c.tail)
      else pure ([.callExpr (.sym h) args], c.tail)) := by
  simp only [compile, hn]; rfl

theorem compileCallArgs_lazy_position (isFn : Nat → Bool) (c : Ctx) (f : FnObj) (i : Nat) (e : Expr) (es : List Expr)
    (h : f.isLazyCallArg i = true) :
    compileCallArgs isFn c (some f) i (e :: es) =
      (do let b ← compileCallArgs isFn c (some f) (i + 1) es; pure ([.pushLazy e] ++ b)) := by
  rw [compileCallArgs.eq_2]; simp only [h, if_true, pure_bind]

theorem compileCallArgs_strict_position (isFn : Nat → Bool) (c : Ctx) (f : FnObj) (i : Nat) (e : Expr) (es : List Expr)
    (h : f.isLazyCallArg i = false) :
    compileCallArgs isFn c (some f) i (e :: es) =
      (do let a ← (do let (a, _) ← compile isFn c e; pure a)
          let b ← compileCallArgs isFn c (some f) (i + 1) es; pure (a ++ b)) := by
  rw [compileCallArgs.eq_2]; simp only [h, Bool.false_eq_true, if_false]

theorem compileCallArgs_unknown_function (isFn : Nat → Bool) (c : Ctx) (i : Nat) (e : Expr) (es : List Expr) :
    compileCallArgs isFn c none i (e :: es) =
      (do let a ← (do let (a, _) ← compile isFn c e; pure a)
          let b ← compileCallArgs isFn c none (i + 1) es; pure (a ++ b)) := by
  simp only [compileCallArgs, Bool.false_eq_true, if_false]

/-! ### `apply` / `map` -/

/-- `Apply`'s loop body (the model's local `wrap`): a lazy position receives a thunk that
already holds the value; a strict position receives the value. -/
def applyWrap (fo : FnObj) : St × Nat → Val → St × Nat := fun x v =>
  if fo.isLazyCallArg x.2 then
    ({ x.1 with lazies := x.1.lazies ++ [({ e := .nilLit, stack := [], curfunc := 0, value := some v, isValue := true } : LazyObj)],
                data := some (.lazy x.1.lazies.length) :: x.1.data }, x.2 + 1)
  else ({ x.1 with data := some v :: x.1.data }, x.2 + 1)

theorem applyFn_fn (fuel id : Nat) (args : List Val) (s : St) :
    runM (applyFn (fuel + 1) (.fn id) args) s =
      (let s0 : St := { s with pc := -2 }
       let s1 := (args.foldl (applyWrap (fnOf s0 id)) (s0, 0)).1
       match runM (callFunction id args.length >>= fun _ => run fuel) s1 with
       | (.ok v, s') => (.ok v, s')
       | (.error .err, s') => (.error .err, (runM (restore (ctlOf s)) s').2)
       | (.error flt, s') => (.error flt, s')) := by
  simp only [applyFn, runM_bind, runM_get, runM_set, capture, runM_pure, runM_modify]
  unfold applyWrap ctlOf
  generalize (List.foldl (α := St × Nat) (β := Val) _ _ args).1 = S
  cases runM (callFunction id args.length) S with
  | mk r1 s1 =>
    cases r1 with
    | error f => cases f <;> rfl
    | ok u =>
      dsimp only
      cases runM (run fuel) s1 with
      | mk r2 s2 =>
        cases r2 with
        | ok v => rfl
        | error f => cases f <;> rfl

theorem applyWrap_strict (fo : FnObj) (s : St) (i : Nat) (v : Val) (h : fo.isLazyCallArg i = false) :
    applyWrap fo (s, i) v = ({ s with data := some v :: s.data }, i + 1) := by
  simp [applyWrap, h]

theorem applyWrap_lazy (fo : FnObj) (s : St) (i : Nat) (v : Val) (h : fo.isLazyCallArg i = true) :
    ∃ s', applyWrap fo (s, i) v = (s', i + 1) ∧ s'.data = some (.lazy s.lazies.length) :: s.data ∧
      ∃ lz, s'.lazies[s.lazies.length]? = some lz ∧ lz.value = some v ∧ lz.isValue = true ∧
        s'.trace = s.trace ∧ s'.scopes = s.scopes := by
  refine ⟨{ s with lazies := s.lazies ++ [({ e := .nilLit, stack := [], curfunc := 0, value := some v, isValue := true } : LazyObj)],
                   data := some (.lazy s.lazies.length) :: s.data }, by simp [applyWrap, h], rfl,
          ({ e := .nilLit, stack := [], curfunc := 0, value := some v, isValue := true } : LazyObj), ?_, rfl, rfl, rfl, rfl⟩
  simp


/-! ## (e) the source expression can be recovered, unevaluated -/

/-- `substitute` on a thunk made from source: the expression as data; only the data heap may
grow (array literals of the source are allocated); no instruction runs: trace, scopes, stacks
and the thunk table (the thunk stays unforced) are untouched. -/
theorem substitute_returns_source (fuel id : Nat) (s : St) (lz : LazyObj)
    (h : s.lazies[id]? = some lz) (hv : lz.isValue = false) :
    runM (builtin (fuel + 1) "substitute" [.lazy id]) s =
      (.ok (quoteE lz.e s.heap).1, { s with heap := (quoteE lz.e s.heap).2 }) := by
  unfold builtin
  simp [runM_bind, runM_get, h, hv]
  rfl

/-- `substitute` on a thunk `apply`/`map` made from a value: that value -/
theorem substitute_of_value_thunk (fuel id : Nat) (s : St) (lz : LazyObj)
    (h : s.lazies[id]? = some lz) (hv : lz.isValue = true) :
    runM (builtin (fuel + 1) "substitute" [.lazy id]) s = (.ok (lz.value.getD .nil), s) := by
  unfold builtin
  simp [runM_bind, runM_get, runM_pure, h, hv]

/-- **Source recoverable.** From the moment an argument `e` is delayed, and whatever the machine
does afterwards (forcing it included), `substitute` on that thunk yields `e` as data. -/
theorem substitute_after_reach (e : Expr) (s0 s : St) (hr : Reach (allocThunk e s0) s) (fuel : Nat) :
    runM (builtin (fuel + 1) "substitute" [.lazy s0.lazies.length]) s =
      (.ok (quoteE e s.heap).1, { s with heap := (quoteE e s.heap).2 }) := by
  obtain ⟨lz', h', he, _, _, hiv⟩ := thunk_env_immutable hr s0.lazies.length _ (allocThunk_new e s0).1
  have := substitute_returns_source fuel s0.lazies.length s lz' h' (by rw [hiv])
  rw [he] at this
  exact this

/-! ## The reference evaluator has the property by construction -/

theorem ref_force_hit (fuel id : Nat) (s : Ref.St) (th : Ref.Thunk) (v : Val)
    (h : s.thunks[id]? = some th) (hv : th.value = some v) : Ref.force (fuel + 1) id s = .ok v s := by
  simp [Ref.force, h, hv]

theorem ref_lazy_position_not_evaluated (fuel : Nat) (e : Expr) (es : List Expr) (i : Nat) (lazyAt : Nat → Bool)
    (env : Nat) (s : Ref.St) (h : lazyAt i = true) :
    Ref.evalArgs (fuel + 1) (e :: es) i lazyAt env s =
      (match Ref.evalArgs fuel es (i + 1) lazyAt env { s with thunks := s.thunks ++ [{ e, env, value := none }] } with
       | .ok vs s' => .ok (.lazy s.thunks.length :: vs) s'
       | r => r) := by
  simp only [Ref.evalArgs, h, if_true]
  cases Ref.evalArgs fuel es (i + 1) lazyAt env { s with thunks := s.thunks ++ [{ e, env, value := none }] } <;> rfl

theorem ref_substitute_returns_source (fuel id : Nat) (s : Ref.St) (th : Ref.Thunk)
    (h : s.thunks[id]? = some th) (hv : th.isValue = false) :
    Ref.applyFn (fuel + 1) (.builtin "substitute") [.lazy id] s =
      .ok (quoteE th.e s.heap).1 { s with heap := (quoteE th.e s.heap).2 } := by
  simp [Ref.applyFn, h, hv]


/-- what `prepPlan` does for one argument -/
def prepOne (fuel : Nat) (f : Option FnObj) (i : Nat) (e : Expr) : M Unit :=
  if lazyPos f i then modify (allocThunk e)
  else do let v ← evalCallExpr fuel e; pushData v

theorem prepPlan_cons (fuel : Nat) (f : Option FnObj) (i : Nat) (e : Expr) (es : List Expr) :
    prepPlan fuel f i (e :: es) = (prepOne (fuel + es.length) f i e >>= fun _ => prepPlan fuel f (i + 1) es) := rfl

theorem prepPlan_append (fuel : Nat) (f : Option FnObj) :
    ∀ (pre : List Expr) (i : Nat) (rest : List Expr) (s : St),
      runM (prepPlan fuel f i (pre ++ rest)) s =
        runM (prepPlan (fuel + rest.length) f i pre >>= fun _ => prepPlan fuel f (i + pre.length) rest) s := by
  intro pre
  induction pre with
  | nil => intro i rest s; simp only [List.nil_append, prepPlan, runM_bind, runM_pure, List.length_nil, Nat.add_zero]
  | cons a pre ih =>
    intro i rest s
    have hl : fuel + (pre ++ rest).length = fuel + rest.length + pre.length := by
      rw [List.length_append]; omega
    rw [List.cons_append, prepPlan_cons, prepPlan_cons, hl]
    simp only [runM_bind]
    cases runM (prepOne (fuel + rest.length + pre.length) f i a) s with
    | mk r s1 =>
      cases r with
      | error flt => rfl
      | ok u =>
        dsimp only
        rw [ih (i + 1) rest s1, runM_bind]
        have : i + 1 + pre.length = i + (a :: pre).length := by simp [List.length_cons]; omega
        rw [this]


/-- position form, lazy: whatever the other arguments are, the argument at a lazy position
contributes exactly `allocThunk e` to the preparation of the call -/
theorem prepareArgs_at_lazy_position (fuel : Nat) (f : Option FnObj) (i : Nat) (pre : List Expr) (e : Expr)
    (post : List Expr) (s : St) (h : lazyPos f (i + pre.length) = true) :
    runM (prepareArgs (fuel + 1 + (pre ++ e :: post).length) f i (pre ++ e :: post)) s =
      runM (prepPlan (fuel + 1 + (post.length + 1)) f i pre >>= fun _ =>
            modify (allocThunk e) >>= fun _ => prepPlan (fuel + 1) f (i + pre.length + 1) post) s := by
  rw [prepareArgs_eq_plan, prepPlan_append, List.length_cons]
  simp only [runM_bind, prepPlan_cons, prepOne, h, if_true]

/-- position form, strict: the argument at a strict position is evaluated by exactly one
`evalCallExpr`, after the arguments before it and before those after it, and its value is
the operand -/
theorem prepareArgs_at_strict_position (fuel : Nat) (f : Option FnObj) (i : Nat) (pre : List Expr) (e : Expr)
    (post : List Expr) (s : St) (h : lazyPos f (i + pre.length) = false) :
    runM (prepareArgs (fuel + 1 + (pre ++ e :: post).length) f i (pre ++ e :: post)) s =
      runM (prepPlan (fuel + 1 + (post.length + 1)) f i pre >>= fun _ =>
            (evalCallExpr (fuel + 1 + post.length) e >>= fun v => pushData v) >>= fun _ =>
            prepPlan (fuel + 1) f (i + pre.length + 1) post) s := by
  rw [prepareArgs_eq_plan, prepPlan_append, List.length_cons]
  simp only [runM_bind, prepPlan_cons, prepOne, h, Bool.false_eq_true, if_false]

/-! ## nothing is read when the argument is delayed -/

/-- delaying an argument never consults the scope table: it commutes with any change of the
scope contents (no variable is read, whatever the expression — a bare symbol included) -/
theorem allocThunk_reads_no_variable (e : Expr) (s : St) (sc : List Scope) :
    allocThunk e { s with scopes := sc } = { allocThunk e s with scopes := sc } := rfl

/-- after a call with only lazy positions, every new thunk holds its expression and no value -/
theorem allocThunk_fold_thunks (args : List Expr) : ∀ (s : St) (j : Nat) (hj : j < args.length),
    ∃ lz, (args.foldl (fun s e => allocThunk e s) s).lazies[s.lazies.length + j]? = some lz ∧
      lz.e = args[j] ∧ lz.value = none ∧ lz.stack = s.linear ∧ lz.curfunc = s.curfunc := by
  induction args with
  | nil => intro s j hj; cases hj
  | cons a as ih =>
    intro s j hj
    rw [List.foldl_cons]
    have hext : LExt (allocThunk a s).lazies (as.foldl (fun s e => allocThunk e s) (allocThunk a s)).lazies := by
      have : ∀ (l : List Expr) (t : St), LExt t.lazies (l.foldl (fun s e => allocThunk e s) t).lazies := by
        intro l
        induction l with
        | nil => intro t; exact LExt.refl _
        | cons b bs ihb => intro t; exact LExt.trans (LExt.append _ _) (ihb (allocThunk b t))
      exact this as _
    cases j with
    | zero =>
      obtain ⟨lz', h', le⟩ := hext s.lazies.length _ (allocThunk_new a s).1
      refine ⟨lz', by simpa using h', le.1, ?_, le.2.1, le.2.2.1⟩
      -- a value could only have been added by a force; the fold forces nothing: use the frame
      have hfr := ih (allocThunk a s)
      -- value: the fold only appends, so the entry is literally the allocated one
      have : ∀ (l : List Expr) (t : St) (i : Nat) (x : LazyObj), t.lazies[i]? = some x →
          (l.foldl (fun s e => allocThunk e s) t).lazies[i]? = some x := by
        intro l
        induction l with
        | nil => intro t i x h; exact h
        | cons b bs ihb =>
          intro t i x h
          rw [List.foldl_cons]
          apply ihb
          simp only [allocThunk]
          rw [List.getElem?_append_left (getElem?_lt h)]; exact h
      have h2 := this as _ _ _ (allocThunk_new a s).1
      rw [h2] at h'; cases h'; rfl
    | succ j =>
      have hj' : j < as.length := by simpa using hj
      obtain ⟨lz, h1, h2, h3, h4, h5⟩ := ih (allocThunk a s) j hj'
      refine ⟨lz, ?_, by simpa using h2, h3, h4, h5⟩
      have : (allocThunk a s).lazies.length + j = s.lazies.length + (j + 1) := by simp [allocThunk]; omega
      rw [← this]; exact h1

theorem compile_sym (isFn : Nat → Bool) (c : Ctx) (x : String) : compile isFn c (.sym x) = pure ([.envToStack x], c.tail) := by
  simp only [compile]

theorem runGen_compile_sym (s : St) (x : String) :
    runM (runGen (compile (isFnScope s) {} (.sym x))) s = (.ok ([.envToStack x], false), s) := by
  rw [compile_sym]
  simp only [runGen, runM_bind, runM_get]
  rfl

theorem exec_envToStack (fuel : Nat) (x : String) (s : St) :
    runM (exec (fuel + 1) (.envToStack x)) s =
      match lexLookup s x with
      | some (_, v) => (.ok (), { s with data := some v :: s.data, pc := s.pc + 1 })
      | none => (.error .err, s) := by
  simp only [exec, runM_bind, runM_get]
  cases lexLookup s x with
  | none => rfl
  | some r => rfl

/-! ## lookups inside a forced expression -/

/-- `LexicalLookupSymbol` as a function of the two things it reads besides the tables: the
scope stack and the current function. -/
def lexLookupAt (s : St) (lin : List (Option Nat)) (cur : Nat) (x : String) : Option (Nat × Val) :=
  match lookupUntilFn s x false lin with
  | some r => some r
  | none =>
    let f := fnOf s cur
    let second :=
      if f.parent.isSome then lookupChain s x (s.fns.length + 1) cur
      else lookupUntilFn s x false f.closing
    match second with
    | some r => some r
    | none => lookupUntilFn s x true lin

theorem lexLookup_eq_at (s : St) (x : String) : lexLookup s x = lexLookupAt s s.linear s.curfunc x := rfl

theorem force_lookup_eq_callsite (sF : St) (K : List (Option Nat)) (f c : Nat) (x : String)
    (hcl : (fnOf sF f).closing = K) (hpar : (fnOf sF f).parent = some c)
    (hfuel : lookupChain sF x sF.fns.length c = lookupChain sF x (sF.fns.length + 1) c)
    (hc : (fnOf sF c).parent.isSome = true ∨
          ((fnOf sF c).parent = none ∧ (lookupUntilFn sF x false K = none → lookupUntilFn sF x false (fnOf sF c).closing = none) ∧ 0 < sF.fns.length)) :
    lexLookupAt sF K f x = lexLookupAt sF K c x := by
  unfold lexLookupAt
  cases h1 : lookupUntilFn sF x false K with
  | some r => rfl
  | none =>
    dsimp only
    have hstep : lookupChain sF x (sF.fns.length + 1) f = lookupChain sF x sF.fns.length c := by
      rw [lookupChain]; simp only [hpar, hcl, h1]
    simp only [hpar, Option.isSome_some, if_true, hstep]
    rcases hc with hc | ⟨hc1, hc2, hc3⟩
    · simp only [hc, if_true, hfuel]
    · simp only [hc1, Option.isSome_none, Bool.false_eq_true, if_false, hc2 h1]
      cases hn : sF.fns.length with
      | zero => omega
      | succ n => simp only [lookupChain, hc1]

end ZygoVerif.C16
