/-
Proofs/GenBalancedLoop.lean — the fragment calculus of Proofs/GenBalanced.lean extended to
loops: `break`/`continue` (cut back to the loop's stack-mark), the layout of `GenerateForLoop`
(`frag_for`), instructions with arbitrary successors (`frag_instr`), and the facts about loop
ids the calculus needs from the enclosing function (`LoopsUnique`, `loopPos_of_unique`).
-/
import ZygoVerif.Proofs.GenBalanced
set_option linter.unusedSimpArgs false
namespace ZygoVerif.Bal
open ZygoVerif.VM ZygoVerif.Core

/-! ## Loop ids of a listing -/

def lid? : BInstr → Option Nat
  | .loopStart l => some l
  | _ => none

/-- the ids of the `LoopStartInstr`s of a listing, in order -/
def lids (code : List BInstr) : List Nat := code.filterMap lid?

theorem lids_append (a b : List BInstr) : lids (a ++ b) = lids a ++ lids b := by
  simp [lids]

theorem lids_nil : lids [] = [] := rfl

theorem lid?_eq_some {i : BInstr} {l : Nat} : lid? i = some l ↔ i = .loopStart l := by
  cases i <;> simp [lid?]

theorem mem_lids {code : List BInstr} {l : Nat} : l ∈ lids code ↔ BInstr.loopStart l ∈ code := by
  simp only [lids, List.mem_filterMap, lid?_eq_some]
  constructor
  · rintro ⟨a, ha, rfl⟩; exact ha
  · intro h; exact ⟨_, h, rfl⟩

/-- every loop id labels at most one `LoopStartInstr` (`FindLoop` takes the first) -/
def LoopsUnique (code : List BInstr) : Prop :=
  ∀ (l i j : Nat), code[i]? = some (BInstr.loopStart l) → code[j]? = some (BInstr.loopStart l) → i = j

theorem loopsUnique_of_nodup : ∀ (code : List BInstr), (lids code).Nodup → LoopsUnique code
  | [], _ => by unfold LoopsUnique; intro l i j hi; simp at hi
  | x :: r, h => by
    have hr : (lids r).Nodup := by
      have : lids (x :: r) = lids [x] ++ lids r := lids_append [x] r
      rw [this] at h
      exact (List.nodup_append.mp h).2.1
    have ih := loopsUnique_of_nodup r hr
    unfold LoopsUnique at ih ⊢
    intro l i j hi hj
    cases i with
    | zero =>
      cases j with
      | zero => rfl
      | succ j =>
        exfalso
        simp only [List.getElem?_cons_zero, Option.some.injEq] at hi
        simp only [List.getElem?_cons_succ] at hj
        have hm : l ∈ lids r := mem_lids.mpr (List.mem_of_getElem? hj)
        subst hi
        have : lids (BInstr.loopStart l :: r) = l :: lids r := by simp [lids, lid?]
        rw [this] at h
        exact (List.nodup_cons.mp h).1 hm
    | succ i =>
      cases j with
      | zero =>
        exfalso
        simp only [List.getElem?_cons_zero, Option.some.injEq] at hj
        simp only [List.getElem?_cons_succ] at hi
        have hm : l ∈ lids r := mem_lids.mpr (List.mem_of_getElem? hi)
        subst hj
        have : lids (BInstr.loopStart l :: r) = l :: lids r := by simp [lids, lid?]
        rw [this] at h
        exact (List.nodup_cons.mp h).1 hm
      | succ j =>
        simp only [List.getElem?_cons_succ] at hi hj
        rw [ih l i j hi hj]

theorem loopPos_of_unique (code : List BInstr) (L l : Nat) (hu : LoopsUnique code)
    (h : code[L]? = some (.loopStart l)) : loopPos code l = some L := by
  unfold loopPos
  rw [List.findIdx?_eq_some_iff_getElem]
  have hlt : L < code.length := by
    rcases Nat.lt_or_ge L code.length with h' | h'
    · exact h'
    · rw [List.getElem?_eq_none_iff.mpr h'] at h; cases h
  refine ⟨hlt, ?_, ?_⟩
  · rw [List.getElem?_eq_getElem hlt] at h
    simp only [Option.some.injEq] at h
    simp [h]
  · intro j hj hp
    have hjl : j < code.length := by omega
    have : code[j]? = some (.loopStart l) := by
      rw [List.getElem?_eq_getElem hjl]
      simp only [beq_iff_eq] at hp
      rw [hp]
    have := (show ∀ (l i j : Nat), _ from hu) l j L this h
    omega

theorem loopPos_none (code : List BInstr) (l : Nat) (h : l ∉ lids code) : loopPos code l = none := by
  unfold loopPos
  rw [List.findIdx?_eq_none_iff]
  intro x hx
  cases hp : (x == BInstr.loopStart l)
  · rfl
  · simp only [beq_iff_eq] at hp
    subst hp
    exact absurd (mem_lids.mpr hx) h

/-! ## One instruction with arbitrary successors -/

/-- An instruction whose successors (any number, anywhere) are admitted by the annotation of the
enclosing function. `τ` annotates the position behind it (reachable or not). -/
theorem frag_instr (Γ : Env) (ins : BInstr) (σ τ : AState) (hσ : σ.wf = true) (hτ : τ.wf = true)
    (h : ∀ (F : Fn) (A : Ann) (L : Nat), Placed F A L [ins] [σ, τ] → EnvOK Γ F A →
      ∃ succs, astep F L ins σ = .ok succs ∧ ∀ p ∈ succs, ∃ t, annAt A p.1 = some t ∧ p.2.le t = true) :
    FragOK Γ [ins] [σ, τ] := by
  refine ⟨rfl, ?_, ?_⟩
  · intro s hs
    simp at hs
    rcases hs with rfl | rfl <;> assumption
  · intro F A L hp henv i hi
    have hi0 : i = 0 := by simpa using hi
    subst hi0
    have hc := hp.1 0 (by simp)
    have ha0 := hp.2 0 (by simp)
    simp at hc ha0
    obtain ⟨succs, hs, hall⟩ := h F A L hp henv
    exact okAt_intro F A (L + 0) ins σ succs (by simpa using hc) (by simpa using ha0) hσ (by simpa using hs) hall

theorem efrag_instr (Γ : Env) (ins : BInstr) (σ τ : AState) (hσ : σ.wf = true) (hτ : τ.wf = true)
    (h : ∀ (F : Fn) (A : Ann) (L : Nat), Placed F A L [ins] [σ, τ] → EnvOK Γ F A →
      ∃ succs, astep F L ins σ = .ok succs ∧ ∀ p ∈ succs, ∃ t, annAt A p.1 = some t ∧ p.2.le t = true) :
    ExprFrag Γ [ins] σ τ :=
  ⟨[], by simpa using frag_instr Γ ins σ τ hσ hτ h⟩

/-! ## `break` / `continue` -/

/-- `break`/`continue` to a loop of the context: the scopes opened since the loop's own scope
are popped, the operands above the loop's stack-mark are forgotten (`junk`), and the state so
cut is what the annotation has at the loop's break / continue target. Nothing falls through:
`τ` is arbitrary. When the loop belongs to an enclosing function (`FindLoop` fails at run time)
the instruction has no successor at all. -/
theorem efrag_exit (Γ : Env) (ins : BInstr) (l : Nat) (off : Int) (p : Nat) (σ τ : AState)
    (he : eff ins = .exitLoop l off p) (hσ : σ.wf = true) (hτ : τ.wf = true)
    (h : (∀ F A, Γ.side F A → loopPos F.code l = none) ∨
         (∃ info ∈ Γ.loops, info.id = l ∧ (off = info.brkOff ∨ off = info.contOff) ∧
            (∃ pre fr, cutTo l σ.frames = some (pre, fr, info.below)) ∧ σ.base = info.base ∧
            p ≤ σ.k ∧ σ.k - p = info.k)) :
    ExprFrag Γ [ins] σ τ := by
  apply efrag_instr Γ ins σ τ hσ hτ
  intro F A L _ henv
  rcases h with hf | ⟨info, hmem, hid, hoff, ⟨pre, fr, hcut⟩, hbase, hpk, hk⟩
  · refine ⟨[], ?_, fun q hq => by cases hq⟩
    simp only [astep, he, hf F A henv.1]
  · obtain ⟨pos, tb, tc, hpos, htb, htc, hab, hac⟩ := henv.2 info hmem
    rw [hid] at hpos
    have hkind := (cutTo_spec l σ.frames pre info.below fr hcut).2
    have hfr : ({ fr with cnt := ⟨.junk, 0⟩ } : Frame) = ⟨.mark info.id, ⟨.junk, 0⟩⟩ := by
      obtain ⟨fk, fc⟩ := fr
      simp only at hkind
      simp [hkind, hid]
    have hstate : ({ σ with k := σ.k - p, frames := { fr with cnt := ⟨.junk, 0⟩ } :: info.below } : AState) = info.cut := by
      simp only [LoopInfo.cut, hfr, hk, hbase]
    rcases hoff with ho | ho
    · refine ⟨[(tb, info.cut)], ?_, ?_⟩
      · simp only [astep, he, hpos, hcut, hpk, if_true, ho, htb, hstate]
      · intro q hq
        simp only [List.mem_cons, List.mem_nil_iff, or_false] at hq
        subst hq
        exact hab
    · refine ⟨[(tc, info.cut)], ?_, ?_⟩
      · simp only [astep, he, hpos, hcut, hpk, if_true, ho, htc, hstate]
      · intro q hq
        simp only [List.mem_cons, List.mem_nil_iff, or_false] at hq
        subst hq
        exact hac

/-! ## Ranges of verified positions -/

def OkRange (F : Fn) (A : Ann) (lo hi : Nat) : Prop := ∀ pc, lo ≤ pc → pc < hi → okAt F A pc = true

theorem okRange_append {F : Fn} {A : Ann} {lo mid hi : Nat} (h1 : OkRange F A lo mid) (h2 : OkRange F A mid hi) :
    OkRange F A lo hi := by
  intro pc hlo hhi
  rcases Nat.lt_or_ge pc mid with h | h
  · exact h1 pc hlo h
  · exact h2 pc h hhi

theorem okRange_of_frag {Γ : Env} {F : Fn} {A : Ann} {L : Nat} {c : List BInstr} {as : List AState}
    (h : FragOK Γ c as) (hp : Placed F A L c as) (henv : EnvOK Γ F A) : OkRange F A L (L + c.length) := by
  intro pc hlo hhi
  have := h.2.2 F A L hp henv (pc - L) (by omega)
  have he : L + (pc - L) = pc := by omega
  rwa [he] at this

theorem okRange_one {F : Fn} {A : Ann} {pc : Nat} (h : okAt F A pc = true) : OkRange F A pc (pc + 1) := by
  intro q hlo hhi
  have : q = pc := by omega
  rw [this]; exact h

theorem placed_split {F : Fn} {A : Ann} {L : Nat} {c1 c2 : List BInstr} {a1 a2 : List AState} {m : AState}
    (h : Placed F A L (c1 ++ c2) (a1 ++ m :: a2)) (hl : a1.length = c1.length) :
    Placed F A L c1 (a1 ++ [m]) ∧ Placed F A (L + c1.length) c2 (m :: a2) :=
  ⟨placed_left h hl, placed_right h hl⟩

theorem placed_step {F : Fn} {A : Ann} {L : Nat} {c rest : List BInstr} {s s' : AState} {m more : List AState}
    (h : Placed F A L (c ++ rest) (s :: (m ++ s' :: more))) (hl : m.length + 1 = c.length) :
    Placed F A L c (s :: m ++ [s']) ∧ Placed F A (L + c.length) rest (s' :: more) :=
  placed_split (a1 := s :: m) (m := s') (a2 := more) h (by simpa using hl)

theorem frag_mid_len {Γ : Env} {c : List BInstr} {s s' : AState} {m : List AState}
    (h : FragOK Γ c (s :: m ++ [s'])) : m.length + 1 = c.length := by
  have := h.1
  simp at this
  omega

theorem target_eq (pc : Nat) (off : Int) (len t : Nat) (h : (pc : Int) + off = (t : Int)) (hle : t ≤ len) :
    target pc off len = some t := by
  unfold target
  simp only
  rw [if_pos (by omega)]
  congr 1
  omega

theorem okAt_jump (F : Fn) (A : Ann) (pc : Nat) (off : Int) (t : Nat) (σ τ : AState)
    (hc : F.code[pc]? = some (.jump off)) (ha : annAt A pc = some σ) (hwf : σ.wf = true)
    (ht : target pc off F.code.length = some t) (hat : annAt A t = some τ) (hle : σ.le τ = true) :
    okAt F A pc = true := by
  refine okAt_intro F A pc _ σ [(t, σ)] hc ha hwf ?_ ?_
  · simp only [astep, eff, ht]
  · intro q hq
    simp only [List.mem_cons, List.mem_nil_iff, or_false] at hq
    subst hq
    exact ⟨τ, hat, hle⟩

theorem okAt_branch (F : Fn) (A : Ann) (pc : Nat) (d : Bool) (off : Int) (t : Nat) (σ σ' τ₁ τ₂ : AState)
    (hc : F.code[pc]? = some (.branch d off)) (ha : annAt A pc = some σ) (hwf : σ.wf = true)
    (hpop : popPush σ 1 0 = some σ') (ht : target pc off F.code.length = some t)
    (h1 : annAt A (pc + 1) = some τ₁) (hle1 : σ'.le τ₁ = true)
    (h2 : annAt A t = some τ₂) (hle2 : σ'.le τ₂ = true) : okAt F A pc = true := by
  refine okAt_intro F A pc _ σ [(pc + 1, σ'), (t, σ')] hc ha hwf ?_ ?_
  · simp only [astep, eff, hpop, ht]
  · intro q hq
    simp only [List.mem_cons, List.mem_nil_iff, or_false] at hq
    rcases hq with rfl | rfl
    · exact ⟨τ₁, h1, hle1⟩
    · exact ⟨τ₂, h2, hle2⟩

/-- `tailGuard → behind x ; x` (fix C09-02): the guard pops nothing; taken or not, the state is `σ`;
`x` (operands and the tail sequence, ending in `goto 0`) is annotated `σ` behind its end, which
is where the guard skips to -/
theorem efrag_guard_skip {Γ : Env} {x : List BInstr} {σ : AState} (off : Int) (hoff : off = (x.length : Int) + 1)
    (hw : σ.wf = true) (hx : ExprFrag Γ x σ σ) :
    ExprFrag Γ ([BInstr.tailGuard off] ++ x) σ σ := by
  obtain ⟨mx, fx⟩ := hx
  have lx := frag_mid_len fx
  refine ⟨σ :: mx, ?_, ?_, ?_⟩
  · simp only [List.length_append, List.length_cons, List.length_nil]; omega
  · intro s hs
    simp only [List.mem_append, List.mem_cons, List.mem_nil_iff, or_false, List.cons_append] at hs
    rcases hs with rfl | rfl | hs | rfl
    · exact hw
    · exact hw
    · exact fx.2.1 s (by simp [hs])
    · exact hw
  · intro F A L hp henv
    have hp' : Placed F A L ([BInstr.tailGuard off] ++ x) (σ :: ([] ++ σ :: (mx ++ [σ]))) := by simpa using hp
    obtain ⟨qg, rx⟩ := placed_step (c := [BInstr.tailGuard off]) (m := []) hp' rfl
    have qx : Placed F A (L + 1) x (σ :: mx ++ [σ]) := rx
    have hlast := placed_bound hp' x.length (by simp)
    have hcg := qg.1 0 (by simp)
    have hag := qg.2 0 (by simp)
    have ha1 := qx.2 0 (by simp)
    have haE := qx.2 (mx.length + 1) (by simp)
    simp only [Nat.add_zero, List.getElem?_cons_zero, List.cons_append] at hcg hag ha1
    have haE' : annAt A (L + 1 + (mx.length + 1)) = some σ := by
      rw [haE]
      simp [List.getElem?_append_right]
    have Rg : OkRange F A L (L + 1) := by
      apply okRange_one
      refine okAt_intro F A L _ σ [(L + 1, σ), (L + 1 + (mx.length + 1), σ)] hcg hag hw ?_ ?_
      · have ht : target L off F.code.length = some (L + 1 + (mx.length + 1)) :=
          target_eq _ _ _ _ (by rw [hoff]; push_cast; omega) (by omega)
        simp only [astep, eff, ht]
      · intro q hq
        simp only [List.mem_cons, List.mem_nil_iff, or_false] at hq
        rcases hq with rfl | rfl
        · exact ⟨σ, ha1, le_refl σ⟩
        · exact ⟨σ, haE', le_refl σ⟩
    have Rx := okRange_of_frag fx qx henv
    have Rall := okRange_append Rg Rx
    intro i hi
    simp only [List.length_append, List.length_cons, List.length_nil] at hi
    exact Rall (L + i) (by omega) (by omega)

/-! ## The loop layout -/

/-- the state inside a loop: one more scope, the loop's stack-mark region (count `c`) on top -/
def inLoop (loop : Nat) (σ : AState) (c : Cnt) : AState :=
  { k := σ.k + 1, frames := ⟨.mark loop, c⟩ :: σ.frames, base := σ.base }

def loopInfo (loop : Nat) (σ : AState) (brkOff contOff : Int) : LoopInfo :=
  { id := loop, k := σ.k + 1, below := σ.frames, base := σ.base, brkOff := brkOff, contOff := contOff }

def Env.enter (Γ : Env) (i : LoopInfo) : Env := { Γ with loops := i :: Γ.loops }

theorem inLoop_wf (loop : Nat) (σ : AState) (c : Cnt) (hσ : σ.wf = true) (hf : loop ∉ openMarks σ.frames) :
    (inLoop loop σ c).wf = true := by
  simp only [AState.wf, inLoop, openMarks, decide_eq_true_eq, List.nodup_cons] at hσ ⊢
  exact ⟨hf, hσ⟩

theorem bump_inLoop (loop : Nat) (σ : AState) (sh : Shape) (n d : Nat) :
    bump (inLoop loop σ ⟨sh, n⟩) d = inLoop loop σ ⟨sh, n + d⟩ := rfl

theorem cut_loopInfo (loop : Nat) (σ : AState) (b c : Int) :
    (loopInfo loop σ b c).cut = inLoop loop σ ⟨.junk, 0⟩ := rfl

theorem efrag_nop (Γ : Env) (ins : BInstr) (σ : AState) (hσ : σ.wf = true) (he : eff ins = .simple 0 0) :
    ExprFrag Γ [ins] σ σ := by
  have := efrag_simple Γ ins σ 0 0 0 hσ he (Nat.le_refl _)
  simpa [bump_zero] using this

theorem efrag_pushMark (Γ : Env) (loop : Nat) (σ : AState) (hσ : σ.wf = true) (hf : loop ∉ openMarks σ.frames) :
    ExprFrag Γ [.pushMark loop] (deeper σ 1) (inLoop loop σ ⟨.exact, 0⟩) :=
  efrag_single Γ _ _ _ (by rw [wf_deeper]; exact hσ) (inLoop_wf loop σ _ hσ hf)
    (fun F pc => by
      have : loop ∉ openMarks (deeper σ 1).frames := hf
      simp only [astep, eff, this, if_false]
      rfl)

theorem efrag_popUntil (Γ : Env) (loop : Nat) (σ : AState) (c : Cnt) (hσ : σ.wf = true) (hf : loop ∉ openMarks σ.frames) :
    ExprFrag Γ [.popUntilMark loop] (inLoop loop σ c) (inLoop loop σ ⟨.exact, 0⟩) :=
  efrag_single Γ _ _ _ (inLoop_wf loop σ _ hσ hf) (inLoop_wf loop σ _ hσ hf)
    (fun F pc => by simp [astep, eff, inLoop, cutTo])

theorem efrag_clearMark (Γ : Env) (loop : Nat) (σ : AState) (c : Cnt) (hσ : σ.wf = true) (hf : loop ∉ openMarks σ.frames) :
    ExprFrag Γ [.clearMark loop] (inLoop loop σ c) (deeper σ 1) :=
  efrag_single Γ _ _ _ (inLoop_wf loop σ _ hσ hf) (by rw [wf_deeper]; exact hσ)
    (fun F pc => by simp [astep, eff, inLoop, cutTo, deeper])

/-- a `label` where the annotation behind it is weaker (the join point of the loop exit) -/
theorem efrag_label_weaken (Γ : Env) (σ τ : AState) (hσ : σ.wf = true) (hτ : τ.wf = true) (hle : σ.le τ = true) :
    ExprFrag Γ [.label] σ τ := by
  apply efrag_instr Γ _ σ τ hσ hτ
  intro F A L hp _
  have ha1 := hp.2 1 (by simp)
  simp at ha1
  refine ⟨[(L + 1, σ)], ?_, ?_⟩
  · have := popPush_zero σ 0
    rw [bump_zero] at this
    simp only [astep, eff, this]
  · intro q hq
    simp only [List.mem_cons, List.mem_nil_iff, or_false] at hq
    subst hq
    exact ⟨τ, ha1, hle⟩

abbrev L0 (loop : Nat) (σ : AState) : AState := inLoop loop σ ⟨.exact, 0⟩
abbrev L1 (loop : Nat) (σ : AState) : AState := inLoop loop σ ⟨.exact, 1⟩
abbrev LJ (loop : Nat) (σ : AState) : AState := inLoop loop σ ⟨.junk, 0⟩

theorem L0_le_LJ (loop : Nat) (σ : AState) : (L0 loop σ).le (LJ loop σ) = true := by
  simp [AState.le, inLoop, framesLe, Frame.le, Cnt.le, Shape.le, framesLe_refl]

theorem popPush_L1 (loop : Nat) (σ : AState) : popPush (L1 loop σ) 1 0 = some (L0 loop σ) := by
  simp [popPush, inLoop]

/-- **The layout of `GenerateForLoop`.** `ini`, `inc`, `bod` end with their `popUntilMark`;
`tst` leaves its value for the branch. Inside the loop the context has one more loop: its
break target is the `clearMark` behind the final label, its continue target the label in front
of the increment; both are annotated with the cut state (`junk` above the loop's mark). -/
theorem frag_for (Γ : Env) (loop : Nat) (σ : AState) (ini tst inc bod : List BInstr)
    (brkOff contOff jf jb brOff : Int)
    (hσ : σ.wf = true) (hfresh : loop ∉ openMarks σ.frames)
    (huniq : ∀ F A, Γ.side F A → LoopsUnique F.code)
    (hjf : jf = ((inc.length + 2 : Nat) : Int))
    (hbr : brOff = ((bod.length + 3 : Nat) : Int))
    (hc : contOff = ((4 + ini.length + 1 : Nat) : Int))
    (hjb : jb = contOff - ((4 + ini.length + 1 + (1 + inc.length) + (1 + tst.length) + 1 + (1 + bod.length) : Nat) : Int))
    (hb : brkOff = ((4 + ini.length + 1 + (1 + inc.length) + (1 + tst.length) + 1 + (1 + bod.length) + 1 + 1 : Nat) : Int))
    (hi : ExprFrag (Γ.enter (loopInfo loop σ brkOff contOff)) ini (L0 loop σ) (L0 loop σ))
    (ht : ExprFrag (Γ.enter (loopInfo loop σ brkOff contOff)) tst (L0 loop σ) (L1 loop σ))
    (hs : ExprFrag (Γ.enter (loopInfo loop σ brkOff contOff)) inc (LJ loop σ) (L0 loop σ))
    (hbd : ExprFrag (Γ.enter (loopInfo loop σ brkOff contOff)) bod (L0 loop σ) (L0 loop σ)) :
    ExprFrag Γ ([.loopStart loop, .addScope, .pushMark loop, .label] ++ (ini ++ ([.jump jf] ++ (([.label] ++ inc) ++
        (([.label] ++ tst) ++ ([.branch false brOff] ++ (([.label] ++ bod) ++ ([.jump jb] ++ ([.label] ++
          [.clearMark loop, .removeScope, .push])))))))))
      σ (bump σ 1) := by
  have hw0 := inLoop_wf loop σ ⟨.exact, 0⟩ hσ hfresh
  have hw1 := inLoop_wf loop σ ⟨.exact, 1⟩ hσ hfresh
  have hwJ := inLoop_wf loop σ ⟨.junk, 0⟩ hσ hfresh
  have hwb : (bump σ 1).wf = true := by rw [wf_bump]; exact hσ
  -- the straight-line pieces
  have p0 : ExprFrag (Γ.enter (loopInfo loop σ brkOff contOff))
      [.loopStart loop, .addScope, .pushMark loop, .label] σ (L0 loop σ) := by
    have := efrag_seq (efrag_seq (efrag_seq (efrag_nop (Γ.enter (loopInfo loop σ brkOff contOff)) (.loopStart loop) σ hσ rfl)
      (efrag_scopeUp _ .addScope σ hσ rfl)) (efrag_pushMark _ loop σ hσ hfresh)) (efrag_nop _ .label (L0 loop σ) hw0 rfl)
    simpa using this
  have p2 : ExprFrag (Γ.enter (loopInfo loop σ brkOff contOff)) ([.label] ++ inc) (LJ loop σ) (L0 loop σ) :=
    efrag_seq (efrag_nop _ .label (LJ loop σ) hwJ rfl) hs
  have p3 : ExprFrag (Γ.enter (loopInfo loop σ brkOff contOff)) ([.label] ++ tst) (L0 loop σ) (L1 loop σ) :=
    efrag_seq (efrag_nop _ .label (L0 loop σ) hw0 rfl) ht
  have p4 : ExprFrag (Γ.enter (loopInfo loop σ brkOff contOff)) ([.label] ++ bod) (L0 loop σ) (L0 loop σ) :=
    efrag_seq (efrag_nop _ .label (L0 loop σ) hw0 rfl) hbd
  have pe : ExprFrag (Γ.enter (loopInfo loop σ brkOff contOff)) [.label] (L0 loop σ) (LJ loop σ) :=
    efrag_label_weaken _ _ _ hw0 hwJ (L0_le_LJ loop σ)
  have p6 : ExprFrag (Γ.enter (loopInfo loop σ brkOff contOff)) [.clearMark loop, .removeScope, .push] (LJ loop σ) (bump σ 1) := by
    have := efrag_seq (efrag_seq (efrag_clearMark (Γ.enter (loopInfo loop σ brkOff contOff)) loop σ ⟨.junk, 0⟩ hσ hfresh)
      (efrag_scopeDown _ σ hσ)) (efrag_push _ .push σ hσ rfl)
    simpa using this
  obtain ⟨m0, f0⟩ := p0
  obtain ⟨mi, fi⟩ := hi
  obtain ⟨m2, f2⟩ := p2
  obtain ⟨m3, f3⟩ := p3
  obtain ⟨m4, f4⟩ := p4
  obtain ⟨me, fe⟩ := pe
  obtain ⟨m6, f6⟩ := p6
  have l0 := frag_mid_len f0
  have li := frag_mid_len fi
  have l2 := frag_mid_len f2
  have l3 := frag_mid_len f3
  have l4 := frag_mid_len f4
  have le' := frag_mid_len fe
  have l6 := frag_mid_len f6
  simp only [List.length_append, List.length_cons, List.length_nil] at l0 l2 l3 l4 le' l6
  refine ⟨m0 ++ L0 loop σ :: (mi ++ L0 loop σ :: LJ loop σ :: (m2 ++ L0 loop σ :: (m3 ++ L1 loop σ :: L0 loop σ ::
    (m4 ++ L0 loop σ :: L0 loop σ :: (me ++ LJ loop σ :: m6))))), ?_, ?_, ?_⟩
  · simp only [List.length_append, List.length_cons, List.length_nil]
    omega
  · intro s hs
    simp only [List.mem_append, List.mem_cons, List.mem_nil_iff, or_false, List.cons_append, List.append_assoc] at hs
    rcases hs with rfl | hs | rfl | hs | rfl | rfl | hs | rfl | hs | rfl | rfl | hs | rfl | rfl | hs | rfl | hs | rfl
    · exact hσ
    · exact f0.2.1 s (by simp [hs])
    · exact hw0
    · exact fi.2.1 s (by simp [hs])
    · exact hw0
    · exact hwJ
    · exact f2.2.1 s (by simp [hs])
    · exact hw0
    · exact f3.2.1 s (by simp [hs])
    · exact hw1
    · exact hw0
    · exact f4.2.1 s (by simp [hs])
    · exact hw0
    · exact hw0
    · exact fe.2.1 s (by simp [hs])
    · exact hwJ
    · exact f6.2.1 s (by simp [hs])
    · exact hwb
  · intro F A L hp henv
    have hp' : Placed F A L
        ([.loopStart loop, .addScope, .pushMark loop, .label] ++ (ini ++ ([.jump jf] ++ (([.label] ++ inc) ++
          (([.label] ++ tst) ++ ([.branch false brOff] ++ (([.label] ++ bod) ++ ([.jump jb] ++ ([.label] ++
            [.clearMark loop, .removeScope, .push])))))))))
        (σ :: (m0 ++ L0 loop σ :: (mi ++ L0 loop σ :: ([] ++ LJ loop σ :: (m2 ++ L0 loop σ :: (m3 ++ L1 loop σ ::
          ([] ++ L0 loop σ :: (m4 ++ L0 loop σ :: ([] ++ L0 loop σ :: (me ++ LJ loop σ :: (m6 ++ [bump σ 1]))))))))))) := by
      simpa using hp
    obtain ⟨q0, r0⟩ := placed_step hp' (by simp only [List.length_append, List.length_cons, List.length_nil]; omega)
    obtain ⟨q1, r1⟩ := placed_step r0 li
    obtain ⟨qjf, r2⟩ := placed_step (c := [.jump jf]) (m := []) r1 rfl
    obtain ⟨q2, r3⟩ := placed_step r2 (by simp only [List.length_append, List.length_cons, List.length_nil]; omega)
    obtain ⟨q3, r4⟩ := placed_step r3 (by simp only [List.length_append, List.length_cons, List.length_nil]; omega)
    obtain ⟨qbr, r5⟩ := placed_step (c := [.branch false brOff]) (m := []) r4 rfl
    obtain ⟨q4, r6⟩ := placed_step r5 (by simp only [List.length_append, List.length_cons, List.length_nil]; omega)
    obtain ⟨qjb, r7⟩ := placed_step (c := [.jump jb]) (m := []) r6 rfl
    obtain ⟨qe, r8⟩ := placed_step r7 (by simp only [List.length_append, List.length_cons, List.length_nil]; omega)
    have q6 : Placed F A _ [.clearMark loop, .removeScope, .push] (LJ loop σ :: m6 ++ [bump σ 1]) := r8
    -- the whole fragment lies inside the function
    have hlast := placed_bound hp' (4 + ini.length + 1 + (1 + inc.length) + (1 + tst.length) + 1 + (1 + bod.length) + 1 + 1 + 2)
      (by simp only [List.length_append, List.length_cons, List.length_nil]; omega)
    simp only [List.length_append, List.length_cons, List.length_nil, Nat.zero_add] at q0 r0 q1 r1 qjf r2 q2 r3 q3 r4 qbr r5 q4 r6 qjb r7 qe r8 q6
    -- the environment inside the loop
    have hcode0 : F.code[L]? = some (.loopStart loop) := by
      have := q0.1 0 (by simp)
      simpa using this
    have hannC := q2.2 0 (by simp)
    have hannB := q6.2 0 (by simp)
    have hannT := q3.2 0 (by simp)
    have hannBody := q4.2 0 (by simp)
    have hannE := qe.2 0 (by simp)
    simp only [Nat.add_zero, List.getElem?_cons_zero, List.cons_append] at hannC hannB hannT hannBody hannE
    have henv' : EnvOK (Γ.enter (loopInfo loop σ brkOff contOff)) F A := by
      refine ⟨henv.1, ?_⟩
      intro i hi
      rcases List.mem_cons.mp hi with rfl | hi'
      · refine ⟨L, _, _, loopPos_of_unique F.code L loop (huniq F A henv.1) hcode0,
          target_eq L brkOff F.code.length _ ?_ ?_, target_eq L contOff F.code.length _ ?_ ?_,
          ⟨_, hannB, le_refl _⟩, ⟨_, hannC, le_refl _⟩⟩
        · show (L : Int) + brkOff = _
          rw [hb]; push_cast; omega
        · omega
        · show (L : Int) + contOff = _
          rw [hc]; push_cast; omega
        · omega
      · exact henv.2 i hi'
    -- every piece is verified where it sits
    have R0 := okRange_of_frag f0 q0 henv'
    have R1 := okRange_of_frag fi q1 henv'
    have R2 := okRange_of_frag f2 q2 henv'
    have R3 := okRange_of_frag f3 q3 henv'
    have R4 := okRange_of_frag f4 q4 henv'
    have Re := okRange_of_frag fe qe henv'
    have R6 := okRange_of_frag f6 q6 henv'
    have Rjf : OkRange F A (L + 4 + ini.length) (L + 4 + ini.length + 1) := by
      apply okRange_one
      have hcj := qjf.1 0 (by simp)
      have haj := qjf.2 0 (by simp)
      simp only [Nat.add_zero, List.getElem?_cons_zero, List.cons_append] at hcj haj
      refine okAt_jump F A _ jf (L + 4 + ini.length + 1 + (1 + inc.length)) _ _ hcj haj hw0
        (target_eq _ _ _ _ (by rw [hjf]; push_cast; omega) (by omega)) hannT (le_refl _)
    have Rbr : OkRange F A (L + 4 + ini.length + 1 + (1 + inc.length) + (1 + tst.length))
        (L + 4 + ini.length + 1 + (1 + inc.length) + (1 + tst.length) + 1) := by
      apply okRange_one
      have hcj := qbr.1 0 (by simp)
      have haj := qbr.2 0 (by simp)
      simp only [Nat.add_zero, List.getElem?_cons_zero, List.cons_append] at hcj haj
      refine okAt_branch F A _ false brOff
        (L + 4 + ini.length + 1 + (1 + inc.length) + (1 + tst.length) + 1 + (1 + bod.length) + 1) _ _ _ _ hcj haj hw1
        (popPush_L1 loop σ) (target_eq _ _ _ _ (by rw [hbr]; push_cast; omega) (by omega)) hannBody (le_refl _) hannE (le_refl _)
    have Rjb : OkRange F A (L + 4 + ini.length + 1 + (1 + inc.length) + (1 + tst.length) + 1 + (1 + bod.length))
        (L + 4 + ini.length + 1 + (1 + inc.length) + (1 + tst.length) + 1 + (1 + bod.length) + 1) := by
      apply okRange_one
      have hcj := qjb.1 0 (by simp)
      have haj := qjb.2 0 (by simp)
      simp only [Nat.add_zero, List.getElem?_cons_zero, List.cons_append] at hcj haj
      refine okAt_jump F A _ jb (L + 4 + ini.length + 1) _ _ hcj haj hw0
        (target_eq _ _ _ _ (by rw [hjb, hc]; push_cast; omega) (by omega)) hannC (L0_le_LJ loop σ)
    simp only [List.length_append, List.length_cons, List.length_nil, Nat.zero_add] at R0 R1 R2 R3 R4 Re R6
    have Rall := okRange_append (okRange_append (okRange_append (okRange_append (okRange_append (okRange_append
      (okRange_append (okRange_append (okRange_append R0 R1) Rjf) R2) R3) Rbr) R4) Rjb) Re) R6
    intro i hi
    simp only [List.length_append, List.length_cons, List.length_nil] at hi
    exact Rall (L + i) (by omega) (by omega)

end ZygoVerif.Bal
