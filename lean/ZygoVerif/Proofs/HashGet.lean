/-
Lemmas for C14, part 2: how `get?` (HashGetDefault) sees `set` (HashSet) and `del` (HashDelete).
-/
import ZygoVerif.Proofs.HashBasic
namespace ZygoVerif.Hash
variable {K V : Type} {o : KeyOps K}

/-! ### the arms of `set` and `del` as equations -/

theorem set_fresh (h : Hash K V) (k : K) (v : V) (hm : mget h.map (o.code k) = none) :
    set o h k v = { map := mput h.map (o.code k) [(k, v)], keyOrder := h.keyOrder ++ [k],
                    numKeys := h.numKeys + 1 } := by
  simp only [set, hm]

theorem set_found (h : Hash K V) (k : K) (v : V) (b : Bucket K V)
    (hm : mget h.map (o.code k) = some b) (ha : b.any (fun e => o.keq e.1 k) = true) :
    set o h k v = { map := mput h.map (o.code k) (b.map (fun e => if o.keq e.1 k then (k, v) else e)),
                    keyOrder := h.keyOrder, numKeys := h.numKeys } := by
  simp only [set, hm, ha, if_true]

theorem set_new (h : Hash K V) (k : K) (v : V) (b : Bucket K V)
    (hm : mget h.map (o.code k) = some b) (ha : b.any (fun e => o.keq e.1 k) = false) :
    set o h k v = { map := mput h.map (o.code k) (b ++ [(k, v)]), keyOrder := h.keyOrder ++ [k],
                    numKeys := h.numKeys + 1 } := by
  simp only [set, hm, ha, Bool.false_eq_true, if_false]

theorem del_nobucket (h : Hash K V) (k : K) (hm : mget h.map (o.code k) = none) :
    del o h k = h := by
  simp only [del, hm]

theorem del_notfound (h : Hash K V) (k : K) (b : Bucket K V)
    (hm : mget h.map (o.code k) = some b) (hr : bremove o b k = none) : del o h k = h := by
  simp only [del, hm, hr]

theorem del_found (h : Hash K V) (k : K) (b b' : Bucket K V)
    (hm : mget h.map (o.code k) = some b) (hr : bremove o b k = some b') :
    del o h k = { map := if b'.isEmpty then mdel h.map (o.code k) else mput h.map (o.code k) b'
                  keyOrder := koRemove o h.keyOrder k
                  numKeys := h.numKeys - 1 } := by
  simp only [del, hm, hr]

/-- the three ways a `set` can go -/
theorem set_cases (h : Hash K V) (k : K) :
    mget h.map (o.code k) = none ∨
    (∃ b, mget h.map (o.code k) = some b ∧ b.any (fun e => o.keq e.1 k) = true) ∨
    (∃ b, mget h.map (o.code k) = some b ∧ b.any (fun e => o.keq e.1 k) = false) := by
  cases hm : mget h.map (o.code k) with
  | none => exact Or.inl rfl
  | some b =>
    cases ha : b.any (fun e => o.keq e.1 k)
    · exact Or.inr (Or.inr ⟨b, rfl, ha⟩)
    · exact Or.inr (Or.inl ⟨b, rfl, ha⟩)

/-- the three ways a `del` can go -/
theorem del_cases (h : Hash K V) (k : K) :
    mget h.map (o.code k) = none ∨
    (∃ b, mget h.map (o.code k) = some b ∧ bremove o b k = none) ∨
    (∃ b b', mget h.map (o.code k) = some b ∧ bremove o b k = some b') := by
  cases hm : mget h.map (o.code k) with
  | none => exact Or.inl rfl
  | some b =>
    cases hr : bremove o b k with
    | none => exact Or.inr (Or.inl ⟨b, rfl, hr⟩)
    | some b' => exact Or.inr (Or.inr ⟨b, b', rfl, hr⟩)

variable (L : KeyLaws o)
include L

theorem code_ne_keq_false {k k' : K} (h : o.code k' ≠ o.code k) : o.keq k k' = false := by
  cases hk : o.keq k k'
  · rfl
  · exact absurd (L.code_congr _ _ hk).symm h

theorem get?_congr (h : Hash K V) {k k' : K} (hk : o.keq k k' = true) : get? o h k = get? o h k' := by
  unfold get?
  rw [L.code_congr _ _ hk]
  cases mget h.map (o.code k') with
  | none => rfl
  | some b => exact bfind_congr L b hk

/-- HashSet then HashGetDefault: the key (in any spelling) now has the new value, every other
key is unchanged. No invariant needed. -/
theorem get?_set (h : Hash K V) (k k' : K) (v : V) :
    get? o (set o h k v) k' = if o.keq k k' then some v else get? o h k' := by
  by_cases hc : o.code k' = o.code k
  · -- same bucket
    rcases set_cases (o := o) h k with hm | ⟨b, hm, ha⟩ | ⟨b, hm, ha⟩
    · rw [set_fresh h k v hm]
      simp only [get?, mget_mput, hc, if_true, hm, bfind]
    · rw [set_found h k v b hm ha]
      simp only [get?, mget_mput, hc, if_true, hm]
      cases hk : o.keq k k'
      · simp [bfind_replace_ne L b k k' v hk]
      · simp [bfind_replace_eq L b k k' v hk, ha]
    · rw [set_new h k v b hm ha]
      simp only [get?, mget_mput, hc, if_true, hm, bfind_append]
      cases hk : o.keq k k'
      · cases bfind o b k' <;> simp
      · have h1 : bfind o b k = none := by
          have := any_eq_bfind_isSome (o := o) b k
          cases hb : bfind o b k
          · rfl
          · rw [hb, ha] at this; simp at this
        rw [← bfind_congr L b hk, h1]
  · have hk : o.keq k k' = false := code_ne_keq_false L hc
    rcases set_cases (o := o) h k with hm | ⟨b, hm, ha⟩ | ⟨b, hm, ha⟩
    · rw [set_fresh h k v hm]; simp [get?, mget_mput, hc, hk]
    · rw [set_found h k v b hm ha]; simp [get?, mget_mput, hc, hk]
    · rw [set_new h k v b hm ha]; simp [get?, mget_mput, hc, hk]

/-- HashDelete then HashGetDefault: the key (in any spelling) is gone, every other key is
unchanged — provided the buckets hold pairwise different keys. -/
theorem get?_del (h : Hash K V) (k k' : K)
    (pw : ∀ c b, mget h.map c = some b → b.Pairwise (fun e f => o.keq e.1 f.1 = false)) :
    get? o (del o h k) k' = if o.keq k k' then none else get? o h k' := by
  have hmiss : get? o h k = none → (if o.keq k k' then none else get? o h k') = get? o h k' := by
    intro hn
    cases hk : o.keq k k'
    · simp
    · simp [← get?_congr L h hk, hn]
  rcases del_cases (o := o) h k with hm | ⟨b, hm, hr⟩ | ⟨b, b', hm, hr⟩
  · rw [del_nobucket h k hm, hmiss (by simp [get?, hm])]
  · rw [del_notfound h k b hm hr, hmiss (by simp [get?, hm, (bremove_none_iff b k).1 hr])]
  · rw [del_found h k b b' hm hr]
    by_cases hc : o.code k' = o.code k
    · have hf := bfind_bremove L b b' k k' hr (pw _ _ hm)
      by_cases he : b'.isEmpty = true
      · have : b' = [] := by simpa using he
        subst this
        simp only [bfind] at hf
        simp only [List.isEmpty_nil, if_true, get?, mget_mdel, hc, hm]
        exact hf
      · simp only [he, Bool.false_eq_true, if_false, get?, mget_mput, hc, if_true, hm]
        exact hf
    · have hk : o.keq k k' = false := code_ne_keq_false L hc
      by_cases he : b'.isEmpty = true
      · simp [he, get?, mget_mdel, hc, hk]
      · simp [he, get?, mget_mput, hc, hk]

omit L in
/-- deleting a key that is not there gives back the very same state -/
theorem del_missing (h : Hash K V) (k : K) (hn : get? o h k = none) : del o h k = h := by
  rcases del_cases (o := o) h k with hm | ⟨b, hm, hr⟩ | ⟨b, b', hm, hr⟩
  · exact del_nobucket h k hm
  · exact del_notfound h k b hm hr
  · simp only [get?, hm] at hn
    rw [(bremove_none_iff b k).2 hn] at hr; cases hr

end ZygoVerif.Hash
