/-
The field table of `fillJsonMap` (`Model/ToGo.lean` `tableOf`/`fieldTable`) and its `EmbedPath`s,
for EVERY embedding depth (induction on the depth budget and on the field list):

* `fieldTable_sound`   every entry's path leads — field number by field number, through struct-typed
                       anonymous fields — to a declared field with exactly the entry's key, type and
                       embedded flag (`fieldAt`);
* `fieldTable_paths_nodup`  no two entries have the same path (paths do not "cross-talk": the
                       append-aliasing slip of seed C10-m1 breaks exactly this);
* `resolve_sound`      a key that resolves (json tag, name, capitalised name) resolves to such an entry.
-/
import ZygoVerif.Model.ToGo
namespace ZygoVerif.ToGoPaths
open ZygoVerif.ToGo

/-- the field a path of field numbers leads to (`fld = fld.Field(p.ChildFieldNum)` step by step) -/
def fieldAt (w : World) : List Field → List Nat → Option Field
  | _, [] => none
  | fs, [j] => fs[j]?
  | fs, j :: k :: q =>
    match fs[j]? with
    | some f =>
      match f.ty with
      | .struct s =>
        match w.find s with
        | some d => fieldAt w d.fields (k :: q)
        | none => none
      | _ => none
    | none => none

def keyOf (f : Field) : String := if f.tag != "" then f.tag else f.name

/-- entry `e` describes field `f` -/
def Describes (e : Entry) (f : Field) : Prop := e.ty = f.ty ∧ e.anon = f.anon ∧ e.key = keyOf f

/-- every entry of `l` has a path `pre ++ q`, `q` non-empty, leading to the field it describes -/
def SoundUnder (w : World) (all : List Field) (pre : List Nat) (l : List Entry) : Prop :=
  ∀ e ∈ l, ∃ q f, q ≠ [] ∧ e.path = pre ++ q ∧ fieldAt w all q = some f ∧ Describes e f

theorem getElem?_of_drop {α : Type} (all : List α) (i : Nat) (a : α) (rest : List α)
    (h : all.drop i = a :: rest) : all[i]? = some a := by
  have := congrArg (fun l => l[0]?) h
  simpa using this

theorem drop_succ_of_drop {α : Type} (all : List α) (i : Nat) (a : α) (rest : List α)
    (h : all.drop i = a :: rest) : all.drop (i + 1) = rest := by
  have : all.drop (i + 1) = (all.drop i).drop 1 := by simp [List.drop_drop]
  rw [this, h]; rfl

theorem tableOf_sound (w : World) (sub : List Field → List Nat → List Entry)
    (hsub : ∀ fs' p, SoundUnder w fs' p (sub fs' p)) :
    ∀ (fs : List Field) (i : Nat) (pre : List Nat) (all : List Field), all.drop i = fs →
      SoundUnder w all pre (tableOf w sub fs i pre) := by
  intro fs
  induction fs with
  | nil => intro i pre all _ e he; simp [tableOf] at he
  | cons f rest ih =>
    intro i pre all hdrop e he
    have hget : all[i]? = some f := getElem?_of_drop all i f rest hdrop
    simp only [tableOf, List.mem_cons, List.mem_append] at he
    rcases he with rfl | hin | hrest
    · exact ⟨[i], f, by simp, rfl, by simp [fieldAt, hget], rfl, rfl, rfl⟩
    · -- inside the embedded struct
      by_cases han : f.anon = true
      · simp only [han, if_true] at hin
        cases hty : f.ty with
        | struct s =>
          simp only [hty] at hin
          cases hfind : w.find s with
          | none => simp [hfind] at hin
          | some d =>
            simp only [hfind] at hin
            obtain ⟨q, f', hq, hpath, hat, hdesc⟩ := hsub d.fields (pre ++ [i]) e hin
            refine ⟨i :: q, f', by simp, by simp [hpath], ?_, hdesc⟩
            cases q with
            | nil => exact absurd rfl hq
            | cons k q' => simp [fieldAt, hget, hty, hfind, hat]
        | _ => simp [hty] at hin
      · simp [han] at hin
    · exact ih (i + 1) pre all (drop_succ_of_drop all i f rest hdrop) e hrest

/-- `fieldTable_sound`: at every depth budget `n`, every entry of the field table of a struct with
fields `fs` has a path that leads to a declared field with the entry's key, type and embedded flag. -/
theorem fieldTable_sound (w : World) : ∀ (n : Nat) (fs : List Field) (pre : List Nat),
    SoundUnder w fs pre (fieldTable w n fs 0 pre) := by
  intro n
  induction n with
  | zero =>
    intro fs pre
    exact tableOf_sound w (fun _ _ => []) (fun _ _ e he => by simp at he) fs 0 pre fs (by simp)
  | succ n ih =>
    intro fs pre
    exact tableOf_sound w (fun fs' p => fieldTable w n fs' 0 p) (fun fs' p => ih fs' p) fs 0 pre fs (by simp)

/-! ### paths are unique -/

/-- every path of `l` is `pre ++ j :: q` with `i ≤ j` -/
def Under (pre : List Nat) (i : Nat) (l : List Entry) : Prop :=
  ∀ e ∈ l, ∃ j q, i ≤ j ∧ e.path = pre ++ j :: q

theorem tableOf_nodup (w : World) (sub : List Field → List Nat → List Entry)
    (hsub : ∀ fs' p, ((sub fs' p).map (·.path)).Nodup ∧ Under p 0 (sub fs' p)) :
    ∀ (fs : List Field) (i : Nat) (pre : List Nat),
      ((tableOf w sub fs i pre).map (·.path)).Nodup ∧ Under pre i (tableOf w sub fs i pre) := by
  intro fs
  induction fs with
  | nil => intro i pre; simp [tableOf, Under]
  | cons f rest ih =>
    intro i pre
    obtain ⟨hrn, hru⟩ := ih (i + 1) pre
    -- the entries that come from inside the embedded struct
    have hex : ∃ inner : List Entry, tableOf w sub (f :: rest) i pre =
        ⟨keyOf f, pre ++ [i], f.ty, f.anon⟩ :: (inner ++ tableOf w sub rest (i + 1) pre) ∧
        (inner.map (·.path)).Nodup ∧ Under (pre ++ [i]) 0 inner := by
      refine ⟨_, rfl, ?_⟩
      split
      · split
        · split
          · exact hsub _ _
          · simp [Under]
        · simp [Under]
      · simp [Under]
    obtain ⟨inner, htab, hinn, hinu⟩ := hex
    rw [htab]
    constructor
    · simp only [List.map_cons, List.map_append, List.nodup_cons, List.mem_append, List.mem_map, not_or]
      refine ⟨⟨?_, ?_⟩, ?_⟩
      · rintro ⟨e, he, hp⟩
        obtain ⟨j, q, _, hpe⟩ := hinu e he
        rw [hpe, List.append_assoc] at hp
        have := List.append_cancel_left hp
        simp at this
      · rintro ⟨e, he, hp⟩
        obtain ⟨j, q, hj, hpe⟩ := hru e he
        rw [hpe] at hp
        have := List.append_cancel_left hp
        simp at this
        omega
      · rw [List.nodup_append]
        refine ⟨hinn, hrn, ?_⟩
        intro a ha b hb hab
        simp only [List.mem_map] at ha hb
        obtain ⟨e1, he1, rfl⟩ := ha
        obtain ⟨e2, he2, rfl⟩ := hb
        obtain ⟨j1, q1, _, hp1⟩ := hinu e1 he1
        obtain ⟨j2, q2, hj2, hp2⟩ := hru e2 he2
        rw [hp1, hp2, List.append_assoc] at hab
        have := List.append_cancel_left hab
        simp at this
        omega
    · intro e he
      simp only [List.mem_cons, List.mem_append] at he
      rcases he with rfl | he | he
      · exact ⟨i, [], Nat.le_refl _, rfl⟩
      · obtain ⟨j, q, _, hp⟩ := hinu e he
        exact ⟨i, j :: q, Nat.le_refl _, by rw [hp]; simp⟩
      · obtain ⟨j, q, hj, hp⟩ := hru e he
        exact ⟨j, q, by omega, hp⟩

/-- `fieldTable_paths_nodup`: at every depth budget, no two entries of a field table have the same
path — every declared field, at every embedding depth, has a path of its own. -/
theorem fieldTable_paths_nodup (w : World) : ∀ (n : Nat) (fs : List Field) (pre : List Nat),
    ((fieldTable w n fs 0 pre).map (·.path)).Nodup ∧ Under pre 0 (fieldTable w n fs 0 pre) := by
  intro n
  induction n with
  | zero =>
    intro fs pre
    exact tableOf_nodup w (fun _ _ => []) (fun _ _ => by simp [Under]) fs 0 pre
  | succ n ih =>
    intro fs pre
    exact tableOf_nodup w (fun fs' p => fieldTable w n fs' 0 p) (fun fs' p => ih fs' p) fs 0 pre

/-! ### lookups -/

theorem lookupKey_mem (tbl : List Entry) (k : String) (e : Entry) (h : lookupKey tbl k = some e) :
    e ∈ tbl ∧ e.key = k := by
  simp only [lookupKey] at h
  have hm := List.mem_of_find?_eq_some h
  have hp := List.find?_some h
  exact ⟨by simpa using hm, by simpa using hp⟩

theorem resolve_mem (tbl : List Entry) (b : List Nat) (e : Entry) (h : resolve tbl b = some e) :
    e ∈ tbl ∧ (e.key = bytesToString b ∨ e.key = bytesToString (upperFirst b)) := by
  simp only [resolve] at h
  split at h
  · simp at h
  · split at h
    · rename_i e' he'
      simp only [Option.some.injEq] at h
      subst h
      exact ⟨(lookupKey_mem _ _ _ he').1, Or.inl (lookupKey_mem _ _ _ he').2⟩
    · exact ⟨(lookupKey_mem _ _ _ h).1, Or.inr (lookupKey_mem _ _ _ h).2⟩

/-- `resolve_sound`: whatever key of a record resolves in the field table of a struct — by json tag,
by field name, by capitalised name, at whatever embedding depth — the path recorded for it leads to
a declared field whose json tag (or name) is that key and whose type is the recorded one. -/
theorem resolve_sound (w : World) (n : Nat) (fs : List Field) (b : List Nat) (e : Entry)
    (h : resolve (fieldTable w n fs 0 []) b = some e) :
    ∃ f, e.path ≠ [] ∧ fieldAt w fs e.path = some f ∧ f.ty = e.ty ∧
      (keyOf f = bytesToString b ∨ keyOf f = bytesToString (upperFirst b)) := by
  obtain ⟨hm, hk⟩ := resolve_mem _ _ _ h
  obtain ⟨q, f, hq, hpath, hat, hty, _, hkey⟩ := fieldTable_sound w n fs [] e hm
  simp only [List.nil_append] at hpath
  refine ⟨f, by rw [hpath]; exact hq, by rw [hpath]; exact hat, hty.symm, ?_⟩
  rw [← hkey]; exact hk

end ZygoVerif.ToGoPaths
