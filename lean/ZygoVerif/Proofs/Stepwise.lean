/-
The call-by-call protocol (`PSt`, Model/Abandon) computes what the delivery model (`parseChunks`,
Model/Parser) computes (C13, `StepwiseIsRun`).

Parts:
* `Prog.le` — "the same program with some subtrees cut off by `fail`"; the parser at fuel `f` is
  below the parser at fuel `f + 1` (`fuelLe`), and a run that does not end in an error is not changed
  by putting the subtrees back (`runA_le`, `run_le`): fuel monotonicity.
* `SProg.noTop` — the expression parsers never ask the top level for a token.
* `suspendA` (Proofs/Abandon) characterised against `runA` on the same view; the shape of the
  programs the protocol ever keeps (`TL`).
* the induction over the pieces.
-/
import ZygoVerif.Proofs.Abandon
set_option linter.unusedSimpArgs false
set_option linter.unusedVariables false
namespace ZygoVerif.Parser
open ZygoVerif.Lexer

/-! ## 1. Fuel monotonicity -/

/-- `p ⊑ q`: `q` is `p` with some `fail`s replaced by programs. -/
inductive Prog.le {α : Type} : Prog α → Prog α → Prop
  | fail (q : Prog α) : Prog.le .fail q
  | pure (a : α) : Prog.le (.pure a) (.pure a)
  | waitPeek (n : Nat) (k k' : Token → Prog α) : (∀ t, Prog.le (k t) (k' t)) → Prog.le (.waitPeek n k) (.waitPeek n k')
  | signPeek (k k' : Token → Prog α) : (∀ t, Prog.le (k t) (k' t)) → Prog.le (.signPeek k) (.signPeek k')
  | peekAt (n : Nat) (k k' : Token → Prog α) : (∀ t, Prog.le (k t) (k' t)) → Prog.le (.peekAt n k) (.peekAt n k')
  | getTok (k k' : Token → Prog α) : (∀ t, Prog.le (k t) (k' t)) → Prog.le (.getTok k) (.getTok k')
  | topGet (k k' : Option Token → Prog α) : (∀ t, Prog.le (k t) (k' t)) → Prog.le (.topGet k) (.topGet k')
  | pushTok (t : Token) (k k' : Prog α) : Prog.le k k' → Prog.le (.pushTok t k) (.pushTok t k')
  | pushExpr (e : Sexp) (k k' : Prog α) : Prog.le k k' → Prog.le (.pushExpr e k) (.pushExpr e k')

theorem Prog.le_refl {α : Type} (p : Prog α) : Prog.le p p := by
  induction p with
  | pure a => exact .pure a
  | fail => exact .fail _
  | waitPeek n k ih => exact .waitPeek n k k ih
  | signPeek k ih => exact .signPeek k k ih
  | peekAt n k ih => exact .peekAt n k k ih
  | getTok k ih => exact .getTok k k ih
  | topGet k ih => exact .topGet k k ih
  | pushTok t k ih => exact .pushTok t k k ih
  | pushExpr e k ih => exact .pushExpr e k k ih

theorem Prog.le_trans {α : Type} {p q r : Prog α} (h1 : Prog.le p q) (h2 : Prog.le q r) : Prog.le p r := by
  induction h1 generalizing r with
  | fail q => exact .fail _
  | pure a => exact h2
  | waitPeek n k k' _ ih => cases h2 with | waitPeek _ _ k'' h => exact .waitPeek n k k'' (fun t => ih t (h t))
  | signPeek k k' _ ih => cases h2 with | signPeek _ k'' h => exact .signPeek k k'' (fun t => ih t (h t))
  | peekAt n k k' _ ih => cases h2 with | peekAt _ _ k'' h => exact .peekAt n k k'' (fun t => ih t (h t))
  | getTok k k' _ ih => cases h2 with | getTok _ k'' h => exact .getTok k k'' (fun t => ih t (h t))
  | topGet k k' _ ih => cases h2 with | topGet _ k'' h => exact .topGet k k'' (fun t => ih t (h t))
  | pushTok t k k' _ ih => cases h2 with | pushTok _ _ k'' h => exact .pushTok t k k'' (ih h)
  | pushExpr e k k' _ ih => cases h2 with | pushExpr _ _ k'' h => exact .pushExpr e k k'' (ih h)

theorem Prog.le_bind {α β : Type} {p p' : Prog α} {f f' : α → Prog β} (h : Prog.le p p')
    (hf : ∀ a, Prog.le (f a) (f' a)) : Prog.le (p.bind f) (p'.bind f') := by
  induction h with
  | fail q => exact .fail _
  | pure a => exact hf a
  | waitPeek n k k' _ ih => exact .waitPeek n _ _ ih
  | signPeek k k' _ ih => exact .signPeek _ _ ih
  | peekAt n k k' _ ih => exact .peekAt n _ _ ih
  | getTok k k' _ ih => exact .getTok _ _ ih
  | topGet k k' _ ih => exact .topGet _ _ ih
  | pushTok t k k' _ ih => exact .pushTok t _ _ ih
  | pushExpr e k k' _ ih => exact .pushExpr e _ _ ih

theorem Prog.le_ite {α : Type} (c : Prop) [Decidable c] {a a' b b' : Prog α} (h1 : Prog.le a a') (h2 : Prog.le b b') :
    Prog.le (if c then a else b) (if c then a' else b') := by
  split <;> assumption

/-- **Fuel monotonicity, abstract interpreter.** Putting cut-off subtrees back does not change a run
that did not end in an error. -/
theorem runA_le {α : Type} {p q : Prog α} (h : Prog.le p q) (v : View) (hne : (runA p v).1 ≠ .stop .err) :
    runA q v = runA p v := by
  induction h generalizing v with
  | fail q => simp [runA] at hne
  | pure a => rfl
  | waitPeek n k k' _ ih =>
    simp only [runA] at hne ⊢
    cases hp : peekWaitA false n v.exprs v.fin v.runes v.core with
    | tok t v' => simp only [hp] at hne ⊢; exact ih t v' hne
    | stop st v' => rfl
  | signPeek k k' _ ih =>
    simp only [runA] at hne ⊢
    cases hp : peekWaitA true 0 v.exprs v.fin v.runes v.core with
    | tok t v' => simp only [hp] at hne ⊢; exact ih t v' hne
    | stop st v' => rfl
  | peekAt n k k' _ ih =>
    simp only [runA] at hne ⊢
    cases hp : peekWaitA false n v.exprs v.fin v.runes v.core with
    | tok t v' =>
      simp only [hp] at hne ⊢
      cases hq : v'.core.tokens[n]? with
      | some t' => simp only [hq] at hne ⊢; exact ih t' v' hne
      | none => rfl
    | stop st v' => rfl
  | getTok k k' _ ih =>
    simp only [runA] at hne ⊢
    cases hp : peekWaitA false 0 v.exprs v.fin v.runes v.core with
    | tok t v' => simp only [hp] at hne ⊢; exact ih t _ hne
    | stop st v' => rfl
  | topGet k k' _ ih =>
    simp only [runA] at hne ⊢
    cases hp : topGetA v.exprs v.fin v.runes v.core with
    | tok t v' => simp only [hp] at hne ⊢; exact ih (some t) v' hne
    | finished st v' =>
      cases st with
      | done => simp only [hp] at hne ⊢; exact ih none v' hne
      | more => rfl
      | err => rfl
  | pushTok t k k' _ ih => simp only [runA] at hne ⊢; exact ih _ hne
  | pushExpr e k k' _ ih => simp only [runA] at hne ⊢; exact ih _ hne

/-- **Fuel monotonicity, concrete interpreter** (`run_fuel_mono` for programs). -/
theorem run_le {α : Type} {p q : Prog α} (h : Prog.le p q) (s : PState) (hne : (run p s).1 ≠ .stop .err) :
    run q s = run p s := by
  induction h generalizing s with
  | fail q => simp [run] at hne
  | pure a => rfl
  | waitPeek n k k' _ ih =>
    simp only [run] at hne ⊢
    cases hp : peekWaitRun false n (s.size + 1) s with
    | tok t s' => simp only [hp] at hne ⊢; exact ih t s' hne
    | stop st s' => rfl
  | signPeek k k' _ ih =>
    simp only [run] at hne ⊢
    cases hp : peekWaitRun true 0 (s.size + 1) s with
    | tok t s' => simp only [hp] at hne ⊢; exact ih t s' hne
    | stop st s' => rfl
  | peekAt n k k' _ ih =>
    simp only [run] at hne ⊢
    cases hp : peekWaitRun false n (s.size + 1) s with
    | tok t s' =>
      simp only [hp] at hne ⊢
      cases hq : s'.lex.tokens[n]? with
      | some t' => simp only [hq] at hne ⊢; exact ih t' s' hne
      | none => rfl
    | stop st s' => rfl
  | getTok k k' _ ih =>
    simp only [run] at hne ⊢
    cases hp : peekWaitRun false 0 (s.size + 1) s with
    | tok t s' => simp only [hp] at hne ⊢; exact ih t _ hne
    | stop st s' => rfl
  | topGet k k' _ ih =>
    simp only [run] at hne ⊢
    cases hp : topGetRun (s.size + 1) s with
    | tok t s' => simp only [hp] at hne ⊢; exact ih (some t) s' hne
    | finished st s' =>
      cases st with
      | done => simp only [hp] at hne ⊢; exact ih none s' hne
      | more => rfl
      | err => rfl
  | pushTok t k k' _ ih => simp only [run] at hne ⊢; exact ih _ hne
  | pushExpr e k k' _ ih => simp only [run] at hne ⊢; exact ih _ hne

/-- all eight functions of the recursive descent: fuel `f` is below fuel `f + 1` -/
def FuelLe (f : Nat) : Prop :=
  (∀ tok, Prog.le (parseExprTok f tok) (parseExprTok (f + 1) tok)) ∧
  (∀ t e, Prog.le (skipComments f t e) (skipComments (f + 1) t e)) ∧
  (Prog.le (parseExprNested f) (parseExprNested (f + 1))) ∧
  (∀ e, Prog.le (parseList f e) (parseList (f + 1) e)) ∧
  (∀ a, Prog.le (parseArray f a) (parseArray (f + 1) a)) ∧
  (∀ a, Prog.le (parseInfix f a) (parseInfix (f + 1) a)) ∧
  (∀ a, Prog.le (parseBlockComment f a) (parseBlockComment (f + 1) a)) ∧
  (Prog.le (parseBacktick f) (parseBacktick (f + 1)))

theorem fuelLe_zero : FuelLe 0 := by
  refine ⟨?_, ?_, ?_, ?_, ?_, ?_, ?_, ?_⟩ <;> intros <;>
    (first
      | (conv => lhs; rw [parseExprTok])
      | (conv => lhs; rw [skipComments])
      | (conv => lhs; rw [parseExprNested])
      | (conv => lhs; rw [parseList])
      | (conv => lhs; rw [parseArray])
      | (conv => lhs; rw [parseInfix])
      | (conv => lhs; rw [parseBlockComment])
      | (conv => lhs; rw [parseBacktick])) <;>
    exact .fail _

/-- one congruence step of a `Prog.le` goal -/
macro "le_step" : tactic => `(tactic| first
  | exact Prog.le_refl _
  | apply_assumption
  | (refine Prog.le_bind ?_ (fun _ => ?_))
  | (refine Prog.le_ite _ ?_ ?_)
  | (refine Prog.le.waitPeek _ _ _ (fun _ => ?_))
  | (refine Prog.le.signPeek _ _ (fun _ => ?_))
  | (refine Prog.le.peekAt _ _ _ (fun _ => ?_))
  | (refine Prog.le.getTok _ _ (fun _ => ?_))
  | (refine Prog.le.pushTok _ _ _ ?_)
  | (refine Prog.le.pushExpr _ _ _ ?_))

theorem fuelLe_succ (f : Nat) (h : FuelLe f) : FuelLe (f + 1) := by
  obtain ⟨hT, h0, h1, h2, h3, h4, h5, h6⟩ := h
  have h0' := fun t e => h0 t e
  refine ⟨?_, ?_, ?_, ?_, ?_, ?_, ?_, ?_⟩
  · intro tok
    conv => lhs; rw [parseExprTok]
    conv => rhs; rw [parseExprTok]
    obtain ⟨ty, str⟩ := tok
    cases ty <;> simp only [bind, pure] <;> (repeat le_step)
    rename_i r
    generalize r.fst.typ = ty
    cases ty <;> simp only <;> (repeat le_step)
  · intro t e
    conv => lhs; rw [skipComments]
    conv => rhs; rw [skipComments]
    simp only [bind, pure]
    repeat le_step
  · conv => lhs; rw [parseExprNested]
    conv => rhs; rw [parseExprNested]
    simp only [bind, pure]
    repeat le_step
  · intro e
    conv => lhs; rw [parseList]
    conv => rhs; rw [parseList]
    simp only [bind, pure]
    repeat le_step
  · intro a
    conv => lhs; rw [parseArray]
    conv => rhs; rw [parseArray]
    simp only [bind, pure]
    repeat le_step
  · intro a
    conv => lhs; rw [parseInfix]
    conv => rhs; rw [parseInfix]
    simp only [bind, pure]
    repeat le_step
  · intro a
    conv => lhs; rw [parseBlockComment]
    conv => rhs; rw [parseBlockComment]
    simp only [bind, pure]
    repeat le_step
  · conv => lhs; rw [parseBacktick]
    conv => rhs; rw [parseBacktick]
    simp only [bind, pure]
    repeat le_step

theorem fuelLe (f : Nat) : FuelLe f := by
  induction f with
  | zero => exact fuelLe_zero
  | succ n ih => exact fuelLe_succ n ih

theorem topLoop_le_succ (f : Nat) : Prog.le (topLoop f) (topLoop (f + 1)) := by
  induction f with
  | zero => rw [topLoop]; exact .fail _
  | succ n ih =>
    conv => lhs; rw [topLoop]
    conv => rhs; rw [topLoop]
    simp only [bind, pure, topGet, Prog.bind]
    refine .topGet _ _ (fun t => ?_)
    cases t with
    | none => exact Prog.le_refl _
    | some tok =>
      simp only
      refine Prog.le_bind ((fuelLe n).1 tok) (fun _ => Prog.le_bind (Prog.le_refl _) (fun _ => ih))

/-- the parser with less fuel is the parser with more fuel, cut off -/
theorem topLoop_le (f g : Nat) (h : f ≤ g) : Prog.le (topLoop f) (topLoop g) := by
  induction h with
  | refl => exact Prog.le_refl _
  | step _ ih => exact Prog.le_trans ih (topLoop_le_succ _)

/-- **`run_fuel_mono`.** The only outcome of the model that fuel can cause is the error (`fail` at
fuel 0; there is no separate timeout outcome); a parse that does not end in an error is the same
parse with any larger fuel — same outcome, same final state. -/
theorem run_fuel_mono (f g : Nat) (h : f ≤ g) (s : PState) (hne : (run (topLoop f) s).1 ≠ .stop .err) :
    run (topLoop g) s = run (topLoop f) s :=
  run_le (topLoop_le f g h) s hne

theorem runA_fuel_mono (f g : Nat) (h : f ≤ g) (v : View) (hne : (runA (topLoop f) v).1 ≠ .stop .err) :
    runA (topLoop g) v = runA (topLoop f) v :=
  runA_le (topLoop_le f g h) v hne

/-! ## 2. The expression parsers never ask the top level for a token -/

/-- no `topGet` anywhere in the program (nor in what it does when a wait loop is stopped) -/
inductive SProg.noTop {α : Type} : SProg α → Prop
  | pure (a : α) : SProg.noTop (.pure a)
  | fail : SProg.noTop .fail
  | waitPeek (n : Nat) (k : Token → SProg α) : (∀ t, SProg.noTop (k t)) → SProg.noTop (.waitPeek n k)
  | waitLoop (on : SProg α) (k : Token → SProg α) : SProg.noTop on → (∀ t, SProg.noTop (k t)) → SProg.noTop (.waitLoop on k)
  | signPeek (k : Token → SProg α) : (∀ t, SProg.noTop (k t)) → SProg.noTop (.signPeek k)
  | peekAt (n : Nat) (k : Token → SProg α) : (∀ t, SProg.noTop (k t)) → SProg.noTop (.peekAt n k)
  | getTok (k : Token → SProg α) : (∀ t, SProg.noTop (k t)) → SProg.noTop (.getTok k)
  | pushTok (t : Token) (k : SProg α) : SProg.noTop k → SProg.noTop (.pushTok t k)
  | pushExpr (e : Sexp) (k : SProg α) : SProg.noTop k → SProg.noTop (.pushExpr e k)

theorem SProg.noTop_bind {α β : Type} {p : SProg α} {f : α → SProg β} (h : p.noTop) (hf : ∀ a, (f a).noTop) :
    (p.bind f).noTop := by
  induction h with
  | pure a => exact hf a
  | fail => exact .fail
  | waitPeek n k _ ih => exact .waitPeek n _ ih
  | waitLoop on k _ _ ih1 ih2 => exact .waitLoop _ _ ih1 ih2
  | signPeek k _ ih => exact .signPeek _ ih
  | peekAt n k _ ih => exact .peekAt n _ ih
  | getTok k _ ih => exact .getTok _ ih
  | pushTok t k _ ih => exact .pushTok t _ ih
  | pushExpr e k _ ih => exact .pushExpr e _ ih

theorem SProg.noTop_ite {α : Type} (c : Prop) [Decidable c] {a b : SProg α} (h1 : a.noTop) (h2 : b.noTop) :
    (if c then a else b).noTop := by
  split <;> assumption

def NoTopAll (f : Nat) : Prop :=
  (∀ tok, (S.parseExprTok f tok).noTop) ∧
  (∀ t e, (S.skipComments f t e).noTop) ∧
  ((S.parseExprNested f).noTop) ∧
  (∀ e, (S.parseList f e).noTop) ∧
  (∀ a, (S.parseArray f a).noTop) ∧
  (∀ a, (S.parseInfix f a).noTop) ∧
  (∀ a, (S.parseBlockComment f a).noTop) ∧
  ((S.parseBacktick f).noTop)

theorem noTopAll_zero : NoTopAll 0 := by
  refine ⟨?_, ?_, ?_, ?_, ?_, ?_, ?_, ?_⟩ <;> intros <;>
    (first
      | rw [S.parseExprTok]
      | rw [S.skipComments]
      | rw [S.parseExprNested]
      | rw [S.parseList]
      | rw [S.parseArray]
      | rw [S.parseInfix]
      | rw [S.parseBlockComment]
      | rw [S.parseBacktick]) <;>
    exact .fail

macro "nt_step" : tactic => `(tactic| first
  | exact SProg.noTop.pure _
  | exact SProg.noTop.fail
  | apply_assumption
  | (refine SProg.noTop_bind ?_ (fun _ => ?_))
  | (refine SProg.noTop_ite _ ?_ ?_)
  | (refine SProg.noTop.waitPeek _ _ (fun _ => ?_))
  | (refine SProg.noTop.waitLoop _ _ ?_ (fun _ => ?_))
  | (refine SProg.noTop.signPeek _ (fun _ => ?_))
  | (refine SProg.noTop.peekAt _ _ (fun _ => ?_))
  | (refine SProg.noTop.getTok _ (fun _ => ?_))
  | (refine SProg.noTop.pushTok _ _ ?_)
  | (refine SProg.noTop.pushExpr _ _ ?_))

theorem noTopAll_succ (f : Nat) (h : NoTopAll f) : NoTopAll (f + 1) := by
  obtain ⟨hT, h0, h1, h2, h3, h4, h5, h6⟩ := h
  refine ⟨?_, ?_, ?_, ?_, ?_, ?_, ?_, ?_⟩
  · intro tok
    rw [S.parseExprTok]
    obtain ⟨ty, str⟩ := tok
    cases ty <;> simp only [bind, pure, S.waitPeek, S.popTok, S.fail, S.signPeek, S.tokAt, S.pushTok] <;> (repeat' nt_step)
    all_goals (split <;> repeat' nt_step)
  · intro t e
    rw [S.skipComments]
    simp only [bind, pure, S.tokAt]
    repeat' nt_step
  · rw [S.parseExprNested]
    simp only [bind, pure, S.waitPeek, S.popTok]
    repeat' nt_step
  · intro e
    rw [S.parseList]
    simp only [bind, pure, S.loopPeek, S.waitPeek, S.popTok, S.fail]
    repeat' nt_step
  · intro a
    rw [S.parseArray]
    simp only [bind, pure, S.loopPeek, S.waitPeek, S.popTok, S.fail]
    repeat' nt_step
  · intro a
    rw [S.parseInfix]
    simp only [bind, pure, S.loopPeek, S.waitPeek, S.popTok, S.fail]
    repeat' nt_step
  · intro a
    rw [S.parseBlockComment]
    simp only [bind, pure, S.loopPeek, S.waitPeek, S.popTok, S.fail]
    repeat' nt_step
  · rw [S.parseBacktick]
    simp only [bind, pure, S.loopPeek, S.waitPeek, S.popTok, S.fail]
    repeat' nt_step

theorem noTopAll (f : Nat) : NoTopAll f := by
  induction f with
  | zero => exact noTopAll_zero
  | succ n ih => exact noTopAll_succ n ih

/-! ## 3. Where a run comes to rest (`suspendA`) against the run itself -/

theorem peekWaitA_stop_cases (b : Bool) (n : Nat) (ex : List Sexp) (fin : Bool) (rs : List Char) (c : LexCore)
    (st : Status) (v' : View) (h : peekWaitA b n ex fin rs c = .stop st v') : st = .more ∨ st = .err := by
  induction rs generalizing c with
  | nil =>
    simp only [peekWaitA] at h
    cases hh : headIf n c with
    | some t => simp [hh] at h
    | none =>
      simp only [hh] at h
      split at h
      · simp at h
      · simp only [PeekOutA.stop.injEq] at h; exact .inl h.1.symm
  | cons r rs ih =>
    simp only [peekWaitA] at h
    cases hh : headIf n c with
    | some t => simp [hh] at h
    | none =>
      simp only [hh] at h
      cases hs : step c r with
      | ok c' => simp only [hs] at h; exact ih c' h
      | err e c' => simp only [hs, PeekOutA.stop.injEq] at h; exact .inr h.1.symm

/-- an error found in the first part of the input is found with any continuation -/
theorem peekWaitA_append_err (b : Bool) (n : Nat) (ex : List Sexp) (rs : List Char) (c : LexCore)
    (more : List Char) (fin' : Bool) (v' : View) (h : peekWaitA b n ex false rs c = .stop .err v') :
    v'.exprs = ex ∧ peekWaitA b n ex fin' (rs ++ more) c = .stop .err ⟨v'.core, v'.runes ++ more, ex, fin'⟩ := by
  induction rs generalizing c with
  | nil =>
    simp only [peekWaitA] at h
    cases hh : headIf n c with
    | some t => simp [hh] at h
    | none => simp [hh] at h
  | cons r rs ih =>
    simp only [peekWaitA] at h
    cases hh : headIf n c with
    | some t => simp [hh] at h
    | none =>
      simp only [hh] at h
      cases hs : step c r with
      | ok c' =>
        simp only [hs] at h
        obtain ⟨i1, i2⟩ := ih c' h
        exact ⟨i1, by simpa [peekWaitA, hh, hs] using i2⟩
      | err e c' =>
        simp only [hs, PeekOutA.stop.injEq, true_and] at h
        subst h
        simp [peekWaitA, hh, hs]

theorem topGetA_append_err (ex : List Sexp) (rs : List Char) (c : LexCore)
    (more : List Char) (fin' : Bool) (v' : View) (h : topGetA ex false rs c = .finished .err v') :
    v'.exprs = ex ∧ topGetA ex fin' (rs ++ more) c = .finished .err ⟨v'.core, v'.runes ++ more, ex, fin'⟩ := by
  induction rs generalizing c with
  | nil =>
    simp only [topGetA] at h
    cases hh : c.tokens with
    | cons t ts => simp [hh] at h
    | nil =>
      simp only [hh] at h
      split at h <;> simp at h
  | cons r rs ih =>
    simp only [topGetA] at h
    cases hh : c.tokens with
    | cons t ts => simp [hh] at h
    | nil =>
      simp only [hh] at h
      cases hs : step c r with
      | ok c' =>
        simp only [hs] at h
        obtain ⟨i1, i2⟩ := ih c' h
        exact ⟨i1, by simpa [topGetA, hh, hs] using i2⟩
      | err e c' =>
        simp only [hs, TopOutA.finished.injEq, true_and] at h
        subst h
        simp [topGetA, hh, hs]

theorem runA_bind_prog {α β : Type} (p : Prog α) (f : α → Prog β) (v : View) :
    runA (p.bind f) v = match runA p v with
      | (.ret a, v1) => runA (f a) v1
      | (.stop st, v1) => (.stop st, v1) := by
  induction p generalizing v with
  | pure a => simp only [Prog.bind, runA]
  | fail => simp only [Prog.bind, runA]
  | waitPeek n k ih =>
    simp only [Prog.bind, runA]
    cases peekWaitA false n v.exprs v.fin v.runes v.core with
    | tok t v1 => exact ih t v1
    | stop st v1 => rfl
  | signPeek k ih =>
    simp only [Prog.bind, runA]
    cases peekWaitA true 0 v.exprs v.fin v.runes v.core with
    | tok t v1 => exact ih t v1
    | stop st v1 => rfl
  | peekAt n k ih =>
    simp only [Prog.bind, runA]
    cases peekWaitA false n v.exprs v.fin v.runes v.core with
    | tok t v1 =>
      simp only
      cases v1.core.tokens[n]? with
      | some t' => exact ih t' v1
      | none => rfl
    | stop st v1 => rfl
  | getTok k ih =>
    simp only [Prog.bind, runA]
    cases peekWaitA false 0 v.exprs v.fin v.runes v.core with
    | tok t v1 => exact ih t _
    | stop st v1 => rfl
  | topGet k ih =>
    simp only [Prog.bind, runA]
    cases topGetA v.exprs v.fin v.runes v.core with
    | tok t v1 => exact ih (some t) v1
    | finished st v1 =>
      cases st with
      | done => exact ih none v1
      | more => rfl
      | err => rfl
  | pushTok t k ih => simp only [Prog.bind, runA]; exact ih _
  | pushExpr e k ih => simp only [Prog.bind, runA]; exact ih _

theorem suspendA_bind {α β : Type} (p : SProg α) (f : α → SProg β) (v : View) :
    suspendA (p.bind f) v = match suspendA p v with
      | some (e, κ, v') => some (e, κ.bind f, v')
      | none => match runA p.erase v with
        | (.ret a, v1) => suspendA (f a) v1
        | (.stop _, _) => none := by
  induction p generalizing v with
  | pure a => simp only [SProg.bind, suspendA, SProg.erase, runA]
  | fail => simp only [SProg.bind, suspendA, SProg.erase, runA]
  | waitPeek n k ih =>
    simp only [SProg.bind, suspendA, SProg.erase, runA]
    cases peekWaitA false n v.exprs v.fin v.runes v.core with
    | tok t v1 => exact ih t v1
    | stop st v1 => cases st <;> simp [SProg.bind]
  | waitLoop on k _ ih =>
    simp only [SProg.bind, suspendA, SProg.erase, runA]
    cases peekWaitA false 0 v.exprs v.fin v.runes v.core with
    | tok t v1 => exact ih t v1
    | stop st v1 => cases st <;> simp [SProg.bind]
  | signPeek k ih =>
    simp only [SProg.bind, suspendA, SProg.erase, runA]
    cases peekWaitA true 0 v.exprs v.fin v.runes v.core with
    | tok t v1 => exact ih t v1
    | stop st v1 => cases st <;> simp [SProg.bind]
  | peekAt n k ih =>
    simp only [SProg.bind, suspendA, SProg.erase, runA]
    cases peekWaitA false n v.exprs v.fin v.runes v.core with
    | tok t v1 =>
      simp only
      cases v1.core.tokens[n]? with
      | some t' => exact ih t' v1
      | none => rfl
    | stop st v1 => cases st <;> simp [SProg.bind]
  | getTok k ih =>
    simp only [SProg.bind, suspendA, SProg.erase, runA]
    cases peekWaitA false 0 v.exprs v.fin v.runes v.core with
    | tok t v1 => exact ih t _
    | stop st v1 => cases st <;> simp [SProg.bind]
  | topGet k ih =>
    simp only [SProg.bind, suspendA, SProg.erase, runA]
    cases topGetA v.exprs v.fin v.runes v.core with
    | tok t v1 => exact ih (some t) v1
    | finished st v1 => cases st <;> simp [SProg.bind]
  | pushTok t k ih => simp only [SProg.bind, suspendA, SProg.erase, runA]; exact ih _
  | pushExpr e k ih => simp only [SProg.bind, suspendA, SProg.erase, runA]; exact ih _

/-- a program that rests at a top level that answered `done` has, on that input, done what it does
up to there, and goes on as if the top level had answered "no token" -/
theorem suspendA_true {α : Type} (p : SProg α) (v : View) (κ : SProg α) (v' : View)
    (h : suspendA p v = some (true, κ, v')) :
    ∃ k, κ = .topGet k ∧ runA p.erase v = runA (k none).erase v' := by
  induction p generalizing v with
  | pure a => simp [suspendA] at h
  | fail => simp [suspendA] at h
  | waitPeek n k ih =>
    simp only [suspendA] at h
    simp only [SProg.erase, runA]
    cases hp : peekWaitA false n v.exprs v.fin v.runes v.core with
    | tok t v1 => simp only [hp] at h; exact ih t v1 h
    | stop st v1 => cases st <;> simp [hp] at h
  | waitLoop on k _ ih =>
    simp only [suspendA] at h
    simp only [SProg.erase, runA]
    cases hp : peekWaitA false 0 v.exprs v.fin v.runes v.core with
    | tok t v1 => simp only [hp] at h; exact ih t v1 h
    | stop st v1 => cases st <;> simp [hp] at h
  | signPeek k ih =>
    simp only [suspendA] at h
    simp only [SProg.erase, runA]
    cases hp : peekWaitA true 0 v.exprs v.fin v.runes v.core with
    | tok t v1 => simp only [hp] at h; exact ih t v1 h
    | stop st v1 => cases st <;> simp [hp] at h
  | peekAt n k ih =>
    simp only [suspendA] at h
    simp only [SProg.erase, runA]
    cases hp : peekWaitA false n v.exprs v.fin v.runes v.core with
    | tok t v1 =>
      simp only [hp] at h ⊢
      cases hq : v1.core.tokens[n]? with
      | some t' => simp only [hq] at h ⊢; exact ih t' v1 h
      | none => simp [hq] at h
    | stop st v1 => cases st <;> simp [hp] at h
  | getTok k ih =>
    simp only [suspendA] at h
    simp only [SProg.erase, runA]
    cases hp : peekWaitA false 0 v.exprs v.fin v.runes v.core with
    | tok t v1 => simp only [hp] at h; exact ih t _ h
    | stop st v1 => cases st <;> simp [hp] at h
  | topGet k ih =>
    simp only [suspendA] at h
    simp only [SProg.erase, runA]
    cases hp : topGetA v.exprs v.fin v.runes v.core with
    | tok t v1 => simp only [hp] at h; exact ih (some t) v1 h
    | finished st v1 =>
      cases st with
      | done =>
        simp only [hp, Option.some.injEq, Prod.mk.injEq, true_and] at h
        obtain ⟨rfl, rfl⟩ := h
        exact ⟨k, rfl, rfl⟩
      | more => simp [hp] at h
      | err => simp [hp] at h
  | pushTok t k ih => simp only [suspendA] at h; simp only [SProg.erase, runA]; exact ih _ h
  | pushExpr e k ih => simp only [suspendA] at h; simp only [SProg.erase, runA]; exact ih _ h

/-- a program that does not come to rest for lack of input ends by itself: it returns or fails -/
theorem suspendA_none_stop {α : Type} (p : SProg α) (v : View) (h : suspendA p v = none)
    (st : Status) (hst : (runA p.erase v).1 = .stop st) : st = .err := by
  induction p generalizing v with
  | pure a => simp [SProg.erase, runA] at hst
  | fail => simp only [SProg.erase, runA, Fin.stop.injEq] at hst; exact hst.symm
  | waitPeek n k ih =>
    simp only [suspendA] at h
    simp only [SProg.erase, runA] at hst
    cases hp : peekWaitA false n v.exprs v.fin v.runes v.core with
    | tok t v1 => simp only [hp] at h hst; exact ih t v1 h hst
    | stop st' v1 =>
      rcases peekWaitA_stop_cases _ _ _ _ _ _ _ _ hp with rfl | rfl
      · simp [hp] at h
      · simp only [hp, Fin.stop.injEq] at hst; exact hst.symm
  | waitLoop on k _ ih =>
    simp only [suspendA] at h
    simp only [SProg.erase, runA] at hst
    cases hp : peekWaitA false 0 v.exprs v.fin v.runes v.core with
    | tok t v1 => simp only [hp] at h hst; exact ih t v1 h hst
    | stop st' v1 =>
      rcases peekWaitA_stop_cases _ _ _ _ _ _ _ _ hp with rfl | rfl
      · simp [hp] at h
      · simp only [hp, Fin.stop.injEq] at hst; exact hst.symm
  | signPeek k ih =>
    simp only [suspendA] at h
    simp only [SProg.erase, runA] at hst
    cases hp : peekWaitA true 0 v.exprs v.fin v.runes v.core with
    | tok t v1 => simp only [hp] at h hst; exact ih t v1 h hst
    | stop st' v1 =>
      rcases peekWaitA_stop_cases _ _ _ _ _ _ _ _ hp with rfl | rfl
      · simp [hp] at h
      · simp only [hp, Fin.stop.injEq] at hst; exact hst.symm
  | peekAt n k ih =>
    simp only [suspendA] at h
    simp only [SProg.erase, runA] at hst
    cases hp : peekWaitA false n v.exprs v.fin v.runes v.core with
    | tok t v1 =>
      simp only [hp] at h hst
      cases hq : v1.core.tokens[n]? with
      | some t' => simp only [hq] at h hst; exact ih t' v1 h hst
      | none => simp only [hq, Fin.stop.injEq] at hst; exact hst.symm
    | stop st' v1 =>
      rcases peekWaitA_stop_cases _ _ _ _ _ _ _ _ hp with rfl | rfl
      · simp [hp] at h
      · simp only [hp, Fin.stop.injEq] at hst; exact hst.symm
  | getTok k ih =>
    simp only [suspendA] at h
    simp only [SProg.erase, runA] at hst
    cases hp : peekWaitA false 0 v.exprs v.fin v.runes v.core with
    | tok t v1 => simp only [hp] at h hst; exact ih t _ h hst
    | stop st' v1 =>
      rcases peekWaitA_stop_cases _ _ _ _ _ _ _ _ hp with rfl | rfl
      · simp [hp] at h
      · simp only [hp, Fin.stop.injEq] at hst; exact hst.symm
  | topGet k ih =>
    simp only [suspendA] at h
    simp only [SProg.erase, runA] at hst
    cases hp : topGetA v.exprs v.fin v.runes v.core with
    | tok t v1 => simp only [hp] at h hst; exact ih (some t) v1 h hst
    | finished st' v1 =>
      cases st' with
      | done => simp [hp] at h
      | more => simp [hp] at h
      | err => simp only [hp, Fin.stop.injEq] at hst; exact hst.symm
  | pushTok t k ih => simp only [suspendA] at h; simp only [SProg.erase, runA] at hst; exact ih _ h hst
  | pushExpr e k ih => simp only [suspendA] at h; simp only [SProg.erase, runA] at hst; exact ih _ h hst

/-- … and it never looks at input that comes later: with any continuation of the input the run is
the same, the continuation left unread -/
theorem suspendA_none_append {α : Type} (p : SProg α) (v : View) (hfin : v.fin = false) (h : suspendA p v = none)
    (more : List Char) (fin' : Bool) :
    runA p.erase ⟨v.core, v.runes ++ more, v.exprs, fin'⟩ =
      ((runA p.erase v).1, ⟨(runA p.erase v).2.core, (runA p.erase v).2.runes ++ more, (runA p.erase v).2.exprs, fin'⟩) := by
  induction p generalizing v with
  | pure a => simp only [SProg.erase, runA]
  | fail => simp only [SProg.erase, runA]
  | waitPeek n k ih =>
    simp only [suspendA, hfin] at h
    have A := peekWaitA_append false n v.exprs v.runes v.core more fin'
    simp only [SProg.erase, runA, hfin]
    cases hp : peekWaitA false n v.exprs false v.runes v.core with
    | tok t v1 =>
      simp only [hp] at h A ⊢
      obtain ⟨a1, a2, a3⟩ := A
      simp only [a3]
      have := ih t v1 a2 h
      rw [a1] at this; exact this
    | stop st v1 =>
      rcases peekWaitA_stop_cases _ _ _ _ _ _ _ _ hp with rfl | rfl
      · simp [hp] at h
      · obtain ⟨b1, b2⟩ := peekWaitA_append_err false n v.exprs v.runes v.core more fin' v1 hp
        simp only [b2, b1]
  | waitLoop on k _ ih =>
    simp only [suspendA, hfin] at h
    have A := peekWaitA_append false 0 v.exprs v.runes v.core more fin'
    simp only [SProg.erase, runA, hfin]
    cases hp : peekWaitA false 0 v.exprs false v.runes v.core with
    | tok t v1 =>
      simp only [hp] at h A ⊢
      obtain ⟨a1, a2, a3⟩ := A
      simp only [a3]
      have := ih t v1 a2 h
      rw [a1] at this; exact this
    | stop st v1 =>
      rcases peekWaitA_stop_cases _ _ _ _ _ _ _ _ hp with rfl | rfl
      · simp [hp] at h
      · obtain ⟨b1, b2⟩ := peekWaitA_append_err false 0 v.exprs v.runes v.core more fin' v1 hp
        simp only [b2, b1]
  | signPeek k ih =>
    simp only [suspendA, hfin] at h
    have A := peekWaitA_append true 0 v.exprs v.runes v.core more fin'
    simp only [SProg.erase, runA, hfin]
    cases hp : peekWaitA true 0 v.exprs false v.runes v.core with
    | tok t v1 =>
      simp only [hp] at h A ⊢
      obtain ⟨a1, a2, a3⟩ := A
      simp only [a3]
      have := ih t v1 a2 h
      rw [a1] at this; exact this
    | stop st v1 =>
      rcases peekWaitA_stop_cases _ _ _ _ _ _ _ _ hp with rfl | rfl
      · simp [hp] at h
      · obtain ⟨b1, b2⟩ := peekWaitA_append_err true 0 v.exprs v.runes v.core more fin' v1 hp
        simp only [b2, b1]
  | peekAt n k ih =>
    simp only [suspendA, hfin] at h
    have A := peekWaitA_append false n v.exprs v.runes v.core more fin'
    simp only [SProg.erase, runA, hfin]
    cases hp : peekWaitA false n v.exprs false v.runes v.core with
    | tok t v1 =>
      simp only [hp] at h A ⊢
      obtain ⟨a1, a2, a3⟩ := A
      simp only [a3]
      cases hq : v1.core.tokens[n]? with
      | some t' =>
        simp only [hq] at h ⊢
        have := ih t' v1 a2 h
        rw [a1] at this; exact this
      | none => simp only [a1]
    | stop st v1 =>
      rcases peekWaitA_stop_cases _ _ _ _ _ _ _ _ hp with rfl | rfl
      · simp [hp] at h
      · obtain ⟨b1, b2⟩ := peekWaitA_append_err false n v.exprs v.runes v.core more fin' v1 hp
        simp only [b2, b1]
  | getTok k ih =>
    simp only [suspendA, hfin] at h
    have A := peekWaitA_append false 0 v.exprs v.runes v.core more fin'
    simp only [SProg.erase, runA, hfin]
    cases hp : peekWaitA false 0 v.exprs false v.runes v.core with
    | tok t v1 =>
      simp only [hp] at h A ⊢
      obtain ⟨a1, a2, a3⟩ := A
      simp only [a3]
      have := ih t { v1 with core := { v1.core with tokens := v1.core.tokens.tail } } a2 h
      rw [← a1]; exact this
    | stop st v1 =>
      rcases peekWaitA_stop_cases _ _ _ _ _ _ _ _ hp with rfl | rfl
      · simp [hp] at h
      · obtain ⟨b1, b2⟩ := peekWaitA_append_err false 0 v.exprs v.runes v.core more fin' v1 hp
        simp only [b2, b1]
  | topGet k ih =>
    simp only [suspendA, hfin] at h
    have A := topGetA_append v.exprs v.runes v.core more fin'
    simp only [SProg.erase, runA, hfin]
    cases hp : topGetA v.exprs false v.runes v.core with
    | tok t v1 =>
      simp only [hp] at h A ⊢
      obtain ⟨a1, a2, a3⟩ := A
      simp only [a3]
      have := ih (some t) v1 a2 h
      rw [a1] at this; exact this
    | finished st v1 =>
      cases st with
      | done => simp [hp] at h
      | more => simp [hp] at h
      | err =>
        obtain ⟨b1, b2⟩ := topGetA_append_err v.exprs v.runes v.core more fin' v1 hp
        simp only [b2, b1]
  | pushTok t k ih =>
    simp only [suspendA] at h
    simp only [SProg.erase, runA]
    exact ih { v with core := { v.core with tokens := t :: v.core.tokens } } hfin h
  | pushExpr e k ih =>
    simp only [suspendA] at h
    simp only [SProg.erase, runA]
    exact ih { v with exprs := v.exprs ++ [e] } hfin h

theorem noTop_suspendA {α : Type} {p : SProg α} (hp : p.noTop) (v : View) (e : Bool) (κ : SProg α) (v' : View)
    (h : suspendA p v = some (e, κ, v')) : e = false ∧ κ.noTop := by
  induction hp generalizing v with
  | pure a => simp [suspendA] at h
  | fail => simp [suspendA] at h
  | waitPeek n k hk ih =>
    simp only [suspendA] at h
    cases hq : peekWaitA false n v.exprs v.fin v.runes v.core with
    | tok t v1 => simp only [hq] at h; exact ih t v1 h
    | stop st v1 =>
      cases st <;> simp only [hq, Option.some.injEq, Prod.mk.injEq, reduceCtorEq] at h
      obtain ⟨rfl, rfl, _⟩ := h
      exact ⟨rfl, .waitPeek n k hk⟩
  | waitLoop on k hon hk _ ih =>
    simp only [suspendA] at h
    cases hq : peekWaitA false 0 v.exprs v.fin v.runes v.core with
    | tok t v1 => simp only [hq] at h; exact ih t v1 h
    | stop st v1 =>
      cases st <;> simp only [hq, Option.some.injEq, Prod.mk.injEq, reduceCtorEq] at h
      obtain ⟨rfl, rfl, _⟩ := h
      exact ⟨rfl, .waitLoop on k hon hk⟩
  | signPeek k hk ih =>
    simp only [suspendA] at h
    cases hq : peekWaitA true 0 v.exprs v.fin v.runes v.core with
    | tok t v1 => simp only [hq] at h; exact ih t v1 h
    | stop st v1 =>
      cases st <;> simp only [hq, Option.some.injEq, Prod.mk.injEq, reduceCtorEq] at h
      obtain ⟨rfl, rfl, _⟩ := h
      exact ⟨rfl, .signPeek k hk⟩
  | peekAt n k hk ih =>
    simp only [suspendA] at h
    cases hq : peekWaitA false n v.exprs v.fin v.runes v.core with
    | tok t v1 =>
      simp only [hq] at h
      cases hr : v1.core.tokens[n]? with
      | some t' => simp only [hr] at h; exact ih t' v1 h
      | none => simp [hr] at h
    | stop st v1 =>
      cases st <;> simp only [hq, Option.some.injEq, Prod.mk.injEq, reduceCtorEq] at h
      obtain ⟨rfl, rfl, _⟩ := h
      exact ⟨rfl, .peekAt n k hk⟩
  | getTok k hk ih =>
    simp only [suspendA] at h
    cases hq : peekWaitA false 0 v.exprs v.fin v.runes v.core with
    | tok t v1 => simp only [hq] at h; exact ih t _ h
    | stop st v1 =>
      cases st <;> simp only [hq, Option.some.injEq, Prod.mk.injEq, reduceCtorEq] at h
      obtain ⟨rfl, rfl, _⟩ := h
      exact ⟨rfl, .getTok k hk⟩
  | pushTok t k _ ih => simp only [suspendA] at h; exact ih _ h
  | pushExpr e' k _ ih => simp only [suspendA] at h; exact ih _ h

/-! ## 4. The programs the protocol ever holds -/

/-- what `ParsingIter` does with a parsed expression: append it to the reply, next round -/
def afterExpr (f : Nat) (e : Sexp) : SProg Unit := .pushExpr e (S.topLoop f)

/-- The programs `PSt.parseTokens` runs: the `ParsingIter` loop at some fuel, or an expression parser
(which never asks the top level) followed by the rest of the loop. -/
inductive TL (F : Nat) : SProg Unit → Prop
  | top (f : Nat) (h : f ≤ F) : TL F (S.topLoop f)
  | inner (f : Nat) (h : f + 1 ≤ F) (P : SProg Sexp) (hP : P.noTop) : TL F (P.bind (afterExpr f))

theorem topLoop_succ_eq (f : Nat) : S.topLoop (f + 1) =
    .topGet (fun t => match t with
      | none => .pure ()
      | some tok => (S.parseExprTok f tok).bind (afterExpr f)) := by
  rw [S.topLoop]
  simp only [bind, pure, S.topGet, SProg.bind]
  congr 1

/-- what `suspendA` and `runA` say about a program of the protocol -/
def SLfor (F : Nat) (Q : SProg Unit) : Prop := ∀ v : View,
  (∀ κ v', suspendA Q v = some (true, κ, v') →
      (∃ f, f + 1 ≤ F ∧ κ = S.topLoop (f + 1)) ∧ runA Q.erase v = (.ret (), v')) ∧
  (∀ κ v', suspendA Q v = some (false, κ, v') → TL F κ) ∧
  (suspendA Q v = none → (runA Q.erase v).1 = .stop .err)

theorem SL_inner (F f : Nat) (hle : f + 1 ≤ F) (ihtop : SLfor F (S.topLoop f)) (P : SProg Sexp) (hP : P.noTop) :
    SLfor F (P.bind (afterExpr f)) := by
  intro v
  rw [suspendA_bind, SProg.erase_bind, runA_bind_prog]
  cases hs : suspendA P v with
  | some x =>
    obtain ⟨e, κ0, v0⟩ := x
    obtain ⟨rfl, hκ⟩ := noTop_suspendA hP v e κ0 v0 hs
    refine ⟨?_, ?_, ?_⟩
    · intro κ v' h; simp at h
    · intro κ v' h
      simp only [Option.some.injEq, Prod.mk.injEq, true_and] at h
      obtain ⟨rfl, _⟩ := h
      exact .inner f hle κ0 hκ
    · intro h; simp at h
  | none =>
    simp only
    cases hr : runA P.erase v with
    | mk r v1 =>
      cases r with
      | ret a =>
        simp only [afterExpr, suspendA, SProg.erase, runA]
        exact ihtop _
      | stop st =>
        have hst := suspendA_none_stop P v hs st (by rw [hr])
        subst hst
        refine ⟨?_, ?_, ?_⟩
        · intro κ v' h; simp at h
        · intro κ v' h; simp at h
        · intro _; rfl

theorem SL_top (F : Nat) : ∀ f, f ≤ F → SLfor F (S.topLoop f) := by
  intro f
  induction f with
  | zero =>
    intro _ v
    rw [S.topLoop]
    simp [S.fail, suspendA, SProg.erase, runA]
  | succ f ih =>
    intro hle v
    have ihf := ih (by omega)
    rw [topLoop_succ_eq]
    simp only [suspendA, SProg.erase, runA]
    cases hp : topGetA v.exprs v.fin v.runes v.core with
    | tok t v1 =>
      simp only
      exact SL_inner F f hle ihf (S.parseExprTok f t) ((noTopAll f).1 t) v1
    | finished st v1 =>
      cases st with
      | done =>
        refine ⟨?_, ?_, ?_⟩
        · intro κ v' h
          simp only [Option.some.injEq, Prod.mk.injEq, true_and] at h
          obtain ⟨rfl, rfl⟩ := h
          exact ⟨⟨f, hle, (topLoop_succ_eq f).symm⟩, rfl⟩
        · intro κ v' h; simp at h
        · intro h; simp at h
      | more =>
        refine ⟨?_, ?_, ?_⟩
        · intro κ v' h; simp at h
        · intro κ v' h
          simp only [Option.some.injEq, Prod.mk.injEq, true_and] at h
          obtain ⟨rfl, _⟩ := h
          rw [← topLoop_succ_eq]
          exact .top (f + 1) hle
        · intro h; simp at h
      | err =>
        refine ⟨?_, ?_, ?_⟩
        · intro κ v' h; simp at h
        · intro κ v' h; simp at h
        · intro _; rfl

theorem SL_of_TL (F : Nat) (Q : SProg Unit) (h : TL F Q) : SLfor F Q := by
  cases h with
  | top f hle => exact SL_top F f hle
  | inner f hle P hP => exact SL_inner F f hle (SL_top F f (by omega)) P hP

/-! ## 5. The protocol, call by call -/

/-- the program the next `ParseTokens` call runs -/
def progOf (F : Nat) : Option Co → SProg Unit
  | some (.waiting κ) => κ
  | _ => S.topLoop F

def statusOf : Fin Unit → Status
  | .ret _ => .done
  | .stop st => st

theorem parseTokens_eq (F : Nat) (p : PSt) (h : p.co ≠ some .finalYield) :
    p.parseTokens F = match run (progOf F p.co).erase p.pstate with
      | (.ret _, s) => (.done, s.exprs, ⟨s.lex, s.exprs, none⟩)
      | (.stop .more, s) => (.more, s.exprs, ⟨s.lex, s.exprs, (residual (progOf F p.co) p.pstate).map .waiting⟩)
      | (.stop st, s) => (st, s.exprs, ⟨s.lex, s.exprs, some .finalYield⟩) := by
  obtain ⟨lex, exprs, co⟩ := p
  rcases co with _ | (κ | _)
  · rfl
  · rfl
  · exact absurd rfl h

theorem view_pstate (p : PSt) : view p.pstate = ⟨p.lex.toLexCore, p.lex.pending, p.exprs, p.lex.finished⟩ := by
  simp [view, PSt.pstate, PState.runes, PState.willFinish]

/-- `NewInput`/`EndInput` on a lexer that has read everything it was given -/
theorem addNextStream_read (l : LexState) (c : List Char) (hp : l.pending = []) :
    (l.addNextStream c).pending = c ∧ (l.addNextStream c).toLexCore = l.toLexCore ∧
      (l.addNextStream c).stream.isSome = true ∧ (l.addNextStream c).finished = false := by
  cases hst : l.stream with
  | none =>
    have hn : l.next.flatten = [] := by simpa [LexState.pending, hst] using hp
    cases hnx : l.next with
    | nil => simp [LexState.addNextStream, LexState.promote, hst, hnx, LexState.pending]
    | cons n0 rest =>
      rw [hnx] at hn
      simp only [List.flatten_cons, List.append_eq_nil_iff] at hn
      simp [LexState.addNextStream, LexState.promote, hst, hnx, LexState.pending, hn.1, hn.2]
  | some st =>
    have hst' : st = [] ∧ l.next.flatten = [] := by simpa [LexState.pending, hst] using hp
    obtain ⟨rfl, hn⟩ := hst'
    cases hnx : l.next with
    | nil => simp [LexState.addNextStream, LexState.promote, hst, hnx, LexState.pending]
    | cons n0 rest =>
      rw [hnx] at hn
      simp only [List.flatten_cons, List.append_eq_nil_iff] at hn
      simp [LexState.addNextStream, LexState.promote, hst, hnx, LexState.pending, hn.1, hn.2]

/-- **One `ParseTokens` call in the middle of a text.** The parser holds a program `Q` of the
protocol; the lexer holds the piece `pending`; the parse of (piece ++ what is still to come), from
this state, is `R` and is not an error. Then the call does not answer an error, and the state it
leaves (new program, lexer, reply) is again one from which the parse of what is still to come is `R`. -/
theorem call_step (F : Nat) (p' : PSt) (hco : p'.co ≠ some .finalYield) (hinv : p'.lex.stream.isSome = true)
    (hfin : p'.lex.finished = false) (hTL : TL F (progOf F p'.co))
    (more : List Char) (R : Fin Unit × View)
    (hR : runA (progOf F p'.co).erase ⟨p'.lex.toLexCore, p'.lex.pending ++ more, p'.exprs, true⟩ = R)
    (hne : R.1 ≠ .stop .err) :
    (p'.parseTokens F).1 ≠ .err ∧ (p'.parseTokens F).2.2.co ≠ some .finalYield ∧
    (p'.parseTokens F).2.2.lex.pending = [] ∧ TL F (progOf F (p'.parseTokens F).2.2.co) ∧
    runA (progOf F (p'.parseTokens F).2.2.co).erase
      ⟨(p'.parseTokens F).2.2.lex.toLexCore, more, (p'.parseTokens F).2.2.exprs, true⟩ = R := by
  have hi : Inv p'.pstate := hinv
  have hv := view_pstate p'
  rw [hfin] at hv
  have hvfin : (view p'.pstate).fin = false := by rw [hv]
  obtain ⟨sl1, sl2, sl3⟩ := SL_of_TL F _ hTL (view p'.pstate)
  rw [parseTokens_eq _ _ hco]
  have hR' : runA (progOf F p'.co).erase
      ⟨(view p'.pstate).core, (view p'.pstate).runes ++ more, (view p'.pstate).exprs, true⟩ = R := by
    rw [hv]; exact hR
  cases hs : suspendA (progOf F p'.co) (view p'.pstate) with
  | none =>
    exfalso
    have := suspendA_none_append _ _ hvfin hs more true
    rw [hR'] at this
    apply hne
    rw [this]
    exact sl3 hs
  | some x =>
    obtain ⟨e, κ, v'⟩ := x
    obtain ⟨q1, q2⟩ := resume_is_rest_of_run _ _ hvfin e κ v' hs
    have q2' := q2 more true
    rw [hR'] at q2'
    cases e with
    | false =>
      obtain ⟨r1, r2, r3⟩ := residual_of_suspendA _ _ hi κ v' hs
      cases hrun : run (progOf F p'.co).erase p'.pstate with
      | mk fin s1 =>
        rw [hrun] at r2 r3
        have hfinm : fin = .stop .more := by
          cases fin with
          | ret a => simp [Fin.isMore] at r3
          | stop st => cases st <;> simp_all [Fin.isMore]
        subst hfinm
        simp only [r1, Option.map_some]
        have hruns : s1.lex.pending ++ s1.fut.flatten = [] := by
          have : (view s1).runes = [] := by rw [r2]; exact q1
          exact this
        have hc : s1.lex.toLexCore = v'.core := by rw [← r2]; rfl
        have he : s1.exprs = v'.exprs := by rw [← r2]; rfl
        refine ⟨by simp, by simp, (List.append_eq_nil_iff.mp hruns).1, sl2 κ v' hs, ?_⟩
        simp only [progOf, hc, he]
        exact q2'.symm
    | true =>
      obtain ⟨⟨f, hf, rfl⟩, hrunA⟩ := sl1 κ v' hs
      obtain ⟨w1, w2⟩ := run_view (progOf F p'.co).erase p'.pstate hi
      rw [hrunA] at w1 w2
      cases hrun : run (progOf F p'.co).erase p'.pstate with
      | mk fin s1 =>
        rw [hrun] at w1 w2
        simp only at w1 w2
        subst w1
        have hruns : s1.lex.pending ++ s1.fut.flatten = [] := by
          have : (view s1).runes = [] := by rw [w2]; exact q1
          exact this
        have hc : s1.lex.toLexCore = v'.core := by rw [← w2]; rfl
        have he : s1.exprs = v'.exprs := by rw [← w2]; rfl
        refine ⟨by simp, by simp, (List.append_eq_nil_iff.mp hruns).1, .top F (Nat.le_refl _), ?_⟩
        simp only [progOf, hc, he]
        rw [erase_topLoop] at q2' ⊢
        rw [q2'] at hne
        rw [runA_fuel_mono (f + 1) F hf _ hne]
        exact q2'.symm

/-- **The last `ParseTokens` call** (after `EndInput`): the call IS the rest of the parse. -/
theorem final_step (F : Nat) (p' : PSt) (hco : p'.co ≠ some .finalYield) (hinv : p'.lex.stream.isSome = true)
    (R : Fin Unit × View)
    (hR : runA (progOf F p'.co).erase ⟨p'.lex.toLexCore, p'.lex.pending, p'.exprs, p'.lex.finished⟩ = R) :
    (p'.parseTokens F).1 = statusOf R.1 ∧ (p'.parseTokens F).2.1 = R.2.exprs := by
  have hi : Inv p'.pstate := hinv
  obtain ⟨w1, w2⟩ := run_view (progOf F p'.co).erase p'.pstate hi
  rw [view_pstate, hR] at w1 w2
  rw [parseTokens_eq _ _ hco]
  cases hrun : run (progOf F p'.co).erase p'.pstate with
  | mk fin s1 =>
    rw [hrun] at w1 w2
    simp only at w1 w2
    have he : s1.exprs = R.2.exprs := by rw [← w2]; rfl
    rw [← w1]
    cases fin with
    | ret a => exact ⟨rfl, he⟩
    | stop st => cases st <;> exact ⟨rfl, he⟩

theorem deliverRest_eq (F : Nat) (R : Fin Unit × View) (hne : R.1 ≠ .stop .err) :
    ∀ (rest : List (List Char)) (p : PSt) (tr : List Status),
      p.co ≠ some .finalYield → p.lex.pending = [] → TL F (progOf F p.co) →
      runA (progOf F p.co).erase ⟨p.lex.toLexCore, rest.flatten ++ eofPiece, p.exprs, true⟩ = R →
      (p.deliverRest F tr rest).1.status = statusOf R.1 ∧ (p.deliverRest F tr rest).1.exprs = R.2.exprs := by
  intro rest
  induction rest with
  | nil =>
    intro p tr hco hp hTL hR
    obtain ⟨a1, a2, a3, _⟩ := addNextStream_read p.lex eofPiece hp
    have := final_step F p.endInput hco (show (p.lex.addNextStream eofPiece).stream.isSome = true from a3) R
      (by
        show runA (progOf F p.co).erase
          ⟨(p.lex.addNextStream eofPiece).toLexCore, (p.lex.addNextStream eofPiece).pending, p.exprs, true⟩ = R
        rw [a1, a2]; simpa using hR)
    simpa [PSt.deliverRest] using this
  | cons c rest ih =>
    intro p tr hco hp hTL hR
    obtain ⟨a1, a2, a3, a4⟩ := addNextStream_read p.lex c hp
    have hR' : runA (progOf F (p.newInput c).co).erase
        ⟨(p.newInput c).lex.toLexCore, (p.newInput c).lex.pending ++ (rest.flatten ++ eofPiece), (p.newInput c).exprs, true⟩ = R := by
      simp only [PSt.newInput, a1, a2]
      simpa using hR
    obtain ⟨b1, b2, b3, b4, b5⟩ := call_step F (p.newInput c) hco a3 a4 hTL (rest.flatten ++ eofPiece) R hR' hne
    rw [PSt.deliverRest]
    generalize (p.newInput c).parseTokens F = r at b1 b2 b3 b4 b5
    obtain ⟨st, ex, p''⟩ := r
    simp only at b1 b2 b3 b4 b5 ⊢
    have : (st == Status.err) = false := by cases st <;> simp_all
    simp only [this, Bool.false_eq_true, ↓reduceIte]
    exact ih p'' (st :: tr) b2 b3 b4 b5

theorem resetAddNewInput_lex (p : PSt) (c : List Char) :
    (p.resetAddNewInput c).lex.pending = c ∧ (p.resetAddNewInput c).lex.toLexCore = LexCore.init ∧
      (p.resetAddNewInput c).lex.stream.isSome = true ∧ (p.resetAddNewInput c).lex.finished = false ∧
      (p.resetAddNewInput c).co = none ∧ (p.resetAddNewInput c).exprs = [] := by
  simp [PSt.resetAddNewInput, LexState.reset, LexState.addNextStream, LexState.promote, LexState.pending,
    LexCore.init, Token.zero]

theorem parseBy_pieces (F : Nat) (p : PSt) (c : List Char) (rest : List (List Char)) (R : Fin Unit × View)
    (hR : runA (topLoop F) ⟨LexCore.init, c ++ (rest.flatten ++ eofPiece), [], true⟩ = R) (hne : R.1 ≠ .stop .err) :
    (p.parseBy F .resetAdd (c :: rest)).1.status = statusOf R.1 ∧ (p.parseBy F .resetAdd (c :: rest)).1.exprs = R.2.exprs := by
  obtain ⟨a1, a2, a3, a4, a5, a6⟩ := resetAddNewInput_lex p c
  have hTL : TL F (progOf F (p.resetAddNewInput c).co) := by rw [a5]; exact .top F (Nat.le_refl _)
  have hR' : runA (progOf F (p.resetAddNewInput c).co).erase
      ⟨(p.resetAddNewInput c).lex.toLexCore, (p.resetAddNewInput c).lex.pending ++ (rest.flatten ++ eofPiece),
        (p.resetAddNewInput c).exprs, true⟩ = R := by
    rw [a1, a2, a5, a6]
    simp only [progOf, erase_topLoop]
    exact hR
  obtain ⟨b1, b2, b3, b4, b5⟩ := call_step F (p.resetAddNewInput c) (by rw [a5]; simp) a3 a4 hTL _ R hR' hne
  simp only [PSt.parseBy, PSt.start]
  have hst : (((p.resetAddNewInput c).parseTokens F).1 == Status.err) = false := by
    cases h : ((p.resetAddNewInput c).parseTokens F).1 <;> simp_all
  simp only [hst, Bool.false_eq_true, ↓reduceIte]
  exact deliverRest_eq F R hne rest _ _ b2 b3 b4 b5

/-- **The call-by-call protocol computes the abstract parse of the whole text** — for every parser
state `p` (any history, any suspended coroutine), every list of pieces, every per-iterator fuel `F`
with which the parse of the whole text does not end in an error. -/
theorem parseBy_abstract (F : Nat) (p : PSt) (cs : List (List Char)) (R : Fin Unit × View)
    (hR : runA (topLoop F) ⟨LexCore.init, cs.flatten ++ eofPiece, [], true⟩ = R) (hne : R.1 ≠ .stop .err) :
    (p.parseBy F .resetAdd cs).1.status = statusOf R.1 ∧ (p.parseBy F .resetAdd cs).1.exprs = R.2.exprs := by
  cases cs with
  | nil =>
    have := parseBy_pieces F p [] [] R (by simpa using hR) hne
    simpa [PSt.parseBy] using this
  | cons c rest => exact parseBy_pieces F p c rest R (by simpa using hR) hne

/-! ### the same without the hypothesis "not an error", as long as no call answers `done` -/

/-- One `ParseTokens` call in the middle of a text, no assumption on the outcome of the parse: if
the call answers an error, the parse of the whole text ends in that error with the same
expressions; if it answers `more`, the state it leaves continues the parse. (After a `done` the next
call starts a new iterator with new fuel — `call_step`.) -/
theorem call_nodone (F : Nat) (p' : PSt) (hco : p'.co ≠ some .finalYield) (hinv : p'.lex.stream.isSome = true)
    (hfin : p'.lex.finished = false) (hTL : TL F (progOf F p'.co))
    (more : List Char) (R : Fin Unit × View)
    (hR : runA (progOf F p'.co).erase ⟨p'.lex.toLexCore, p'.lex.pending ++ more, p'.exprs, true⟩ = R) :
    ((p'.parseTokens F).1 = .err → R.1 = .stop .err ∧ (p'.parseTokens F).2.1 = R.2.exprs) ∧
    ((p'.parseTokens F).1 = .more →
      (p'.parseTokens F).2.2.co ≠ some .finalYield ∧
      (p'.parseTokens F).2.2.lex.pending = [] ∧ TL F (progOf F (p'.parseTokens F).2.2.co) ∧
      runA (progOf F (p'.parseTokens F).2.2.co).erase
        ⟨(p'.parseTokens F).2.2.lex.toLexCore, more, (p'.parseTokens F).2.2.exprs, true⟩ = R) := by
  have hi : Inv p'.pstate := hinv
  have hv := view_pstate p'
  rw [hfin] at hv
  have hvfin : (view p'.pstate).fin = false := by rw [hv]
  obtain ⟨sl1, sl2, sl3⟩ := SL_of_TL F _ hTL (view p'.pstate)
  rw [parseTokens_eq _ _ hco]
  have hR' : runA (progOf F p'.co).erase
      ⟨(view p'.pstate).core, (view p'.pstate).runes ++ more, (view p'.pstate).exprs, true⟩ = R := by
    rw [hv]; exact hR
  obtain ⟨w1, w2⟩ := run_view (progOf F p'.co).erase p'.pstate hi
  cases hs : suspendA (progOf F p'.co) (view p'.pstate) with
  | none =>
    have happ := suspendA_none_append _ _ hvfin hs more true
    rw [hR'] at happ
    have herr := sl3 hs
    rw [herr] at w1
    cases hrun : run (progOf F p'.co).erase p'.pstate with
    | mk fin s1 =>
      rw [hrun] at w1 w2
      simp only at w1 w2
      subst w1
      refine ⟨fun _ => ⟨by rw [happ, herr], ?_⟩, fun h => by simp at h⟩
      show s1.exprs = R.2.exprs
      rw [happ, ← w2]; rfl
  | some x =>
    obtain ⟨e, κ, v'⟩ := x
    obtain ⟨q1, q2⟩ := resume_is_rest_of_run _ _ hvfin e κ v' hs
    have q2' := q2 more true
    rw [hR'] at q2'
    cases e with
    | false =>
      obtain ⟨r1, r2, r3⟩ := residual_of_suspendA _ _ hi κ v' hs
      cases hrun : run (progOf F p'.co).erase p'.pstate with
      | mk fin s1 =>
        rw [hrun] at r2 r3
        have hfinm : fin = .stop .more := by
          cases fin with
          | ret a => simp [Fin.isMore] at r3
          | stop st => cases st <;> simp_all [Fin.isMore]
        subst hfinm
        simp only [r1, Option.map_some]
        have hruns : s1.lex.pending ++ s1.fut.flatten = [] := by
          have : (view s1).runes = [] := by rw [r2]; exact q1
          exact this
        have hc : s1.lex.toLexCore = v'.core := by rw [← r2]; rfl
        have he : s1.exprs = v'.exprs := by rw [← r2]; rfl
        refine ⟨fun h => by simp at h, fun _ => ⟨by simp, (List.append_eq_nil_iff.mp hruns).1, sl2 κ v' hs, ?_⟩⟩
        simp only [progOf, hc, he]
        exact q2'.symm
    | true =>
      obtain ⟨_, hrunA⟩ := sl1 κ v' hs
      rw [hrunA] at w1
      cases hrun : run (progOf F p'.co).erase p'.pstate with
      | mk fin s1 =>
        rw [hrun] at w1
        simp only at w1
        subst w1
        exact ⟨fun h => by simp at h, fun h => by simp at h⟩

theorem trace_mem_deliverRest (F : Nat) : ∀ (rest : List (List Char)) (p : PSt) (tr : List Status) (x : Status),
    x ∈ tr → x ∈ (p.deliverRest F tr rest).1.trace := by
  intro rest
  induction rest with
  | nil => intro p tr x hx; simp [PSt.deliverRest, hx]
  | cons c rest ih =>
    intro p tr x hx
    rw [PSt.deliverRest]
    generalize (p.newInput c).parseTokens F = r
    obtain ⟨st, ex, p'⟩ := r
    simp only
    split
    · simp [hx]
    · exact ih _ _ x (List.mem_cons_of_mem _ hx)

theorem deliverRest_nodone (F : Nat) (R : Fin Unit × View) :
    ∀ (rest : List (List Char)) (p : PSt) (tr : List Status),
      p.co ≠ some .finalYield → p.lex.pending = [] → TL F (progOf F p.co) →
      runA (progOf F p.co).erase ⟨p.lex.toLexCore, rest.flatten ++ eofPiece, p.exprs, true⟩ = R →
      Status.done ∉ (p.deliverRest F tr rest).1.trace →
      (p.deliverRest F tr rest).1.status = statusOf R.1 ∧ (p.deliverRest F tr rest).1.exprs = R.2.exprs := by
  intro rest
  induction rest with
  | nil =>
    intro p tr hco hp hTL hR _
    obtain ⟨a1, a2, a3, _⟩ := addNextStream_read p.lex eofPiece hp
    have := final_step F p.endInput hco (show (p.lex.addNextStream eofPiece).stream.isSome = true from a3) R
      (by
        show runA (progOf F p.co).erase
          ⟨(p.lex.addNextStream eofPiece).toLexCore, (p.lex.addNextStream eofPiece).pending, p.exprs, true⟩ = R
        rw [a1, a2]; simpa using hR)
    simpa [PSt.deliverRest] using this
  | cons c rest ih =>
    intro p tr hco hp hTL hR hnd
    obtain ⟨a1, a2, a3, a4⟩ := addNextStream_read p.lex c hp
    have hR' : runA (progOf F (p.newInput c).co).erase
        ⟨(p.newInput c).lex.toLexCore, (p.newInput c).lex.pending ++ (rest.flatten ++ eofPiece), (p.newInput c).exprs, true⟩ = R := by
      simp only [PSt.newInput, a1, a2]
      simpa using hR
    obtain ⟨b1, b2⟩ := call_nodone F (p.newInput c) hco a3 a4 hTL (rest.flatten ++ eofPiece) R hR'
    rw [PSt.deliverRest] at hnd ⊢
    cases hst : ((p.newInput c).parseTokens F).1 with
    | err =>
      obtain ⟨c1, c2⟩ := b1 hst
      simp only [hst, beq_self_eq_true, ↓reduceIte]
      rw [c1]
      exact ⟨rfl, c2⟩
    | more =>
      obtain ⟨c1, c2, c3, c4⟩ := b2 hst
      have hb : (Status.more == Status.err) = false := by decide
      simp only [hst, hb, Bool.false_eq_true, ↓reduceIte] at hnd ⊢
      exact ih _ _ c1 c2 c3 c4 hnd
    | done =>
      exfalso
      have hb : (Status.done == Status.err) = false := by decide
      simp only [hst, hb, Bool.false_eq_true, ↓reduceIte] at hnd
      exact hnd (trace_mem_deliverRest F rest _ _ .done (List.mem_cons_self ..))

theorem parseBy_cons_eq (F : Nat) (p : PSt) (c : List Char) (rest : List (List Char)) :
    p.parseBy F .resetAdd (c :: rest) =
      if ((p.resetAddNewInput c).parseTokens F).1 == .err then
        (⟨((p.resetAddNewInput c).parseTokens F).1, ((p.resetAddNewInput c).parseTokens F).2.1, []⟩,
          ((p.resetAddNewInput c).parseTokens F).2.2)
      else ((p.resetAddNewInput c).parseTokens F).2.2.deliverRest F [((p.resetAddNewInput c).parseTokens F).1] rest := rfl

/-- **Up to the first `done`** (and including an error): as long as no `ParseTokens` call answers
`done`, the call-by-call protocol computes the abstract parse of the whole text, whatever its
outcome — `more`, `done` at the very end, or an error (a syntax error or the fuel of the model). -/
theorem parseBy_nodone (F : Nat) (p : PSt) (cs : List (List Char)) (R : Fin Unit × View)
    (hR : runA (topLoop F) ⟨LexCore.init, cs.flatten ++ eofPiece, [], true⟩ = R)
    (hnd : Status.done ∉ (p.parseBy F .resetAdd cs).1.trace) :
    (p.parseBy F .resetAdd cs).1.status = statusOf R.1 ∧ (p.parseBy F .resetAdd cs).1.exprs = R.2.exprs := by
  have key : ∀ (c : List Char) (rest : List (List Char)),
      runA (topLoop F) ⟨LexCore.init, c ++ (rest.flatten ++ eofPiece), [], true⟩ = R →
      Status.done ∉ (p.parseBy F .resetAdd (c :: rest)).1.trace →
      (p.parseBy F .resetAdd (c :: rest)).1.status = statusOf R.1 ∧ (p.parseBy F .resetAdd (c :: rest)).1.exprs = R.2.exprs := by
    intro c rest hR hnd
    obtain ⟨a1, a2, a3, a4, a5, a6⟩ := resetAddNewInput_lex p c
    have hTL : TL F (progOf F (p.resetAddNewInput c).co) := by rw [a5]; exact .top F (Nat.le_refl _)
    have hR' : runA (progOf F (p.resetAddNewInput c).co).erase
        ⟨(p.resetAddNewInput c).lex.toLexCore, (p.resetAddNewInput c).lex.pending ++ (rest.flatten ++ eofPiece),
          (p.resetAddNewInput c).exprs, true⟩ = R := by
      rw [a1, a2, a5, a6]
      simp only [progOf, erase_topLoop]
      exact hR
    obtain ⟨b1, b2⟩ := call_nodone F (p.resetAddNewInput c) (by rw [a5]; simp) a3 a4 hTL _ R hR'
    rw [parseBy_cons_eq] at hnd ⊢
    cases hst : ((p.resetAddNewInput c).parseTokens F).1 with
    | err =>
      obtain ⟨c1, c2⟩ := b1 hst
      simp only [hst, beq_self_eq_true, ↓reduceIte]
      rw [c1]
      exact ⟨rfl, c2⟩
    | more =>
      obtain ⟨c1, c2, c3, c4⟩ := b2 hst
      have hb : (Status.more == Status.err) = false := by decide
      simp only [hst, hb, Bool.false_eq_true, ↓reduceIte] at hnd ⊢
      exact deliverRest_nodone F R rest _ _ c1 c2 c3 c4 hnd
    | done =>
      exfalso
      have hb : (Status.done == Status.err) = false := by decide
      simp only [hst, hb, Bool.false_eq_true, ↓reduceIte] at hnd
      exact hnd (trace_mem_deliverRest F rest _ _ .done (List.mem_cons_self ..))
  cases cs with
  | nil =>
    have := key [] [] (by simpa using hR) (by simpa [PSt.parseBy] using hnd)
    simpa [PSt.parseBy] using this
  | cons c rest => exact key c rest (by simpa using hR) hnd

end ZygoVerif.Parser
