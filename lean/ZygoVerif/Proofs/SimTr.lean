/-
C02, execution half — function values: the two evaluators number closures differently.

The VM names a closure by its index in the function table (`createClosure` pushes
`.fn s.fns.length`; the table also holds templates and the helper functions of operand
evaluation), the reference evaluator by its index in `clos`. So script values agree only up to a
map `m` from VM function ids to reference closure ids: `tr m β μ v` is the reference's version of
the VM value `v` (function ids mapped, through pairs; array references are the same on both
sides, the heaps correspond element by element: `trHeap m β μ`).

Nothing observable depends on the id: printing shows `fn`, `compareVals` refuses functions,
the typing rule of `BindSymbol` ignores them — every first-order builtin commutes with `tr m β μ`
(`prim_tr`).
-/
import ZygoVerif.Model.Prim
set_option linter.unusedSimpArgs false
set_option linter.unusedVariables false
namespace ZygoVerif.Sim
open ZygoVerif.Core

def tr (m : Nat → Nat) (β : String → String) (μ : Nat → Nat) : Val → Val
  | .nil => .nil
  | .bool b => .bool b
  | .int v => .int v
  | .str s => .str s
  | .pair a b => .pair (tr m β μ a) (tr m β μ b)
  | .arr r => .arr r
  | .fn id => .fn (m id)
  | .builtin n => .builtin (β n)
  | .lazy id => .lazy id
  | .mark l => .mark (μ l)
  | .sym x => .sym x

def trHeap (m : Nat → Nat) (β : String → String) (μ : Nat → Nat) (h : DataHeap) : DataHeap :=
  { arrs := h.arrs.map (List.map (tr m β μ)) }

@[simp] theorem trHeap_get (m : Nat → Nat) (β : String → String) (μ : Nat → Nat) (h : DataHeap) (r : Nat) : (trHeap m β μ h).get r = (h.get r).map (tr m β μ) := by
  unfold trHeap DataHeap.get
  simp only [List.getD_eq_getElem?_getD, List.getElem?_map]
  cases h.arrs[r]? <;> rfl

theorem trHeap_alloc (m : Nat → Nat) (β : String → String) (μ : Nat → Nat) (h : DataHeap) (xs : List Val) :
    (trHeap m β μ h).alloc (xs.map (tr m β μ)) = (tr m β μ (h.alloc xs).1, trHeap m β μ (h.alloc xs).2) := by
  simp [trHeap, DataHeap.alloc, tr]

theorem trHeap_set (m : Nat → Nat) (β : String → String) (μ : Nat → Nat) (h : DataHeap) (r : Nat) (xs : List Val) :
    (trHeap m β μ h).set r (xs.map (tr m β μ)) = trHeap m β μ (h.set r xs) := by
  simp [trHeap, DataHeap.set, List.map_set]

@[simp] theorem truthy_tr (m : Nat → Nat) (β : String → String) (μ : Nat → Nat) (v : Val) : truthy (tr m β μ v) = truthy v := by cases v <;> rfl

@[simp] theorem isFunction_tr (m : Nat → Nat) (β : String → String) (μ : Nat → Nat) (v : Val) : isFunction (tr m β μ v) = isFunction v := by cases v <;> rfl

theorem tr_mkList (m : Nat → Nat) (β : String → String) (μ : Nat → Nat) : ∀ (xs : List Val), mkList (xs.map (tr m β μ)) = tr m β μ (mkList xs)
  | [] => rfl
  | x :: xs => by simp only [List.map_cons, mkList, tr, tr_mkList m β μ xs]

theorem listToArray_tr (m : Nat → Nat) (β : String → String) (μ : Nat → Nat) : ∀ (v : Val), listToArray (tr m β μ v) = (listToArray v).map (List.map (tr m β μ))
  | .nil => rfl
  | .pair a t => by
    simp only [tr, listToArray, listToArray_tr m β μ t]
    cases listToArray t <;> rfl
  | .bool _ | .int _ | .str _ | .arr _ | .fn _ | .builtin _ | .lazy _ | .mark _ | .sym _ => rfl

theorem allInts_tr (m : Nat → Nat) (β : String → String) (μ : Nat → Nat) : ∀ (xs : List Val), allInts (xs.map (tr m β μ)) = allInts xs
  | [] => rfl
  | x :: xs => by
    cases x <;> simp only [List.map_cons, tr, allInts, allInts_tr m β μ xs]

theorem compareVals_tr (m : Nat → Nat) (β : String → String) (μ : Nat → Nat) (a b : Val) : compareVals (tr m β μ a) (tr m β μ b) = compareVals a b := by
  cases a <;> cases b <;> rfl

theorem tyOf_tr (m : Nat → Nat) (β : String → String) (μ : Nat → Nat) (h : DataHeap) (v : Val) : tyOf (trHeap m β μ h) (tr m β μ v) = tyOf h v := by
  cases v <;> simp only [tr, tyOf, trHeap_get]
  rename_i r
  cases h.get r with
  | nil => rfl
  | cons x xs => cases x <;> rfl

theorem rebindOk_tr (m : Nat → Nat) (β : String → String) (μ : Nat → Nat) (h : DataHeap) (a b : Val) :
    rebindOk (trHeap m β μ h) (tr m β μ a) (tr m β μ b) = rebindOk h a b := by
  simp only [rebindOk, tyOf_tr]

mutual
theorem showVal_tr (m : Nat → Nat) (β : String → String) (μ : Nat → Nat) (h : DataHeap) : ∀ (d : Nat) (v : Val), showVal (trHeap m β μ h) d (tr m β μ v) = showVal h d v
  | d, .nil => by simp only [tr, showVal]
  | d, .bool b => by simp only [tr, showVal]
  | d, .int _ => by simp only [tr, showVal]
  | d, .str _ => by simp only [tr, showVal]
  | d, .fn _ => by simp only [tr, showVal]
  | d, .builtin _ => by simp only [tr, showVal]
  | d, .lazy _ => by simp only [tr, showVal]
  | d, .mark _ => by simp only [tr, showVal]
  | d, .sym _ => by simp only [tr, showVal]
  | 0, .arr r => by simp only [tr, showVal]
  | 0, .pair a b => by simp only [tr, showVal]
  | d+1, .arr r => by
    simp only [tr, showVal, trHeap_get]
    rw [showVals_tr m β μ h d (h.get r)]
  | d+1, .pair a b => by
    have := showTail_tr m β μ h d (.pair a b)
    simp only [tr] at this
    simp only [tr, showVal, this]
termination_by d v => (d, sizeOf v, 0)
theorem showVals_tr (m : Nat → Nat) (β : String → String) (μ : Nat → Nat) (h : DataHeap) : ∀ (d : Nat) (xs : List Val),
    showVals (trHeap m β μ h) d (xs.map (tr m β μ)) = showVals h d xs
  | _, [] => by simp only [List.map_nil, showVals]
  | d, x :: xs => by
    simp only [List.map_cons, showVals, showVal_tr m β μ h d x, showVals_tr m β μ h d xs]
termination_by d xs => (d, sizeOf xs, 0)
theorem showTail_tr (m : Nat → Nat) (β : String → String) (μ : Nat → Nat) (h : DataHeap) : ∀ (d : Nat) (v : Val), showTail (trHeap m β μ h) d (tr m β μ v) = showTail h d v
  | d, .pair a b => by
    simp only [tr, showTail, showVal_tr m β μ h d a, showTail_tr m β μ h d b]
  | _, .nil => by simp only [tr, showTail]
  | d, .bool b => by simp only [tr, showTail, showVal]
  | d, .int _ => by simp only [tr, showTail, showVal]
  | d, .str _ => by simp only [tr, showTail, showVal]
  | d, .fn _ => by simp only [tr, showTail, showVal]
  | d, .builtin _ => by simp only [tr, showTail, showVal]
  | d, .lazy _ => by simp only [tr, showTail, showVal]
  | d, .mark _ => by simp only [tr, showTail, showVal]
  | d, .sym _ => by simp only [tr, showTail, showVal]
  | d, .arr r => by
    have := showVal_tr m β μ h d (.arr r)
    simp only [tr] at this
    simp only [tr, showTail, this]
termination_by d v => (d, sizeOf v, 1)
end

theorem pr_tr (m : Nat → Nat) (β : String → String) (μ : Nat → Nat) (h : DataHeap) (v : Val) : pr (trHeap m β μ h) (tr m β μ v) = pr h v := showVal_tr m β μ h _ v

theorem concatLists_tr (m : Nat → Nat) (β : String → String) (μ : Nat → Nat) : ∀ (bs : List Val) (a : Val),
    concatLists (tr m β μ a) (bs.map (tr m β μ)) = (concatLists a bs).map (tr m β μ)
  | [], a => rfl
  | b :: bs, a => by
    simp only [List.map_cons, concatLists, listToArray_tr]
    cases listToArray a with
    | none => rfl
    | some xs =>
      cases listToArray b with
      | none => rfl
      | some ys =>
        simp only [Option.map_some, ← List.map_append, tr_mkList]
        cases hm : mkList (xs ++ ys) with
        | nil => rfl
        | pair p q =>
          have := concatLists_tr m β μ bs (.pair p q)
          simp only [tr] at this ⊢
          exact this
        | _ => exact absurd hm (by cases xs <;> cases ys <;> simp [mkList])

theorem concatArrs_tr (m : Nat → Nat) (β : String → String) (μ : Nat → Nat) (h : DataHeap) : ∀ (rest : List Val) (acc : List Val),
    concatArrs (trHeap m β μ h) (acc.map (tr m β μ)) (rest.map (tr m β μ)) = (concatArrs h acc rest).map (List.map (tr m β μ))
  | [], acc => rfl
  | x :: rest, acc => by
    cases x <;> simp only [List.map_cons, tr, concatArrs, Option.map_none]
    rename_i r
    rw [trHeap_get, ← List.map_append]
    exact concatArrs_tr m β μ h rest _

theorem concatStrs_tr (m : Nat → Nat) (β : String → String) (μ : Nat → Nat) : ∀ (rest : List Val) (acc : String),
    concatStrs acc (rest.map (tr m β μ)) = concatStrs acc rest
  | [], acc => rfl
  | x :: rest, acc => by
    cases x <;> simp only [List.map_cons, tr, concatStrs]
    exact concatStrs_tr m β μ rest _

/-! ## Every pure builtin commutes with the translation -/

abbrev trp (m : Nat → Nat) (β : String → String) (μ : Nat → Nat) : Val × DataHeap → Val × DataHeap := fun p => (tr m β μ p.1, trHeap m β μ p.2)

theorem prim_tr (m : Nat → Nat) (β : String → String) (μ : Nat → Nat) (name : String) (args : List Val) (h : DataHeap) :
    prim name (args.map (tr m β μ)) (trHeap m β μ h) = (prim name args h).map (trp m β μ) := by
  unfold prim
  by_cases c1 : name = "+" ∨ name = "-" ∨ name = "*"
  · simp only [if_pos c1]
    rcases args with _ | ⟨x, _ | ⟨y, rest⟩⟩
    · rfl
    · simp only [List.map_cons, List.map_nil]
      by_cases c : name = "-"
      · simp only [if_pos c]; cases x <;> rfl
      · simp only [if_neg c]
        by_cases c' : name = "+"
        · simp only [if_pos c']; rfl
        · simp only [if_neg c']; rfl
    · have := allInts_tr m β μ (x :: y :: rest)
      simp only [List.map_cons] at this ⊢
      rw [this]
      cases allInts (x :: y :: rest) with
      | none => rfl
      | some l => cases l <;> rfl
  · simp only [if_neg c1]
    by_cases c2 : name = "mod"
    · simp only [if_pos c2]
      rcases args with _ | ⟨x, _ | ⟨y, _ | ⟨z, rest⟩⟩⟩
      · rfl
      · cases x <;> rfl
      · cases x <;> cases y <;> simp only [List.map_cons, List.map_nil, tr] <;> (try rfl)
        split <;> rfl
      · cases x <;> cases y <;> rfl
    · simp only [if_neg c2]
      by_cases c3 : isCmp name = true
      · simp only [if_pos c3]
        rcases args with _ | ⟨x, _ | ⟨y, _ | ⟨z, rest⟩⟩⟩
        · rfl
        · rfl
        · simp only [List.map_cons, List.map_nil, compareVals_tr]
          cases compareVals x y <;> rfl
        · rfl
      · simp only [if_neg c3]
        by_cases c4 : name = "not"
        · simp only [if_pos c4]
          rcases args with _ | ⟨x, _ | ⟨y, rest⟩⟩
          · rfl
          · simp only [List.map_cons, List.map_nil, truthy_tr]; rfl
          · rfl
        · simp only [if_neg c4]
          by_cases c5 : name = "cons"
          · simp only [if_pos c5]
            rcases args with _ | ⟨x, _ | ⟨y, _ | ⟨z, rest⟩⟩⟩ <;> rfl
          · simp only [if_neg c5]
            by_cases c6 : name = "first"
            · simp only [if_pos c6]
              rcases args with _ | ⟨x, _ | ⟨y, rest⟩⟩
              · rfl
              · cases x <;> simp only [List.map_cons, List.map_nil, tr] <;> (try rfl)
                rename_i r
                simp only [trHeap_get, List.head?_map]
                cases (h.get r).head? <;> rfl
              · cases x <;> rfl
            · simp only [if_neg c6]
              by_cases c7 : name = "rest"
              · simp only [if_pos c7]
                rcases args with _ | ⟨x, _ | ⟨y, rest⟩⟩
                · rfl
                · cases x <;> simp only [List.map_cons, List.map_nil, tr] <;> (try rfl)
                  rename_i r
                  simp only [trHeap_get]
                  cases hg : h.get r with
                  | nil => rfl
                  | cons a t =>
                    simp only [List.map_cons, Option.map_some]
                    rw [trHeap_alloc]
                · cases x <;> rfl
              · simp only [if_neg c7]
                by_cases c8 : name = "second"
                · simp only [if_pos c8]
                  rcases args with _ | ⟨x, _ | ⟨y, rest⟩⟩
                  · rfl
                  · cases x <;> simp only [List.map_cons, List.map_nil, tr] <;> (try rfl)
                    · rename_i a b
                      cases b <;> rfl
                    · rename_i r
                      simp only [trHeap_get]
                      rcases h.get r with _ | ⟨a, _ | ⟨b, t⟩⟩ <;> rfl
                  · cases x <;> (try rfl)
                    rename_i a b
                    cases b <;> rfl
                · simp only [if_neg c8]
                  by_cases c9 : name = "list"
                  · simp only [if_pos c9, tr_mkList]; rfl
                  · simp only [if_neg c9]
                    by_cases c10 : name = "array"
                    · simp only [if_pos c10, trHeap_alloc]; rfl
                    · simp only [if_neg c10]
                      by_cases c11 : name = "len"
                      · simp only [if_pos c11]
                        rcases args with _ | ⟨x, _ | ⟨y, rest⟩⟩
                        · rfl
                        · cases x <;> simp only [List.map_cons, List.map_nil, tr] <;> (try rfl)
                          · rename_i a b
                            have := listToArray_tr m β μ (.pair a b)
                            simp only [tr] at this
                            rw [this]
                            cases listToArray (.pair a b) with
                            | none => rfl
                            | some l => simp only [Option.map_some, List.length_map]; rfl
                          · rename_i r
                            simp only [trHeap_get, List.length_map]; rfl
                        · cases x <;> rfl
                      · simp only [if_neg c11]
                        by_cases c12 : name = "append"
                        · simp only [if_pos c12]
                          rcases args with _ | ⟨x, _ | ⟨y, _ | ⟨z, rest⟩⟩⟩
                          · rfl
                          · cases x <;> rfl
                          · cases x <;> simp only [List.map_cons, List.map_nil, tr] <;> (try rfl)
                            rename_i r
                            simp only [trHeap_get]
                            have := trHeap_alloc m β μ h (h.get r ++ [y])
                            simp only [List.map_append, List.map_cons, List.map_nil] at this
                            rw [this]; rfl
                          · cases x <;> rfl
                        · simp only [if_neg c12]
                          by_cases c13 : name = "concat"
                          · simp only [if_pos c13]
                            rcases args with _ | ⟨x, rest⟩
                            · rfl
                            · cases x <;> simp only [List.map_cons, tr] <;> (try rfl)
                              · rename_i s0
                                rw [concatStrs_tr]
                                cases concatStrs s0 rest <;> rfl
                              · rename_i a b
                                cases rest with
                                | nil => rfl
                                | cons y ys =>
                                  have := concatLists_tr m β μ (y :: ys) (.pair a b)
                                  simp only [tr, List.map_cons] at this
                                  simp only [List.map_cons]
                                  rw [this]
                                  cases concatLists (.pair a b) (y :: ys) <;> rfl
                              · rename_i r
                                simp only [trHeap_get]
                                rw [concatArrs_tr]
                                cases concatArrs h (h.get r) rest with
                                | none => rfl
                                | some l => simp only [Option.map_some, trHeap_alloc]
                          · simp only [if_neg c13]
                            by_cases c14 : name = "aget"
                            · simp only [if_pos c14]
                              rcases args with _ | ⟨x, _ | ⟨y, _ | ⟨z, _ | ⟨w, rest⟩⟩⟩⟩
                              · rfl
                              · cases x <;> rfl
                              · cases x <;> cases y <;> simp only [List.map_cons, List.map_nil, tr] <;> (try rfl)
                                rename_i r i
                                simp only [trHeap_get, List.getElem?_map]
                                cases (h.get r)[i.toInt.toNat]? with
                                | none => rfl
                                | some e =>
                                  simp only [Option.map_some, Option.filter]
                                  split <;> rfl
                              · cases x <;> cases y <;> simp only [List.map_cons, List.map_nil, tr] <;> (try rfl)
                                rename_i r i
                                simp only [trHeap_get, List.getElem?_map]
                                cases (h.get r)[i.toInt.toNat]? with
                                | none => rfl
                                | some e =>
                                  simp only [Option.map_some, Option.filter]
                                  split <;> rfl
                              · cases x <;> cases y <;> rfl
                            · simp only [if_neg c14]
                              by_cases c15 : name = "aset"
                              · simp only [if_pos c15]
                                rcases args with _ | ⟨x, _ | ⟨y, _ | ⟨z, _ | ⟨w, rest⟩⟩⟩⟩
                                · rfl
                                · cases x <;> rfl
                                · cases x <;> cases y <;> rfl
                                · cases x <;> cases y <;> simp only [List.map_cons, List.map_nil, tr] <;> (try rfl)
                                  rename_i r i
                                  simp only [trHeap_get, List.length_map]
                                  split
                                  · simp only [Option.map_some, ← List.map_set, trHeap_set]; rfl
                                  · rfl
                                · cases x <;> cases y <;> rfl
                              · simp only [if_neg c15]; rfl

/-! ## Which function ids, builtin names and marks a value mentions -/

/-- two translations agree on the function ids in `P`, the builtin names in `B`, the marks in `M` -/
structure Agree (P : Nat → Prop) (B : String → Prop) (M : Nat → Prop) (m m' : Nat → Nat) (β β' : String → String)
    (μ μ' : Nat → Nat) : Prop where
  fn : ∀ id, P id → m id = m' id
  bi : ∀ n, B n → β n = β' n
  mark : ∀ l, M l → μ l = μ' l

/-- `v` mentions only function ids in `P`, builtins in `B`, marks in `M` — said through the
translation: translations that agree there translate `v` alike. So whatever commutes with every
translation (`prim_tr`) invents no function id, no builtin, no mark. -/
def ValIn (P : Nat → Prop) (B : String → Prop) (M : Nat → Prop) (v : Val) : Prop :=
  ∀ m m' β β' μ μ', Agree P B M m m' β β' μ μ' → tr m β μ v = tr m' β' μ' v

def HeapIn (P : Nat → Prop) (B : String → Prop) (M : Nat → Prop) (h : DataHeap) : Prop :=
  ∀ m m' β β' μ μ', Agree P B M m m' β β' μ μ' → trHeap m β μ h = trHeap m' β' μ' h

theorem Agree.mono {P Q : Nat → Prop} {B M m m' β β' μ μ'} (h : Agree Q B M m m' β β' μ μ') (hpq : ∀ id, P id → Q id) :
    Agree P B M m m' β β' μ μ' := ⟨fun id hid => h.fn id (hpq id hid), h.bi, h.mark⟩

theorem ValIn.mono {P Q : Nat → Prop} {B M} {v : Val} (h : ValIn P B M v) (hpq : ∀ id, P id → Q id) : ValIn Q B M v :=
  fun m m' β β' μ μ' hm => h m m' β β' μ μ' (hm.mono hpq)

theorem HeapIn.mono {P Q : Nat → Prop} {B M} {h : DataHeap} (hh : HeapIn P B M h) (hpq : ∀ id, P id → Q id) :
    HeapIn Q B M h :=
  fun m m' β β' μ μ' hm => hh m m' β β' μ μ' (hm.mono hpq)

theorem ValIn.imp {P Q : Nat → Prop} {B B' : String → Prop} {M M' : Nat → Prop} {v : Val} (h : ValIn P B M v)
    (hp : ∀ id, P id → Q id) (hb : ∀ n, B n → B' n) (hm : ∀ l, M l → M' l) : ValIn Q B' M' v :=
  fun m m' β β' μ μ' ha => h m m' β β' μ μ' ⟨fun id hid => ha.fn id (hp id hid), fun n hn => ha.bi n (hb n hn),
    fun l hl => ha.mark l (hm l hl)⟩

/-- a function value of `ValIn P …` is a function of `P` -/
theorem ValIn.fn {P B M} {k : Nat} (h : ValIn P B M (.fn k)) : P k := by
  classical
  have := h (fun _ => 0) (fun id => if P id then 0 else 1) id id id id
    ⟨fun id hid => by simp [hid], fun _ _ => rfl, fun _ _ => rfl⟩
  simp only [tr, Val.fn.injEq] at this
  by_cases hk : P k
  · exact hk
  · simp [hk] at this

theorem ValIn.builtin {P B M} {n : String} (h : ValIn P B M (.builtin n)) : B n := by
  classical
  have := h id id (fun _ => "") (fun x => if B x then "" else "x") id id
    ⟨fun _ _ => rfl, fun x hx => by simp [hx], fun _ _ => rfl⟩
  simp only [tr, Val.builtin.injEq] at this
  by_cases hk : B n
  · exact hk
  · simp [hk] at this

theorem ValIn.mark {P B M} {l : Nat} (h : ValIn P B M (.mark l)) : M l := by
  classical
  have := h id id id id (fun _ => 0) (fun x => if M x then 0 else 1)
    ⟨fun _ _ => rfl, fun _ _ => rfl, fun x hx => by simp [hx]⟩
  simp only [tr, Val.mark.injEq] at this
  by_cases hk : M l
  · exact hk
  · simp [hk] at this

theorem valIn_fn {P B M} {k : Nat} (h : P k) : ValIn P B M (.fn k) :=
  fun m m' β β' μ μ' hm => by simp only [tr, hm.fn k h]

theorem valIn_builtin {P B M} {n : String} (h : B n) : ValIn P B M (.builtin n) :=
  fun m m' β β' μ μ' hm => by simp only [tr, hm.bi n h]

theorem ValIn.pair {P B M} {a b : Val} (h : ValIn P B M (.pair a b)) : ValIn P B M a ∧ ValIn P B M b :=
  ⟨fun m m' β β' μ μ' hm => by have := h m m' β β' μ μ' hm; simp only [tr, Val.pair.injEq] at this; exact this.1,
   fun m m' β β' μ μ' hm => by have := h m m' β β' μ μ' hm; simp only [tr, Val.pair.injEq] at this; exact this.2⟩

theorem valIn_pair {P B M} {a b : Val} (ha : ValIn P B M a) (hb : ValIn P B M b) : ValIn P B M (.pair a b) :=
  fun m m' β β' μ μ' hm => by simp only [tr, ha m m' β β' μ μ' hm, hb m m' β β' μ μ' hm]

/-- a value the translations leave alone -/
theorem valIn_of_const {P B M} {v : Val} (h : ∀ m β μ, tr m β μ v = v) : ValIn P B M v :=
  fun m m' β β' μ μ' _ => by rw [h m β μ, h m' β' μ']

theorem HeapIn.get {P B M} {h : DataHeap} (hh : HeapIn P B M h) (r : Nat) : ∀ x ∈ h.get r, ValIn P B M x := by
  intro x hx m m' β β' μ μ' hm
  have := congrArg (fun h' => DataHeap.get h' r) (hh m m' β β' μ μ' hm)
  simp only [trHeap_get] at this
  exact List.map_inj_left.mp this x hx

theorem prim_valIn {P B M} (name : String) (args : List Val) (h : DataHeap) (v : Val) (h' : DataHeap)
    (hp : prim name args h = some (v, h')) (ha : ∀ a ∈ args, ValIn P B M a) (hh : HeapIn P B M h) :
    ValIn P B M v ∧ HeapIn P B M h' := by
  have key : ∀ m m' β β' μ μ', Agree P B M m m' β β' μ μ' →
      tr m β μ v = tr m' β' μ' v ∧ trHeap m β μ h' = trHeap m' β' μ' h' := by
    intro m m' β β' μ μ' hm
    have e1 : args.map (tr m β μ) = args.map (tr m' β' μ') :=
      List.map_inj_left.mpr (fun a ha' => ha a ha' m m' β β' μ μ' hm)
    have e2 := hh m m' β β' μ μ' hm
    have p1 := prim_tr m β μ name args h
    have p2 := prim_tr m' β' μ' name args h
    rw [e1, e2, p2, hp] at p1
    simp only [Option.map_some, Option.some.injEq, Prod.mk.injEq] at p1
    exact ⟨p1.1.symm, p1.2.symm⟩
  exact ⟨fun m m' β β' μ μ' hm => (key m m' β β' μ μ' hm).1, fun m m' β β' μ μ' hm => (key m m' β β' μ μ' hm).2⟩

theorem heapIn_alloc {P B M} {h : DataHeap} (hh : HeapIn P B M h) (xs : List Val) (hx : ∀ x ∈ xs, ValIn P B M x) :
    HeapIn P B M (h.alloc xs).2 := by
  intro m m' β β' μ μ' hm
  have e1 : xs.map (tr m β μ) = xs.map (tr m' β' μ') :=
    List.map_inj_left.mpr (fun a ha' => hx a ha' m m' β β' μ μ' hm)
  have a1 := trHeap_alloc m β μ h xs
  have a2 := trHeap_alloc m' β' μ' h xs
  rw [e1, hh m m' β β' μ μ' hm, a2] at a1
  exact (Prod.mk.inj a1).2.symm

end ZygoVerif.Sim
