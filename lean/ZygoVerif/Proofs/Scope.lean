/-
Lemmas about the scope machinery of the VM model (`Model/VM.lean`): the three stages of
`LexicalLookupSymbol` as first-binding searches along explicit lists of scope ids,
`NewClosing`, the well-formedness invariant of the scope/closure tables. Used by
`Props/C03.lean`.
-/
import ZygoVerif.Model.VM
namespace ZygoVerif.Scope
open ZygoVerif.Core ZygoVerif.VM

/-! ## Search lists -/

/-- The scope ids of a scope stack, top first (nil elements of a Go stack are skipped by
every lookup). -/
def idsOf : List (Option Nat) → List Nat
  | [] => []
  | none :: rest => idsOf rest
  | some id :: rest => id :: idsOf rest

/-- The part of a scope stack a lookup with `maximumFuncToSearch = 1` reads: from the top
down to **and including** the first function scope. -/
def aboveBoundary (s : St) : List (Option Nat) → List Nat
  | [] => []
  | none :: rest => aboveBoundary s rest
  | some id :: rest => if isFnScope s id then [id] else id :: aboveBoundary s rest

/-- The rest: the scopes strictly below the first function scope (the callers' scopes and
the global scope, when the stack is the live one). -/
def belowBoundary (s : St) : List (Option Nat) → List Nat
  | [] => []
  | none :: rest => belowBoundary s rest
  | some id :: rest => if isFnScope s id then idsOf rest else belowBoundary s rest

/-- The captured stack (whole) of the template function recorded on the first function
scope of a stack: what stage 3 (`checkCaptures`) adds. -/
def templateCaptured (s : St) : List (Option Nat) → List Nat
  | [] => []
  | none :: rest => templateCaptured s rest
  | some id :: rest =>
    if isFnScope s id then
      match (scopeOf s id).myFunction with
      | some f => idsOf (fnOf s f).closing
      | none => []
    else templateCaptured s rest

/-- Scope ids searched by `LookupSymbolInParentChainOfClosures` starting at function `cur`,
in search order (same recursion and fuel as `lookupChain`). -/
def chainIds (s : St) : Nat → Nat → List Nat
  | 0, _ => []
  | fuel+1, cur =>
    match (fnOf s cur).parent with
    | none => []
    | some par => aboveBoundary s (fnOf s cur).closing ++ chainIds s fuel par

/-- Stage 2 of `LexicalLookupSymbol`: the captured scopes of the running function. -/
def capturedChain (s : St) : List Nat :=
  if (fnOf s s.curfunc).parent.isSome then chainIds s (s.fns.length + 1) s.curfunc
  else aboveBoundary s (fnOf s s.curfunc).closing

/-- All scope ids `LexicalLookupSymbol` may read, in the order it reads them. -/
def lexChain (s : St) : List Nat :=
  aboveBoundary s s.linear ++ capturedChain s ++ (aboveBoundary s s.linear ++ templateCaptured s s.linear)

/-- The first scope along a list of ids that binds `x`. -/
def firstBinding (s : St) (x : String) : List Nat → Option (Nat × Val)
  | [] => none
  | id :: rest =>
    match (scopeOf s id).vars.lookup x with
    | some v => some (id, v)
    | none => firstBinding s x rest

theorem firstBinding_append (s : St) (x : String) (a b : List Nat) :
    firstBinding s x (a ++ b) = (firstBinding s x a).or (firstBinding s x b) := by
  induction a with
  | nil => simp [firstBinding]
  | cons id rest ih =>
    simp only [List.cons_append, firstBinding]
    split <;> simp [ih]

/-- `firstBinding` returns the first scope of the list that binds the name, with the value
bound there: everything before it does not bind the name. -/
theorem firstBinding_some {s : St} {x : String} {ids : List Nat} {id : Nat} {v : Val}
    (h : firstBinding s x ids = some (id, v)) :
    ∃ pre post, ids = pre ++ id :: post ∧ (∀ j ∈ pre, (scopeOf s j).vars.lookup x = none) ∧
      (scopeOf s id).vars.lookup x = some v := by
  induction ids with
  | nil => simp [firstBinding] at h
  | cons j rest ih =>
    simp only [firstBinding] at h
    split at h
    · rename_i w hw
      simp only [Option.some.injEq, Prod.mk.injEq] at h
      obtain ⟨rfl, rfl⟩ := h
      exact ⟨[], rest, rfl, by simp, hw⟩
    · rename_i hw
      obtain ⟨pre, post, he, hp, hv⟩ := ih h
      refine ⟨j :: pre, post, by simp [he], ?_, hv⟩
      intro k hk
      rcases List.mem_cons.mp hk with rfl | hk
      · exact hw
      · exact hp k hk

theorem firstBinding_none {s : St} {x : String} {ids : List Nat}
    (h : firstBinding s x ids = none) : ∀ j ∈ ids, (scopeOf s j).vars.lookup x = none := by
  induction ids with
  | nil => simp
  | cons j rest ih =>
    simp only [firstBinding] at h
    split at h
    · simp at h
    · rename_i hw
      intro k hk
      rcases List.mem_cons.mp hk with rfl | hk
      · exact hw
      · exact ih h k hk

theorem firstBinding_mem {s : St} {x : String} {ids : List Nat} {id : Nat} {v : Val}
    (h : firstBinding s x ids = some (id, v)) : id ∈ ids := by
  obtain ⟨pre, post, he, _, _⟩ := firstBinding_some h
  simp [he]

/-! ## The lookups are first-binding searches -/

theorem lookupWhole_eq (s : St) (x : String) (l : List (Option Nat)) :
    lookupWhole s x l = firstBinding s x (idsOf l) := by
  induction l with
  | nil => rfl
  | cons o rest ih =>
    cases o with
    | none => simpa [lookupWhole, idsOf] using ih
    | some id =>
      simp only [lookupWhole, idsOf, firstBinding]
      cases hv : (scopeOf s id).vars.lookup x with
      | none => simpa using ih
      | some v => rfl

theorem lookupUntilFn_false_eq (s : St) (x : String) (l : List (Option Nat)) :
    lookupUntilFn s x false l = firstBinding s x (aboveBoundary s l) := by
  induction l with
  | nil => rfl
  | cons o rest ih =>
    cases o with
    | none => simpa [lookupUntilFn, aboveBoundary] using ih
    | some id =>
      cases hf : isFnScope s id
      · have hf' : (scopeOf s id).isFunction = false := hf
        simp only [lookupUntilFn, aboveBoundary, hf, hf', Bool.false_eq_true, if_false, firstBinding]
        cases hv : (scopeOf s id).vars.lookup x with
        | none => simpa using ih
        | some v => simp
      · have hf' : (scopeOf s id).isFunction = true := hf
        simp only [lookupUntilFn, aboveBoundary, hf, hf', if_true, firstBinding]
        cases hv : (scopeOf s id).vars.lookup x <;> simp

theorem lookupUntilFn_true_eq (s : St) (x : String) (l : List (Option Nat)) :
    lookupUntilFn s x true l = firstBinding s x (aboveBoundary s l ++ templateCaptured s l) := by
  induction l with
  | nil => rfl
  | cons o rest ih =>
    cases o with
    | none => simpa [lookupUntilFn, aboveBoundary, templateCaptured] using ih
    | some id =>
      cases hf : isFnScope s id
      · have hf' : (scopeOf s id).isFunction = false := hf
        simp only [lookupUntilFn, aboveBoundary, templateCaptured, hf, hf', Bool.false_eq_true, if_false,
          List.cons_append, firstBinding]
        cases hv : (scopeOf s id).vars.lookup x with
        | none => simpa using ih
        | some v => simp
      · have hf' : (scopeOf s id).isFunction = true := hf
        simp only [lookupUntilFn, aboveBoundary, templateCaptured, hf, hf', if_true,
          List.cons_append, List.nil_append, firstBinding]
        cases hv : (scopeOf s id).vars.lookup x with
        | some v => simp
        | none =>
          cases hm : (scopeOf s id).myFunction with
          | none => simp [firstBinding]
          | some f => simp [lookupWhole_eq]

theorem lookupChain_eq (s : St) (x : String) (fuel cur : Nat) :
    lookupChain s x fuel cur = firstBinding s x (chainIds s fuel cur) := by
  induction fuel generalizing cur with
  | zero => rfl
  | succ n ih =>
    simp only [lookupChain, chainIds]
    cases hp : (fnOf s cur).parent with
    | none => simp [firstBinding]
    | some par =>
      simp only [firstBinding_append, lookupUntilFn_false_eq, ih]
      cases firstBinding s x (aboveBoundary s (fnOf s cur).closing) <;> simp

/-- `LexicalLookupSymbol` is the first-binding search along `lexChain`. -/
theorem lexLookup_eq (s : St) (x : String) : lexLookup s x = firstBinding s x (lexChain s) := by
  simp only [lexLookup, lexChain, capturedChain, firstBinding_append, lookupUntilFn_false_eq,
    lookupUntilFn_true_eq, lookupChain_eq]
  cases h1 : firstBinding s x (aboveBoundary s s.linear) with
  | some r => simp
  | none =>
    cases hp : (fnOf s s.curfunc).parent.isSome
    · simp only [Bool.false_eq_true, if_false]
      cases firstBinding s x (aboveBoundary s (fnOf s s.curfunc).closing) <;> simp
    · simp only [if_true]
      cases firstBinding s x (chainIds s (s.fns.length + 1) s.curfunc) <;> simp

/-! ## The boundary splits a stack -/

theorem aboveBoundary_sub (s : St) (l : List (Option Nat)) : ∀ id ∈ aboveBoundary s l, id ∈ idsOf l := by
  induction l with
  | nil => simp [aboveBoundary]
  | cons o rest ih =>
    cases o with
    | none => simpa [aboveBoundary, idsOf] using ih
    | some j =>
      intro id hid
      simp only [aboveBoundary] at hid
      split at hid
      · simp_all [idsOf]
      · rcases List.mem_cons.mp hid with rfl | h
        · simp [idsOf]
        · simp [idsOf, ih id h]

theorem belowBoundary_sub (s : St) (l : List (Option Nat)) : ∀ id ∈ belowBoundary s l, id ∈ idsOf l := by
  induction l with
  | nil => simp [belowBoundary]
  | cons o rest ih =>
    cases o with
    | none => simpa [belowBoundary, idsOf] using ih
    | some j =>
      intro id hid
      simp only [belowBoundary] at hid
      split at hid
      · simp [idsOf, hid]
      · simp [idsOf, ih id hid]

/-- A stack is its part above the boundary followed by its part below it. -/
theorem boundary_split (s : St) (l : List (Option Nat)) :
    idsOf l = aboveBoundary s l ++ belowBoundary s l := by
  induction l with
  | nil => rfl
  | cons o rest ih =>
    cases o with
    | none => simpa [aboveBoundary, belowBoundary, idsOf] using ih
    | some j =>
      simp only [aboveBoundary, belowBoundary, idsOf]
      split <;> simp [ih]

/-- With distinct scope ids on the stack, nothing is both above and below the boundary. -/
theorem boundary_disjoint (s : St) (l : List (Option Nat)) (hnd : (idsOf l).Nodup) :
    ∀ id ∈ aboveBoundary s l, id ∉ belowBoundary s l := by
  rw [boundary_split s l] at hnd
  intro id ha hb
  exact (List.nodup_append.mp hnd).2.2 id ha id hb rfl

/-! ## `NewClosing` -/

/-- Is this stack element a function scope? -/
def isFnElem (isFn : Nat → Bool) : Option Nat → Bool
  | some id => isFn id
  | none => false

/-- Does the stack contain a function scope that is not its bottom element? (Then
`NewClosing` trims.) -/
def trims (isFn : Nat → Bool) : List (Option Nat) → Bool
  | [] => false
  | x :: rest => if isFnElem isFn x then !rest.isEmpty else trims isFn rest

/-- The stack from its top down to and including the first function scope (as a stack,
nil elements kept). -/
def takeToBoundary (isFn : Nat → Bool) : List (Option Nat) → List (Option Nat)
  | [] => []
  | x :: rest => if isFnElem isFn x then [x] else x :: takeToBoundary isFn rest

theorem newClosing_go_cons (isFn : Nat → Bool) (x : Option Nat) (rest acc : List (Option Nat)) :
    newClosing.go isFn (x :: rest) acc =
      if isFnElem isFn x then (if rest.isEmpty then none else some (acc ++ [x]))
      else newClosing.go isFn rest (acc ++ [x]) := by
  cases x <;> simp [newClosing.go, isFnElem]

theorem newClosing_go (isFn : Nat → Bool) (l acc : List (Option Nat)) :
    newClosing.go isFn l acc =
      if trims isFn l then some (acc ++ takeToBoundary isFn l) else none := by
  induction l generalizing acc with
  | nil => simp [newClosing.go, trims]
  | cons x rest ih =>
    rw [newClosing_go_cons]
    cases hx : isFnElem isFn x
    · simp [trims, takeToBoundary, hx, ih, List.append_assoc]
    · cases rest <;> simp [trims, takeToBoundary, hx]

/-- `NewClosing`: the live stack cut below its first function scope — unless that scope is
the bottom element or there is none, in which case the whole stack is kept. -/
theorem newClosing_eq (isFn : Nat → Bool) (live : List (Option Nat)) :
    newClosing isFn live = if trims isFn live then takeToBoundary isFn live else live := by
  simp only [newClosing, newClosing_go]
  split <;> simp

theorem idsOf_takeToBoundary (s : St) (l : List (Option Nat)) :
    idsOf (takeToBoundary (isFnScope s) l) = aboveBoundary s l := by
  induction l with
  | nil => rfl
  | cons o rest ih =>
    cases o with
    | none => simpa [takeToBoundary, aboveBoundary, idsOf, isFnElem] using ih
    | some j =>
      cases hf : isFnScope s j <;> simp [takeToBoundary, aboveBoundary, isFnElem, hf, idsOf, ih]

/-- What a lookup with one function boundary reads from a captured stack is what it read
from the live stack the capture was taken from. -/
theorem aboveBoundary_takeToBoundary (s : St) (l : List (Option Nat)) :
    aboveBoundary s (takeToBoundary (isFnScope s) l) = aboveBoundary s l := by
  induction l with
  | nil => rfl
  | cons o rest ih =>
    cases o with
    | none => simpa [takeToBoundary, aboveBoundary, isFnElem] using ih
    | some j =>
      cases hf : isFnScope s j <;> simp [takeToBoundary, aboveBoundary, isFnElem, hf, ih]

theorem aboveBoundary_closingNow (s : St) : aboveBoundary s (closingNow s) = aboveBoundary s s.linear := by
  simp only [closingNow, newClosing_eq]
  split
  · exact aboveBoundary_takeToBoundary s s.linear
  · rfl

/-- The scope ids a new closure captures: exactly the part of the live stack above the
boundary when `NewClosing` trims, the whole live stack otherwise. -/
theorem idsOf_closingNow (s : St) :
    idsOf (closingNow s) = if trims (isFnScope s) s.linear then aboveBoundary s s.linear else idsOf s.linear := by
  simp only [closingNow, newClosing_eq]
  split
  · exact idsOf_takeToBoundary s s.linear
  · rfl

/-! ## Lookups depend on the tables only through what they read -/

/-- States that agree on the scope table read the same from any list of ids. -/
theorem firstBinding_congr {s s' : St} (h : s'.scopes = s.scopes) (x : String) (ids : List Nat) :
    firstBinding s' x ids = firstBinding s x ids := by
  induction ids with
  | nil => rfl
  | cons id rest ih => simp only [firstBinding, scopeOf, h, ih]

theorem aboveBoundary_congr {s s' : St} (h : ∀ id, isFnScope s' id = isFnScope s id) (l : List (Option Nat)) :
    aboveBoundary s' l = aboveBoundary s l := by
  induction l with
  | nil => rfl
  | cons o rest ih =>
    cases o with
    | none => simpa [aboveBoundary] using ih
    | some j => simp only [aboveBoundary, h, ih]

/-! ## Assignment through a scope id -/

theorem lookup_map_same (l : List (String × Val)) (x : String) (v : Val)
    (h : l.any (·.1 == x) = true) :
    (l.map (fun p => if p.1 == x then (x, v) else p)).lookup x = some v := by
  induction l with
  | nil => simp at h
  | cons p rest ih =>
    obtain ⟨k, w⟩ := p
    by_cases hk : k = x
    · subst hk
      simp
    · have h1 : (k == x) = false := by simpa using hk
      have h2 : (x == k) = false := by simpa using (Ne.symm hk)
      simp only [List.map_cons, h1, Bool.false_eq_true, if_false, List.lookup, h2]
      apply ih
      simpa [h1] using h

theorem lookup_map_other (l : List (String × Val)) (x y : String) (v : Val) (hne : y ≠ x) :
    (l.map (fun p => if p.1 == x then (x, v) else p)).lookup y = l.lookup y := by
  induction l with
  | nil => rfl
  | cons p rest ih =>
    obtain ⟨k, w⟩ := p
    by_cases hk : k = x
    · subst hk
      have h2 : (y == k) = false := by simpa using hne
      simp only [List.map_cons, beq_self_eq_true, if_true, List.lookup, h2, ih]
    · have h1 : (k == x) = false := by simpa using hk
      simp only [List.map_cons, h1, Bool.false_eq_true, if_false, List.lookup, ih]

theorem lookup_assocSet_same (l : List (String × Val)) (x : String) (v : Val) :
    (assocSet l x v).lookup x = some v := by
  unfold assocSet
  split
  · rename_i h
    exact lookup_map_same l x v h
  · simp [List.lookup]

theorem lookup_assocSet_other (l : List (String × Val)) (x y : String) (v : Val) (hne : y ≠ x) :
    (assocSet l x v).lookup y = l.lookup y := by
  unfold assocSet
  split
  · exact lookup_map_other l x y v hne
  · have h1 : (y == x) = false := by simpa using hne
    simp [List.lookup, h1]

/-- The state after `setInScope id x v`. -/
def setVarSt (s : St) (id : Nat) (x : String) (v : Val) : St :=
  { s with scopes := s.scopes.set id { (scopeOf s id) with vars := assocSet (scopeOf s id).vars x v } }

theorem setInScope_run (s : St) (id : Nat) (x : String) (v : Val) :
    (setInScope id x v).run s = (.ok (), setVarSt s id x v) := rfl

theorem scopeOf_setVarSt_same (s : St) (id : Nat) (x : String) (v : Val) (h : id < s.scopes.length) :
    scopeOf (setVarSt s id x v) id = { (scopeOf s id) with vars := assocSet (scopeOf s id).vars x v } := by
  simp [scopeOf, setVarSt, List.getD_eq_getElem?_getD, h]

theorem scopeOf_setVarSt_other (s : St) (id j : Nat) (x : String) (v : Val) (h : j ≠ id) :
    scopeOf (setVarSt s id x v) j = scopeOf s j := by
  simp [scopeOf, setVarSt, List.getD_eq_getElem?_getD, Ne.symm h]

theorem isFnScope_setVarSt (s : St) (id : Nat) (x : String) (v : Val) (j : Nat) :
    isFnScope (setVarSt s id x v) j = isFnScope s j := by
  by_cases hj : j = id
  · subst hj
    by_cases hl : j < s.scopes.length
    · simp [isFnScope, scopeOf_setVarSt_same s j x v hl]
    · simp only [isFnScope, scopeOf, setVarSt]
      rw [List.set_eq_of_length_le (by omega)]
  · simp [isFnScope, scopeOf_setVarSt_other s id j x v hj]

/-- After an assignment through scope `id`, a search along any list of ids that reaches
`id` before any other scope binding `x` finds the new value there. -/
theorem firstBinding_after_set (s : St) (id : Nat) (x : String) (v : Val) (hid : id < s.scopes.length)
    (ids : List Nat) (w : Val) (h : firstBinding s x ids = some (id, w)) :
    firstBinding (setVarSt s id x v) x ids = some (id, v) := by
  induction ids with
  | nil => simp [firstBinding] at h
  | cons j rest ih =>
    simp only [firstBinding] at h ⊢
    by_cases hj : j = id
    · subst hj
      simp [scopeOf_setVarSt_same s j x v hid, lookup_assocSet_same]
    · rw [scopeOf_setVarSt_other s id j x v hj]
      split at h
      · simp only [Option.some.injEq, Prod.mk.injEq] at h
        exact absurd h.1 hj
      · exact ih h

end ZygoVerif.Scope
