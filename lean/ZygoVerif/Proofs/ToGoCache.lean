/-
Cache persistence for the record → Go walk: once a record id is in the dedup cache, no later
conversion removes or changes that entry. Used by `Props/C10.lean` (`togo_shares_twice`).
-/
import ZygoVerif.Model.ToGo
namespace ZygoVerif.ToGoCache
open ZygoVerif.ToGo

/-- `rec` never loses or changes a cache entry -/
def Keeps (rec : Rec) : Prop :=
  ∀ st x T cur v st', rec st x T cur = .ok (v, st') → ∀ id e, st.lookup id = some e → st'.lookup id = some e

theorem lookup_remember_ne (st : St) (id id' : Nat) (v : GV) (t : Ty) (hne : id' ≠ id) :
    (st.remember id v t).lookup id' = st.lookup id' := by
  simp only [St.remember, St.lookup]
  have hb : (id == id') = false := by simpa using (fun h : id = id' => hne h.symm)
  simp only [List.find?_cons, hb, List.find?_filter]
  congr 1
  have hfun : (fun a : Nat × GV × Ty => decide ((a.1 != id) = true ∧ (a.1 == id') = true))
      = (fun a => a.1 == id') := by
    funext a
    by_cases h : a.1 = id'
    · simp [h, hne]
    · simp [h]
  rw [hfun]

theorem convList_keeps (rec : Rec) (hrec : Keeps rec) (e : Ty) (z : GV) :
    ∀ xs st vs st', convList rec e z st xs = .ok (vs, st') →
      ∀ id en, st.lookup id = some en → st'.lookup id = some en := by
  intro xs
  induction xs with
  | nil => intro st vs st' h id en hl; simp [convList] at h; rw [← h.2]; exact hl
  | cons x xs ih =>
    intro st vs st' h id en hl
    simp only [convList, bind, Except.bind] at h
    cases hc : rec st x e z with
    | error er => simp [hc] at h
    | ok p =>
      obtain ⟨v, st1⟩ := p
      simp only [hc] at h
      cases hl2 : convList rec e z st1 xs with
      | error er => simp [hl2] at h
      | ok q =>
        obtain ⟨vs', st2⟩ := q
        simp only [hl2, pure, Except.pure, Except.ok.injEq, Prod.mk.injEq] at h
        rw [← h.2]
        exact ih st1 vs' st2 hl2 id en (hrec st x e z v st1 hc id en hl)

theorem fillFields_keeps (rec : Rec) (hrec : Keeps rec) (tbl : List Entry) :
    ∀ kvs st sv sv' st', fillFields rec tbl st sv kvs = .ok (sv', st') →
      ∀ id en, st.lookup id = some en → st'.lookup id = some en := by
  intro kvs
  induction kvs with
  | nil => intro st sv sv' st' h id en hl; simp [fillFields] at h; rw [← h.2]; exact hl
  | cons kv rest ih =>
    intro st sv sv' st' h id en hl
    obtain ⟨k, x⟩ := kv
    cases hk : keyBytes k with
    | none => simp [fillFields, hk] at h
    | some b =>
      cases hr : resolve tbl b with
      | none => simp [fillFields, hk, hr] at h
      | some e =>
        cases hg : getPath sv e.path with
        | none => simp [fillFields, hk, hr, hg] at h
        | some cur =>
          cases hc : rec st x e.ty cur with
          | error er => simp [fillFields, hk, hr, hg, hc, bind, Except.bind] at h
          | ok p =>
            obtain ⟨v, st1⟩ := p
            cases hs : setPath sv e.path v with
            | none => simp [fillFields, hk, hr, hg, hc, hs, bind, Except.bind] at h
            | some sv1 =>
              simp only [fillFields, hk, hr, hg, hc, hs, bind, Except.bind] at h
              exact ih st1 sv1 sv' st' h id en (hrec st x e.ty cur v st1 hc id en hl)

theorem mapEntry_keeps (rec : Rec) (hrec : Keeps rec) (kt vt : Ty) (w : World) (st : St) (k : Key) (x : Sx)
    (kg v : GV) (st1 : St) (h : mapEntry rec kt vt w st k x = .ok (kg, v, st1)) :
    ∀ id en, st.lookup id = some en → st1.lookup id = some en := by
  intro id en hl
  simp only [mapEntry] at h
  repeat' (split at h)
  all_goals first
    | (simp at h; done)
    | (simp only [Except.ok.injEq, Prod.mk.injEq] at h; rw [← h.2.2]; exact hl)
    | (rename_i heq; simp only [Except.ok.injEq, Prod.mk.injEq] at h; rw [← h.2.2]
       exact hrec _ _ _ _ _ _ heq id en hl)

theorem fillMap_keeps (rec : Rec) (hrec : Keeps rec) (kt vt : Ty) (w : World) :
    ∀ kvs st es es' st', fillMap rec kt vt w st es kvs = .ok (es', st') →
      ∀ id en, st.lookup id = some en → st'.lookup id = some en := by
  intro kvs
  induction kvs with
  | nil => intro st es es' st' h id en hl; simp only [fillMap, Except.ok.injEq, Prod.mk.injEq] at h; rw [← h.2]; exact hl
  | cons kv rest ih =>
    intro st es es' st' h id en hl
    obtain ⟨k, x⟩ := kv
    simp only [fillMap] at h
    cases hm : mapEntry rec kt vt w st k x with
    | error er => simp [hm] at h
    | ok p =>
      obtain ⟨kg, v, st1⟩ := p
      simp only [hm] at h
      exact ih st1 _ es' st' h id en (mapEntry_keeps rec hrec kt vt w st k x kg v st1 hm id en hl)

theorem heapSet_lookup (st : St) (o : Nat) (v : GV) (id : Nat) : (heapSet st o v).lookup id = st.lookup id := rfl

theorem convStep_keeps (w : World) (rec : Rec) (hrec : Keeps rec) : Keeps (convStep w rec) := by
  intro st x T cur v st' h id en hl
  cases x with
  | arr xs =>
    simp only [convStep, bind, Except.bind, pure, Except.pure] at h
    repeat' (split at h)
    all_goals first
      | (simp at h; done)
      | (simp only [Except.ok.injEq, Prod.mk.injEq] at h; rw [← h.2]
         exact convList_keeps rec hrec _ _ _ _ _ _ (by assumption) id en hl)
  | hash id0 tn kvs =>
    simp only [convStep] at h
    cases hhit : st.lookup id0 with
    | some p =>
      obtain ⟨v0, vt0⟩ := p
      simp only [hhit, bind, Except.bind, pure, Except.pure] at h
      split at h
      · simp at h
      · simp only [Except.ok.injEq, Prod.mk.injEq] at h; rw [← h.2]; exact hl
    | none =>
      have hne : id ≠ id0 := by
        intro heq; rw [heq, hhit] at hl; simp at hl
      simp only [hhit, bind, Except.bind, pure, Except.pure] at h
      repeat' (split at h)
      all_goals first
        | (simp at h; done)
        | (simp only [Except.ok.injEq, Prod.mk.injEq] at h; rw [← h.2, lookup_remember_ne _ _ _ _ _ hne]; exact hl)
        | (rename_i heq; simp only [Except.ok.injEq, Prod.mk.injEq] at h
           rw [← h.2, lookup_remember_ne _ _ _ _ _ hne]
           exact fillMap_keeps rec hrec _ _ _ _ _ _ _ _ heq id en hl)
        | (rename_i heq; simp only [Except.ok.injEq, Prod.mk.injEq] at h
           rw [← h.2, lookup_remember_ne _ _ _ _ _ hne]
           exact fillFields_keeps rec hrec _ _ _ _ _ _ heq id en hl)
        | (rename_i heq; simp only [Except.ok.injEq, Prod.mk.injEq] at h
           rw [← h.2, lookup_remember_ne _ _ _ _ _ hne, heapSet_lookup]
           exact fillFields_keeps rec hrec _ _ _ _ _ _ heq id en hl)
  | _ =>
    simp only [convStep] at h
    split at h
    · simp only [Except.ok.injEq, Prod.mk.injEq] at h; rw [← h.2]; exact hl
    · simp at h

theorem conv_keeps (w : World) : ∀ n, Keeps (conv w n) := by
  intro n
  induction n with
  | zero => intro st x T cur v st' h; simp [conv] at h
  | succ n ih => exact convStep_keeps w (conv w n) ih

end ZygoVerif.ToGoCache
