/-
C02, "constructor freshness / aliasing": an array literal is a CONSTRUCTOR.

On the VM model (`Model/VM.lean`, `Model/Gen.lean`) and on the reference evaluator
(`Spec/RefEval.lean`): the code of `[e₁ … eₙ]` ends in `CallInstr{array, n}`; executing it
allocates a heap cell whose id is the current size of the data heap. Ids below the size are the
only ones a state can mention (`StClosed` / `RefClosed`: established for the initial states,
kept by the allocation), so the new id is mentioned by no value of the state before
(`array_literal_allocates_fresh`, `ref_array_literal_allocates_fresh`); the old cells are not
touched; no builtin shrinks the heap (`prim_heap_mono`) and `alloc` is the only source of ids, so
a later allocation never returns the id again (`alloc_after_ne`, `array_literal_twice_distinct`).

What is NOT proved here: that every instruction of the VM keeps `StClosed` and never shrinks the
heap (the statement is `HeapMonotoneAll`, a `def … : Prop`; it is the data-heap analogue of C03's
`wf_preserved`, an induction over the 13 mutually recursive functions of the machine). The
`alias` correspondence channel (harness/gen_alias.go) holds the end-to-end statement on the Go code.
-/
import ZygoVerif.Proofs.SimCallVM
import ZygoVerif.Spec.RefEval
set_option linter.unusedSimpArgs false
set_option linter.unusedVariables false
namespace ZygoVerif.Alias
open ZygoVerif.Core ZygoVerif.VM

/-! ## Array ids inside values -/

/-- the array id `id` occurs in the value (arrays are named by id; lists are trees of pairs) -/
def Occurs (id : Nat) : Val → Prop
  | .arr r => r = id
  | .pair a b => Occurs id a ∨ Occurs id b
  | _ => False

/-- every array id in the value is below `n` -/
def ValBelow (n : Nat) : Val → Prop
  | .arr r => r < n
  | .pair a b => ValBelow n a ∧ ValBelow n b
  | _ => True

theorem ValBelow.mono {n m : Nat} (h : n ≤ m) : ∀ {v : Val}, ValBelow n v → ValBelow m v
  | .arr r, hv => Nat.lt_of_lt_of_le hv h
  | .pair a b, hv => ⟨ValBelow.mono h hv.1, ValBelow.mono h hv.2⟩
  | .nil, _ | .bool _, _ | .int _, _ | .str _, _ | .fn _, _ | .builtin _, _ | .lazy _, _ | .mark _, _ | .sym _, _ => trivial

theorem ValBelow.not_occurs {n id : Nat} (h : n ≤ id) : ∀ {v : Val}, ValBelow n v → ¬ Occurs id v
  | .arr r, hv, ho => by
    have h1 : r < n := hv
    have h2 : r = id := ho
    omega
  | .pair a b, hv, ho => by
    rcases ho with ho | ho
    · exact ValBelow.not_occurs h hv.1 ho
    · exact ValBelow.not_occurs h hv.2 ho
  | .nil, _, ho | .bool _, _, ho | .int _, _, ho | .str _, _, ho | .fn _, _, ho | .builtin _, _, ho
  | .lazy _, _, ho | .mark _, _, ho | .sym _, _, ho => ho

/-- every cell of the heap mentions allocated ids only -/
def HeapClosed (h : DataHeap) : Prop := ∀ cell ∈ h.arrs, ∀ v ∈ cell, ValBelow h.arrs.length v

/-! ## `alloc`: the only source of array ids -/

theorem alloc_id (h : DataHeap) (xs : List Val) : (h.alloc xs).1 = .arr h.arrs.length := rfl
theorem alloc_arrs (h : DataHeap) (xs : List Val) : (h.alloc xs).2.arrs = h.arrs ++ [xs] := rfl
theorem alloc_length (h : DataHeap) (xs : List Val) : (h.alloc xs).2.arrs.length = h.arrs.length + 1 := by
  simp [alloc_arrs]

/-- the new cell holds the elements -/
theorem alloc_get_new (h : DataHeap) (xs : List Val) : (h.alloc xs).2.get h.arrs.length = xs := by
  simp [DataHeap.get, alloc_arrs]

/-- the old cells are untouched -/
theorem alloc_get_old (h : DataHeap) (xs : List Val) {r : Nat} (hr : r < h.arrs.length) :
    (h.alloc xs).2.get r = h.get r := by
  simp [DataHeap.get, alloc_arrs, List.getD_eq_getElem?_getD, List.getElem?_append_left hr]

/-- `heapFresh`: the id `alloc` returns names no cell of the heap before -/
theorem alloc_fresh (h : DataHeap) (xs : List Val) : h.arrs[h.arrs.length]? = none := by simp

/-- a later allocation (from any heap that is at least as large as the one the first allocation
left) returns another id: ids are never reused -/
theorem alloc_after_ne (h h2 : DataHeap) (xs ys : List Val) (hle : (h.alloc xs).2.arrs.length ≤ h2.arrs.length) :
    (h2.alloc ys).1 ≠ (h.alloc xs).1 := by
  rw [alloc_id, alloc_id, alloc_length] at *
  intro he
  injection he with he
  omega

theorem heapClosed_alloc {h : DataHeap} (hh : HeapClosed h) {xs : List Val}
    (hx : ∀ v ∈ xs, ValBelow h.arrs.length v) : HeapClosed (h.alloc xs).2 := by
  intro cell hc v hv
  rw [alloc_length]
  rw [alloc_arrs] at hc
  rcases List.mem_append.mp hc with hc | hc
  · exact ValBelow.mono (Nat.le_succ _) (hh cell hc v hv)
  · rw [List.mem_singleton] at hc
    subst hc
    exact ValBelow.mono (Nat.le_succ _) (hx v hv)

theorem set_length (h : DataHeap) (r : Nat) (xs : List Val) : (h.set r xs).arrs.length = h.arrs.length := by
  simp [DataHeap.set]

/-! ## No builtin shrinks the heap -/

theorem prim_array (args : List Val) (h : DataHeap) : prim "array" args h = some (h.alloc args) := by
  unfold prim
  simp [isCmp]

/-- the three shapes of the heap a builtin leaves -/
inductive HeapStep (h : DataHeap) : DataHeap → Prop
  | same : HeapStep h h
  | alloc (xs : List Val) : HeapStep h (h.alloc xs).2
  | set (r : Nat) (xs : List Val) : HeapStep h (h.set r xs)

theorem HeapStep.le {h h' : DataHeap} (s : HeapStep h h') : h.arrs.length ≤ h'.arrs.length := by
  cases s with
  | same => exact Nat.le_refl _
  | alloc xs => rw [alloc_length]; omega
  | set r xs => rw [set_length]; omega

set_option hygiene false in
local macro "fin" : tactic => `(tactic| (
  repeat' split at hp
  all_goals first
    | (cases hp; done)
    | (injection hp with hp; injection hp with _ hp; subst hp; first | exact HeapStep.same | exact HeapStep.alloc _ | exact HeapStep.set _ _)
    | (obtain ⟨x, _, hx⟩ := Option.map_eq_some_iff.mp hp; injection hx with _ hx; subst hx; first | exact HeapStep.same | exact HeapStep.alloc _)))

/-- **Every builtin of the core language** leaves the heap it found, that heap after ONE `alloc`, or that heap
after ONE `set` of a cell (`aset`): it never drops or renumbers a cell. -/
theorem prim_heapStep (name : String) (args : List Val) (h : DataHeap) (v : Val) (h' : DataHeap)
    (hp : prim name args h = some (v, h')) : HeapStep h h' := by
  unfold prim at hp
  by_cases c1 : (name = "+" ∨ name = "-" ∨ name = "*")
  · rw [if_pos c1] at hp; fin
  rw [if_neg c1] at hp
  by_cases c2 : name = "mod"
  · rw [if_pos c2] at hp; fin
  rw [if_neg c2] at hp
  by_cases c3 : isCmp name = true
  · rw [if_pos c3] at hp; fin
  rw [if_neg c3] at hp
  by_cases c4 : name = "not"
  · rw [if_pos c4] at hp; fin
  rw [if_neg c4] at hp
  by_cases c5 : name = "cons"
  · rw [if_pos c5] at hp; fin
  rw [if_neg c5] at hp
  by_cases c6 : name = "first"
  · rw [if_pos c6] at hp; fin
  rw [if_neg c6] at hp
  by_cases c7 : name = "rest"
  · rw [if_pos c7] at hp; fin
  rw [if_neg c7] at hp
  by_cases c8 : name = "second"
  · rw [if_pos c8] at hp; fin
  rw [if_neg c8] at hp
  by_cases c9 : name = "list"
  · rw [if_pos c9] at hp; fin
  rw [if_neg c9] at hp
  by_cases c10 : name = "array"
  · rw [if_pos c10] at hp; fin
  rw [if_neg c10] at hp
  by_cases c11 : name = "len"
  · rw [if_pos c11] at hp; fin
  rw [if_neg c11] at hp
  by_cases c12 : name = "append"
  · rw [if_pos c12] at hp; fin
  rw [if_neg c12] at hp
  by_cases c13 : name = "concat"
  · rw [if_pos c13] at hp; fin
  rw [if_neg c13] at hp
  by_cases c14 : name = "aget"
  · rw [if_pos c14] at hp; fin
  rw [if_neg c14] at hp
  by_cases c15 : name = "aset"
  · rw [if_pos c15] at hp; fin
  rw [if_neg c15] at hp
  cases hp

/-- no builtin shrinks the heap: ids, once allocated, stay allocated -/
theorem prim_heap_mono (name : String) (args : List Val) (h : DataHeap) (v : Val) (h' : DataHeap)
    (hp : prim name args h = some (v, h')) : h.arrs.length ≤ h'.arrs.length :=
  (prim_heapStep name args h v h' hp).le

/-! ## The VM state mentions allocated ids only -/

/-- every array id held anywhere in the machine state — data stack, variables of every scope, cells of
the heap, memoised values of lazy arguments, constants in the code of every function — is allocated -/
structure StClosed (s : St) : Prop where
  heap : HeapClosed s.heap
  data : ∀ v, some v ∈ s.data → ValBelow s.heap.arrs.length v
  scopes : ∀ sc ∈ s.scopes, ∀ p ∈ sc.vars, ValBelow s.heap.arrs.length p.2
  lazies : ∀ lz ∈ s.lazies, ∀ v, lz.value = some v → ValBelow s.heap.arrs.length v
  code : ∀ f ∈ s.fns, ∀ v, Instr.push v ∈ f.code → ValBelow s.heap.arrs.length v

/-- some value of the state mentions the array id -/
def Mentions (s : St) (id : Nat) : Prop :=
  (∃ v, some v ∈ s.data ∧ Occurs id v) ∨ (∃ sc ∈ s.scopes, ∃ p ∈ sc.vars, Occurs id p.2)
    ∨ (∃ cell ∈ s.heap.arrs, ∃ v ∈ cell, Occurs id v) ∨ (∃ lz ∈ s.lazies, ∃ v, lz.value = some v ∧ Occurs id v)
    ∨ (∃ f ∈ s.fns, ∃ v, Instr.push v ∈ f.code ∧ Occurs id v)

/-- in a closed state no value mentions an id that is not allocated yet -/
theorem StClosed.not_mentions {s : St} (hc : StClosed s) {id : Nat} (hid : s.heap.arrs.length ≤ id) : ¬ Mentions s id := by
  intro hm
  rcases hm with ⟨v, hv, ho⟩ | ⟨sc, hsc, p, hp, ho⟩ | ⟨cell, hcell, v, hv, ho⟩ | ⟨lz, hlz, v, hv, ho⟩ | ⟨f, hf, v, hv, ho⟩
  · exact ValBelow.not_occurs hid (hc.data v hv) ho
  · exact ValBelow.not_occurs hid (hc.scopes sc hsc p hp) ho
  · exact ValBelow.not_occurs hid (hc.heap cell hcell v hv) ho
  · exact ValBelow.not_occurs hid (hc.lazies lz hlz v hv) ho
  · exact ValBelow.not_occurs hid (hc.code f hf v hv) ho

/-- the initial machine state (no array exists, the globals are builtins and nil) is closed -/
theorem stClosed_init : StClosed initSt := by
  refine ⟨?_, ?_, ?_, ?_, ?_⟩
  · intro cell hc; cases hc
  · intro v hv; cases hv
  · intro sc hsc p hp
    simp only [initSt, List.mem_singleton] at hsc
    subst hsc
    simp only [List.mem_append, List.mem_cons, List.mem_map, List.not_mem_nil, or_false] at hp
    rcases hp with (rfl | rfl) | ⟨n, _, rfl⟩ <;> trivial
  · intro lz hlz; cases hlz
  · intro f hf v hv
    simp only [initSt, List.mem_cons, List.not_mem_nil, or_false] at hf
    rcases hf with rfl | rfl <;> simp at hv

/-! ## The array literal on the VM model -/

/-- `GenerateArray`: the code of `[e₁ … eₙ]` is the code of the elements followed by the constructor
call `CallInstr{array, n}` — never a push of a prebuilt array -/
theorem compile_arr_shape (isFn : Nat → Bool) (c : Ctx) (es : List Expr) (gs : GS) (code : List Instr) (t : Bool) (gs' : GS)
    (h : (compile isFn c (.arr es)).run gs = .ok ((code, t), gs')) :
    ∃ ce, code = ce ++ [.callArr es.length] := by
  rw [compile] at h
  simp only [Sim.g_bind_ok, Sim.g_pure_ok] at h
  obtain ⟨⟨ce, t'⟩, g1, _, h2⟩ := h
  injection h2 with h2 _
  injection h2 with h2 _
  exact ⟨ce, h2⟩

/-- the state after the constructor call: one new cell, its id on the stack over `D`, next instruction -/
def afterLiteral (s : St) (D : List (Option Val)) (vs : List Val) : St :=
  { s with heap := (s.heap.alloc vs).2, data := some (.arr s.heap.arrs.length) :: D, pc := s.pc + 1 }

/-- **Executing the last instruction of an array literal** (the element values `vs` are on the data stack,
last on top): the machine allocates — for every amount of fuel ≥ 3 and every state. -/
theorem exec_callArr (f : Nat) (vs : List Val) (D : List (Option Val)) (s : St)
    (hd : s.data = vs.reverse.map some ++ D) :
    (exec (f + 3) (.callArr vs.length)).run s = (.ok (), afterLiteral s D vs) := by
  rw [exec, Sim.run_callUser_fo f "array" (by decide) vs D s hd]
  have hfo : Sim.foResult "array" vs (Sim.inBuiltin s D)
      = (.ok (s.heap.alloc vs).1, { Sim.inBuiltin s D with heap := (s.heap.alloc vs).2 }) := by
    unfold Sim.foResult
    rw [if_neg (by decide), prim_array]
    rfl
  rw [hfo]
  rfl

/-- **array_literal_allocates_fresh** (VM model). In a closed state, executing the constructor call of an
array literal pushes an array id that NO value of the state before mentions — not the data stack, not a
variable of any scope (live or captured), not a cell of the heap, not a memoised lazy argument, not a constant
in any compiled function —, whose cell holds exactly the element values; every old cell is unchanged; the new
state is closed again (so the next allocation is fresh too). -/
theorem array_literal_allocates_fresh (f : Nat) (vs : List Val) (D : List (Option Val)) (s : St)
    (hd : s.data = vs.reverse.map some ++ D) (hc : StClosed s) :
    ∃ s', (exec (f + 3) (.callArr vs.length)).run s = (.ok (), s')
      ∧ s'.data = some (.arr s.heap.arrs.length) :: D
      ∧ ¬ Mentions s s.heap.arrs.length
      ∧ s'.heap.get s.heap.arrs.length = vs
      ∧ (∀ r, r < s.heap.arrs.length → s'.heap.get r = s.heap.get r)
      ∧ s'.heap.arrs.length = s.heap.arrs.length + 1
      ∧ StClosed s' := by
  refine ⟨afterLiteral s D vs, exec_callArr f vs D s hd, rfl, hc.not_mentions (Nat.le_refl _),
    alloc_get_new _ _, fun r hr => alloc_get_old _ _ hr, alloc_length _ _, ?_⟩
  have hvs : ∀ v ∈ vs, ValBelow s.heap.arrs.length v := by
    intro v hv
    apply hc.data v
    rw [hd]
    exact List.mem_append_left _ (List.mem_map.mpr ⟨v, List.mem_reverse.mpr hv, rfl⟩)
  have hlen : (afterLiteral s D vs).heap.arrs.length = s.heap.arrs.length + 1 := alloc_length _ _
  refine ⟨heapClosed_alloc hc.heap hvs, ?_, ?_, ?_, ?_⟩
  · intro v hv
    rw [hlen]
    simp only [afterLiteral, List.mem_cons, Option.some.injEq] at hv
    rcases hv with rfl | hv
    · exact Nat.lt_succ_self _
    · exact ValBelow.mono (Nat.le_succ _) (hc.data v (by rw [hd]; exact List.mem_append_right _ hv))
  · intro sc hsc p hp; rw [hlen]; exact ValBelow.mono (Nat.le_succ _) (hc.scopes sc hsc p hp)
  · intro lz hlz v hv; rw [hlen]; exact ValBelow.mono (Nat.le_succ _) (hc.lazies lz hlz v hv)
  · intro g hg v hv; rw [hlen]; exact ValBelow.mono (Nat.le_succ _) (hc.code g hg v hv)

/-- Two executions of (the constructor call of) an array literal — the same code, e.g. one call site run
twice — yield different arrays whenever the heap did not shrink in between. -/
theorem array_literal_twice_distinct (f g : Nat) (vs ws : List Val) (D E : List (Option Val)) (s t : St)
    (hd : s.data = vs.reverse.map some ++ D) (he : t.data = ws.reverse.map some ++ E)
    (hmono : (afterLiteral s D vs).heap.arrs.length ≤ t.heap.arrs.length) :
    ∃ s' t', (exec (f + 3) (.callArr vs.length)).run s = (.ok (), s')
      ∧ (exec (g + 3) (.callArr ws.length)).run t = (.ok (), t')
      ∧ s'.data.head? ≠ t'.data.head? := by
  refine ⟨_, _, exec_callArr f vs D s hd, exec_callArr g ws E t he, ?_⟩
  have h1 : (afterLiteral s D vs).heap.arrs.length = s.heap.arrs.length + 1 := alloc_length _ _
  simp only [afterLiteral, List.head?_cons, ne_eq, Option.some.injEq, Val.arr.injEq]
  omega

/-- The full monotonicity statement (not proved): no function of the machine ever shrinks the heap or
leaves a closed state unclosed. With it the hypothesis `hmono` above holds between any two executions. -/
def HeapMonotoneAll : Prop :=
  ∀ (fuel : Nat) (i : Instr) (s : St), StClosed s →
    s.heap.arrs.length ≤ ((exec fuel i).run s).2.heap.arrs.length ∧ StClosed ((exec fuel i).run s).2

/-- the part of `HeapMonotoneAll` that is proved: the constructor call of an array literal -/
theorem heapMonotone_partial (f : Nat) (vs : List Val) (D : List (Option Val)) (s : St)
    (hd : s.data = vs.reverse.map some ++ D) (hc : StClosed s) :
    s.heap.arrs.length ≤ ((exec (f + 3) (.callArr vs.length)).run s).2.heap.arrs.length
      ∧ StClosed ((exec (f + 3) (.callArr vs.length)).run s).2 := by
  obtain ⟨s', hx, _, _, _, _, hl, hcl⟩ := array_literal_allocates_fresh f vs D s hd hc
  rw [hx]
  exact ⟨by rw [hl]; omega, hcl⟩

/-- non-vacuity: the initial state with two values pushed is closed and fits the hypotheses -/
example : ∃ s' : St, (exec 3 (.callArr 2)).run { initSt with data := [some (.int 0#64), some (.int 1#64)] } = (.ok (), s')
    ∧ s'.data = [some (.arr 0)] ∧ s'.heap.get 0 = [.int 1#64, .int 0#64] := by
  have hc : StClosed { initSt with data := [some (.int 0#64), some (.int 1#64)] } :=
    { stClosed_init with data := by intro v hv; simp at hv; rcases hv with rfl | rfl <;> trivial }
  obtain ⟨s', h1, h2, _, h4, _⟩ := array_literal_allocates_fresh 0 [.int 1#64, .int 0#64] [] _ rfl hc
  exact ⟨s', h1, h2, h4⟩

/-! ## The array literal on the reference evaluator -/

/-- every array id held in the reference state — variables of every frame, heap cells, memoised thunks — is allocated -/
structure RefClosed (s : Ref.St) : Prop where
  heap : HeapClosed s.heap
  frames : ∀ fr ∈ s.frames, ∀ p ∈ fr.vars, ValBelow s.heap.arrs.length p.2
  thunks : ∀ th ∈ s.thunks, ∀ v, th.value = some v → ValBelow s.heap.arrs.length v

def RefMentions (s : Ref.St) (id : Nat) : Prop :=
  (∃ fr ∈ s.frames, ∃ p ∈ fr.vars, Occurs id p.2) ∨ (∃ cell ∈ s.heap.arrs, ∃ v ∈ cell, Occurs id v)
    ∨ (∃ th ∈ s.thunks, ∃ v, th.value = some v ∧ Occurs id v)

theorem RefClosed.not_mentions {s : Ref.St} (hc : RefClosed s) {id : Nat} (hid : s.heap.arrs.length ≤ id) : ¬ RefMentions s id := by
  intro hm
  rcases hm with ⟨fr, hfr, p, hp, ho⟩ | ⟨cell, hcell, v, hv, ho⟩ | ⟨th, hth, v, hv, ho⟩
  · exact ValBelow.not_occurs hid (hc.frames fr hfr p hp) ho
  · exact ValBelow.not_occurs hid (hc.heap cell hcell v hv) ho
  · exact ValBelow.not_occurs hid (hc.thunks th hth v hv) ho

theorem refClosed_init : RefClosed Ref.initSt := by
  refine ⟨?_, ?_, ?_⟩
  · intro cell hc; cases hc
  · intro fr hfr p hp
    simp only [Ref.initSt, List.mem_singleton] at hfr
    subst hfr
    simp only [List.mem_append, List.mem_cons, List.mem_map, List.not_mem_nil, or_false] at hp
    rcases hp with (rfl | rfl) | ⟨n, _, rfl⟩ <;> trivial
  · intro th hth; cases hth

/-- **ref_array_literal_allocates_fresh**. Whenever the reference evaluator yields a value for `[e₁ … eₙ]`, it
evaluated the elements (left to right, `evalList`) to `vs` in a state `s₁` and then allocated: the value is the
array id `|heap of s₁|`, its cell holds `vs`, nothing else of `s₁` changed; if `s₁` is closed no value of `s₁`
mentions the id. -/
theorem ref_array_literal_allocates_fresh (fuel : Nat) (es : List Expr) (env : Nat) (s s' : Ref.St) (v : Val)
    (h : Ref.eval (fuel + 1) (.arr es) env s = .ok v s') :
    ∃ vs s₁, Ref.evalList fuel es env s = .ok vs s₁
      ∧ v = .arr s₁.heap.arrs.length
      ∧ s' = { s₁ with heap := (s₁.heap.alloc vs).2 }
      ∧ s'.heap.get s₁.heap.arrs.length = vs
      ∧ (∀ r, r < s₁.heap.arrs.length → s'.heap.get r = s₁.heap.get r)
      ∧ (RefClosed s₁ → ¬ RefMentions s₁ s₁.heap.arrs.length) := by
  rw [Ref.eval] at h
  cases hl : Ref.evalList fuel es env s with
  | ok vs s₁ =>
    rw [hl] at h
    simp only at h
    injection h with hv hs
    refine ⟨vs, s₁, rfl, hv.symm, hs.symm, ?_, ?_, fun hc => hc.not_mentions (Nat.le_refl _)⟩
    · rw [← hs]; exact alloc_get_new _ _
    · intro r hr; rw [← hs]; exact alloc_get_old _ _ hr
  | err s2 => rw [hl] at h; cases h
  | brk l s2 => rw [hl] at h; cases h
  | cont l s2 => rw [hl] at h; cases h
  | timeout => rw [hl] at h; cases h

/-- a literal of integer constants: the elements do not touch the state -/
def constLit (es : List Expr) : Prop := ∀ e ∈ es, ∃ n, e = Expr.int n

/-- the values of a literal of integer constants -/
def constVals : List Expr → List Val
  | [] => []
  | .int n :: es => intOfLit n :: constVals es
  | _ :: es => constVals es

theorem ref_evalList_consts : ∀ (es : List Expr) (fuel : Nat) (env : Nat) (s : Ref.St), constLit es → es.length < fuel →
    Ref.evalList fuel es env s = .ok (constVals es) s
  | [], fuel, env, s, _, hf => by
    obtain ⟨k, rfl⟩ : ∃ k, fuel = k + 1 := ⟨fuel - 1, by simp at hf; omega⟩
    rw [Ref.evalList]
    · rfl
    · simp
  | e :: es, fuel, env, s, hc, hf => by
    obtain ⟨k, rfl⟩ : ∃ k, fuel = k + 2 := ⟨fuel - 2, by simp at hf; omega⟩
    obtain ⟨n, rfl⟩ := hc e List.mem_cons_self
    have ih := ref_evalList_consts es (k + 1) env s (fun e he => hc e (List.mem_cons_of_mem _ he)) (by simp at hf; omega)
    rw [Ref.evalList, Ref.eval]
    simp only [ih, constVals]

/-- **The seeded shape on the reference side**: a constant literal `[c₁ … cₙ]` evaluated twice — in `s` and in
any later state `t` whose heap is not smaller than the one the first evaluation left (any environment) — yields
two DIFFERENT arrays, each holding the constants; so a write to the first is not seen through the second. -/
theorem ref_const_literal_twice_distinct (es : List Expr) (hc : constLit es) (fuel : Nat) (hf : es.length + 1 < fuel)
    (env env' : Nat) (s t : Ref.St) :
    ∃ a b s' t', Ref.eval fuel (.arr es) env s = .ok (.arr a) s' ∧ Ref.eval fuel (.arr es) env' t = .ok (.arr b) t'
      ∧ s'.heap.get a = constVals es ∧ t'.heap.get b = constVals es
      ∧ (s'.heap.arrs.length ≤ t.heap.arrs.length → a ≠ b) := by
  obtain ⟨k, rfl⟩ : ∃ k, fuel = k + 1 := ⟨fuel - 1, by omega⟩
  have h1 := ref_evalList_consts es k env s hc (by omega)
  have h2 := ref_evalList_consts es k env' t hc (by omega)
  refine ⟨s.heap.arrs.length, t.heap.arrs.length, { s with heap := (s.heap.alloc (constVals es)).2 },
    { t with heap := (t.heap.alloc (constVals es)).2 }, ?_, ?_, alloc_get_new _ _, alloc_get_new _ _, ?_⟩
  · rw [Ref.eval, h1]; rfl
  · rw [Ref.eval, h2]; rfl
  · intro hle
    have : ({ s with heap := (s.heap.alloc (constVals es)).2 } : Ref.St).heap.arrs.length = s.heap.arrs.length + 1 := alloc_length _ _
    omega

/-- non-vacuity: `[0 0]` is a constant literal -/
example : constLit [.int 0, .int 0] := by
  intro e he
  simp at he
  exact ⟨0, he⟩

end ZygoVerif.Alias
