/-
Integers as the printer writes them (`strconv.Itoa`): the numeral is made of decimal digits,
is lexed as one atom, classified as a decimal token and converted back to the same integer —
for every 64-bit integer.
-/
import ZygoVerif.Proofs.LexLiterals
import ZygoVerif.Proofs.DecodeAtom
import ZygoVerif.Model.Parser
namespace ZygoVerif.Lexer
open ZygoVerif.PrintData ZygoVerif.NumLit

/-! ## the digits of `natDec` -/

def digitChar (d : Nat) : Char := Char.ofNat (48 + d)

theorem isDig_digitChar : ∀ d, d < 10 → isDig (Char.ofNat (48 + d)) = true := by decide
theorem digitVal_digitChar : ∀ d, d < 10 → digitVal (Char.ofNat (48 + d)) = some d := by decide
theorem isSpecial_digitChar : ∀ d, d < 10 → isSpecial (Char.ofNat (48 + d)) = false := by decide
theorem digitChar_ne_underscore : ∀ d, d < 10 → Char.ofNat (48 + d) ≠ '_' := by decide

theorem decDigits_all (p : Char → Prop) (hp : ∀ d, d < 10 → p (Char.ofNat (48 + d))) :
    ∀ f n, ∀ c ∈ decDigits f n, p c := by
  intro f
  induction f with
  | zero =>
    intro n c hc
    simp only [decDigits, List.mem_singleton] at hc
    subst hc; exact hp _ (Nat.mod_lt _ (by decide))
  | succ f ih =>
    intro n c hc
    unfold decDigits at hc
    split at hc
    · rename_i hlt
      simp only [List.mem_singleton] at hc
      subst hc; exact hp _ hlt
    · simp only [List.mem_append, List.mem_singleton] at hc
      rcases hc with hc | hc
      · exact ih _ c hc
      · subst hc; exact hp _ (Nat.mod_lt _ (by decide))

theorem decDigits_ne_nil (f n : Nat) : decDigits f n ≠ [] := by
  cases f with
  | zero => simp [decDigits]
  | succ f => unfold decDigits; split <;> simp

theorem natDec_isDig (n : Nat) : ∀ c ∈ natDec n, isDig c = true :=
  decDigits_all (fun c => isDig c = true) isDig_digitChar n n

theorem natDec_not_special (n : Nat) : ∀ c ∈ natDec n, isSpecial c = false :=
  decDigits_all (fun c => isSpecial c = false) isSpecial_digitChar n n

theorem natDec_ne_nil (n : Nat) : natDec n ≠ [] := decDigits_ne_nil n n

/-- Horner evaluation of a digit string extended by one digit -/
theorem natOfDigits_snoc (ds : List Char) (c : Char) (m d : Nat) (hm : natOfDigits 10 ds = some m)
    (hd : digitVal c = some d) (hlt : d < 10) : natOfDigits 10 (ds ++ [c]) = some (m * 10 + d) := by
  unfold natOfDigits at hm ⊢
  have hne : ds.isEmpty = false := by
    cases ds with
    | nil => simp at hm
    | cons a b => rfl
  have hne2 : (ds ++ [c]).isEmpty = false := by simp
  simp only [hne, Bool.false_eq_true, ↓reduceIte] at hm
  simp only [hne2, Bool.false_eq_true, ↓reduceIte, List.foldl_append, List.foldl_cons, List.foldl_nil, hm, hornerStep, hd, hlt]

theorem natOfDigits_single (c : Char) (d : Nat) (hd : digitVal c = some d) (hlt : d < 10) :
    natOfDigits 10 [c] = some d := by
  simp [natOfDigits, hornerStep, hd, hlt]

/-- `strconv.ParseUint(strconv.FormatUint(n, 10), 10, …)` gives `n` back (before the range check) -/
theorem natOfDigits_decDigits : ∀ f n, n < 10 ^ (f + 1) → natOfDigits 10 (decDigits f n) = some n := by
  intro f
  induction f with
  | zero =>
    intro n hn
    have : n % 10 = n := Nat.mod_eq_of_lt (by simpa using hn)
    simp only [decDigits, this]
    exact natOfDigits_single _ n (digitVal_digitChar n (by simpa using hn)) (by simpa using hn)
  | succ f ih =>
    intro n hn
    unfold decDigits
    split
    · rename_i hlt
      exact natOfDigits_single _ n (digitVal_digitChar n hlt) hlt
    · have hq : n / 10 < 10 ^ (f + 1) := by
        rw [Nat.div_lt_iff_lt_mul (by decide)]
        calc n < 10 ^ (f + 1 + 1) := hn
          _ = 10 ^ (f + 1) * 10 := by rw [Nat.pow_succ]
      have h1 := ih (n / 10) hq
      have hd := digitVal_digitChar (n % 10) (Nat.mod_lt _ (by decide))
      rw [natOfDigits_snoc _ _ _ _ h1 hd (Nat.mod_lt _ (by decide))]
      congr 1
      omega

theorem natOfDigits_natDec (n : Nat) : natOfDigits 10 (natDec n) = some n := by
  apply natOfDigits_decDigits n n
  have h1 : n < 10 ^ n := Nat.lt_pow_self (by decide)
  have h2 : 10 ^ n ≤ 10 ^ (n + 1) := Nat.pow_le_pow_right (by decide) (Nat.le_succ n)
  omega

/-! ## `DecodeAtom` and the conversion of a decimal numeral -/

theorem getLast?_mem_isDig (ds : List Char) (hne : ds ≠ []) (hd : ∀ c ∈ ds, isDig c = true) :
    ∃ c, ds.getLast? = some c ∧ isDig c = true := by
  refine ⟨ds.getLast hne, List.getLast?_eq_some_getLast hne, hd _ (List.getLast_mem hne)⟩

theorem isDig_facts : ∀ c : Char, isDig c = true → c ≠ ':' ∧ c ≠ 'L' ∧ c ≠ 't' ∧ c ≠ 'f' ∧ c ≠ '&' ∧ c ≠ '\\' ∧ c ≠ '-' ∧ c ≠ '_' := by
  intro c h
  simp only [isDig, Bool.and_eq_true, decide_eq_true_eq] at h
  have h1 : '0'.toNat ≤ c.toNat := h.1
  have h2 : c.toNat ≤ '9'.toNat := h.2
  have e0 : '0'.toNat = 48 := by decide
  have e9 : '9'.toNat = 57 := by decide
  rw [e0] at h1; rw [e9] at h2
  refine ⟨?_, ?_, ?_, ?_, ?_, ?_, ?_, ?_⟩ <;> (intro heq; subst heq; revert h1 h2; decide)

/-- a run of decimal digits is a decimal token -/
theorem decodeAtom_digits (ds : List Char) (hne : ds ≠ []) (hd : ∀ c ∈ ds, isDig c = true) :
    decodeAtom ds = .ok ⟨.decimal, ds⟩ := by
  obtain ⟨l, hl, hld⟩ := getLast?_mem_isDig ds hne hd
  obtain ⟨f1, f2, _, _, _, _, _, _⟩ := isDig_facts l hld
  cases ds with
  | nil => exact absurd rfl hne
  | cons d r =>
    have hdd := hd d (by simp)
    obtain ⟨_, _, g3, g4, g5, g6, g7, _⟩ := isDig_facts d hdd
    apply decodeAtom_decimal
    · rw [hl]; intro h; exact f1 (Option.some.inj h)
    · intro h; simp only [List.cons.injEq] at h; exact g5 h.1
    · intro h; simp only [List.cons.injEq] at h; exact g6 h.1
    · exact boolRe_head d r g3 g4
    · exact uint64Re_last _ l hl f2
    · have : dropMinus (d :: r) = d :: r := by
        unfold dropMinus; split
        · rename_i heq; simp only [List.cons.injEq] at heq; exact absurd heq.1.symm (Ne.symm g7)
        · rfl
      simp only [decimalRe, this, digThenDigU, hdd, Bool.true_and, List.all_eq_true]
      intro c hc
      simp [isDigU, hd c (by simp [hc])]

theorem decodeAtom_neg_digits (ds : List Char) (hne : ds ≠ []) (hd : ∀ c ∈ ds, isDig c = true) :
    decodeAtom ('-' :: ds) = .ok ⟨.decimal, '-' :: ds⟩ := by
  obtain ⟨l, hl, hld⟩ := getLast?_mem_isDig ds hne hd
  obtain ⟨f1, f2, _, _, _, _, _, _⟩ := isDig_facts l hld
  have hl' : ('-' :: ds).getLast? = some l := by
    rw [List.getLast?_cons_of_ne_nil hne] <;> exact hl
  cases ds with
  | nil => exact absurd rfl hne
  | cons d r =>
    have hdd := hd d (by simp)
    apply decodeAtom_decimal
    · rw [hl']; intro h; exact f1 (Option.some.inj h)
    · intro h; simp at h
    · intro h; simp at h
    · exact boolRe_head '-' (d :: r) (by decide) (by decide)
    · exact uint64Re_last _ l hl' f2
    · simp only [decimalRe, dropMinus, digThenDigU, hdd, Bool.true_and, List.all_eq_true]
      intro c hc
      simp [isDigU, hd c (by simp [hc])]

theorem decodeAtom_itoa (v : Int) : decodeAtom (itoa v) = .ok ⟨.decimal, itoa v⟩ := by
  unfold itoa
  split
  · exact decodeAtom_neg_digits _ (natDec_ne_nil _) (natDec_isDig _)
  · exact decodeAtom_digits _ (natDec_ne_nil _) (natDec_isDig _)

theorem filter_underscore_digits (ds : List Char) (hd : ∀ c ∈ ds, isDig c = true) :
    ds.filter (· != '_') = ds := by
  rw [List.filter_eq_self]
  intro c hc
  have := (isDig_facts c (hd c hc)).2.2.2.2.2.2.2
  simpa using this

/-- **every 64-bit integer**: the decimal token of `strconv.Itoa v` converts back to `v` -/
theorem atomOfTok_itoa (v : Int) (h1 : -(2 : Int) ^ 63 ≤ v) (h2 : v < 2 ^ 63) :
    Parser.atomOfTok ⟨.decimal, itoa v⟩ = some (some (.int v)) := by
  simp only [Parser.atomOfTok]
  unfold itoa
  split
  · rename_i hneg
    have hf : ('-' :: natDec v.natAbs).filter (· != '_') = '-' :: natDec v.natAbs := by
      rw [List.filter_cons]
      simp [filter_underscore_digits _ (natDec_isDig _)]
    rw [hf]
    simp only [parseInt64, natOfDigits_natDec]
    have : v.natAbs ≤ 2 ^ 63 := by omega
    simp only [this, ↓reduceIte, Option.map_some]
    have hv : -(v.natAbs : Int) = v := by omega
    rw [hv]
  · rename_i hpos
    rw [filter_underscore_digits _ (natDec_isDig _)]
    have hne := natDec_ne_nil v.toNat
    have hd := natDec_isDig v.toNat
    cases hds : natDec v.toNat with
    | nil => exact absurd hds hne
    | cons d r =>
      have g := isDig_facts d (hd d (by rw [hds]; simp))
      have hnm : d ≠ '-' := g.2.2.2.2.2.2.1
      have hnp : d ≠ '+' := by
        intro h; subst h; have := hd '+' (by rw [hds]; simp); revert this; decide
      have hp : parseInt64 10 (d :: r) = (match natOfDigits 10 (d :: r) with
          | some n => if n < 2 ^ 63 then some (n : Int) else none
          | none => none) := by
        unfold parseInt64
        split
        · rename_i heq; simp only [List.cons.injEq] at heq; exact absurd heq.1 hnm
        · rename_i heq; simp only [List.cons.injEq] at heq; exact absurd heq.1 hnp
        · rfl
      rw [hp, ← hds, natOfDigits_natDec]
      have : v.toNat < 2 ^ 63 := by omega
      simp only [this, ↓reduceIte, Option.map_some]
      have hv : (v.toNat : Int) = v := by omega
      rw [hv]

end ZygoVerif.Lexer

namespace ZygoVerif.Lexer
open ZygoVerif.PrintData ZygoVerif.NumLit

/-! ## lexing a numeral -/

theorem stepMode_builtin (s : LexCore) (r : Char) (h : s.state = .builtinOperator) : stepMode s r = stepBuiltin s r := by
  simp only [stepMode, h]

/-- `-` at the start of a value (empty buffer) opens the one-rune look-ahead -/
theorem step_minus_start (s : LexCore) (hs : s.state = .normal) (hb : s.buffer = []) :
    step s '-' = .ok { pushRing s '-' with state := .builtinOperator, preBuiltinRune := twoback (pushRing s '-'), prevrune := '-' } := by
  have hst : (pushRing s '-').state = .normal := hs
  have hbb : (pushRing s '-').buffer = [] := hb
  rw [step_def, stepMode_normal _ _ hst]
  simp [stepNormal, thenDump, dumpBuffer_empty _ hbb, sciPrefix, hbb, utf8Len]

/-- `-` followed by a digit after a rune that can precede a signed number: a negative numeral begins -/
theorem lex_minus_digit (T : List Token) (l d : Char) (hl : canStartSignedNumberAfter l = true) (hd : isDig d = true) :
    Lex ⟨.normal, [], T, l⟩ ['-', d] ⟨.normal, ['-', d], T, d⟩ := by
  apply Lex.of_feed
  · intro s hs
    have h1 := step_minus_start s hs.state hs.buffer
    have htb : twoback (pushRing s '-') = l := by rw [twoback_pushRing s '-' hs.ring, hs.last]
    let s1 : LexCore := { pushRing s '-' with state := .builtinOperator, preBuiltinRune := twoback (pushRing s '-'), prevrune := '-' }
    have hdec : decimalRe ['-', d] = true := by simp [decimalRe, dropMinus, digThenDigU, hd]
    have h2 : step s1 d = .ok { pushRing s1 d with state := .normal, buffer := (pushRing s1 d).buffer ++ ['-', d] } := by
      have hst : (pushRing s1 d).state = .builtinOperator := rfl
      rw [step_def, stepMode_builtin _ _ hst]
      have hp : (pushRing s1 d).prevrune = '-' := rfl
      have hpre : (pushRing s1 d).preBuiltinRune = l := htb
      simp [stepBuiltin, hp, hpre, hl, hdec]
    refine ⟨_, feed_two s s1 _ '-' d h1 h2, rfl, ?_, hs.tokens⟩
    show s.buffer ++ ['-', d] = ['-', d]
    rw [hs.buffer]; rfl
  · simp

/-- `-.` followed by a digit after a rune that can precede a signed number: a negative fraction
without integer part begins (repo fix C12-05) -/
theorem lex_minus_dot_digit (T : List Token) (l d : Char) (hl : canStartSignedNumberAfter l = true) (hd : isDig d = true) :
    Lex ⟨.normal, [], T, l⟩ ['-', '.', d] ⟨.normal, ['-', '.', d], T, d⟩ := by
  apply Lex.of_feed
  · intro s hs
    have h1 := step_minus_start s hs.state hs.buffer
    have htb : twoback (pushRing s '-') = l := by rw [twoback_pushRing s '-' hs.ring, hs.last]
    let s1 : LexCore := { pushRing s '-' with state := .builtinOperator, preBuiltinRune := twoback (pushRing s '-'), prevrune := '-' }
    have h2 : step s1 '.' = .ok { pushRing s1 '.' with state := .minusDot } := by
      have hst : (pushRing s1 '.').state = .builtinOperator := rfl
      rw [step_def, stepMode_builtin _ _ hst]
      have hp : (pushRing s1 '.').prevrune = '-' := rfl
      have hpre : (pushRing s1 '.').preBuiltinRune = l := htb
      have hnf : (floatRe ['-', '.'] || decimalRe ['-', '.']) = false := by decide
      simp [stepBuiltin, hp, hpre, hl, hnf]
    let s2 : LexCore := { pushRing s1 '.' with state := .minusDot }
    have hdd : ('0' ≤ d && d ≤ '9') = true := hd
    have h3 : step s2 d = .ok { pushRing s2 d with state := .normal, buffer := (pushRing s2 d).buffer ++ ['-', '.', d] } := by
      have hst : (pushRing s2 d).state = .minusDot := rfl
      rw [step_def]
      simp only [stepMode, hst, stepMinusDot, hdd, ↓reduceIte]
    refine ⟨{ pushRing s2 d with state := .normal, buffer := (pushRing s2 d).buffer ++ ['-', '.', d] }, ?_, rfl, ?_, hs.tokens⟩
    · rw [feed_ok_cons, h1]; exact feed_two s1 s2 _ '.' d h2 h3
    · show s.buffer ++ ['-', '.', d] = ['-', '.', d]
      rw [hs.buffer]; rfl
  · simp [lastOf]

theorem canStart_lead : ∀ l ∈ ['\x00', ' ', '(', '['], canStartSignedNumberAfter l = true := by decide

/-- the printed integer is lexed as one pending atom -/
theorem lex_itoa (v : Int) (T : List Token) (l : Char) (hl : canStartSignedNumberAfter l = true) :
    Lex ⟨.normal, [], T, l⟩ (itoa v) ⟨.normal, itoa v, T, lastOf l (itoa v)⟩ := by
  unfold itoa
  split
  · have hne := natDec_ne_nil v.natAbs
    have hd := natDec_isDig v.natAbs
    cases hds : natDec v.natAbs with
    | nil => exact absurd hds hne
    | cons d r =>
      rw [hds] at hd
      have h1 := lex_minus_digit T l d hl (hd d (by simp))
      have h2 := lex_plain_run r (fun c hc => by
        have := natDec_not_special v.natAbs c (by rw [hds]; simp [hc]); exact this) ['-', d] T d
      have := Lex.trans h1 h2
      simpa [lastOf] using this
  · have := lex_plain_run (natDec v.toNat) (natDec_not_special _) [] T l
    simpa [lastOf] using this

end ZygoVerif.Lexer
