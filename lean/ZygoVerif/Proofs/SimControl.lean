/-
C02, execution half — Stage B, machine level: how the code shapes laid out by `asmBegin`,
`asmCond` and `asmSC` (Model/Gen.lean) run on the VM model, wherever they are embedded.

`Pushes code v`: embedded at any offset of any compiled function (`pre ++ code ++ post`),
started with `pc` on its first instruction, `code` runs to its own end (`pc` on the first
instruction of `post`) within `code.length` instructions, leaves exactly one more value `v`
on the data stack and changes nothing else. The combinators below are the jump arithmetic of
the generator *executed*: a `brn` really lands on the next arm, a `jump` really lands behind
the form, a `br` of `and`/`or` really lands behind the form with the duplicated value on top.
-/
import ZygoVerif.Proofs.SimMachine
set_option linter.unusedSimpArgs false
namespace ZygoVerif.Sim
open ZygoVerif.Core ZygoVerif.VM

/-- program-counter arithmetic: unfold `jmp`, list lengths and the segment's `pc`, then `omega`. -/
macro "pcarith" h:term : tactic =>
  `(tactic| ((try simp only [St.jmp_pc, List.length_append, List.length_cons, List.length_nil, ($h).pc]); omega))

/-- The VM stands on the first instruction of `code`, which is embedded in the current
(compiled) function between `pre` and `post`. -/
structure Seg (s : St) (pre code post : List Instr) : Prop where
  user : (fnOf s s.curfunc).user = false
  code : (fnOf s s.curfunc).code = pre ++ code ++ post
  pc : s.pc = (pre.length : Int)

theorem Seg.head {s pre i c post} (h : Seg s pre (i :: c) post) : At s pre i (c ++ post) :=
  ⟨h.user, by rw [h.code]; simp, h.pc⟩

/-- Re-focus on another part of the same function after a move of the program counter. -/
theorem Seg.jmp {s pre c post} (h : Seg s pre c post) {pre' c' post'} (p : Int) (d : List (Option Val))
    (hc : pre ++ c ++ post = pre' ++ c' ++ post') (hp : p = (pre'.length : Int)) :
    Seg (s.jmp p d) pre' c' post' :=
  ⟨h.user, by rw [fnOf_jmp, St.jmp_curfunc, h.code, hc], hp⟩

theorem Seg.refocus {s pre c post} (h : Seg s pre c post) {c' post'}
    (hc : c ++ post = c' ++ post') : Seg s pre c' post' :=
  ⟨h.user, by rw [h.code, List.append_assoc, hc, List.append_assoc], h.pc⟩

theorem Seg.total {s pre c post} (h : Seg s pre c post) :
    curSize s = ((pre.length + c.length + post.length : Nat) : Int) := by
  unfold VM.curSize
  simp only [h.user, h.code, Bool.false_eq_true, if_false, List.length_append]

/-- `code` pushes `v`: see the file header. -/
def Pushes (code : List Instr) (v : Val) : Prop :=
  ∀ s pre post, Seg s pre code post →
    Reach code.length 1 s (s.jmp (s.pc + code.length) (some v :: s.data))

/-- literals -/
theorem pushes_push (v : Val) : Pushes [.push v] v := by
  intro s pre post h
  exact (reach_push h.head).cast (St.jmp_congr _ (by simp) rfl)

/-- `GenerateBegin`: `a; pop; b` yields the value of `b`. -/
theorem pushes_seq_pop {a b : List Instr} {v w : Val} (ha : Pushes a v) (hb : Pushes b w) :
    Pushes (a ++ [.pop] ++ b) w := by
  intro s pre post h
  have r1 := ha s pre _ (h.refocus (c' := a) (post' := [.pop] ++ b ++ post) (by simp))
  have a2 : At (s.jmp (s.pc + a.length) (some v :: s.data)) (pre ++ a) .pop (b ++ post) :=
    ⟨h.user, by rw [fnOf_jmp, St.jmp_curfunc, h.code]; simp, by simp [h.pc]⟩
  have r2 := reach_pop a2 rfl
  have h3 : Seg ((s.jmp (s.pc + a.length) (some v :: s.data)).jmp
      ((s.jmp (s.pc + a.length) (some v :: s.data)).pc + 1) s.data) (pre ++ a ++ [.pop]) b post :=
    h.jmp _ _ (by simp) (by pcarith h)
  have r3 := hb _ _ _ h3
  refine (((r1.trans r2).trans r3).mono ?_ ?_).cast (St.jmp_congr _ ?_ rfl)
  · pcarith h
  · simp
  · pcarith h

/-- `GenerateCond`, test truthy: the `brn` falls through, the body runs, the `jump` lands
exactly behind the whole form. -/
theorem pushes_cond_true {p b rest : List Instr} {v w : Val} (hp : Pushes p v) (hv : truthy v = true)
    (hb : Pushes b w) :
    Pushes (p ++ [.branch false (b.length + 2)] ++ b ++ [.jump (rest.length + 1)] ++ rest) w := by
  intro s pre post h
  have r1 := hp s pre _ (h.refocus (c' := p)
    (post' := [.branch false (b.length + 2)] ++ b ++ [.jump (rest.length + 1)] ++ rest ++ post) (by simp))
  generalize hs1 : s.jmp (s.pc + p.length) (some v :: s.data) = s1 at r1
  have a2 : At s1 (pre ++ p) (.branch false (b.length + 2)) (b ++ [.jump (rest.length + 1)] ++ rest ++ post) := by
    subst hs1; exact ⟨h.user, by rw [fnOf_jmp, St.jmp_curfunc, h.code]; simp, by pcarith h⟩
  have r2 := reach_branch_fall a2 (by subst hs1; rfl) (by rw [hv]; decide)
  generalize hs2 : s1.jmp (s1.pc + 1) s.data = s2 at r2
  have h3 : Seg s2 (pre ++ p ++ [.branch false (b.length + 2)]) b ([.jump (rest.length + 1)] ++ rest ++ post) := by
    subst hs2 hs1; exact h.jmp _ _ (by simp) (by pcarith h)
  have r3 := hb _ _ _ h3
  generalize hs3 : s2.jmp (s2.pc + b.length) (some w :: s2.data) = s3 at r3
  have a4 : At s3 (pre ++ p ++ [.branch false (b.length + 2)] ++ b) (.jump (rest.length + 1)) (rest ++ post) := by
    subst hs3 hs2 hs1; exact ⟨h.user, by simp [h.code], by pcarith h⟩
  have r4 := reach_jump a4 (by subst hs3 hs2 hs1; pcarith h) (by subst hs3 hs2 hs1; pcarith h)
  refine ((((r1.trans r2).trans r3).trans r4).mono ?_ ?_).cast ?_
  · pcarith h
  · simp
  · subst hs3 hs2 hs1
    exact St.jmp_congr _ (by pcarith h) rfl

/-- `GenerateCond`, test falsy: the `brn` lands exactly on the first instruction of the
remaining arms. -/
theorem pushes_cond_false {p b rest : List Instr} {v w : Val} (hp : Pushes p v) (hv : truthy v = false)
    (hr : Pushes rest w) :
    Pushes (p ++ [.branch false (b.length + 2)] ++ b ++ [.jump (rest.length + 1)] ++ rest) w := by
  intro s pre post h
  have r1 := hp s pre _ (h.refocus (c' := p)
    (post' := [.branch false (b.length + 2)] ++ b ++ [.jump (rest.length + 1)] ++ rest ++ post) (by simp))
  generalize hs1 : s.jmp (s.pc + p.length) (some v :: s.data) = s1 at r1
  have a2 : At s1 (pre ++ p) (.branch false (b.length + 2)) (b ++ [.jump (rest.length + 1)] ++ rest ++ post) := by
    subst hs1; exact ⟨h.user, by rw [fnOf_jmp, St.jmp_curfunc, h.code]; simp, by pcarith h⟩
  have r2 := reach_branch_taken a2 (rest := s.data) (v := v) (by subst hs1; rfl) (by rw [hv])
    (by subst hs1; pcarith h) (by subst hs1; pcarith h)
  generalize hs2 : s1.jmp (s1.pc + ((b.length : Int) + 2)) s.data = s2 at r2
  have h3 : Seg s2 (pre ++ p ++ [.branch false (b.length + 2)] ++ b ++ [.jump (rest.length + 1)]) rest post := by
    subst hs2 hs1; exact h.jmp _ _ (by simp) (by pcarith h)
  have r3 := hr _ _ _ h3
  refine (((r1.trans r2).trans r3).mono ?_ ?_).cast ?_
  · pcarith h
  · simp
  · subst hs2 hs1
    exact St.jmp_congr _ (by pcarith h) rfl

/-- `GenerateShortCircuit`, the arm decides (`and`: falsy, `or`: truthy): the `br` after the
`dup` lands exactly behind the whole form, the duplicated value is the result. -/
theorem pushes_sc_stop {isOr : Bool} {c rest : List Instr} {v : Val} (hc : Pushes c v)
    (hv : truthy v = isOr) :
    Pushes (c ++ [.dup, .branch isOr (rest.length + 2), .pop] ++ rest) v := by
  intro s pre post h
  have r1 := hc s pre _ (h.refocus (c' := c)
    (post' := [.dup, .branch isOr (rest.length + 2), .pop] ++ rest ++ post) (by simp))
  generalize hs1 : s.jmp (s.pc + c.length) (some v :: s.data) = s1 at r1
  have a2 : At s1 (pre ++ c) .dup ([.branch isOr (rest.length + 2), .pop] ++ rest ++ post) := by
    subst hs1; exact ⟨h.user, by rw [fnOf_jmp, St.jmp_curfunc, h.code]; simp, by pcarith h⟩
  have r2 := reach_dup a2 (v := v) (rest := s.data) (by subst hs1; rfl)
  generalize hs2 : s1.jmp (s1.pc + 1) (some v :: s1.data) = s2 at r2
  have a3 : At s2 (pre ++ c ++ [.dup]) (.branch isOr (rest.length + 2)) ([.pop] ++ rest ++ post) := by
    subst hs2 hs1; exact ⟨h.user, by simp [h.code], by pcarith h⟩
  have r3 := reach_branch_taken a3 (v := v) (rest := some v :: s.data) (by subst hs2 hs1; rfl) hv.symm
    (by subst hs2 hs1; pcarith h) (by subst hs2 hs1; pcarith h)
  refine (((r1.trans r2).trans r3).mono ?_ ?_).cast ?_
  · pcarith h
  · simp
  · subst hs2 hs1
    exact St.jmp_congr _ (by pcarith h) rfl

/-- `GenerateShortCircuit`, the arm does not decide: fall through the `br`, `pop` the copy,
go on with the remaining arms. -/
theorem pushes_sc_go {isOr : Bool} {c rest : List Instr} {v w : Val} (hc : Pushes c v)
    (hv : truthy v ≠ isOr) (hr : Pushes rest w) :
    Pushes (c ++ [.dup, .branch isOr (rest.length + 2), .pop] ++ rest) w := by
  intro s pre post h
  have r1 := hc s pre _ (h.refocus (c' := c)
    (post' := [.dup, .branch isOr (rest.length + 2), .pop] ++ rest ++ post) (by simp))
  generalize hs1 : s.jmp (s.pc + c.length) (some v :: s.data) = s1 at r1
  have a2 : At s1 (pre ++ c) .dup ([.branch isOr (rest.length + 2), .pop] ++ rest ++ post) := by
    subst hs1; exact ⟨h.user, by rw [fnOf_jmp, St.jmp_curfunc, h.code]; simp, by pcarith h⟩
  have r2 := reach_dup a2 (v := v) (rest := s.data) (by subst hs1; rfl)
  generalize hs2 : s1.jmp (s1.pc + 1) (some v :: s1.data) = s2 at r2
  have a3 : At s2 (pre ++ c ++ [.dup]) (.branch isOr (rest.length + 2)) ([.pop] ++ rest ++ post) := by
    subst hs2 hs1; exact ⟨h.user, by simp [h.code], by pcarith h⟩
  have r3 := reach_branch_fall a3 (v := v) (rest := some v :: s.data) (by subst hs2 hs1; rfl)
    (fun e => hv e.symm)
  generalize hs3 : s2.jmp (s2.pc + 1) (some v :: s.data) = s3 at r3
  have a4 : At s3 (pre ++ c ++ [.dup, .branch isOr (rest.length + 2)]) .pop (rest ++ post) := by
    subst hs3 hs2 hs1; exact ⟨h.user, by simp [h.code], by pcarith h⟩
  have r4 := reach_pop a4 (v := v) (rest := s.data) (by subst hs3 hs2 hs1; rfl)
  generalize hs4 : s3.jmp (s3.pc + 1) s.data = s4 at r4
  have h5 : Seg s4 (pre ++ c ++ [.dup, .branch isOr (rest.length + 2), .pop]) rest post := by
    subst hs4 hs3 hs2 hs1; exact h.jmp _ _ (by simp) (by pcarith h)
  have r5 := hr _ _ _ h5
  refine (((((r1.trans r2).trans r3).trans r4).trans r5).mono ?_ ?_).cast ?_
  · pcarith h
  · simp
  · subst hs4 hs3 hs2 hs1
    exact St.jmp_congr _ (by pcarith h) rfl

end ZygoVerif.Sim
