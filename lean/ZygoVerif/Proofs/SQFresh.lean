/-
Lemmas behind the freshness theorems of Props/C15:

* `genSQ_plain` … — the code of a template never pushes a value that holds an array or a
  hash: the only `PushInstr{expr}` of a container would be the literal object of the syntax
  tree, shared by all evaluations.
* `itemsA_ok` … — the marker discipline of `Proofs/SQ.lean` once more, on the machine that
  also reports its allocations (`runA`): the code of a template element pushes its items and
  allocates exactly the containers `Subst.built` lists — one `vectorize` / `hashize` per
  array / hash sub-template, innermost first.
-/
import ZygoVerif.Model.SQ
import ZygoVerif.Spec.Subst
import ZygoVerif.Proofs.SQ
namespace ZygoVerif.SQ
open ZygoVerif.Subst

/-! ### no container is pushed as a literal -/

/-- every value the code pushes with `PushInstr` is free of arrays and hashes -/
def PushesPlain (c : List Instr) : Prop := ∀ v, Instr.push v ∈ c → hasContainer v = false

theorem pushesPlain_nil : PushesPlain [] := by
  intro v h; simp at h

theorem pushesPlain_append {a b : List Instr} (ha : PushesPlain a) (hb : PushesPlain b) :
    PushesPlain (a ++ b) := by
  intro v h
  rcases List.mem_append.mp h with h | h
  · exact ha v h
  · exact hb v h

theorem pushesPlain_cons {i : Instr} {a : List Instr} (hi : ∀ v, i = .push v → hasContainer v = false)
    (ha : PushesPlain a) : PushesPlain (i :: a) := by
  intro v h
  rcases List.mem_cons.mp h with h | h
  · exact hi v h.symm
  · exact ha v h

theorem pushesPlain_frame {a : List Instr} (ha : PushesPlain a) (tl : List Instr)
    (htl : PushesPlain tl) : PushesPlain (Instr.marker :: a ++ tl) := by
  apply pushesPlain_cons (by intro v h; cases h)
  exact pushesPlain_append ha htl

theorem plain_sq : PushesPlain [Instr.squash] := by
  intro v h; simp at h
theorem plain_sqx : PushesPlain [Instr.squash, Instr.explode] := by
  intro v h; simp at h
theorem plain_vec : PushesPlain [Instr.vectorize] := by
  intro v h; simp at h
theorem plain_hz (ty : String) : PushesPlain [Instr.hashize ty] := by
  intro v h; simp at h

mutual
theorem genSQ_plain (H : Host) : (t : Tmpl) → t.WF = true → ∀ c, genSQ H t.toSexp = some c → PushesPlain c
  | .lit a, _, c, hc => by
    simp only [Tmpl.toSexp, genSQ, Option.some.injEq] at hc
    subst hc
    intro v h
    simp only [List.mem_singleton, Instr.push.injEq] at h
    subst h; rfl
  | .unquote e, _, c, hc => by
    simp only [Tmpl.toSexp, genSQ, isList, unqKind] at hc
    cases hg : H.genOK e <;> simp [hg] at hc
    subst hc
    intro v h; simp at h
  | .splice e, _, c, hc => by
    simp only [Tmpl.toSexp, genSQ, isList, unqKind] at hc
    cases hg : H.genOK e <;> simp [hg] at hc
    subst hc
    intro v h; simp at h
  | .list [], _, c, hc => by
    simp only [Tmpl.toSexp, toSexpL, genSQ, Option.some.injEq] at hc
    subst hc
    intro v h
    simp only [List.mem_singleton, Instr.push.injEq] at h
    subst h; rfl
  | .list (t1 :: rest), wf, c, hc => by
    simp only [Tmpl.WF, wfL, Bool.and_eq_true, Bool.not_eq_true'] at wf
    have hk := unqKind_none t1 rest wf.1
    simp only [Tmpl.toSexp, toSexpL, genSQ, toSexpL_isList, hk, Bool.not_true, Bool.false_eq_true,
      if_false] at hc
    cases ha : genSQ H t1.toSexp with
    | none => simp [ha] at hc
    | some a =>
      cases hb : genListBody H (toSexpL rest) with
      | none => simp [ha, hb] at hc
      | some b =>
        simp only [ha, hb, Option.bind_eq_bind, Option.bind_some, Option.some.injEq] at hc
        subst hc
        have h1 := genSQ_plain H t1 wf.2.1 a ha
        have h2 := genListBody_plain H rest wf.2.2 b hb
        have := pushesPlain_frame (pushesPlain_append h1 h2) _ plain_sq
        simpa [List.append_assoc] using this
  | .arr ts, wf, c, hc => by
    simp only [Tmpl.WF] at wf
    simp only [Tmpl.toSexp, genSQ] at hc
    cases hb : genArrBody H (toSexpL ts) with
    | none => simp [hb] at hc
    | some b =>
      simp only [hb, Option.bind_eq_bind, Option.bind_some, Option.some.injEq] at hc
      subst hc
      exact pushesPlain_frame (genArrBody_plain H ts wf b hb) _ plain_vec
  | .hash ty kvs, wf, c, hc => by
    simp only [Tmpl.WF] at wf
    simp only [Tmpl.toSexp, genSQ] at hc
    cases hb : genHashBody H (toSexpKV kvs) with
    | none => simp [hb] at hc
    | some b =>
      simp only [hb, Option.bind_eq_bind, Option.bind_some, Option.some.injEq] at hc
      subst hc
      exact pushesPlain_frame (genHashBody_plain H kvs wf b hb) _ (plain_hz ty)
theorem genListBody_plain (H : Host) : (ts : List Tmpl) → wfL ts = true →
    ∀ c, genListBody H (toSexpL ts) = some c → PushesPlain c
  | [], _, c, hc => by
    simp only [toSexpL, genListBody, Option.some.injEq] at hc
    subst hc; exact pushesPlain_nil
  | t :: ts, wf, c, hc => by
    simp only [wfL, Bool.and_eq_true] at wf
    simp only [toSexpL, genListBody] at hc
    cases ha : genSQ H t.toSexp with
    | none => simp [ha] at hc
    | some a =>
      cases hb : genListBody H (toSexpL ts) with
      | none => simp [ha, hb] at hc
      | some b =>
        simp only [ha, hb, Option.bind_eq_bind, Option.bind_some, Option.some.injEq] at hc
        subst hc
        exact pushesPlain_append (genSQ_plain H t wf.1 a ha) (genListBody_plain H ts wf.2 b hb)
theorem genArrBody_plain (H : Host) : (ts : List Tmpl) → wfL ts = true →
    ∀ c, genArrBody H (toSexpL ts) = some c → PushesPlain c
  | [], _, c, hc => by
    simp only [toSexpL, genArrBody, Option.some.injEq] at hc
    subst hc; exact pushesPlain_nil
  | t :: ts, wf, c, hc => by
    simp only [wfL, Bool.and_eq_true] at wf
    simp only [toSexpL, genArrBody] at hc
    cases ha : genSQ H t.toSexp with
    | none => simp [ha] at hc
    | some a =>
      cases hb : genArrBody H (toSexpL ts) with
      | none => simp [ha, hb] at hc
      | some b =>
        simp only [ha, hb, Option.bind_eq_bind, Option.bind_some, Option.some.injEq] at hc
        subst hc
        have := pushesPlain_append (pushesPlain_frame (genSQ_plain H t wf.1 a ha) _ plain_sqx)
          (genArrBody_plain H ts wf.2 b hb)
        simpa [List.append_assoc] using this
theorem genHashBody_plain (H : Host) : (kvs : List (Tmpl × Tmpl)) → wfKV kvs = true →
    ∀ c, genHashBody H (toSexpKV kvs) = some c → PushesPlain c
  | [], _, c, hc => by
    simp only [toSexpKV, genHashBody, Option.some.injEq] at hc
    subst hc; exact pushesPlain_nil
  | (k, v) :: r, wf, c, hc => by
    simp only [wfKV, Bool.and_eq_true] at wf
    simp only [toSexpKV, genHashBody] at hc
    cases hk : genSQ H k.toSexp with
    | none => simp [hk] at hc
    | some fk =>
      cases hv : genSQ H v.toSexp with
      | none => simp [hk, hv] at hc
      | some fv =>
        cases hr : genHashBody H (toSexpKV r) with
        | none => simp [hk, hv, hr] at hc
        | some rr =>
          simp only [hk, hv, hr, Option.bind_eq_bind, Option.bind_some, Option.some.injEq] at hc
          subst hc
          have := pushesPlain_append
            (pushesPlain_append (pushesPlain_frame (genSQ_plain H k wf.1.1 fk hk) _ plain_sqx)
              (pushesPlain_frame (genSQ_plain H v wf.1.2 fv hv) _ plain_sqx))
            (genHashBody_plain H r wf.2 rr hr)
          simpa [List.append_assoc] using this
end

/-! ### the allocating machine -/

/-- run the code, if any, on the allocating machine -/
def execA (H : Host) (c : Option (List Instr)) (st : Stack) : Option (Stack × List Sexp) :=
  c.bind (fun c => runA H c st)

theorem stepA_fst (H : Host) (i : Instr) (st : Stack) :
    (stepA H i st).map (·.1) = step H i st := by
  cases i with
  | vectorize =>
    simp only [stepA, step]
    cases popToMarker st <;> simp
  | hashize ty =>
    simp only [stepA, step]
    cases hp : popToMarker st with
    | none => simp
    | some p => cases hm : H.mkHash ty p.1.reverse <;> simp [hm]
  | push v => simp [stepA, step]
  | marker => simp [stepA, step]
  | eval e => simp only [stepA]; cases step H (.eval e) st <;> simp
  | explode => simp only [stepA]; cases step H .explode st <;> simp
  | squash => simp only [stepA]; cases step H .squash st <;> simp

/-- Forgetting the allocation report gives back the machine of `Model/SQ.lean`. -/
theorem runA_fst (H : Host) (c : List Instr) (st : Stack) :
    (runA H c st).map (·.1) = run H c st := by
  induction c generalizing st with
  | nil => simp [runA, run]
  | cons i is ih =>
    simp only [runA, run, ← stepA_fst H i st]
    cases hs : stepA H i st with
    | none => simp
    | some p =>
      simp only [Option.bind_some, Option.map_some]
      rw [← ih p.1]
      cases runA H is p.1 <;> simp

theorem runA_append (H : Host) (a b : List Instr) (st : Stack) :
    runA H (a ++ b) st
      = (runA H a st).bind (fun p => (runA H b p.1).map (fun q => (q.1, p.2 ++ q.2))) := by
  induction a generalizing st with
  | nil =>
    simp only [List.nil_append, runA, Option.bind_some, List.nil_append]
    cases runA H b st <;> simp
  | cons i is ih =>
    simp only [List.cons_append, runA]
    cases stepA H i st with
    | none => simp
    | some p =>
      simp only [Option.bind_some, ih]
      cases runA H is p.1 with
      | none => simp
      | some q =>
        simp only [Option.bind_some, Option.map_some]
        cases runA H b q.1 <;> simp [List.append_assoc]

/-- what a piece of code is expected to do: the items it pushes, the containers it allocates -/
abbrev Res := Option (List Sexp × List Sexp)

/-- `c` pushes the items and allocates the containers of `r`, on every stack; it fails
exactly when `r` is undefined -/
def Pushes (H : Host) (c : Option (List Instr)) (r : Res) : Prop :=
  ∀ st, execA H c st = r.map (fun p => (pushAll p.1 st, p.2))

def seqR (a b : Res) : Res := a.bind (fun p => b.map (fun q => (p.1 ++ q.1, p.2 ++ q.2)))

theorem pushes_seq (H : Host) (ca cb : Option (List Instr)) (ra rb : Res)
    (ha : Pushes H ca ra) (hb : Pushes H cb rb) :
    Pushes H (do let a ← ca; let b ← cb; some (a ++ b)) (seqR ra rb) := by
  intro st
  cases ca with
  | none =>
    have := ha st
    cases ra with
    | none => simp [execA, seqR]
    | some p => simp [execA] at this
  | some a =>
    cases cb with
    | none =>
      have h2 := hb
      cases rb with
      | none =>
        cases ra <;> simp [execA, seqR]
      | some q => have := h2 st; simp [execA] at this
    | some b =>
      have h1 := ha st
      simp only [execA, Option.bind_eq_bind, Option.bind_some] at h1 ⊢
      rw [runA_append, h1]
      cases ra with
      | none => simp [seqR]
      | some p =>
        have h2 := hb (pushAll p.1 st)
        simp only [execA, Option.bind_some] at h2
        simp only [Option.map_some, Option.bind_some, h2, seqR]
        cases rb with
        | none => simp
        | some q => simp [pushAll_append]

theorem runA_frame_tail (H : Host) (xs : List Sexp) (st : Stack) :
    runA H [.squash, .explode] (pushAll xs (.marker :: st)) = some (pushAll xs st, []) := by
  simp [runA, stepA, step, popToMarker_pushAll, listToArray_mkList]

theorem runA_marker_frame (H : Host) (a tl : List Instr) (st : Stack) :
    runA H (.marker :: a ++ tl) st
      = (runA H a (.marker :: st)).bind (fun p => (runA H tl p.1).map (fun q => (q.1, p.2 ++ q.2))) := by
  simp only [List.cons_append, runA, stepA, step, Option.map_some, Option.bind_some, runA_append]
  cases runA H a (Elem.marker :: st) with
  | none => simp
  | some p => simp [Function.comp_def]

/-- marker; code; squash; explode -/
theorem pushes_frame (H : Host) (c : Option (List Instr)) (r : Res) (h : Pushes H c r) :
    Pushes H (c.map (fun a => .marker :: a ++ [.squash, .explode])) r := by
  intro st
  cases c with
  | none =>
    have := h st
    cases r with
    | none => rfl
    | some p => simp [execA] at this
  | some a =>
    have h1 := h (.marker :: st)
    simp only [execA, Option.bind_some, Option.map_some] at h1 ⊢
    rw [runA_marker_frame, h1]
    cases r with
    | none => rfl
    | some p => simp [runA_frame_tail]

/-- marker; code; squash -/
theorem pushes_list_frame (H : Host) (c : Option (List Instr)) (r : Res) (h : Pushes H c r) :
    Pushes H (c.map (fun a => .marker :: a ++ [.squash])) (r.map (fun p => ([mkList p.1], p.2))) := by
  intro st
  cases c with
  | none =>
    have := h st
    cases r with
    | none => rfl
    | some p => simp [execA] at this
  | some a =>
    have h1 := h (.marker :: st)
    simp only [execA, Option.bind_some, Option.map_some] at h1 ⊢
    simp only [runA, stepA, step, Option.map_some, Option.bind_some, runA_append, h1]
    cases r with
    | none => rfl
    | some p => simp [popToMarker_pushAll, pushAll_single]

/-- marker; code; vectorize — one allocation, after those of the elements -/
theorem pushes_vec_frame (H : Host) (c : Option (List Instr)) (r : Res) (h : Pushes H c r) :
    Pushes H (c.map (fun a => .marker :: a ++ [.vectorize]))
      (r.map (fun p => ([.arr (mkList p.1)], p.2 ++ [.arr (mkList p.1)]))) := by
  intro st
  cases c with
  | none =>
    have := h st
    cases r with
    | none => rfl
    | some p => simp [execA] at this
  | some a =>
    have h1 := h (.marker :: st)
    simp only [execA, Option.bind_some, Option.map_some] at h1 ⊢
    simp only [runA, stepA, step, Option.map_some, Option.bind_some, runA_append, h1]
    cases r with
    | none => rfl
    | some p => simp [popToMarker_pushAll, pushAll_single]

/-- marker; code; hashize -/
theorem pushes_hash_frame (H : Host) (ty : String) (c : Option (List Instr)) (r : Res) (h : Pushes H c r) :
    Pushes H (c.map (fun a => .marker :: a ++ [.hashize ty]))
      (r.bind (fun p => (H.mkHash ty p.1).map (fun hh => ([hh], p.2 ++ [hh])))) := by
  intro st
  cases c with
  | none =>
    have := h st
    cases r with
    | none => rfl
    | some p => simp [execA] at this
  | some a =>
    have h1 := h (.marker :: st)
    simp only [execA, Option.bind_some, Option.map_some] at h1 ⊢
    simp only [runA, stepA, step, Option.map_some, Option.bind_some, runA_append, h1]
    cases r with
    | none => rfl
    | some p =>
      simp only [Option.map_some, Option.bind_some, popToMarker_pushAll, List.reverse_reverse]
      cases H.mkHash ty p.1 <;> simp [pushAll_single]

/-! ### items and allocations of a template (spec side), paired -/

def IB (ρ : Binding) (t : Tmpl) : Res := (items ρ t).bind (fun xs => (built ρ t).map (fun b => (xs, b)))
def IBL (ρ : Binding) (ts : List Tmpl) : Res := (itemsL ρ ts).bind (fun xs => (builtL ρ ts).map (fun b => (xs, b)))
def IBKV (ρ : Binding) (kvs : List (Tmpl × Tmpl)) : Res :=
  (itemsKV ρ kvs).bind (fun xs => (builtKV ρ kvs).map (fun b => (xs, b)))

theorem IBL_nil (ρ : Binding) : IBL ρ [] = some ([], []) := by simp [IBL, itemsL, builtL]
theorem IBKV_nil (ρ : Binding) : IBKV ρ [] = some ([], []) := by simp [IBKV, itemsKV, builtKV]

theorem IBL_cons (ρ : Binding) (t : Tmpl) (ts : List Tmpl) :
    IBL ρ (t :: ts) = seqR (IB ρ t) (IBL ρ ts) := by
  simp only [IBL, IB, itemsL, builtL, seqR]
  cases items ρ t <;> cases itemsL ρ ts <;> cases built ρ t <;> cases builtL ρ ts <;> simp

theorem IBKV_cons (ρ : Binding) (k v : Tmpl) (r : List (Tmpl × Tmpl)) :
    IBKV ρ ((k, v) :: r) = seqR (IB ρ k) (seqR (IB ρ v) (IBKV ρ r)) := by
  simp only [IBKV, IB, itemsKV, builtKV, seqR]
  cases items ρ k <;> cases items ρ v <;> cases itemsKV ρ r <;> cases built ρ k <;> cases built ρ v <;>
    cases builtKV ρ r <;> simp [List.append_assoc]

theorem IB_list (ρ : Binding) (ts : List Tmpl) :
    IB ρ (.list ts) = (IBL ρ ts).map (fun p => ([mkList p.1], p.2)) := by
  simp only [IB, IBL, items, built, ofList_eq]
  cases itemsL ρ ts <;> cases builtL ρ ts <;> simp

theorem IB_arr (ρ : Binding) (ts : List Tmpl) :
    IB ρ (.arr ts) = (IBL ρ ts).map (fun p => ([.arr (mkList p.1)], p.2 ++ [.arr (mkList p.1)])) := by
  simp only [IB, IBL, items, built, ofList_eq]
  cases itemsL ρ ts <;> cases builtL ρ ts <;> simp

theorem IB_hash (ρ : Binding) (ty : String) (kvs : List (Tmpl × Tmpl)) :
    IB ρ (.hash ty kvs)
      = (IBKV ρ kvs).bind (fun p => (ρ.mkHash ty p.1).map (fun hh => ([hh], p.2 ++ [hh]))) := by
  simp only [IB, IBKV, items, built]
  cases hi : itemsKV ρ kvs with
  | none => simp
  | some xs =>
    cases hb : builtKV ρ kvs with
    | none => cases ρ.mkHash ty xs <;> simp
    | some b => cases hm : ρ.mkHash ty xs <;> simp [hm]

theorem list_shapeA (ca cb : Option (List Instr)) :
    (do let a ← ca; let b ← cb; some (Instr.marker :: a ++ b ++ [Instr.squash]))
      = (do let a ← ca; let b ← cb; some (a ++ b)).map (fun x => Instr.marker :: x ++ [Instr.squash]) :=
  list_shape ca cb

mutual
/-- **Marker discipline with allocations.** -/
theorem itemsA_ok (H : Host) : (t : Tmpl) → t.WF = true → Pushes H (genSQ H t.toSexp) (IB (toBinding H) t)
  | .lit a, _ => by
    intro st
    simp [Tmpl.toSexp, genSQ, IB, items, built, execA, runA, stepA, step, pushAll_single]
  | .unquote e, _ => by
    intro st
    simp only [Tmpl.toSexp, genSQ, isList, unqKind, IB, items, built, toBinding]
    cases hg : H.genOK e
    · simp [execA, hg]
    · cases he : H.eval e <;> simp [execA, runA, stepA, step, he, hg, pushAll_single]
  | .splice e, _ => by
    intro st
    simp only [Tmpl.toSexp, genSQ, isList, unqKind, IB, items, built, toBinding]
    cases hg : H.genOK e
    · simp [execA, hg]
    · cases he : H.eval e
      · simp [execA, runA, stepA, step, he, hg]
      · rename_i v
        cases hl : listToArray v <;> simp [execA, runA, stepA, step, he, hg, hl, elems_eq]
  | .list [], _ => by
    intro st
    simp [Tmpl.toSexp, toSexpL, genSQ, IB, items, itemsL, built, builtL, ofList, execA, runA, stepA, step,
      pushAll_single]
  | .list (t1 :: rest), wf => by
    simp only [Tmpl.WF, wfL, Bool.and_eq_true, Bool.not_eq_true'] at wf
    have h1 := itemsA_ok H t1 wf.2.1
    have h2 := itemsLA_ok H rest wf.2.2
    have hk := unqKind_none t1 rest wf.1
    simp only [Tmpl.toSexp, toSexpL, genSQ, toSexpL_isList, hk, list_shape, Bool.not_true,
      Bool.false_eq_true, if_false]
    rw [IB_list, IBL_cons]
    exact pushes_list_frame H _ _ (pushes_seq H _ _ _ _ h1 h2)
  | .arr ts, wf => by
    simp only [Tmpl.WF] at wf
    have h := arrLA_ok H ts wf
    simp only [Tmpl.toSexp, genSQ]
    have : (do let b ← genArrBody H (toSexpL ts); some (Instr.marker :: b ++ [Instr.vectorize]))
        = (genArrBody H (toSexpL ts)).map (fun a => .marker :: a ++ [.vectorize]) := by
      cases genArrBody H (toSexpL ts) <;> simp
    rw [this, IB_arr]
    exact pushes_vec_frame H _ _ h
  | .hash ty kvs, wf => by
    simp only [Tmpl.WF] at wf
    have h := kvA_ok H kvs wf
    simp only [Tmpl.toSexp, genSQ]
    have : (do let b ← genHashBody H (toSexpKV kvs); some (Instr.marker :: b ++ [Instr.hashize ty]))
        = (genHashBody H (toSexpKV kvs)).map (fun a => .marker :: a ++ [.hashize ty]) := by
      cases genHashBody H (toSexpKV kvs) <;> simp
    rw [this, IB_hash]
    exact pushes_hash_frame H ty _ _ h
theorem itemsLA_ok (H : Host) : (ts : List Tmpl) → wfL ts = true →
    Pushes H (genListBody H (toSexpL ts)) (IBL (toBinding H) ts)
  | [], _ => by
    intro st
    simp [toSexpL, genListBody, IBL_nil, execA, runA, pushAll]
  | t :: ts, wf => by
    simp only [wfL, Bool.and_eq_true] at wf
    simp only [toSexpL, genListBody, IBL_cons]
    exact pushes_seq H _ _ _ _ (itemsA_ok H t wf.1) (itemsLA_ok H ts wf.2)
theorem arrLA_ok (H : Host) : (ts : List Tmpl) → wfL ts = true →
    Pushes H (genArrBody H (toSexpL ts)) (IBL (toBinding H) ts)
  | [], _ => by
    intro st
    simp [toSexpL, genArrBody, IBL_nil, execA, runA, pushAll]
  | t :: ts, wf => by
    simp only [wfL, Bool.and_eq_true] at wf
    simp only [toSexpL, genArrBody, arr_shape, IBL_cons]
    exact pushes_seq H _ _ _ _ (pushes_frame H _ _ (itemsA_ok H t wf.1)) (arrLA_ok H ts wf.2)
theorem kvA_ok (H : Host) : (kvs : List (Tmpl × Tmpl)) → wfKV kvs = true →
    Pushes H (genHashBody H (toSexpKV kvs)) (IBKV (toBinding H) kvs)
  | [], _ => by
    intro st
    simp [toSexpKV, genHashBody, IBKV_nil, execA, runA, pushAll]
  | (k, v) :: r, wf => by
    simp only [wfKV, Bool.and_eq_true] at wf
    simp only [toSexpKV, genHashBody, hash_shape, IBKV_cons]
    exact pushes_seq H _ _ _ _ (pushes_frame H _ _ (itemsA_ok H k wf.1.1))
      (pushes_seq H _ _ _ _ (pushes_frame H _ _ (itemsA_ok H v wf.1.2)) (kvA_ok H r wf.2))
end

end ZygoVerif.SQ
