/-
The code generator of the model (`Model/Gen.lean`) only *extends* the function table: every
`compile…` function is `GenOK` — it leaves the live stack alone, never changes the captured
stack or the parent of an existing function object, and gives a new template a captured
stack drawn from the live stack (`NewClosing`). Discharges the hypothesis of `allSafe`.
-/
import ZygoVerif.Proofs.ScopeInv
namespace ZygoVerif.Scope
open ZygoVerif.Core ZygoVerif.VM

/-! ## Running the generator monad -/

theorem grun_pure {α} (a : α) (gs : GS) : (pure a : G α).run gs = .ok (a, gs) := rfl
theorem grun_bind {α β} (m : G α) (f : α → G β) (gs : GS) :
    (m >>= f).run gs = match m.run gs with
      | .ok (a, gs') => (f a).run gs'
      | .error e => .error e := by
  show (StateT.bind m f) gs = _
  simp only [StateT.bind, bind, Except.bind, StateT.run]
  cases m gs with
  | error e => rfl
  | ok p => rfl
theorem grun_get (gs : GS) : (get : G GS).run gs = .ok (gs, gs) := rfl
theorem grun_set (gs gs' : GS) : (set gs' : G Unit).run gs = .ok ((), gs') := rfl
theorem grun_modify (f : GS → GS) (gs : GS) : (modify f : G Unit).run gs = .ok ((), f gs) := rfl
theorem grun_throw {α} (gs : GS) : (throw () : G α).run gs = .error () := rfl

def GenOKAt {α} (gs : GS) (g : G α) : Prop :=
  ∀ a gs', g.run gs = .ok (a, gs') → gs'.live = gs.live ∧ FnsExt gs.live gs.fns gs'.fns

theorem genOK_iff {α} (g : G α) : GenOK g ↔ ∀ gs, GenOKAt gs g :=
  ⟨fun h gs a gs' hr => h gs a gs' hr, fun h gs a gs' hr => h gs a gs' hr⟩

theorem genOK_pure {α} (a : α) : GenOK (pure a : G α) := by
  intro gs a' gs' h
  rw [grun_pure] at h
  simp only [Except.ok.injEq, Prod.mk.injEq] at h
  rw [← h.2]
  exact ⟨rfl, FnsExt.refl _ _⟩

theorem genOK_throw {α} : GenOK (throw () : G α) := by
  intro gs a gs' h
  rw [grun_throw] at h
  cases h

theorem genOK_get : GenOK (get : G GS) := by
  intro gs a gs' h
  rw [grun_get] at h
  simp only [Except.ok.injEq, Prod.mk.injEq] at h
  rw [← h.2]
  exact ⟨rfl, FnsExt.refl _ _⟩

theorem genOK_bind {α β} {m : G α} {f : α → G β} (hm : GenOK m) (hf : ∀ a, GenOK (f a)) : GenOK (m >>= f) := by
  intro gs b gs2 h
  rw [grun_bind] at h
  split at h
  · rename_i a gs1 h1
    obtain ⟨hl1, he1⟩ := hm gs a gs1 h1
    obtain ⟨hl2, he2⟩ := hf a gs1 b gs2 h
    rw [hl1] at he2
    exact ⟨hl2.trans hl1, he1.trans he2⟩
  · cases h

/-- After `get` the bound value is the current state. -/
theorem genOK_get_bind {β} {f : GS → G β} (hf : ∀ gs, GenOKAt gs (f gs)) : GenOK (get >>= f) := by
  intro gs b gs2 h
  rw [grun_bind, grun_get] at h
  exact hf gs b gs2 h

theorem genOK_ite {α} {c : Prop} [Decidable c] {a b : G α} (ha : GenOK a) (hb : GenOK b) :
    GenOK (if c then a else b) := by
  split <;> assumption

/-- An update of the loop tables only. -/
theorem genOK_modify_loops (f : GS → GS) (h : ∀ gs, (f gs).fns = gs.fns ∧ (f gs).live = gs.live) : GenOK (modify f) := by
  intro gs a gs' hr
  rw [grun_modify] at hr
  simp only [Except.ok.injEq, Prod.mk.injEq] at hr
  rw [← hr.2, (h gs).1, (h gs).2]
  exact ⟨rfl, FnsExt.refl _ _⟩

/-! ## `NewClosing` draws from the live stack -/

theorem idsOf_takeToBoundary_sub (isFn : Nat → Bool) (l : List (Option Nat)) :
    ∀ id ∈ idsOf (takeToBoundary isFn l), id ∈ idsOf l := by
  induction l with
  | nil => simp [takeToBoundary]
  | cons o rest ih =>
    intro id hid
    simp only [takeToBoundary] at hid
    split at hid
    · cases o <;> simp_all [idsOf]
    · cases o with
      | none => simp only [idsOf] at hid ⊢; exact ih id hid
      | some j =>
        simp only [idsOf, List.mem_cons] at hid ⊢
        rcases hid with h | h
        · exact Or.inl h
        · exact Or.inr (ih id h)

theorem idsOf_newClosing_sub (isFn : Nat → Bool) (live : List (Option Nat)) :
    ∀ id ∈ idsOf (newClosing isFn live), id ∈ idsOf live := by
  intro id hid
  rw [newClosing_eq] at hid
  split at hid
  · exact idsOf_takeToBoundary_sub isFn live id hid
  · exact hid

/-! ## Templates -/

theorem genOK_allocTemplate (isFn : Nat → Bool) (c : Ctx) (name : String) (ps : List String) (rest : Option String)
    (selfTail : Bool) : GenOK (allocTemplate isFn c name ps rest selfTail) := by
  unfold allocTemplate
  apply genOK_get_bind
  intro gs a gs' h
  simp only [grun_bind, grun_set, grun_pure, Except.ok.injEq, Prod.mk.injEq] at h
  rw [← h.2]
  refine ⟨rfl, ⟨by simp, fun i hi => ?_, fun f hf => ?_⟩⟩
  · simp only [fnOf_append_lt VM.initSt gs.fns _ i hi, and_self]
  · rcases List.mem_append.mp hf with hf | hf
    · exact Or.inl ⟨f, hf, rfl⟩
    · simp only [List.mem_singleton] at hf
      subst hf
      exact Or.inr (idsOf_newClosing_sub isFn gs.live)

theorem genOK_finishTemplate (t : Nat) (b : List Instr) : GenOK (finishTemplate t b) := by
  unfold finishTemplate
  intro gs a gs' h
  rw [grun_modify] at h
  simp only [Except.ok.injEq, Prod.mk.injEq] at h
  rw [← h.2]
  refine ⟨rfl, ⟨by simp, fun i _ => ?_, fun f hf => ?_⟩⟩
  · by_cases hi : i = t
    · subst hi
      by_cases hl : i < gs.fns.length
      · simp [List.getD_eq_getElem?_getD, hl]
      · rw [List.set_eq_of_length_le (by omega)]
        exact ⟨rfl, rfl⟩
    · simp [List.getD_eq_getElem?_getD, List.getElem?_set_ne (Ne.symm hi)]
  · rcases List.mem_or_eq_of_mem_set hf with hf | hf
    · exact Or.inl ⟨f, hf, rfl⟩
    · subst hf
      rcases getD_mem_or_default gs.fns t {} with hm | hd
      · exact Or.inl ⟨_, hm, rfl⟩
      · refine Or.inr ?_
        rw [hd]
        intro id hid
        simp [idsOf] at hid

/-! ## Every `compile…` function is `GenOK` -/

macro "gen_step" : tactic => `(tactic| first
  | split
  | with_reducible (first
    | exact genOK_pure _ | exact genOK_throw | exact genOK_get
    | exact genOK_allocTemplate _ _ _ _ _ _ | exact genOK_finishTemplate _ _
    | assumption
    | refine genOK_bind ?_ (fun _ => ?_)))

syntax "gen_auto" "[" term,* "]" : tactic
macro_rules
  | `(tactic| gen_auto [$hs,*]) => `(tactic| repeat' (first | gen_step $[| with_reducible exact $hs]* | (dsimp only; gen_step)))

mutual
theorem genOK_compile (isFn : Nat → Bool) : ∀ (e : Expr) (c : Ctx), GenOK (compile isFn c e)
  | .int v, c => by unfold compile; exact genOK_pure _
  | .bool b, c => by unfold compile; exact genOK_pure _
  | .str s, c => by unfold compile; exact genOK_pure _
  | .nilLit, c => by unfold compile; exact genOK_pure _
  | .sym x, c => by unfold compile; exact genOK_pure _
  | .arr es, c => by
    unfold compile
    gen_auto [genOK_compileAll isFn es _]
  | .call f args, c => by
    cases f <;> (unfold compile; gen_auto [genOK_compileCallArgs isFn args _ _ _])
  | .begin_ es, c => by
    cases es with
    | nil => unfold compile; exact genOK_pure _
    | cons e es => unfold compile; exact genOK_compileBegin isFn (e :: es) c
  | .def_ x e, c => by unfold compile; gen_auto [genOK_compile isFn e _]
  | .set_ x e, c => by unfold compile; gen_auto [genOK_compile isFn e _]
  | .cond arms d, c => by unfold compile; gen_auto [genOK_compile isFn d _, genOK_compileArms isFn arms _]
  | .and_ es, c => by unfold compile; gen_auto [genOK_compileSC isFn es _]
  | .or_ es, c => by unfold compile; gen_auto [genOK_compileSC isFn es _]
  | .let_ seq bs body, c => by
    unfold compile; gen_auto [genOK_compileBinds isFn bs _ _, genOK_compileBegin isFn body _]
  | .newScope es, c => by unfold compile; gen_auto [genOK_compileNewScope isFn es _ _]
  | .for_ label init test incr body, c => by
    unfold compile
    have hinner : ∀ sub : Ctx, GenOK (do
        let (b, _) ← compileBegin isFn sub body
        let (i, _) ← compile isFn sub init
        let (t, _) ← compile isFn sub test
        let (s, _) ← compile isFn sub incr
        pure (b, i, t, s) : G (List Instr × List Instr × List Instr × List Instr)) := by
      intro sub
      gen_auto [genOK_compileBegin isFn body _, genOK_compile isFn init _, genOK_compile isFn test _,
        genOK_compile isFn incr _]
    apply genOK_get_bind
    intro gs a gsF h
    rw [grun_bind, grun_set] at h
    dsimp only at h
    rw [grun_bind, grun_get] at h
    dsimp only at h
    split at h
    · simp [grun_throw] at h
    · rename_i b i t s gs' hr
      obtain ⟨hl, he⟩ := hinner _ _ _ _ hr
      simp only [grun_bind, grun_set, grun_pure, Except.ok.injEq, Prod.mk.injEq] at h
      rw [← h.2]
      exact ⟨hl, he⟩
  | .break_ l, c => by unfold compile; gen_auto []
  | .continue_ l, c => by unfold compile; gen_auto []
  | .fn ps rest body, c => by unfold compile; gen_auto [genOK_compileBegin isFn body _]
  | .defn name ps rest body, c => by unfold compile; gen_auto [genOK_compileBegin isFn body _]
  | .assign l r, c => by unfold compile; gen_auto [genOK_compile isFn l _, genOK_compile isFn r _]
  | .bad _, c => by unfold compile; exact genOK_throw

theorem genOK_compileAll (isFn : Nat → Bool) : ∀ (es : List Expr) (c : Ctx), GenOK (compileAll isFn c es)
  | [], c => by unfold compileAll; exact genOK_pure _
  | e :: es, c => by unfold compileAll; gen_auto [genOK_compile isFn e _, genOK_compileAll isFn es _]

theorem genOK_compileCallArgs (isFn : Nat → Bool) : ∀ (es : List Expr) (c : Ctx) (f : Option FnObj) (i : Nat),
    GenOK (compileCallArgs isFn c f i es)
  | [], c, f, i => by unfold compileCallArgs; exact genOK_pure _
  | e :: es, c, f, i => by
    unfold compileCallArgs; gen_auto [genOK_compile isFn e _, genOK_compileCallArgs isFn es _ _ _]

theorem genOK_compileBegin (isFn : Nat → Bool) : ∀ (es : List Expr) (c : Ctx), GenOK (compileBegin isFn c es)
  | [], c => by unfold compileBegin; exact genOK_pure _
  | [e], c => by unfold compileBegin; exact genOK_compile isFn e c
  | e :: e2 :: es, c => by
    unfold compileBegin; gen_auto [genOK_compile isFn e _, genOK_compileBegin isFn (e2 :: es) _]

theorem genOK_compileArms (isFn : Nat → Bool) : ∀ (arms : List (Expr × Expr)) (c : Ctx), GenOK (compileArms isFn c arms)
  | [], c => by unfold compileArms; exact genOK_pure _
  | (p, b) :: arms, c => by
    unfold compileArms; gen_auto [genOK_compileArms isFn arms _, genOK_compile isFn p _, genOK_compile isFn b _]

theorem genOK_compileSC (isFn : Nat → Bool) : ∀ (es : List Expr) (c : Ctx), GenOK (compileSC isFn c es)
  | [], c => by unfold compileSC; exact genOK_pure _
  | [e], c => by unfold compileSC; gen_auto [genOK_compile isFn e _]
  | e :: e2 :: es, c => by
    unfold compileSC; gen_auto [genOK_compileSC isFn (e2 :: es) _, genOK_compile isFn e _]

theorem genOK_compileBinds (isFn : Nat → Bool) : ∀ (bs : List (String × Expr)) (c : Ctx) (seq : Bool),
    GenOK (compileBinds isFn c seq bs)
  | [], c, seq => by unfold compileBinds; exact genOK_pure _
  | (x, e) :: bs, c, seq => by
    unfold compileBinds; gen_auto [genOK_compile isFn e _, genOK_compileBinds isFn bs _ _]

theorem genOK_compileNewScope (isFn : Nat → Bool) : ∀ (es : List Expr) (c : Ctx) (oldtail : Bool),
    GenOK (compileNewScope isFn c oldtail es)
  | [], c, t => by unfold compileNewScope; exact genOK_pure _
  | [e], c, t => by unfold compileNewScope; exact genOK_compile isFn e _
  | e :: e2 :: es, c, t => by
    unfold compileNewScope; gen_auto [genOK_compile isFn e _, genOK_compileNewScope isFn (e2 :: es) _ _]
end


/-- The invariant of the VM's mutual block, with the generator's part discharged. -/
theorem allSafe' (fuel : Nat) : AllSafe fuel := allSafe (fun isFn c e => genOK_compile isFn e c) fuel

/-! ## Whole texts -/

theorem wf_initSt : WF initSt := by
  refine ⟨?_, ?_, ?_, ?_⟩ <;> simp [initSt, idsOf]

theorem step_setMain (s : St) (mf : FnObj) (hc : mf.closing = (fnOf s mainFn).closing)
    (hp : mf.parent = (fnOf s mainFn).parent) :
    Step s { s with fns := s.fns.set mainFn mf, curfunc := mainFn } := by
  refine Step.of_scopes_same rfl (by simp) (fun i _ => ?_) (fun w => w.linear) (fun w => w.suspended)
    (fun w f hf => ?_) (fun w => w.lazies)
  · by_cases hi : i = mainFn
    · subst hi
      by_cases hl : mainFn < s.fns.length
      · simp [fnOf, List.getD_eq_getElem?_getD, hl, hc, hp]
      · simp only [fnOf]
        rw [List.set_eq_of_length_le (by omega)]
        exact ⟨rfl, rfl⟩
    · simp [fnOf, List.getD_eq_getElem?_getD, List.getElem?_set_ne (Ne.symm hi)]
  · rcases List.mem_or_eq_of_mem_set hf with hf | hf
    · exact w.closing f hf
    · subst hf
      rw [hc]
      rcases getD_mem_or_default s.fns mainFn {} with hm | hd
      · exact w.closing _ hm
      · intro id hid
        simp only [fnOf, hd] at hid
        simp [idsOf] at hid

theorem runText_step (fuel : Nat) (es : List Expr) (s : St) : Step s (runText fuel es s).2.1 := by
  unfold runText
  extract_lets s1 pre load
  have h0 : Step s s1 := Step.of_same rfl rfl rfl rfl rfl
  have hload : Step s1 load.2 :=
    safe_runGen (compileBegin (isFnScope s1) {} es) (fun gs a gs' h => genOK_compileBegin _ es {} gs a gs' h) s1
  split
  · exact h0.trans hload
  · extract_lets sb rr sc
    have h3 : Step load.2 sb := by apply step_setMain <;> rfl
    have h4 : Step sb sc := (allSafe' fuel).run sb
    have h04 := h0.trans (hload.trans (h3.trans h4))
    split <;> exact h04

end ZygoVerif.Scope
