/-
The statuses of the intermediate `ParseTokens` calls (`trace`) of the call-by-call protocol are
those the delivery model records (C13, third component of `StepwiseIsRun`).

The abstract views of Proofs/ParseChunks forget the piece boundaries, so this part runs on the
concrete interpreter: a run on a state with pieces still to come (`fut = c :: fut'`) is split at the
first delivery into the run on the same state without future pieces (`PState.base` — what one
`ParseTokens` call executes) and the run of the program it rests in on the state after the delivery.
-/
import ZygoVerif.Proofs.Stepwise
set_option linter.unusedSimpArgs false
set_option linter.unusedVariables false
namespace ZygoVerif.Parser
open ZygoVerif.Lexer

/-- the state one `ParseTokens` call works on: no future pieces, nothing recorded -/
def PState.base (s : PState) : PState := { lex := s.lex, exprs := s.exprs }

/-- put the future pieces, the end mark and the recorded statuses of `s` back -/
def PState.restore (s s1 : PState) : PState := { s1 with fut := s.fut, eof := s.eof, trace := s.trace }

theorem PState.restore_base (s : PState) : s.restore s.base = s := by cases s; rfl

theorem PState.base_restore (s s1 : PState) (h1 : s1.fut = []) (h2 : s1.eof = false) (h3 : s1.trace = []) :
    (s.restore s1).base = s1 := by
  cases s1; simp_all [PState.base, PState.restore]

theorem PState.base_size_le (s : PState) : s.base.size ≤ s.size := by
  simp [PState.size, PState.base, PState.runes]
  omega

/-! ### the measure of the reading loops -/

theorem size_step (s : PState) (c : Char) (l l' : LexState)
    (hr : readRune s.lex (s.lex.next.length + 1) = some (c, l)) (hst : l.step c = .ok l') :
    ({ s with lex := l' } : PState).size < s.size ∧ Inv ({ s with lex := l' } : PState) ∧
      l'.finished = s.lex.finished := by
  obtain ⟨hp, hc, hs, hn, hfin⟩ := readRune_some _ _ _ _ hr
  obtain ⟨h1, h2, h3, h4⟩ := (step_fields l c).1 l' hst
  have hrunes : s.runes = c :: (l.pending ++ s.fut.flatten) := by
    rw [runes_of_pending, hp]; rfl
  have h0 : s.size = (l.pending ++ s.fut.flatten).length + 1 + s.lex.next.length + s.fut.length := by
    simp [PState.size, hrunes]
  have hpend : l'.pending = l.pending := by simp [LexState.pending, h2, h3]
  have hnew : ({ s with lex := l' } : PState).size =
      (l.pending ++ s.fut.flatten).length + l.next.length + s.fut.length := by
    simp [PState.size, runes_of_pending, hpend, h3]
  refine ⟨by omega, by simp [Inv, h2, hs], h4.trans hfin⟩

theorem size_deliver (s : PState) (p : List Char) (fut : List (List Char)) (st : Status)
    (hi : Inv s) (hp : s.lex.pending = []) (hfut : s.fut = p :: fut) :
    (s.deliver p fut st).size < s.size ∧ Inv (s.deliver p fut st) := by
  obtain ⟨a1, a2, a3, a4, a5, a6, a7⟩ := deliver_drained s p fut st hi hp hfut
  have hrunes : s.runes = p ++ fut.flatten := by simp [runes_of_pending, hp, hfut]
  have h0 : s.size = (p ++ fut.flatten).length + s.lex.next.length + (fut.length + 1) := by
    simp [PState.size, hrunes, hfut]
  have h1 : (s.deliver p fut st).size = (p ++ fut.flatten).length + s.lex.next.length + fut.length := by
    simp [PState.size, runes_of_pending, a1, a4, a6]
  exact ⟨by omega, a3⟩

theorem inv_isNone (s : PState) (hi : Inv s) : s.lex.stream.isNone = false := by
  unfold Inv at hi
  cases h : s.lex.stream <;> simp_all

/-! ### the fuel of the reading loops does not matter once it exceeds the measure -/

theorem peekWaitRun_fuel (b : Bool) (n : Nat) : ∀ (f1 f2 : Nat) (s : PState), Inv s → s.size < f1 → s.size < f2 →
    peekWaitRun b n f1 s = peekWaitRun b n f2 s := by
  intro f1
  induction f1 with
  | zero => intro f2 s _ h; omega
  | succ m ih =>
    intro f2 s hi h1 h2
    cases f2 with
    | zero => omega
    | succ k =>
      rw [peekWaitRun, peekWaitRun]
      simp only [inv_isNone s hi, Bool.false_and, Bool.false_eq_true, ↓reduceIte]
      cases hh : (if n < s.lex.tokens.length then s.lex.tokens.head? else none) with
      | some t => rfl
      | none =>
        simp only
        cases hr : readRune s.lex (s.lex.next.length + 1) with
        | some cl =>
          obtain ⟨c, l⟩ := cl
          simp only
          cases hst : l.step c with
          | ok l' =>
            obtain ⟨z1, z2, _⟩ := size_step s c l l' hr hst
            exact ih k _ z2 (by omega) (by omega)
          | err e l' => rfl
        | none =>
          have hp := readRune_none _ _ (Nat.lt_succ_self _) hr
          simp only
          cases hfut : s.fut with
          | nil => rfl
          | cons p fut =>
            obtain ⟨z1, z2⟩ := size_deliver s p fut .more hi hp hfut
            exact ih k _ z2 (by omega) (by omega)

theorem topGetRun_fuel : ∀ (f1 f2 : Nat) (s : PState), Inv s → s.size < f1 → s.size < f2 →
    topGetRun f1 s = topGetRun f2 s := by
  intro f1
  induction f1 with
  | zero => intro f2 s _ h; omega
  | succ m ih =>
    intro f2 s hi h1 h2
    cases f2 with
    | zero => omega
    | succ k =>
      rw [topGetRun, topGetRun]
      simp only [inv_isNone s hi, Bool.false_and, Bool.false_eq_true, ↓reduceIte]
      cases htk : s.lex.tokens with
      | cons t ts => rfl
      | nil =>
        simp only
        cases hr : readRune s.lex (s.lex.next.length + 1) with
        | some cl =>
          obtain ⟨c, l⟩ := cl
          simp only
          cases hst : l.step c with
          | ok l' =>
            obtain ⟨z1, z2, _⟩ := size_step s c l l' hr hst
            exact ih k _ z2 (by omega) (by omega)
          | err e l' => rfl
        | none =>
          have hp := readRune_none _ _ (Nat.lt_succ_self _) hr
          simp only
          cases hfut : s.fut with
          | nil => rfl
          | cons p fut =>
            simp only
            obtain ⟨z1, z2⟩ := size_deliver s p fut (if inLiteral s.lex.toLexCore = true then Status.more else Status.done) hi hp hfut
            exact ih k _ z2 (by omega) (by omega)

/-! ### a run without future pieces delivers nothing -/

def PeekOut.st : PeekOut → PState
  | .tok _ s => s
  | .stop _ s => s

def TopOut.st : TopOut → PState
  | .tok _ s => s
  | .finished _ s => s

/-- fields a run without future pieces leaves alone -/
def Ghost (s s1 : PState) : Prop :=
  s1.fut = [] ∧ s1.eof = s.eof ∧ s1.trace = s.trace ∧ s1.lex.finished = s.lex.finished

theorem Ghost.refl (s : PState) (h : s.fut = []) : Ghost s s := ⟨h, rfl, rfl, rfl⟩

theorem Ghost.trans {a b c : PState} (h1 : Ghost a b) (h2 : Ghost b c) : Ghost a c :=
  ⟨h2.1, h2.2.1.trans h1.2.1, h2.2.2.1.trans h1.2.2.1, h2.2.2.2.trans h1.2.2.2⟩

theorem peekWaitRun_ghost (b : Bool) (n : Nat) : ∀ (fuel : Nat) (s : PState), s.fut = [] →
    Ghost s (peekWaitRun b n fuel s).st := by
  intro fuel
  induction fuel with
  | zero => intro s h; exact Ghost.refl s h
  | succ m ih =>
    intro s hfut
    rw [peekWaitRun]
    split
    · simp only [hfut]
      split <;> exact Ghost.refl s hfut
    · cases hh : (if n < s.lex.tokens.length then s.lex.tokens.head? else none) with
      | some t => exact Ghost.refl s hfut
      | none =>
        simp only
        cases hr : readRune s.lex (s.lex.next.length + 1) with
        | some cl =>
          obtain ⟨c, l⟩ := cl
          have hfin := (readRune_some _ _ _ _ hr).2.2.2.2
          simp only
          cases hst : l.step c with
          | ok l' =>
            have h4 := ((step_fields l c).1 l' hst).2.2.2
            have g1 : Ghost s ({ s with lex := l' } : PState) := ⟨hfut, rfl, rfl, h4.trans hfin⟩
            exact g1.trans (ih _ hfut)
          | err e l' =>
            have h4 := ((step_fields l c).2 e l' hst).2.2.2
            exact ⟨hfut, rfl, rfl, h4.trans hfin⟩
        | none =>
          simp only [hfut]
          split <;> exact Ghost.refl s hfut

theorem topGetRun_ghost : ∀ (fuel : Nat) (s : PState), s.fut = [] → Ghost s (topGetRun fuel s).st := by
  intro fuel
  induction fuel with
  | zero => intro s h; exact Ghost.refl s h
  | succ m ih =>
    intro s hfut
    rw [topGetRun]
    simp only [hfut]
    split
    · exact Ghost.refl s hfut
    · cases htk : s.lex.tokens with
      | cons t ts => exact ⟨rfl, rfl, rfl, rfl⟩
      | nil =>
        simp only
        cases hr : readRune s.lex (s.lex.next.length + 1) with
        | some cl =>
          obtain ⟨c, l⟩ := cl
          have hfin := (readRune_some _ _ _ _ hr).2.2.2.2
          simp only
          cases hst : l.step c with
          | ok l' =>
            have h4 := ((step_fields l c).1 l' hst).2.2.2
            have g1 : Ghost s ({ lex := l', eof := s.eof, exprs := s.exprs, trace := s.trace } : PState) :=
              ⟨rfl, rfl, rfl, h4.trans hfin⟩
            exact g1.trans (ih _ rfl)
          | err e l' =>
            have h4 := ((step_fields l c).2 e l' hst).2.2.2
            exact ⟨rfl, rfl, rfl, h4.trans hfin⟩
        | none => exact Ghost.refl s hfut

theorem run_ghost {α : Type} (p : Prog α) : ∀ (s : PState), s.fut = [] → Ghost s (run p s).2 := by
  induction p with
  | pure a => intro s h; exact Ghost.refl s h
  | fail => intro s h; exact Ghost.refl s h
  | waitPeek n k ih =>
    intro s h
    have g := peekWaitRun_ghost false n (s.size + 1) s h
    simp only [run]
    cases hp : peekWaitRun false n (s.size + 1) s with
    | tok t s' => rw [hp] at g; exact g.trans (ih t s' g.1)
    | stop st s' => rw [hp] at g; exact g
  | signPeek k ih =>
    intro s h
    have g := peekWaitRun_ghost true 0 (s.size + 1) s h
    simp only [run]
    cases hp : peekWaitRun true 0 (s.size + 1) s with
    | tok t s' => rw [hp] at g; exact g.trans (ih t s' g.1)
    | stop st s' => rw [hp] at g; exact g
  | peekAt n k ih =>
    intro s h
    have g := peekWaitRun_ghost false n (s.size + 1) s h
    simp only [run]
    cases hp : peekWaitRun false n (s.size + 1) s with
    | tok t s' =>
      rw [hp] at g
      simp only
      cases s'.lex.tokens[n]? with
      | some t' => exact g.trans (ih t' s' g.1)
      | none => exact g
    | stop st s' => rw [hp] at g; exact g
  | getTok k ih =>
    intro s h
    have g := peekWaitRun_ghost false 0 (s.size + 1) s h
    simp only [run]
    cases hp : peekWaitRun false 0 (s.size + 1) s with
    | tok t s' =>
      rw [hp] at g
      have g2 : Ghost s ({ s' with lex := { s'.lex with tokens := s'.lex.tokens.tail } } : PState) := g
      exact g2.trans (ih t _ g.1)
    | stop st s' => rw [hp] at g; exact g
  | topGet k ih =>
    intro s h
    have g := topGetRun_ghost (s.size + 1) s h
    simp only [run]
    cases hp : topGetRun (s.size + 1) s with
    | tok t s' => rw [hp] at g; exact g.trans (ih (some t) s' g.1)
    | finished st s' =>
      rw [hp] at g
      cases st with
      | done => exact g.trans (ih none s' g.1)
      | more => exact g
      | err => exact g
  | pushTok t k ih =>
    intro s h
    simp only [run]
    have g2 : Ghost s ({ s with lex := { s.lex with tokens := t :: s.lex.tokens } } : PState) := ⟨h, rfl, rfl, rfl⟩
    exact g2.trans (ih _ h)
  | pushExpr e k ih =>
    intro s h
    simp only [run]
    have g2 : Ghost s ({ s with exprs := s.exprs ++ [e] } : PState) := ⟨h, rfl, rfl, rfl⟩
    exact g2.trans (ih _ h)

/-! ### splitting a reading loop at the first delivery -/

theorem peekWaitRun_split (b : Bool) (n : Nat) (c' : List Char) (fut' : List (List Char)) :
    ∀ (fuel : Nat) (s : PState), Inv s → s.size < fuel → s.lex.finished = false → s.fut = c' :: fut' →
    ∀ out, peekWaitRun b n fuel s.base = out →
    peekWaitRun b n fuel s = match out with
      | .tok t s1 => .tok t (s.restore s1)
      | .stop .more s1 =>
        peekWaitRun b n (((s.restore s1).deliver c' fut' .more).size + 1) ((s.restore s1).deliver c' fut' .more)
      | .stop st s1 => .stop st (s.restore s1) := by
  intro fuel
  induction fuel with
  | zero => intro s _ h; omega
  | succ m ih =>
    intro s hi hsz hfin hfut out hout
    rw [peekWaitRun] at hout
    conv => lhs; rw [peekWaitRun]
    have hn := inv_isNone s hi
    dsimp (config := { instances := true }) only [PState.base] at hout
    simp only [hn, Bool.false_and, Bool.false_eq_true, ↓reduceIte] at hout
    simp only [hn, Bool.false_and, Bool.false_eq_true, ↓reduceIte]
    cases hh : (if n < s.lex.tokens.length then s.lex.tokens.head? else none) with
    | some t =>
      rw [hh] at hout
      simp only at hout
      subst hout
      simp only
      exact congrArg _ (PState.restore_base s).symm
    | none =>
      rw [hh] at hout
      simp only at hout ⊢
      cases hr : readRune s.lex (s.lex.next.length + 1) with
      | some cl =>
        obtain ⟨c, l⟩ := cl
        rw [hr] at hout
        simp only at hout ⊢
        cases hst : l.step c with
        | ok l' =>
          rw [hst] at hout
          simp only at hout ⊢
          obtain ⟨z1, z2, z3⟩ := size_step s c l l' hr hst
          exact ih ({ s with lex := l' }) z2 (by omega) (z3.trans hfin) hfut out hout
        | err e l' =>
          rw [hst] at hout
          simp only at hout
          subst hout
          rfl
      | none =>
        rw [hr] at hout
        have hp := readRune_none _ _ (Nat.lt_succ_self _) hr
        simp only [hfin, Bool.and_false, Bool.false_eq_true, ↓reduceIte] at hout
        subst hout
        simp only [hfut]
        obtain ⟨z1, z2⟩ := size_deliver s c' fut' .more hi hp hfut
        have hrb : s.restore { lex := s.lex, exprs := s.exprs } = s := PState.restore_base s
        rw [hrb]
        exact peekWaitRun_fuel b n _ _ _ z2 (by omega) (Nat.lt_succ_self _)

theorem topGetRun_split (c' : List Char) (fut' : List (List Char)) :
    ∀ (fuel : Nat) (s : PState), Inv s → s.size < fuel → s.lex.finished = false → s.fut = c' :: fut' →
    ∀ out, topGetRun fuel s.base = out →
    topGetRun fuel s = match out with
      | .tok t s1 => .tok t (s.restore s1)
      | .finished .err s1 => .finished .err (s.restore s1)
      | .finished st s1 =>
        topGetRun (((s.restore s1).deliver c' fut' st).size + 1) ((s.restore s1).deliver c' fut' st) := by
  intro fuel
  induction fuel with
  | zero => intro s _ h; omega
  | succ m ih =>
    intro s hi hsz hfin hfut out hout
    rw [topGetRun] at hout
    conv => lhs; rw [topGetRun]
    have hn := inv_isNone s hi
    dsimp (config := { instances := true }) only [PState.base] at hout
    simp only [hn, Bool.false_and, Bool.false_eq_true, ↓reduceIte] at hout
    simp only [hn, Bool.false_and, Bool.false_eq_true, ↓reduceIte]
    cases htk : s.lex.tokens with
    | cons t ts =>
      rw [htk] at hout
      simp only at hout
      subst hout
      rfl
    | nil =>
      rw [htk] at hout
      simp only at hout ⊢
      cases hr : readRune s.lex (s.lex.next.length + 1) with
      | some cl =>
        obtain ⟨c, l⟩ := cl
        rw [hr] at hout
        simp only at hout ⊢
        cases hst : l.step c with
        | ok l' =>
          rw [hst] at hout
          simp only at hout ⊢
          obtain ⟨z1, z2, z3⟩ := size_step s c l l' hr hst
          exact ih ({ s with lex := l' }) z2 (by omega) (z3.trans hfin) hfut out hout
        | err e l' =>
          rw [hst] at hout
          simp only at hout
          subst hout
          rfl
      | none =>
        rw [hr] at hout
        have hp := readRune_none _ _ (Nat.lt_succ_self _) hr
        have hrb : s.restore { lex := s.lex, exprs := s.exprs } = s := PState.restore_base s
        cases hl : inLiteral s.lex.toLexCore with
        | true =>
          simp only [hl, ↓reduceIte] at hout
          subst hout
          simp only [hfut, hl, ↓reduceIte]
          obtain ⟨z1, z2⟩ := size_deliver s c' fut' .more hi hp hfut
          rw [hrb]
          exact topGetRun_fuel _ _ _ z2 (by omega) (Nat.lt_succ_self _)
        | false =>
          simp only [hl, Bool.false_eq_true, ↓reduceIte] at hout
          subst hout
          simp only [hfut, hl, Bool.false_eq_true, ↓reduceIte]
          obtain ⟨z1, z2⟩ := size_deliver s c' fut' .done hi hp hfut
          rw [hrb]
          exact topGetRun_fuel _ _ _ z2 (by omega) (Nat.lt_succ_self _)

/-! ### splitting a run at the first delivery -/

/-- **A run with pieces still to come, split at the first delivery.** If the program, on the state
without the future pieces (what one `ParseTokens` call executes), comes to rest for lack of input
(`suspendA` on the view: in a blocked yield, or at a top level that answers `done`), then the run on
the state WITH the future pieces is: that run up to the rest, the delivery of the next piece with
the status of the rest recorded, and the run of the program it rests in. -/
theorem run_split {α : Type} (c' : List Char) (fut' : List (List Char)) (Q : SProg α) :
    ∀ (s : PState), Inv s → s.lex.finished = false → s.fut = c' :: fut' →
    ∀ (e : Bool) (κ : SProg α) (v' : View), suspendA Q (view s.base) = some (e, κ, v') →
    ∃ s1 : PState, s1.fut = [] ∧ s1.eof = false ∧ s1.trace = [] ∧ view s1 = v' ∧
      (e = false → run Q.erase s.base = (.stop .more, s1)) ∧
      (∀ k, e = true → κ = .topGet k → run Q.erase s.base = run (k none).erase s1) ∧
      run Q.erase s = run κ.erase ((s.restore s1).deliver c' fut' (if e then .done else .more)) := by
  induction Q with
  | pure a => intro s _ _ _ e κ v' h; simp [suspendA] at h
  | fail => intro s _ _ _ e κ v' h; simp [suspendA] at h
  | waitPeek n k ih =>
    intro s hi hfin hfut e κ v' h
    have hbi : Inv s.base := hi
    have hfuel : peekWaitRun false n (s.size + 1) s.base = peekWaitRun false n (s.base.size + 1) s.base :=
      peekWaitRun_fuel false n _ _ s.base hbi (by have := s.base_size_le; omega) (Nat.lt_succ_self _)
    have hsplit := peekWaitRun_split false n c' fut' (s.size + 1) s hi (Nat.lt_succ_self _) hfin hfut _ hfuel
    have hsim := peekWait_sim false n (s.base.size + 1) s.base hbi (Nat.lt_succ_self _)
    have hg := peekWaitRun_ghost false n (s.base.size + 1) s.base rfl
    have hv := view_fields s.base
    simp only [suspendA, hv.1, hv.2.1, hv.2.2.1, hv.2.2.2, ← hsim.1] at h
    simp only [SProg.erase, run]
    cases hpw : peekWaitRun false n (s.base.size + 1) s.base with
    | tok t s1 =>
      rw [hpw] at hsplit hsim hg h
      simp only [PeekOut.toA] at h
      simp only at hsplit
      have hinv1 : Inv s1 := hsim.2
      have g : Ghost s.base s1 := hg
      have hfin1 : s1.lex.finished = false := g.2.2.2.trans hfin
      have hb : (s.restore s1).base = s1 := PState.base_restore s s1 g.1 g.2.1 g.2.2.1
      obtain ⟨s2, f1, f2, f3, f4, f5, f6, f7⟩ := ih t (s.restore s1) hinv1 hfin1 hfut e κ v' (by rw [hb]; exact h)
      rw [hb] at f5 f6
      refine ⟨s2, f1, f2, f3, f4, f5, f6, ?_⟩
      rw [hsplit]
      exact f7
    | stop st s1 =>
      rw [hpw] at hsplit hg h
      simp only [PeekOut.toA] at h
      have g : Ghost s.base s1 := hg
      cases st with
      | more =>
        simp only [Option.some.injEq, Prod.mk.injEq] at h
        obtain ⟨rfl, rfl, rfl⟩ := h
        simp only at hsplit
        refine ⟨s1, g.1, g.2.1, g.2.2.1, rfl, fun _ => rfl, fun k' h' => by simp at h', ?_⟩
        simp only [Bool.false_eq_true, ↓reduceIte, hsplit, SProg.erase, run]
      | done => simp at h
      | err => simp at h
  | waitLoop on k _ ih =>
    intro s hi hfin hfut e κ v' h
    have hbi : Inv s.base := hi
    have hfuel : peekWaitRun false 0 (s.size + 1) s.base = peekWaitRun false 0 (s.base.size + 1) s.base :=
      peekWaitRun_fuel false 0 _ _ s.base hbi (by have := s.base_size_le; omega) (Nat.lt_succ_self _)
    have hsplit := peekWaitRun_split false 0 c' fut' (s.size + 1) s hi (Nat.lt_succ_self _) hfin hfut _ hfuel
    have hsim := peekWait_sim false 0 (s.base.size + 1) s.base hbi (Nat.lt_succ_self _)
    have hg := peekWaitRun_ghost false 0 (s.base.size + 1) s.base rfl
    have hv := view_fields s.base
    simp only [suspendA, hv.1, hv.2.1, hv.2.2.1, hv.2.2.2, ← hsim.1] at h
    simp only [SProg.erase, run]
    cases hpw : peekWaitRun false 0 (s.base.size + 1) s.base with
    | tok t s1 =>
      rw [hpw] at hsplit hsim hg h
      simp only [PeekOut.toA] at h
      simp only at hsplit
      have hinv1 : Inv s1 := hsim.2
      have g : Ghost s.base s1 := hg
      have hfin1 : s1.lex.finished = false := g.2.2.2.trans hfin
      have hb : (s.restore s1).base = s1 := PState.base_restore s s1 g.1 g.2.1 g.2.2.1
      obtain ⟨s2, f1, f2, f3, f4, f5, f6, f7⟩ := ih t (s.restore s1) hinv1 hfin1 hfut e κ v' (by rw [hb]; exact h)
      rw [hb] at f5 f6
      refine ⟨s2, f1, f2, f3, f4, f5, f6, ?_⟩
      rw [hsplit]
      exact f7
    | stop st s1 =>
      rw [hpw] at hsplit hg h
      simp only [PeekOut.toA] at h
      have g : Ghost s.base s1 := hg
      cases st with
      | more =>
        simp only [Option.some.injEq, Prod.mk.injEq] at h
        obtain ⟨rfl, rfl, rfl⟩ := h
        simp only at hsplit
        refine ⟨s1, g.1, g.2.1, g.2.2.1, rfl, fun _ => rfl, fun k' h' => by simp at h', ?_⟩
        simp only [Bool.false_eq_true, ↓reduceIte, hsplit, SProg.erase, run]
      | done => simp at h
      | err => simp at h
  | signPeek k ih =>
    intro s hi hfin hfut e κ v' h
    have hbi : Inv s.base := hi
    have hfuel : peekWaitRun true 0 (s.size + 1) s.base = peekWaitRun true 0 (s.base.size + 1) s.base :=
      peekWaitRun_fuel true 0 _ _ s.base hbi (by have := s.base_size_le; omega) (Nat.lt_succ_self _)
    have hsplit := peekWaitRun_split true 0 c' fut' (s.size + 1) s hi (Nat.lt_succ_self _) hfin hfut _ hfuel
    have hsim := peekWait_sim true 0 (s.base.size + 1) s.base hbi (Nat.lt_succ_self _)
    have hg := peekWaitRun_ghost true 0 (s.base.size + 1) s.base rfl
    have hv := view_fields s.base
    simp only [suspendA, hv.1, hv.2.1, hv.2.2.1, hv.2.2.2, ← hsim.1] at h
    simp only [SProg.erase, run]
    cases hpw : peekWaitRun true 0 (s.base.size + 1) s.base with
    | tok t s1 =>
      rw [hpw] at hsplit hsim hg h
      simp only [PeekOut.toA] at h
      simp only at hsplit
      have hinv1 : Inv s1 := hsim.2
      have g : Ghost s.base s1 := hg
      have hfin1 : s1.lex.finished = false := g.2.2.2.trans hfin
      have hb : (s.restore s1).base = s1 := PState.base_restore s s1 g.1 g.2.1 g.2.2.1
      obtain ⟨s2, f1, f2, f3, f4, f5, f6, f7⟩ := ih t (s.restore s1) hinv1 hfin1 hfut e κ v' (by rw [hb]; exact h)
      rw [hb] at f5 f6
      refine ⟨s2, f1, f2, f3, f4, f5, f6, ?_⟩
      rw [hsplit]
      exact f7
    | stop st s1 =>
      rw [hpw] at hsplit hg h
      simp only [PeekOut.toA] at h
      have g : Ghost s.base s1 := hg
      cases st with
      | more =>
        simp only [Option.some.injEq, Prod.mk.injEq] at h
        obtain ⟨rfl, rfl, rfl⟩ := h
        simp only at hsplit
        refine ⟨s1, g.1, g.2.1, g.2.2.1, rfl, fun _ => rfl, fun k' h' => by simp at h', ?_⟩
        simp only [Bool.false_eq_true, ↓reduceIte, hsplit, SProg.erase, run]
      | done => simp at h
      | err => simp at h
  | peekAt n k ih =>
    intro s hi hfin hfut e κ v' h
    have hbi : Inv s.base := hi
    have hfuel : peekWaitRun false n (s.size + 1) s.base = peekWaitRun false n (s.base.size + 1) s.base :=
      peekWaitRun_fuel false n _ _ s.base hbi (by have := s.base_size_le; omega) (Nat.lt_succ_self _)
    have hsplit := peekWaitRun_split false n c' fut' (s.size + 1) s hi (Nat.lt_succ_self _) hfin hfut _ hfuel
    have hsim := peekWait_sim false n (s.base.size + 1) s.base hbi (Nat.lt_succ_self _)
    have hg := peekWaitRun_ghost false n (s.base.size + 1) s.base rfl
    have hv := view_fields s.base
    simp only [suspendA, hv.1, hv.2.1, hv.2.2.1, hv.2.2.2, ← hsim.1] at h
    simp only [SProg.erase, run]
    cases hpw : peekWaitRun false n (s.base.size + 1) s.base with
    | tok t s1 =>
      rw [hpw] at hsplit hsim hg h
      simp only [PeekOut.toA] at h
      simp only at hsplit
      have hinv1 : Inv s1 := hsim.2
      have g : Ghost s.base s1 := hg
      have hfin1 : s1.lex.finished = false := g.2.2.2.trans hfin
      have hb : (s.restore s1).base = s1 := PState.base_restore s s1 g.1 g.2.1 g.2.2.1
      have ht : (view s1).core.tokens = s1.lex.tokens := rfl
      rw [ht] at h
      rw [hsplit]
      simp only
      have ht2 : (s.restore s1).lex.tokens = s1.lex.tokens := rfl
      rw [ht2]
      cases hq : s1.lex.tokens[n]? with
      | none => simp [hq] at h
      | some t' =>
        simp only [hq] at h ⊢
        obtain ⟨s2, f1, f2, f3, f4, f5, f6, f7⟩ := ih t' (s.restore s1) hinv1 hfin1 hfut e κ v' (by rw [hb]; exact h)
        rw [hb] at f5 f6
        exact ⟨s2, f1, f2, f3, f4, f5, f6, f7⟩
    | stop st s1 =>
      rw [hpw] at hsplit hg h
      simp only [PeekOut.toA] at h
      have g : Ghost s.base s1 := hg
      cases st with
      | more =>
        simp only [Option.some.injEq, Prod.mk.injEq] at h
        obtain ⟨rfl, rfl, rfl⟩ := h
        simp only at hsplit
        refine ⟨s1, g.1, g.2.1, g.2.2.1, rfl, fun _ => rfl, fun k' h' => by simp at h', ?_⟩
        simp only [Bool.false_eq_true, ↓reduceIte, hsplit, SProg.erase, run]
      | done => simp at h
      | err => simp at h
  | getTok k ih =>
    intro s hi hfin hfut e κ v' h
    have hbi : Inv s.base := hi
    have hfuel : peekWaitRun false 0 (s.size + 1) s.base = peekWaitRun false 0 (s.base.size + 1) s.base :=
      peekWaitRun_fuel false 0 _ _ s.base hbi (by have := s.base_size_le; omega) (Nat.lt_succ_self _)
    have hsplit := peekWaitRun_split false 0 c' fut' (s.size + 1) s hi (Nat.lt_succ_self _) hfin hfut _ hfuel
    have hsim := peekWait_sim false 0 (s.base.size + 1) s.base hbi (Nat.lt_succ_self _)
    have hg := peekWaitRun_ghost false 0 (s.base.size + 1) s.base rfl
    have hv := view_fields s.base
    simp only [suspendA, hv.1, hv.2.1, hv.2.2.1, hv.2.2.2, ← hsim.1] at h
    simp only [SProg.erase, run]
    cases hpw : peekWaitRun false 0 (s.base.size + 1) s.base with
    | tok t s1 =>
      rw [hpw] at hsplit hsim hg h
      simp only [PeekOut.toA] at h
      simp only at hsplit
      have hinv1 : Inv s1 := hsim.2
      have g : Ghost s.base s1 := hg
      have hfin1 : s1.lex.finished = false := g.2.2.2.trans hfin
      have hb : (s.restore ({ s1 with lex := { s1.lex with tokens := s1.lex.tokens.tail } } : PState)).base =
          ({ s1 with lex := { s1.lex with tokens := s1.lex.tokens.tail } } : PState) :=
        PState.base_restore s _ g.1 g.2.1 g.2.2.1
      obtain ⟨s2, f1, f2, f3, f4, f5, f6, f7⟩ := ih t (s.restore ({ s1 with lex := { s1.lex with tokens := s1.lex.tokens.tail } } : PState))
        (by simpa [Inv, PState.restore] using hinv1) hfin1 hfut e κ v'
        (by rw [hb]; simpa [view, runes_of_pending, LexState.pending, PState.willFinish] using h)
      rw [hb] at f5 f6
      refine ⟨s2, f1, f2, f3, f4, f5, f6, ?_⟩
      rw [hsplit]
      exact f7
    | stop st s1 =>
      rw [hpw] at hsplit hg h
      simp only [PeekOut.toA] at h
      have g : Ghost s.base s1 := hg
      cases st with
      | more =>
        simp only [Option.some.injEq, Prod.mk.injEq] at h
        obtain ⟨rfl, rfl, rfl⟩ := h
        simp only at hsplit
        refine ⟨s1, g.1, g.2.1, g.2.2.1, rfl, fun _ => rfl, fun k' h' => by simp at h', ?_⟩
        simp only [Bool.false_eq_true, ↓reduceIte, hsplit, SProg.erase, run]
      | done => simp at h
      | err => simp at h
  | topGet k ih =>
    intro s hi hfin hfut e κ v' h
    have hbi : Inv s.base := hi
    have hfuel : topGetRun (s.size + 1) s.base = topGetRun (s.base.size + 1) s.base :=
      topGetRun_fuel _ _ s.base hbi (by have := s.base_size_le; omega) (Nat.lt_succ_self _)
    have hsplit := topGetRun_split c' fut' (s.size + 1) s hi (Nat.lt_succ_self _) hfin hfut _ hfuel
    have hsim := topGet_sim (s.base.size + 1) s.base hbi (Nat.lt_succ_self _)
    have hg := topGetRun_ghost (s.base.size + 1) s.base rfl
    have hv := view_fields s.base
    simp only [suspendA, hv.1, hv.2.1, hv.2.2.1, hv.2.2.2, ← hsim.1] at h
    simp only [SProg.erase, run]
    cases hpw : topGetRun (s.base.size + 1) s.base with
    | tok t s1 =>
      rw [hpw] at hsplit hsim hg h
      simp only [TopOut.toA] at h
      simp only at hsplit
      have hinv1 : Inv s1 := hsim.2
      have g : Ghost s.base s1 := hg
      have hfin1 : s1.lex.finished = false := g.2.2.2.trans hfin
      have hb : (s.restore s1).base = s1 := PState.base_restore s s1 g.1 g.2.1 g.2.2.1
      obtain ⟨s2, f1, f2, f3, f4, f5, f6, f7⟩ := ih (some t) (s.restore s1) hinv1 hfin1 hfut e κ v' (by rw [hb]; exact h)
      rw [hb] at f5 f6
      refine ⟨s2, f1, f2, f3, f4, f5, f6, ?_⟩
      rw [hsplit]
      exact f7
    | finished st s1 =>
      rw [hpw] at hsplit hg h
      simp only [TopOut.toA] at h
      have g : Ghost s.base s1 := hg
      cases st with
      | more =>
        simp only [Option.some.injEq, Prod.mk.injEq] at h
        obtain ⟨rfl, rfl, rfl⟩ := h
        simp only at hsplit
        refine ⟨s1, g.1, g.2.1, g.2.2.1, rfl, fun _ => rfl, fun k' h' => by simp at h', ?_⟩
        simp only [Bool.false_eq_true, ↓reduceIte, hsplit, SProg.erase, run]
      | done =>
        simp only [Option.some.injEq, Prod.mk.injEq] at h
        obtain ⟨rfl, rfl, rfl⟩ := h
        simp only at hsplit
        refine ⟨s1, g.1, g.2.1, g.2.2.1, rfl, fun h' => by simp at h', ?_, ?_⟩
        · intro k' _ hk
          simp only [SProg.topGet.injEq] at hk
          subst hk
          rfl
        · simp only [↓reduceIte, hsplit, SProg.erase, run]
      | err => simp at h
  | pushTok t k ih =>
    intro s hi hfin hfut e κ v' h
    simp only [suspendA] at h
    obtain ⟨s2, f1, f2, f3, f4, f5, f6, f7⟩ :=
      ih ({ s with lex := { s.lex with tokens := t :: s.lex.tokens } } : PState) (by simpa [Inv] using hi) hfin hfut e κ v'
        (by simpa [view, PState.base, runes_of_pending, LexState.pending, PState.willFinish] using h)
    exact ⟨s2, f1, f2, f3, f4, f5, f6, f7⟩
  | pushExpr e' k ih =>
    intro s hi hfin hfut e κ v' h
    simp only [suspendA] at h
    obtain ⟨s2, f1, f2, f3, f4, f5, f6, f7⟩ :=
      ih ({ s with exprs := s.exprs ++ [e'] } : PState) (by simpa [Inv] using hi) hfin hfut e κ v'
        (by simpa [view, PState.base, runes_of_pending, PState.willFinish] using h)
    exact ⟨s2, f1, f2, f3, f4, f5, f6, f7⟩

/-! ### the protocol against the delivery model, call by call, on the concrete states -/

/-- one `ParseTokens` call and the rest of the delivery (the common shape of `parseBy` and
`deliverRest`) -/
def callThen (F : Nat) (p' : PSt) (tr : List Status) (rest : List (List Char)) : Result × PSt :=
  if (p'.parseTokens F).1 == .err then
    (⟨(p'.parseTokens F).1, (p'.parseTokens F).2.1, tr.reverse⟩, (p'.parseTokens F).2.2)
  else (p'.parseTokens F).2.2.deliverRest F ((p'.parseTokens F).1 :: tr) rest

theorem deliverRest_cons_eq (F : Nat) (p : PSt) (tr : List Status) (c : List Char) (rest : List (List Char)) :
    p.deliverRest F tr (c :: rest) = callThen F (p.newInput c) tr rest := rfl

theorem parseBy_cons_callThen (F : Nat) (p : PSt) (c : List Char) (rest : List (List Char)) :
    p.parseBy F .resetAdd (c :: rest) = callThen F (p.resetAddNewInput c) [] rest := rfl

theorem view_of_base (t : PState) (c : List Char) (fut' : List (List Char)) (hfin : t.lex.finished = false)
    (heof : t.eof = true) (hfut : t.fut = c :: fut') :
    (view t.base).fin = false ∧
    view t = ⟨(view t.base).core, (view t.base).runes ++ (c :: fut').flatten, (view t.base).exprs, true⟩ := by
  simp [view, PState.base, PState.runes, PState.willFinish, hfut, heof, hfin]

/-- **The first call.** The delivery model is at a state `t` with the piece `c` next to be
delivered (and not an error in the end); the protocol is at the state with the same lexer and reply.
The `ParseTokens` call answers `st` (not an error), and the run of the delivery model is: deliver
`c`, record `st`, and run the program the protocol now holds. -/
theorem first_step (F : Nat) (t : PState) (co : Option Co) (c : List Char) (fut' : List (List Char))
    (hco : co ≠ some .finalYield) (hTL : TL F (progOf F co)) (hi : Inv t) (hfin : t.lex.finished = false)
    (heof : t.eof = true) (hfut : t.fut = c :: fut') (hne : (run (progOf F co).erase t).1 ≠ .stop .err) :
    ∃ (st : Status) (co' : Option Co) (s1 : PState), st ≠ .err ∧
      PSt.parseTokens F ⟨t.lex, t.exprs, co⟩ = (st, s1.exprs, ⟨s1.lex, s1.exprs, co'⟩) ∧
      co' ≠ some .finalYield ∧ TL F (progOf F co') ∧ s1.lex.pending = [] ∧
      run (progOf F co).erase t = run (progOf F co').erase ((t.restore s1).deliver c fut' st) := by
  obtain ⟨hvfin, hvt⟩ := view_of_base t c fut' hfin heof hfut
  obtain ⟨sl1, sl2, sl3⟩ := SL_of_TL F _ hTL (view t.base)
  have hpt := parseTokens_eq F ⟨t.lex, t.exprs, co⟩ hco
  have hps : (⟨t.lex, t.exprs, co⟩ : PSt).pstate = t.base := rfl
  rw [hps] at hpt
  simp only at hpt
  cases hs : suspendA (progOf F co) (view t.base) with
  | none =>
    exfalso
    apply hne
    rw [(run_view _ t hi).1, hvt, suspendA_none_append _ _ hvfin hs]
    exact sl3 hs
  | some x =>
    obtain ⟨e, κ, v'⟩ := x
    obtain ⟨s1, g1, g2, g3, g4, g5, g6, g7⟩ := run_split c fut' _ t hi hfin hfut e κ v' hs
    obtain ⟨q1, _⟩ := resume_is_rest_of_run _ _ hvfin e κ v' hs
    have hpend : s1.lex.pending = [] := by
      have : (view s1).runes = [] := by rw [g4]; exact q1
      exact (List.append_eq_nil_iff.mp this).1
    cases e with
    | false =>
      have hres := (residual_of_suspendA _ t.base hi κ v' hs).1
      rw [g5 rfl, hres] at hpt
      refine ⟨.more, some (.waiting κ), s1, by simp, hpt, by simp, sl2 κ v' hs, hpend, ?_⟩
      simpa [progOf] using g7
    | true =>
      obtain ⟨⟨f, hf, rfl⟩, _⟩ := sl1 κ v' hs
      have hrun := g6 _ rfl (topLoop_succ_eq f)
      simp only [SProg.erase, run] at hrun
      rw [hrun] at hpt
      refine ⟨.done, none, s1, by simp, hpt, by simp, .top F (Nat.le_refl _), hpend, ?_⟩
      simp only [↓reduceIte] at g7
      rw [g7] at hne ⊢
      simp only [progOf, erase_topLoop] at hne ⊢
      exact (Parser.run_fuel_mono (f + 1) F hf _ hne).symm

theorem finished_false_eq (l : LexState) (h : l.finished = false) : ({ l with finished := false } : LexState) = l := by
  cases l; simp_all

/-- **The recorded statuses.** From a state of the delivery model with the pieces `rest` (and the
end of the input) still to come, and the protocol at the state with the same lexer and reply: what
the delivery model records from here on is what the calls of the protocol answer from here on. -/
theorem chunk_trace (F : Nat) : ∀ (rest : List (List Char)) (t : PState) (co : Option Co) (tr : List Status),
    co ≠ some .finalYield → TL F (progOf F co) → Inv t → t.lex.finished = false → t.eof = true →
    t.fut = rest ++ [eofPiece] → (run (progOf F co).erase t).1 ≠ .stop .err →
    ∃ X, (run (progOf F co).erase t).2.trace = t.trace ++ X ∧
      (callThen F ⟨t.lex, t.exprs, co⟩ tr rest).1.trace = tr.reverse ++ X := by
  intro rest
  induction rest with
  | nil =>
    intro t co tr hco hTL hi hfin heof hfut hne
    obtain ⟨st, co', s1, h1, h2, h3, h4, h5, h6⟩ := first_step F t co eofPiece [] hco hTL hi hfin heof hfut hne
    refine ⟨[st], ?_, ?_⟩
    · rw [h6]
      have g := run_ghost (progOf F co').erase ((t.restore s1).deliver eofPiece [] st) rfl
      rw [g.2.2.1]
      rfl
    · have hb : (st == Status.err) = false := by cases st <;> simp_all
      simp [callThen, h2, hb, PSt.deliverRest]
  | cons c rest ih =>
    intro t co tr hco hTL hi hfin heof hfut hne
    obtain ⟨st, co', s1, h1, h2, h3, h4, h5, h6⟩ :=
      first_step F t co c (rest ++ [eofPiece]) hco hTL hi hfin heof hfut hne
    obtain ⟨a1, a2, a3, a4⟩ := addNextStream_read s1.lex c h5
    have hlex : ((t.restore s1).deliver c (rest ++ [eofPiece]) st).lex = s1.lex.addNextStream c := by
      simp only [PState.deliver, PState.restore, heof]
      have : (rest ++ [eofPiece]).isEmpty = false := by cases rest <;> rfl
      simp only [this, Bool.and_false]
      exact finished_false_eq _ a4
    rw [h6] at hne
    obtain ⟨X, x1, x2⟩ := ih ((t.restore s1).deliver c (rest ++ [eofPiece]) st) co' (st :: tr) h3 h4
      (by rw [Inv, hlex]; exact a3) (by rw [hlex]; exact a4) heof rfl hne
    refine ⟨st :: X, ?_, ?_⟩
    · rw [h6, x1]
      simp [PState.deliver, PState.restore]
    · have hb : (st == Status.err) = false := by cases st <;> simp_all
      rw [hlex] at x2
      have hex : ((t.restore s1).deliver c (rest ++ [eofPiece]) st).exprs = s1.exprs := rfl
      rw [hex] at x2
      rw [callThen, h2]
      simp only [hb, Bool.false_eq_true, ↓reduceIte]
      rw [deliverRest_cons_eq]
      have hni : (⟨s1.lex, s1.exprs, co'⟩ : PSt).newInput c = ⟨s1.lex.addNextStream c, s1.exprs, co'⟩ := rfl
      rw [hni, x2]
      simp

theorem parseChunks_run (cs : List (List Char)) :
    (parseChunks cs).status = statusOf (run (topLoop (fuelFor cs)) (initState LexState.init cs)).1 ∧
    (parseChunks cs).trace = (run (topLoop (fuelFor cs)) (initState LexState.init cs)).2.trace := by
  unfold parseChunks parseChunksFrom
  cases run (topLoop (fuelFor cs)) (initState LexState.init cs) with
  | mk fin s => cases fin <;> exact ⟨rfl, rfl⟩

theorem parseBy_trace_cons (F : Nat) (p : PSt) (c : List Char) (rest : List (List Char))
    (hF : fuelFor (c :: rest) ≤ F) (hne : (parseChunks (c :: rest)).status ≠ .err) :
    (p.parseBy F .resetAdd (c :: rest)).1.trace = (parseChunks (c :: rest)).trace := by
  obtain ⟨hst, htr⟩ := parseChunks_run (c :: rest)
  have hne0 : (run (topLoop (fuelFor (c :: rest))) (initState LexState.init (c :: rest))).1 ≠ .stop .err := by
    intro h; apply hne; rw [hst, h]; rfl
  have hmono := Parser.run_fuel_mono (fuelFor (c :: rest)) F hF _ hne0
  obtain ⟨a1, a2, a3, a4, a5, a6⟩ := resetAddNewInput_lex p c
  have hl : (initState LexState.init (c :: rest)).lex = (p.resetAddNewInput c).lex := rfl
  have hp : p.resetAddNewInput c = ⟨(initState LexState.init (c :: rest)).lex, (initState LexState.init (c :: rest)).exprs, none⟩ := rfl
  obtain ⟨X, x1, x2⟩ := chunk_trace F rest (initState LexState.init (c :: rest)) none [] (by simp)
    (.top F (Nat.le_refl _)) (by rw [Inv, hl]; exact a3) (by rw [hl]; exact a4) rfl rfl
    (by simp only [progOf, erase_topLoop]; rw [hmono]; exact hne0)
  simp only [progOf, erase_topLoop] at x1
  rw [hmono] at x1
  rw [parseBy_cons_callThen, hp, x2, htr, x1]
  rfl

/-- **The statuses of the intermediate calls are those the delivery model records** — for every
parser state, every list of pieces and every fuel `F ≥ fuelFor cs`, whenever the parse of the text
does not end in an error. -/
theorem parseBy_trace (F : Nat) (p : PSt) (cs : List (List Char)) (hF : fuelFor cs ≤ F)
    (hne : (parseChunks cs).status ≠ .err) :
    (p.parseBy F .resetAdd cs).1.trace = (parseChunks cs).trace := by
  cases cs with
  | nil => exact parseBy_trace_cons F p [] [] hF hne
  | cons c rest => exact parseBy_trace_cons F p c rest hF hne

end ZygoVerif.Parser
